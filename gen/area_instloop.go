package main

// Area "instloop" (property C03): regenerates from the CURRENT source
//
//	core/engine/instance.go     (*instance).Run: the skeleton of the function and the body of ONE loop iteration as a
//	                            list of `Pandora.Model.C03Loop.Instr`; newInstance: how often the schedule factory is called
//	core/engine/engine.go       buildNewInstanceSchedule: schedule factory per instance vs one shared object
//	core/coreutil/waiter.go     (*Waiter).IsFinished as a function of (ctx done, Left())
//	core/provider/queue.go      (*AmmoQueue).Acquire / Release statement lists
//
// into lean/Pandora/Gen/InstLoop.lean (core-only). Reading of Go used here (trusted, see notes/C03.md):
//
//	v, ok := i.provider.Acquire(); if !ok { [log]; return <non-nil> }   -> .acquireOrReturn v
//	defer i.provider.Release(v)                                         -> .deferRelease v
//	i.provider.Release(v)                                               -> .release v
//	if !waiter.Wait(ctx) { return nil }                                 -> .waitOrReturn
//	if !i.discardOverflow || !waiter.IsSlowDown(ctx) { A } [else { B }] -> .ifFire A [.orElse B] .endIf
//	if i.discardOverflow && waiter.IsSlowDown(ctx) { A } [else { B }]   -> .ifFire [B] .orElse A .endIf
//	i.metrics.N.Add(k)                                                  -> .metricAdd N k
//	i.gun.Shoot(v)                                                      -> .shoot v
//	i.aggregator.Report(netsample.DiscardedShootSample())               -> .reportDiscard
//	return nil                                                          -> .returnNil
//	i.log.*(...) and `if tag.Debug { i.log.*(...) }`                    -> (nothing: logging only)
//	anything else                                                       -> .other "<source>"   (never accepted by the bridge)
//
// The translation never fails on an unknown statement: it is passed on as `.other`, and the bridge obligation
// `bodyAccepted iterBody = true` fails in Lean.

import (
	"bytes"
	"fmt"
	"go/ast"
	"go/printer"
	"go/token"
	"go/types"
	"os"
	"strconv"
	"strings"

	"golang.org/x/tools/go/packages"
)

// instloopW: a package being read, with the translator's error list.
type instloopW struct {
	t    *tr
	pkg  *packages.Package
	recv string
}

func (x *instloopW) fail(n ast.Node, format string, a ...any) string {
	msg := fmt.Sprintf("%s: unsupported (instloop area): %s", x.pkg.Fset.Position(n.Pos()), fmt.Sprintf(format, a...))
	x.t.errs = append(x.t.errs, msg)
	return "(UNSUPPORTED)"
}

func (x *instloopW) src(n ast.Node) string {
	var b bytes.Buffer
	_ = printer.Fprint(&b, x.pkg.Fset, n)
	return strings.Join(strings.Fields(b.String()), " ")
}

// isCtxDone: `<-ctx.Done()`
func (x *instloopW) isCtxDone(e ast.Expr) bool {
	u, ok := e.(*ast.UnaryExpr)
	if !ok || u.Op != token.ARROW {
		return false
	}
	return x.src(u.X) == "ctx.Done()"
}

// instloopLoad loads several packages of the repo in ONE go/packages call (the shared dependencies are type-checked
// once).
func instloopLoad(paths ...string) map[string]*packages.Package {
	cfg := &packages.Config{Mode: packages.NeedName | packages.NeedSyntax | packages.NeedTypes | packages.NeedTypesInfo |
		packages.NeedFiles | packages.NeedImports | packages.NeedDeps, Dir: repo, BuildFlags: []string{"-tags=verif"}}
	pkgs, err := packages.Load(cfg, paths...)
	if err != nil {
		fmt.Fprintln(os.Stderr, "load:", err)
		os.Exit(1)
	}
	out := map[string]*packages.Package{}
	for _, p := range pkgs {
		if len(p.Errors) > 0 {
			fmt.Fprintln(os.Stderr, "load errors:", p.Errors)
			os.Exit(1)
		}
		out[p.PkgPath] = p
	}
	for _, want := range paths {
		if out[want] == nil {
			fmt.Fprintln(os.Stderr, "load: package not found:", want)
			os.Exit(1)
		}
	}
	return out
}

func instloopFindMethod(p *packages.Package, recvType, name string) *ast.FuncDecl {
	for _, f := range p.Syntax {
		for _, d := range f.Decls {
			fd, ok := d.(*ast.FuncDecl)
			if !ok || fd.Recv == nil || fd.Name.Name != name || len(fd.Recv.List) != 1 {
				continue
			}
			ty := fd.Recv.List[0].Type
			if st, ok := ty.(*ast.StarExpr); ok {
				ty = st.X
			}
			if id, ok := ty.(*ast.Ident); ok && id.Name == recvType {
				return fd
			}
		}
	}
	return nil
}

// instloopAccesses: the operations of a method on the shared state of its receiver, in source order: calls of methods
// of an atomic type (package path ending in "atomic") on a receiver field -> "<field>.<Method>", plain assignments to a
// receiver field -> "<field>.write". Function literals are not entered (`sync.Once.Do(func() {…})` is synchronised by
// the Once). Renaming locals or the receiver, and reordering statements that do not touch shared state, leave the
// list unchanged; one more / one fewer / another operation on the shared state changes it.
func instloopAccesses(p *packages.Package, fd *ast.FuncDecl) []string {
	out := []string{}
	if fd.Recv == nil || len(fd.Recv.List) != 1 || len(fd.Recv.List[0].Names) != 1 {
		return []string{"?receiver"}
	}
	recvObj := p.TypesInfo.Defs[fd.Recv.List[0].Names[0]]
	isRecvField := func(e ast.Expr) (string, bool) {
		se, ok := e.(*ast.SelectorExpr)
		if !ok {
			return "", false
		}
		id, ok := se.X.(*ast.Ident)
		if !ok || recvObj == nil || p.TypesInfo.Uses[id] != recvObj {
			return "", false
		}
		return se.Sel.Name, true
	}
	isAtomic := func(e ast.Expr) bool {
		tv, ok := p.TypesInfo.Types[e]
		if !ok {
			return false
		}
		ty := tv.Type
		if pt, ok := ty.(*types.Pointer); ok {
			ty = pt.Elem()
		}
		if nt, ok := ty.(*types.Named); ok && nt.Obj().Pkg() != nil {
			pp := nt.Obj().Pkg().Path()
			return pp == "sync/atomic" || strings.HasSuffix(pp, "/atomic")
		}
		return false
	}
	ast.Inspect(fd.Body, func(n ast.Node) bool {
		switch v := n.(type) {
		case *ast.FuncLit:
			return false
		case *ast.CallExpr:
			if se, ok := v.Fun.(*ast.SelectorExpr); ok {
				if f, ok := isRecvField(se.X); ok && isAtomic(se.X) {
					out = append(out, f+"."+se.Sel.Name)
				}
			}
		case *ast.AssignStmt:
			for _, l := range v.Lhs {
				if f, ok := isRecvField(l); ok {
					out = append(out, f+".write")
				}
			}
		case *ast.IncDecStmt:
			if f, ok := isRecvField(v.X); ok {
				out = append(out, f+".write")
			}
		}
		return true
	})
	return out
}

func init() {
	areas["instloop"] = area{
		pkgPath:   "github.com/yandex/pandora/core/engine",
		module:    "InstLoop",
		namespace: "Pandora.Gen.InstLoop",
		imports:   []string{"Pandora.Model.C03Loop", "Pandora.Model.C03Await", "Pandora.Model.C03Start", "Pandora.Model.C03Comp", "Pandora.Model.C03Pool"},
		extra:     instloopExtra,
	}
}

type instloopX struct {
	*instloopW
	recv string // receiver name of (*instance).Run
}

func instloopStr(s string) string { return strconv.Quote(s) }

// isLogStmt: `i.log.X(...)` or `if tag.Debug { i.log.X(...) ... }`
func (x *instloopX) isLogStmt(s ast.Stmt) bool {
	switch v := s.(type) {
	case *ast.ExprStmt:
		call, ok := v.X.(*ast.CallExpr)
		if !ok {
			return false
		}
		return strings.HasPrefix(x.src(call.Fun), x.recv+".log.")
	case *ast.IfStmt:
		if v.Init != nil || v.Else != nil || x.src(v.Cond) != "tag.Debug" {
			return false
		}
		for _, b := range v.Body.List {
			if !x.isLogStmt(b) {
				return false
			}
		}
		return true
	}
	return false
}

func (x *instloopX) dropLogs(stmts []ast.Stmt) []ast.Stmt {
	var out []ast.Stmt
	for _, s := range stmts {
		if !x.isLogStmt(s) {
			out = append(out, s)
		}
	}
	return out
}

// isReturnOf: block (logs dropped) is exactly `return <pred>`
func (x *instloopX) isReturnOf(b *ast.BlockStmt, pred func(string) bool) bool {
	l := x.dropLogs(b.List)
	if len(l) != 1 {
		return false
	}
	r, ok := l[0].(*ast.ReturnStmt)
	return ok && len(r.Results) == 1 && pred(x.src(r.Results[0]))
}

// body translates the statements of the iteration function into Instr terms.
func (x *instloopX) body(stmts []ast.Stmt, nested bool) []string {
	var out []string
	other := func(n ast.Node) { out = append(out, ".other "+instloopStr(x.src(n))) }
	stmts = x.dropLogs(stmts)
	for k := 0; k < len(stmts); k++ {
		s := stmts[k]
		switch v := s.(type) {
		case *ast.AssignStmt:
			// v, ok := i.provider.Acquire()  followed by  if !ok { return <non-nil> }
			if len(v.Lhs) == 2 && len(v.Rhs) == 1 && v.Tok == token.DEFINE && x.src(v.Rhs[0]) == x.recv+".provider.Acquire()" && k+1 < len(stmts) {
				okName := x.src(v.Lhs[1])
				if ifs, isIf := stmts[k+1].(*ast.IfStmt); isIf && ifs.Init == nil && ifs.Else == nil &&
					x.isReturnOf(ifs.Body, func(r string) bool { return r != "nil" }) {
					// the condition: a disjunction with `!ok` (also written `ok == false`) exactly once; every other disjunct is a
					// test on the VALUE of the item: `v == nil` -> "nil", anything else -> its source (a test the model does not know)
					notOk, tests := 0, []string{}
					vName := x.src(v.Lhs[0])
					for _, d := range instloopDisjuncts(ifs.Cond) {
						switch c := x.src(d); c {
						case "!" + okName, okName + " == false", "false == " + okName, "!(" + okName + ")":
							notOk++
						case vName + " == nil", "nil == " + vName:
							tests = append(tests, instloopStr("nil"))
						default:
							tests = append(tests, instloopStr(c))
						}
					}
					if notOk == 1 && len(tests) == 0 {
						out = append(out, ".acquireOrReturn "+instloopStr(vName))
						k++
						continue
					}
					if notOk == 1 {
						out = append(out, ".acquireOrReturnIf "+instloopStr(vName)+" ["+strings.Join(tests, ", ")+"] false")
						k++
						continue
					}
				}
			}
			other(s)
		case *ast.DeferStmt:
			if x.src(v.Call.Fun) == x.recv+".provider.Release" && len(v.Call.Args) == 1 {
				out = append(out, ".deferRelease "+instloopStr(x.src(v.Call.Args[0])))
				continue
			}
			other(s)
		case *ast.ExprStmt:
			call, ok := v.X.(*ast.CallExpr)
			if !ok {
				other(s)
				continue
			}
			fun := x.src(call.Fun)
			switch {
			case fun == x.recv+".provider.Release" && len(call.Args) == 1:
				out = append(out, ".release "+instloopStr(x.src(call.Args[0])))
			case fun == x.recv+".gun.Shoot" && len(call.Args) == 1:
				out = append(out, ".shoot "+instloopStr(x.src(call.Args[0])))
			case x.src(call) == x.recv+".aggregator.Report(netsample.DiscardedShootSample())":
				out = append(out, ".reportDiscard")
			case strings.HasPrefix(fun, x.recv+".metrics.") && strings.HasSuffix(fun, ".Add") && len(call.Args) == 1:
				name := strings.TrimSuffix(strings.TrimPrefix(fun, x.recv+".metrics."), ".Add")
				if tv, ok := x.pkg.TypesInfo.Types[call.Args[0]]; ok && tv.Value != nil && !strings.Contains(name, ".") {
					out = append(out, ".metricAdd "+instloopStr(name)+" ("+tv.Value.ExactString()+")")
				} else {
					other(s)
				}
			default:
				other(s)
			}
		case *ast.ReturnStmt:
			if len(v.Results) == 1 && x.src(v.Results[0]) == "nil" {
				out = append(out, ".returnNil")
				continue
			}
			other(s)
		case *ast.IfStmt:
			if v.Init != nil {
				other(s)
				continue
			}
			cond := x.src(v.Cond)
			if cond == "!waiter.Wait(ctx)" && v.Else == nil && x.isReturnOf(v.Body, func(r string) bool { return r == "nil" }) {
				out = append(out, ".waitOrReturn")
				continue
			}
			if cond == x.recv+".discardOverflow && waiter.IsSlowDown(ctx)" && !nested {
				// the negated form: `if discard { A } [else { B }]`  ==  `if fire { B } else { A }`
				out = append(out, ".ifFire")
				if v.Else != nil {
					eb, isBlock := v.Else.(*ast.BlockStmt)
					if !isBlock {
						other(v.Else)
					} else {
						out = append(out, x.body(eb.List, true)...)
					}
				}
				out = append(out, ".orElse")
				out = append(out, x.body(v.Body.List, true)...)
				out = append(out, ".endIf")
				continue
			}
			if cond == "!"+x.recv+".discardOverflow || !waiter.IsSlowDown(ctx)" && !nested {
				out = append(out, ".ifFire")
				out = append(out, x.body(v.Body.List, true)...)
				if v.Else != nil {
					eb, isBlock := v.Else.(*ast.BlockStmt)
					if !isBlock {
						other(v.Else)
					} else {
						out = append(out, ".orElse")
						out = append(out, x.body(eb.List, true)...)
					}
				}
				out = append(out, ".endIf")
				continue
			}
			other(s)
		default:
			other(s)
		}
	}
	return out
}

// instloopDisjuncts: the operands of a (possibly nested, parenthesised) `||`.
func instloopDisjuncts(e ast.Expr) []ast.Expr {
	switch v := e.(type) {
	case *ast.ParenExpr:
		return instloopDisjuncts(v.X)
	case *ast.BinaryExpr:
		if v.Op == token.LOR {
			return append(instloopDisjuncts(v.X), instloopDisjuncts(v.Y)...)
		}
	}
	return []ast.Expr{e}
}

// instloopIterHelper recognises `err := RECV.m(args…)` where m is a method of `instance` declared in the package (the
// iteration extracted into a helper) and returns the helper.
func instloopIterHelper(p *packages.Package, s ast.Stmt) (*ast.FuncDecl, string, bool) {
	as, ok := s.(*ast.AssignStmt)
	if !ok || len(as.Lhs) != 1 || len(as.Rhs) != 1 || as.Tok != token.DEFINE {
		return nil, "", false
	}
	call, ok := as.Rhs[0].(*ast.CallExpr)
	if !ok {
		return nil, "", false
	}
	se, ok := call.Fun.(*ast.SelectorExpr)
	if !ok {
		return nil, "", false
	}
	if _, isIdent := se.X.(*ast.Ident); !isIdent {
		return nil, "", false
	}
	fd := instloopFindMethod(p, "instance", se.Sel.Name)
	id, isId := as.Lhs[0].(*ast.Ident)
	if fd == nil || fd.Body == nil || !isId || fd.Type.Results.NumFields() != 1 || len(fd.Recv.List[0].Names) != 1 {
		return nil, "", false
	}
	return fd, id.Name, true
}

// instloopIterFunc recognises `err := func() error { BODY }()` and returns BODY.
func instloopIterFunc(s ast.Stmt) (*ast.BlockStmt, string, bool) {
	as, ok := s.(*ast.AssignStmt)
	if !ok || len(as.Lhs) != 1 || len(as.Rhs) != 1 || as.Tok != token.DEFINE {
		return nil, "", false
	}
	call, ok := as.Rhs[0].(*ast.CallExpr)
	if !ok || len(call.Args) != 0 {
		return nil, "", false
	}
	fl, ok := call.Fun.(*ast.FuncLit)
	if !ok || fl.Type.Params.NumFields() != 0 || fl.Type.Results.NumFields() != 1 {
		return nil, "", false
	}
	id, ok := as.Lhs[0].(*ast.Ident)
	if !ok {
		return nil, "", false
	}
	return fl.Body, id.Name, true
}

func instloopList(items []string, ind string) string {
	if len(items) == 0 {
		return "[]"
	}
	return "[\n" + ind + strings.Join(items, ",\n"+ind) + "]"
}

func instloopExtra(t *tr) string {
	var b strings.Builder
	b.WriteString("open Pandora.Model.C03Loop\n\n")
	en := t.pkg
	x := &instloopX{instloopW: &instloopW{t: t, pkg: en}, recv: "i"}

	// ---- (*instance).Run
	var iterBody *ast.BlockStmt
	iterRecv := ""
	if fd := instloopFindMethod(en, "instance", "Run"); fd != nil && len(fd.Recv.List[0].Names) == 1 {
		x.recv = fd.Recv.List[0].Names[0].Name
		var skel []string
		for _, s := range x.dropLogs(fd.Body.List) {
			switch v := s.(type) {
			case *ast.DeferStmt:
				if fl, ok := v.Call.Fun.(*ast.FuncLit); ok && len(v.Call.Args) == 0 {
					var inner []string
					for _, d := range x.dropLogs(fl.Body.List) {
						inner = append(inner, x.src(d))
					}
					skel = append(skel, instloopStr("defer func() { "+strings.Join(inner, "; ")+" }()"))
					continue
				}
				skel = append(skel, instloopStr(x.src(s)))
			case *ast.ForStmt:
				if v.Init == nil && v.Post == nil && v.Cond != nil {
					l := x.dropLogs(v.Body.List)
					if len(l) == 2 {
						if body, errName, ok := instloopIterFunc(l[0]); ok && iterBody == nil {
							iterBody = body
							skel = append(skel, instloopStr("for "+x.src(v.Cond)+" { "+errName+" := <iteration>(); "+x.src(l[1])+" }"))
							continue
						}
						// the iteration extracted into a method of the instance: its body is read with ITS receiver name
						if hfd, errName, ok := instloopIterHelper(en, l[0]); ok && iterBody == nil {
							iterBody = hfd.Body
							iterRecv = hfd.Recv.List[0].Names[0].Name
							skel = append(skel, instloopStr("for "+x.src(v.Cond)+" { "+errName+" := <iteration>(); "+x.src(l[1])+" }"))
							continue
						}
					}
				}
				skel = append(skel, instloopStr(x.src(s)))
			default:
				skel = append(skel, instloopStr(x.src(s)))
			}
		}
		b.WriteString("/-- regenerated from `core/engine/instance.go` `(*instance).Run`: its top-level statements (logging dropped; the\niteration function abbreviated) -/\n")
		b.WriteString("def runSkeleton : List String := " + instloopList(skel, "  ") + "\n\n")
		if iterBody != nil {
			b.WriteString("/-- regenerated from `(*instance).Run`: the body of the iteration function, in source order -/\n")
			runRecv := x.recv
			if iterRecv != "" {
				x.recv = iterRecv
			}
			b.WriteString("def iterBody : List Instr := " + instloopList(x.body(iterBody.List, false), "  ") + "\n\n")
			x.recv = runRecv
		} else {
			t.errs = append(t.errs, "(*instance).Run: loop `for COND { err := func() error {...}(); if err != nil { return err } }` not found")
			b.WriteString("def iterBody : List Instr := [.other \"iteration function not found\"]\n\n")
		}
	} else {
		t.errs = append(t.errs, "method (*instance).Run not found")
	}

	// ---- newInstance: calls of the schedule factory, and where the result goes
	if fd := findFunc(en, "newInstance"); fd != nil {
		calls := 0
		field := ""
		ast.Inspect(fd.Body, func(n ast.Node) bool {
			switch v := n.(type) {
			case *ast.CallExpr:
				if x.src(v.Fun) == "deps.newSchedule" {
					calls++
				}
			case *ast.KeyValueExpr:
				if x.src(v.Key) == "schedule" {
					field = x.src(v.Value)
				}
			}
			return true
		})
		schedVar := ""
		for _, s := range fd.Body.List {
			if as, ok := s.(*ast.AssignStmt); ok && len(as.Rhs) == 1 && x.src(as.Rhs[0]) == "deps.newSchedule()" && len(as.Lhs) >= 1 {
				schedVar = x.src(as.Lhs[0])
			}
		}
		b.WriteString("/-- regenerated from `core/engine/instance.go` `newInstance`: number of `deps.newSchedule()` calls -/\n")
		b.WriteString("def newInstanceScheduleCalls : Nat := " + strconv.Itoa(calls) + "\n\n")
		b.WriteString("/-- regenerated from `newInstance`: the instance's `schedule` field is the result of that call -/\n")
		b.WriteString("def newInstanceScheduleIsFactoryResult : Bool := " + strconv.FormatBool(schedVar != "" && field == schedVar) + "\n\n")
	} else {
		t.errs = append(t.errs, "func newInstance not found")
	}
	// the waiter of Run is built on that schedule
	waiterOn := ""
	if fd := instloopFindMethod(en, "instance", "Run"); fd != nil {
		ast.Inspect(fd.Body, func(n ast.Node) bool {
			if as, ok := n.(*ast.AssignStmt); ok && len(as.Lhs) == 1 && len(as.Rhs) == 1 && x.src(as.Lhs[0]) == "waiter" {
				waiterOn = x.src(as.Rhs[0])
			}
			return true
		})
	}
	b.WriteString("/-- regenerated from `(*instance).Run`: what `waiter` is -/\n")
	b.WriteString("def runWaiter : String := " + instloopStr(waiterOn) + "\n\n")

	// ---- buildNewInstanceSchedule
	if fd := instloopFindMethod(en, "instancePool", "buildNewInstanceSchedule"); fd != nil {
		ok := false
		l := fd.Body.List
		recv := "p"
		if len(fd.Recv.List[0].Names) == 1 {
			recv = fd.Recv.List[0].Names[0].Name
		}
		if len(l) >= 3 {
			first, isIf := l[0].(*ast.IfStmt)
			if isIf && first.Init == nil && first.Else == nil && x.src(first.Cond) == recv+".RPSPerInstance" && len(first.Body.List) == 1 &&
				x.src(first.Body.List[0]) == "return "+recv+".NewRPSSchedule, nil" {
				// exactly one call of the factory in the rest, bound to a variable that the returned closure returns
				calls := 0
				shared := ""
				for _, s := range l[1:] {
					ast.Inspect(s, func(n ast.Node) bool {
						if c, isCall := n.(*ast.CallExpr); isCall && x.src(c.Fun) == recv+".NewRPSSchedule" {
							calls++
						}
						return true
					})
					if as, isAs := s.(*ast.AssignStmt); isAs && len(as.Rhs) == 1 && x.src(as.Rhs[0]) == recv+".NewRPSSchedule()" && len(as.Lhs) == 2 {
						shared = x.src(as.Lhs[0])
					}
				}
				last, isRet := l[len(l)-1].(*ast.ReturnStmt)
				if isRet && calls == 1 && shared != "" && len(last.Results) == 2 {
					if fl, isFl := last.Results[0].(*ast.FuncLit); isFl && len(fl.Body.List) == 1 {
						if r, isR := fl.Body.List[0].(*ast.ReturnStmt); isR && len(r.Results) == 2 && x.src(r.Results[0]) == shared {
							ok = true
						}
					}
				}
			}
		}
		b.WriteString("/-- regenerated from `core/engine/engine.go` `(*instancePool).buildNewInstanceSchedule`: with rps-per-instance the\nfactory itself is handed to the instances, otherwise one schedule is built once and a closure returns that object -/\n")
		if ok {
			b.WriteString("def scheduleSource (rpsPerInstance : Bool) : SchedSource :=\n  if rpsPerInstance then .factoryPerInstance else .sharedObject\n\n")
		} else {
			x.fail(fd, "buildNewInstanceSchedule shape")
		}
	} else {
		t.errs = append(t.errs, "method (*instancePool).buildNewInstanceSchedule not found")
	}

	// ---- coreutil: (*Waiter).IsFinished
	others := instloopLoad("github.com/yandex/pandora/core/coreutil", "github.com/yandex/pandora/core/provider", "github.com/yandex/pandora/core/schedule")
	cu := others["github.com/yandex/pandora/core/coreutil"]
	cx := &instloopW{t: t, pkg: cu, recv: "w"}
	if fd := instloopFindMethod(cu, "Waiter", "IsFinished"); fd != nil && len(fd.Recv.List[0].Names) == 1 {
		cx.recv = fd.Recv.List[0].Names[0].Name
		ok := false
		// shape 2: `if ctx.Err() != nil { return A }; [x := w.sched.Left();] return (x | w.sched.Left()) OP lit`
		if n := len(fd.Body.List); n == 2 || n == 3 {
			if ifs, isIf := fd.Body.List[0].(*ast.IfStmt); isIf && ifs.Init == nil && ifs.Else == nil && len(ifs.Body.List) == 1 &&
				(cx.src(ifs.Cond) == "ctx.Err() != nil" || cx.src(ifs.Cond) == "nil != ctx.Err()") {
				r0, isR0 := ifs.Body.List[0].(*ast.ReturnStmt)
				r1, isR1 := fd.Body.List[n-1].(*ast.ReturnStmt)
				leftName := cx.recv + ".sched.Left()"
				if n == 3 {
					leftName = ""
					if as, isAs := fd.Body.List[1].(*ast.AssignStmt); isAs && as.Tok == token.DEFINE && len(as.Lhs) == 1 && len(as.Rhs) == 1 &&
						cx.src(as.Rhs[0]) == cx.recv+".sched.Left()" {
						leftName = cx.src(as.Lhs[0])
					}
				}
				if isR0 && isR1 && leftName != "" && len(r0.Results) == 1 && len(r1.Results) == 1 {
					if be, isBin := r1.Results[0].(*ast.BinaryExpr); isBin && cx.src(be.X) == leftName {
						if lit, isLit := be.Y.(*ast.BasicLit); isLit && lit.Kind == token.INT {
							op := map[token.Token]string{token.EQL: "=", token.LEQ: "≤", token.LSS: "<", token.GEQ: "≥", token.GTR: ">", token.NEQ: "≠"}[be.Op]
							if op != "" {
								ok = true
								b.WriteString("/-- regenerated from `core/coreutil/waiter.go` method `(*Waiter).IsFinished` (`left` = `sched.Left()`) -/\n")
								b.WriteString("def isFinished (ctxDone : Bool) (left : Int) : Bool :=\n  if ctxDone then " + cx.src(r0.Results[0]) + " else decide (left " + op + " (" + lit.Value + " : Int))\n\n")
							}
						}
					}
				}
			}
		}
		if len(fd.Body.List) == 1 {
			if sel, isSel := fd.Body.List[0].(*ast.SelectStmt); isSel && len(sel.Body.List) == 2 {
				c0 := sel.Body.List[0].(*ast.CommClause)
				c1 := sel.Body.List[1].(*ast.CommClause)
				if c0.Comm != nil && c1.Comm == nil && len(c0.Body) == 1 && len(c1.Body) == 1 {
					es, isEs := c0.Comm.(*ast.ExprStmt)
					r0, isR0 := c0.Body[0].(*ast.ReturnStmt)
					r1, isR1 := c1.Body[0].(*ast.ReturnStmt)
					if isEs && isR0 && isR1 && cx.isCtxDone(es.X) && len(r0.Results) == 1 && len(r1.Results) == 1 {
						if be, isBin := r1.Results[0].(*ast.BinaryExpr); isBin && cx.src(be.X) == cx.recv+".sched.Left()" {
							if lit, isLit := be.Y.(*ast.BasicLit); isLit && lit.Kind == token.INT {
								op := map[token.Token]string{token.EQL: "=", token.LEQ: "≤", token.LSS: "<", token.GEQ: "≥", token.GTR: ">", token.NEQ: "≠"}[be.Op]
								if op != "" {
									ok = true
									b.WriteString("/-- regenerated from `core/coreutil/waiter.go` method `(*Waiter).IsFinished` (`left` = `sched.Left()`) -/\n")
									b.WriteString("def isFinished (ctxDone : Bool) (left : Int) : Bool :=\n  if ctxDone then " + cx.src(r0.Results[0]) + " else decide (left " + op + " (" + lit.Value + " : Int))\n\n")
								}
							}
						}
					}
				}
			}
		}
		if !ok {
			cx.fail(fd, "IsFinished shape")
		}
	} else {
		t.errs = append(t.errs, "method (*Waiter).IsFinished not found")
	}

	// ---- coreutil: (*Waiter).Wait draws exactly one token and fails without one
	if fd := instloopFindMethod(cu, "Waiter", "Wait"); fd != nil && len(fd.Recv.List[0].Names) == 1 {
		recv := fd.Recv.List[0].Names[0].Name
		calls := 0
		ast.Inspect(fd.Body, func(n ast.Node) bool {
			if c, ok := n.(*ast.CallExpr); ok && cx.src(c.Fun) == recv+".sched.Next" {
				calls++
			}
			return true
		})
		failsWithout := false
		inLoop := false
		ast.Inspect(fd.Body, func(n ast.Node) bool {
			switch n.(type) {
			case *ast.ForStmt, *ast.RangeStmt:
				inLoop = true
			}
			return true
		})
		for k, st := range fd.Body.List {
			as, ok := st.(*ast.AssignStmt)
			if !ok || len(as.Lhs) != 2 || len(as.Rhs) != 1 || cx.src(as.Rhs[0]) != recv+".sched.Next()" || k+1 >= len(fd.Body.List) {
				continue
			}
			okName := cx.src(as.Lhs[1])
			if ifs, isIf := fd.Body.List[k+1].(*ast.IfStmt); isIf && ifs.Init == nil && ifs.Else == nil && cx.src(ifs.Cond) == "!"+okName && len(ifs.Body.List) > 0 {
				if r, isRet := ifs.Body.List[len(ifs.Body.List)-1].(*ast.ReturnStmt); isRet && len(r.Results) == 1 && cx.src(r.Results[0]) == "false" {
					failsWithout = true
				}
			}
		}
		b.WriteString("/-- regenerated from `core/coreutil/waiter.go` method `(*Waiter).Wait`: number of `sched.Next()` call sites (none inside a loop: " + strconv.FormatBool(!inLoop) + ") -/\n")
		n := calls
		if inLoop {
			n = 99
		}
		b.WriteString("def waitNextCalls : Nat := " + strconv.Itoa(n) + "\n\n")
		b.WriteString("/-- regenerated from `(*Waiter).Wait`: `next, ok := w.sched.Next()` is a top-level statement directly followed by `if !ok { …; return false }` -/\n")
		b.WriteString("def waitFailsWithoutToken : Bool := " + strconv.FormatBool(failsWithout) + "\n\n")
	} else {
		t.errs = append(t.errs, "method (*Waiter).Wait not found")
	}

	// ---- provider: AmmoQueue
	pr := others["github.com/yandex/pandora/core/provider"]
	px := &instloopW{t: t, pkg: pr}
	for _, m := range []string{"Acquire", "Release"} {
		if fd := instloopFindMethod(pr, "AmmoQueue", m); fd != nil {
			var ss []string
			for _, s := range fd.Body.List {
				ss = append(ss, instloopStr(px.src(s)))
			}
			// `a, ok := <-p.OutQueue; return a, ok` with the local names normalised
			if m == "Acquire" && len(fd.Body.List) == 2 {
				as, isAs := fd.Body.List[0].(*ast.AssignStmt)
				rt, isRt := fd.Body.List[1].(*ast.ReturnStmt)
				if isAs && isRt && len(as.Lhs) == 2 && len(as.Rhs) == 1 && len(rt.Results) == 2 &&
					px.src(as.Lhs[0]) == px.src(rt.Results[0]) && px.src(as.Lhs[1]) == px.src(rt.Results[1]) && px.src(as.Lhs[0]) != px.src(as.Lhs[1]) {
					ss = []string{instloopStr("$1, $2 := " + px.src(as.Rhs[0])), instloopStr("return $1, $2")}
				}
			}
			b.WriteString("/-- regenerated from `core/provider/queue.go` method `(*AmmoQueue)." + m + "` -/\n")
			b.WriteString("def queue" + m + " : List String := [" + strings.Join(ss, ", ") + "]\n\n")
		} else {
			t.errs = append(t.errs, "method (*AmmoQueue)."+m+" not found")
		}
	}
	// ---- schedule: the shared-state operations of the leaf profile's Next / Left (core/schedule/do_at.go)
	sp := others["github.com/yandex/pandora/core/schedule"]
	for _, m := range []string{"Next", "Left"} {
		if fd := instloopFindMethod(sp, "doAtSchedule", m); fd != nil {
			var ss []string
			for _, a := range instloopAccesses(sp, fd) {
				ss = append(ss, instloopStr(a))
			}
			b.WriteString("/-- regenerated from `core/schedule/do_at.go` method `(*doAtSchedule)." + m + "`: its operations on the schedule's shared\nstate in source order (atomic operations on receiver fields, plain writes of receiver fields; function literals not entered) -/\n")
			b.WriteString("def sched" + m + "Accesses : List String := [" + strings.Join(ss, ", ") + "]\n\n")
		} else {
			t.errs = append(t.errs, "method (*doAtSchedule)."+m+" not found")
		}
	}
	// ---- engine.go: the pool's bookkeeping (*runAwaitHandle).awaitRun / checkAllInstancesAreFinished
	b.WriteString(instloopAwait(t, en))
	// ---- engine.go: startInstances / runNewInstance / runAsync; plugin: the factory built by the registry (area_instloop_start.go)
	b.WriteString(instloopStart(t, en))
	// ---- schedule: the composite profile at the granularity of its lock sections (area_instloop_comp.go)
	b.WriteString(instloopComp(t, sp))
	// ---- round 6: the wiring of the instances' dependencies, the out-of-ammo sentinel, Counter, discarded sample, Dummy (area_instloop_r6.go)
	b.WriteString(instloopR6(t, en))
	return b.String()
}

// ---------------------------------------------------------------- awaitRun

// instloopAwaitX translates the statements of awaitRun's `case` bodies and of checkAllInstancesAreFinished into
// `Pandora.Model.C03Await.AInstr` terms. recv = the receiver's name, bound = the variable the case receives into.
//
//	ah.<chan> = nil                                          -> .closeChan <chan>
//	ah.toWait--                                              -> .decToWait
//	ah.startedInstances = <bound>.Started                    -> .setStarted
//	ah.awaitedInstances++                                    -> .incAwaited
//	if !errutil.IsCtxError(ah.runCtx|instanceStartCtx, E) {A} -> .ifBad ctx A .endIf        (E = <bound> or <bound>.Err)
//	if <bound>.Err == outOfAmmoErr {A} [else if !IsCtxError… {B} | else {B}] -> .ifOutOfAmmo A (.elseIfBad ctx B | .orElse B) .endIf
//	if !ah.isStartFinished() {A}                             -> .ifStartOpen A .endIf
//	ah.onErrAwaited(…) / ah.instanceStartCancel() / ah.runCancel() / ah.checkAllInstancesAreFinished()
//	close(ah.runRes) [; x, ok := <-ah.runRes; if ok { ah.log.Panic(…) }]   -> .closeRunRes
//	ah.log.*(…), `if ent := ah.log.Check(…); ent != nil { ent.Write(…) }`  -> (nothing: logging only)
//	anything else                                            -> .other "<source>"   (the bridge rejects it)
type instloopAwaitX struct {
	*instloopW
	bound string
}

var instloopChans = map[string]string{"providerErr": ".provider", "aggregatorErr": ".aggregator", "startRes": ".start", "runRes": ".run"}

func (x *instloopAwaitX) isLog(s ast.Stmt) bool {
	switch v := s.(type) {
	case *ast.ExprStmt:
		if c, ok := v.X.(*ast.CallExpr); ok {
			f := x.src(c.Fun)
			return strings.HasPrefix(f, x.recv+".log.") && f != x.recv+".log.Panic" && f != x.recv+".log.Fatal"
		}
	case *ast.IfStmt:
		if v.Init != nil && v.Else == nil && strings.Contains(x.src(v.Init), x.recv+".log.Check(") {
			for _, bs := range v.Body.List {
				es, ok := bs.(*ast.ExprStmt)
				if !ok || !strings.HasPrefix(x.src(es.X), "ent.Write(") {
					return false
				}
			}
			return true
		}
	}
	return false
}

// pureLocal: `a, b := e1, e2` or `_ = e` whose right-hand sides contain no call and no channel operation: it only
// names values, the handle is not touched.
func (x *instloopAwaitX) pureLocal(v *ast.AssignStmt) bool {
	if v.Tok != token.DEFINE {
		for _, l := range v.Lhs {
			if id, ok := l.(*ast.Ident); !ok || id.Name != "_" {
				return false
			}
		}
	} else {
		for _, l := range v.Lhs {
			if _, ok := l.(*ast.Ident); !ok {
				return false
			}
		}
	}
	pure := true
	for _, r := range v.Rhs {
		ast.Inspect(r, func(n ast.Node) bool {
			switch u := n.(type) {
			case *ast.CallExpr, *ast.FuncLit:
				pure = false
			case *ast.UnaryExpr:
				if u.Op == token.ARROW {
					pure = false
				}
			}
			return pure
		})
	}
	return pure
}

// badCtx: `!errutil.IsCtxError(ah.<ctx>, E)` with E the received error -> ".run" / ".start"
func (x *instloopAwaitX) badCtx(e ast.Expr) (string, bool) {
	u, ok := e.(*ast.UnaryExpr)
	if !ok || u.Op != token.NOT {
		return "", false
	}
	c, ok := u.X.(*ast.CallExpr)
	if !ok || x.src(c.Fun) != "errutil.IsCtxError" || len(c.Args) != 2 {
		return "", false
	}
	if a := x.src(c.Args[1]); a != x.bound && a != x.bound+".Err" {
		return "", false
	}
	switch x.src(c.Args[0]) {
	case x.recv + ".runCtx":
		return ".run", true
	case x.recv + ".instanceStartCtx":
		return ".start", true
	}
	return "", false
}

func (x *instloopAwaitX) stmts(list []ast.Stmt) []string {
	var out []string
	other := func(n ast.Node) { out = append(out, ".other "+instloopStr(x.src(n))) }
	for k := 0; k < len(list); k++ {
		s := list[k]
		if x.isLog(s) {
			continue
		}
		switch v := s.(type) {
		case *ast.AssignStmt:
			if x.pureLocal(v) {
				continue
			}
			if len(v.Lhs) == 1 && len(v.Rhs) == 1 && v.Tok == token.ASSIGN {
				l, r := x.src(v.Lhs[0]), x.src(v.Rhs[0])
				if ch, ok := instloopChans[strings.TrimPrefix(l, x.recv+".")]; ok && strings.HasPrefix(l, x.recv+".") && r == "nil" {
					out = append(out, ".closeChan "+ch)
					continue
				}
				if l == x.recv+".startedInstances" && r == x.bound+".Started" {
					out = append(out, ".setStarted")
					continue
				}
			}
			other(s)
		case *ast.IncDecStmt:
			t := x.src(v.X)
			switch {
			case t == x.recv+".toWait" && v.Tok == token.DEC:
				out = append(out, ".decToWait")
			case t == x.recv+".awaitedInstances" && v.Tok == token.INC:
				out = append(out, ".incAwaited")
			default:
				other(s)
			}
		case *ast.ExprStmt:
			c, ok := v.X.(*ast.CallExpr)
			if !ok {
				other(s)
				continue
			}
			switch f := x.src(c.Fun); {
			case f == x.recv+".onErrAwaited":
				out = append(out, ".onErr")
			case f == x.recv+".instanceStartCancel" && len(c.Args) == 0:
				out = append(out, ".startCancel")
			case f == x.recv+".runCancel" && len(c.Args) == 0:
				out = append(out, ".runCancel")
			case f == x.recv+".checkAllInstancesAreFinished" && len(c.Args) == 0:
				out = append(out, ".checkAll")
			case f == "close" && len(c.Args) == 1 && x.src(c.Args[0]) == x.recv+".runRes":
				out = append(out, ".closeRunRes")
				// the assertion that no result is left: `v, ok := <-ah.runRes; if ok { ah.log.Panic(…) }`
				if k+2 < len(list) {
					as, isAs := list[k+1].(*ast.AssignStmt)
					ifs, isIf := list[k+2].(*ast.IfStmt)
					if isAs && isIf && len(as.Lhs) == 2 && len(as.Rhs) == 1 && x.src(as.Rhs[0]) == "<-"+x.recv+".runRes" &&
						ifs.Init == nil && ifs.Else == nil && x.src(ifs.Cond) == x.src(as.Lhs[1]) && len(ifs.Body.List) == 1 &&
						strings.HasPrefix(x.src(ifs.Body.List[0]), x.recv+".log.Panic(") {
						k += 2
					}
				}
			default:
				other(s)
			}
		case *ast.IfStmt:
			if v.Init != nil {
				other(s)
				continue
			}
			cond := x.src(v.Cond)
			elseBlock := func() bool { // translates v.Else (nil | block | else-if on IsCtxError); false = unknown shape
				switch e := v.Else.(type) {
				case nil:
					return true
				case *ast.BlockStmt:
					out = append(out, ".orElse")
					out = append(out, x.stmts(e.List)...)
					return true
				case *ast.IfStmt:
					if ctx, ok := x.badCtx(e.Cond); ok && e.Init == nil && e.Else == nil {
						out = append(out, ".elseIfBad "+ctx)
						out = append(out, x.stmts(e.Body.List)...)
						return true
					}
				}
				return false
			}
			if ctx, ok := x.badCtx(v.Cond); ok && v.Else == nil {
				out = append(out, ".ifBad "+ctx)
				out = append(out, x.stmts(v.Body.List)...)
				out = append(out, ".endIf")
				continue
			}
			if cond == x.bound+".Err == outOfAmmoErr" {
				save := len(out)
				out = append(out, ".ifOutOfAmmo")
				out = append(out, x.stmts(v.Body.List)...)
				if !elseBlock() {
					out = out[:save]
					other(s)
					continue
				}
				out = append(out, ".endIf")
				continue
			}
			if cond == "!"+x.recv+".isStartFinished()" && v.Else == nil {
				out = append(out, ".ifStartOpen")
				out = append(out, x.stmts(v.Body.List)...)
				out = append(out, ".endIf")
				continue
			}
			other(s)
		default:
			other(s)
		}
	}
	return out
}

// cond translates the test of checkAllInstancesAreFinished into Lean over (sf : Bool) (aw st : Int).
func (x *instloopAwaitX) cond(e ast.Expr) (string, bool) {
	switch v := e.(type) {
	case *ast.ParenExpr:
		return x.cond(v.X)
	case *ast.UnaryExpr:
		if v.Op == token.NOT {
			if a, ok := x.cond(v.X); ok {
				return "(!" + a + ")", true
			}
		}
	case *ast.CallExpr:
		if x.src(v) == x.recv+".isStartFinished()" {
			return "sf", true
		}
	case *ast.BinaryExpr:
		switch v.Op {
		case token.LAND, token.LOR:
			a, ok1 := x.cond(v.X)
			c, ok2 := x.cond(v.Y)
			if ok1 && ok2 {
				return "(" + a + map[token.Token]string{token.LAND: " && ", token.LOR: " || "}[v.Op] + c + ")", true
			}
		case token.EQL, token.NEQ, token.LSS, token.LEQ, token.GTR, token.GEQ:
			num := func(n ast.Expr) (string, bool) {
				switch x.src(n) {
				case x.recv + ".awaitedInstances":
					return "aw", true
				case x.recv + ".startedInstances":
					return "st", true
				}
				if tv, ok := x.pkg.TypesInfo.Types[n]; ok && tv.Value != nil {
					return "(" + tv.Value.ExactString() + " : Int)", true
				}
				return "", false
			}
			a, ok1 := num(v.X)
			c, ok2 := num(v.Y)
			if ok1 && ok2 {
				op := map[token.Token]string{token.EQL: "=", token.NEQ: "≠", token.LSS: "<", token.LEQ: "≤", token.GTR: ">", token.GEQ: "≥"}[v.Op]
				return "decide (" + a + " " + op + " " + c + ")", true
			}
		}
	}
	return "", false
}

func instloopAwait(t *tr, en *packages.Package) string {
	var b strings.Builder
	cases := map[string][]string{}
	loop := "?"
	if fd := instloopFindMethod(en, "runAwaitHandle", "awaitRun"); fd != nil && len(fd.Recv.List[0].Names) == 1 {
		x := &instloopAwaitX{instloopW: &instloopW{t: t, pkg: en, recv: fd.Recv.List[0].Names[0].Name}}
		if len(fd.Body.List) == 1 {
			if fs, ok := fd.Body.List[0].(*ast.ForStmt); ok && fs.Init == nil && fs.Post == nil && fs.Cond != nil && len(fs.Body.List) == 1 {
				if sel, ok := fs.Body.List[0].(*ast.SelectStmt); ok {
					loop = "for " + strings.ReplaceAll(x.src(fs.Cond), x.recv+".", "$.") + " { select }"
					for _, cl := range sel.Body.List {
						cc := cl.(*ast.CommClause)
						ch, bound := "", ""
						switch c := cc.Comm.(type) {
						case *ast.AssignStmt:
							if len(c.Lhs) == 1 && len(c.Rhs) == 1 && c.Tok == token.DEFINE {
								if u, ok := c.Rhs[0].(*ast.UnaryExpr); ok && u.Op == token.ARROW {
									ch = strings.TrimPrefix(x.src(u.X), x.recv+".")
									bound = x.src(c.Lhs[0])
								}
							}
						}
						lc, known := instloopChans[ch]
						if !known {
							t.errs = append(t.errs, "awaitRun: unknown select case "+x.src(cc.Comm))
							continue
						}
						x.bound = bound
						cases[lc] = x.stmts(cc.Body)
					}
				}
			}
		}
		if loop == "?" {
			x.fail(fd, "awaitRun shape: `for COND { select { … } }` expected")
		}
	} else {
		t.errs = append(t.errs, "method (*runAwaitHandle).awaitRun not found")
	}
	b.WriteString("/-- regenerated from `core/engine/engine.go` `(*runAwaitHandle).awaitRun`: the body of each `case` of its `select` -/\n")
	b.WriteString("def awaitCase : Pandora.Model.C03Await.Chan → List Pandora.Model.C03Await.AInstr\n")
	for _, c := range []string{".provider", ".aggregator", ".start", ".run"} {
		l, ok := cases[c]
		if !ok {
			l = []string{".other \"no such case\""}
		}
		b.WriteString("  | " + c + " => " + instloopList(l, "      ") + "\n")
	}
	b.WriteString("\n/-- regenerated from `awaitRun`: the loop around the `select` -/\n")
	b.WriteString("def awaitLoop : String := " + instloopStr(loop) + "\n\n")

	// checkAllInstancesAreFinished
	cond, body := "false", []string{".other \"checkAllInstancesAreFinished not found\""}
	if fd := instloopFindMethod(en, "runAwaitHandle", "checkAllInstancesAreFinished"); fd != nil && len(fd.Recv.List[0].Names) == 1 {
		x := &instloopAwaitX{instloopW: &instloopW{t: t, pkg: en, recv: fd.Recv.List[0].Names[0].Name}, bound: "\x00"}
		l := fd.Body.List
		ok := false
		// `v := COND; if !v { return }`  or  `if !(COND) { return }`
		if len(l) >= 2 {
			if as, isAs := l[0].(*ast.AssignStmt); isAs && len(as.Lhs) == 1 && len(as.Rhs) == 1 && as.Tok == token.DEFINE {
				if ifs, isIf := l[1].(*ast.IfStmt); isIf && ifs.Init == nil && ifs.Else == nil && x.src(ifs.Cond) == "!"+x.src(as.Lhs[0]) &&
					len(ifs.Body.List) == 1 && x.src(ifs.Body.List[0]) == "return" {
					if c, cok := x.cond(as.Rhs[0]); cok {
						cond, body, ok = c, x.stmts(l[2:]), true
					}
				}
			}
		}
		if !ok && len(l) >= 1 {
			if ifs, isIf := l[0].(*ast.IfStmt); isIf && ifs.Init == nil && ifs.Else == nil && len(ifs.Body.List) == 1 && x.src(ifs.Body.List[0]) == "return" {
				if u, isU := ifs.Cond.(*ast.UnaryExpr); isU && u.Op == token.NOT {
					if c, cok := x.cond(u.X); cok {
						cond, body, ok = c, x.stmts(l[1:]), true
					}
				}
			}
		}
		if !ok {
			x.fail(fd, "checkAllInstancesAreFinished shape")
		}
	} else {
		t.errs = append(t.errs, "method (*runAwaitHandle).checkAllInstancesAreFinished not found")
	}
	b.WriteString("/-- regenerated from `(*runAwaitHandle).checkAllInstancesAreFinished`: it goes on only when this holds\n(`sf` = `isStartFinished()`, `aw` = `awaitedInstances`, `st` = `startedInstances`) -/\n")
	b.WriteString("def awaitCheckCond (sf : Bool) (aw st : Int) : Bool := " + cond + "\n\n")
	b.WriteString("/-- regenerated from `checkAllInstancesAreFinished`: what it does then -/\n")
	b.WriteString("def awaitCheckBody : List Pandora.Model.C03Await.AInstr := " + instloopList(body, "  ") + "\n\n")

	// isStartFinished
	sfin := "?"
	if fd := instloopFindMethod(en, "runAwaitHandle", "isStartFinished"); fd != nil && len(fd.Recv.List[0].Names) == 1 && len(fd.Body.List) == 1 {
		w := &instloopW{t: t, pkg: en}
		if r, ok := fd.Body.List[0].(*ast.ReturnStmt); ok && len(r.Results) == 1 {
			sfin = strings.ReplaceAll(w.src(r.Results[0]), fd.Recv.List[0].Names[0].Name+".", "$.")
		}
	}
	b.WriteString("/-- regenerated from `(*runAwaitHandle).isStartFinished`: what it returns -/\n")
	b.WriteString("def awaitStartFinished : String := " + instloopStr(sfin) + "\n\n")

	// newAwaitRunHandle: the initial counters
	toWait, started := "0", "0"
	if fd := instloopFindMethod(en, "instancePool", "newAwaitRunHandle"); fd != nil {
		ast.Inspect(fd.Body, func(n ast.Node) bool {
			kv, ok := n.(*ast.KeyValueExpr)
			if !ok {
				return true
			}
			k, isId := kv.Key.(*ast.Ident)
			if !isId {
				return true
			}
			if tv, ok := en.TypesInfo.Types[kv.Value]; ok && tv.Value != nil {
				switch k.Name {
				case "toWait":
					toWait = tv.Value.ExactString()
				case "startedInstances":
					started = tv.Value.ExactString()
				}
			}
			return true
		})
	} else {
		t.errs = append(t.errs, "method (*instancePool).newAwaitRunHandle not found")
	}
	b.WriteString("/-- regenerated from `(*instancePool).newAwaitRunHandle`: the initial `toWait` and `startedInstances` -/\n")
	b.WriteString("def awaitInitToWait : Int := " + toWait + "\n")
	b.WriteString("def awaitInitStarted : Int := " + started + "\n\n")
	return b.String()
}
