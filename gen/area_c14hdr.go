package main

// Area "c14hdr" (property C14, round 2): where the headers of a delivered request come from.  Regenerates from the
// CURRENT source into lean/Pandora/Gen/C14Hdr.lean
//
//	components/providers/http/decoders/uri.go      readLine  / Scan   the header-line branch (Set on the accumulator), the map an entry
//	components/providers/http/decoders/uripost.go  readBlock / Scan   gets (`header`), WHETHER THAT MAP IS A FRESH CLONE, the merge of the
//	                                                                  `headers` option, what Scan does with the accumulator when it wraps
//	components/providers/http/decoders/jsonline.go Scan, readArray    the map an entry gets (clone of the option + own headers), fresh?
//	components/providers/http/decoders/raw.go Scan, ammo/raw_ammo.go Setup   the option goes to RawAmmo.Setup, which clones it
//	components/providers/http/util/request.go EnrichRequestWithHeaders      one iteration of its loop, statement by statement
//
// Reading of Go used here (trusted, see notes/C14.md).  Local variables are alpha-renamed (v1, v2, … in order of first
// occurrence) before a loop is compared with the shape it must have, so renamed locals do not matter; independent
// statements may be reordered as long as the roles below are found:
//
//	H = the identifier passed as the header argument of the one `….Setup(…)` call of the function.
//	fresh(H)  <=> H has exactly ONE definition in the function, of the form `H := <src>.Clone()`, and that definition
//	              stands in a statement list that (transitively) contains the Setup call, before it, not under a condition of
//	              its own and with no `for` between it and the Setup call (one clone per entry).
//	merge     =   `for k, vv := range d.decodedConfigHeaders { k = http.CanonicalHeaderKey(k); if _, ok := H[k]; !ok { H[k] = append([]string(nil), vv...) } }`
//	              (also with `H[k] = vv`), possibly under a guard `if len(d.decodedConfigHeaders) > 0 / != 0`.
//	own       =   `for k, v := range <entity>.Headers { H.Set(k, v) }`
//	wrap      =   an assignment `d.<acc> = http.Header{}` / `make(http.Header)` in the block of Scan that seeks to the start,
//	              where `d.<acc>` is what Scan passes to readLine / readBlock.
//
// Anything else makes gen fail or emits `false` / `none` for the fact (the bridge lemma then fails): a broken obligation.

import (
	"bytes"
	"fmt"
	"go/ast"
	"go/printer"
	"go/token"
	"go/types"
	"strings"

	"golang.org/x/tools/go/packages"
)

func init() {
	areas["c14hdr"] = area{
		pkgPath:   "github.com/yandex/pandora/components/providers/http/decoders",
		module:    "C14Hdr",
		namespace: "Pandora.Gen.C14Hdr",
		imports:   []string{"Pandora.Model.C14Hdr"},
		extra:     c14hdrExtra,
	}
}

func c14hdrMethod(p *packages.Package, recvType, name string) *ast.FuncDecl {
	for _, f := range p.Syntax {
		for _, d := range f.Decls {
			fd, ok := d.(*ast.FuncDecl)
			if !ok || fd.Name.Name != name {
				continue
			}
			if recvType == "" {
				if fd.Recv == nil {
					return fd
				}
				continue
			}
			if fd.Recv == nil || len(fd.Recv.List) != 1 {
				continue
			}
			ty := fd.Recv.List[0].Type
			if st, ok := ty.(*ast.StarExpr); ok {
				ty = st.X
			}
			if id, ok := ty.(*ast.Ident); ok && id.Name == recvType {
				return fd
			}
		}
	}
	return nil
}

func c14hdrImport(t *tr, from *packages.Package, path string) *packages.Package {
	if from != nil {
		if p, ok := from.Imports[path]; ok && len(p.Syntax) > 0 && p.TypesInfo != nil {
			return p
		}
	}
	t.errs = append(t.errs, "c14hdr: package "+path+" is not imported (with syntax) where expected")
	return nil
}

func c14hdrObj(p *packages.Package, id *ast.Ident) types.Object {
	if o := p.TypesInfo.Defs[id]; o != nil {
		return o
	}
	return p.TypesInfo.Uses[id]
}

// c14hdrNorm prints a node with its local variables (and parameters) alpha-renamed in order of first occurrence.
func c14hdrNorm(p *packages.Package, n ast.Node) string {
	names := map[types.Object]string{}
	var touched []*ast.Ident
	var old []string
	ast.Inspect(n, func(x ast.Node) bool {
		id, ok := x.(*ast.Ident)
		if !ok || id.Name == "_" {
			return true
		}
		v, ok := c14hdrObj(p, id).(*types.Var)
		if !ok || v.IsField() || v.Parent() == nil || v.Parent() == p.Types.Scope() || v.Parent() == types.Universe {
			return true
		}
		nm, ok := names[v]
		if !ok {
			nm = fmt.Sprintf("v%d", len(names)+1)
			names[v] = nm
		}
		touched = append(touched, id)
		old = append(old, id.Name)
		id.Name = nm
		return true
	})
	var b bytes.Buffer
	_ = printer.Fprint(&b, p.Fset, n)
	for i, id := range touched {
		id.Name = old[i]
	}
	return strings.Join(strings.Fields(b.String()), " ")
}

// c14hdrPath: the chain of statement lists from the function body down to the statement that contains pos;
// for every level the statement of that list that contains pos.
type c14hdrLevel struct {
	list []ast.Stmt
	at   int
}

func c14hdrChildLists(s ast.Stmt) [][]ast.Stmt {
	switch v := s.(type) {
	case *ast.BlockStmt:
		return [][]ast.Stmt{v.List}
	case *ast.IfStmt:
		ls := [][]ast.Stmt{v.Body.List}
		if v.Else != nil {
			ls = append(ls, c14hdrChildLists(v.Else)...)
		}
		return ls
	case *ast.ForStmt:
		return [][]ast.Stmt{v.Body.List}
	case *ast.RangeStmt:
		return [][]ast.Stmt{v.Body.List}
	case *ast.SwitchStmt:
		var ls [][]ast.Stmt
		for _, c := range v.Body.List {
			ls = append(ls, c.(*ast.CaseClause).Body)
		}
		return ls
	case *ast.SelectStmt:
		var ls [][]ast.Stmt
		for _, c := range v.Body.List {
			ls = append(ls, c.(*ast.CommClause).Body)
		}
		return ls
	case *ast.LabeledStmt:
		return c14hdrChildLists(v.Stmt)
	}
	return nil
}

func c14hdrPath(list []ast.Stmt, pos token.Pos) []c14hdrLevel {
	for i, s := range list {
		if s.Pos() <= pos && pos < s.End() {
			lv := []c14hdrLevel{{list, i}}
			for _, cl := range c14hdrChildLists(s) {
				if sub := c14hdrPath(cl, pos); sub != nil {
					return append(lv, sub...)
				}
			}
			return lv
		}
	}
	return nil
}

// the one call `<x>.Setup(args…)` of a function
func c14hdrSetupCalls(fd *ast.FuncDecl) []*ast.CallExpr {
	var out []*ast.CallExpr
	ast.Inspect(fd.Body, func(n ast.Node) bool {
		if c, ok := n.(*ast.CallExpr); ok {
			if se, ok := c.Fun.(*ast.SelectorExpr); ok && se.Sel.Name == "Setup" {
				out = append(out, c)
			}
		}
		return true
	})
	return out
}

func c14hdrIsClone(e ast.Expr) (ast.Expr, bool) {
	c, ok := e.(*ast.CallExpr)
	if !ok || len(c.Args) != 0 {
		return nil, false
	}
	se, ok := c.Fun.(*ast.SelectorExpr)
	if !ok || se.Sel.Name != "Clone" {
		return nil, false
	}
	return se.X, true
}

type c14hdrDef struct {
	stmt *ast.AssignStmt
	rhs  ast.Expr
}

// every assignment to / definition of the variable obj in the function
func c14hdrDefsOf(p *packages.Package, fd *ast.FuncDecl, obj types.Object) []c14hdrDef {
	var out []c14hdrDef
	ast.Inspect(fd.Body, func(n ast.Node) bool {
		as, ok := n.(*ast.AssignStmt)
		if !ok {
			return true
		}
		for i, l := range as.Lhs {
			if id, ok := l.(*ast.Ident); ok && c14hdrObj(p, id) == obj {
				var rhs ast.Expr
				if len(as.Rhs) == len(as.Lhs) {
					rhs = as.Rhs[i]
				}
				out = append(out, c14hdrDef{as, rhs})
			}
		}
		return true
	})
	return out
}

func c14hdrSrcText(p *packages.Package, n ast.Node) string {
	var b bytes.Buffer
	_ = printer.Fprint(&b, p.Fset, n)
	return strings.Join(strings.Fields(b.String()), " ")
}

// c14hdrFresh: H (header argument of the Setup call) is a fresh clone; returns the source expression of the clone
func c14hdrFresh(t *tr, p *packages.Package, fd *ast.FuncDecl, ctx string) (h *ast.Ident, src ast.Expr, fresh bool, setup *ast.CallExpr) {
	calls := c14hdrSetupCalls(fd)
	if len(calls) != 1 || len(calls[0].Args) < 4 {
		t.errs = append(t.errs, fmt.Sprintf("c14hdr %s: expected exactly one `.Setup(method, url, body, header, tag)` call, found %d", ctx, len(calls)))
		return nil, nil, false, nil
	}
	setup = calls[0]
	id, ok := setup.Args[3].(*ast.Ident)
	if !ok {
		t.errs = append(t.errs, fmt.Sprintf("c14hdr %s: the header argument of Setup is not a variable: %s", ctx, c14hdrSrcText(p, setup.Args[3])))
		return nil, nil, false, setup
	}
	obj := c14hdrObj(p, id)
	defs := c14hdrDefsOf(p, fd, obj)
	if len(defs) == 0 { // a parameter handed on as it is
		return id, id, false, setup
	}
	// the source of the first definition, for the emitted text
	src = defs[0].rhs
	if x, ok := c14hdrIsClone(defs[0].rhs); ok {
		src = x
	}
	if len(defs) != 1 || defs[0].stmt.Tok != token.DEFINE {
		return id, src, false, setup
	}
	if _, ok := c14hdrIsClone(defs[0].rhs); !ok {
		return id, src, false, setup
	}
	// the definition stands in a statement list on the path to the Setup call
	// … and no loop lies between the definition and the Setup call (a clone hoisted out of the loop that sets up
	// the entries is ONE map for all of them)
	path := c14hdrPath(fd.Body.List, setup.Pos())
	for li, lv := range path {
		for i := 0; i < lv.at; i++ {
			if lv.list[i] == ast.Stmt(defs[0].stmt) {
				for _, deeper := range path[li:] {
					switch deeper.list[deeper.at].(type) {
					case *ast.ForStmt, *ast.RangeStmt:
						return id, src, false, setup
					}
				}
				return id, src, true, setup
			}
		}
	}
	return id, src, false, setup
}

const c14hdrMergeA = "for v1, v2 := range v3.decodedConfigHeaders { v1 = http.CanonicalHeaderKey(v1) if _, v4 := v5[v1]; !v4 { v5[v1] = append([]string(nil), v2...) } }"
const c14hdrMergeB = "for v1, v2 := range v3.decodedConfigHeaders { v1 = http.CanonicalHeaderKey(v1) if _, v4 := v5[v1]; !v4 { v5[v1] = v2 } }"

// c14hdrMerge finds the loop over the `headers` option and checks its shape, its target (H) and its guards
func c14hdrMerge(t *tr, p *packages.Package, fd *ast.FuncDecl, h *ast.Ident, setup *ast.CallExpr, ctx string) bool {
	var loops []*ast.RangeStmt
	ast.Inspect(fd.Body, func(n ast.Node) bool {
		if r, ok := n.(*ast.RangeStmt); ok {
			if se, ok := r.X.(*ast.SelectorExpr); ok && se.Sel.Name == "decodedConfigHeaders" {
				loops = append(loops, r)
			}
		}
		return true
	})
	if len(loops) == 0 {
		return false
	}
	if len(loops) > 1 {
		t.errs = append(t.errs, fmt.Sprintf("c14hdr %s: %d loops over decodedConfigHeaders", ctx, len(loops)))
		return false
	}
	r := loops[0]
	n := c14hdrNorm(p, r)
	if n != c14hdrMergeA && n != c14hdrMergeB {
		t.errs = append(t.errs, fmt.Sprintf("c14hdr %s: unsupported shape of the loop over the `headers` option: %s", ctx, n))
		return false
	}
	// the map it completes is H
	ifs := r.Body.List[1].(*ast.IfStmt)
	tgt := ifs.Init.(*ast.AssignStmt).Rhs[0].(*ast.IndexExpr).X.(*ast.Ident)
	if c14hdrObj(p, tgt) != c14hdrObj(p, h) {
		t.errs = append(t.errs, fmt.Sprintf("c14hdr %s: the `headers` option is merged into %s, Setup gets %s", ctx, tgt.Name, h.Name))
		return false
	}
	if !(r.End() <= setup.Pos()) {
		t.errs = append(t.errs, fmt.Sprintf("c14hdr %s: the `headers` option is merged after Setup", ctx))
		return false
	}
	// guards: only `if len(d.decodedConfigHeaders) > 0` / `!= 0` without else
	path := c14hdrPath(fd.Body.List, r.Pos())
	for _, lv := range path[:len(path)-1] {
		s := lv.list[lv.at]
		ifs, ok := s.(*ast.IfStmt)
		g := ""
		if ok && ifs.Init == nil && ifs.Else == nil {
			g = c14hdrNorm(p, ifs.Cond)
		}
		if g != "len(v1.decodedConfigHeaders) > 0" && g != "len(v1.decodedConfigHeaders) != 0" {
			t.errs = append(t.errs, fmt.Sprintf("c14hdr %s: the merge of the `headers` option stands under %s", ctx, c14hdrSrcText(p, s)[:60]))
			return false
		}
	}
	return true
}

// c14hdrLineDecoder: readLine (uri) / readBlock (uripost)
func c14hdrLineDecoder(t *tr, p *packages.Package, recv, fn, file, prefix string, hdrParam int) string {
	var b strings.Builder
	ctx := recv + "." + fn
	fd := c14hdrMethod(p, recv, fn)
	if fd == nil {
		t.errs = append(t.errs, "c14hdr: method "+ctx+" not found")
		return ""
	}
	// the accumulator parameter
	var params []*ast.Ident
	for _, f := range fd.Type.Params.List {
		params = append(params, f.Names...)
	}
	if hdrParam >= len(params) {
		t.errs = append(t.errs, "c14hdr "+ctx+": parameter list changed")
		return ""
	}
	acc := params[hdrParam]
	accObj := c14hdrObj(p, acc)
	h, src, fresh, setup := c14hdrFresh(t, p, fd, ctx)
	if h == nil {
		return ""
	}
	if id, ok := src.(*ast.Ident); !ok || c14hdrObj(p, id) != accObj {
		t.errs = append(t.errs, fmt.Sprintf("c14hdr %s: the entry's header map does not come from the accumulator parameter %s but from %s", ctx, acc.Name, c14hdrSrcText(p, src)))
		return ""
	}
	merge := c14hdrMerge(t, p, fd, h, setup, ctx)
	// the header-line branch: `<acc>.Set(k, v)` inside an if whose body ends with `return nil, nil`
	found := 0
	ast.Inspect(fd.Body, func(n ast.Node) bool {
		ifs, ok := n.(*ast.IfStmt)
		if !ok || len(ifs.Body.List) == 0 {
			return true
		}
		ret, ok := ifs.Body.List[len(ifs.Body.List)-1].(*ast.ReturnStmt)
		if !ok || len(ret.Results) != 2 || c14hdrSrcText(p, ret.Results[0]) != "nil" || c14hdrSrcText(p, ret.Results[1]) != "nil" {
			return true
		}
		for _, s := range ifs.Body.List {
			if es, ok := s.(*ast.ExprStmt); ok {
				if c, ok := es.X.(*ast.CallExpr); ok && len(c.Args) == 2 {
					if se, ok := c.Fun.(*ast.SelectorExpr); ok && se.Sel.Name == "Set" {
						if id, ok := se.X.(*ast.Ident); ok && c14hdrObj(p, id) == accObj {
							found++
						}
					}
				}
			}
		}
		return true
	})
	if found != 1 {
		t.errs = append(t.errs, fmt.Sprintf("c14hdr %s: expected one header-line branch `%s.Set(key, val); return nil, nil`, found %d", ctx, acc.Name, found))
		return ""
	}
	fmt.Fprintf(&b, "/-- regenerated from `%s` %s: a `[Key: val]` line is `Set` on the accumulator (parameter `%s`) -/\n", file, fn, acc.Name)
	fmt.Fprintf(&b, "def %sHeaderLine (commonHeader : HMap) (key val : String) : HMap := commonHeader.setH (key, val)\n\n", prefix)
	fmt.Fprintf(&b, "/-- regenerated from %s: the map `%s` that `a.Setup` gets for an entry — the accumulator, completed with the keys of the\n`headers` option (`cfg`, keys canonical) that it does not have -/\n", fn, h.Name)
	if merge {
		fmt.Fprintf(&b, "def %sEntryHeader (commonHeader cfg : HMap) : HMap :=\n  cfg.foldl (fun header kv => if header.has kv.1 then header else header ++ [kv]) commonHeader\n\n", prefix)
	} else {
		fmt.Fprintf(&b, "def %sEntryHeader (commonHeader cfg : HMap) : HMap := commonHeader\n\n", prefix)
	}
	fmt.Fprintf(&b, "/-- regenerated from %s: `%s` has exactly one definition, `%s := %s.Clone()`, on the path to the Setup call — every entry gets a map of its own -/\n", fn, h.Name, h.Name, acc.Name)
	fmt.Fprintf(&b, "def %sEntryHeaderFresh : Bool := %v\n\n", prefix, fresh)
	return b.String()
}

// c14hdrWrap: what Scan does with the accumulator when it wraps to the next pass
func c14hdrWrap(t *tr, p *packages.Package, recv, callee, file, prefix string, argIdx int) string {
	ctx := recv + ".Scan"
	fd := c14hdrMethod(p, recv, "Scan")
	if fd == nil {
		t.errs = append(t.errs, "c14hdr: method "+ctx+" not found")
		return ""
	}
	field := ""
	ast.Inspect(fd.Body, func(n ast.Node) bool {
		if c, ok := n.(*ast.CallExpr); ok {
			if se, ok := c.Fun.(*ast.SelectorExpr); ok && se.Sel.Name == callee && argIdx < len(c.Args) {
				if a, ok := c.Args[argIdx].(*ast.SelectorExpr); ok {
					field = a.Sel.Name
				}
			}
		}
		return true
	})
	if field == "" {
		t.errs = append(t.errs, fmt.Sprintf("c14hdr %s: the accumulator field passed to %s was not found", ctx, callee))
		return ""
	}
	wrap := "none"
	var visit func(list []ast.Stmt)
	visit = func(list []ast.Stmt) {
		seekAt, resetAt := -1, -1
		for i, s := range list {
			txt := c14hdrSrcText(p, s)
			if strings.Contains(txt, ".file.Seek(0, io.SeekStart)") && len(c14hdrChildLists(s)) == 0 {
				seekAt = i
			}
			if as, ok := s.(*ast.AssignStmt); ok && len(as.Lhs) == 1 && len(as.Rhs) == 1 && as.Tok == token.ASSIGN {
				if se, ok := as.Lhs[0].(*ast.SelectorExpr); ok && se.Sel.Name == field {
					r := c14hdrSrcText(p, as.Rhs[0])
					if r == "http.Header{}" || r == "make(http.Header)" {
						resetAt = i
					}
				}
			}
			for _, cl := range c14hdrChildLists(s) {
				visit(cl)
			}
		}
		if seekAt >= 0 && resetAt >= 0 {
			wrap = "some []"
		}
	}
	visit(fd.Body.List)
	return fmt.Sprintf("/-- regenerated from `%s` Scan: in the block that seeks to the start of the file the accumulator `d.%s` (what Scan passes to %s)\nis replaced by an empty map (`none` = it is kept) -/\ndef %sWrapAcc : Option HMap := %s\n\n", file, field, callee, prefix, wrap)
}

const c14hdrOwn = "for v1, v2 := range v3.Headers { v4.Set(v1, v2) }"

// c14hdrJSON: jsonline.go Scan / readArray
func c14hdrJSON(t *tr, p *packages.Package) string {
	var b strings.Builder
	ok := true
	for _, fn := range []string{"Scan", "readArray"} {
		ctx := "jsonlineDecoder." + fn
		fd := c14hdrMethod(p, "jsonlineDecoder", fn)
		if fd == nil {
			t.errs = append(t.errs, "c14hdr: method "+ctx+" not found")
			return ""
		}
		h, src, fresh, setup := c14hdrFresh(t, p, fd, ctx)
		if h == nil {
			return ""
		}
		if se, isSel := src.(*ast.SelectorExpr); !isSel || se.Sel.Name != "decodedConfigHeaders" {
			t.errs = append(t.errs, fmt.Sprintf("c14hdr %s: the entry's header map does not start from the `headers` option but from %s", ctx, c14hdrSrcText(p, src)))
			return ""
		}
		// the loop over the entry's own headers: same statement list as the Setup call, before it, Set on H
		path := c14hdrPath(fd.Body.List, setup.Pos())
		found := 0
		for _, lv := range path {
			for i := 0; i < lv.at; i++ {
				if r, isR := lv.list[i].(*ast.RangeStmt); isR {
					if se, isSel := r.X.(*ast.SelectorExpr); isSel && se.Sel.Name == "Headers" {
						if c14hdrNorm(p, r) != c14hdrOwn {
							t.errs = append(t.errs, fmt.Sprintf("c14hdr %s: unsupported shape of the loop over the entry's headers: %s", ctx, c14hdrNorm(p, r)))
							return ""
						}
						tgt := r.Body.List[0].(*ast.ExprStmt).X.(*ast.CallExpr).Fun.(*ast.SelectorExpr).X.(*ast.Ident)
						if c14hdrObj(p, tgt) != c14hdrObj(p, h) {
							t.errs = append(t.errs, fmt.Sprintf("c14hdr %s: the entry's headers are Set on %s, Setup gets %s", ctx, tgt.Name, h.Name))
							return ""
						}
						found++
					}
				}
			}
		}
		if found != 1 {
			t.errs = append(t.errs, fmt.Sprintf("c14hdr %s: expected one loop `for k, v := range <entity>.Headers { %s.Set(k, v) }` before Setup, found %d", ctx, h.Name, found))
			return ""
		}
		name := "jsonScanFresh"
		if fn == "readArray" {
			name = "jsonArrayFresh"
		}
		fmt.Fprintf(&b, "/-- regenerated from `components/providers/http/decoders/jsonline.go` %s: `%s` has exactly one definition, `%s := d.decodedConfigHeaders.Clone()`, on the path to the Setup call -/\ndef %s : Bool := %v\n\n", fn, h.Name, h.Name, name, fresh)
		ok = ok && true
	}
	b.WriteString("/-- regenerated from jsonline.go Scan and readArray (same shape): the map `a.Setup` gets — a clone of the `headers` option with the\nentry's own \"headers\" `Set` over it -/\ndef jsonEntryHeader (cfg : HMap) (own : List (String × String)) : HMap := own.foldl HMap.setH cfg\n\n")
	return b.String()
}

// c14hdrRaw: raw.go Scan hands the option to RawAmmo.Setup, which clones it
func c14hdrRaw(t *tr, p, ammo *packages.Package) string {
	fd := c14hdrMethod(p, "rawDecoder", "Scan")
	if fd == nil {
		t.errs = append(t.errs, "c14hdr: method rawDecoder.Scan not found")
		return ""
	}
	calls := c14hdrSetupCalls(fd)
	if len(calls) == 0 {
		t.errs = append(t.errs, "c14hdr rawDecoder.Scan: no Setup call")
		return ""
	}
	for _, c := range calls {
		if len(c.Args) != 4 {
			t.errs = append(t.errs, "c14hdr rawDecoder.Scan: Setup has a new signature")
			return ""
		}
		if se, ok := c.Args[3].(*ast.SelectorExpr); !ok || se.Sel.Name != "decodedConfigHeaders" {
			t.errs = append(t.errs, "c14hdr rawDecoder.Scan: Setup does not get d.decodedConfigHeaders but "+c14hdrSrcText(p, c.Args[3]))
			return ""
		}
	}
	sd := c14hdrMethod(ammo, "RawAmmo", "Setup")
	if sd == nil {
		t.errs = append(t.errs, "c14hdr: method RawAmmo.Setup not found")
		return ""
	}
	var params []*ast.Ident
	for _, f := range sd.Type.Params.List {
		params = append(params, f.Names...)
	}
	if len(params) != 4 {
		t.errs = append(t.errs, "c14hdr RawAmmo.Setup: parameter list changed")
		return ""
	}
	hObj := c14hdrObj(ammo, params[3])
	fresh, n := false, 0
	ast.Inspect(sd.Body, func(x ast.Node) bool {
		as, ok := x.(*ast.AssignStmt)
		if !ok || len(as.Lhs) != 1 || len(as.Rhs) != 1 {
			return true
		}
		if se, ok := as.Lhs[0].(*ast.SelectorExpr); ok && se.Sel.Name == "commonHeaders" {
			n++
			if src, ok := c14hdrIsClone(as.Rhs[0]); ok {
				if id, ok := src.(*ast.Ident); ok && c14hdrObj(ammo, id) == hObj {
					fresh = true
				}
			}
		}
		return true
	})
	if n != 1 {
		fresh = false
	}
	return fmt.Sprintf("/-- regenerated from `components/providers/http/decoders/raw.go` Scan (every Setup call gets `d.decodedConfigHeaders`) and\n`ammo/raw_ammo.go` Setup (`a.commonHeaders = header.Clone()`, the only assignment): every raw ammo has a map of its own -/\ndef rawCommonFresh : Bool := %v\n\n", fresh)
}

const c14hdrEnrich = "{ for v1, v2 := range v3 { v1 = textproto.CanonicalMIMEHeaderKey(v1) if _, v4 := v5.Header[v1]; !v4 { if v1 == \"Host\" { if v5.Host == \"\" { v5.Host = v2[0] } } else { v5.Header[v1] = v2 } } } }"

func c14hdrEnrichStep(t *tr, util *packages.Package) string {
	fd := c14hdrMethod(util, "", "EnrichRequestWithHeaders")
	if fd == nil {
		t.errs = append(t.errs, "c14hdr: func util.EnrichRequestWithHeaders not found")
		return ""
	}
	got := c14hdrNorm(util, fd.Body)
	// the comment inside the loop is not part of the AST statements; strip `// …` is not needed: printer drops free comments
	if got != c14hdrEnrich {
		t.errs = append(t.errs, "c14hdr EnrichRequestWithHeaders: unsupported shape: "+got)
		return ""
	}
	return "/-- regenerated from `components/providers/http/util/request.go` EnrichRequestWithHeaders, one iteration of\n" +
		"`for key, values := range headers` (state = req.Host, req.Header; keys canonical): a key the request has is left alone;\n" +
		"`Host` sets req.Host only if that is empty; any other key is added with its values -/\n" +
		"def enrichStep (acc : String × HMap) (kv : String × List String) : String × HMap :=\n" +
		"  if acc.2.has kv.1 then acc\n" +
		"  else if kv.1 == \"Host\" then (if acc.1 == \"\" then (kv.2.headD \"\", acc.2) else acc)\n" +
		"  else (acc.1, acc.2 ++ [kv])\n\n"
}

func c14hdrExtra(t *tr) string {
	var b strings.Builder
	b.WriteString("open Pandora.Model.C08 Pandora.Model.C14H\n\n")
	p := t.pkg
	ammo := c14hdrImport(t, p, "github.com/yandex/pandora/components/providers/http/decoders/ammo")
	util := c14hdrImport(t, p, "github.com/yandex/pandora/components/providers/http/util")
	if ammo == nil || util == nil {
		return ""
	}
	b.WriteString(c14hdrLineDecoder(t, p, "uriDecoder", "readLine", "components/providers/http/decoders/uri.go", "uri", 1))
	b.WriteString(c14hdrWrap(t, p, "uriDecoder", "readLine", "components/providers/http/decoders/uri.go", "uri", 1))
	b.WriteString(c14hdrLineDecoder(t, p, "uripostDecoder", "readBlock", "components/providers/http/decoders/uripost.go", "uripost", 1))
	b.WriteString(c14hdrWrap(t, p, "uripostDecoder", "readBlock", "components/providers/http/decoders/uripost.go", "uripost", 1))
	b.WriteString(c14hdrJSON(t, p))
	b.WriteString(c14hdrRaw(t, p, ammo))
	b.WriteString(c14hdrEnrichStep(t, util))
	b.WriteString(c14hdrScan(t, p))
	return b.String()
}
