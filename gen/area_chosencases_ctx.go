package main

// Area "chosencases", round 6: the KIND of error value the provider's own cancellation checks return.
//
// runFullScan and runPreloaded return the context's error in two places each (the check at the top of the loop and
// the Done branch of the `select`); core/engine recognises a cancellation only when pkg/errors.Cause of what Run
// returned IS ctx.Err() (errutil.IsCtxError), so a context.Canceled wrapped with `%w` turns a stopped run into a
// failed provider.  Fact extracted per function (`<fn>CtxBare : Bool`):
//
//	ctx values   = `ctx.Err()` and every local assigned from it (`err := ctx.Err()`, `err = ctx.Err()`, also as the init of an if)
//	every call of fmt.Errorf / xerrors.Errorf that has a ctx value among its arguments stands in the body of an `if`
//	whose condition has the conjunct `!errors.Is(<ctx value>, context.Canceled)`  (the wrapping is for deadlines only)
//
// The class of what is returned there is `runFullScanDone` / `runPreloadedDone` (symbolic execution); this fact adds
// that a CANCELLATION is returned bare.

import (
	"fmt"
	"go/ast"
	"go/token"
	"go/types"
	"sort"
	"strings"

	"golang.org/x/tools/go/packages"
)

func chosencasesCtxBare(pkg *packages.Package, fd *ast.FuncDecl) bool {
	ctxVals := map[types.Object]bool{}
	isCtxCall := func(e ast.Expr) bool { return chosencasesSrc(pkg, e) == "ctx.Err()" }
	ast.Inspect(fd.Body, func(n ast.Node) bool {
		if as, ok := n.(*ast.AssignStmt); ok && len(as.Lhs) == 1 && len(as.Rhs) == 1 && isCtxCall(as.Rhs[0]) {
			if id, ok := as.Lhs[0].(*ast.Ident); ok {
				if o := pkg.TypesInfo.ObjectOf(id); o != nil {
					ctxVals[o] = true
				}
			}
		}
		return true
	})
	isCtxVal := func(e ast.Expr) bool {
		e = chosencasesUnparen(e)
		if isCtxCall(e) {
			return true
		}
		if id, ok := e.(*ast.Ident); ok {
			return ctxVals[pkg.TypesInfo.ObjectOf(id)]
		}
		return false
	}
	var conj func(e ast.Expr) []ast.Expr
	conj = func(e ast.Expr) []ast.Expr {
		e = chosencasesUnparen(e)
		if be, ok := e.(*ast.BinaryExpr); ok && be.Op == token.LAND {
			return append(conj(be.X), conj(be.Y)...)
		}
		return []ast.Expr{e}
	}
	guards := func(ifs *ast.IfStmt) bool {
		for _, c := range conj(ifs.Cond) {
			u, ok := c.(*ast.UnaryExpr)
			if !ok || u.Op != token.NOT {
				continue
			}
			call, ok := chosencasesUnparen(u.X).(*ast.CallExpr)
			if !ok || len(call.Args) != 2 || !strings.HasSuffix(chosencasesSrc(pkg, call.Fun), "errors.Is") {
				continue
			}
			if isCtxVal(call.Args[0]) && chosencasesSrc(pkg, call.Args[1]) == "context.Canceled" {
				return true
			}
		}
		return false
	}
	bare := true
	var stack []ast.Node
	ast.Inspect(fd.Body, func(n ast.Node) bool {
		if n == nil {
			stack = stack[:len(stack)-1]
			return true
		}
		stack = append(stack, n)
		call, ok := n.(*ast.CallExpr)
		if !ok {
			return true
		}
		sel, ok := call.Fun.(*ast.SelectorExpr)
		if !ok || sel.Sel.Name != "Errorf" {
			return true
		}
		id, ok := sel.X.(*ast.Ident)
		if !ok {
			return true
		}
		pn, ok := pkg.TypesInfo.Uses[id].(*types.PkgName)
		if !ok || (pn.Imported().Path() != "fmt" && pn.Imported().Path() != "golang.org/x/xerrors") {
			return true
		}
		wrapsCtx := false
		for _, a := range call.Args {
			if isCtxVal(a) {
				wrapsCtx = true
			}
		}
		if !wrapsCtx {
			return true
		}
		// the nearest enclosing if whose BODY contains the call
		ok = false
		for i := len(stack) - 2; i >= 0; i-- {
			if ifs, isIf := stack[i].(*ast.IfStmt); isIf && i+1 < len(stack) && stack[i+1] == ast.Node(ifs.Body) {
				ok = guards(ifs)
				break
			}
		}
		if !ok {
			bare = false
		}
		return true
	})
	return bare
}

func chosencasesCtxBareDef(pkg *packages.Package, fd *ast.FuncDecl, name string) string {
	return fmt.Sprintf("/-- regenerated from %s (round 6): a CANCELLED context is returned as the context's own error — every fmt.Errorf / xerrors.Errorf\n"+
		"over ctx.Err() stands under `if !errors.Is(err, context.Canceled)` (core/engine's errutil.IsCtxError recognises only the bare error) -/\n"+
		"def %sCtxBare : Bool := %v\n\n", name, name, chosencasesCtxBare(pkg, fd))
}

// ---- round 6: WHERE the code asks whether it is preloading ------------------------------------------------------
//
// "Turning preload on changes memory behaviour only": every place that reads the config field `Preload` is a place
// where the two modes can part.  `preloadReadSites` = the functions / methods of the packages http, http/provider and
// http/decoders that read the field (resolved through go/types: `p.Preload`, `p.Config.Preload`, `conf.Preload`, …),
// sorted.  A function whose whole body is `return <expression>` is a transparent helper: its callers are listed
// instead (so extracting `func (p *Provider) preloaded() bool { return p.Config.Preload }` changes nothing).  Writes to
// the field do not count.  The bridge lemma pins the list: Run (which path) and Release (a preloaded ammo is never
// handed back to the decoder's pool) — a new reader re-opens the obligation.
func chosencasesPreloadSites(pkgs ...*packages.Package) string {
	isPreloadField := func(pkg *packages.Package, sel *ast.SelectorExpr) bool {
		if sel.Sel.Name != "Preload" {
			return false
		}
		v, ok := pkg.TypesInfo.ObjectOf(sel.Sel).(*types.Var)
		return ok && v.IsField() && v.Pkg() != nil && strings.HasSuffix(v.Pkg().Path(), "components/providers/http/config")
	}
	type fn struct {
		pkg    *packages.Package
		fd     *ast.FuncDecl
		name   string
		reads  bool
		helper bool
	}
	var fns []*fn
	byObj := map[types.Object]*fn{}
	for _, pkg := range pkgs {
		if pkg == nil {
			continue
		}
		for _, f := range pkg.Syntax {
			if strings.HasSuffix(pkg.Fset.Position(f.Pos()).Filename, "_test.go") {
				continue
			}
			for _, d := range f.Decls {
				fd, ok := d.(*ast.FuncDecl)
				if !ok || fd.Body == nil {
					continue
				}
				name := pkg.Name + "." + fd.Name.Name
				if fd.Recv != nil && len(fd.Recv.List) == 1 {
					name = pkg.Name + "." + strings.TrimPrefix(chosencasesSrc(pkg, fd.Recv.List[0].Type), "*") + "." + fd.Name.Name
				}
				x := &fn{pkg: pkg, fd: fd, name: name}
				if len(fd.Body.List) == 1 {
					_, x.helper = fd.Body.List[0].(*ast.ReturnStmt)
				}
				fns = append(fns, x)
				byObj[pkg.TypesInfo.Defs[fd.Name]] = x
			}
		}
	}
	written := map[ast.Node]bool{}
	for _, x := range fns {
		ast.Inspect(x.fd.Body, func(n ast.Node) bool {
			if as, ok := n.(*ast.AssignStmt); ok {
				for _, l := range as.Lhs {
					written[l] = true
				}
			}
			return true
		})
	}
	for _, x := range fns {
		ast.Inspect(x.fd.Body, func(n ast.Node) bool {
			if sel, ok := n.(*ast.SelectorExpr); ok && !written[sel] && isPreloadField(x.pkg, sel) {
				x.reads = true
			}
			return true
		})
	}
	// callers of reading helpers read too (to a fixed point)
	for changed := true; changed; {
		changed = false
		for _, x := range fns {
			if x.reads {
				continue
			}
			ast.Inspect(x.fd.Body, func(n ast.Node) bool {
				call, ok := n.(*ast.CallExpr)
				if !ok {
					return true
				}
				var id *ast.Ident
				switch f := call.Fun.(type) {
				case *ast.Ident:
					id = f
				case *ast.SelectorExpr:
					id = f.Sel
				}
				if id != nil {
					if y := byObj[x.pkg.TypesInfo.ObjectOf(id)]; y != nil && y.helper && y.reads && !x.reads {
						x.reads, changed = true, true
					}
				}
				return true
			})
		}
	}
	var sites []string
	for _, x := range fns {
		if x.reads && !x.helper {
			sites = append(sites, x.name)
		}
	}
	sort.Strings(sites)
	return "/-- regenerated (round 6): the functions of components/providers/http{,/provider,/decoders} that READ the config field `Preload`\n" +
		"(go/types; one-line `return …` helpers are transparent): the only places where the two modes can part -/\n" +
		"def preloadReadSites : List String := " + chosencasesLeanStrList(sites) + "\n\n"
}

// chosencasesRelease (round 6): `Provider.Release` evaluated for preload = true / false: is `p.Decoder.Release(a)` reached.
// Statements read: `if <Preload field> { … }` / `if !<Preload field> { … }` with optional else, `return`, a call of
// `….Decoder.Release(…)` / `….Release(…)` on the embedded decoder; anything else makes gen fail.
func chosencasesRelease(t *tr, pkg *packages.Package) string {
	fd := chosencasesMethod(pkg, "Provider", "Release")
	if fd == nil {
		t.errs = append(t.errs, "(*Provider).Release not found")
		return ""
	}
	isPreload := func(e ast.Expr) bool {
		sel, ok := chosencasesUnparen(e).(*ast.SelectorExpr)
		if !ok || sel.Sel.Name != "Preload" {
			return false
		}
		v, ok := pkg.TypesInfo.ObjectOf(sel.Sel).(*types.Var)
		return ok && v.IsField()
	}
	okAll := true
	var run func(list []ast.Stmt, preload bool) (reached, returned bool)
	run = func(list []ast.Stmt, preload bool) (bool, bool) {
		reached := false
		for _, s := range list {
			switch v := s.(type) {
			case *ast.ReturnStmt:
				return reached, true
			case *ast.ExprStmt:
				if c, ok := v.X.(*ast.CallExpr); ok && strings.HasSuffix(chosencasesSrc(pkg, c.Fun), "Decoder.Release") {
					reached = true
					continue
				}
				okAll = false
			case *ast.IfStmt:
				cond, neg := chosencasesUnparen(v.Cond), false
				if u, ok := cond.(*ast.UnaryExpr); ok && u.Op == token.NOT {
					cond, neg = u.X, true
				}
				if v.Init != nil || !isPreload(cond) {
					okAll = false
					continue
				}
				var branch []ast.Stmt
				if preload != neg {
					branch = v.Body.List
				} else if eb, ok := v.Else.(*ast.BlockStmt); ok {
					branch = eb.List
				} else if v.Else != nil {
					okAll = false
				}
				r, ret := run(branch, preload)
				reached = reached || r
				if ret {
					return reached, true
				}
			default:
				okAll = false
			}
		}
		return reached, false
	}
	onT, _ := run(fd.Body.List, true)
	onF, _ := run(fd.Body.List, false)
	if !okAll {
		t.errs = append(t.errs, fmt.Sprintf("%s: unsupported (chosencases Provider.Release): statement shape", pkg.Fset.Position(fd.Pos())))
		return ""
	}
	return fmt.Sprintf("/-- regenerated from Provider.Release (round 6): is the ammo handed back to the decoder (`p.Decoder.Release(a)`) -/\n"+
		"def releaseToPool (preload : Bool) : Bool := if preload then %v else %v\n\n", onT, onF)
}
