package main

// Area "c13src" (property C13): re-translates from the CURRENT source the integer / guard logic that the models of
// lean/Pandora/Model/C13*.lean rest on, as executable core-Lean definitions (every identifier of this file carries the
// prefix `c13src`). lean/Pandora/Bridge/C13.lean proves each of them equal to the model for ALL arguments, so a change
// of a comparison, a constant, an operator or the order of two dependent tests breaks a proof, while renaming variables,
// reordering independent tests, or writing a test in an equivalent way does not.
//
//	lib/mp/map.go                       calcIndex                the whole function after its Atoi line
//	components/providers/scenario/templater/func.go  randInt     the whole function (int64 arithmetic wraps around)
//	components/providers/http/decoders  readSized                the test in front of the first allocation, readChunkSize
//	components/providers/http/decoders  uripost/raw/uri/jsonline Scan: the tests that end a pass (ErrPassLimit, ErrNoAmmo)
//	                                                             and their order relative to passNum++ and the Seek
//	lib/ioutil2/reader.go               MultiPassReader.Read     the `fruitless` and the seek conditions, order of the EOF block
//	core/provider/decoder.go            DecodeProvider.Run       the progress function given to SetProgress
//
// Go semantics read: `int`/`uint` values are ℤ (ranges are the bridge's business), int64 `+`/`-` in randInt wrap around
// (`wrap64`), `x %= y` and rand.Int63n / Iterator.Rand are partial operations (`tmodC`, `intnC` of Model/C13Base.lean).

import (
	"bytes"
	"fmt"
	"go/ast"
	"go/constant"
	"go/printer"
	"go/token"
	"strings"

	"golang.org/x/tools/go/packages"
)

func init() {
	areas["c13src"] = area{
		pkgPath:   "github.com/yandex/pandora/lib/mp",
		module:    "C13Src",
		namespace: "Pandora.Gen.C13Src",
		imports:   []string{"Pandora.Model.C13Base", "Pandora.Model.C13Grpc", "Pandora.Model.C13Run"},
		extra:     c13srcExtra,
	}
}

type c13srcX struct {
	t    *tr
	p    *packages.Package
	env  map[string]string // source text of an expression -> Lean text
	wrap bool              // int64 wrap-around on + and -
	rnd  string            // Lean name of the raw random number
}

func (x *c13srcX) fail(n ast.Node, format string, a ...any) string {
	pos := ""
	if n != nil {
		pos = x.p.Fset.Position(n.Pos()).String() + ": "
	}
	x.t.errs = append(x.t.errs, pos+"unsupported (c13src): "+fmt.Sprintf(format, a...))
	return "(UNSUPPORTED)"
}

// c13srcLoad type-checks the given packages from source in one go; their dependencies come from export data
// (the build cache), which is several times faster than type-checking net/http and friends from source.
var c13srcPkgs map[string]*packages.Package

func c13srcLoad(t *tr, path string) *packages.Package {
	if c13srcPkgs == nil {
		c13srcPkgs = map[string]*packages.Package{}
		cfg := &packages.Config{Mode: packages.NeedName | packages.NeedSyntax | packages.NeedTypes | packages.NeedTypesInfo |
			packages.NeedFiles | packages.NeedImports, Dir: repo, BuildFlags: []string{"-tags=verif"}}
		pkgs, err := packages.Load(cfg,
			"github.com/yandex/pandora/components/providers/scenario/templater",
			"github.com/yandex/pandora/components/providers/http/decoders",
			"github.com/yandex/pandora/lib/ioutil2",
			"github.com/yandex/pandora/core/provider",
			"github.com/yandex/pandora/components/providers/grpc",
			"github.com/yandex/pandora/components/providers/grpc/grpcjson",
			"github.com/yandex/pandora/components/providers/http/provider",
			"github.com/yandex/pandora/core/plugin/pluginconfig",
			"github.com/yandex/pandora/components/providers/scenario/vs",
			"github.com/yandex/pandora/components/providers/scenario/config",
			"github.com/yandex/pandora/components/providers/scenario/http",
			"github.com/yandex/pandora/components/providers/scenario/grpc",
			"github.com/yandex/pandora/components/providers/scenario")
		if err != nil {
			t.errs = append(t.errs, "c13src: load: "+err.Error())
		}
		for _, p := range pkgs {
			if len(p.Errors) > 0 {
				t.errs = append(t.errs, fmt.Sprintf("c13src: load %s: %v", p.PkgPath, p.Errors))
			}
			c13srcPkgs[p.PkgPath] = p
		}
	}
	if p, ok := c13srcPkgs[path]; ok {
		return p
	}
	t.errs = append(t.errs, "c13src: package "+path+" not loaded")
	return load(path)
}

func c13srcText(p *packages.Package, n ast.Node) string {
	var b bytes.Buffer
	_ = printer.Fprint(&b, p.Fset, n)
	return strings.Join(strings.Fields(b.String()), " ")
}

func c13srcFunc(p *packages.Package, recv, name string) *ast.FuncDecl {
	for _, f := range p.Syntax {
		for _, d := range f.Decls {
			fd, ok := d.(*ast.FuncDecl)
			if !ok || fd.Name.Name != name || fd.Body == nil {
				continue
			}
			if recv == "" {
				if fd.Recv == nil {
					return fd
				}
				continue
			}
			if fd.Recv == nil || len(fd.Recv.List) != 1 {
				continue
			}
			ty := fd.Recv.List[0].Type
			if st, ok := ty.(*ast.StarExpr); ok {
				ty = st.X
			}
			if ix, ok := ty.(*ast.IndexExpr); ok { // generic receiver `Provider[A]`
				ty = ix.X
			}
			if id, ok := ty.(*ast.Ident); ok && id.Name == recv {
				return fd
			}
		}
	}
	return nil
}

func c13srcBytes(s string) string {
	parts := make([]string, 0, len(s))
	for _, c := range []byte(s) {
		parts = append(parts, fmt.Sprint(int(c)))
	}
	return "([" + strings.Join(parts, ", ") + "] : List UInt8)"
}

// integer expression
func (x *c13srcX) intE(e ast.Expr) string {
	if l, ok := x.env[c13srcText(x.p, e)]; ok {
		return l
	}
	if tv, ok := x.p.TypesInfo.Types[e]; ok && tv.Value != nil {
		v := constant.ToInt(tv.Value)
		if v.Kind() == constant.Int {
			return "(" + v.ExactString() + " : Int)"
		}
	}
	switch y := e.(type) {
	case *ast.ParenExpr:
		return x.intE(y.X)
	case *ast.BinaryExpr:
		l, r := x.intE(y.X), x.intE(y.Y)
		var s string
		switch y.Op {
		case token.ADD:
			s = "(" + l + " + " + r + ")"
		case token.SUB:
			s = "(" + l + " - " + r + ")"
		case token.MUL:
			s = "(" + l + " * " + r + ")"
		default:
			return x.fail(e, "integer operator %s", y.Op)
		}
		if x.wrap {
			return "(Pandora.Model.C13.wrap64 " + s + ")"
		}
		return s
	case *ast.CallExpr:
		// conversion between integer types
		if tv, ok := x.p.TypesInfo.Types[y.Fun]; ok && tv.IsType() && len(y.Args) == 1 && isInt(tv.Type) {
			return x.intE(y.Args[0])
		}
	}
	return x.fail(e, "integer expression %s", c13srcText(x.p, e))
}

// condition -> Lean Prop (decidable)
func (x *c13srcX) cond(e ast.Expr) string {
	if l, ok := x.env[c13srcText(x.p, e)]; ok {
		return l
	}
	switch y := e.(type) {
	case *ast.ParenExpr:
		return x.cond(y.X)
	case *ast.UnaryExpr:
		if y.Op == token.NOT {
			return "(¬ " + x.cond(y.X) + ")"
		}
	case *ast.BinaryExpr:
		switch y.Op {
		case token.LAND:
			return "(" + x.cond(y.X) + " ∧ " + x.cond(y.Y) + ")"
		case token.LOR:
			return "(" + x.cond(y.X) + " ∨ " + x.cond(y.Y) + ")"
		}
		// string compared with a constant
		if tv, ok := x.p.TypesInfo.Types[y.Y]; ok && tv.Value != nil && tv.Value.Kind() == constant.String {
			l, ok := x.env[c13srcText(x.p, y.X)]
			if !ok {
				return x.fail(e, "string operand %s", c13srcText(x.p, y.X))
			}
			lit := c13srcBytes(constant.StringVal(tv.Value))
			switch y.Op {
			case token.EQL:
				return "(" + l + " = " + lit + ")"
			case token.NEQ:
				return "(" + l + " ≠ " + lit + ")"
			}
			return x.fail(e, "string operator %s", y.Op)
		}
		ops := map[token.Token]string{token.LSS: "<", token.LEQ: "≤", token.GTR: ">", token.GEQ: "≥", token.EQL: "=", token.NEQ: "≠"}
		if op, ok := ops[y.Op]; ok {
			return "(" + x.intE(y.X) + " " + op + " " + x.intE(y.Y) + ")"
		}
	}
	return x.fail(e, "condition %s", c13srcText(x.p, e))
}

func c13srcIsNil(e ast.Expr) bool {
	id, ok := e.(*ast.Ident)
	return ok && id.Name == "nil"
}

// partial calls: (Lean text of a `Res Int`, true) when the call is one of the modelled partial operations
func (x *c13srcX) partialCall(e ast.Expr) (string, bool) {
	c, ok := e.(*ast.CallExpr)
	if !ok {
		return "", false
	}
	switch c13srcText(x.p, c.Fun) {
	case "iter.Rand", "rand.Int63n", "rand.Intn":
		if len(c.Args) == 1 {
			return "(Pandora.Model.C13.intnC " + x.intE(c.Args[0]) + " " + x.rnd + ")", true
		}
	}
	return "", false
}

// block: statements of a function whose result is (value, error) -> Lean text of type `Res Int`
func (x *c13srcX) block(stmts []ast.Stmt, ind string) string {
	if len(stmts) == 0 {
		return ind + x.fail(nil, "block without return")
	}
	s, rest := stmts[0], stmts[1:]
	switch y := s.(type) {
	case *ast.ReturnStmt:
		if len(y.Results) != 2 {
			return ind + x.fail(s, "return arity")
		}
		if !c13srcIsNil(y.Results[1]) {
			return ind + ".err \"e\""
		}
		if pc, ok := x.partialCall(y.Results[0]); ok {
			return ind + pc
		}
		// strconv.FormatInt(n, 10): the number itself
		if c, ok := y.Results[0].(*ast.CallExpr); ok && c13srcText(x.p, c.Fun) == "strconv.FormatInt" && len(c.Args) == 2 {
			return ind + ".ok " + x.intE(c.Args[0])
		}
		return ind + ".ok " + x.intE(y.Results[0])
	case *ast.IfStmt:
		if y.Init != nil || y.Else != nil {
			return ind + x.fail(s, "if with init/else")
		}
		c := x.cond(y.Cond)
		body := y.Body.List
		if n := len(body); n > 0 {
			if _, isRet := body[n-1].(*ast.ReturnStmt); isRet {
				return ind + "if " + c + " then\n" + x.block(body, ind+"  ") + "\n" + ind + "else\n" + x.block(rest, ind)
			}
		}
		// conditional assignments
		out := ""
		for _, b := range body {
			as, ok := b.(*ast.AssignStmt)
			if !ok {
				return ind + x.fail(b, "statement in a conditional block")
			}
			out += x.assign(as, c, ind)
		}
		return out + x.block(rest, ind)
	case *ast.AssignStmt:
		return x.assign(y, "", ind) + x.block(rest, ind)
	}
	return ind + x.fail(s, "statement %T", s)
}

// assign: Lean `let` lines (each ending in a newline) for one assignment, executed only when cond holds (cond "" = always)
func (x *c13srcX) assign(as *ast.AssignStmt, cond string, ind string) string {
	name := func(e ast.Expr) string {
		if l, ok := x.env["lhs:"+c13srcText(x.p, e)]; ok {
			return l
		}
		if id, ok := e.(*ast.Ident); ok {
			return mangle(id.Name)
		}
		return x.fail(e, "assignment target")
	}
	guard := func(v, old string) string {
		if cond == "" {
			return v
		}
		return "if " + cond + " then " + v + " else " + old
	}
	// t, f = f, t
	if len(as.Lhs) == 2 && len(as.Rhs) == 2 && as.Tok == token.ASSIGN {
		a, b := name(as.Lhs[0]), name(as.Lhs[1])
		return ind + "let p := " + guard("("+x.intE(as.Rhs[0])+", "+x.intE(as.Rhs[1])+")", "("+a+", "+b+")") + "\n" +
			ind + "let " + a + " := p.1\n" + ind + "let " + b + " := p.2\n"
	}
	if len(as.Lhs) != 1 || len(as.Rhs) != 1 {
		return ind + x.fail(as, "assignment shape") + "\n"
	}
	v := name(as.Lhs[0])
	switch as.Tok {
	case token.ASSIGN, token.DEFINE:
		if pc, ok := x.partialCall(as.Rhs[0]); ok {
			if cond != "" {
				return ind + x.fail(as, "partial call in a conditional block") + "\n"
			}
			return ind + pc + ".bind fun " + v + " =>\n"
		}
		return ind + "let " + v + " := " + guard(x.intE(as.Rhs[0]), v) + "\n"
	case token.ADD_ASSIGN, token.SUB_ASSIGN:
		op := " + "
		if as.Tok == token.SUB_ASSIGN {
			op = " - "
		}
		e := "(" + v + op + x.intE(as.Rhs[0]) + ")"
		if x.wrap {
			e = "(Pandora.Model.C13.wrap64 " + e + ")"
		}
		return ind + "let " + v + " := " + guard(e, v) + "\n"
	case token.REM_ASSIGN:
		pc := "(Pandora.Model.C13.tmodC " + v + " " + x.intE(as.Rhs[0]) + ")"
		if cond != "" {
			pc = "(if " + cond + " then " + pc + " else .ok " + v + ")"
		}
		return ind + pc + ".bind fun " + v + " =>\n"
	}
	return ind + x.fail(as, "assignment operator %s", as.Tok) + "\n"
}

// ifReturning finds, anywhere in fd, the if statements whose body is a single `return …, <errName>`
func c13srcIfReturning(p *packages.Package, fd *ast.FuncDecl, errName string) []*ast.IfStmt {
	var out []*ast.IfStmt
	ast.Inspect(fd.Body, func(n ast.Node) bool {
		is, ok := n.(*ast.IfStmt)
		if !ok || len(is.Body.List) != 1 {
			return true
		}
		rs, ok := is.Body.List[0].(*ast.ReturnStmt)
		if !ok || len(rs.Results) == 0 {
			return true
		}
		if c13srcText(p, rs.Results[len(rs.Results)-1]) == errName {
			out = append(out, is)
		}
		return true
	})
	return out
}

// c13srcPassEndPath: the statements a decoder's Scan executes from the point where it has seen the end of the file to the
// point where it reads again (or returns), in execution order.
func c13srcPassEndPath(p *packages.Package, fd *ast.FuncDecl, dec string) []ast.Stmt {
	var loop *ast.ForStmt
	for _, s := range fd.Body.List {
		if f, ok := s.(*ast.ForStmt); ok {
			loop = f
		}
	}
	if loop == nil {
		return nil
	}
	findIf := func(list []ast.Stmt, cond string) *ast.IfStmt {
		for _, s := range list {
			if is, ok := s.(*ast.IfStmt); ok && c13srcText(p, is.Cond) == cond {
				return is
			}
		}
		return nil
	}
	switch dec {
	case "raw":
		// `if err == io.EOF { … }` or `if err == io.EOF && len(data) == 0 { … }` (which of the two: c13srcRawLastLine)
		for _, s := range loop.Body.List {
			if is, ok := s.(*ast.IfStmt); ok && is.Init == nil && is.Else == nil {
				if isEOF, _, known := c13srcEOFCond(p, is.Cond); isEOF && known {
					return is.Body.List
				}
			}
		}
	case "uri":
		if outer := findIf(loop.Body.List, "!d.scanner.Scan()"); outer != nil {
			if is := findIf(outer.Body.List, "d.scanner.Err() == nil"); is != nil {
				return is.Body.List
			}
		}
	case "uripost":
		// the statements after the inner read loop
		for i, s := range loop.Body.List {
			if _, ok := s.(*ast.ForStmt); ok {
				return loop.Body.List[i+1:]
			}
		}
	case "jsonline":
		// after the `if err != nil { … } else { … }` that follows Decode, then the top of the loop up to the declaration of the entity
		for i, s := range loop.Body.List {
			if is, ok := s.(*ast.IfStmt); ok && c13srcText(p, is.Cond) == "err != nil" && is.Else != nil {
				path := append([]ast.Stmt(nil), loop.Body.List[i+1:]...)
				for _, t := range loop.Body.List[:i] {
					if _, isDecl := t.(*ast.DeclStmt); isDecl {
						return path
					}
					path = append(path, t)
				}
			}
		}
	}
	return nil
}

// c13srcConjuncts splits a condition at its top-level `&&`
func c13srcConjuncts(e ast.Expr) []ast.Expr {
	for {
		pe, ok := e.(*ast.ParenExpr)
		if !ok {
			break
		}
		e = pe.X
	}
	if be, ok := e.(*ast.BinaryExpr); ok && be.Op == token.LAND {
		return append(c13srcConjuncts(be.X), c13srcConjuncts(be.Y)...)
	}
	return []ast.Expr{e}
}

// c13srcEOFCond reads the condition under which a `ReadString` loop takes the end of the file: a conjunction that holds
// `err == io.EOF` (or `errors.Is(err, io.EOF)`), possibly together with "no data came with it" (`len(data) == 0`, `data == ""`,
// `len(data) < 1`). known = every conjunct is one of these.
func c13srcEOFCond(p *packages.Package, cond ast.Expr) (isEOF, needsNoData, known bool) {
	known = true
	for _, c := range c13srcConjuncts(cond) {
		switch c13srcText(p, c) {
		case "err == io.EOF", "io.EOF == err", "errors.Is(err, io.EOF)":
			isEOF = true
		case "len(data) == 0", "data == \"\"", "len(data) < 1", "0 == len(data)", "len(data) <= 0":
			needsNoData = true
		default:
			known = false
		}
	}
	return
}

// c13srcRawLastLine: what the raw decoder does with a last line that lacks its newline (`ReadString` returns the line
// TOGETHER with io.EOF): 0 = dropped (the end-of-file block is entered on any io.EOF), 1 = read as a line (the block
// needs "no data" and the read-error check lets io.EOF through), 2 = refused as a read error.
func c13srcRawLastLine(x *c13srcX, fd *ast.FuncDecl) int {
	p := x.p
	var loop *ast.ForStmt
	for _, s := range fd.Body.List {
		if f, ok := s.(*ast.ForStmt); ok {
			loop = f
		}
	}
	if loop == nil {
		x.fail(fd, "rawDecoder.Scan: no loop")
		return -1
	}
	state := 0 // 0 before the read, 1 after the read, 2 after the end-of-file block
	needsNoData := false
	for _, s := range loop.Body.List {
		switch state {
		case 0:
			if as, ok := s.(*ast.AssignStmt); ok && len(as.Rhs) == 1 && c13srcText(p, as.Rhs[0]) == "d.reader.ReadString('\\n')" {
				if len(as.Lhs) != 2 || c13srcText(p, as.Lhs[0]) != "data" || c13srcText(p, as.Lhs[1]) != "err" {
					x.fail(s, "rawDecoder.Scan: the read is not `data, err = …`")
					return -1
				}
				state = 1
			}
		case 1:
			is, ok := s.(*ast.IfStmt)
			if !ok {
				x.fail(s, "rawDecoder.Scan: the statement after the read is not the end-of-file test: %s", c13srcText(p, s))
				return -1
			}
			isEOF, nd, known := c13srcEOFCond(p, is.Cond)
			if !isEOF || !known {
				x.fail(s, "rawDecoder.Scan: end-of-file test not understood: %s", c13srcText(p, is.Cond))
				return -1
			}
			needsNoData = nd
			state = 2
		case 2:
			is, ok := s.(*ast.IfStmt)
			if !ok || is.Init != nil || len(is.Body.List) != 1 {
				continue
			}
			rs, ok := is.Body.List[0].(*ast.ReturnStmt)
			if !ok || len(rs.Results) != 2 || c13srcIsNil(rs.Results[1]) {
				continue
			}
			// the first test after the end-of-file block that returns an error and looks at `err`
			errNonNil, passesEOF, other := false, false, false
			for _, c := range c13srcConjuncts(is.Cond) {
				switch c13srcText(p, c) {
				case "err != nil", "nil != err":
					errNonNil = true
				case "err != io.EOF", "io.EOF != err", "!errors.Is(err, io.EOF)":
					passesEOF = true
				default:
					other = true
				}
			}
			if !errNonNil {
				continue
			}
			if other {
				x.fail(s, "rawDecoder.Scan: read-error test not understood: %s", c13srcText(p, is.Cond))
				return -1
			}
			switch {
			case !needsNoData:
				return 0
			case passesEOF:
				return 1
			default:
				return 2
			}
		}
	}
	if state == 2 && !needsNoData {
		return 0
	}
	x.fail(fd, "rawDecoder.Scan: read / end-of-file test / read-error test not found in this order")
	return -1
}

// passEnd: symbolic execution of a pass-end path. Statements that only reset the reader state (header, line counter,
// scanner / reader / decoder over the sought file) and the I/O error checks (the fault cases of the harness cover them)
// are passed over; anything else is refused.
func (x *c13srcX) passEnd(stmts []ast.Stmt, sought bool, ind string) string {
	soughtS := "false"
	if sought {
		soughtS = "true"
	}
	if len(stmts) == 0 {
		return ind + "(0, passNum, " + soughtS + ")"
	}
	s, rest := stmts[0], stmts[1:]
	text := c13srcText(x.p, s)
	switch y := s.(type) {
	case *ast.BranchStmt:
		if y.Tok == token.CONTINUE {
			return ind + "(0, passNum, " + soughtS + ")"
		}
	case *ast.IncDecStmt:
		if c13srcText(x.p, y.X) == "d.passNum" && y.Tok == token.INC {
			return ind + "let passNum := passNum + 1\n" + x.passEnd(rest, sought, ind)
		}
	case *ast.IfStmt:
		if y.Init == nil && y.Else == nil && len(y.Body.List) == 1 {
			if rs, ok := y.Body.List[0].(*ast.ReturnStmt); ok && len(rs.Results) == 2 {
				switch c13srcText(x.p, rs.Results[1]) {
				case "ErrPassLimit":
					return ind + "if " + x.cond(y.Cond) + " then (1, passNum, " + soughtS + ") else\n" + x.passEnd(rest, sought, ind)
				case "ErrNoAmmo":
					return ind + "if " + x.cond(y.Cond) + " then (2, passNum, " + soughtS + ") else\n" + x.passEnd(rest, sought, ind)
				case "err":
					if c13srcText(x.p, y.Cond) == "err != nil" {
						return x.passEnd(rest, sought, ind)
					}
				}
			}
		}
	case *ast.AssignStmt:
		if len(y.Rhs) == 1 {
			if c, ok := y.Rhs[0].(*ast.CallExpr); ok && c13srcText(x.p, c.Fun) == "d.file.Seek" {
				if c13srcText(x.p, y.Rhs[0]) != "d.file.Seek(0, io.SeekStart)" {
					return ind + x.fail(s, "seek %s", text)
				}
				return x.passEnd(rest, true, ind)
			}
		}
		if len(y.Lhs) == 1 {
			switch c13srcText(x.p, y.Lhs[0]) {
			case "d.header", "d.Header", "d.line", "d.scanner", "d.decoder", "err":
				return x.passEnd(rest, sought, ind)
			}
		}
	case *ast.ExprStmt:
		if text == "d.reader.Reset(d.file)" {
			return x.passEnd(rest, sought, ind)
		}
	}
	return ind + x.fail(s, "statement on the pass-end path: %s", text)
}

// mprEof: symbolic execution of the EOF block of MultiPassReader.Read
func (x *c13srcX) mprEof(stmts []ast.Stmt, ind string) string {
	if len(stmts) == 0 {
		return ind + "(false, false, passBytes, passesCount)"
	}
	s, rest := stmts[0], stmts[1:]
	text := c13srcText(x.p, s)
	switch y := s.(type) {
	case *ast.IncDecStmt:
		if c13srcText(x.p, y.X) == "r.passesCount" && y.Tok == token.INC {
			return ind + "let passesCount := passesCount + 1\n" + x.mprEof(rest, ind)
		}
	case *ast.AssignStmt:
		if len(y.Lhs) == 1 && len(y.Rhs) == 1 {
			switch c13srcText(x.p, y.Lhs[0]) {
			case "fruitless":
				return ind + "let fruitless : Bool := decide " + x.cond(y.Rhs[0]) + "\n" + x.mprEof(rest, ind)
			case "r.passBytes":
				if y.Tok == token.ASSIGN {
					return ind + "let passBytes : Int := " + x.intE(y.Rhs[0]) + "\n" + x.mprEof(rest, ind)
				}
			}
		}
	case *ast.IfStmt:
		if y.Init == nil && y.Else == nil && len(y.Body.List) == 1 {
			if rs, ok := y.Body.List[0].(*ast.ReturnStmt); ok && len(rs.Results) == 0 {
				return ind + "if " + x.cond(y.Cond) + " then (true, false, passBytes, passesCount) else\n" + x.mprEof(rest, ind)
			}
			if c13srcText(x.p, y.Body.List[0]) == "_, err = r.rs.Seek(0, io.SeekStart)" && len(rest) == 0 {
				return ind + "(false, decide " + x.cond(y.Cond) + ", passBytes, passesCount)"
			}
		}
	}
	return ind + x.fail(s, "statement of the EOF block: %s", text)
}

// c13srcUnwrap strips parentheses and conversions between integer types
func c13srcUnwrap(p *packages.Package, e ast.Expr) ast.Expr {
	for {
		switch y := e.(type) {
		case *ast.ParenExpr:
			e = y.X
			continue
		case *ast.CallExpr:
			if tv, ok := p.TypesInfo.Types[y.Fun]; ok && tv.IsType() && len(y.Args) == 1 && isInt(tv.Type) {
				e = y.Args[0]
				continue
			}
		}
		return e
	}
}

// scanAmmos of the jsonline decoder: the whole function, executed symbolically
func (x *c13srcX) scanAmmos(stmts []ast.Stmt, ind string) string {
	if len(stmts) == 0 {
		return ind + x.fail(nil, "scanAmmos: no return")
	}
	s, rest := stmts[0], stmts[1:]
	text := c13srcText(x.p, s)
	switch y := s.(type) {
	case *ast.ReturnStmt:
		if len(y.Results) == 2 && c13srcIsNil(y.Results[1]) && c13srcText(x.p, y.Results[0]) == "a" && x.env["a"] != "" {
			return ind + ".ok (" + x.env["a"] + ", passNum, ammoNum)"
		}
	case *ast.IncDecStmt:
		if y.Tok == token.INC {
			switch c13srcText(x.p, y.X) {
			case "d.passNum":
				return ind + "let passNum := passNum + 1\n" + x.scanAmmos(rest, ind)
			case "d.ammoNum":
				return ind + "let ammoNum := ammoNum + 1\n" + x.scanAmmos(rest, ind)
			}
		}
	case *ast.IfStmt:
		if y.Init == nil && y.Else == nil && len(y.Body.List) == 1 {
			if rs, ok := y.Body.List[0].(*ast.ReturnStmt); ok && len(rs.Results) == 2 && !c13srcIsNil(rs.Results[1]) {
				cls := map[string]string{"ErrNoAmmo": "noammo", "ErrPassLimit": "passlimit"}[c13srcText(x.p, rs.Results[1])]
				if cls == "" {
					cls = "e"
				}
				return ind + "if " + x.cond(y.Cond) + " then .err \"" + cls + "\" else\n" + x.scanAmmos(rest, ind)
			}
			if id, ok := y.Body.List[0].(*ast.IncDecStmt); ok && id.Tok == token.INC && c13srcText(x.p, id.X) == "d.passNum" {
				return ind + "let passNum := if " + x.cond(y.Cond) + " then passNum + 1 else passNum\n" + x.scanAmmos(rest, ind)
			}
		}
	case *ast.AssignStmt:
		if len(y.Lhs) == 1 && len(y.Rhs) == 1 && y.Tok == token.DEFINE {
			lhs := c13srcText(x.p, y.Lhs[0])
			rhs := c13srcText(x.p, y.Rhs[0])
			if rhs == "len(d.ammos)" {
				x.env[lhs] = "length"
				return x.scanAmmos(rest, ind)
			}
			if be, ok := c13srcUnwrap(x.p, y.Rhs[0]).(*ast.BinaryExpr); ok && be.Op == token.REM {
				v := mangle(lhs)
				x.env[lhs] = v
				return ind + "(Pandora.Model.C13.tmodC " + x.intE(be.X) + " " + x.intE(be.Y) + ").bind fun " + v + " =>\n" + x.scanAmmos(rest, ind)
			}
			if ie, ok := y.Rhs[0].(*ast.IndexExpr); ok && c13srcText(x.p, ie.X) == "d.ammos" {
				x.env[lhs] = x.intE(ie.Index)
				return ind + "(Pandora.Model.C13.boundC " + x.intE(ie.Index) + " length).bind fun _ =>\n" + x.scanAmmos(rest, ind)
			}
		}
	}
	return ind + x.fail(s, "statement of scanAmmos: %s", text)
}

func c13srcExtra(t *tr) string {
	var b strings.Builder
	b.WriteString("open Pandora.Model.C13\n\n")

	// ---------------------------------------------------------------- lib/mp calcIndex
	{
		x := &c13srcX{t: t, p: t.pkg, rnd: "rnd", env: map[string]string{
			"indexStr": "indexStr", "index": "index", "length": "length", "err != nil": "(atoiErr = true)",
			"iter.Next(segment)": "next",
		}}
		fd := c13srcFunc(t.pkg, "", "calcIndex")
		if fd == nil || len(fd.Body.List) < 2 {
			x.fail(nil, "func calcIndex not found in lib/mp")
		} else {
			first := c13srcText(t.pkg, fd.Body.List[0])
			if first != "index, err := strconv.Atoi(indexStr)" {
				x.fail(fd.Body.List[0], "calcIndex does not start with the Atoi of indexStr: %s", first)
			}
			b.WriteString("/-- regenerated from `lib/mp/map.go` func `calcIndex`, the statements after `index, err := strconv.Atoi(indexStr)`:\n`index` / `atoiErr` = what Atoi returned, `next` = `iter.Next(segment)`, `rnd` = the raw random number of `iter.Rand` -/\n")
			b.WriteString("def calcIndex (indexStr : List UInt8) (index : Int) (atoiErr : Bool) (length next : Int) (rnd : Nat) : Res Int :=\n")
			b.WriteString(x.block(fd.Body.List[1:], "  "))
			b.WriteString("\n\n")
		}
	}

	// ---------------------------------------------------------------- templater randInt
	{
		p := c13srcLoad(t, "github.com/yandex/pandora/components/providers/scenario/templater")
		x := &c13srcX{t: t, p: p, rnd: "rnd", wrap: true, env: map[string]string{"f": "f", "t": "t", "n": "n"}}
		fd := c13srcFunc(p, "", "randInt")
		if fd == nil {
			x.fail(nil, "func randInt not found in templater")
		} else {
			b.WriteString("/-- regenerated from `components/providers/scenario/templater/func.go` func `randInt` (int64 `+` and `-` wrap around) -/\n")
			b.WriteString("def randInt (f t : Int) (rnd : Nat) : Res Int :=\n")
			b.WriteString(x.block(fd.Body.List, "  "))
			b.WriteString("\n\n")
		}
	}

	// ---------------------------------------------------------------- decoders: readSized, Scan pass ends
	{
		p := c13srcLoad(t, "github.com/yandex/pandora/components/providers/http/decoders")
		x := &c13srcX{t: t, p: p, env: map[string]string{"size": "size"}}
		fd := c13srcFunc(p, "", "readSized")
		if fd == nil || len(fd.Body.List) == 0 {
			x.fail(nil, "func readSized not found")
		} else {
			ifs := c13srcIfReturning(p, fd, "ErrNegativeSize")
			if len(ifs) != 1 {
				x.fail(fd, "readSized: %d tests return ErrNegativeSize", len(ifs))
			} else {
				b.WriteString("/-- regenerated from `decoders/decoder.go` func `readSized`: the test that returns ErrNegativeSize -/\n")
				b.WriteString("def readSizedRefuses (size : Int) : Prop := " + x.cond(ifs[0].Cond) + "\n")
				b.WriteString("instance (size : Int) : Decidable (readSizedRefuses size) := by unfold readSizedRefuses; exact inferInstance\n\n")
				// no make / append / ReadFull call stands before that test
				early := false
				ast.Inspect(fd.Body, func(n ast.Node) bool {
					if c, ok := n.(*ast.CallExpr); ok && c.Pos() < ifs[0].Pos() {
						switch c13srcText(p, c.Fun) {
						case "make", "append", "io.ReadFull":
							early = true
						}
					}
					return true
				})
				fmt.Fprintf(&b, "/-- no `make`, `append` or `io.ReadFull` call stands before that test -/\ndef readSizedTestFirst : Bool := %v\n\n", !early)
			}
		}
		if obj := p.Types.Scope().Lookup("readChunkSize"); obj == nil {
			x.fail(nil, "const readChunkSize not found")
		} else if c, ok := obj.(interface{ Val() constant.Value }); ok {
			fmt.Fprintf(&b, "/-- `const readChunkSize`: the most `readSized` allocates ahead of the data it has read -/\ndef readChunkSize : Int := %s\n\n", constant.ToInt(c.Val()).ExactString())
		}
		for _, dec := range []string{"uripost", "raw", "uri", "jsonline"} {
			fd := c13srcFunc(p, dec+"Decoder", "Scan")
			x := &c13srcX{t: t, p: p, env: map[string]string{
				"d.config.Passes": "passes", "d.passNum": "passNum", "d.ammoNum": "ammoNum"}}
			if fd == nil {
				x.fail(nil, "%sDecoder.Scan not found", dec)
				continue
			}
			// the path from the end of the file to the next read, executed symbolically
			path := c13srcPassEndPath(p, fd, dec)
			if path == nil {
				x.fail(fd, "%sDecoder.Scan: the statements between the end of the file and the next read were not found", dec)
				continue
			}
			fmt.Fprintf(&b, "/-- regenerated from `decoders/%s.go` `Scan`: the statements executed between the end of the file and the next read,\nin source order: (0 = read again | 1 = ErrPassLimit | 2 = ErrNoAmmo, `d.passNum` afterwards, the file was sought to its start) -/\n", dec)
			fmt.Fprintf(&b, "def %sPassEnd (passes passNum ammoNum : Int) : Int × Int × Bool :=\n%s\n\n", dec, x.passEnd(path, false, "  "))
			if dec == "raw" {
				fmt.Fprintf(&b, "/-- regenerated from `decoders/raw.go` `Scan`: what becomes of a last line that lacks its newline (`ReadString` returns it\ntogether with io.EOF): 0 = dropped (any io.EOF ends the pass) | 1 = read as a line (the pass ends only on io.EOF WITHOUT data, and the\nread-error test lets io.EOF through) | 2 = refused as a read error -/\ndef rawLastLine : Int := %d\n\n", c13srcRawLastLine(x, fd))
			}
		}
	}

	// ---------------------------------------------------------------- jsonline scanAmmos
	{
		p := c13srcLoad(t, "github.com/yandex/pandora/components/providers/http/decoders")
		x := &c13srcX{t: t, p: p, env: map[string]string{
			"d.config.Passes": "passes", "d.passNum": "passNum", "d.ammoNum": "ammoNum"}}
		fd := c13srcFunc(p, "jsonlineDecoder", "scanAmmos")
		if fd == nil {
			x.fail(nil, "jsonlineDecoder.scanAmmos not found")
		} else {
			b.WriteString("/-- regenerated from `decoders/jsonline.go` `scanAmmos`, the whole function (`length` = `len(d.ammos)`): an error, or\n(the index of the element handed out, `d.passNum` and `d.ammoNum` afterwards); `%` and the index expression are partial -/\n")
			b.WriteString("def scanAmmos (length passes passNum ammoNum : Int) : Res (Int × Int × Int) :=\n")
			b.WriteString(x.scanAmmos(fd.Body.List, "  "))
			b.WriteString("\n\n")
		}
	}

	// ---------------------------------------------------------------- MultiPassReader.Read, DecodeProvider's progress function
	{
		p := c13srcLoad(t, "github.com/yandex/pandora/lib/ioutil2")
		x := &c13srcX{t: t, p: p, env: map[string]string{
			"r.passBytes": "passBytes", "r.progress != nil": "(hasProgress = true)", "r.progress()": "(progress = true)",
			"r.passesLimit": "passesLimit", "r.passesCount": "passesCount", "fruitless": "(fruitless = true)"}}
		fd := c13srcFunc(p, "MultiPassReader", "Read")
		if fd == nil {
			x.fail(nil, "MultiPassReader.Read not found")
		} else {
			var eofIf *ast.IfStmt
			for _, s := range fd.Body.List {
				if is, ok := s.(*ast.IfStmt); ok && c13srcText(p, is.Cond) == "err == io.EOF" {
					eofIf = is
				}
			}
			if eofIf == nil {
				x.fail(fd, "MultiPassReader.Read: no `if err == io.EOF` block")
			} else {
				b.WriteString("/-- regenerated from `lib/ioutil2/reader.go` `MultiPassReader.Read`, the block `if err == io.EOF`, executed in source order\n(`hasProgress` = a progress function is set, `progress` = what it answers):\n(the early `return` is taken, the source is sought to its start, `r.passBytes` and `r.passesCount` afterwards) -/\n")
				b.WriteString("def mprEof (passBytes passesCount passesLimit : Int) (hasProgress progress : Bool) : Bool × Bool × Int × Int :=\n")
				b.WriteString(x.mprEof(eofIf.Body.List, "  "))
				b.WriteString("\n\n")
			}
		}
		pp := c13srcLoad(t, "github.com/yandex/pandora/core/provider")
		xx := &c13srcX{t: t, p: pp, env: map[string]string{"ammoNum": "ammoNum", "passStart": "passStart"}}
		run := c13srcFunc(pp, "DecodeProvider", "Run")
		found := false
		if run != nil {
			ast.Inspect(run.Body, func(n ast.Node) bool {
				c, ok := n.(*ast.CallExpr)
				if !ok || !strings.HasSuffix(c13srcText(pp, c.Fun), ".SetProgress") || len(c.Args) != 1 {
					return true
				}
				fl, ok := c.Args[0].(*ast.FuncLit)
				if !ok || len(fl.Body.List) != 3 {
					return true
				}
				a1, ok1 := fl.Body.List[0].(*ast.AssignStmt)
				a2, ok2 := fl.Body.List[1].(*ast.AssignStmt)
				r3, ok3 := fl.Body.List[2].(*ast.ReturnStmt)
				if !ok1 || !ok2 || !ok3 || c13srcText(pp, a2) != "passStart = ammoNum" || len(r3.Results) != 1 ||
					c13srcText(pp, r3.Results[0]) != c13srcText(pp, a1.Lhs[0]) {
					return true
				}
				found = true
				b.WriteString("/-- regenerated from `core/provider/decoder.go` `DecodeProvider.Run`: what the function given to `SetProgress` answers\n(it then sets `passStart = ammoNum`) -/\n")
				b.WriteString("def dpProgress (ammoNum passStart : Int) : Prop := " + xx.cond(a1.Rhs[0]) + "\n")
				b.WriteString("instance (ammoNum passStart : Int) : Decidable (dpProgress ammoNum passStart) := by unfold dpProgress; exact inferInstance\n")
				return false
			})
		}
		if !found {
			xx.fail(nil, "DecodeProvider.Run: no SetProgress(func() bool { progress := …; passStart = ammoNum; return progress })")
		}
	}
	// ---------------------------------------------------------------- grpc/json: pooled ammo objects (area_c13src_grpc.go)
	b.WriteString("\n")
	b.WriteString(c13srcGrpc(t))
	// ---------------------------------------------------------------- round 4: option handling (area_c13src_r4.go)
	b.WriteString("\n")
	b.WriteString(c13srcRound4(t))
	// ---------------------------------------------------------------- round 6: caps, the end of Run (area_c13src_r6.go)
	b.WriteString("\n")
	b.WriteString(c13srcRound6(t))
	return b.String()
}
