package main

// Area "c13src" (property C13): re-translates from the CURRENT source the integer / guard logic that the models of
// lean/Pandora/Model/C13*.lean rest on, as executable core-Lean definitions (every identifier of this file carries the
// prefix `c13src`). lean/Pandora/Bridge/C13.lean proves each of them equal to the model for ALL arguments, so a change
// of a comparison, a constant, an operator or the order of two dependent tests breaks a proof, while renaming variables,
// reordering independent tests, or writing a test in an equivalent way does not.
//
//	lib/mp/map.go                       calcIndex                the whole function after its Atoi line
//	components/providers/scenario/templater/func.go  randInt     the whole function (int64 arithmetic wraps around)
//	components/providers/http/decoders  readSized                the test in front of the first allocation, readChunkSize
//	components/providers/http/decoders  uripost/raw/uri/jsonline Scan: the tests that end a pass (ErrPassLimit, ErrNoAmmo)
//	                                                             and their order relative to passNum++ and the Seek
//	lib/ioutil2/reader.go               MultiPassReader.Read     the `fruitless` and the seek conditions, order of the EOF block
//	core/provider/decoder.go            DecodeProvider.Run       the progress function given to SetProgress
//
// Go semantics read: `int`/`uint` values are ℤ (ranges are the bridge's business), int64 `+`/`-` in randInt wrap around
// (`wrap64`), `x %= y` and rand.Int63n / Iterator.Rand are partial operations (`tmodC`, `intnC` of Model/C13Base.lean).

import (
	"bytes"
	"fmt"
	"go/ast"
	"go/constant"
	"go/printer"
	"go/token"
	"sort"
	"strings"

	"golang.org/x/tools/go/packages"
)

func init() {
	areas["c13src"] = area{
		pkgPath:   "github.com/yandex/pandora/lib/mp",
		module:    "C13Src",
		namespace: "Pandora.Gen.C13Src",
		imports:   []string{"Pandora.Model.C13Base"},
		extra:     c13srcExtra,
	}
}

type c13srcX struct {
	t    *tr
	p    *packages.Package
	env  map[string]string // source text of an expression -> Lean text
	wrap bool              // int64 wrap-around on + and -
	rnd  string            // Lean name of the raw random number
}

func (x *c13srcX) fail(n ast.Node, format string, a ...any) string {
	pos := ""
	if n != nil {
		pos = x.p.Fset.Position(n.Pos()).String() + ": "
	}
	x.t.errs = append(x.t.errs, pos+"unsupported (c13src): "+fmt.Sprintf(format, a...))
	return "(UNSUPPORTED)"
}

// c13srcLoad type-checks the given packages from source in one go; their dependencies come from export data
// (the build cache), which is several times faster than type-checking net/http and friends from source.
var c13srcPkgs map[string]*packages.Package

func c13srcLoad(t *tr, path string) *packages.Package {
	if c13srcPkgs == nil {
		c13srcPkgs = map[string]*packages.Package{}
		cfg := &packages.Config{Mode: packages.NeedName | packages.NeedSyntax | packages.NeedTypes | packages.NeedTypesInfo |
			packages.NeedFiles | packages.NeedImports, Dir: repo, BuildFlags: []string{"-tags=verif"}}
		pkgs, err := packages.Load(cfg,
			"github.com/yandex/pandora/components/providers/scenario/templater",
			"github.com/yandex/pandora/components/providers/http/decoders",
			"github.com/yandex/pandora/lib/ioutil2",
			"github.com/yandex/pandora/core/provider")
		if err != nil {
			t.errs = append(t.errs, "c13src: load: "+err.Error())
		}
		for _, p := range pkgs {
			if len(p.Errors) > 0 {
				t.errs = append(t.errs, fmt.Sprintf("c13src: load %s: %v", p.PkgPath, p.Errors))
			}
			c13srcPkgs[p.PkgPath] = p
		}
	}
	if p, ok := c13srcPkgs[path]; ok {
		return p
	}
	t.errs = append(t.errs, "c13src: package "+path+" not loaded")
	return load(path)
}

func c13srcText(p *packages.Package, n ast.Node) string {
	var b bytes.Buffer
	_ = printer.Fprint(&b, p.Fset, n)
	return strings.Join(strings.Fields(b.String()), " ")
}

func c13srcFunc(p *packages.Package, recv, name string) *ast.FuncDecl {
	for _, f := range p.Syntax {
		for _, d := range f.Decls {
			fd, ok := d.(*ast.FuncDecl)
			if !ok || fd.Name.Name != name || fd.Body == nil {
				continue
			}
			if recv == "" {
				if fd.Recv == nil {
					return fd
				}
				continue
			}
			if fd.Recv == nil || len(fd.Recv.List) != 1 {
				continue
			}
			ty := fd.Recv.List[0].Type
			if st, ok := ty.(*ast.StarExpr); ok {
				ty = st.X
			}
			if id, ok := ty.(*ast.Ident); ok && id.Name == recv {
				return fd
			}
		}
	}
	return nil
}

func c13srcBytes(s string) string {
	parts := make([]string, 0, len(s))
	for _, c := range []byte(s) {
		parts = append(parts, fmt.Sprint(int(c)))
	}
	return "([" + strings.Join(parts, ", ") + "] : List UInt8)"
}

// integer expression
func (x *c13srcX) intE(e ast.Expr) string {
	if l, ok := x.env[c13srcText(x.p, e)]; ok {
		return l
	}
	if tv, ok := x.p.TypesInfo.Types[e]; ok && tv.Value != nil {
		v := constant.ToInt(tv.Value)
		if v.Kind() == constant.Int {
			return "(" + v.ExactString() + " : Int)"
		}
	}
	switch y := e.(type) {
	case *ast.ParenExpr:
		return x.intE(y.X)
	case *ast.BinaryExpr:
		l, r := x.intE(y.X), x.intE(y.Y)
		var s string
		switch y.Op {
		case token.ADD:
			s = "(" + l + " + " + r + ")"
		case token.SUB:
			s = "(" + l + " - " + r + ")"
		case token.MUL:
			s = "(" + l + " * " + r + ")"
		default:
			return x.fail(e, "integer operator %s", y.Op)
		}
		if x.wrap {
			return "(Pandora.Model.C13.wrap64 " + s + ")"
		}
		return s
	case *ast.CallExpr:
		// conversion between integer types
		if tv, ok := x.p.TypesInfo.Types[y.Fun]; ok && tv.IsType() && len(y.Args) == 1 && isInt(tv.Type) {
			return x.intE(y.Args[0])
		}
	}
	return x.fail(e, "integer expression %s", c13srcText(x.p, e))
}

// condition -> Lean Prop (decidable)
func (x *c13srcX) cond(e ast.Expr) string {
	if l, ok := x.env[c13srcText(x.p, e)]; ok {
		return l
	}
	switch y := e.(type) {
	case *ast.ParenExpr:
		return x.cond(y.X)
	case *ast.UnaryExpr:
		if y.Op == token.NOT {
			return "(¬ " + x.cond(y.X) + ")"
		}
	case *ast.BinaryExpr:
		switch y.Op {
		case token.LAND:
			return "(" + x.cond(y.X) + " ∧ " + x.cond(y.Y) + ")"
		case token.LOR:
			return "(" + x.cond(y.X) + " ∨ " + x.cond(y.Y) + ")"
		}
		// string compared with a constant
		if tv, ok := x.p.TypesInfo.Types[y.Y]; ok && tv.Value != nil && tv.Value.Kind() == constant.String {
			l, ok := x.env[c13srcText(x.p, y.X)]
			if !ok {
				return x.fail(e, "string operand %s", c13srcText(x.p, y.X))
			}
			lit := c13srcBytes(constant.StringVal(tv.Value))
			switch y.Op {
			case token.EQL:
				return "(" + l + " = " + lit + ")"
			case token.NEQ:
				return "(" + l + " ≠ " + lit + ")"
			}
			return x.fail(e, "string operator %s", y.Op)
		}
		ops := map[token.Token]string{token.LSS: "<", token.LEQ: "≤", token.GTR: ">", token.GEQ: "≥", token.EQL: "=", token.NEQ: "≠"}
		if op, ok := ops[y.Op]; ok {
			return "(" + x.intE(y.X) + " " + op + " " + x.intE(y.Y) + ")"
		}
	}
	return x.fail(e, "condition %s", c13srcText(x.p, e))
}

func c13srcIsNil(e ast.Expr) bool {
	id, ok := e.(*ast.Ident)
	return ok && id.Name == "nil"
}

// partial calls: (Lean text of a `Res Int`, true) when the call is one of the modelled partial operations
func (x *c13srcX) partialCall(e ast.Expr) (string, bool) {
	c, ok := e.(*ast.CallExpr)
	if !ok {
		return "", false
	}
	switch c13srcText(x.p, c.Fun) {
	case "iter.Rand", "rand.Int63n", "rand.Intn":
		if len(c.Args) == 1 {
			return "(Pandora.Model.C13.intnC " + x.intE(c.Args[0]) + " " + x.rnd + ")", true
		}
	}
	return "", false
}

// block: statements of a function whose result is (value, error) -> Lean text of type `Res Int`
func (x *c13srcX) block(stmts []ast.Stmt, ind string) string {
	if len(stmts) == 0 {
		return ind + x.fail(nil, "block without return")
	}
	s, rest := stmts[0], stmts[1:]
	switch y := s.(type) {
	case *ast.ReturnStmt:
		if len(y.Results) != 2 {
			return ind + x.fail(s, "return arity")
		}
		if !c13srcIsNil(y.Results[1]) {
			return ind + ".err \"e\""
		}
		if pc, ok := x.partialCall(y.Results[0]); ok {
			return ind + pc
		}
		// strconv.FormatInt(n, 10): the number itself
		if c, ok := y.Results[0].(*ast.CallExpr); ok && c13srcText(x.p, c.Fun) == "strconv.FormatInt" && len(c.Args) == 2 {
			return ind + ".ok " + x.intE(c.Args[0])
		}
		return ind + ".ok " + x.intE(y.Results[0])
	case *ast.IfStmt:
		if y.Init != nil || y.Else != nil {
			return ind + x.fail(s, "if with init/else")
		}
		c := x.cond(y.Cond)
		body := y.Body.List
		if n := len(body); n > 0 {
			if _, isRet := body[n-1].(*ast.ReturnStmt); isRet {
				return ind + "if " + c + " then\n" + x.block(body, ind+"  ") + "\n" + ind + "else\n" + x.block(rest, ind)
			}
		}
		// conditional assignments
		out := ""
		for _, b := range body {
			as, ok := b.(*ast.AssignStmt)
			if !ok {
				return ind + x.fail(b, "statement in a conditional block")
			}
			out += x.assign(as, c, ind)
		}
		return out + x.block(rest, ind)
	case *ast.AssignStmt:
		return x.assign(y, "", ind) + x.block(rest, ind)
	}
	return ind + x.fail(s, "statement %T", s)
}

// assign: Lean `let` lines (each ending in a newline) for one assignment, executed only when cond holds (cond "" = always)
func (x *c13srcX) assign(as *ast.AssignStmt, cond string, ind string) string {
	name := func(e ast.Expr) string {
		if l, ok := x.env["lhs:"+c13srcText(x.p, e)]; ok {
			return l
		}
		if id, ok := e.(*ast.Ident); ok {
			return mangle(id.Name)
		}
		return x.fail(e, "assignment target")
	}
	guard := func(v, old string) string {
		if cond == "" {
			return v
		}
		return "if " + cond + " then " + v + " else " + old
	}
	// t, f = f, t
	if len(as.Lhs) == 2 && len(as.Rhs) == 2 && as.Tok == token.ASSIGN {
		a, b := name(as.Lhs[0]), name(as.Lhs[1])
		return ind + "let p := " + guard("("+x.intE(as.Rhs[0])+", "+x.intE(as.Rhs[1])+")", "("+a+", "+b+")") + "\n" +
			ind + "let " + a + " := p.1\n" + ind + "let " + b + " := p.2\n"
	}
	if len(as.Lhs) != 1 || len(as.Rhs) != 1 {
		return ind + x.fail(as, "assignment shape") + "\n"
	}
	v := name(as.Lhs[0])
	switch as.Tok {
	case token.ASSIGN, token.DEFINE:
		if pc, ok := x.partialCall(as.Rhs[0]); ok {
			if cond != "" {
				return ind + x.fail(as, "partial call in a conditional block") + "\n"
			}
			return ind + pc + ".bind fun " + v + " =>\n"
		}
		return ind + "let " + v + " := " + guard(x.intE(as.Rhs[0]), v) + "\n"
	case token.ADD_ASSIGN, token.SUB_ASSIGN:
		op := " + "
		if as.Tok == token.SUB_ASSIGN {
			op = " - "
		}
		e := "(" + v + op + x.intE(as.Rhs[0]) + ")"
		if x.wrap {
			e = "(Pandora.Model.C13.wrap64 " + e + ")"
		}
		return ind + "let " + v + " := " + guard(e, v) + "\n"
	case token.REM_ASSIGN:
		pc := "(Pandora.Model.C13.tmodC " + v + " " + x.intE(as.Rhs[0]) + ")"
		if cond != "" {
			pc = "(if " + cond + " then " + pc + " else .ok " + v + ")"
		}
		return ind + pc + ".bind fun " + v + " =>\n"
	}
	return ind + x.fail(as, "assignment operator %s", as.Tok) + "\n"
}

// ifReturning finds, anywhere in fd, the if statements whose body is a single `return …, <errName>`
func c13srcIfReturning(p *packages.Package, fd *ast.FuncDecl, errName string) []*ast.IfStmt {
	var out []*ast.IfStmt
	ast.Inspect(fd.Body, func(n ast.Node) bool {
		is, ok := n.(*ast.IfStmt)
		if !ok || len(is.Body.List) != 1 {
			return true
		}
		rs, ok := is.Body.List[0].(*ast.ReturnStmt)
		if !ok || len(rs.Results) == 0 {
			return true
		}
		if c13srcText(p, rs.Results[len(rs.Results)-1]) == errName {
			out = append(out, is)
		}
		return true
	})
	return out
}

type c13srcEvent struct {
	pos  token.Pos
	name string
}

func c13srcSeq(evs []c13srcEvent) string {
	sort.Slice(evs, func(i, j int) bool { return evs[i].pos < evs[j].pos })
	parts := make([]string, len(evs))
	for i, e := range evs {
		parts[i] = fmt.Sprintf("%q", e.name)
	}
	return "[" + strings.Join(parts, ", ") + "]"
}

func c13srcExtra(t *tr) string {
	var b strings.Builder
	b.WriteString("open Pandora.Model.C13\n\n")

	// ---------------------------------------------------------------- lib/mp calcIndex
	{
		x := &c13srcX{t: t, p: t.pkg, rnd: "rnd", env: map[string]string{
			"indexStr": "indexStr", "index": "index", "length": "length", "err != nil": "(atoiErr = true)",
			"iter.Next(segment)": "next",
		}}
		fd := c13srcFunc(t.pkg, "", "calcIndex")
		if fd == nil || len(fd.Body.List) < 2 {
			x.fail(nil, "func calcIndex not found in lib/mp")
		} else {
			first := c13srcText(t.pkg, fd.Body.List[0])
			if first != "index, err := strconv.Atoi(indexStr)" {
				x.fail(fd.Body.List[0], "calcIndex does not start with the Atoi of indexStr: %s", first)
			}
			b.WriteString("/-- regenerated from `lib/mp/map.go` func `calcIndex`, the statements after `index, err := strconv.Atoi(indexStr)`:\n`index` / `atoiErr` = what Atoi returned, `next` = `iter.Next(segment)`, `rnd` = the raw random number of `iter.Rand` -/\n")
			b.WriteString("def calcIndex (indexStr : List UInt8) (index : Int) (atoiErr : Bool) (length next : Int) (rnd : Nat) : Res Int :=\n")
			b.WriteString(x.block(fd.Body.List[1:], "  "))
			b.WriteString("\n\n")
		}
	}

	// ---------------------------------------------------------------- templater randInt
	{
		p := c13srcLoad(t, "github.com/yandex/pandora/components/providers/scenario/templater")
		x := &c13srcX{t: t, p: p, rnd: "rnd", wrap: true, env: map[string]string{"f": "f", "t": "t", "n": "n"}}
		fd := c13srcFunc(p, "", "randInt")
		if fd == nil {
			x.fail(nil, "func randInt not found in templater")
		} else {
			b.WriteString("/-- regenerated from `components/providers/scenario/templater/func.go` func `randInt` (int64 `+` and `-` wrap around) -/\n")
			b.WriteString("def randInt (f t : Int) (rnd : Nat) : Res Int :=\n")
			b.WriteString(x.block(fd.Body.List, "  "))
			b.WriteString("\n\n")
		}
	}

	// ---------------------------------------------------------------- decoders: readSized, Scan pass ends
	{
		p := c13srcLoad(t, "github.com/yandex/pandora/components/providers/http/decoders")
		x := &c13srcX{t: t, p: p, env: map[string]string{"size": "size"}}
		fd := c13srcFunc(p, "", "readSized")
		if fd == nil || len(fd.Body.List) == 0 {
			x.fail(nil, "func readSized not found")
		} else {
			ifs := c13srcIfReturning(p, fd, "ErrNegativeSize")
			if len(ifs) != 1 {
				x.fail(fd, "readSized: %d tests return ErrNegativeSize", len(ifs))
			} else {
				b.WriteString("/-- regenerated from `decoders/decoder.go` func `readSized`: the test that returns ErrNegativeSize -/\n")
				b.WriteString("def readSizedRefuses (size : Int) : Prop := " + x.cond(ifs[0].Cond) + "\n")
				b.WriteString("instance (size : Int) : Decidable (readSizedRefuses size) := by unfold readSizedRefuses; exact inferInstance\n\n")
				// no make / append / ReadFull call stands before that test
				early := false
				ast.Inspect(fd.Body, func(n ast.Node) bool {
					if c, ok := n.(*ast.CallExpr); ok && c.Pos() < ifs[0].Pos() {
						switch c13srcText(p, c.Fun) {
						case "make", "append", "io.ReadFull":
							early = true
						}
					}
					return true
				})
				fmt.Fprintf(&b, "/-- no `make`, `append` or `io.ReadFull` call stands before that test -/\ndef readSizedTestFirst : Bool := %v\n\n", !early)
			}
		}
		if obj := p.Types.Scope().Lookup("readChunkSize"); obj == nil {
			x.fail(nil, "const readChunkSize not found")
		} else if c, ok := obj.(interface{ Val() constant.Value }); ok {
			fmt.Fprintf(&b, "/-- `const readChunkSize`: the most `readSized` allocates ahead of the data it has read -/\ndef readChunkSize : Int := %s\n\n", constant.ToInt(c.Val()).ExactString())
		}
		for _, dec := range []string{"uripost", "raw", "uri", "jsonline"} {
			fd := c13srcFunc(p, dec+"Decoder", "Scan")
			x := &c13srcX{t: t, p: p, env: map[string]string{
				"d.config.Passes": "passes", "d.passNum": "passNum", "d.ammoNum": "ammoNum"}}
			if fd == nil {
				x.fail(nil, "%sDecoder.Scan not found", dec)
				continue
			}
			pl := c13srcIfReturning(p, fd, "ErrPassLimit")
			na := c13srcIfReturning(p, fd, "ErrNoAmmo")
			if len(pl) != 1 || len(na) != 1 {
				x.fail(fd, "%sDecoder.Scan: %d tests return ErrPassLimit, %d ErrNoAmmo", dec, len(pl), len(na))
				continue
			}
			fmt.Fprintf(&b, "/-- regenerated from `decoders/%s.go` `Scan`: the tests that return ErrPassLimit / ErrNoAmmo -/\n", dec)
			fmt.Fprintf(&b, "def %sPassLimit (passes passNum : Int) : Prop := %s\n", dec, x.cond(pl[0].Cond))
			fmt.Fprintf(&b, "instance (passes passNum : Int) : Decidable (%sPassLimit passes passNum) := by unfold %sPassLimit; exact inferInstance\n", dec, dec)
			fmt.Fprintf(&b, "def %sNoAmmo (ammoNum : Int) : Prop := %s\n", dec, x.cond(na[0].Cond))
			fmt.Fprintf(&b, "instance (ammoNum : Int) : Decidable (%sNoAmmo ammoNum) := by unfold %sNoAmmo; exact inferInstance\n", dec, dec)
			evs := []c13srcEvent{{pl[0].Pos(), "ErrPassLimit"}, {na[0].Pos(), "ErrNoAmmo"}}
			ast.Inspect(fd.Body, func(n ast.Node) bool {
				switch y := n.(type) {
				case *ast.IncDecStmt:
					if c13srcText(p, y.X) == "d.passNum" && y.Tok == token.INC {
						evs = append(evs, c13srcEvent{y.Pos(), "passNum++"})
					}
				case *ast.CallExpr:
					if c13srcText(p, y.Fun) == "d.file.Seek" {
						evs = append(evs, c13srcEvent{y.Pos(), "Seek"})
					}
				}
				return true
			})
			fmt.Fprintf(&b, "/-- these tests, `d.passNum++` and `d.file.Seek` in source order -/\ndef %sPassEndSeq : List String := %s\n\n", dec, c13srcSeq(evs))
		}
	}

	// ---------------------------------------------------------------- MultiPassReader.Read, DecodeProvider's progress function
	{
		p := c13srcLoad(t, "github.com/yandex/pandora/lib/ioutil2")
		x := &c13srcX{t: t, p: p, env: map[string]string{
			"r.passBytes": "passBytes", "r.progress != nil": "(hasProgress = true)", "r.progress()": "(progress = true)",
			"r.passesLimit": "passesLimit", "r.passesCount": "passesCount", "fruitless": "(fruitless = true)"}}
		fd := c13srcFunc(p, "MultiPassReader", "Read")
		if fd == nil {
			x.fail(nil, "MultiPassReader.Read not found")
		} else {
			var eofIf *ast.IfStmt
			for _, s := range fd.Body.List {
				if is, ok := s.(*ast.IfStmt); ok && c13srcText(p, is.Cond) == "err == io.EOF" {
					eofIf = is
				}
			}
			if eofIf == nil {
				x.fail(fd, "MultiPassReader.Read: no `if err == io.EOF` block")
			} else {
				var evs []c13srcEvent
				var fruitless, seekCond, retCond string
				for _, s := range eofIf.Body.List {
					switch y := s.(type) {
					case *ast.IncDecStmt:
						if c13srcText(p, y.X) == "r.passesCount" && y.Tok == token.INC {
							evs = append(evs, c13srcEvent{y.Pos(), "passesCount++"})
						}
					case *ast.AssignStmt:
						switch c13srcText(p, y.Lhs[0]) {
						case "fruitless":
							fruitless = x.cond(y.Rhs[0])
							evs = append(evs, c13srcEvent{y.Pos(), "fruitless"})
						case "r.passBytes":
							if c13srcText(p, y.Rhs[0]) == "0" && y.Tok == token.ASSIGN {
								evs = append(evs, c13srcEvent{y.Pos(), "passBytes=0"})
							} else {
								x.fail(y, "assignment to r.passBytes in the EOF block")
							}
						default:
							x.fail(y, "assignment in the EOF block")
						}
					case *ast.IfStmt:
						if len(y.Body.List) == 1 {
							if _, ok := y.Body.List[0].(*ast.ReturnStmt); ok {
								retCond = x.cond(y.Cond)
								evs = append(evs, c13srcEvent{y.Pos(), "return"})
								continue
							}
							if strings.Contains(c13srcText(p, y.Body.List[0]), "r.rs.Seek(0, io.SeekStart)") {
								seekCond = x.cond(y.Cond)
								evs = append(evs, c13srcEvent{y.Pos(), "Seek"})
								continue
							}
						}
						x.fail(y, "if statement in the EOF block")
					default:
						x.fail(s, "statement in the EOF block")
					}
				}
				if fruitless == "" || seekCond == "" || retCond == "" {
					x.fail(eofIf, "EOF block lacks the fruitless assignment, the early return or the seek")
				} else {
					b.WriteString("/-- regenerated from `lib/ioutil2/reader.go` `MultiPassReader.Read`, the block `if err == io.EOF`: the value of `fruitless`\n(`hasProgress` = a progress function is set, `progress` = what it answers) -/\n")
					b.WriteString("def mprFruitless (passBytes : Int) (hasProgress progress : Bool) : Prop := " + fruitless + "\n")
					b.WriteString("instance (passBytes : Int) (hasProgress progress : Bool) : Decidable (mprFruitless passBytes hasProgress progress) := by unfold mprFruitless; exact inferInstance\n")
					b.WriteString("/-- the test in front of the early `return` -/\ndef mprReturns (fruitless : Bool) : Prop := " + retCond + "\n")
					b.WriteString("instance (fruitless : Bool) : Decidable (mprReturns fruitless) := by unfold mprReturns; exact inferInstance\n")
					b.WriteString("/-- the test in front of `r.rs.Seek(0, io.SeekStart)` -/\ndef mprSeeks (passesLimit passesCount : Int) : Prop := " + seekCond + "\n")
					b.WriteString("instance (passesLimit passesCount : Int) : Decidable (mprSeeks passesLimit passesCount) := by unfold mprSeeks; exact inferInstance\n")
					b.WriteString("/-- the statements of that block in source order -/\ndef mprEofSeq : List String := " + c13srcSeq(evs) + "\n\n")
				}
			}
		}
		pp := c13srcLoad(t, "github.com/yandex/pandora/core/provider")
		xx := &c13srcX{t: t, p: pp, env: map[string]string{"ammoNum": "ammoNum", "passStart": "passStart"}}
		run := c13srcFunc(pp, "DecodeProvider", "Run")
		found := false
		if run != nil {
			ast.Inspect(run.Body, func(n ast.Node) bool {
				c, ok := n.(*ast.CallExpr)
				if !ok || !strings.HasSuffix(c13srcText(pp, c.Fun), ".SetProgress") || len(c.Args) != 1 {
					return true
				}
				fl, ok := c.Args[0].(*ast.FuncLit)
				if !ok || len(fl.Body.List) != 3 {
					return true
				}
				a1, ok1 := fl.Body.List[0].(*ast.AssignStmt)
				a2, ok2 := fl.Body.List[1].(*ast.AssignStmt)
				r3, ok3 := fl.Body.List[2].(*ast.ReturnStmt)
				if !ok1 || !ok2 || !ok3 || c13srcText(pp, a2) != "passStart = ammoNum" || len(r3.Results) != 1 ||
					c13srcText(pp, r3.Results[0]) != c13srcText(pp, a1.Lhs[0]) {
					return true
				}
				found = true
				b.WriteString("/-- regenerated from `core/provider/decoder.go` `DecodeProvider.Run`: what the function given to `SetProgress` answers\n(it then sets `passStart = ammoNum`) -/\n")
				b.WriteString("def dpProgress (ammoNum passStart : Int) : Prop := " + xx.cond(a1.Rhs[0]) + "\n")
				b.WriteString("instance (ammoNum passStart : Int) : Decidable (dpProgress ammoNum passStart) := by unfold dpProgress; exact inferInstance\n")
				return false
			})
		}
		if !found {
			xx.fail(nil, "DecodeProvider.Run: no SetProgress(func() bool { progress := …; passStart = ammoNum; return progress })")
		}
	}
	return b.String()
}
