package main

// Area "c02src" (property C02): definitions re-translated from the CURRENT source of core/schedule for the parts of
// the C02 model that used to be tied by correspondence only:
//
//  1. unlimitedSchedule (unlilmited.go) with the embedded StartSync (start_sync.go): the struct as a record
//     `UnlSt`, `NewUnlimited`, `Start`, `Next`, `Left` as functions in the exception/state style
//     (`time.Now()` = the parameter `now`, atomic.Time / atomic.Bool = their value, sync.Once = a flag);
//  2. the loop body of NewComposite (composite.go) as a pure function of (leftAccumulator, unknown, the child's Left)
//     plus the direction of the loop and the 0/1-children shortcuts;
//  3. what compositeSchedule.Left decides after its reader section, as a pure function of what it read there
//     (len(s.scheds), s.leftAfter[0], the child's Left, the started flag): return a value, or shift-and-retry.
//     Locals are recognised by WHAT THEY ARE ASSIGNED FROM, not by name.
//
// Lean output is core-only (`Int`, no Mathlib). Anything outside the supported subset is a translation error.

import (
	"fmt"
	"go/ast"
	"go/token"
	"go/types"
	"sort"
	"strconv"
	"strings"

	"golang.org/x/tools/go/packages"
)

func init() {
	areas["c02src"] = area{
		pkgPath:   "github.com/yandex/pandora/core/schedule",
		module:    "C02Src",
		namespace: "Pandora.Gen.C02Src",
		imports:   []string{"Pandora.Model.C02Ns", "Pandora.Model.C02NextC"},
		extra:     c02srcExtra,
	}
}

type c02srcTr struct {
	t   *tr
	p   *packages.Package
	tmp int
}

func (x *c02srcTr) fail(n ast.Node, format string, a ...any) string {
	x.t.errs = append(x.t.errs, fmt.Sprintf("%s: unsupported (c02src): %s", x.p.Fset.Position(n.Pos()), fmt.Sprintf(format, a...)))
	return "(UNSUPPORTED)"
}

func (x *c02srcTr) failf(format string, a ...any) {
	x.t.errs = append(x.t.errs, "c02src: "+fmt.Sprintf(format, a...))
}

func (x *c02srcTr) src(n ast.Node) string { return c02cbSrc(x.p, n) }

func (x *c02srcTr) findStruct(name string) *ast.StructType {
	for _, f := range x.p.Syntax {
		for _, d := range f.Decls {
			gd, ok := d.(*ast.GenDecl)
			if !ok {
				continue
			}
			for _, sp := range gd.Specs {
				if ts, ok := sp.(*ast.TypeSpec); ok && ts.Name.Name == name {
					if st, ok := ts.Type.(*ast.StructType); ok {
						return st
					}
				}
			}
		}
	}
	return nil
}

func (x *c02srcTr) findMethod(recv, name string) *ast.FuncDecl {
	for _, f := range x.p.Syntax {
		for _, d := range f.Decls {
			fd, ok := d.(*ast.FuncDecl)
			if !ok || fd.Recv == nil || len(fd.Recv.List) != 1 || fd.Name.Name != name || fd.Body == nil {
				continue
			}
			if n, ok := c02cbDeref(x.p.TypesInfo.TypeOf(fd.Recv.List[0].Type)).(*types.Named); ok && n.Obj().Name() == recv {
				return fd
			}
		}
	}
	return nil
}

// c02srcHasReturn: a return statement anywhere in the body (function literals excluded)
func c02srcHasReturn(b *ast.BlockStmt) bool {
	found := false
	ast.Inspect(b, func(n ast.Node) bool {
		switch n.(type) {
		case *ast.FuncLit:
			return false
		case *ast.ReturnStmt:
			found = true
		}
		return !found
	})
	return found
}

func c02srcIsTime(t types.Type) bool {
	s := types.TypeString(t, nil)
	return s == "time.Time" || s == "time.Duration"
}

func (x *c02srcTr) intLit(e ast.Expr) (string, bool) {
	tv, ok := x.p.TypesInfo.Types[e]
	if !ok || tv.Value == nil {
		return "", false
	}
	if isInt(tv.Type) {
		return "(" + tv.Value.ExactString() + " : Int)", true
	}
	if isBool(tv.Type) {
		return tv.Value.ExactString(), true
	}
	return "", false
}

// ---------------------------------------------------------------- 1. unlimitedSchedule

type c02srcField struct{ name, lean, zero, doc string }

func (x *c02srcTr) fieldsOf(typeName string, out *[]c02srcField) {
	st := x.findStruct(typeName)
	if st == nil {
		x.failf("struct %s not found", typeName)
		return
	}
	for _, f := range st.Fields.List {
		ty := x.p.TypesInfo.TypeOf(f.Type)
		if len(f.Names) == 0 {
			if n, ok := ty.(*types.Named); ok && n.Obj().Pkg() == x.p.Types {
				x.fieldsOf(n.Obj().Name(), out)
				continue
			}
			x.fail(f, "embedded field %s", ty)
			continue
		}
		ts := types.TypeString(ty, nil)
		lean, zero := "", ""
		switch {
		case ts == "go.uber.org/atomic.Bool", ts == "sync.Once":
			lean, zero = "Bool", "false"
		case ts == "*go.uber.org/atomic.Time", ts == "time.Time", ts == "time.Duration", isInt(ty):
			lean, zero = "Int", "0"
		default:
			x.fail(f, "field type %s", ts)
			continue
		}
		for _, n := range f.Names {
			*out = append(*out, c02srcField{n.Name, lean, zero, typeName + "." + n.Name + " " + ts})
		}
	}
}

type c02srcM struct {
	x          *c02srcTr
	st         string // Lean state type
	recv       types.Object
	locals     map[types.Object]string
	fields     map[string]string
	usesNow    bool
	unit       bool
	pureFns    map[string]bool // methods of the receiver translated as pure Bool functions
	boolLocals map[types.Object]bool
	// receivers of helper methods of the same object that are being inlined (round 6: `s.setFinish(t)` extracted from a
	// method is read as its body, parameters bound to the arguments)
	recvAlias map[types.Object]bool
	inlining  int
}

func (m *c02srcM) isRecv(e ast.Expr) bool {
	id, ok := e.(*ast.Ident)
	if !ok || m.recv == nil {
		return false
	}
	o := m.x.p.TypesInfo.Uses[id]
	return o == m.recv || (o != nil && m.recvAlias[o])
}

// value expression (Int or Bool)
func (m *c02srcM) val(e ast.Expr) string {
	x := m.x
	info := x.p.TypesInfo
	if s, ok := x.intLit(e); ok {
		return s
	}
	switch v := e.(type) {
	case *ast.ParenExpr:
		return m.val(v.X)
	case *ast.Ident:
		if o := info.Uses[v]; o != nil {
			if l, ok := m.locals[o]; ok {
				return l
			}
		}
		return x.fail(e, "identifier %s", v.Name)
	case *ast.SelectorExpr:
		if m.isRecv(v.X) {
			if lt, ok := m.fields[v.Sel.Name]; ok && lt == "Int" {
				ts := types.TypeString(info.TypeOf(v), nil)
				if ts == "time.Duration" || ts == "time.Time" || isInt(info.TypeOf(v)) {
					return "s." + v.Sel.Name
				}
			}
		}
		return x.fail(e, "selector %s", x.src(e))
	case *ast.UnaryExpr:
		if v.Op == token.SUB {
			return "(-" + m.val(v.X) + ")"
		}
		return x.fail(e, "unary %s", v.Op)
	case *ast.BinaryExpr:
		op := map[token.Token]string{token.ADD: "+", token.SUB: "-", token.MUL: "*"}[v.Op]
		if op != "" {
			return "(" + m.val(v.X) + " " + op + " " + m.val(v.Y) + ")"
		}
		return x.fail(e, "binary %s as a value", v.Op)
	case *ast.CallExpr:
		if tv, ok := info.Types[v.Fun]; ok && tv.IsType() && len(v.Args) == 1 && (isInt(tv.Type) || c02srcIsTime(tv.Type)) {
			return m.val(v.Args[0])
		}
		sel, ok := v.Fun.(*ast.SelectorExpr)
		if !ok {
			return x.fail(e, "call %s", x.src(e))
		}
		if id, ok := sel.X.(*ast.Ident); ok {
			if pn, ok := info.Uses[id].(*types.PkgName); ok {
				if pn.Imported().Path() == "time" && sel.Sel.Name == "Now" && len(v.Args) == 0 {
					m.usesNow = true
					return "now"
				}
				return x.fail(e, "call %s.%s", pn.Imported().Path(), sel.Sel.Name)
			}
		}
		// s.<atomic field>.Load()
		if in, ok := sel.X.(*ast.SelectorExpr); ok && m.isRecv(in.X) && sel.Sel.Name == "Load" && len(v.Args) == 0 {
			ts := types.TypeString(info.TypeOf(in), nil)
			if _, ok := m.fields[in.Sel.Name]; ok && strings.Contains(ts, "go.uber.org/atomic.") {
				return "s." + in.Sel.Name
			}
		}
		// <time>.Add(<duration>)
		if sel.Sel.Name == "Add" && len(v.Args) == 1 && types.TypeString(info.TypeOf(sel.X), nil) == "time.Time" {
			return "(" + m.val(sel.X) + " + " + m.val(v.Args[0]) + ")"
		}
		return x.fail(e, "call %s", x.src(e))
	}
	return x.fail(e, "%T", e)
}

// condition (a decidable Prop)
func (m *c02srcM) cond(e ast.Expr) string {
	x := m.x
	info := x.p.TypesInfo
	switch v := e.(type) {
	case *ast.ParenExpr:
		return m.cond(v.X)
	case *ast.Ident:
		if o := info.Uses[v]; o != nil && m.boolLocals[o] {
			return "(" + m.locals[o] + " = true)"
		}
	case *ast.UnaryExpr:
		if v.Op == token.NOT {
			return "(¬ " + m.cond(v.X) + ")"
		}
	case *ast.BinaryExpr:
		switch v.Op {
		case token.LOR:
			return "(" + m.cond(v.X) + " ∨ " + m.cond(v.Y) + ")"
		case token.LAND:
			return "(" + m.cond(v.X) + " ∧ " + m.cond(v.Y) + ")"
		}
		op := map[token.Token]string{token.LSS: "<", token.LEQ: "≤", token.GTR: ">", token.GEQ: "≥", token.EQL: "=", token.NEQ: "≠"}[v.Op]
		if op != "" && isInt(info.TypeOf(v.X)) {
			return "(" + m.val(v.X) + " " + op + " " + m.val(v.Y) + ")"
		}
	case *ast.CallExpr:
		sel, ok := v.Fun.(*ast.SelectorExpr)
		if ok {
			if types.TypeString(info.TypeOf(sel.X), nil) == "time.Time" && len(v.Args) == 1 {
				switch sel.Sel.Name {
				case "Before":
					return "(" + m.val(sel.X) + " < " + m.val(v.Args[0]) + ")"
				case "After":
					return "(" + m.val(v.Args[0]) + " < " + m.val(sel.X) + ")"
				case "Equal":
					return "(" + m.val(sel.X) + " = " + m.val(v.Args[0]) + ")"
				}
			}
			// s.IsStarted(): a pure method of the (embedded) receiver
			if m.isRecv(sel.X) && len(v.Args) == 0 && m.pureFns[sel.Sel.Name] {
				return "(StartSync_" + sel.Sel.Name + " s = true)"
			}
			// s.<atomic.Bool>.Load()
			if in, ok := sel.X.(*ast.SelectorExpr); ok && m.isRecv(in.X) && sel.Sel.Name == "Load" && len(v.Args) == 0 {
				if types.TypeString(info.TypeOf(in), nil) == "go.uber.org/atomic.Bool" {
					return "(s." + in.Sel.Name + " = true)"
				}
			}
		}
	}
	return x.fail(e, "condition %s", x.src(e))
}

func (m *c02srcM) terminal(body []ast.Stmt) bool {
	if len(body) == 0 {
		return false
	}
	switch last := body[len(body)-1].(type) {
	case *ast.ReturnStmt:
		return true
	case *ast.ExprStmt:
		if call, ok := last.X.(*ast.CallExpr); ok {
			if id, ok := call.Fun.(*ast.Ident); ok && id.Name == "panic" {
				return true
			}
		}
	}
	return false
}

func (m *c02srcM) stmts(list []ast.Stmt, ind string, done func(ind string) string) string {
	x := m.x
	info := x.p.TypesInfo
	if len(list) == 0 {
		return done(ind)
	}
	s0, rest := list[0], list[1:]
	switch v := s0.(type) {
	case *ast.ReturnStmt:
		var rs []string
		for _, r := range v.Results {
			if isBool(info.TypeOf(r)) {
				if s, ok := x.intLit(r); ok {
					rs = append(rs, s)
					continue
				}
				return ind + x.fail(r, "non-constant bool result")
			}
			rs = append(rs, m.val(r))
		}
		val := "()"
		if len(rs) == 1 {
			val = rs[0]
		} else if len(rs) > 1 {
			val = "(" + strings.Join(rs, ", ") + ")"
		}
		if len(rs) == 0 && !m.unit {
			return ind + x.fail(s0, "bare return in a method with results")
		}
		return ind + "Except.ok (" + val + ", s)"
	case *ast.AssignStmt:
		if len(v.Lhs) != 1 || len(v.Rhs) != 1 {
			return ind + x.fail(s0, "multi-assign")
		}
		if l, ok := v.Lhs[0].(*ast.Ident); ok && v.Tok == token.DEFINE {
			o := info.Defs[l]
			ty := info.TypeOf(l)
			if o != nil && isBool(ty) {
				// a flag: `started := s.IsStarted()`
				c := m.cond(v.Rhs[0])
				x.tmp++
				name := fmt.Sprintf("%s_%d", mangle(l.Name), x.tmp)
				m.locals[o] = name
				if m.boolLocals == nil {
					m.boolLocals = map[types.Object]bool{}
				}
				m.boolLocals[o] = true
				return ind + "let " + name + " : Bool := decide " + c + "\n" + m.stmts(rest, ind, done)
			}
			if o == nil || !(isInt(ty) || c02srcIsTime(ty)) {
				return ind + x.fail(s0, "local %s of type %s", l.Name, ty)
			}
			rhs := m.val(v.Rhs[0])
			x.tmp++
			name := fmt.Sprintf("%s_%d", mangle(l.Name), x.tmp)
			m.locals[o] = name
			return ind + "let " + name + " : Int := " + rhs + "\n" + m.stmts(rest, ind, done)
		}
		return ind + x.fail(s0, "assignment %s", x.src(s0))
	case *ast.IfStmt:
		if v.Else != nil {
			return ind + x.fail(s0, "if with else")
		}
		if !m.terminal(v.Body.List) {
			return ind + x.fail(s0, "if body that falls through")
		}
		pre := ""
		if v.Init != nil {
			// `if x := e; cond {…}`: x is visible in the condition and the body only
			as, ok := v.Init.(*ast.AssignStmt)
			if !ok || as.Tok != token.DEFINE || len(as.Lhs) != 1 || len(as.Rhs) != 1 {
				return ind + x.fail(s0, "if initialiser")
			}
			l := as.Lhs[0].(*ast.Ident)
			o := info.Defs[l]
			x.tmp++
			name := fmt.Sprintf("%s_%d", mangle(l.Name), x.tmp)
			pre = ind + "let " + name + " : Int := " + m.val(as.Rhs[0]) + "\n"
			m.locals[o] = name
		}
		c := ""
		// `if s.<atomic.Bool>.Swap(<const>) {…}`: the old value decides, the new one is stored
		if call, ok := v.Cond.(*ast.CallExpr); ok {
			if sel, ok := call.Fun.(*ast.SelectorExpr); ok && sel.Sel.Name == "Swap" && len(call.Args) == 1 {
				if in, ok := sel.X.(*ast.SelectorExpr); ok && m.isRecv(in.X) && types.TypeString(info.TypeOf(in), nil) == "go.uber.org/atomic.Bool" {
					if nv, ok := x.intLit(call.Args[0]); ok {
						x.tmp++
						old := fmt.Sprintf("old_%d", x.tmp)
						pre += ind + "let " + old + " : Bool := s." + in.Sel.Name + "\n" + ind + "let s : " + m.st + " := { s with " + in.Sel.Name + " := " + nv + " }\n"
						c = "(" + old + " = true)"
					}
				}
			}
		}
		if c == "" {
			c = m.cond(v.Cond)
		}
		thenS := m.stmts(v.Body.List, ind+"  ", done)
		return pre + ind + "if " + c + " then\n" + thenS + "\n" + ind + "else\n" + m.stmts(rest, ind+"  ", done)
	case *ast.ExprStmt:
		call, ok := v.X.(*ast.CallExpr)
		if !ok {
			return ind + x.fail(s0, "expression statement")
		}
		if id, ok := call.Fun.(*ast.Ident); ok && id.Name == "panic" && len(call.Args) == 1 {
			if tv, ok := info.Types[call.Args[0]]; ok && tv.Value != nil && isString(tv.Type) {
				msg, _ := strconv.Unquote(tv.Value.ExactString())
				return ind + fmt.Sprintf("Except.error %q", msg)
			}
			return ind + x.fail(s0, "panic with a non-constant message")
		}
		sel, ok := call.Fun.(*ast.SelectorExpr)
		if !ok {
			return ind + x.fail(s0, "call statement %s", x.src(s0))
		}
		// s.MarkStarted()
		if m.isRecv(sel.X) && sel.Sel.Name == "MarkStarted" && len(call.Args) == 0 {
			return ind + "match StartSync_MarkStarted s with\n" + ind + "| Except.error e => Except.error e\n" + ind + "| Except.ok (_, s) =>\n" + m.stmts(rest, ind+"  ", done)
		}
		// s.helper(args…): a method of the same object with Int / time parameters and no results, extracted from this
		// method: its body in place, parameters bound to the values of the arguments
		if m.isRecv(sel.X) && m.inlining < 3 {
			if selInfo := info.Selections[sel]; selInfo != nil && selInfo.Kind() == types.MethodVal {
				var callee *ast.FuncDecl
				for _, f := range x.p.Syntax {
					for _, d := range f.Decls {
						if fd, ok := d.(*ast.FuncDecl); ok && fd.Body != nil && info.Defs[fd.Name] == selInfo.Obj() {
							callee = fd
						}
					}
				}
				if callee != nil && (callee.Type.Results == nil || len(callee.Type.Results.List) == 0) &&
					len(callee.Recv.List) == 1 && len(callee.Recv.List[0].Names) == 1 && !c02srcHasReturn(callee.Body) {
					var names []*ast.Ident
					okParams := true
					for _, f := range callee.Type.Params.List {
						ty := info.TypeOf(f.Type)
						if !(isInt(ty) || c02srcIsTime(ty)) {
							okParams = false
						}
						names = append(names, f.Names...)
					}
					if okParams && len(names) == len(call.Args) {
						pre := ""
						for i, n := range names {
							ln := "h_" + mangle(n.Name)
							pre += ind + "let " + ln + " : Int := " + m.val(call.Args[i]) + "\n"
							m.locals[info.Defs[n]] = ln
						}
						if m.recvAlias == nil {
							m.recvAlias = map[types.Object]bool{}
						}
						m.recvAlias[info.Defs[callee.Recv.List[0].Names[0]]] = true
						m.inlining++
						out := pre + m.stmts(append(append([]ast.Stmt{}, callee.Body.List...), rest...), ind, done)
						m.inlining--
						return out
					}
				}
			}
		}
		if in, ok := sel.X.(*ast.SelectorExpr); ok && m.isRecv(in.X) {
			ts := types.TypeString(info.TypeOf(in), nil)
			fld := in.Sel.Name
			// s.<once>.Do(func() { … })
			if fl, isLit := func() (*ast.FuncLit, bool) {
				if len(call.Args) != 1 {
					return nil, false
				}
				f, ok := call.Args[0].(*ast.FuncLit)
				return f, ok
			}(); sel.Sel.Name == "Do" && ts == "sync.Once" && isLit && len(fl.Type.Params.List) == 0 {
				bodyS := m.stmts(fl.Body.List, ind+"      ", func(i string) string { return i + "Except.ok ((), s)" })
				return ind + "match (if (s." + fld + " = true) then (Except.ok ((), s) : Except String (Unit × " + m.st + ")) else\n" +
					ind + "      let s : " + m.st + " := { s with " + fld + " := true }\n" + bodyS + ") with\n" +
					ind + "| Except.error e => Except.error e\n" + ind + "| Except.ok (_, s) =>\n" + m.stmts(rest, ind+"  ", done)
			}
			// s.<atomic>.Store(e)
			if sel.Sel.Name == "Store" && len(call.Args) == 1 && strings.Contains(ts, "go.uber.org/atomic.") {
				rhs := ""
				if isBool(info.TypeOf(call.Args[0])) {
					if s, ok := x.intLit(call.Args[0]); ok {
						rhs = s
					} else {
						return ind + x.fail(s0, "non-constant bool stored")
					}
				} else {
					rhs = m.val(call.Args[0])
				}
				return ind + "let s : " + m.st + " := { s with " + fld + " := " + rhs + " }\n" + m.stmts(rest, ind, done)
			}
		}
		return ind + x.fail(s0, "call statement %s", x.src(s0))
	}
	return ind + x.fail(s0, "%T", s0)
}

func (x *c02srcTr) method(st, recvType, name, leanName string, fields map[string]string, pure map[string]bool) string {
	fd := x.findMethod(recvType, name)
	if fd == nil {
		x.failf("method (%s).%s not found", recvType, name)
		return ""
	}
	info := x.p.TypesInfo
	m := &c02srcM{x: x, st: st, locals: map[types.Object]string{}, fields: fields, pureFns: pure}
	if len(fd.Recv.List[0].Names) == 1 {
		m.recv = info.Defs[fd.Recv.List[0].Names[0]]
	}
	var ps []string
	for _, f := range fd.Type.Params.List {
		ty := info.TypeOf(f.Type)
		if !(isInt(ty) || c02srcIsTime(ty)) {
			return x.fail(f, "parameter type %s of %s", ty, name)
		}
		for _, n := range f.Names {
			m.locals[info.Defs[n]] = mangle(n.Name)
			ps = append(ps, "("+mangle(n.Name)+" : Int)")
		}
	}
	ret := "Unit"
	m.unit = true
	if fd.Type.Results != nil && len(fd.Type.Results.List) > 0 {
		m.unit = false
		var rs []string
		for _, f := range fd.Type.Results.List {
			ty := info.TypeOf(f.Type)
			lt := ""
			switch {
			case isInt(ty), c02srcIsTime(ty):
				lt = "Int"
			case isBool(ty):
				lt = "Bool"
			default:
				return x.fail(f, "result type %s of %s", ty, name)
			}
			k := len(f.Names)
			if k == 0 {
				k = 1
			}
			for i := 0; i < k; i++ {
				rs = append(rs, lt)
			}
		}
		ret = strings.Join(rs, " × ")
		if len(rs) > 1 {
			ret = "(" + ret + ")"
		}
	}
	body := m.stmts(fd.Body.List, "  ", func(i string) string {
		if m.unit {
			return i + "Except.ok ((), s)"
		}
		return i + x.fail(fd, "%s: control reaches the end of a method with results", name)
	})
	now := ""
	doc := ""
	if m.usesNow {
		now = "(now : Int) "
		doc = " (`now` = the value `time.Now()` returns)"
	}
	pp := ""
	if len(ps) > 0 {
		pp = strings.Join(ps, " ") + " "
	}
	return fmt.Sprintf("/-- regenerated from `core/schedule` method `(*%s).%s`%s -/\ndef %s %s(s : %s) %s: Except String (%s × %s) :=\n%s\n\n",
		recvType, name, doc, leanName, now, st, pp, ret, st, body)
}

// pureBool translates a method whose body is `return <bool expr>` as a Bool function of the state.
func (x *c02srcTr) pureBool(st, recvType, name string, fields map[string]string) string {
	fd := x.findMethod(recvType, name)
	if fd == nil {
		x.failf("method (%s).%s not found", recvType, name)
		return ""
	}
	m := &c02srcM{x: x, st: st, locals: map[types.Object]string{}, fields: fields, pureFns: map[string]bool{}}
	if len(fd.Recv.List[0].Names) == 1 {
		m.recv = x.p.TypesInfo.Defs[fd.Recv.List[0].Names[0]]
	}
	if len(fd.Body.List) == 1 {
		if r, ok := fd.Body.List[0].(*ast.ReturnStmt); ok && len(r.Results) == 1 {
			return fmt.Sprintf("/-- regenerated from `core/schedule` method `(*%s).%s` -/\ndef StartSync_%s (s : %s) : Bool := decide %s\n\n",
				recvType, name, name, st, m.cond(r.Results[0]))
		}
	}
	x.fail(fd, "%s: expected `return <condition>`", name)
	return ""
}

func (x *c02srcTr) unlimited() string {
	var fs []c02srcField
	x.fieldsOf("unlimitedSchedule", &fs)
	fields := map[string]string{}
	var b strings.Builder
	b.WriteString("/-- regenerated from `core/schedule/unlilmited.go` struct `unlimitedSchedule` with the embedded `StartSync` flattened -/\nstructure UnlSt where\n")
	for _, f := range fs {
		fields[f.name] = f.lean
		b.WriteString("  /-- " + f.doc + " -/\n  " + f.name + " : " + f.lean + "\n")
	}
	b.WriteString("\n")
	// NewUnlimited: return &unlimitedSchedule{duration: duration, finish: atomic.NewTime(time.Now())}
	fd := findFunc(x.p, "NewUnlimited")
	set := map[string]string{}
	okShape := false
	var params []string
	if fd != nil && len(fd.Body.List) == 1 {
		pnames := map[string]bool{}
		for _, f := range fd.Type.Params.List {
			for _, n := range f.Names {
				pnames[n.Name] = true
				params = append(params, "("+mangle(n.Name)+" : Int)")
			}
		}
		if ret, ok := fd.Body.List[0].(*ast.ReturnStmt); ok && len(ret.Results) == 1 {
			if u, ok := ret.Results[0].(*ast.UnaryExpr); ok && u.Op == token.AND {
				if cl, ok := u.X.(*ast.CompositeLit); ok {
					okShape = true
					for _, el := range cl.Elts {
						kv, ok := el.(*ast.KeyValueExpr)
						if !ok {
							okShape = false
							break
						}
						k, _ := kv.Key.(*ast.Ident)
						switch v := kv.Value.(type) {
						case *ast.Ident:
							if k != nil && pnames[v.Name] {
								set[k.Name] = mangle(v.Name)
								continue
							}
						case *ast.CallExpr:
							// atomic.NewTime(time.Now())
							if x.src(v) == "atomic.NewTime(time.Now())" && k != nil {
								set[k.Name] = "now"
								continue
							}
						}
						okShape = false
					}
				}
			}
		}
	}
	if !okShape {
		x.failf("NewUnlimited: expected `return &unlimitedSchedule{field: param | atomic.NewTime(time.Now()), …}`")
		return b.String()
	}
	var inits []string
	for _, f := range fs {
		v, ok := set[f.name]
		if !ok {
			v = f.zero
		}
		inits = append(inits, f.name+" := "+v)
	}
	b.WriteString("/-- regenerated from `core/schedule/unlilmited.go` func `NewUnlimited` (`now` = the value `time.Now()` returns; fields not\nnamed in the literal have their zero value) -/\n")
	b.WriteString("def NewUnlimited " + strings.Join(params, " ") + " (now : Int) : UnlSt :=\n  { " + strings.Join(inits, ", ") + " }\n\n")
	pure := map[string]bool{"IsStarted": true}
	b.WriteString(x.pureBool("UnlSt", "StartSync", "IsStarted", fields))
	b.WriteString(x.method("UnlSt", "StartSync", "MarkStarted", "StartSync_MarkStarted", fields, pure))
	b.WriteString(x.method("UnlSt", "unlimitedSchedule", "Start", "unlimitedSchedule_Start", fields, pure))
	b.WriteString(x.method("UnlSt", "unlimitedSchedule", "Next", "unlimitedSchedule_Next", fields, pure))
	b.WriteString(x.method("UnlSt", "unlimitedSchedule", "Left", "unlimitedSchedule_Left", fields, pure))
	return b.String()
}

// ---------------------------------------------------------------- 2./3. pure integer/bool code of composite.go

// c02srcPure translates straight-line code over named Int/Bool variables: `x = e`, `x += e`, `x := e`,
// `if c { assignments }`, and (for decisions) `if c { … return e }` / `return e`.
type c02srcPure struct {
	x     *c02srcTr
	names map[types.Object]string // canonical Lean name of a variable
	isB   map[string]bool
	// for decisions
	recv      types.Object
	retryName string // method name whose self-call means "shift and retry"
	// w: machine-integer mode. Every +, -, * and unary minus is followed by `wrapInt <bits of its Go type>`, every
	// conversion to an integer type is `wrapInt <bits of the target type>` (two's complement, as Go defines it).
	w bool
}

// c02srcBits: width of a signed Go integer type on the target the repo is built for (gc/amd64); 0 = not a signed integer.
func c02srcBits(t types.Type) int {
	b, ok := t.Underlying().(*types.Basic)
	if !ok {
		return 0
	}
	switch b.Kind() {
	case types.Int8:
		return 8
	case types.Int16:
		return 16
	case types.Int32:
		return 32
	case types.Int64, types.Int, types.UntypedInt:
		return 64
	}
	return 0
}

func (q *c02srcPure) wrap(e ast.Expr, inner string) string {
	if !q.w {
		return inner
	}
	b := c02srcBits(q.x.p.TypesInfo.TypeOf(e))
	if b == 0 {
		return q.x.fail(e, "machine-integer mode: %s is not a signed integer", q.x.src(e))
	}
	return fmt.Sprintf("(wrapInt %d %s)", b, inner)
}

func (q *c02srcPure) name(e ast.Expr) (string, bool) {
	id, ok := e.(*ast.Ident)
	if !ok {
		return "", false
	}
	o := q.x.p.TypesInfo.Uses[id]
	if o == nil {
		o = q.x.p.TypesInfo.Defs[id]
	}
	n, ok := q.names[o]
	return n, ok
}

func (q *c02srcPure) val(e ast.Expr) string {
	x := q.x
	if s, ok := x.intLit(e); ok {
		return s
	}
	switch v := e.(type) {
	case *ast.ParenExpr:
		return q.val(v.X)
	case *ast.Ident:
		if n, ok := q.name(v); ok {
			return n
		}
		return x.fail(e, "identifier %s", v.Name)
	case *ast.UnaryExpr:
		if v.Op == token.SUB {
			return q.wrap(v, "(-"+q.val(v.X)+")")
		}
	case *ast.BinaryExpr:
		op := map[token.Token]string{token.ADD: "+", token.SUB: "-", token.MUL: "*"}[v.Op]
		if op != "" {
			return q.wrap(v, "("+q.val(v.X)+" "+op+" "+q.val(v.Y)+")")
		}
	case *ast.CallExpr:
		if tv, ok := x.p.TypesInfo.Types[v.Fun]; ok && tv.IsType() && len(v.Args) == 1 && isInt(tv.Type) {
			return q.wrap(v, q.val(v.Args[0]))
		}
	}
	return x.fail(e, "value %s", x.src(e))
}

// cond: Bool-valued Lean expression
func (q *c02srcPure) cond(e ast.Expr) string {
	x := q.x
	info := x.p.TypesInfo
	if s, ok := x.intLit(e); ok && isBool(info.TypeOf(e)) {
		return s
	}
	switch v := e.(type) {
	case *ast.ParenExpr:
		return q.cond(v.X)
	case *ast.Ident:
		if n, ok := q.name(v); ok && q.isB[n] {
			return n
		}
	case *ast.UnaryExpr:
		if v.Op == token.NOT {
			return "(!" + q.cond(v.X) + ")"
		}
	case *ast.BinaryExpr:
		switch v.Op {
		case token.LOR:
			return "(" + q.cond(v.X) + " || " + q.cond(v.Y) + ")"
		case token.LAND:
			return "(" + q.cond(v.X) + " && " + q.cond(v.Y) + ")"
		}
		op := map[token.Token]string{token.LSS: "<", token.LEQ: "≤", token.GTR: ">", token.GEQ: "≥", token.EQL: "=", token.NEQ: "≠"}[v.Op]
		if op != "" && isInt(info.TypeOf(v.X)) {
			return "decide (" + q.val(v.X) + " " + op + " " + q.val(v.Y) + ")"
		}
	case *ast.CallExpr:
		// s.started.Load()
		if sel, ok := v.Fun.(*ast.SelectorExpr); ok && sel.Sel.Name == "Load" && len(v.Args) == 0 {
			if in, ok := sel.X.(*ast.SelectorExpr); ok {
				if id, ok := in.X.(*ast.Ident); ok && info.Uses[id] == q.recv && q.recv != nil {
					if n, ok := map[string]string{"started": "started"}[in.Sel.Name]; ok {
						return n
					}
				}
			}
		}
	}
	return x.fail(e, "condition %s", x.src(e))
}

// assigns translates a list of assignments to known variables into `let` lines; vars collects what is assigned.
func (q *c02srcPure) assigns(list []ast.Stmt, ind string) (string, []string, bool) {
	var b strings.Builder
	var vars []string
	seen := map[string]bool{}
	for _, st := range list {
		as, ok := st.(*ast.AssignStmt)
		if !ok || len(as.Lhs) != 1 || len(as.Rhs) != 1 {
			return "", nil, false
		}
		n, ok := q.name(as.Lhs[0])
		if !ok {
			return "", nil, false
		}
		ty := "Int"
		rhs := ""
		if q.isB[n] {
			ty = "Bool"
			rhs = q.cond(as.Rhs[0])
		} else {
			rhs = q.val(as.Rhs[0])
		}
		switch as.Tok {
		case token.ASSIGN:
		case token.ADD_ASSIGN:
			rhs = q.wrap(as.Lhs[0], "("+n+" + "+rhs+")")
		default:
			return "", nil, false
		}
		b.WriteString(ind + "let " + n + " : " + ty + " := " + rhs + "\n")
		if !seen[n] {
			seen[n] = true
			vars = append(vars, n)
		}
	}
	return b.String(), vars, true
}

func (x *c02srcTr) newCompositeLoop(w bool) string {
	fd := findFunc(x.p, "NewComposite")
	if fd == nil {
		x.failf("func NewComposite not found")
		return ""
	}
	info := x.p.TypesInfo
	var b strings.Builder
	// shortcuts: switch len(scheds) { case 0: return NewOnce(0); case 1: return scheds[0] }
	var shortcuts []string
	var loop *ast.ForStmt
	q := &c02srcPure{x: x, names: map[types.Object]string{}, isB: map[string]bool{}, w: w}
	elemBits := 0
	var accName, unkName string
	for _, st := range fd.Body.List {
		switch v := st.(type) {
		case *ast.SwitchStmt:
			if x.src(v.Tag) != "len(scheds)" {
				x.fail(v, "switch tag")
				continue
			}
			for _, cs := range v.Body.List {
				cc := cs.(*ast.CaseClause)
				if len(cc.List) != 1 || len(cc.Body) != 1 {
					x.fail(cc, "case shape")
					continue
				}
				k, _ := x.intLit(cc.List[0])
				ret, ok := cc.Body[0].(*ast.ReturnStmt)
				if !ok || len(ret.Results) != 1 {
					x.fail(cc, "case body")
					continue
				}
				shortcuts = append(shortcuts, fmt.Sprintf("(%s, %s)", k, strconv.Quote(x.src(ret.Results[0]))))
			}
		case *ast.DeclStmt:
			gd := v.Decl.(*ast.GenDecl)
			for _, sp := range gd.Specs {
				vs := sp.(*ast.ValueSpec)
				for _, n := range vs.Names {
					o := info.Defs[n]
					ty := o.Type()
					switch {
					case isBool(ty):
						unkName = "unknown"
						q.names[o] = "unknown"
						q.isB["unknown"] = true
					case isInt(ty):
						accName = "leftAccumulator"
						q.names[o] = "leftAccumulator"
					}
				}
			}
		case *ast.ForStmt:
			loop = v
		}
	}
	if loop == nil || accName == "" || unkName == "" {
		x.failf("NewComposite: loop / accumulator / unknown flag not found")
		return ""
	}
	dir := "?"
	if inc, ok := loop.Post.(*ast.IncDecStmt); ok {
		init := x.src(loop.Init)
		cond := x.src(loop.Cond)
		switch {
		case inc.Tok == token.DEC && strings.HasSuffix(init, ":= len(scheds) - 1") && strings.HasSuffix(cond, ">= 0"):
			dir = "lastToFirst"
		case inc.Tok == token.INC && strings.HasSuffix(init, ":= 0") && strings.HasSuffix(cond, "< len(scheds)"):
			dir = "firstToLast"
		}
	}
	if !w {
		fmt.Fprintf(&b, "/-- regenerated from `core/schedule/composite.go` func `NewComposite`: `switch len(scheds)` -/\ndef NewComposite_shortcuts : List (Int × String) := [%s]\n\n", strings.Join(shortcuts, ", "))
		fmt.Fprintf(&b, "/-- … the order in which its loop visits the children -/\ndef NewComposite_loopOrder : String := %s\n\n", strconv.Quote(dir))
	}
	// body
	var body strings.Builder
	leftI := ""
	for _, st := range loop.Body.List {
		switch v := st.(type) {
		case *ast.AssignStmt:
			if len(v.Lhs) == 1 && len(v.Rhs) == 1 {
				// left[i] = <expr>
				if ix, ok := v.Lhs[0].(*ast.IndexExpr); ok && v.Tok == token.ASSIGN {
					elemBits = c02srcBits(info.TypeOf(ix))
					leftI = q.val(v.Rhs[0])
					if w { // the store into the element
						leftI = fmt.Sprintf("wrapInt %d %s", elemBits, leftI)
					}
					body.WriteString("  let left_i : Int := " + leftI + "\n")
					continue
				}
				// x := scheds[i].Left()
				if id, ok := v.Lhs[0].(*ast.Ident); ok && v.Tok == token.DEFINE {
					if call, ok := v.Rhs[0].(*ast.CallExpr); ok {
						if sel, ok := call.Fun.(*ast.SelectorExpr); ok && sel.Sel.Name == "Left" {
							q.names[info.Defs[id]] = "schedLeft"
							body.WriteString("  let schedLeft : Int := childLeft\n")
							continue
						}
					}
				}
				s, _, ok := q.assigns([]ast.Stmt{v}, "  ")
				if ok {
					body.WriteString(s)
					continue
				}
			}
			x.fail(st, "loop statement %s", x.src(st))
		case *ast.IfStmt:
			if v.Init != nil || v.Else != nil {
				x.fail(st, "if shape")
				continue
			}
			inner, vars, ok := q.assigns(v.Body.List, "      ")
			if !ok || len(vars) == 0 {
				x.fail(st, "if body %s", x.src(st))
				continue
			}
			tup := strings.Join(vars, ", ")
			tys := make([]string, len(vars))
			for i, n := range vars {
				tys[i] = "Int"
				if q.isB[n] {
					tys[i] = "Bool"
				}
			}
			if len(vars) == 1 {
				body.WriteString("  let " + vars[0] + " : " + tys[0] + " :=\n    if " + q.cond(v.Cond) + " then\n" + inner + "      " + tup + "\n    else " + tup + "\n")
			} else {
				// tuples are destructured with projections to stay in plain `let`s
				body.WriteString("  let upd : " + strings.Join(tys, " × ") + " :=\n    if " + q.cond(v.Cond) + " then\n" + inner + "      (" + tup + ")\n    else (" + tup + ")\n")
				for i, n := range vars {
					proj := "upd"
					for k := 0; k < i; k++ {
						proj += ".2"
					}
					if i < len(vars)-1 {
						proj += ".1"
					}
					body.WriteString("  let " + n + " : " + tys[i] + " := " + proj + "\n")
				}
			}
		default:
			x.fail(st, "loop statement %T", st)
		}
	}
	if leftI == "" {
		x.failf("NewComposite: `left[i] = …` not found in the loop")
	}
	if w {
		fmt.Fprintf(&b, "/-- width (bits, signed) of the elements of the slice `NewComposite` stores the suffix sums in -/\ndef NewComposite_leftElemBits : Nat := %d\n\n", elemBits)
		b.WriteString("/-- the body of the loop of `NewComposite` once more, in MACHINE integers: every +, -, * is followed by\n`wrapInt <bits of its Go type>`, every integer conversion is `wrapInt <bits of the target type>` -/\n")
		b.WriteString("def NewComposite_loopBodyW (leftAccumulator : Int) (unknown : Bool) (childLeft : Int) : Int × Int × Bool :=\n")
	} else {
		b.WriteString("/-- … and the body of that loop: (leftAccumulator, unknown) before the child, the child's `Left()` ↦\n(left[i], leftAccumulator, unknown) -/\n")
		b.WriteString("def NewComposite_loopBody (leftAccumulator : Int) (unknown : Bool) (childLeft : Int) : Int × Int × Bool :=\n")
	}
	b.WriteString(body.String())
	b.WriteString("  (left_i, leftAccumulator, unknown)\n\n")
	return b.String()
}

// leftDecision: compositeSchedule.Left after its reader section.
func (x *c02srcTr) leftDecision(w bool) string {
	fd := x.findMethod("compositeSchedule", "Left")
	if fd == nil {
		x.failf("method compositeSchedule.Left not found")
		return ""
	}
	info := x.p.TypesInfo
	q := &c02srcPure{x: x, names: map[types.Object]string{}, isB: map[string]bool{"started": true}, retryName: "Left", w: w}
	fieldBits, convBits := 0, 0
	if len(fd.Recv.List[0].Names) == 1 {
		q.recv = info.Defs[fd.Recv.List[0].Names[0]]
	}
	// the reader section: locals by what they are assigned from
	i := 0
	for ; i < len(fd.Body.List); i++ {
		st := fd.Body.List[i]
		if es, ok := st.(*ast.ExprStmt); ok {
			s := x.src(es)
			if strings.HasSuffix(s, ".rwMu.RLock()") {
				continue
			}
			if strings.HasSuffix(s, ".rwMu.RUnlock()") {
				i++
				break
			}
		}
		as, ok := st.(*ast.AssignStmt)
		if !ok || as.Tok != token.DEFINE || len(as.Lhs) != 1 || len(as.Rhs) != 1 {
			x.fail(st, "reader section statement %s", x.src(st))
			continue
		}
		id := as.Lhs[0].(*ast.Ident)
		rhs := x.src(as.Rhs[0])
		r := strings.TrimPrefix(rhs, "int(")
		r = strings.TrimSuffix(r, ")")
		recvName := ""
		if q.recv != nil {
			recvName = q.recv.Name()
		}
		switch {
		case rhs == "len("+recvName+".scheds)":
			q.names[info.Defs[id]] = "schedsLeft"
		case r == recvName+".leftAfter[0]":
			q.names[info.Defs[id]] = "leftAfter"
			convBits = c02srcBits(info.TypeOf(as.Rhs[0]))
			ast.Inspect(as.Rhs[0], func(n ast.Node) bool {
				if ix, ok := n.(*ast.IndexExpr); ok {
					fieldBits = c02srcBits(info.TypeOf(ix))
				}
				return true
			})
		case rhs == recvName+".scheds[0].Left()":
			q.names[info.Defs[id]] = "left"
		default:
			x.fail(st, "reader section reads %s", rhs)
		}
	}
	have := map[string]bool{}
	for _, n := range q.names {
		have[n] = true
	}
	for _, n := range []string{"schedsLeft", "leftAfter", "left"} {
		if !have[n] {
			x.failf("compositeSchedule.Left: the reader section does not read %s", n)
		}
	}
	var dec func(list []ast.Stmt, ind string) string
	dec = func(list []ast.Stmt, ind string) string {
		if len(list) == 0 {
			return ind + x.fail(fd, "decision falls off the end")
		}
		switch v := list[0].(type) {
		case *ast.ReturnStmt:
			if len(v.Results) == 1 {
				return ind + ".ret " + q.val(v.Results[0])
			}
		case *ast.IfStmt:
			if v.Init == nil && v.Else == nil {
				return ind + "if " + q.cond(v.Cond) + " then\n" + dec(v.Body.List, ind+"  ") + "\n" + ind + "else\n" + dec(list[1:], ind+"  ")
			}
		case *ast.ExprStmt:
			// the writer section: from the scheduling point / Lock to `return s.Left()`
			s := x.src(v)
			if strings.HasPrefix(s, "verifhook.At(") || strings.HasSuffix(s, ".rwMu.Lock()") {
				last := list[len(list)-1]
				if r, ok := last.(*ast.ReturnStmt); ok && len(r.Results) == 1 && q.recv != nil && x.src(r.Results[0]) == q.recv.Name()+".Left()" {
					return ind + ".shift"
				}
			}
		}
		return ind + x.fail(list[0], "decision statement %s", x.src(list[0]))
	}
	var b strings.Builder
	b.WriteString("/-- regenerated from `core/schedule/composite.go` method `(*compositeSchedule).Left`: what it decides after the reader\nsection, from what it read there (`len(s.scheds)`, `s.leftAfter[0]`, `s.scheds[0].Left()`) and the `started` flag;\n`.shift` = the writer section followed by `return s.Left()` -/\n")
	if w {
		b.Reset()
		fmt.Fprintf(&b, "/-- width (bits, signed) of the elements of the field `compositeSchedule.leftAfter` -/\ndef compositeSchedule_leftAfter_elemBits : Nat := %d\n\n", fieldBits)
		b.WriteString("/-- `compositeSchedule.Left` after its reader section once more, in MACHINE integers (`leftAfter` = the stored element,\nread through the conversion the source applies to it) -/\n")
		b.WriteString("def compositeSchedule_Left_decideW (schedsLeft leftAfter left : Int) (started : Bool) : C02LeftAct :=\n")
		fmt.Fprintf(&b, "  let leftAfter : Int := wrapInt %d (wrapInt %d leftAfter)\n", convBits, fieldBits)
	} else {
		b.WriteString("def compositeSchedule_Left_decide (schedsLeft leftAfter left : Int) (started : Bool) : C02LeftAct :=\n")
	}
	b.WriteString(dec(fd.Body.List[i:], "  "))
	b.WriteString("\n\n")
	return b.String()
}

// ---------------------------------------------------------------- 4. compositeSchedule.Next, section by section

// c02srcNext re-translates compositeSchedule.Next into the two atomic sections of the concurrent model
// (Model/C02Par.lean): what happens from RLock to the point before Lock (`…_Next_reader`) and from Lock to the end
// (`…_Next_writer`), in continuation style over the building blocks of Model/C02NextC.lean (`cChildNext`, `cLen`,
// `cStartNext`). Control flow and data flow are kept as they are in the source: a Go variable is a Lean variable of the
// same scope (an assignment rebinds it, a `:=` in an `if` initialiser binds a NEW one that is gone after the `if`),
// an `if` whose body falls through is followed by the rest on both branches. Lock calls and scheduling points only
// delimit the sections (their discipline is the subject of area c02locks).
type c02srcNext struct {
	x          *c02srcTr
	recv       types.Object
	names      map[types.Object]string
	isB        map[types.Object]bool
	resTx      types.Object
	resOk      types.Object
	intLocals  []types.Object // int locals of the reader part, in order of definition
	writerRest []ast.Stmt
	seenVar    types.Object
	tmp        int
	method     string // "Next" | "Left": `return s.<method>()` is the retry
	retryPc    string // where the retry goes in the model: ".nextB" | ".idle"
}

func (n *c02srcNext) recvName() string {
	if n.recv == nil {
		return "?"
	}
	return n.recv.Name()
}

func (n *c02srcNext) obj(id *ast.Ident) types.Object {
	info := n.x.p.TypesInfo
	if o := info.Uses[id]; o != nil {
		return o
	}
	return info.Defs[id]
}

func (n *c02srcNext) ival(e ast.Expr) string {
	x := n.x
	if s, ok := x.intLit(e); ok {
		return s
	}
	switch v := e.(type) {
	case *ast.ParenExpr:
		return n.ival(v.X)
	case *ast.Ident:
		if nm, ok := n.names[n.obj(v)]; ok && !n.isB[n.obj(v)] {
			return nm
		}
	case *ast.CallExpr:
		if x.src(v) == "len("+n.recvName()+".scheds)" {
			return "cLen s"
		}
	case *ast.BinaryExpr:
		op := map[token.Token]string{token.ADD: "+", token.SUB: "-"}[v.Op]
		if op != "" {
			return "(" + n.ival(v.X) + " " + op + " " + n.ival(v.Y) + ")"
		}
	}
	return x.fail(e, "Next: value %s", x.src(e))
}

func (n *c02srcNext) cond(e ast.Expr) string {
	x := n.x
	info := x.p.TypesInfo
	switch v := e.(type) {
	case *ast.ParenExpr:
		return n.cond(v.X)
	case *ast.Ident:
		if nm, ok := n.names[n.obj(v)]; ok && n.isB[n.obj(v)] {
			return nm
		}
	case *ast.UnaryExpr:
		if v.Op == token.NOT {
			return "(!" + n.cond(v.X) + ")"
		}
	case *ast.BinaryExpr:
		switch v.Op {
		case token.LOR:
			return "(" + n.cond(v.X) + " || " + n.cond(v.Y) + ")"
		case token.LAND:
			return "(" + n.cond(v.X) + " && " + n.cond(v.Y) + ")"
		}
		op := map[token.Token]string{token.LSS: "<", token.LEQ: "≤", token.GTR: ">", token.GEQ: "≥", token.EQL: "=", token.NEQ: "≠"}[v.Op]
		if op != "" && isInt(info.TypeOf(v.X)) {
			return "decide (" + n.ival(v.X) + " " + op + " " + n.ival(v.Y) + ")"
		}
	}
	return x.fail(e, "Next: condition %s", x.src(e))
}

func (n *c02srcNext) fresh(base string) string {
	n.tmp++
	return fmt.Sprintf("%s_%d", mangle(base), n.tmp)
}

func (n *c02srcNext) isChildNext(e ast.Expr) bool {
	return n.x.src(e) == n.recvName()+".scheds[0].Next()"
}

func c02srcTerminal(body []ast.Stmt) bool {
	if len(body) == 0 {
		return false
	}
	switch last := body[len(body)-1].(type) {
	case *ast.ReturnStmt:
		return true
	case *ast.ExprStmt:
		if c, ok := last.X.(*ast.CallExpr); ok {
			if id, ok := c.Fun.(*ast.Ident); ok && id.Name == "panic" {
				return true
			}
		}
	}
	return false
}

// assign translates `a, b = child.Next()` / `a, b := child.Next()` / `v := len(...)` / `v := <cond>`; returns the Lean
// line(s) and true, or "" and false if the statement is something else.
func (n *c02srcNext) assign(as *ast.AssignStmt, ind string, writer bool) (string, bool) {
	info := n.x.p.TypesInfo
	if len(as.Lhs) == 2 && len(as.Rhs) == 1 && n.isChildNext(as.Rhs[0]) {
		var nm [2]string
		for i, l := range as.Lhs {
			id, ok := l.(*ast.Ident)
			if !ok {
				return "", false
			}
			if as.Tok == token.DEFINE && info.Defs[id] != nil {
				o := info.Defs[id]
				nm[i] = n.fresh(id.Name)
				n.names[o] = nm[i]
				n.isB[o] = i == 1
			} else {
				o := n.obj(id)
				if _, ok := n.names[o]; !ok {
					return "", false
				}
				nm[i] = n.names[o]
			}
		}
		return ind + "cChildNext ops s now fun s " + nm[0] + " " + nm[1] + " =>\n", true
	}
	if len(as.Lhs) == 1 && len(as.Rhs) == 1 && as.Tok == token.DEFINE {
		id, ok := as.Lhs[0].(*ast.Ident)
		if !ok || info.Defs[id] == nil {
			return "", false
		}
		o := info.Defs[id]
		switch {
		case isInt(o.Type()):
			rhs := n.ival(as.Rhs[0])
			nm := n.fresh(id.Name)
			n.names[o] = nm
			if !writer {
				n.intLocals = append(n.intLocals, o)
			}
			return ind + "let " + nm + " : Int := " + rhs + "\n", true
		case isBool(o.Type()):
			rhs := n.cond(as.Rhs[0])
			nm := n.fresh(id.Name)
			n.names[o] = nm
			n.isB[o] = true
			return ind + "let " + nm + " : Bool := " + rhs + "\n", true
		}
	}
	return "", false
}

func (n *c02srcNext) uses(list []ast.Stmt, o types.Object) bool {
	found := false
	for _, st := range list {
		ast.Inspect(st, func(x ast.Node) bool {
			if id, ok := x.(*ast.Ident); ok && n.x.p.TypesInfo.Uses[id] == o {
				found = true
			}
			return !found
		})
	}
	return found
}

func (n *c02srcNext) stmts(list []ast.Stmt, ind string, writer bool) string {
	x := n.x
	if len(list) == 0 {
		return ind + x.fail(n.x.findMethod("compositeSchedule", "Next"), "Next: control reaches the end of the method")
	}
	s0, rest := list[0], list[1:]
	switch v := s0.(type) {
	case *ast.ExprStmt:
		src := x.src(v)
		switch {
		case strings.HasSuffix(src, ".rwMu.RUnlock()"), strings.HasSuffix(src, ".rwMu.Unlock()"), strings.HasPrefix(src, "verifhook.At("):
			return n.stmts(rest, ind, writer)
		case strings.HasSuffix(src, ".rwMu.Lock()"):
			if writer {
				return ind + x.fail(s0, "Next: a second Lock")
			}
			var live []types.Object
			for _, o := range n.intLocals {
				if n.uses(rest, o) {
					live = append(live, o)
				}
			}
			if len(live) != 1 {
				return ind + x.fail(s0, "Next: expected exactly one integer carried from the reader section into the writer section, got %d", len(live))
			}
			if n.writerRest != nil {
				return ind + x.fail(s0, "Next: more than one path reaches Lock")
			}
			n.seenVar = live[0]
			n.writerRest = rest
			return ind + "(s, .goto (.nextW " + n.names[n.resTx] + " (Int.toNat " + n.names[live[0]] + ")))"
		case strings.HasPrefix(src, "panic("):
			call := v.X.(*ast.CallExpr)
			if tv, ok := x.p.TypesInfo.Types[call.Args[0]]; ok && tv.Value != nil && isString(tv.Type) {
				msg, _ := strconv.Unquote(tv.Value.ExactString())
				return ind + fmt.Sprintf("(s, .ret (.panic %q))", msg)
			}
			return ind + x.fail(s0, "%s: panic with a non-constant message", n.method)
		case strings.HasPrefix(src, n.recvName()+".startNext("):
			call := v.X.(*ast.CallExpr)
			if len(call.Args) != 1 {
				return ind + x.fail(s0, "Next: startNext arguments")
			}
			return ind + "cStartNext ops s " + n.ival(call.Args[0]) + " fun s =>\n" + n.stmts(rest, ind, writer)
		}
		return ind + x.fail(s0, "Next: statement %s", src)
	case *ast.AssignStmt:
		if l, ok := n.assign(v, ind, writer); ok {
			return l + n.stmts(rest, ind, writer)
		}
		return ind + x.fail(s0, "Next: assignment %s", x.src(s0))
	case *ast.IfStmt:
		if v.Else != nil {
			return ind + x.fail(s0, "Next: if with else")
		}
		pre := ""
		if v.Init != nil {
			as, ok := v.Init.(*ast.AssignStmt)
			if !ok {
				return ind + x.fail(s0, "Next: if initialiser")
			}
			l, ok := n.assign(as, ind, writer)
			if !ok {
				return ind + x.fail(s0, "Next: if initialiser %s", x.src(as))
			}
			pre = l
		}
		c := n.cond(v.Cond)
		body := v.Body.List
		if !c02srcTerminal(body) {
			body = append(append([]ast.Stmt{}, body...), rest...)
		}
		return pre + ind + "if " + c + " then\n" + n.stmts(body, ind+"  ", writer) + "\n" + ind + "else\n" + n.stmts(rest, ind+"  ", writer)
	case *ast.ReturnStmt:
		switch len(v.Results) {
		case 0:
			return ind + "(s, .ret (.tok " + n.names[n.resTx] + " " + n.names[n.resOk] + "))"
		case 1:
			if x.src(v.Results[0]) == n.recvName()+"."+n.method+"()" {
				return ind + "(s, .goto " + n.retryPc + ")"
			}
		case 2:
			a, aok := v.Results[0].(*ast.Ident)
			b, bok := v.Results[1].(*ast.Ident)
			if aok && bok {
				na, ok1 := n.names[n.obj(a)]
				nb, ok2 := n.names[n.obj(b)]
				if ok1 && ok2 && n.isB[n.obj(b)] && !n.isB[n.obj(a)] {
					return ind + "(s, .ret (.tok " + na + " " + nb + "))"
				}
			}
			if bv, ok := x.intLit(v.Results[1]); ok && aok {
				if na, ok1 := n.names[n.obj(a)]; ok1 {
					return ind + "(s, .ret (.tok " + na + " " + bv + "))"
				}
			}
		}
		return ind + x.fail(s0, "Next: return %s", x.src(s0))
	}
	return ind + x.fail(s0, "Next: %T", s0)
}

func (x *c02srcTr) nextSections() string {
	fd := x.findMethod("compositeSchedule", "Next")
	if fd == nil {
		x.failf("method compositeSchedule.Next not found")
		return ""
	}
	info := x.p.TypesInfo
	n := &c02srcNext{x: x, names: map[types.Object]string{}, isB: map[types.Object]bool{}, method: "Next", retryPc: ".nextB"}
	if len(fd.Recv.List[0].Names) == 1 {
		n.recv = info.Defs[fd.Recv.List[0].Names[0]]
	}
	var res []types.Object
	if fd.Type.Results != nil {
		for _, f := range fd.Type.Results.List {
			for _, nm := range f.Names {
				res = append(res, info.Defs[nm])
			}
		}
	}
	if len(res) != 2 || !isBool(res[1].Type()) {
		x.failf("compositeSchedule.Next: expected named results (time, bool)")
		return ""
	}
	n.resTx, n.resOk = res[0], res[1]
	n.names[res[0]] = "tx"
	n.names[res[1]] = "ok"
	n.isB[res[1]] = true
	// prologue: everything before RLock
	var pro []string
	i := 0
	for ; i < len(fd.Body.List); i++ {
		src := x.src(fd.Body.List[i])
		if strings.HasSuffix(src, ".rwMu.RLock()") {
			i++
			break
		}
		pro = append(pro, strconv.Quote(strings.Replace(src, n.recvName()+".", "s.", 1)))
	}
	var b strings.Builder
	fmt.Fprintf(&b, "/-- regenerated from `core/schedule/composite.go` method `(*compositeSchedule).Next`: what it does before `RLock` -/\ndef compositeSchedule_Next_prologue : List String := [%s]\n\n", strings.Join(pro, ", "))
	reader := n.stmts(fd.Body.List[i:], "  ", false)
	b.WriteString("/-- … its READER section: from `RLock` to the return or to the point before `Lock` (`.goto (.nextW tx seen)`: the finish\ntime got from the head and the `len(s.scheds)` seen are carried over) -/\n")
	b.WriteString("def compositeSchedule_Next_reader {σ : Type} (ops : Ops σ) (s : Sh σ) (now : Int) : Sh σ × Out :=\n")
	b.WriteString("  let tx : Int := 0\n  let ok : Bool := false\n")
	b.WriteString(reader + "\n\n")
	if n.writerRest == nil {
		x.failf("compositeSchedule.Next: no path reaches rwMu.Lock()")
		return b.String()
	}
	b.WriteString("/-- … and its WRITER section: from `Lock` to the return or to the retry `return s.Next()` (`.goto .nextB`) -/\n")
	b.WriteString("def compositeSchedule_Next_writer {σ : Type} (ops : Ops σ) (s : Sh σ) (tx : Int) (seen : Nat) (now : Int) : Sh σ × Out :=\n")
	b.WriteString("  let ok : Bool := false\n")
	b.WriteString("  let " + n.names[n.seenVar] + " : Int := (seen : Int)\n")
	b.WriteString(n.stmts(n.writerRest, "  ", true) + "\n\n")
	return b.String()
}

// leftWriterSection: the writer section of compositeSchedule.Left — the statements that follow `rwMu.Lock()` in its block,
// to `return s.Left()` (the retry, `.goto .idle`) — in the same continuation style; the one integer it takes over from
// the reader section (`len(s.scheds)` seen there) is the parameter `seen`.
func (x *c02srcTr) leftWriterSection() string {
	fd := x.findMethod("compositeSchedule", "Left")
	if fd == nil {
		x.failf("method compositeSchedule.Left not found")
		return ""
	}
	info := x.p.TypesInfo
	n := &c02srcNext{x: x, names: map[types.Object]string{}, isB: map[types.Object]bool{}, method: "Left", retryPc: ".idle"}
	if len(fd.Recv.List[0].Names) == 1 {
		n.recv = info.Defs[fd.Recv.List[0].Names[0]]
	}
	var rest []ast.Stmt
	found := 0
	ast.Inspect(fd.Body, func(nd ast.Node) bool {
		bl, ok := nd.(*ast.BlockStmt)
		if !ok {
			return true
		}
		for i, st := range bl.List {
			if es, ok := st.(*ast.ExprStmt); ok && strings.HasSuffix(x.src(es), ".rwMu.Lock()") {
				found++
				rest = bl.List[i+1:]
			}
		}
		return true
	})
	if found != 1 {
		x.failf("compositeSchedule.Left: expected exactly one rwMu.Lock(), found %d", found)
		return ""
	}
	// integers defined before the section and used in it
	defined := map[types.Object]bool{}
	for _, st := range rest {
		ast.Inspect(st, func(nd ast.Node) bool {
			if id, ok := nd.(*ast.Ident); ok {
				if o := info.Defs[id]; o != nil {
					defined[o] = true
				}
			}
			return true
		})
	}
	var live []types.Object
	seen := map[types.Object]bool{}
	for _, st := range rest {
		ast.Inspect(st, func(nd ast.Node) bool {
			if id, ok := nd.(*ast.Ident); ok {
				if o, isVar := info.Uses[id].(*types.Var); isVar && o != n.recv && !defined[o] && !seen[o] && !o.IsField() && o.Pkg() == x.p.Types && o.Parent() != x.p.Types.Scope() {
					seen[o] = true
					live = append(live, o)
				}
			}
			return true
		})
	}
	if len(live) != 1 || !isInt(live[0].Type()) {
		x.failf("compositeSchedule.Left: expected exactly one integer carried into the writer section, got %d", len(live))
		return ""
	}
	nm := n.fresh(live[0].Name())
	n.names[live[0]] = nm
	var b strings.Builder
	b.WriteString("/-- regenerated from `core/schedule/composite.go` method `(*compositeSchedule).Left`: its WRITER section, from `Lock` to the\npanic or to the retry `return s.Left()` (`.goto .idle`); `seen` = the `len(s.scheds)` read in the reader section -/\n")
	b.WriteString("def compositeSchedule_Left_writer {σ : Type} (ops : Ops σ) (s : Sh σ) (seen : Nat) (now : Int) : Sh σ × Out :=\n")
	b.WriteString("  let " + nm + " : Int := (seen : Int)\n")
	b.WriteString(n.stmts(rest, "  ", true) + "\n\n")
	return b.String()
}

// stmtSet: the statements of a straight-line method as canonical strings (receiver → s, the parameter → t), sorted:
// the order of independent statements inside one critical section does not matter, what is done does.
func (x *c02srcTr) stmtSet(recvType, name, lean, doc string, sorted bool) string {
	fd := x.findMethod(recvType, name)
	if fd == nil {
		x.failf("method %s.%s not found", recvType, name)
		return ""
	}
	ren := map[string]string{}
	if len(fd.Recv.List[0].Names) == 1 {
		ren[fd.Recv.List[0].Names[0].Name] = "s"
	}
	for _, f := range fd.Type.Params.List {
		for _, nm := range f.Names {
			ren[nm.Name] = "t"
		}
	}
	var rows []string
	for _, st := range fd.Body.List {
		switch st.(type) {
		case *ast.ExprStmt, *ast.AssignStmt, *ast.DeferStmt:
		default:
			x.fail(st, "%s: statement %T", name, st)
			continue
		}
		src := x.src(st)
		// rename whole identifiers
		var out strings.Builder
		for i := 0; i < len(src); {
			j := i
			for j < len(src) && (src[j] == '_' || src[j] >= 'a' && src[j] <= 'z' || src[j] >= 'A' && src[j] <= 'Z' || src[j] >= '0' && src[j] <= '9') {
				j++
			}
			if j > i {
				w := src[i:j]
				if r, ok := ren[w]; ok && (i == 0 || src[i-1] != '.') {
					w = r
				}
				out.WriteString(w)
				i = j
			} else {
				out.WriteByte(src[i])
				i++
			}
		}
		rows = append(rows, strconv.Quote(out.String()))
	}
	if sorted {
		sort.Strings(rows)
	}
	return fmt.Sprintf("/-- regenerated from `core/schedule/composite.go` method `(*%s).%s`: %s -/\ndef %s : List String := [%s]\n\n", recvType, name, doc, lean, strings.Join(rows, ", "))
}

// startNextFn: compositeSchedule.startNext statement by statement over the building blocks `eShiftScheds`,
// `eShiftLeftAfter`, `eStartAt` of Model/C02NextC.lean (each with its index-out-of-range case).
func (x *c02srcTr) startNextFn() string {
	fd := x.findMethod("compositeSchedule", "startNext")
	if fd == nil {
		x.failf("method compositeSchedule.startNext not found")
		return ""
	}
	recv := "?"
	if len(fd.Recv.List[0].Names) == 1 {
		recv = fd.Recv.List[0].Names[0].Name
	}
	param := ""
	for _, f := range fd.Type.Params.List {
		for _, nm := range f.Names {
			if param != "" {
				x.failf("startNext: more than one parameter")
			}
			param = nm.Name
		}
	}
	var b strings.Builder
	b.WriteString("/-- regenerated from `core/schedule/composite.go` method `(*compositeSchedule).startNext`, statement by statement -/\n")
	b.WriteString("def compositeSchedule_startNext {σ : Type} (ops : Ops σ) (s : Sh σ) (t : Int) : Except String (Sh σ) := do\n")
	for _, st := range fd.Body.List {
		src := x.src(st)
		switch {
		case src == recv+".scheds = "+recv+".scheds[1:]":
			b.WriteString("  let s ← eShiftScheds s\n")
		case src == recv+".leftAfter = "+recv+".leftAfter[1:]":
			b.WriteString("  let s ← eShiftLeftAfter s\n")
		case strings.HasPrefix(src, recv+".scheds[") && strings.HasSuffix(src, "].Start("+param+")"):
			idx := strings.TrimSuffix(strings.TrimPrefix(src, recv+".scheds["), "].Start("+param+")")
			if _, err := strconv.Atoi(idx); err != nil {
				x.fail(st, "startNext: index %s", idx)
				continue
			}
			b.WriteString("  let s ← eStartAt ops s " + idx + " t\n")
		default:
			x.fail(st, "startNext: statement %s", src)
		}
	}
	b.WriteString("  pure s\n\n")
	return b.String()
}

// confForward (round 6): what a `New…Conf(conf T)` wrapper hands to the constructor it wraps. The body must be a sequence
// of `x := <expr>` followed by ONE `return <Ctor>(args…)`; every argument is traced through the local aliases back to a
// field of the config parameter. The result is "<Ctor>(<Field>, <Field>...)" with `...` for a spread slice, or — when an
// argument is anything but a field handed over unchanged (a conversion, a filter loop, arithmetic) — "OTHER: <source>".
// Renamed locals and an intermediate variable do not change it; dropping, truncating or reordering what is handed over does.
func (x *c02srcTr) confForward(fn string) string {
	var fd *ast.FuncDecl
	for _, f := range x.p.Syntax {
		for _, d := range f.Decls {
			if g, ok := d.(*ast.FuncDecl); ok && g.Recv == nil && g.Name.Name == fn && g.Body != nil {
				fd = g
			}
		}
	}
	if fd == nil || fd.Type.Params.NumFields() != 1 || len(fd.Type.Params.List[0].Names) != 1 {
		return "OTHER: no such wrapper"
	}
	info := x.p.TypesInfo
	conf := info.Defs[fd.Type.Params.List[0].Names[0]]
	alias := map[types.Object]string{}
	var field func(e ast.Expr) (string, bool)
	field = func(e ast.Expr) (string, bool) {
		switch v := e.(type) {
		case *ast.ParenExpr:
			return field(v.X)
		case *ast.Ident:
			if f, ok := alias[info.Uses[v]]; ok {
				return f, true
			}
		case *ast.SelectorExpr:
			if id, ok := v.X.(*ast.Ident); ok && info.Uses[id] == conf {
				return v.Sel.Name, true
			}
		}
		return "", false
	}
	body := fd.Body.List
	for i, st := range body {
		switch v := st.(type) {
		case *ast.AssignStmt:
			if len(v.Lhs) == 1 && len(v.Rhs) == 1 {
				if id, ok := v.Lhs[0].(*ast.Ident); ok {
					if f, ok := field(v.Rhs[0]); ok {
						o := info.Defs[id]
						if o == nil {
							o = info.Uses[id]
						}
						alias[o] = f
						continue
					}
				}
			}
			return "OTHER: " + x.src(st)
		case *ast.ReturnStmt:
			if i != len(body)-1 || len(v.Results) != 1 {
				return "OTHER: " + x.src(st)
			}
			call, ok := v.Results[0].(*ast.CallExpr)
			if !ok {
				return "OTHER: " + x.src(st)
			}
			ctor, ok := call.Fun.(*ast.Ident)
			if !ok {
				return "OTHER: " + x.src(st)
			}
			var args []string
			for _, a := range call.Args {
				f, ok := field(a)
				if !ok {
					return "OTHER: " + x.src(st)
				}
				args = append(args, f)
			}
			out := ctor.Name + "(" + strings.Join(args, ", ")
			if call.Ellipsis.IsValid() {
				out += "..."
			}
			return out + ")"
		default:
			return "OTHER: " + x.src(st)
		}
	}
	return "OTHER: no return"
}

func c02srcExtra(t *tr) string {
	x := &c02srcTr{t: t, p: t.pkg}
	var b strings.Builder
	b.WriteString("-- ---------------------------------------------------------------- unlimitedSchedule\n\n")
	b.WriteString(x.unlimited())
	b.WriteString("-- ---------------------------------------------------------------- NewComposite\n\n")
	b.WriteString(x.newCompositeLoop(false))
	b.WriteString("-- ---------------------------------------------------------------- compositeSchedule.Left\n\n")
	b.WriteString(x.leftDecision(false))
	b.WriteString("-- ---------------------------------------------------------------- the same in machine integers\n\n")
	b.WriteString(x.newCompositeLoop(true))
	b.WriteString(x.leftDecision(true))
	b.WriteString("-- ---------------------------------------------------------------- compositeSchedule.Next\n\nsection\nopen Pandora.Model.C02 Pandora.Model.C02.Par\n\n")
	b.WriteString(x.nextSections())
	b.WriteString(x.leftWriterSection())
	b.WriteString(x.startNextFn())
	b.WriteString("end\n\n")
	b.WriteString(x.stmtSet("compositeSchedule", "Start", "compositeSchedule_Start", "its statements (receiver `s`, parameter `t`), sorted", true))
	b.WriteString("/-- regenerated from core/schedule: what each config wrapper hands to the constructor it wraps, every argument traced\nthrough local aliases back to a field of the config (anything else — a conversion, a filter, arithmetic — is `OTHER: <source>`) -/\n")
	b.WriteString("def confForwards : List (String × String) :=\n  [")
	for i, fn := range []string{"NewCompositeConf", "NewInstanceStepConf", "NewUnlimitedConf"} {
		if i > 0 {
			b.WriteString(",\n   ")
		}
		b.WriteString("(" + strconv.Quote(fn) + ", " + strconv.Quote(x.confForward(fn)) + ")")
	}
	b.WriteString("]\n\n")
	return b.String()
}
