package main

// Area "ammodec" (property C07): re-extracts from the CURRENT source of the line-oriented ammo decoders the facts the
// byte-level model Pandora.Model.C07 rests on (every identifier of this file carries the prefix `ammodec`):
//
//	components/providers/http/decoders/uri.go      how uriDecoder gets its lines (bufio.Scanner: only Scan/Err/Text, never
//	                                               Split/Bytes; token limit = the constant max of `Buffer(nil, max)` when every
//	                                               construction is configured so, else bufio.MaxScanTokenSize read from the
//	                                               toolchain's bufio), the byte that marks a header line, the target/tag
//	                                               separator, the method given to Ammo.Setup, where the ammo's header map
//	                                               comes from (a clone of the accumulator)
//	components/providers/http/decoders/uripost.go  the same for readBlock (bufio.Reader: which read method, which delimiter)
//	components/providers/http/decoders/raw.go      the same for rawDecoder.Scan
//	components/providers/http/decoders/jsonline.go the URL prefix, the json tags of `entity`
//	components/providers/http/util/request.go      DecodeHeader: minimal length, brackets, separator
//	components/providers/http/decoders/uripost     DecodeURI: separator, minimal number of parts
//	components/providers/http/decoders/raw         DecodeHeader: separator
//
// The facts are single constants or a classification of the SET of bufio methods used, so that re-ordering independent
// statements, renaming variables, or replacing one strings function by an equivalent one (Split / SplitN, Cut / Index)
// does not change the output, while another read primitive (ReadLine, ReadBytes, ReadSlice, Peek, Scanner.Bytes …),
// another delimiter, a Scanner with a custom buffer or split function, another separator, bracket, length bound, method
// or URL prefix does.  What the string helpers compute is covered by the differential run (incl. the exhaustive
// enumeration of short files), not here.  lean/Pandora/Bridge/C07.lean proves that the regenerated facts are the ones
// the model uses.

import (
	"bytes"
	"fmt"
	"go/ast"
	"go/constant"
	"go/printer"
	"go/token"
	"go/types"
	"reflect"
	"sort"
	"strings"

	"golang.org/x/tools/go/packages"
)

func init() {
	areas["ammodec"] = area{
		pkgPath:   "github.com/yandex/pandora/components/providers/http/decoders",
		module:    "AmmoDec",
		namespace: "Pandora.Gen.AmmoDec",
		imports:   []string{"Pandora.Model.C07", "Pandora.Model.C07Heap", "Pandora.Model.C07Go", "Pandora.Model.C07Build"},
		extra:     ammodecExtra,
	}
}

type ammodecX struct {
	t *tr
}

func (x *ammodecX) fail(p *packages.Package, n ast.Node, format string, a ...any) {
	pos := ""
	if n != nil {
		pos = p.Fset.Position(n.Pos()).String() + ": "
	}
	x.t.errs = append(x.t.errs, pos+"unsupported (ammodec): "+fmt.Sprintf(format, a...))
}

func ammodecSrc(p *packages.Package, n ast.Node) string {
	var b bytes.Buffer
	_ = printer.Fprint(&b, p.Fset, n)
	return strings.Join(strings.Fields(b.String()), " ")
}

// ammodecFunc finds a function (recv == "") or a method of the named receiver type in p.
func ammodecFunc(p *packages.Package, recv, name string) *ast.FuncDecl {
	for _, f := range p.Syntax {
		for _, d := range f.Decls {
			fd, ok := d.(*ast.FuncDecl)
			if !ok || fd.Name.Name != name || fd.Body == nil {
				continue
			}
			if recv == "" {
				if fd.Recv == nil {
					return fd
				}
				continue
			}
			if fd.Recv == nil || len(fd.Recv.List) != 1 {
				continue
			}
			ty := fd.Recv.List[0].Type
			if st, ok := ty.(*ast.StarExpr); ok {
				ty = st.X
			}
			if id, ok := ty.(*ast.Ident); ok && id.Name == recv {
				return fd
			}
		}
	}
	return nil
}

// ammodecBufioKind: "Reader" / "Scanner" when ty is (a pointer to) bufio.Reader / bufio.Scanner.
func ammodecBufioKind(ty types.Type) string {
	if ty == nil {
		return ""
	}
	if pt, ok := ty.(*types.Pointer); ok {
		ty = pt.Elem()
	}
	nt, ok := ty.(*types.Named)
	if !ok || nt.Obj().Pkg() == nil || nt.Obj().Pkg().Path() != "bufio" {
		return ""
	}
	return nt.Obj().Name()
}

type ammodecCall struct {
	name string // "Reader.ReadString", "strings.TrimSpace", "bufio.NewScanner" …
	args []string
	node *ast.CallExpr
}

// ammodecConstArg: a constant argument as Lean text (bytes of a string, value of an integer / rune), "" otherwise.
func ammodecConstArg(p *packages.Package, e ast.Expr) string {
	tv, ok := p.TypesInfo.Types[e]
	if !ok || tv.Value == nil {
		return ""
	}
	switch tv.Value.Kind() {
	case constant.String:
		return ammodecBytes(constant.StringVal(tv.Value))
	case constant.Int:
		if v, exact := constant.Int64Val(tv.Value); exact {
			return fmt.Sprint(v)
		}
	}
	return ""
}

func ammodecBytes(s string) string {
	var parts []string
	for i := 0; i < len(s); i++ {
		parts = append(parts, fmt.Sprint(s[i]))
	}
	return "[" + strings.Join(parts, ", ") + "]"
}

// ammodecCalls collects, inside the bodies of fds, the calls of methods of bufio.Reader / bufio.Scanner values and of
// package-level functions of strings, strconv and bufio.
func ammodecCalls(p *packages.Package, fds ...*ast.FuncDecl) []ammodecCall {
	var out []ammodecCall
	for _, fd := range fds {
		if fd == nil {
			continue
		}
		ast.Inspect(fd.Body, func(n ast.Node) bool {
			call, ok := n.(*ast.CallExpr)
			if !ok {
				return true
			}
			sel, ok := call.Fun.(*ast.SelectorExpr)
			if !ok {
				return true
			}
			name := ""
			if id, ok := sel.X.(*ast.Ident); ok {
				if pn, ok := p.TypesInfo.Uses[id].(*types.PkgName); ok {
					switch pn.Imported().Path() {
					case "strings", "strconv", "bufio", "bytes":
						name = pn.Imported().Path() + "." + sel.Sel.Name
					}
				}
			}
			if name == "" {
				if k := ammodecBufioKind(p.TypesInfo.TypeOf(sel.X)); k != "" {
					name = k + "." + sel.Sel.Name
				}
			}
			if name == "" {
				return true
			}
			c := ammodecCall{name: name, node: call}
			for _, a := range call.Args {
				c.args = append(c.args, ammodecConstArg(p, a))
			}
			out = append(out, c)
			return true
		})
	}
	return out
}

// ammodecClosure: fds plus every function / method of the same package they call, transitively (a Scanner configured in
// a helper such as `newLineScanner(file)` is still the decoder's Scanner).
func ammodecClosure(p *packages.Package, fds []*ast.FuncDecl) []*ast.FuncDecl {
	byObj := map[types.Object]*ast.FuncDecl{}
	for _, f := range p.Syntax {
		for _, d := range f.Decls {
			if fd, ok := d.(*ast.FuncDecl); ok && fd.Body != nil {
				if o := p.TypesInfo.Defs[fd.Name]; o != nil {
					byObj[o] = fd
				}
			}
		}
	}
	seen := map[*ast.FuncDecl]bool{}
	var out []*ast.FuncDecl
	var visit func(fd *ast.FuncDecl)
	visit = func(fd *ast.FuncDecl) {
		if fd == nil || seen[fd] {
			return
		}
		seen[fd] = true
		out = append(out, fd)
		ast.Inspect(fd.Body, func(n ast.Node) bool {
			call, ok := n.(*ast.CallExpr)
			if !ok {
				return true
			}
			var id *ast.Ident
			switch f := call.Fun.(type) {
			case *ast.Ident:
				id = f
			case *ast.SelectorExpr:
				id = f.Sel
			}
			if id != nil {
				if callee, ok := byObj[p.TypesInfo.Uses[id]]; ok && len(out) < 64 {
					// only helpers that take or return a bufio object, or belong to the same receiver, matter; following all
					// same-package callees is simpler and still small
					visit(callee)
				}
			}
			return true
		})
	}
	for _, fd := range fds {
		visit(fd)
	}
	return out
}

func ammodecLeanStrList(xs []string) string {
	q := make([]string, len(xs))
	for i, s := range xs {
		q[i] = fmt.Sprintf("%q", s)
	}
	return "[" + strings.Join(q, ", ") + "]"
}

// ammodecStrFuncs: the set of strings.* / strconv.* / bytes.* functions called.
func ammodecStrFuncs(calls []ammodecCall) string {
	set := map[string]bool{}
	for _, c := range calls {
		if strings.HasPrefix(c.name, "strings.") || strings.HasPrefix(c.name, "strconv.") || strings.HasPrefix(c.name, "bytes.") {
			set[c.name] = true
		}
	}
	var xs []string
	for k := range set {
		xs = append(xs, k)
	}
	sort.Strings(xs)
	return ammodecLeanStrList(xs)
}

// ammodecReader classifies how the lines are obtained from the bufio object(s) used in fds.
// construct: the functions in which the bufio object is created or re-created (looked at for Buffer / Split / sizes).
func (x *ammodecX) reader(p *packages.Package, what string, scanLimit int64, fds []*ast.FuncDecl, construct []*ast.FuncDecl) string {
	methods := map[string][]ammodecCall{}
	for _, c := range ammodecCalls(p, ammodecClosure(p, append(append([]*ast.FuncDecl{}, fds...), construct...))...) {
		if strings.HasPrefix(c.name, "Reader.") || strings.HasPrefix(c.name, "Scanner.") {
			methods[c.name] = append(methods[c.name], c)
		}
	}
	var names []string
	for k := range methods {
		names = append(names, k)
	}
	sort.Strings(names)
	other := func() string { return fmt.Sprintf("LineReader.other %q", strings.Join(names, ",")) }
	isSubset := func(allowed ...string) bool {
		for _, n := range names {
			ok := false
			for _, a := range allowed {
				ok = ok || a == n
			}
			if !ok {
				return false
			}
		}
		return true
	}
	switch {
	case len(methods["Scanner.Scan"]) > 0:
		// a Scanner with the default split function: tokens are lines.  Its limit is MaxScanTokenSize with the default
		// buffer, or the constant `max` of `Buffer(nil, max)` when EVERY construction of a Scanner configures it so
		// (the same max everywhere; the initial buffer must be nil: a caller-supplied buffer could be shared).
		if !isSubset("Scanner.Scan", "Scanner.Err", "Scanner.Text", "Scanner.Buffer") || len(methods["Scanner.Text"]) == 0 {
			return other()
		}
		if bufs := methods["Scanner.Buffer"]; len(bufs) > 0 {
			max := ""
			for _, c := range bufs {
				if len(c.node.Args) != 2 || len(c.args) != 2 || c.args[1] == "" || (max != "" && max != c.args[1]) {
					return other()
				}
				if id, ok := ast.Unparen(c.node.Args[0]).(*ast.Ident); !ok || id.Name != "nil" {
					return other()
				}
				max = c.args[1]
			}
			// every function that creates a Scanner must configure it
			closure := ammodecClosure(p, append(append([]*ast.FuncDecl{}, fds...), construct...))
			for _, fd := range closure {
				news, cfgs := 0, 0
				for _, c := range ammodecCalls(p, fd) {
					switch c.name {
					case "bufio.NewScanner":
						news++
					case "Scanner.Buffer":
						cfgs++
					}
				}
				if news != cfgs {
					return fmt.Sprintf("LineReader.other %q", "Scanner.Buffer on some constructions only")
				}
			}
			return "LineReader.scanner " + max
		}
		return fmt.Sprintf("LineReader.scanner %d", scanLimit)
	case len(methods["Reader.ReadString"]) > 0:
		if !isSubset("Reader.ReadString", "Reader.Reset") {
			return other()
		}
		delim := ""
		for _, c := range methods["Reader.ReadString"] {
			if len(c.args) != 1 || c.args[0] == "" || (delim != "" && delim != c.args[0]) {
				return other()
			}
			delim = c.args[0]
		}
		return "LineReader.readString " + delim
	}
	if len(names) == 0 {
		x.fail(p, nil, "%s: no bufio.Reader / bufio.Scanner method call found", what)
	}
	return other()
}

// ammodecCmpConsts finds comparisons `<lhs> <op> const` whose left side has the given normalised source text
// (variable names replaced by `_`); returns the constants found (sorted, distinct).
func ammodecCmpConsts(p *packages.Package, fd *ast.FuncDecl, shape string, ops ...token.Token) []string {
	set := map[string]bool{}
	if fd == nil {
		return nil
	}
	ast.Inspect(fd.Body, func(n ast.Node) bool {
		be, ok := n.(*ast.BinaryExpr)
		if !ok {
			return true
		}
		okOp := false
		for _, o := range ops {
			okOp = okOp || be.Op == o
		}
		if !okOp || ammodecShape(p, be.X) != shape {
			return true
		}
		if c := ammodecConstArg(p, be.Y); c != "" {
			set[c] = true
		}
		return true
	})
	var xs []string
	for k := range set {
		xs = append(xs, k)
	}
	sort.Strings(xs)
	return xs
}

// ammodecShape prints an expression with every identifier that is a variable replaced by `_`.
func ammodecShape(p *packages.Package, e ast.Expr) string {
	s := ammodecSrc(p, e)
	ast.Inspect(e, func(n ast.Node) bool {
		if id, ok := n.(*ast.Ident); ok {
			if _, isVar := p.TypesInfo.ObjectOf(id).(*types.Var); isVar {
				s = ammodecReplaceIdent(s, id.Name)
			}
		}
		return true
	})
	return s
}

func ammodecReplaceIdent(s, name string) string {
	var b strings.Builder
	isId := func(c byte) bool {
		return c == '_' || c >= '0' && c <= '9' || c >= 'a' && c <= 'z' || c >= 'A' && c <= 'Z'
	}
	for i := 0; i < len(s); {
		if strings.HasPrefix(s[i:], name) && (i == 0 || !isId(s[i-1])) && (i+len(name) == len(s) || !isId(s[i+len(name)])) {
			b.WriteByte('_')
			i += len(name)
			continue
		}
		b.WriteByte(s[i])
		i++
	}
	return b.String()
}

func (x *ammodecX) one(p *packages.Package, at ast.Node, what string, xs []string) string {
	if len(xs) != 1 {
		if at == nil {
			x.fail(p, nil, "%s: expected exactly one constant, found %v", what, xs)
		} else {
			x.fail(p, at, "%s: expected exactly one constant, found %v", what, xs)
		}
		return "0"
	}
	return xs[0]
}

// ammodecCallArgs: the distinct constant values of argument number i of the calls named name.
func ammodecCallArgs(calls []ammodecCall, name string, i int) []string {
	set := map[string]bool{}
	for _, c := range calls {
		if c.name == name && i < len(c.args) && c.args[i] != "" {
			set[c.args[i]] = true
		}
	}
	var xs []string
	for k := range set {
		xs = append(xs, k)
	}
	sort.Strings(xs)
	return xs
}

// ammodecSepArgs: the distinct constant strings given as SECOND argument to any strings.* call (separators of Cut / Split /
// SplitN / Join …): which of these functions is used does not matter, the separator does.
func ammodecSepArgs(calls []ammodecCall) []string {
	set := map[string]bool{}
	for _, c := range calls {
		if strings.HasPrefix(c.name, "strings.") && len(c.args) > 1 && strings.HasPrefix(c.args[1], "[") {
			set[c.args[1]] = true
		}
	}
	var xs []string
	for k := range set {
		xs = append(xs, k)
	}
	sort.Strings(xs)
	return xs
}

// ammodecSetup finds the call `<x>.Setup(method, url, body, header, tag)` of decoders/ammo.Ammo in fd and returns
// the constant method and the ORIGIN of the map passed as header, a classification of EVERY value the variable is
// ever given in fd (`:=` and `=`), independent of names and of the order of statements:
//
//	HdrOrigin.clone   every value is `<e>.Clone()` with <e> of type net/http.Header (a fresh map per entry)
//	HdrOrigin.alias   every value is a plain variable / field of type net/http.Header (the accumulator itself)
//	HdrOrigin.mixed   both occur (e.g. a clone only under some condition)
//	HdrOrigin.other   anything else (make, a literal, another function): not what the model describes
//
// Writes THROUGH the variable (`header[k] = …`, `header.Set`) do not change which map it refers to and are ignored.
func (x *ammodecX) setup(p *packages.Package, fd *ast.FuncDecl) (method string, origin string) {
	method, origin = "[]", `HdrOrigin.other "?"`
	if fd == nil {
		return
	}
	var setup *ast.CallExpr
	ast.Inspect(fd.Body, func(n ast.Node) bool {
		if call, ok := n.(*ast.CallExpr); ok {
			if sel, ok := call.Fun.(*ast.SelectorExpr); ok && sel.Sel.Name == "Setup" && len(call.Args) == 5 {
				setup = call
			}
		}
		return true
	})
	if setup == nil {
		x.fail(p, fd, "%s: no Setup(method, url, body, header, tag) call", fd.Name.Name)
		return
	}
	if m := ammodecConstArg(p, setup.Args[0]); m != "" {
		method = m
	} else {
		x.fail(p, setup, "%s: the method given to Setup is not a constant", fd.Name.Name)
	}
	kinds := map[string]bool{}
	classify := func(e ast.Expr) {
		kinds[ammodecHeaderValueKind(p, e)] = true
	}
	hid, ok := ast.Unparen(setup.Args[3]).(*ast.Ident)
	if !ok {
		classify(setup.Args[3]) // the expression is evaluated at the call
	} else {
		obj := p.TypesInfo.ObjectOf(hid)
		if v, isVar := obj.(*types.Var); isVar && ammodecIsParam(fd, p, v) {
			kinds["alias"] = true // the caller's map is passed on as it is
		}
		ast.Inspect(fd.Body, func(n ast.Node) bool {
			switch st := n.(type) {
			case *ast.AssignStmt:
				for i, l := range st.Lhs {
					if id, ok := l.(*ast.Ident); ok && p.TypesInfo.ObjectOf(id) == obj && (st.Tok == token.DEFINE || st.Tok == token.ASSIGN) {
						if len(st.Rhs) == len(st.Lhs) {
							classify(st.Rhs[i])
						} else {
							kinds["other:multi-value"] = true
						}
					}
				}
			case *ast.ValueSpec:
				for i, id := range st.Names {
					if p.TypesInfo.ObjectOf(id) == obj {
						// `var h http.Header` without a value: the nil map is no origin of its own (a path on which it
						// reached Setup would deliver entries without their headers: the differential run's business)
						if i < len(st.Values) {
							classify(st.Values[i])
						}
					}
				}
			}
			return true
		})
	}
	var ks []string
	for k := range kinds {
		ks = append(ks, k)
	}
	sort.Strings(ks)
	switch {
	case len(ks) == 1 && ks[0] == "clone":
		origin = "HdrOrigin.clone"
	case len(ks) == 1 && ks[0] == "alias":
		origin = "HdrOrigin.alias"
	case len(ks) == 2 && ks[0] == "alias" && ks[1] == "clone":
		origin = "HdrOrigin.mixed"
	default:
		origin = fmt.Sprintf("HdrOrigin.other %q", strings.Join(ks, ","))
	}
	return
}

func ammodecIsParam(fd *ast.FuncDecl, p *packages.Package, v *types.Var) bool {
	if fd.Type.Params == nil {
		return false
	}
	for _, f := range fd.Type.Params.List {
		for _, n := range f.Names {
			if p.TypesInfo.ObjectOf(n) == v {
				return true
			}
		}
	}
	return false
}

func ammodecIsHTTPHeader(ty types.Type) bool {
	nt, ok := ty.(*types.Named)
	return ok && nt.Obj().Pkg() != nil && nt.Obj().Pkg().Path() == "net/http" && nt.Obj().Name() == "Header"
}

// ammodecHeaderValueKind: "clone" for `<e>.Clone()` on an http.Header, "alias" for a variable / field / parenthesised
// variable of type http.Header, "other:<shape>" otherwise.
func ammodecHeaderValueKind(p *packages.Package, e ast.Expr) string {
	e = ast.Unparen(e)
	switch v := e.(type) {
	case *ast.CallExpr:
		if sel, ok := v.Fun.(*ast.SelectorExpr); ok && sel.Sel.Name == "Clone" && len(v.Args) == 0 && ammodecIsHTTPHeader(p.TypesInfo.TypeOf(sel.X)) {
			return "clone"
		}
	case *ast.Ident, *ast.SelectorExpr:
		if ammodecIsHTTPHeader(p.TypesInfo.TypeOf(e)) {
			return "alias"
		}
	}
	return "other:" + ammodecShape(p, e)
}

func ammodecExtra(t *tr) string {
	x := &ammodecX{t: t}
	p := t.pkg
	imp := func(path string) *packages.Package {
		q, ok := p.Imports[path]
		if !ok || len(q.Syntax) == 0 || q.TypesInfo == nil {
			x.fail(p, nil, "package %s not loaded with syntax", path)
			return nil
		}
		return q
	}
	var b strings.Builder
	w := func(format string, a ...any) { fmt.Fprintf(&b, format, a...) }
	w("open Pandora.Model.C07\n\n")

	// ---- the Scanner's token limit, from the toolchain's bufio
	scanLimit := int64(-1)
	if bp, ok := p.Imports["bufio"]; ok && bp.Types != nil {
		if c, ok := bp.Types.Scope().Lookup("MaxScanTokenSize").(*types.Const); ok {
			if v, exact := constant.Int64Val(constant.ToInt(c.Val())); exact {
				scanLimit = v
			}
		}
	}
	if scanLimit < 0 {
		x.fail(p, nil, "bufio.MaxScanTokenSize not found")
	}

	// ---- uri
	uriScan, uriLine, uriNew := ammodecFunc(p, "uriDecoder", "Scan"), ammodecFunc(p, "uriDecoder", "readLine"), ammodecFunc(p, "", "newURIDecoder")
	for n, fd := range map[string]*ast.FuncDecl{"uriDecoder.Scan": uriScan, "uriDecoder.readLine": uriLine, "newURIDecoder": uriNew} {
		if fd == nil {
			x.fail(p, nil, "%s not found", n)
		}
	}
	w("/-- regenerated from `uri.go`: `uriDecoder.Scan` + `newURIDecoder` (methods called on the bufio.Scanner; token limit = bufio.MaxScanTokenSize) -/\n")
	w("def uriReader : LineReader := %s\n\n", x.reader(p, "uriDecoder", scanLimit, []*ast.FuncDecl{uriScan, uriLine}, []*ast.FuncDecl{uriNew}))
	uriCalls := ammodecCalls(p, uriLine)
	w("/-- `uriDecoder.readLine`: `data[0] == …` (a header line) -/\ndef uriHeaderMark : Nat := %s\n\n", x.one(p, uriLine, "uri data[0] ==", ammodecCmpConsts(p, uriLine, "_[0]", token.EQL)))
	w("/-- `uriDecoder.readLine`: separator of `strings.Cut(data, …)` between target and tag -/\ndef uriTagSep : List UInt8 := %s\n\n", x.one(p, uriLine, "uri target/tag separator", ammodecSepArgs(uriCalls)))
	m, hi := x.setup(p, uriLine)
	w("/-- `uriDecoder.readLine`: method given to `Ammo.Setup` -/\ndef uriMethod : List UInt8 := %s\n\n", m)
	w("/-- `uriDecoder.readLine`: where the header map given to `Ammo.Setup` comes from (every value the variable is given) -/\ndef uriHeaderOrigin : HdrOrigin := %s\n\n", hi)
	w("/-- `uriDecoder.Scan`: what happens to the header accumulator (the field passed to `readLine`) when the file wraps around -/\ndef uriPassReset : PassReset := %s\n\n", x.passReset(p, "uriDecoder.Scan", uriScan, "readLine"))

	// ---- uripost
	upScan, upBlock, upNew := ammodecFunc(p, "uripostDecoder", "Scan"), ammodecFunc(p, "uripostDecoder", "readBlock"), ammodecFunc(p, "", "newURIPostDecoder")
	for n, fd := range map[string]*ast.FuncDecl{"uripostDecoder.Scan": upScan, "uripostDecoder.readBlock": upBlock, "newURIPostDecoder": upNew} {
		if fd == nil {
			x.fail(p, nil, "%s not found", n)
		}
	}
	w("/-- regenerated from `uripost.go`: `uripostDecoder.Scan` + `readBlock` (methods called on the bufio.Reader) -/\n")
	w("def uripostReader : LineReader := %s\n\n", x.reader(p, "uripostDecoder", scanLimit, []*ast.FuncDecl{upScan, upBlock}, []*ast.FuncDecl{upNew}))
	w("def uripostHeaderMark : Nat := %s\n\n", x.one(p, upBlock, "uripost data[0] ==", ammodecCmpConsts(p, upBlock, "_[0]", token.EQL)))
	m, hi = x.setup(p, upBlock)
	w("def uripostMethod : List UInt8 := %s\n\n", m)
	w("/-- `uripostDecoder.readBlock`: the same -/\ndef uripostHeaderOrigin : HdrOrigin := %s\n\n", hi)
	w("/-- `uripostDecoder.Scan`: the same for the field passed to `readBlock` -/\ndef uripostPassReset : PassReset := %s\n\n", x.passReset(p, "uripostDecoder.Scan", upScan, "readBlock"))

	// ---- raw
	rawScan, rawNew := ammodecFunc(p, "rawDecoder", "Scan"), ammodecFunc(p, "", "newRawDecoder")
	for n, fd := range map[string]*ast.FuncDecl{"rawDecoder.Scan": rawScan, "newRawDecoder": rawNew} {
		if fd == nil {
			x.fail(p, nil, "%s not found", n)
		}
	}
	w("/-- regenerated from `raw.go`: `rawDecoder.Scan` -/\n")
	w("def rawReader : LineReader := %s\n\n", x.reader(p, "rawDecoder", scanLimit, []*ast.FuncDecl{rawScan}, []*ast.FuncDecl{rawNew}))

	// ---- util.DecodeHeader
	if up := imp("github.com/yandex/pandora/components/providers/http/util"); up != nil {
		fd := ammodecFunc(up, "", "DecodeHeader")
		if fd == nil {
			x.fail(up, nil, "util.DecodeHeader not found")
		} else {
			calls := ammodecCalls(up, fd)
			w("/-- regenerated from `util/request.go` `DecodeHeader`: `len(h) < …` -/\ndef hdrMinLen : Nat := %s\n\n", x.one(up, fd, "DecodeHeader len(h) <", ammodecCmpConsts(up, fd, "len(_)", token.LSS)))
			w("/-- `h[0] != …` -/\ndef hdrOpen : Nat := %s\n\n", x.one(up, fd, "DecodeHeader h[0] !=", ammodecCmpConsts(up, fd, "_[0]", token.NEQ)))
			w("/-- `h[len(h)-1] != …` -/\ndef hdrClose : Nat := %s\n\n", x.one(up, fd, "DecodeHeader h[len(h)-1] !=", ammodecCmpConsts(up, fd, "_[len(_)-1]", token.NEQ)))
			w("/-- separator of `strings.Cut(h, …)` -/\ndef hdrSep : List UInt8 := %s\n\n", x.one(up, fd, "DecodeHeader strings.Cut separator", ammodecSepArgs(calls)))
			w("%s", x.translateFn(up, fd, "decodeHeaderG", "`util.DecodeHeader`, statement by statement"))
		}
	}

	// ---- uripost.DecodeURI
	if up := imp("github.com/yandex/pandora/components/providers/http/decoders/uripost"); up != nil {
		fd := ammodecFunc(up, "", "DecodeURI")
		if fd == nil {
			x.fail(up, nil, "uripost.DecodeURI not found")
		} else {
			calls := ammodecCalls(up, fd)
			w("/-- regenerated from `decoders/uripost/decoder.go` `DecodeURI`: the separator given to strings.Split / Join -/\ndef decodeURISep : List UInt8 := %s\n\n", x.one(up, fd, "DecodeURI separator", ammodecSepArgs(calls)))
			w("/-- `len(parts) < …` -/\ndef decodeURIMinParts : Nat := %s\n\n", x.one(up, fd, "DecodeURI len(parts) <", ammodecCmpConsts(up, fd, "len(_)", token.LSS)))
			w("%s", x.translateFn(up, fd, "decodeURIG", "`uripost.DecodeURI`, statement by statement"))
		}
	}

	// ---- raw.DecodeHeader
	if rp := imp("github.com/yandex/pandora/components/providers/http/decoders/raw"); rp != nil {
		fd := ammodecFunc(rp, "", "DecodeHeader")
		if fd == nil {
			x.fail(rp, nil, "raw.DecodeHeader not found")
		} else {
			calls := ammodecCalls(rp, fd)
			w("/-- regenerated from `decoders/raw/decoder.go` `DecodeHeader`: separator between size and tag -/\ndef rawHeaderSep : List UInt8 := %s\n\n", x.one(rp, fd, "raw.DecodeHeader separator", ammodecSepArgs(calls)))
			w("%s", x.translateFn(rp, fd, "rawDecodeHeaderG", "`raw.DecodeHeader`, statement by statement"))
		}
	}

	// ---- jsonline: URL prefix and json tags of entity
	jsonScan, jsonArr := ammodecFunc(p, "jsonlineDecoder", "Scan"), ammodecFunc(p, "jsonlineDecoder", "readArray")
	prefixes := map[string]bool{}
	for _, fd := range []*ast.FuncDecl{jsonScan, jsonArr} {
		if fd == nil {
			x.fail(p, nil, "jsonlineDecoder.Scan / readArray not found")
			continue
		}
		found := false
		ast.Inspect(fd.Body, func(n ast.Node) bool {
			as, ok := n.(*ast.AssignStmt)
			if !ok || len(as.Lhs) != 1 || len(as.Rhs) != 1 {
				return true
			}
			if id, ok := as.Lhs[0].(*ast.Ident); !ok || id.Name != "url" {
				return true
			}
			// url := <const> + X.Host + X.URI
			outer, ok := as.Rhs[0].(*ast.BinaryExpr)
			if !ok || outer.Op != token.ADD {
				return true
			}
			inner, ok := outer.X.(*ast.BinaryExpr)
			if !ok || inner.Op != token.ADD {
				return true
			}
			c := ammodecConstArg(p, inner.X)
			hs, ok1 := inner.Y.(*ast.SelectorExpr)
			us, ok2 := outer.Y.(*ast.SelectorExpr)
			if c != "" && ok1 && ok2 && hs.Sel.Name == "Host" && us.Sel.Name == "URI" {
				prefixes[c] = true
				found = true
			}
			return true
		})
		if !found {
			x.fail(p, fd, "%s: `url := <const> + e.Host + e.URI` not found", fd.Name.Name)
		}
	}
	var pf []string
	for k := range prefixes {
		pf = append(pf, k)
	}
	sort.Strings(pf)
	w("/-- regenerated from `jsonline.go`: `url := … + Host + URI` in `Scan` and `readArray` -/\ndef jsonURLPrefix : List UInt8 := %s\n\n", x.one(p, nil, "jsonline url prefix", pf))
	var tags []string
	if obj := p.Types.Scope().Lookup("entity"); obj != nil {
		if st, ok := obj.Type().Underlying().(*types.Struct); ok {
			for i := 0; i < st.NumFields(); i++ {
				// the name encoding/json decodes into this field: the tag's name (or the field's name), matched
				// case-insensitively - so it is recorded in lower case; Go field names and field order do not matter
				if !st.Field(i).Exported() {
					continue
				}
				name, _, _ := strings.Cut(reflect.StructTag(st.Tag(i)).Get("json"), ",")
				if name == "-" {
					continue
				}
				if name == "" {
					name = st.Field(i).Name()
				}
				tags = append(tags, fmt.Sprintf("(%q, %q)", strings.ToLower(name), st.Field(i).Type().String()))
			}
			sort.Strings(tags)
		}
	}
	if len(tags) == 0 {
		x.fail(p, nil, "struct entity not found")
	}
	w("/-- fields of `entity`: (the json name encoding/json decodes into the field, in lower case: names are matched case-insensitively; type), sorted -/\ndef entityFields : List (String × String) := [%s]\n", strings.Join(tags, ", "))
	return b.String() + ammodecR4(t) + ammodecR6(t)
}
