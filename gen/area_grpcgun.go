package main

// Area "grpcgun" (property C20): regenerates, core-Lean only, from the CURRENT source
//
//	components/guns/grpc/core.go            defaultTimeout, the timeout selection of (*Gun).shoot, what the call's
//	                                        context / metadata / method descriptor are made of, GunConfig's config tags
//	components/guns/grpc/scenario/core.go   the same for (*Gun).shootStep, plus which map the templater renders into
//	                                        and which map is sent
//	components/guns/grpc/scenario/templater_text.go   whether the template cache key is a structured (injective) key
//	components/providers/grpc/ammo.go       the JSON names of the ammo fields
//	components/providers/grpc/grpcjson      how payload numbers are decoded (json.Number or float64)
//	examples/grpc/server                    service name, methods, input message fields (name, JSON name, kind)
//
// into lean/Pandora/Gen/GrpcGun.lean. Shapes are reported as short canonical strings ("unrecognised: …" when the
// statement looked for is not there); lean/Pandora/Bridge/C20.lean proves that they are what Model/C20.lean assumes,
// so a source change makes a proof obligation fail.

import (
	"bytes"
	"fmt"
	"go/ast"
	"go/constant"
	"go/printer"
	"go/token"
	"go/types"
	"path/filepath"
	"reflect"
	"sort"
	"strconv"
	"strings"

	"golang.org/x/tools/go/packages"
)

func init() {
	areas["grpcgun"] = area{
		pkgPath:   "github.com/yandex/pandora/lib/verifhook", // a leaf package (cheap); the packages read are loaded together below
		module:    "GrpcGun",
		namespace: "Pandora.Gen.GrpcGun",
		imports:   []string{"Pandora.Model.C20Ns"},
		extra:     grpcGunExtra,
	}
}

func ggSrc(p *packages.Package, n ast.Node) string {
	if n == nil || reflect.ValueOf(n).IsNil() {
		return ""
	}
	var b bytes.Buffer
	_ = printer.Fprint(&b, p.Fset, n)
	return strings.Join(strings.Fields(b.String()), " ")
}

func ggMethod(p *packages.Package, recvType, name string) *ast.FuncDecl {
	for _, f := range p.Syntax {
		for _, d := range f.Decls {
			fd, ok := d.(*ast.FuncDecl)
			if !ok || fd.Recv == nil || fd.Name.Name != name || len(fd.Recv.List) != 1 || fd.Body == nil {
				continue
			}
			ty := fd.Recv.List[0].Type
			if st, ok := ty.(*ast.StarExpr); ok {
				ty = st.X
			}
			if id, ok := ty.(*ast.Ident); ok && id.Name == recvType {
				return fd
			}
		}
	}
	return nil
}

func ggRel(p *packages.Package, n ast.Node) string {
	rel, _ := filepath.Rel(repo, p.Fset.Position(n.Pos()).Filename)
	return rel
}

// ggObj: the object an identifier expression refers to (definition or use).
func ggObj(p *packages.Package, e ast.Expr) types.Object {
	id, ok := e.(*ast.Ident)
	if !ok {
		return nil
	}
	if o := p.TypesInfo.Defs[id]; o != nil {
		return o
	}
	return p.TypesInfo.Uses[id]
}

// ggCalls: every call expression inside n whose callee's source text is `callee` (e.g. "metadata.New").
func ggCalls(p *packages.Package, n ast.Node, callee string) []*ast.CallExpr {
	var out []*ast.CallExpr
	ast.Inspect(n, func(x ast.Node) bool {
		if c, ok := x.(*ast.CallExpr); ok && ggSrc(p, c.Fun) == callee {
			out = append(out, c)
		}
		return true
	})
	return out
}

// ggCallsSuffix: calls whose callee source ends with suffix (e.g. ".InvokeRpc").
func ggCallsSuffix(p *packages.Package, n ast.Node, suffix string) []*ast.CallExpr {
	var out []*ast.CallExpr
	ast.Inspect(n, func(x ast.Node) bool {
		if c, ok := x.(*ast.CallExpr); ok && strings.HasSuffix(ggSrc(p, c.Fun), suffix) {
			out = append(out, c)
		}
		return true
	})
	return out
}

// ggDefOf: the right-hand side of the single `name := rhs` / `var name = rhs` that defines obj inside fn ("" if none
// or several assignments to it exist).
func ggDefOf(p *packages.Package, fn *ast.FuncDecl, obj types.Object) string {
	if obj == nil {
		return ""
	}
	def := ""
	assigns := 0
	ast.Inspect(fn.Body, func(x ast.Node) bool {
		as, ok := x.(*ast.AssignStmt)
		if !ok {
			return true
		}
		for i, l := range as.Lhs {
			if ggObj(p, l) != obj {
				continue
			}
			assigns++
			if len(as.Lhs) == len(as.Rhs) {
				def = ggSrc(p, as.Rhs[i])
			} else {
				def = "multi:" + ggSrc(p, as.Rhs[0])
			}
		}
		return true
	})
	if assigns != 1 {
		return fmt.Sprintf("assigned %d times", assigns)
	}
	return def
}

// ggDefBefore: the right-hand side of the single assignment to obj that precedes pos inside fn.
func ggDefBefore(p *packages.Package, fn *ast.FuncDecl, obj types.Object, pos token.Pos) (rhs ast.Expr, multi bool, n int) {
	ast.Inspect(fn.Body, func(x ast.Node) bool {
		as, ok := x.(*ast.AssignStmt)
		if !ok || as.Pos() >= pos {
			return true
		}
		for i, l := range as.Lhs {
			if ggObj(p, l) != obj {
				continue
			}
			n++
			if len(as.Lhs) == len(as.Rhs) {
				rhs, multi = as.Rhs[i], false
			} else {
				rhs, multi = as.Rhs[0], true
			}
		}
		return true
	})
	return
}

// ggDescribe: an expression with every local variable replaced by its single definition preceding pos
// ("<name>#<k>" when it has k != 1 definitions there, the bare name for parameters and receivers).
func ggDescribeAt(p *packages.Package, fn *ast.FuncDecl, e ast.Expr, pos token.Pos, depth int) string {
	if depth > 6 {
		return ggSrc(p, e)
	}
	switch x := e.(type) {
	case *ast.Ident:
		if v, ok := ggObj(p, x).(*types.Var); ok && !v.IsField() && v.Parent() != p.Types.Scope() && v.Parent() != types.Universe {
			rhs, multi, n := ggDefBefore(p, fn, v, pos)
			if n == 0 {
				return x.Name
			}
			if n != 1 {
				return fmt.Sprintf("%s#%d", x.Name, n)
			}
			d := ggDescribeAt(p, fn, rhs, rhs.Pos(), depth+1)
			if multi {
				return "first(" + d + ")"
			}
			return d
		}
		return x.Name
	case *ast.CallExpr:
		var as []string
		for _, a := range x.Args {
			as = append(as, ggDescribeAt(p, fn, a, pos, depth+1))
		}
		return ggDescribeAt(p, fn, x.Fun, pos, depth+1) + "(" + strings.Join(as, ", ") + ")"
	case *ast.SelectorExpr:
		return ggDescribeAt(p, fn, x.X, pos, depth+1) + "." + x.Sel.Name
	case *ast.IndexExpr:
		return ggDescribeAt(p, fn, x.X, pos, depth+1) + "[" + ggDescribeAt(p, fn, x.Index, pos, depth+1) + "]"
	case *ast.UnaryExpr:
		return x.Op.String() + ggDescribeAt(p, fn, x.X, pos, depth+1)
	case *ast.StarExpr:
		return "*" + ggDescribeAt(p, fn, x.X, pos, depth+1)
	case *ast.ParenExpr:
		return "(" + ggDescribeAt(p, fn, x.X, pos, depth+1) + ")"
	}
	return ggSrc(p, e)
}

func ggDescribe(p *packages.Package, fn *ast.FuncDecl, e ast.Expr) string {
	// receiver / parameters / range variables by position, locals by definition (area_grpcgun_net.go)
	return grpcgunNetDescribe(p, fn, grpcgunNetAliases(p, fn), e, e.Pos(), 0)
}

type ggTimeout struct {
	dflt, op, conf string
	ok             bool
	why            string
}

// ggTimeoutShape recognises, in fn:
//
//	timeout := <const>
//	if <X>.Timeout <op> 0 { timeout = <X>.Timeout }
//	ctx, cancel := context.WithTimeout(context.Background(), timeout)
//	ctx = metadata.NewOutgoingContext(ctx, metadata.New(<M>))
//	… .InvokeRpc(ctx, &method, message)
//
// with the SAME ctx variable and the SAME timeout variable, and no other assignment to either.
func ggTimeoutShape(p *packages.Package, fn *ast.FuncDecl) (res ggTimeout, ctxChain string) {
	var tobj types.Object
	for _, s := range fn.Body.List {
		as, ok := s.(*ast.AssignStmt)
		if ok && as.Tok == token.DEFINE && len(as.Lhs) == 1 && len(as.Rhs) == 1 && ggSrc(p, as.Lhs[0]) == "timeout" {
			tv := p.TypesInfo.Types[as.Rhs[0]]
			if tv.Value == nil {
				res.why = "timeout is not initialised with a constant: " + ggSrc(p, as)
				return
			}
			res.dflt = constant.ToInt(tv.Value).ExactString()
			tobj = ggObj(p, as.Lhs[0])
		}
	}
	if tobj == nil {
		res.why = "no `timeout := <const>`"
		return
	}
	// every other assignment to timeout
	var ifs *ast.IfStmt
	others := 0
	for _, s := range fn.Body.List {
		if i, ok := s.(*ast.IfStmt); ok && i.Init == nil && i.Else == nil && len(i.Body.List) == 1 {
			if as, ok := i.Body.List[0].(*ast.AssignStmt); ok && as.Tok == token.ASSIGN && len(as.Lhs) == 1 && ggObj(p, as.Lhs[0]) == tobj {
				ifs = i
			}
		}
	}
	ast.Inspect(fn.Body, func(x ast.Node) bool {
		if as, ok := x.(*ast.AssignStmt); ok {
			for _, l := range as.Lhs {
				if ggObj(p, l) == tobj {
					others++
				}
			}
		}
		if u, ok := x.(*ast.UnaryExpr); ok && u.Op == token.AND && ggObj(p, u.X) == tobj {
			others += 10
		}
		return true
	})
	if ifs == nil || others != 2 {
		res.why = fmt.Sprintf("timeout is assigned %d times / no `if … { timeout = … }`", others)
		return
	}
	be, ok := ifs.Cond.(*ast.BinaryExpr)
	if !ok {
		res.why = "condition: " + ggSrc(p, ifs.Cond)
		return
	}
	zero := p.TypesInfo.Types[be.Y]
	if zero.Value == nil || constant.Sign(constant.ToInt(zero.Value)) != 0 {
		res.why = "condition does not compare with 0: " + ggSrc(p, ifs.Cond)
		return
	}
	switch be.Op {
	case token.NEQ:
		res.op = "≠"
	case token.GTR:
		res.op = ">"
	default:
		res.why = "condition operator: " + ggSrc(p, ifs.Cond)
		return
	}
	res.conf = ggDescribe(p, fn, be.X)
	as := ifs.Body.List[0].(*ast.AssignStmt)
	if ggDescribe(p, fn, as.Rhs[0]) != res.conf || !strings.HasSuffix(res.conf, ".Timeout") {
		res.why = "assigned value differs from the tested one: " + ggSrc(p, ifs)
		return
	}
	res.ok = true

	// the context chain
	ctxChain = "unrecognised"
	wts := ggCalls(p, fn.Body, "context.WithTimeout")
	invs := ggCallsSuffix(p, fn.Body, ".InvokeRpc")
	nocs := ggCalls(p, fn.Body, "metadata.NewOutgoingContext")
	if len(wts) != 1 || len(invs) != 1 || len(nocs) != 1 {
		ctxChain = fmt.Sprintf("unrecognised: %d WithTimeout, %d InvokeRpc, %d NewOutgoingContext", len(wts), len(invs), len(nocs))
		return
	}
	if len(wts[0].Args) != 2 || ggObj(p, wts[0].Args[1]) != tobj || ggSrc(p, wts[0].Args[0]) != "context.Background()" {
		ctxChain = "unrecognised: " + ggSrc(p, wts[0])
		return
	}
	// ctx object: lhs[0] of the statement holding WithTimeout
	var cobj types.Object
	var order []string
	ast.Inspect(fn.Body, func(x ast.Node) bool {
		as, ok := x.(*ast.AssignStmt)
		if !ok || len(as.Rhs) != 1 {
			return true
		}
		if as.Rhs[0] == ast.Expr(wts[0]) && len(as.Lhs) == 2 {
			cobj = ggObj(p, as.Lhs[0])
			order = append(order, "WithTimeout")
		} else if as.Rhs[0] == ast.Expr(nocs[0]) && len(as.Lhs) == 1 && cobj != nil && ggObj(p, as.Lhs[0]) == cobj &&
			len(nocs[0].Args) == 2 && ggObj(p, nocs[0].Args[0]) == cobj {
			order = append(order, "NewOutgoingContext")
		} else {
			for _, l := range as.Lhs {
				if cobj != nil && ggObj(p, l) == cobj {
					order = append(order, "other:"+ggSrc(p, as))
				}
			}
		}
		return true
	})
	if cobj == nil || len(invs[0].Args) < 1 || ggObj(p, invs[0].Args[0]) != cobj {
		ctxChain = "unrecognised: InvokeRpc is not called with the WithTimeout context: " + ggSrc(p, invs[0])
		return
	}
	// InvokeRpc must come after both
	if invs[0].Pos() < nocs[0].Pos() || nocs[0].Pos() < wts[0].Pos() {
		ctxChain = "unrecognised: order of WithTimeout / NewOutgoingContext / InvokeRpc"
		return
	}
	ctxChain = strings.Join(order, ">") + ">InvokeRpc"
	return
}

func ggQuote(s string) string { return strconv.Quote(s) }

// ggLoadMany loads several packages in one go/packages call (one shared dependency graph).
func ggLoadMany(paths ...string) map[string]*packages.Package {
	cfg := &packages.Config{Mode: packages.NeedName | packages.NeedSyntax | packages.NeedTypes | packages.NeedTypesInfo |
		packages.NeedFiles | packages.NeedImports | packages.NeedDeps, Dir: repo, BuildFlags: []string{"-tags=verif"}}
	pkgs, err := packages.Load(cfg, paths...)
	out := map[string]*packages.Package{}
	if err != nil {
		return out
	}
	for _, p := range pkgs {
		if len(p.Errors) == 0 {
			out[p.PkgPath] = p
		}
	}
	return out
}

func ggTagTable(st *types.Struct, key string) [][2]string {
	var out [][2]string
	for i := 0; i < st.NumFields(); i++ {
		f := st.Field(i)
		if !f.Exported() {
			continue
		}
		tag := reflect.StructTag(st.Tag(i)).Get(key)
		out = append(out, [2]string{f.Name(), tag})
	}
	return out
}

func ggPairs(ps [][2]string) string {
	var q []string
	for _, p := range ps {
		q = append(q, "("+ggQuote(p[0])+", "+ggQuote(p[1])+")")
	}
	return "[" + strings.Join(q, ", ") + "]"
}

func ggStruct(p *packages.Package, name string) *types.Struct {
	obj := p.Types.Scope().Lookup(name)
	if obj == nil {
		return nil
	}
	st, _ := obj.Type().Underlying().(*types.Struct)
	return st
}

func grpcGunExtra(t *tr) string {
	var b strings.Builder
	many := ggLoadMany("github.com/yandex/pandora/components/providers/grpc", "github.com/yandex/pandora/components/guns/grpc", "github.com/yandex/pandora/components/guns/grpc/scenario",
		"github.com/yandex/pandora/components/providers/grpc/grpcjson", "github.com/yandex/pandora/examples/grpc/server",
		"github.com/yandex/pandora/components/providers/scenario/grpc", "github.com/yandex/pandora/components/providers/scenario/grpc/postprocessor",
		"github.com/yandex/pandora/components/providers/scenario", "github.com/yandex/pandora/components/providers/scenario/config",
		"github.com/yandex/pandora/lib/mp", "github.com/yandex/pandora/lib/math", "github.com/yandex/pandora/components/grpc/import")
	ap := many["github.com/yandex/pandora/components/providers/grpc"]
	gp := many["github.com/yandex/pandora/components/guns/grpc"]
	sp := many["github.com/yandex/pandora/components/guns/grpc/scenario"]
	jp := many["github.com/yandex/pandora/components/providers/grpc/grpcjson"]
	ep := many["github.com/yandex/pandora/examples/grpc/server"]
	if ap == nil || gp == nil || sp == nil || jp == nil || ep == nil {
		t.errs = append(t.errs, "grpcgun: could not load the gun / provider / example server packages")
		return ""
	}

	emitTimeout := func(prefix string, p *packages.Package, fn *ast.FuncDecl, what string) {
		res, chain := ggTimeoutShape(p, fn)
		if !res.ok {
			// round 6: the selection is not written in the familiar shape (e.g. extracted into a helper method): take the
			// value handed to context.WithTimeout SEMANTICALLY, as a function of the configured timeout, by symbolic execution
			if expr, conf, dflt, chain2 := ggTimeoutSym(t, p, fn); expr != "" {
				b.WriteString(fmt.Sprintf("/-- the constant `defaultTimeout` of the package (ns) -/\ndef %sDefaultTimeoutNs : Int := %s\n\n", prefix, dflt))
				b.WriteString(fmt.Sprintf("/-- regenerated (symbolic execution, helper methods inlined) from `%s` %s: the value handed to `context.WithTimeout`; `conf` is the configured\ntimeout in ns -/\ndef %sTimeoutNs (conf : Int) : Int := %s\n\n", ggRel(p, fn), what, prefix, expr))
				b.WriteString(fmt.Sprintf("/-- which configuration value the selection reads -/\ndef %sTimeoutConf : String := %s\n\n", prefix, ggQuote(conf)))
				b.WriteString(fmt.Sprintf("/-- how the context handed to `InvokeRpc` is made in %s (one variable, in this order) -/\ndef %sContextChain : String := %s\n\n", what, prefix, ggQuote(chain2)))
				return
			}
			t.errs = append(t.errs, fmt.Sprintf("%s: timeout selection of %s not recognised: %s", p.Fset.Position(fn.Pos()), what, res.why))
			res.dflt, res.op = "0", "≠"
		}
		b.WriteString(fmt.Sprintf("/-- the constant `timeout` starts from in `%s` %s (ns) -/\ndef %sDefaultTimeoutNs : Int := %s\n\n", ggRel(p, fn), what, prefix, res.dflt))
		b.WriteString(fmt.Sprintf("/-- regenerated from `%s` %s: `timeout := <default>; if %s %s 0 { timeout = %s }`; `conf` is the configured\ntimeout in ns -/\ndef %sTimeoutNs (conf : Int) : Int := if conf %s 0 then conf else %sDefaultTimeoutNs\n\n",
			ggRel(p, fn), what, res.conf, map[string]string{"≠": "!=", ">": ">"}[res.op], res.conf, prefix, res.op, prefix))
		b.WriteString(fmt.Sprintf("/-- which configuration value the selection reads -/\ndef %sTimeoutConf : String := %s\n\n", prefix, ggQuote(res.conf)))
		b.WriteString(fmt.Sprintf("/-- how the context handed to `InvokeRpc` is made in %s (one variable, in this order) -/\ndef %sContextChain : String := %s\n\n", what, prefix, ggQuote(chain)))
	}

	// ---- plain gun
	shoot := ggMethod(gp, "Gun", "shoot")
	if shoot == nil {
		t.errs = append(t.errs, "(*Gun).shoot not found in components/guns/grpc")
		return ""
	}
	emitTimeout("gun", gp, shoot, "(*Gun).shoot")
	describeCall := func(prefix string, p *packages.Package, fn *ast.FuncDecl) {
		// metadata.New(<M>)
		mds := ggCalls(p, fn.Body, "metadata.New")
		md := "unrecognised"
		if len(mds) == 1 && len(mds[0].Args) == 1 {
			md = ggDescribe(p, fn, mds[0].Args[0])
		}
		b.WriteString(fmt.Sprintf("/-- the argument of the single `metadata.New(…)` -/\ndef %sMetadataSent : String := %s\n\n", prefix, ggQuote(md)))
		// InvokeRpc(ctx, &method, message): where method and message come from
		invs := ggCallsSuffix(p, fn.Body, ".InvokeRpc")
		method, message, msgFill, stub := "unrecognised", "unrecognised", "unrecognised", "unrecognised"
		if len(invs) == 1 && len(invs[0].Args) == 3 {
			stub = ggDescribe(p, fn, invs[0].Fun)
			if u, ok := invs[0].Args[1].(*ast.UnaryExpr); ok && u.Op == token.AND {
				method = ggDescribe(p, fn, u.X)
			}
			message = ggDescribe(p, fn, invs[0].Args[2])
			// the single message.UnmarshalJSON(<J>) before the call
			mobj := ggObj(p, invs[0].Args[2])
			var fills []string
			ast.Inspect(fn.Body, func(x ast.Node) bool {
				c, ok := x.(*ast.CallExpr)
				if !ok {
					return true
				}
				sel, ok := c.Fun.(*ast.SelectorExpr)
				if ok && mobj != nil && ggObj(p, sel.X) == mobj && c.Pos() < invs[0].Pos() {
					arg := ""
					if len(c.Args) == 1 {
						arg = ggDescribe(p, fn, c.Args[0])
					}
					fills = append(fills, sel.Sel.Name+"("+arg+")")
				}
				return true
			})
			msgFill = strings.Join(fills, ";")
		}
		b.WriteString(fmt.Sprintf("/-- the method descriptor passed to `InvokeRpc` (by address) -/\ndef %sMethodSource : String := %s\n\n", prefix, ggQuote(method)))
		b.WriteString(fmt.Sprintf("/-- the message passed to `InvokeRpc` -/\ndef %sMessageSource : String := %s\n\n", prefix, ggQuote(message)))
		b.WriteString(fmt.Sprintf("/-- every method called on that message before the call -/\ndef %sMessageFill : String := %s\n\n", prefix, ggQuote(msgFill)))
		b.WriteString(fmt.Sprintf("/-- the stub the call is made through -/\ndef %sStub : String := %s\n\n", prefix, ggQuote(stub)))
	}
	describeCall("gun", gp, shoot)

	// ---- scenario gun
	step := ggMethod(sp, "Gun", "shootStep")
	if step == nil {
		t.errs = append(t.errs, "(*Gun).shootStep not found in components/guns/grpc/scenario")
		return b.String()
	}
	emitTimeout("scenario", sp, step, "(*Gun).shootStep")
	describeCall("scenario", sp, step)
	// templ.Apply(step.Payload, <M>, templateVars, ammoName, step.Name)
	aps := ggCallsSuffix(sp, step.Body, ".templ.Apply")
	rendered, applyArgs := "unrecognised", "unrecognised"
	sameVar := false
	if len(aps) == 1 && len(aps[0].Args) == 5 {
		rendered = ggDescribe(sp, step, aps[0].Args[1])
		applyArgs = ggDescribe(sp, step, aps[0].Args[0]) + "," + ggDescribe(sp, step, aps[0].Args[3]) + "," + ggDescribe(sp, step, aps[0].Args[4])
		mds := ggCalls(sp, step.Body, "metadata.New")
		if len(mds) == 1 && len(mds[0].Args) == 1 {
			o1, o2 := ggObj(sp, aps[0].Args[1]), ggObj(sp, mds[0].Args[0])
			sameVar = o1 != nil && o1 == o2 && aps[0].Pos() < mds[0].Pos()
		}
	}
	b.WriteString("/-- the map `templ.Apply` renders the metadata into (its second argument) -/\ndef scenarioMetadataRendered : String := " + ggQuote(rendered) + "\n\n")
	b.WriteString("/-- `metadata.New` is given the very variable `templ.Apply` rendered into, after the rendering -/\ndef scenarioSendsWhatItRendered : Bool := " + fmt.Sprint(sameVar) + "\n\n")
	b.WriteString("/-- payload template, scenario name and step name handed to `templ.Apply` -/\ndef scenarioApplyArgs : String := " + ggQuote(applyArgs) + "\n\n")

	// ---- template cache key
	gt := ggMethod(sp, "TextTemplater", "getTemplate")
	keyKind := "unrecognised"
	if gt != nil {
		loads := ggCallsSuffix(sp, gt.Body, ".templatesCache.Load")
		stores := ggCallsSuffix(sp, gt.Body, ".templatesCache.Store")
		if len(loads) == 1 && len(stores) == 1 && len(loads[0].Args) == 1 && len(stores[0].Args) == 2 &&
			ggObj(sp, loads[0].Args[0]) != nil && ggObj(sp, loads[0].Args[0]) == ggObj(sp, stores[0].Args[0]) {
			ty := sp.TypesInfo.TypeOf(loads[0].Args[0])
			switch u := ty.Underlying().(type) {
			case *types.Basic:
				keyKind = "joined " + u.Name() + " := " + ggDefOf(sp, gt, ggObj(sp, loads[0].Args[0]))
			case *types.Struct:
				var fs []string
				okStr := true
				for i := 0; i < u.NumFields(); i++ {
					fs = append(fs, u.Field(i).Name())
					if bt, ok := u.Field(i).Type().Underlying().(*types.Basic); !ok || bt.Kind() != types.String {
						okStr = false
					}
				}
				if okStr {
					keyKind = "struct{" + strings.Join(fs, ",") + "}"
				} else {
					keyKind = "struct with non-string fields"
				}
			default:
				keyKind = "unrecognised: " + ty.String()
			}
		}
	}
	b.WriteString("/-- the key of `TextTemplater.templatesCache` (Load and Store use the same variable) -/\ndef templateCacheKey : String := " + ggQuote(keyKind) + "\n\n")
	// the keys Apply builds: composite literals of that struct type / argument lists
	ap2 := ggMethod(sp, "TextTemplater", "Apply")
	var gets []string
	if ap2 != nil {
		for _, c := range ggCallsSuffix(sp, ap2.Body, ".getTemplate") {
			var as []string
			for _, a := range c.Args {
				as = append(as, ggDescribe(sp, ap2, a))
			}
			gets = append(gets, strings.Join(as, " | "))
		}
	}
	var gq []string
	for _, g := range gets {
		gq = append(gq, ggQuote(g))
	}
	b.WriteString("/-- the arguments of the `getTemplate` calls of `TextTemplater.Apply` (payload first, then per metadata key) -/\ndef templateLookups : List String := [" + strings.Join(gq, ", ") + "]\n\n")
	// constants used as `part`
	var parts [][2]string
	for _, n := range []string{"partPayload", "partMetadata"} {
		if c, ok := sp.Types.Scope().Lookup(n).(*types.Const); ok && c.Val().Kind() == constant.String {
			parts = append(parts, [2]string{n, constant.StringVal(c.Val())})
		}
	}
	b.WriteString("/-- string constants distinguishing the payload template from metadata templates -/\ndef templateParts : List (String × String) := " + ggPairs(parts) + "\n\n")
	// in-place write of Apply: `metadata[k] = …` on its parameter
	inPlace := "unrecognised"
	if ap2 != nil {
		n := 0
		al := grpcgunNetAliases(sp, ap2)
		ast.Inspect(ap2.Body, func(x ast.Node) bool {
			if as, ok := x.(*ast.AssignStmt); ok {
				for _, l := range as.Lhs {
					if ix, ok := l.(*ast.IndexExpr); ok && al[ggObj(sp, ix.X)] == "$1" {
						n++
					}
				}
			}
			return true
		})
		inPlace = fmt.Sprintf("%d index assignment(s) to parameter $1 (the metadata map)", n)
	}
	b.WriteString("/-- `TextTemplater.Apply` stores the rendered values into the map it was given -/\ndef templaterWrites : String := " + ggQuote(inPlace) + "\n\n")

	// ---- Bind: which stub an instance gets
	bind := ggMethod(gp, "Gun", "Bind")
	bindShape := "unrecognised"
	if bind != nil {
		for _, s := range bind.Body.List {
			if i, ok := s.(*ast.IfStmt); ok && strings.Contains(ggSrc(gp, i.Cond), "clientPool") {
				var thenA, elseA []string
				ast.Inspect(i.Body, func(x ast.Node) bool {
					if as, ok := x.(*ast.AssignStmt); ok && ggSrc(gp, as.Lhs[0]) == "g.Stub" {
						thenA = append(thenA, ggDescribe(gp, bind, as.Rhs[0]))
					}
					return true
				})
				if i.Else != nil {
					ast.Inspect(i.Else, func(x ast.Node) bool {
						if as, ok := x.(*ast.AssignStmt); ok && ggSrc(gp, as.Lhs[0]) == "g.Stub" {
							elseA = append(elseA, ggDescribe(gp, bind, as.Rhs[0]))
						}
						return true
					})
				}
				bindShape = "if " + ggDescribe(gp, bind, i.Cond) + " then " + strings.Join(thenA, ";") + " else " + strings.Join(elseA, ";")
			}
		}
		var svc []string
		ast.Inspect(bind.Body, func(x ast.Node) bool {
			if as, ok := x.(*ast.AssignStmt); ok && ggSrc(gp, as.Lhs[0]) == "g.Services" {
				svc = append(svc, ggDescribe(gp, bind, as.Rhs[0]))
			}
			return true
		})
		b.WriteString("/-- what `Bind` stores as the instance's method table -/\ndef bindServices : String := " + ggQuote(strings.Join(svc, ";")) + "\n\n")
	}
	b.WriteString("/-- how `Bind` chooses the instance's stub -/\ndef bindStub : String := " + ggQuote(bindShape) + "\n\n")

	// ---- endpoints, scenario gun's configuration hand-down, templater loop (area_grpcgun_net.go)
	b.WriteString(grpcgunNetExtra(t, gp, sp))
	b.WriteString(grpcgunFeedExtra(t, gp, sp, jp, many["github.com/yandex/pandora/components/providers/scenario/grpc"],
		many["github.com/yandex/pandora/components/providers/scenario/grpc/postprocessor"]))
	b.WriteString(grpcgunR4Extra(t, many))
	b.WriteString(grpcgunSymExtra(t, many))
	b.WriteString(grpcgunR6Extra(t, many))

	// ---- config tags
	if st := ggStruct(gp, "GunConfig"); st != nil {
		b.WriteString("/-- exported fields of grpc `GunConfig` with their `config` tags -/\ndef gunConfigTags : List (String × String) := " + ggPairs(ggTagTable(st, "config")) + "\n\n")
		for i := 0; i < st.NumFields(); i++ {
			if st.Field(i).Name() == "SharedClient" {
				if in, ok := st.Field(i).Type().Underlying().(*types.Struct); ok {
					b.WriteString("/-- fields of `GunConfig.SharedClient` with their `config` tags -/\ndef sharedClientTags : List (String × String) := " + ggPairs(ggTagTable(in, "config")) + "\n\n")
				}
			}
		}
	} else {
		t.errs = append(t.errs, "grpc GunConfig not found")
	}
	if st := ggStruct(sp, "GunConfig"); st != nil {
		b.WriteString("/-- exported fields of grpc/scenario `GunConfig` with their `config` tags -/\ndef scenarioGunConfigTags : List (String × String) := " + ggPairs(ggTagTable(st, "config")) + "\n\n")
	}
	if st := ggStruct(ap, "Ammo"); st != nil {
		b.WriteString("/-- exported fields of the grpc `Ammo` with their `json` tags -/\ndef ammoJsonTags : List (String × String) := " + ggPairs(ggTagTable(st, "json")) + "\n\n")
	} else {
		t.errs = append(t.errs, "grpc Ammo not found")
	}

	// ---- grpc/json: how numbers of the payload are decoded
	da := findFunc(jp, "decodeAmmo")
	numbers := "unrecognised"
	if da != nil {
		var um []*ast.CallExpr
		ast.Inspect(da.Body, func(x ast.Node) bool {
			if c, ok := x.(*ast.CallExpr); ok {
				if sel, ok := c.Fun.(*ast.SelectorExpr); ok && sel.Sel.Name == "Unmarshal" {
					um = append(um, c)
				}
			}
			return true
		})
		if len(um) == 1 {
			recv := um[0].Fun.(*ast.SelectorExpr).X
			numbers = "float64 (" + ggSrc(jp, um[0].Fun) + ")"
			if id, ok := recv.(*ast.Ident); ok {
				if v, ok := jp.TypesInfo.Uses[id].(*types.Var); ok && v.Parent() == jp.Types.Scope() {
					// package-level API value: find its initialiser and read UseNumber
					for _, f := range jp.Syntax {
						for _, d := range f.Decls {
							gd, ok := d.(*ast.GenDecl)
							if !ok {
								continue
							}
							for _, s := range gd.Specs {
								vs, ok := s.(*ast.ValueSpec)
								if !ok {
									continue
								}
								for i, n := range vs.Names {
									if n.Name == id.Name && i < len(vs.Values) {
										src := ggSrc(jp, vs.Values[i])
										if strings.Contains(src, "UseNumber: true") && strings.HasSuffix(src, ".Froze()") {
											numbers = "json.Number"
										} else {
											numbers = "unrecognised: " + src
										}
									}
								}
							}
						}
					}
				}
			}
		}
	}
	{
		into, resetArgs, resetBody := grpcgunNetAmmoFacts(ap, jp)
		b.WriteString("/-- what `grpcjson.decodeAmmo($0 = line, $1 = pooled ammo)` decodes the JSON line into -/\ndef ammoDecodeInto : String := " + ggQuote(into) + "\n\n")
		b.WriteString("/-- what the pooled ammo object is reset with -/\ndef ammoResetCall : String := " + ggQuote(resetArgs) + "\n\n")
		b.WriteString("/-- the body of `(*Ammo).Reset($0 = tag, $1 = call, $2 = metadata, $3 = payload)` -/\ndef ammoResetBody : String := " + ggQuote(resetBody) + "\n\n")
	}
	b.WriteString("/-- how `grpcjson.decodeAmmo` represents the numbers of a payload (`json.Number` keeps the literal as written;\n`float64` rounds integers above 2^53) -/\ndef payloadNumbers : String := " + ggQuote(numbers) + "\n\n")

	// ---- ConvertGrpcStatus: what OK and InvalidArgument (the example service's two replies) are reported as
	if cs := findFunc(gp, "ConvertGrpcStatus"); cs != nil {
		got := map[string]string{}
		ast.Inspect(cs.Body, func(x ast.Node) bool {
			cc, ok := x.(*ast.CaseClause)
			if !ok || len(cc.Body) != 1 {
				return true
			}
			r, ok := cc.Body[0].(*ast.ReturnStmt)
			if !ok || len(r.Results) != 1 {
				return true
			}
			tv := gp.TypesInfo.Types[r.Results[0]]
			if tv.Value == nil {
				return true
			}
			for _, l := range cc.List {
				got[ggSrc(gp, l)] = constant.ToInt(tv.Value).ExactString()
			}
			return true
		})
		for _, c := range [][2]string{{"codes.OK", "statusOk"}, {"codes.InvalidArgument", "statusInvalidArgument"}} {
			v, ok := got[c[0]]
			if !ok {
				t.errs = append(t.errs, "ConvertGrpcStatus: no `case "+c[0]+": return <const>`")
				v = "0"
			}
			b.WriteString(fmt.Sprintf("/-- `ConvertGrpcStatus`: the code reported for `%s` -/\ndef %s : Nat := %s\n\n", c[0], c[1], v))
		}
	} else {
		t.errs = append(t.errs, "ConvertGrpcStatus not found")
	}

	// ---- the example service
	svcName := "unrecognised"
	for _, f := range ep.Syntax {
		ast.Inspect(f, func(x ast.Node) bool {
			kv, ok := x.(*ast.KeyValueExpr)
			if ok && ggSrc(ep, kv.Key) == "ServiceName" {
				if tv := ep.TypesInfo.Types[kv.Value]; tv.Value != nil && tv.Value.Kind() == constant.String {
					svcName = constant.StringVal(tv.Value)
				}
			}
			return true
		})
	}
	b.WriteString("/-- `ServiceName` of the example service descriptor -/\ndef serviceName : String := " + ggQuote(svcName) + "\n\n")
	type fld struct {
		num              int
		name, json, kind string
	}
	var rows []string
	if obj := ep.Types.Scope().Lookup("TargetServiceServer"); obj != nil {
		if it, ok := obj.Type().Underlying().(*types.Interface); ok {
			var names []string
			ms := map[string]*types.Func{}
			for i := 0; i < it.NumMethods(); i++ {
				m := it.Method(i)
				if m.Exported() {
					names = append(names, m.Name())
					ms[m.Name()] = m
				}
			}
			sort.Strings(names)
			for _, n := range names {
				sig := ms[n].Type().(*types.Signature)
				if sig.Params().Len() != 2 {
					t.errs = append(t.errs, "example service method "+n+": unexpected signature")
					continue
				}
				pt, ok := sig.Params().At(1).Type().(*types.Pointer)
				if !ok {
					t.errs = append(t.errs, "example service method "+n+": request is not a pointer")
					continue
				}
				st, ok := pt.Elem().Underlying().(*types.Struct)
				if !ok {
					continue
				}
				var fs []fld
				for i := 0; i < st.NumFields(); i++ {
					pb := reflect.StructTag(st.Tag(i)).Get("protobuf")
					if pb == "" {
						continue
					}
					parts := strings.Split(pb, ",")
					if len(parts) < 4 {
						t.errs = append(t.errs, "example service "+n+": protobuf tag "+pb)
						continue
					}
					num, _ := strconv.Atoi(parts[1])
					f := fld{num: num}
					for _, q := range parts[3:] {
						if strings.HasPrefix(q, "name=") {
							f.name = q[5:]
						}
						if strings.HasPrefix(q, "json=") {
							f.json = q[5:]
						}
					}
					if f.json == "" {
						f.json = f.name
					}
					gt := st.Field(i).Type().String()
					switch {
					case parts[0] == "bytes" && gt == "string":
						f.kind = "string"
					case parts[0] == "varint" && gt == "int64":
						f.kind = "int64"
					default:
						f.kind = parts[0] + "/" + gt
					}
					fs = append(fs, f)
				}
				sort.Slice(fs, func(a, b int) bool { return fs[a].num < fs[b].num })
				var q []string
				for _, f := range fs {
					q = append(q, "("+ggQuote(f.name)+", "+ggQuote(f.json)+", "+ggQuote(f.kind)+")")
				}
				rows = append(rows, "("+ggQuote(n)+", ["+strings.Join(q, ", ")+"])")
			}
		}
	}
	if len(rows) == 0 {
		t.errs = append(t.errs, "TargetServiceServer interface not found in examples/grpc/server")
	}
	b.WriteString("/-- methods of the example service (sorted) with the fields of their request messages in field-number order:\n(proto name, JSON name, kind), from the generated Go types' `protobuf` struct tags -/\ndef methodTable : List (String × List (String × String × String)) :=\n  [ " + strings.Join(rows, ",\n    ") + " ]\n")
	return b.String()
}
