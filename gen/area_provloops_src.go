package main

// Area "provloops", round 4: the data sources of the generic JSON provider — can what `OpenSource` hands out be rewound?
//
//	core/datasource/file.go  NewFile  -> fileSource.OpenSource     -> srcOpensFile   : OpenRes
//	core/datasource/std.go   NewInline (-> NewString) -> stringSource.OpenSource     -> srcOpensInline : OpenRes
//	                         NewBuffer -> buffer.OpenSource                          -> srcOpensBuffer : OpenRes
//	                         NewReader -> readerSource.OpenSource, executed on each of its paths
//	                                                                -> srcOpensReader (hasClose hasSeek : Bool) : OpenRes
//	lib/ioutil2/reader.go    NewMultiPassReader, executed on each of its paths: is the source itself returned (read
//	                         once)?                                 -> mprOnce (passes : Nat) (hasSeek : Bool) : Bool
//	core/provider/decoder.go DecodeProvider.Run: the reader given to NewMultiPassReader is what
//	                         p.conf.Source.OpenSource() returned    -> decodeReadsOpened : Bool
//
// Reading of Go used here (trusted): a constructor is followed to the composite literal it returns (through calls of
// other constructors of the package); the value a `return` of OpenSource hands out is classified by go/types:
//   - its static type implements io.Seeker (concrete type with a promoted Seek, an interface that has Seek, a pointer to
//     a struct that embeds an io.ReadSeeker)                                               -> OpenRes.seekable
//   - a local bound by a comma-ok type assertion of the source the value was built from   -> OpenRes.same (the reader
//     itself: it keeps whatever it can do)
//   - a concrete static type without Seek, or io.NopCloser / ioutil.NopCloser(…)          -> OpenRes.plain (Seek hidden)
// conditions: the `ok` of a comma-ok assertion to an interface made of Read plus Close and / or Seek is `hasClose` /
// `hasSeek` of the underlying reader; `passes == 1`; `!x`.  Locals are identified by their binding, not by name.

import (
	"fmt"
	"go/ast"
	"go/token"
	"go/types"
	"strings"

	"golang.org/x/tools/go/packages"
)

type provloopsSrc struct {
	t      *tr
	p      *packages.Package
	seeker *types.Interface
	what   string // "open" (OpenSource) | "mpr" (NewMultiPassReader)
}

type provloopsSrcEnv struct {
	conds map[string]string // ok-ident -> Lean Bool term
	same  map[string]bool   // idents bound to the asserted source itself
}

func (e *provloopsSrcEnv) clone() *provloopsSrcEnv {
	n := &provloopsSrcEnv{conds: map[string]string{}, same: map[string]bool{}}
	for k, v := range e.conds {
		n.conds[k] = v
	}
	for k, v := range e.same {
		n.same[k] = v
	}
	return n
}

func (x *provloopsSrc) src(n ast.Node) string { return provloopsSrcText(x.p, n) }

func (x *provloopsSrc) fail(n ast.Node, format string, a ...any) string {
	msg := fmt.Sprintf("%s: unsupported (provloops data sources): %s", x.p.Fset.Position(n.Pos()), fmt.Sprintf(format, a...))
	x.t.errs = append(x.t.errs, msg)
	return "(UNSUPPORTED)"
}

func provloopsSrcSeeker(p *packages.Package) *types.Interface {
	var find func(tp *types.Package, seen map[string]bool) *types.Interface
	find = func(tp *types.Package, seen map[string]bool) *types.Interface {
		if tp == nil || seen[tp.Path()] {
			return nil
		}
		seen[tp.Path()] = true
		if tp.Path() == "io" {
			if o := tp.Scope().Lookup("Seeker"); o != nil {
				if it, ok := o.Type().Underlying().(*types.Interface); ok {
					return it
				}
			}
			return nil
		}
		for _, im := range tp.Imports() {
			if it := find(im, seen); it != nil {
				return it
			}
		}
		return nil
	}
	return find(p.Types, map[string]bool{})
}

func (x *provloopsSrc) hasSeek(ty types.Type) bool {
	if tu, ok := ty.(*types.Tuple); ok && tu.Len() > 0 {
		ty = tu.At(0).Type()
	}
	if x.seeker != nil {
		return types.Implements(ty, x.seeker)
	}
	ms := types.NewMethodSet(ty)
	return ms.Lookup(nil, "Seek") != nil
}

// assertCond: the `ok` of `v.(T)` for an interface T made of Read plus Close and / or Seek
func (x *provloopsSrc) assertCond(ta *ast.TypeAssertExpr) (string, bool) {
	ty := x.p.TypesInfo.TypeOf(ta.Type)
	if ty == nil {
		return "", false
	}
	it, ok := ty.Underlying().(*types.Interface)
	if !ok {
		return "", false
	}
	var cs []string
	for i := 0; i < it.NumMethods(); i++ {
		switch it.Method(i).Name() {
		case "Read":
		case "Close":
			cs = append(cs, "hasClose")
		case "Seek":
			cs = append(cs, "hasSeek")
		default:
			return "", false
		}
	}
	if len(cs) == 0 {
		return "true", true
	}
	return "(" + strings.Join(cs, " && ") + ")", true
}

// bind: `a, ok := v.(T)`
func (x *provloopsSrc) bind(as *ast.AssignStmt, env *provloopsSrcEnv) bool {
	if as.Tok != token.DEFINE || len(as.Lhs) != 2 || len(as.Rhs) != 1 {
		return false
	}
	ta, ok := provloopsUnparen(as.Rhs[0]).(*ast.TypeAssertExpr)
	if !ok || ta.Type == nil {
		return false
	}
	c, ok := x.assertCond(ta)
	if !ok {
		return false
	}
	okID, ok1 := as.Lhs[1].(*ast.Ident)
	vID, ok2 := as.Lhs[0].(*ast.Ident)
	if !ok1 || !ok2 {
		return false
	}
	env.conds[okID.Name] = c
	delete(env.same, vID.Name)
	if vID.Name != "_" {
		env.same[vID.Name] = true
	}
	return true
}

func (x *provloopsSrc) cond(e ast.Expr, env *provloopsSrcEnv) (string, bool) {
	switch v := provloopsUnparen(e).(type) {
	case *ast.Ident:
		c, ok := env.conds[v.Name]
		return c, ok
	case *ast.UnaryExpr:
		if v.Op == token.NOT {
			c, ok := x.cond(v.X, env)
			return "(!" + c + ")", ok
		}
	case *ast.BinaryExpr:
		if x.what == "mpr" {
			// passes <op> <int literal>
			if id, ok := provloopsUnparen(v.X).(*ast.Ident); ok && id.Name == "passes" {
				if lit, ok := provloopsUnparen(v.Y).(*ast.BasicLit); ok && lit.Kind == token.INT {
					ops := map[token.Token]string{token.EQL: "=", token.NEQ: "≠", token.LSS: "<", token.LEQ: "≤", token.GTR: ">", token.GEQ: "≥"}
					if op, ok := ops[v.Op]; ok {
						if v.Op == token.EQL {
							return "(passes == " + lit.Value + ")", true
						}
						return "(decide (passes " + op + " " + lit.Value + "))", true
					}
				}
			}
		}
		if v.Op == token.LAND || v.Op == token.LOR {
			a, ok1 := x.cond(v.X, env)
			b, ok2 := x.cond(v.Y, env)
			op := " && "
			if v.Op == token.LOR {
				op = " || "
			}
			return "(" + a + op + b + ")", ok1 && ok2
		}
	}
	return "", false
}

// result classifies what a `return` hands out
func (x *provloopsSrc) result(r *ast.ReturnStmt, env *provloopsSrcEnv) string {
	if len(r.Results) == 0 {
		return x.fail(r, "bare return")
	}
	e := provloopsUnparen(r.Results[0])
	if x.what == "mpr" {
		s := x.src(e)
		switch {
		case s == "r":
			return "true"
		case strings.HasPrefix(s, "&MultiPassReader{"):
			return "false"
		}
		return x.fail(r, "NewMultiPassReader returns %s", s)
	}
	ty := x.p.TypesInfo.TypeOf(e)
	if ty == nil {
		return x.fail(r, "no type for %s", x.src(e))
	}
	if tu, ok := ty.(*types.Tuple); ok && tu.Len() > 0 {
		ty = tu.At(0).Type()
	}
	if x.hasSeek(ty) {
		return "OpenRes.seekable"
	}
	switch v := e.(type) {
	case *ast.Ident:
		if env.same[v.Name] {
			return "OpenRes.same"
		}
	case *ast.CallExpr:
		if f := x.src(v.Fun); f == "ioutil.NopCloser" || f == "io.NopCloser" {
			return "OpenRes.plain"
		}
	}
	if !types.IsInterface(ty) {
		return "OpenRes.plain"
	}
	return x.fail(r, "cannot tell whether %s (an interface value without Seek) can be rewound", x.src(e))
}

// exec executes a statement list that ends in a return on every path; the result is a Lean term
func (x *provloopsSrc) exec(stmts []ast.Stmt, env *provloopsSrcEnv) string {
	for i, s := range stmts {
		switch v := s.(type) {
		case *ast.ReturnStmt:
			return x.result(v, env)
		case *ast.AssignStmt:
			if !x.bind(v, env) {
				return x.fail(v, "statement %s", x.src(v))
			}
		case *ast.IfStmt:
			inner := env.clone()
			if v.Init != nil {
				as, ok := v.Init.(*ast.AssignStmt)
				if !ok || !x.bind(as, inner) {
					return x.fail(v, "if-init %s", x.src(v.Init))
				}
			}
			c, ok := x.cond(v.Cond, inner)
			if !ok {
				return x.fail(v, "condition %s", x.src(v.Cond))
			}
			if len(v.Body.List) == 0 {
				return x.fail(v, "empty branch")
			}
			if _, ok := v.Body.List[len(v.Body.List)-1].(*ast.ReturnStmt); !ok {
				return x.fail(v, "a branch that does not return")
			}
			th := x.exec(v.Body.List, inner)
			var rest []ast.Stmt
			switch el := v.Else.(type) {
			case nil:
			case *ast.BlockStmt:
				rest = append(rest, el.List...)
			case *ast.IfStmt:
				rest = append(rest, el)
			}
			rest = append(rest, stmts[i+1:]...)
			return "if " + c + " then " + th + " else " + x.exec(rest, env.clone())
		case *ast.TypeSwitchStmt:
			// switch v := src.(type) { case T1: return …; case T2: return …; default: return … } (+ the statements after it)
			return x.typeSwitch(v, stmts[i+1:], env)
		default:
			return x.fail(s, "statement %s", x.src(s))
		}
	}
	if len(stmts) == 0 {
		return x.fail(x.p.Syntax[0], "a path without return")
	}
	return x.fail(stmts[len(stmts)-1], "a path without return")
}

// typeSwitch: the clauses are tried in order; a clause with one interface type binds the switch variable to the source itself
func (x *provloopsSrc) typeSwitch(ts *ast.TypeSwitchStmt, rest []ast.Stmt, env *provloopsSrcEnv) string {
	if ts.Init != nil {
		return x.fail(ts, "type switch with an init statement")
	}
	bound := ""
	var ta *ast.TypeAssertExpr
	switch a := ts.Assign.(type) {
	case *ast.AssignStmt:
		if len(a.Lhs) == 1 && len(a.Rhs) == 1 {
			if id, ok := a.Lhs[0].(*ast.Ident); ok {
				bound = id.Name
			}
			ta, _ = provloopsUnparen(a.Rhs[0]).(*ast.TypeAssertExpr)
		}
	case *ast.ExprStmt:
		ta, _ = provloopsUnparen(a.X).(*ast.TypeAssertExpr)
	}
	if ta == nil {
		return x.fail(ts, "type switch %s", x.src(ts.Assign))
	}
	var def *ast.CaseClause
	out, closeParens := "", 0
	for _, c := range ts.Body.List {
		cc := c.(*ast.CaseClause)
		if cc.List == nil {
			def = cc
			continue
		}
		if len(cc.List) != 1 {
			return x.fail(cc, "a clause with several types")
		}
		cond, ok := x.assertCond(&ast.TypeAssertExpr{X: ta.X, Type: cc.List[0]})
		if !ok {
			return x.fail(cc, "clause type %s", x.src(cc.List[0]))
		}
		if len(cc.Body) == 0 {
			return x.fail(cc, "empty clause")
		}
		if _, ok := cc.Body[len(cc.Body)-1].(*ast.ReturnStmt); !ok {
			return x.fail(cc, "a clause that does not return")
		}
		inner := env.clone()
		if bound != "" {
			inner.same[bound] = true
		}
		out += "if " + cond + " then " + x.exec(cc.Body, inner) + " else ("
		closeParens++
	}
	var tail []ast.Stmt
	if def != nil {
		tail = append(tail, def.Body...)
	}
	tail = append(tail, rest...)
	inner := env.clone()
	out += x.exec(tail, inner)
	return out + strings.Repeat(")", closeParens)
}

// ctorType follows a constructor to the named type of the composite literal it returns
func (x *provloopsSrc) ctorType(name string, depth int) string {
	fd := provloopsMethod(x.p, "", name)
	if fd == nil || fd.Body == nil || len(fd.Body.List) == 0 || depth > 4 {
		return ""
	}
	ret, ok := fd.Body.List[len(fd.Body.List)-1].(*ast.ReturnStmt)
	if !ok || len(ret.Results) != 1 {
		return ""
	}
	e := provloopsUnparen(ret.Results[0])
	if u, ok := e.(*ast.UnaryExpr); ok && u.Op == token.AND {
		e = u.X
	}
	switch v := e.(type) {
	case *ast.CompositeLit:
		ty := x.p.TypesInfo.TypeOf(v)
		if n, ok := ty.(*types.Named); ok {
			return n.Obj().Name()
		}
	case *ast.CallExpr:
		if id, ok := v.Fun.(*ast.Ident); ok {
			return x.ctorType(id.Name, depth+1)
		}
	}
	return ""
}

func (x *provloopsSrc) opens(ctor string) string {
	tn := x.ctorType(ctor, 0)
	if tn == "" {
		return x.fail(x.p.Syntax[0], "datasource.%s does not return a composite literal of a named type", ctor)
	}
	fd := provloopsMethod(x.p, tn, "OpenSource")
	if fd == nil || fd.Body == nil {
		return x.fail(x.p.Syntax[0], "%s (built by %s) has no OpenSource method", tn, ctor)
	}
	x.what = "open"
	return x.exec(fd.Body.List, &provloopsSrcEnv{conds: map[string]string{}, same: map[string]bool{}})
}

func provloopsSources(t *tr, load func(string) *packages.Package) string {
	var b strings.Builder
	b.WriteString(provloopsBoundTypes(t, load))
	{
		p := load("github.com/yandex/pandora/core/datasource")
		x := &provloopsSrc{t: t, p: p, seeker: provloopsSrcSeeker(p)}
		if x.seeker == nil {
			x.fail(p.Syntax[0], "io.Seeker not found among the imports of core/datasource")
		}
		fmt.Fprintf(&b, "/-- regenerated from `core/datasource/file.go`: what `OpenSource` of the source built by NewFile hands out -/\ndef srcOpensFile : OpenRes := %s\n\n", x.opens("NewFile"))
		fmt.Fprintf(&b, "/-- regenerated from `core/datasource/std.go`: … of the source built by NewInline (`source: {type: inline}`) -/\ndef srcOpensInline : OpenRes := %s\n\n", x.opens("NewInline"))
		fmt.Fprintf(&b, "/-- … of the source built by NewBuffer -/\ndef srcOpensBuffer : OpenRes := %s\n\n", x.opens("NewBuffer"))
		fmt.Fprintf(&b, "/-- … of the source built by NewReader, path by path (`hasClose` / `hasSeek`: the reader it was built from has a Close / a Seek method) -/\n"+
			"def srcOpensReader (hasClose hasSeek : Bool) : OpenRes := %s\n\n", x.opens("NewReader"))
	}
	{
		p := load("github.com/yandex/pandora/lib/ioutil2")
		x := &provloopsSrc{t: t, p: p, what: "mpr"}
		body := ""
		if fd := provloopsMethod(p, "", "NewMultiPassReader"); fd == nil || fd.Body == nil {
			body = x.fail(p.Syntax[0], "NewMultiPassReader not found")
		} else {
			body = x.exec(fd.Body.List, &provloopsSrcEnv{conds: map[string]string{}, same: map[string]bool{}})
		}
		fmt.Fprintf(&b, "/-- regenerated from `lib/ioutil2/reader.go` NewMultiPassReader, path by path: the source itself is returned (it is read once) when …\n(`hasSeek`: the source is an io.ReadSeeker) -/\n"+
			"def mprOnce (passes : Nat) (hasSeek : Bool) : Bool := %s\n\n", body)
	}
	{
		p := load("github.com/yandex/pandora/core/provider")
		x := &provloopsSrc{t: t, p: p}
		ok := false
		if fd := provloopsMethod(p, "DecodeProvider", "Run"); fd != nil {
			bound := map[string]bool{} // locals bound to the result of p.conf.Source.OpenSource()
			ast.Inspect(fd, func(n ast.Node) bool {
				switch v := n.(type) {
				case *ast.AssignStmt:
					if len(v.Rhs) == 1 && len(v.Lhs) >= 1 && x.src(v.Rhs[0]) == "p.conf.Source.OpenSource()" {
						if id, isID := v.Lhs[0].(*ast.Ident); isID {
							bound[id.Name] = true
						}
					}
				case *ast.CallExpr:
					if x.src(v.Fun) == "ioutil2.NewMultiPassReader" && len(v.Args) == 2 {
						if id, isID := v.Args[0].(*ast.Ident); isID && bound[id.Name] {
							ok = true
						}
					}
				}
				return true
			})
		}
		fmt.Fprintf(&b, "/-- regenerated from `core/provider/decoder.go` DecodeProvider.Run: the reader given to NewMultiPassReader is what p.conf.Source.OpenSource() returned, as it is -/\n"+
			"def decodeReadsOpened : Bool := %v\n\n", ok)
	}
	return b.String()
}

// provloopsNumTy: the Go type of a struct field as a GoNum
func provloopsNumTy(t *tr, p *packages.Package, structName, field string) string {
	obj := p.Types.Scope().Lookup(structName)
	if obj != nil {
		if st, ok := obj.Type().Underlying().(*types.Struct); ok {
			for i := 0; i < st.NumFields(); i++ {
				if st.Field(i).Name() != field {
					continue
				}
				if b, ok := st.Field(i).Type().(*types.Basic); ok {
					switch b.Kind() {
					case types.Uint, types.Uint64:
						return "GoNum.uint"
					case types.Int, types.Int64:
						return "GoNum.int"
					}
				}
				return "GoNum.other"
			}
		}
	}
	t.errs = append(t.errs, fmt.Sprintf("provloops: field %s.%s of %s not found", structName, field, p.PkgPath))
	return "(UNSUPPORTED)"
}

// provloopsBoundTypes: the Go types of the limit / passes options of every provider family and of the decoders' counters
func provloopsBoundTypes(t *tr, load func(string) *packages.Package) string {
	var b strings.Builder
	pair := func(name, doc string, p *packages.Package, st, f1, f2 string) {
		fmt.Fprintf(&b, "/-- regenerated: the Go types of %s -/\ndef %s : GoNum × GoNum := (%s, %s)\n\n", doc, name,
			provloopsNumTy(t, p, st, f1), provloopsNumTy(t, p, st, f2))
	}
	pair("httpOptTy", "`Limit`, `Passes` of components/providers/http/config.Config (64-bit platforms: uint = uint64)",
		load("github.com/yandex/pandora/components/providers/http/config"), "Config", "Limit", "Passes")
	pair("httpDecCtrTy", "the counters `ammoNum`, `passNum` of decoders.protoDecoder, which the streaming decoders compare with them",
		load("github.com/yandex/pandora/components/providers/http/decoders"), "protoDecoder", "ammoNum", "passNum")
	pair("scenarioOptTy", "`Limit`, `Passes` of scenario.ProviderConfig",
		load("github.com/yandex/pandora/components/providers/scenario"), "ProviderConfig", "Limit", "Passes")
	pair("grpcOptTy", "`Limit`, `Passes` of grpcjson.Config",
		load("github.com/yandex/pandora/components/providers/grpc/grpcjson"), "Config", "Limit", "Passes")
	pair("decodeOptTy", "`Limit`, `Passes` of core/provider.DecodeProviderConfig",
		load("github.com/yandex/pandora/core/provider"), "DecodeProviderConfig", "Limit", "Passes")
	return b.String()
}
