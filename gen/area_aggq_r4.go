package main

// Area "aggq", part 4 (C06 round 4).
//
// (a) Canonical order for what has no order in the source:
//
//   - a run of adjacent SIMPLE statements — assignments, `x++`/`x--`, `var` declarations — that contain no call
//     (append/len/cap and conversions aside), no channel operation and no function literal, none of which writes
//     what another one reads or writes (paths `x.f.g` rooted at the same object, one a prefix of the other):
//     such statements commute, so `ah.runRes = nil; ah.toWait--` and `ah.toWait--; ah.runRes = nil` give the
//     same skeleton. Statements of a run that do depend on each other keep their relative order (the canonical
//     order is the topological order in which, among the statements whose predecessors are out, the one with the
//     smallest text — local names masked — comes first).
//   - the cases of an expression switch whose case values are all compile-time constants and whose bodies do
//     not `fallthrough`: which of them is written first does not matter (at most one matches).
//
// (b) the helpers the anchored files hand every sample / every byte through (netsample.WrapAggregator's Report,
// lib/ioutil2.NewCallbackWriter, coreutil.ReturnSampleIfBorrowed, coreutil.BufferSizeOrDefault + its constants,
// lib/errutil.IsCtxError), the rest of the pool's start-up path (buildNewInstanceSchedule, warmUpGun, newInstance,
// newAwaitRunHandle, newPool, NewEncoderAggregator), as control skeletons.
//
// (c) option handling: for the config structs of the two aggregators and the file sink the table
// (Go field, option name as the config decoder sees it, `validate` tag), the values of the default-config
// constructors that matter for the queue, and what core/import registers under the names "phout", "jsonlines",
// "json" (aggregators) and "file" (data sink): constructor and default-config function.

import (
	"fmt"
	"go/ast"
	"go/constant"
	"go/token"
	"go/types"
	"reflect"
	"sort"
	"strings"

	"golang.org/x/tools/go/packages"
)

// ---- (a) independent simple statements

type aggqEffects struct {
	ok     bool     // a simple statement without calls / channel operations
	writes []string // paths written
	reads  []string // paths read (and written)
}

func aggqObjKey(obj types.Object) string {
	return fmt.Sprintf("%s@%d", obj.Name(), obj.Pos())
}

// aggqPathOf: `x`, `x.f`, `x.f.g` … rooted at a variable → "x@pos.f.g"; ok=false for anything else
func aggqPathOf(info *types.Info, e ast.Expr) (string, bool) {
	switch x := e.(type) {
	case *ast.ParenExpr:
		return aggqPathOf(info, x.X)
	case *ast.Ident:
		obj := info.Uses[x]
		if obj == nil {
			obj = info.Defs[x]
		}
		if v, ok := obj.(*types.Var); ok {
			return aggqObjKey(v), true
		}
		return "", false
	case *ast.SelectorExpr:
		if sel, ok := info.Selections[x]; ok && sel.Kind() == types.FieldVal {
			if base, ok := aggqPathOf(info, x.X); ok {
				return base + "." + x.Sel.Name, true
			}
			return "", false
		}
		// a qualified identifier: pkg.Var
		if v, ok := info.Uses[x.Sel].(*types.Var); ok {
			return aggqObjKey(v), true
		}
	}
	return "", false
}

// aggqReadPaths: every maximal path read by the expression; pure=false when it contains a call (other than
// append/len/cap/conversions), a receive, or a function literal
func aggqReadPaths(info *types.Info, e ast.Node, out *[]string) (pure bool) {
	pure = true
	var walk func(n ast.Node)
	walk = func(n ast.Node) {
		if n == nil || !pure {
			return
		}
		switch x := n.(type) {
		case *ast.FuncLit:
			pure = false
			return
		case *ast.UnaryExpr:
			if x.Op == token.ARROW {
				pure = false
				return
			}
		case *ast.CallExpr:
			tv, ok := info.Types[x.Fun]
			isConv := ok && tv.IsType()
			isBuiltin := false
			if id, isID := x.Fun.(*ast.Ident); isID && ok && tv.IsBuiltin() {
				switch id.Name {
				case "append", "len", "cap":
					isBuiltin = true
				}
			}
			if !isConv && !isBuiltin {
				pure = false
				return
			}
			for _, a := range x.Args {
				walk(a)
			}
			return
		case *ast.Ident, *ast.SelectorExpr:
			if p, ok := aggqPathOf(info, x.(ast.Expr)); ok {
				*out = append(*out, p)
				return
			}
			if sel, isSel := x.(*ast.SelectorExpr); isSel {
				walk(sel.X)
			}
			return
		}
		ast.Inspect(n, func(c ast.Node) bool {
			if c == n {
				return true
			}
			if c == nil {
				return false
			}
			walk(c)
			return false
		})
	}
	walk(e)
	return pure
}

func aggqStmtEffects(info *types.Info, st ast.Stmt) aggqEffects {
	var ef aggqEffects
	lhsWrite := func(l ast.Expr) bool {
		switch x := l.(type) {
		case *ast.Ident:
			if x.Name == "_" {
				return true
			}
		case *ast.StarExpr:
			return false // a write through a pointer: anything may alias it
		case *ast.IndexExpr:
			if !aggqReadPaths(info, x.Index, &ef.reads) {
				return false
			}
			if p, ok := aggqPathOf(info, x.X); ok {
				ef.writes = append(ef.writes, p)
				return true
			}
			return false
		}
		if p, ok := aggqPathOf(info, l); ok {
			ef.writes = append(ef.writes, p)
			return true
		}
		return false
	}
	switch x := st.(type) {
	case *ast.AssignStmt:
		for _, r := range x.Rhs {
			if !aggqReadPaths(info, r, &ef.reads) {
				return aggqEffects{}
			}
		}
		for _, l := range x.Lhs {
			if !lhsWrite(l) {
				return aggqEffects{}
			}
		}
		if x.Tok != token.ASSIGN && x.Tok != token.DEFINE {
			ef.reads = append(ef.reads, ef.writes...) // x += y
		}
	case *ast.IncDecStmt:
		if !lhsWrite(x.X) {
			return aggqEffects{}
		}
		ef.reads = append(ef.reads, ef.writes...)
	case *ast.DeclStmt:
		gd, ok := x.Decl.(*ast.GenDecl)
		if !ok || gd.Tok != token.VAR {
			return aggqEffects{}
		}
		for _, sp := range gd.Specs {
			vs, ok := sp.(*ast.ValueSpec)
			if !ok {
				return aggqEffects{}
			}
			for _, v := range vs.Values {
				if !aggqReadPaths(info, v, &ef.reads) {
					return aggqEffects{}
				}
			}
			for _, nm := range vs.Names {
				if !lhsWrite(nm) {
					return aggqEffects{}
				}
			}
		}
	default:
		return aggqEffects{}
	}
	ef.ok = true
	return ef
}

func aggqPathsOverlap(a, b string) bool {
	return a == b || strings.HasPrefix(a, b+".") || strings.HasPrefix(b, a+".")
}

func aggqConflict(a, b aggqEffects) bool {
	for _, w := range a.writes {
		for _, p := range append(append([]string(nil), b.reads...), b.writes...) {
			if aggqPathsOverlap(w, p) {
				return true
			}
		}
	}
	for _, w := range b.writes {
		for _, p := range a.reads {
			if aggqPathsOverlap(w, p) {
				return true
			}
		}
	}
	return false
}

// aggqIsCtxDerive: `child, cancel := context.WithX(parent…)` — rendered as ctx(…), never part of a run
func (s *aggqSkel) aggqIsCtxDerive(st ast.Stmt) bool {
	x, ok := st.(*ast.AssignStmt)
	if !ok || len(x.Lhs) != 2 || len(x.Rhs) != 1 {
		return false
	}
	c, ok := x.Rhs[0].(*ast.CallExpr)
	return ok && strings.HasPrefix(s.src(c.Fun), "context.With")
}

// aggqPureRun: the length of the maximal run of simple, call-free statements that starts at list[i]
func (s *aggqSkel) aggqPureRun(list []ast.Stmt, i int) (int, []aggqEffects) {
	var efs []aggqEffects
	n := 0
	for ; i+n < len(list); n++ {
		if s.aggqIsCtxDerive(list[i+n]) {
			break
		}
		ef := aggqStmtEffects(s.t.pkg.TypesInfo, list[i+n])
		if !ef.ok {
			break
		}
		efs = append(efs, ef)
	}
	return n, efs
}

// aggqEmitRun: the statements of a run in canonical order
func (s *aggqSkel) aggqEmitRun(list []ast.Stmt, efs []aggqEffects) []string {
	n := len(list)
	texts := make([][]string, n)
	keys := make([]string, n)
	for i, st := range list {
		texts[i] = s.stmt(st)
		keys[i] = aggqPlaceholderRe.ReplaceAllString(strings.Join(texts[i], " "), "@")
	}
	done := make([]bool, n)
	var out []string
	for k := 0; k < n; k++ {
		best := -1
		for i := 0; i < n; i++ {
			if done[i] {
				continue
			}
			ready := true
			for j := 0; j < i; j++ {
				if !done[j] && aggqConflict(efs[j], efs[i]) {
					ready = false
					break
				}
			}
			if ready && (best < 0 || keys[i] < keys[best]) {
				best = i
			}
		}
		done[best] = true
		out = append(out, texts[best]...)
	}
	return out
}

// aggqSwitchUnordered: an expression switch over constant case values without fallthrough
func (s *aggqSkel) aggqSwitchUnordered(x *ast.SwitchStmt) bool {
	if x.Tag == nil {
		return false
	}
	info := s.t.pkg.TypesInfo
	for _, c := range x.Body.List {
		cc := c.(*ast.CaseClause)
		for _, e := range cc.List {
			if tv, ok := info.Types[e]; !ok || tv.Value == nil {
				return false
			}
		}
		for _, b := range cc.Body {
			if br, ok := b.(*ast.BranchStmt); ok && br.Tok == token.FALLTHROUGH {
				return false
			}
		}
	}
	return true
}

// ---- (b), (c)

func aggqPkgConstNat(p *packages.Package, name string) (int64, bool) {
	c, ok := p.Types.Scope().Lookup(name).(*types.Const)
	if !ok {
		return 0, false
	}
	v := constant.ToInt(c.Val())
	if v.Kind() != constant.Int {
		return 0, false
	}
	return constant.Int64Val(v)
}

// aggqFieldTable: (Go field, option name, validate tag) of a struct type; embedded / squashed structs are
// flattened (prefix "<Field>." in the Go name). The option name follows core/config's decoder: the `config` tag's
// name, else the field name lower-cased (mapstructure matches names case-insensitively).
func aggqFieldTable(st *types.Struct, prefix string, out *[][3]string) {
	for i := 0; i < st.NumFields(); i++ {
		f := st.Field(i)
		tag := reflect.StructTag(st.Tag(i))
		conf := tag.Get("config")
		name, opts, _ := strings.Cut(conf, ",")
		squash := false
		for _, o := range strings.Split(opts, ",") {
			if o == "squash" {
				squash = true
			}
		}
		if squash {
			if inner, ok := f.Type().Underlying().(*types.Struct); ok {
				aggqFieldTable(inner, prefix+f.Name()+".", out)
				continue
			}
		}
		if name == "" {
			name = strings.ToLower(f.Name())
		}
		*out = append(*out, [3]string{prefix + f.Name(), name, tag.Get("validate")})
	}
}

func aggqEmitFieldTable(b *strings.Builder, t *tr, p *packages.Package, leanName, typeName string) {
	obj := p.Types.Scope().Lookup(typeName)
	var rows [][3]string
	if obj != nil {
		if st, ok := obj.Type().Underlying().(*types.Struct); ok {
			aggqFieldTable(st, "", &rows)
		}
	}
	if len(rows) == 0 {
		t.errs = append(t.errs, fmt.Sprintf("%s: struct type %s not found", p.PkgPath, typeName))
	}
	fmt.Fprintf(b, "/-- regenerated: options of `%s.%s` as (Go field, option name, validate tag); squashed structs flattened -/\ndef %s : List (String × String × String) :=\n  [", p.Name, typeName, leanName)
	for i, r := range rows {
		if i > 0 {
			b.WriteString(", ")
		}
		fmt.Fprintf(b, "(%s, %s, %s)", aggqLeanStr(r[0]), aggqLeanStr(r[1]), aggqLeanStr(r[2]))
	}
	b.WriteString("]\n\n")
}

// aggqDefaultInts: the integer-valued fields (constants) of the struct literal a default-config constructor
// returns, nested literals flattened: [("SampleQueueSize", 262144), ("Buffer.BufferSize", 8000000), …]; a field set
// by a call (`ReporterConfig: DefaultReporterConfig()`) is listed as ("<Field>=<callee>", 0)
func aggqDefaultInts(t *tr, p *packages.Package, fn string) [][2]string {
	fd := aggqFindMethod(p, "", fn)
	var rows [][2]string
	if fd == nil || fd.Body == nil {
		t.errs = append(t.errs, fmt.Sprintf("%s: func %s not found", p.PkgPath, fn))
		return nil
	}
	t2 := &tr{pkg: p, known: map[string]string{}}
	var lit func(cl *ast.CompositeLit, prefix string)
	lit = func(cl *ast.CompositeLit, prefix string) {
		for _, el := range cl.Elts {
			kv, ok := el.(*ast.KeyValueExpr)
			if !ok {
				continue
			}
			k, ok := kv.Key.(*ast.Ident)
			if !ok {
				continue
			}
			switch v := kv.Value.(type) {
			case *ast.CompositeLit:
				lit(v, prefix+k.Name+".")
				continue
			case *ast.CallExpr:
				if tv, ok := p.TypesInfo.Types[v]; !ok || tv.Value == nil {
					rows = append(rows, [2]string{prefix + k.Name + "=" + phoutSrc(t2, v.Fun), "0"})
					continue
				}
			}
			if tv, ok := p.TypesInfo.Types[kv.Value]; ok && tv.Value != nil {
				if c := constant.ToInt(tv.Value); c.Kind() == constant.Int {
					if n, exact := constant.Int64Val(c); exact {
						rows = append(rows, [2]string{prefix + k.Name, fmt.Sprint(n)})
					}
				}
			}
		}
	}
	ast.Inspect(fd.Body, func(n ast.Node) bool {
		if r, ok := n.(*ast.ReturnStmt); ok && len(r.Results) == 1 {
			if cl, ok := r.Results[0].(*ast.CompositeLit); ok {
				lit(cl, "")
			}
		}
		return true
	})
	sort.SliceStable(rows, func(i, j int) bool { return rows[i][0] < rows[j][0] })
	return rows
}

func aggqEmitDefaults(b *strings.Builder, t *tr, p *packages.Package, leanName, fn string) {
	rows := aggqDefaultInts(t, p, fn)
	fmt.Fprintf(b, "/-- regenerated: the constant integer fields of the literal `%s.%s` returns (sorted by field) -/\ndef %s : List (String × Int) :=\n  [", p.Name, fn, leanName)
	for i, r := range rows {
		if i > 0 {
			b.WriteString(", ")
		}
		fmt.Fprintf(b, "(%s, %s)", aggqLeanStr(r[0]), r[1])
	}
	b.WriteString("]\n\n")
}

// aggqRegistrations: `register.Aggregator("name", ctor, default…)` / `register.DataSink(…)` calls of core/import.Import:
// (kind, name, constructor, default-config function); a constructor that is a function literal is given by its skeleton
func aggqRegistrations(b *strings.Builder, t *tr) {
	p := load("github.com/yandex/pandora/core/import")
	t2 := &tr{pkg: p, known: map[string]string{}}
	fd := aggqFindMethod(p, "", "Import")
	type reg struct{ kind, name, ctor, def string }
	var regs []reg
	if fd == nil || fd.Body == nil {
		t.errs = append(t.errs, "core/import: func Import not found")
	} else {
		ast.Inspect(fd.Body, func(n ast.Node) bool {
			c, ok := n.(*ast.CallExpr)
			if !ok || len(c.Args) < 2 {
				return true
			}
			callee := phoutSrc(t2, c.Fun)
			if callee != "register.Aggregator" && callee != "register.DataSink" {
				return true
			}
			name := ""
			if tv, ok := p.TypesInfo.Types[c.Args[0]]; ok && tv.Value != nil && tv.Value.Kind() == constant.String {
				name = constant.StringVal(tv.Value)
			}
			switch name {
			case "phout", "jsonlines", "json", "file":
			default:
				return true
			}
			ctor := ""
			if fl, ok := c.Args[1].(*ast.FuncLit); ok {
				s := &aggqSkel{t: t2}
				ctor = aggqRenumber(s.csrc(fl.Type) + " " + s.block(fl.Body.List))
			} else {
				ctor = phoutSrc(t2, c.Args[1])
			}
			def := ""
			if len(c.Args) >= 3 {
				def = phoutSrc(t2, c.Args[2])
			}
			regs = append(regs, reg{strings.TrimPrefix(callee, "register."), name, ctor, def})
			return true
		})
	}
	sort.SliceStable(regs, func(i, j int) bool { return regs[i].kind+regs[i].name < regs[j].kind+regs[j].name })
	b.WriteString("/-- regenerated from `core/import.Import`: (kind, plugin name, constructor — a function literal as its skeleton —, default-config function) for the result plugins -/\n")
	b.WriteString("def importRegistrations : List (String × String × String × String) :=\n  [")
	for i, r := range regs {
		if i > 0 {
			b.WriteString(",\n   ")
		}
		fmt.Fprintf(b, "(%s, %s, %s, %s)", aggqLeanStr(r.kind), aggqLeanStr(r.name), aggqLeanStr(r.ctor), aggqLeanStr(r.def))
	}
	b.WriteString("]\n\n")
	t.errs = append(t.errs, t2.errs...)
}

func aggqRound4Facts(b *strings.Builder, t *tr) {
	// ---- helpers every sample / byte goes through
	{
		p := load("github.com/yandex/pandora/core/aggregator/netsample")
		t2 := &tr{pkg: p, known: map[string]string{}}
		aggqEmit(b, t2, "wrapReport", "aggregatorWrapper", "Report", "core/aggregator/netsample/aggregator.go")
		aggqEmit(b, t2, "wrapAggregator", "", "WrapAggregator", "core/aggregator/netsample/aggregator.go")
		aggqEmitFieldTable(b, t2, p, "phoutConfigFields", "PhoutConfig")
		aggqEmitDefaults(b, t2, p, "phoutDefaults", "DefaultPhoutConfig")
		// the representation of the ten numeric fields of a sample
		{
			elem, n := "<missing>", int64(-1)
			if obj, ok := p.Types.Scope().Lookup("Sample").(*types.TypeName); ok {
				if st, ok := obj.Type().Underlying().(*types.Struct); ok {
					for i := 0; i < st.NumFields(); i++ {
						if st.Field(i).Name() != "fields" {
							continue
						}
						if arr, ok := st.Field(i).Type().Underlying().(*types.Array); ok {
							elem, n = types.TypeString(arr.Elem(), nil), arr.Len()
						}
					}
				}
			}
			if n < 0 {
				t.errs = append(t.errs, "core/aggregator/netsample/sample.go: Sample has no array field `fields`")
				n = 0
			}
			fmt.Fprintf(b, "/-- regenerated: element type and length of `Sample.fields` -/\ndef sampleFieldsElem : String := %s\ndef sampleFieldsLen : Nat := %d\n\n", aggqLeanStr(elem), n)
		}
		t.errs = append(t.errs, t2.errs...)
	}
	{
		p := load("github.com/yandex/pandora/lib/ioutil2")
		t2 := &tr{pkg: p, known: map[string]string{}}
		aggqEmit(b, t2, "callbackWriter", "", "NewCallbackWriter", "lib/ioutil2/writer.go")
		t.errs = append(t.errs, t2.errs...)
	}
	{
		p := load("github.com/yandex/pandora/core/coreutil")
		t2 := &tr{pkg: p, known: map[string]string{}}
		aggqEmit(b, t2, "returnIfBorrowed", "", "ReturnSampleIfBorrowed", "core/coreutil/sample.go")
		aggqEmit(b, t2, "bufferSizeOrDefault", "BufferSizeConfig", "BufferSizeOrDefault", "core/coreutil/buffer_size_config.go")
		// the shared rps schedule's wrapper: when and how often the on-finish callback is called
		aggqEmit(b, t2, "newCallbackSchedule", "", "NewCallbackOnFinishSchedule", "core/coreutil/schedule.go")
		aggqEmit(b, t2, "callbackScheduleNext", "callbackOnFinishSchedule", "Next", "core/coreutil/schedule.go")
		aggqEmit(b, t2, "callbackScheduleLeft", "callbackOnFinishSchedule", "Left", "core/coreutil/schedule.go")
		for _, c := range [][2]string{{"DefaultBufferSize", "bufferDefaultSize"}, {"MinimalBufferSize", "bufferMinimalSize"}} {
			v, ok := aggqPkgConstNat(p, c[0])
			if !ok {
				t.errs = append(t.errs, "core/coreutil: constant "+c[0]+" not found")
			}
			fmt.Fprintf(b, "def %s : Nat := %d\n", c[1], v)
		}
		b.WriteString("\n")
		t.errs = append(t.errs, t2.errs...)
	}
	{
		p := load("github.com/yandex/pandora/lib/errutil")
		t2 := &tr{pkg: p, known: map[string]string{}}
		aggqEmit(b, t2, "isCtxError", "", "IsCtxError", "lib/errutil/errutil.go")
		t.errs = append(t.errs, t2.errs...)
	}
	{
		p := load("github.com/yandex/pandora/core/engine")
		t2 := &tr{pkg: p, known: map[string]string{}}
		aggqEmit(b, t2, "engineBuildSchedule", "instancePool", "buildNewInstanceSchedule", "core/engine/engine.go")
		// what the shared schedule's on-finish callback does with buildNewInstanceSchedule's parameters
		{
			text := "<missing>"
			if fd := aggqFindMethod(p, "instancePool", "buildNewInstanceSchedule"); fd != nil && fd.Body != nil {
				sk := &aggqSkel{t: t2}
				sig := sk.csrc(fd.Type)
				ast.Inspect(fd.Body, func(n ast.Node) bool {
					c, ok := n.(*ast.CallExpr)
					if !ok || !strings.HasSuffix(phoutSrc(t2, c.Fun), "NewCallbackOnFinishSchedule") {
						return true
					}
					for _, a := range c.Args {
						if fl, isLit := a.(*ast.FuncLit); isLit {
							text = aggqRenumber(sig + " onfinish" + sk.block(fl.Body.List))
						}
					}
					return true
				})
			}
			if text == "<missing>" {
				t.errs = append(t.errs, "core/engine/engine.go: buildNewInstanceSchedule passes no function literal to NewCallbackOnFinishSchedule")
			}
			fmt.Fprintf(b, "/-- regenerated from `buildNewInstanceSchedule`: its signature and the body of the callback it hands to `coreutil.NewCallbackOnFinishSchedule` -/\ndef engineScheduleFinish : String :=\n  %s\n\n", aggqLeanStr(text))
		}
		aggqEmit(b, t2, "engineWarmUpGun", "instancePool", "warmUpGun", "core/engine/engine.go")
		aggqEmit(b, t2, "engineNewInstance", "", "newInstance", "core/engine/instance.go")
		aggqEmit(b, t2, "engineNewAwaitRunHandle", "instancePool", "newAwaitRunHandle", "core/engine/engine.go")
		aggqEmit(b, t2, "engineNewPool", "", "newPool", "core/engine/engine.go")
		t.errs = append(t.errs, t2.errs...)
	}
	// ---- options
	aggqEmit(b, t, "newEncoderAggregator", "", "NewEncoderAggregator", "core/aggregator/encoder.go")
	aggqEmitFieldTable(b, t, t.pkg, "jsonlinesConfigFields", "JSONLineAggregatorConfig")
	aggqEmitDefaults(b, t, t.pkg, "reporterDefaults", "DefaultReporterConfig")
	aggqEmitDefaults(b, t, t.pkg, "encoderDefaults", "DefaultEncoderAggregatorConfig")
	aggqEmitDefaults(b, t, t.pkg, "jsonlinesDefaults", "DefaultJSONLinesAggregatorConfig")
	{
		p := load("github.com/yandex/pandora/core/datasink")
		t2 := &tr{pkg: p, known: map[string]string{}}
		aggqEmitFieldTable(b, t2, p, "fileSinkConfigFields", "FileConfig")
		t.errs = append(t.errs, t2.errs...)
	}
	aggqRegistrations(b, t)
}

// ---- (d) how NewPhout opens its destination

// aggqFsOpenCall: `x.Create(p)` / `x.OpenFile(p, flags, perm)` where x is an afero.Fs → the receiver's text
func (s *aggqSkel) aggqFsOpenCall(c *ast.CallExpr) (string, bool) {
	sel, ok := c.Fun.(*ast.SelectorExpr)
	if !ok {
		return "", false
	}
	if !(sel.Sel.Name == "Create" && len(c.Args) == 1) && !(sel.Sel.Name == "OpenFile" && len(c.Args) == 3) {
		return "", false
	}
	ty := s.t.pkg.TypesInfo.TypeOf(sel.X)
	if ty == nil || !(strings.HasSuffix(types.TypeString(ty, nil), "afero.Fs") || strings.HasSuffix(types.TypeString(ty, nil), "afero.Afero")) {
		return "", false
	}
	return s.csrc(sel.X), true
}

// aggqOpenFlagsOf: the flags and permission the function opens a file with through an afero.Fs (n = how many such
// calls it has). `Fs.Create(name)` is documented (afero, like os.Create) as OpenFile(name, O_RDWR|O_CREATE|O_TRUNC, 0666).
func aggqOpenFlagsOf(t *tr, p *packages.Package, fd *ast.FuncDecl) (flags, perm int64, n int) {
	osConst := func(name string) int64 {
		for _, imp := range p.Types.Imports() {
			if imp.Path() != "os" {
				continue
			}
			if c, ok := imp.Scope().Lookup(name).(*types.Const); ok {
				v, _ := constant.Int64Val(constant.ToInt(c.Val()))
				return v
			}
		}
		return -1
	}
	flags, perm = -1, -1
	if fd == nil || fd.Body == nil {
		return
	}
	sk := &aggqSkel{t: t}
	ast.Inspect(fd.Body, func(nd ast.Node) bool {
		c, ok := nd.(*ast.CallExpr)
		if !ok {
			return true
		}
		if _, isOpen := sk.aggqFsOpenCall(c); !isOpen {
			return true
		}
		n++
		if len(c.Args) == 1 {
			rd, cr, tr := osConst("O_RDWR"), osConst("O_CREATE"), osConst("O_TRUNC")
			if rd >= 0 && cr >= 0 && tr >= 0 {
				flags, perm = rd|cr|tr, 0o666
			}
		} else {
			if v, ok := aggqConst(t, p, c.Args[1]); ok {
				flags = v
			}
			if v, ok := aggqConst(t, p, c.Args[2]); ok {
				perm = v
			}
		}
		return true
	})
	return
}

// aggqPhoutOpenFlags: the flags NewPhout's destination is opened with
func aggqPhoutOpenFlags(b *strings.Builder, t *tr, p *packages.Package) {
	flags, _, n := aggqOpenFlagsOf(t, p, aggqFindMethod(p, "", "NewPhout"))
	if n != 1 || flags < 0 {
		t.errs = append(t.errs, fmt.Sprintf("core/aggregator/netsample/phout.go: NewPhout opens its destination %d times through the afero.Fs with constant flags (want once)", n))
		flags = 0
	}
	fmt.Fprintf(b, "/-- regenerated: the flags `NewPhout` opens its destination with (`Fs.Create` = O_RDWR|O_CREATE|O_TRUNC) -/\ndef phoutOpenFlags : Nat := %d\n\n", flags)
}
