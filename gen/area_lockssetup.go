package main

// Area "locks", round 6 (property C11): WHO calls the methods that gen/area_locks.go takes as set-up only.
//
// lockTargets declares for a few shared objects methods "that only run before instances start" (`setup`:
// `clientpool.Pool.Add`, `SourceStorage.AddSource`, `InitIterator`, `Validate`, `InitMiddleware`): their writes do not make a
// field of the object mutable in the lock-facts table. That was a trusted declaration. This table re-extracts every call
// site of such a method in the scanned packages (test files and mocks aside):
//
//	setupCallers : List (String × String) — (method, function that calls it), sorted, without duplicates
//
// A call through an interface counts for every target type that implements the interface. The Lean side
// (`Spec.C11.setupCallerOk`, `C11_setup_calls_reviewed`) holds the reviewed list of callers — constructors, decode
// functions, warm-up — so a set-up method that starts being called from `Bind` / `Shoot` / `Acquire` re-opens the obligation.

import (
	"fmt"
	"go/ast"
	"go/types"
	"sort"
	"strings"

	"golang.org/x/tools/go/packages"
)

func locksSetupCallers(t *tr, loaded map[string]*packages.Package) string {
	type target struct {
		named *types.Named
		name  string // canonical "pkg.Type"
		setup map[string]bool
	}
	var targets []target
	for _, tgt := range lockTargets {
		if len(tgt.setup) == 0 || tgt.typ == "" {
			continue
		}
		p := loaded[locksPandora+tgt.pkg]
		if p == nil {
			continue
		}
		obj, ok := p.Types.Scope().Lookup(tgt.typ).(*types.TypeName)
		if !ok {
			continue
		}
		named, ok := obj.Type().(*types.Named)
		if !ok {
			continue
		}
		su := map[string]bool{}
		for _, m := range tgt.setup {
			su[m] = true
		}
		targets = append(targets, target{named: named, name: tgt.pkg + "." + tgt.typ, setup: su})
	}
	rows := map[string]bool{}
	var pkgs []*packages.Package
	for _, p := range loaded {
		if locksScanned(p) {
			pkgs = append(pkgs, p)
		}
	}
	for _, p := range pkgs {
		for _, f := range p.Syntax {
			if locksIsTestFile(p, f) || strings.Contains(p.Fset.Position(f.Pos()).Filename, "mock_") {
				continue
			}
			for _, d := range f.Decls {
				fd, ok := d.(*ast.FuncDecl)
				if !ok || fd.Body == nil {
					continue
				}
				caller := strings.TrimPrefix(p.PkgPath, locksPandora) + "." + fd.Name.Name
				if fn, ok := p.TypesInfo.Defs[fd.Name].(*types.Func); ok {
					caller = locksAmmoFuncName(fn)
				}
				ast.Inspect(fd.Body, func(n ast.Node) bool {
					call, ok := n.(*ast.CallExpr)
					if !ok {
						return true
					}
					sel, ok := call.Fun.(*ast.SelectorExpr)
					if !ok {
						return true
					}
					callee, ok := p.TypesInfo.Uses[sel.Sel].(*types.Func)
					if !ok {
						return true
					}
					sig, ok := callee.Type().(*types.Signature)
					if !ok || sig.Recv() == nil {
						return true
					}
					rt := sig.Recv().Type()
					for _, tg := range targets {
						if !tg.setup[callee.Name()] {
							continue
						}
						hit := false
						if n, ok := derefType(rt).(*types.Named); ok && n.Origin().Obj() == tg.named.Origin().Obj() {
							hit = true
						} else if iface, ok := rt.Underlying().(*types.Interface); ok {
							if tg.named.TypeParams().Len() == 0 &&
								(types.Implements(tg.named, iface) || types.Implements(types.NewPointer(tg.named), iface)) {
								hit = true
							}
						}
						if hit {
							rows[fmt.Sprintf("  (%q, %q)", tg.name+"."+callee.Name(), caller)] = true
						}
					}
					return true
				})
			}
		}
	}
	var lines []string
	for r := range rows {
		lines = append(lines, r)
	}
	sort.Strings(lines)
	var b strings.Builder
	b.WriteString("\n/-- regenerated (gen/area_lockssetup.go): every call site of a method that the lock-facts extractor takes as set-up only\n")
	b.WriteString("(`setup` of lockTargets): (method, calling function) -/\n")
	b.WriteString("def setupCallers : List (String × String) := [\n" + strings.Join(lines, ",\n") + "\n]\n")
	return b.String()
}
