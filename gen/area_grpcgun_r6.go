// Round 6 of the grpcgun area: more of the glue the C20 model rests on, as canonical text (same printer as
// area_grpcgun_r4.go: receiver $recv, parameters $0…, locals $<type><rank>, message strings masked):
//   - how a scenario's `requests` list becomes steps (convertScenarioToAmmo's loop), what a step is made of
//     (convertConfigToStep: which field of the call definition goes where, which iterator the preprocessors get),
//     the constant MaxScenarioRequests;
//   - the sample tag of a scenario step (`<scenario>.<tag>`);
//   - the pooled ammo object's Invalidate / IsInvalid and the grpc ammo provider's Acquire / Release / Run
//     (the sink is closed by a defer, whatever `start` returns).
package main

import (
	"go/ast"
	"go/constant"
	"go/types"
	"sort"
	"strconv"
	"strings"

	"golang.org/x/tools/go/packages"
)

// grpcgunR6Extra is appended to the area's output by grpcGunExtra.
func grpcgunR6Extra(t *tr, many map[string]*packages.Package) string {
	var b strings.Builder
	def := func(doc, name, typ, val string) {
		b.WriteString("/-- " + doc + " -/\ndef " + name + " : " + typ + " := " + val + "\n\n")
	}
	unrec := []string{"unrecognised"}
	const root = "github.com/yandex/pandora/"
	ap := many[root+"components/providers/grpc"]
	sp := many[root+"components/guns/grpc/scenario"]
	dp := many[root+"components/providers/scenario/grpc"]
	cp := many[root+"components/providers/scenario/config"]

	// ---- convertScenarioToAmmo: the loop over the scenario's requests; what precedes and follows it
	loop, around := unrec, unrec
	if f := grpcgunR4Func(dp, "convertScenarioToAmmo"); f != nil {
		var rest []ast.Stmt
		for _, s := range f.Body.List {
			if r, ok := s.(*ast.RangeStmt); ok && loop[0] == "unrecognised" {
				loop = append([]string{"for " + grpcgunR4Canon(dp, f, r.Key) + ", " + grpcgunR4Canon(dp, f, r.Value) + " := range " + grpcgunR4Canon(dp, f, r.X)},
					grpcgunR4Stmts(dp, f, r.Body.List)...)
				continue
			}
			rest = append(rest, s)
		}
		around = grpcgunR4Stmts(dp, f, rest)
	}
	def("`convertScenarioToAmmo($0 = scenario, $1 = call registry)`: the loop over the scenario's `requests`: a pause is added to the step before it (an error when there is none), an unknown name is an error, a count beyond MaxScenarioRequests is an error, a step is appended `count` times", "scenarioExpandLoop", "List String", grpcgunNetStrList(loop))
	def("… what stands around that loop: ONE iterator per scenario, made before the loop", "scenarioExpandAround", "List String", grpcgunNetStrList(around))

	// ---- convertConfigToStep: the statements before the composite literal, and the literal field by field (sorted)
	stepBody, stepFields := unrec, unrec
	if f := grpcgunR4Func(dp, "convertConfigToStep"); f != nil {
		var pre []ast.Stmt
		var fields []string
		for _, s := range f.Body.List {
			if as, ok := s.(*ast.AssignStmt); ok && len(as.Rhs) == 1 {
				if cl, ok := as.Rhs[0].(*ast.CompositeLit); ok {
					if _, isMake := as.Rhs[0].(*ast.CallExpr); !isMake && len(cl.Elts) > 0 {
						if _, kv := cl.Elts[0].(*ast.KeyValueExpr); kv {
							for _, e := range cl.Elts {
								if k, ok := e.(*ast.KeyValueExpr); ok {
									fields = append(fields, ggSrc(dp, k.Key)+"="+grpcgunR4Canon(dp, f, k.Value))
								}
							}
							continue
						}
					}
				}
			}
			if _, isRet := s.(*ast.ReturnStmt); isRet {
				continue
			}
			pre = append(pre, s)
		}
		sort.Strings(fields)
		stepBody = grpcgunR4Stmts(dp, f, pre)
		if len(fields) > 0 {
			stepFields = fields
		}
	}
	def("`convertConfigToStep($0 = call definition, $1 = the scenario's iterator)`: every preprocessor that can take an iterator gets THE SCENARIO's", "scenarioStepPrologue", "List String", grpcgunNetStrList(stepBody))
	def("… the step it returns, field by field (sorted): name, tag, call, metadata, payload come from the definition's fields of the same name", "scenarioStepFields", "List String", grpcgunNetStrList(stepFields))

	// ---- MaxScenarioRequests
	maxReq := "0"
	if cp != nil {
		if c, ok := cp.Types.Scope().Lookup("MaxScenarioRequests").(*types.Const); ok {
			if v, exact := constant.Int64Val(c.Val()); exact && v >= 0 {
				maxReq = c.Val().ExactString()
			}
		}
	}
	def("`config.MaxScenarioRequests`", "maxScenarioRequests", "Nat", maxReq)

	// ---- the sample tag of a scenario step
	tag := "unrecognised"
	if f := grpcgunR4Method(sp, "Gun", "shoot"); f != nil {
		ast.Inspect(f.Body, func(x ast.Node) bool {
			c, ok := x.(*ast.CallExpr)
			if !ok || ggSrc(sp, c.Fun) != "netsample.Acquire" || len(c.Args) != 1 {
				return true
			}
			arg := c.Args[0]
			// a local: print its definition
			if id, ok := arg.(*ast.Ident); ok {
				ast.Inspect(f.Body, func(y ast.Node) bool {
					if as, ok := y.(*ast.AssignStmt); ok && len(as.Lhs) == 1 && len(as.Rhs) == 1 {
						if l, ok := as.Lhs[0].(*ast.Ident); ok && ggObj(sp, l) == ggObj(sp, id) {
							arg = as.Rhs[0]
						}
					}
					return true
				})
			}
			tag = grpcgunR6RangeCanon(sp, f, arg)
			return false
		})
	}
	def("scenario gun `shoot($0 = scenario, …)`: the tag of a step's sample ($step = the call the loop is at)", "scenarioSampleTag", "String", ggQuote(tag))

	// ---- the pooled ammo object and the grpc ammo provider
	for _, m := range []struct{ recv, name, lean, doc string }{
		{"Ammo", "Invalidate", "ammoInvalidateBody", "`(*Ammo).Invalidate()`"},
		{"Ammo", "IsInvalid", "ammoIsInvalidBody", "`(*Ammo).IsInvalid()`"},
		{"Provider", "Acquire", "ammoProviderAcquire", "`(*Provider).Acquire()` of the grpc ammo providers: what the sink yields, with an id"},
		{"Provider", "Release", "ammoProviderRelease", "`(*Provider).Release($0)`: the object goes back to the pool AS IT IS"},
		{"Provider", "Run", "ammoProviderRun", "`(*Provider).Run($0 = ctx, $1 = deps)`: the sink is closed by a defer, whatever `start` returns"},
	} {
		body := unrec
		if f := grpcgunR4Method(ap, m.recv, m.name); f != nil {
			body = grpcgunR4Stmts(ap, f, f.Body.List)
		}
		def(m.doc, m.lean, "List String", grpcgunNetStrList(body))
	}
	return b.String()
}

// grpcgunR6RangeCanon prints an expression canonically, with the value variable of the enclosing range loop as $step.
func grpcgunR6RangeCanon(p *packages.Package, fn *ast.FuncDecl, e ast.Expr) string {
	al := grpcgunFeedAliases(p, fn)
	ast.Inspect(fn.Body, func(x ast.Node) bool {
		if r, ok := x.(*ast.RangeStmt); ok && r.Value != nil {
			if id, ok := r.Value.(*ast.Ident); ok {
				if o := ggObj(p, id); o != nil {
					al[o] = "$step"
				}
			}
		}
		return true
	})
	return grpcgunR6CanonWith(p, fn, e, al)
}

func grpcgunR6CanonWith(p *packages.Package, fn *ast.FuncDecl, n ast.Node, al map[types.Object]string) string {
	type savedID struct {
		id   *ast.Ident
		name string
	}
	var ids []savedID
	ast.Inspect(n, func(x ast.Node) bool {
		if y, ok := x.(*ast.Ident); ok {
			if o := ggObj(p, y); o != nil {
				if a, ok := al[o]; ok && a != "" {
					ids = append(ids, savedID{y, y.Name})
					y.Name = a
				}
			}
		}
		return true
	})
	s := ggSrc(p, n)
	for _, x := range ids {
		x.id.Name = x.name
	}
	return s
}

// ggTimeoutSym: the value handed to the single context.WithTimeout of fn as a Lean expression over `conf` (= the configured
// `….Conf.Timeout` in ns), obtained by symbolic execution of the statements before it; a call of a method of the same
// package without arguments is inlined (its body is executed symbolically). Also returns the canonical text of the
// configuration value read, the package's defaultTimeout constant and the context chain.
func ggTimeoutSym(t *tr, p *packages.Package, fn *ast.FuncDecl) (expr, conf, dflt, chain string) {
	wts := ggCalls(p, fn.Body, "context.WithTimeout")
	if len(wts) != 1 || len(wts[0].Args) != 2 || ggSrc(p, wts[0].Args[0]) != "context.Background()" {
		return
	}
	var scratch []string
	confOf := func(f *ast.FuncDecl) string {
		c := ""
		ast.Inspect(f.Body, func(x ast.Node) bool {
			if se, ok := x.(*ast.SelectorExpr); ok && se.Sel.Name == "Timeout" && strings.HasSuffix(ggSrc(p, se.X), "Conf") {
				c = grpcgunR4Canon(p, f, se)
			}
			return true
		})
		return c
	}
	eval := func(f *ast.FuncDecl, stop ast.Node, arg ast.Expr) (string, string) {
		e := grpcgunSymNewEnv(p, f, &scratch)
		c := confOf(f)
		if c != "" {
			e.txts[c] = "conf"
		}
		if stop == nil { // a helper: its result
			ret, returned, ok := e.run(f.Body.List, false)
			if ok && returned {
				return ret, c
			}
			return "", c
		}
		for _, s := range f.Body.List {
			if s.Pos() <= stop.Pos() && stop.End() <= s.End() {
				break
			}
			e.run([]ast.Stmt{s}, true)
		}
		v, ok := e.expr(arg)
		if ok {
			return v, c
		}
		return "", c
	}
	arg := wts[0].Args[1]
	expr, conf = eval(fn, wts[0], arg)
	if expr == "" {
		if c, ok := arg.(*ast.CallExpr); ok && len(c.Args) == 0 {
			if se, ok := c.Fun.(*ast.SelectorExpr); ok {
				if m, ok := p.TypesInfo.Uses[se.Sel].(*types.Func); ok && m.Pkg() == p.Types {
					for _, file := range p.Syntax {
						for _, d := range file.Decls {
							if fd, ok := d.(*ast.FuncDecl); ok && fd.Body != nil && p.TypesInfo.Defs[fd.Name] == types.Object(m) {
								expr, conf = eval(fd, nil, nil)
								// the helper reads its own receiver: name the value as the caller sees it
								if conf != "" {
									conf = strings.Replace(conf, "$recv", grpcgunR4Canon(p, fn, se.X), 1)
								}
							}
						}
					}
				}
			}
		}
	}
	if expr == "" || conf == "" {
		return "", "", "", ""
	}
	dflt = "0"
	if c, ok := p.Types.Scope().Lookup("defaultTimeout").(*types.Const); ok {
		if v, exact := constant.Int64Val(constant.ToInt(c.Val())); exact {
			dflt = strconv.FormatInt(v, 10)
		}
	}
	// the context chain: WithTimeout's context variable goes through NewOutgoingContext into InvokeRpc
	chain = "unrecognised"
	invs := ggCallsSuffix(p, fn.Body, ".InvokeRpc")
	nocs := ggCalls(p, fn.Body, "metadata.NewOutgoingContext")
	if len(invs) != 1 || len(nocs) != 1 || len(nocs[0].Args) != 2 || len(invs[0].Args) < 1 {
		return
	}
	var cobj types.Object
	var order []string
	ast.Inspect(fn.Body, func(x ast.Node) bool {
		as, ok := x.(*ast.AssignStmt)
		if !ok || len(as.Rhs) != 1 {
			return true
		}
		if as.Rhs[0] == ast.Expr(wts[0]) && len(as.Lhs) == 2 {
			cobj = ggObj(p, as.Lhs[0])
			order = append(order, "WithTimeout")
		} else if as.Rhs[0] == ast.Expr(nocs[0]) && len(as.Lhs) == 1 && cobj != nil && ggObj(p, as.Lhs[0]) == cobj && ggObj(p, nocs[0].Args[0]) == cobj {
			order = append(order, "NewOutgoingContext")
		} else {
			for _, l := range as.Lhs {
				if cobj != nil && ggObj(p, l) == cobj {
					order = append(order, "other:"+ggSrc(p, as))
				}
			}
		}
		return true
	})
	if cobj == nil || ggObj(p, invs[0].Args[0]) != cobj || invs[0].Pos() < nocs[0].Pos() || nocs[0].Pos() < wts[0].Pos() {
		return
	}
	chain = strings.Join(order, ">") + ">InvokeRpc"
	return
}
