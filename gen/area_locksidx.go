// Area "locks", part 5 (round 4): the index arithmetic behind the shared counters.
//
// Three instance-facing functions turn a shared counter into a slice index; an index outside the slice is a runtime
// fault in every instance that comes by ("index out of range"), and it depends on the REPRESENTATION of the counter and
// on the conversions applied to it — which only matter for extreme counter values no test reaches:
//
//   - lib/mp.calcIndex           `rows[next]` / `rows[rand]` / `rows[last]` / `rows[<number>]` of a variable source
//   - (*lib/mp.NextIterator).Next the shared per-segment counters behind `[next]`
//   - (*core/clientpool.Pool).Next the shared round-robin cursor of the client pool
//
// Each body is re-extracted from the CURRENT source as a Lean function on integers (statement by statement: early
// returns become nested conditionals, assignments substitutions; `%` is Go's truncated remainder `Int.tmod`; a conversion
// to a fixed-width integer type and the result of `Add` on a `sync/atomic` integer wrap to the width and signedness of
// that type: `goWrap bits signed`). `+ - *` are taken as exact (their operands here are bounded by the slice length).
// Anything else is a translation error, never a default. Bridge lemmas (`Bridge/C11Locks.lean`) prove the regenerated
// bodies equal to the model's closed forms (`Model/C11Index.lean`), the property theorems are stated on the regenerated
// bodies. Locals may be renamed and independent statements reordered without changing the emitted function's meaning.
package main

import (
	"fmt"
	"go/ast"
	"go/token"
	"go/types"
	"strings"

	"golang.org/x/tools/go/packages"
)

const locksMpPkg = locksPandora + "lib/mp"
const locksClientpoolPkg = locksPandora + "core/clientpool"

// locksIdxWidth: width and signedness of a basic integer type or of a sync/atomic integer type.
func locksIdxWidth(t types.Type) (bits int, signed bool, ok bool) {
	if p, isPtr := t.(*types.Pointer); isPtr {
		t = p.Elem()
	}
	if n, isNamed := t.(*types.Named); isNamed && n.Obj().Pkg() != nil && n.Obj().Pkg().Path() == "sync/atomic" {
		switch n.Obj().Name() {
		case "Uint64", "Uintptr":
			return 64, false, true
		case "Int64":
			return 64, true, true
		case "Uint32":
			return 32, false, true
		case "Int32":
			return 32, true, true
		}
		return 0, false, false
	}
	b, isBasic := t.Underlying().(*types.Basic)
	if !isBasic {
		return 0, false, false
	}
	switch b.Kind() {
	case types.Int, types.Int64:
		return 64, true, true
	case types.Uint, types.Uint64, types.Uintptr:
		return 64, false, true
	case types.Int32:
		return 32, true, true
	case types.Uint32:
		return 32, false, true
	case types.Int16:
		return 16, true, true
	case types.Uint16:
		return 16, false, true
	case types.Int8:
		return 8, true, true
	case types.Uint8:
		return 8, false, true
	}
	return 0, false, false
}

func locksIdxWrap(bits int, signed bool, x string) string {
	return fmt.Sprintf("(goWrap %d %v %s)", bits, signed, x)
}

// locksIdxTr translates one function body; the hooks say what the function's parameters, calls and returns stand for.
type locksIdxTr struct {
	t    *tr
	p    *packages.Package
	name string
	// call: a call in expression position (nil = unsupported)
	call func(x *locksIdxTr, c *ast.CallExpr, env map[string]string) (string, bool)
	// define: a `:=` the generic translation does not cover (comma-ok forms); returns false when it is not one of them
	define func(x *locksIdxTr, a *ast.AssignStmt, env map[string]string) bool
	// ret: the Lean term of a return statement
	ret func(x *locksIdxTr, r *ast.ReturnStmt, env map[string]string) (string, bool)
	// skip: a statement without influence on the result (locking, the insertion of a new counter)
	skip func(x *locksIdxTr, s ast.Stmt) bool
}

func (x *locksIdxTr) fail(n ast.Node, what string) {
	x.t.errs = append(x.t.errs, fmt.Sprintf("%s: unsupported: %s in %s", x.p.Fset.Position(n.Pos()), what, x.name))
}

func (x *locksIdxTr) isString(e ast.Expr) bool {
	b, ok := x.p.TypesInfo.TypeOf(e).Underlying().(*types.Basic)
	return ok && b.Info()&types.IsString != 0
}

func (x *locksIdxTr) expr(e ast.Expr, env map[string]string) string {
	switch v := e.(type) {
	case *ast.ParenExpr:
		return x.expr(v.X, env)
	case *ast.Ident:
		if s, has := env[v.Name]; has {
			return s
		}
	case *ast.BasicLit:
		if v.Kind == token.INT {
			return v.Value
		}
		if v.Kind == token.STRING {
			return v.Value
		}
	case *ast.UnaryExpr:
		if v.Op == token.SUB {
			return "(-" + x.expr(v.X, env) + ")"
		}
	case *ast.BinaryExpr:
		switch v.Op {
		case token.ADD, token.SUB, token.MUL:
			return "(" + x.expr(v.X, env) + " " + v.Op.String() + " " + x.expr(v.Y, env) + ")"
		case token.REM:
			return "(Int.tmod " + x.expr(v.X, env) + " " + x.expr(v.Y, env) + ")"
		case token.QUO:
			return "(Int.tdiv " + x.expr(v.X, env) + " " + x.expr(v.Y, env) + ")"
		}
	case *ast.CallExpr:
		// conversion to a fixed-width integer type
		if tv, has := x.p.TypesInfo.Types[v.Fun]; has && tv.IsType() && len(v.Args) == 1 {
			if bits, signed, ok := locksIdxWidth(tv.Type); ok {
				return locksIdxWrap(bits, signed, x.expr(v.Args[0], env))
			}
		}
		if x.call != nil {
			if s, ok := x.call(x, v, env); ok {
				return s
			}
		}
	}
	x.fail(e, "expression "+types.ExprString(e))
	return "0"
}

func (x *locksIdxTr) cond(e ast.Expr, env map[string]string) string {
	switch v := e.(type) {
	case *ast.ParenExpr:
		return x.cond(v.X, env)
	case *ast.UnaryExpr:
		if v.Op == token.NOT {
			return "¬(" + x.cond(v.X, env) + ")"
		}
	case *ast.Ident:
		if s, has := env[v.Name]; has {
			return s + " = true"
		}
	case *ast.BinaryExpr:
		switch v.Op {
		case token.LAND:
			return "(" + x.cond(v.X, env) + ") ∧ (" + x.cond(v.Y, env) + ")"
		case token.LOR:
			return "(" + x.cond(v.X, env) + ") ∨ (" + x.cond(v.Y, env) + ")"
		case token.EQL, token.NEQ:
			if id, isId := v.Y.(*ast.Ident); isId && id.Name == "nil" {
				// an error value bound to a Boolean parameter "is not nil"
				if xi, isX := v.X.(*ast.Ident); isX {
					if s, has := env[xi.Name]; has {
						if v.Op == token.NEQ {
							return s + " = true"
						}
						return s + " = false"
					}
				}
				break
			}
			op := " = "
			if v.Op == token.NEQ {
				op = " ≠ "
			}
			return x.expr(v.X, env) + op + x.expr(v.Y, env)
		case token.LSS, token.GTR:
			return x.expr(v.X, env) + " " + v.Op.String() + " " + x.expr(v.Y, env)
		case token.LEQ:
			return x.expr(v.X, env) + " ≤ " + x.expr(v.Y, env)
		case token.GEQ:
			return x.expr(v.X, env) + " ≥ " + x.expr(v.Y, env)
		}
	}
	x.fail(e, "condition "+types.ExprString(e))
	return "True"
}

func locksIdxCopy(env map[string]string) map[string]string {
	out := make(map[string]string, len(env))
	for k, v := range env {
		out[k] = v
	}
	return out
}

// assign applies one assignment statement to an environment; ok=false: not an assignment the translation covers.
func (x *locksIdxTr) assign(a *ast.AssignStmt, env map[string]string) (map[string]string, bool) {
	out := locksIdxCopy(env)
	switch a.Tok {
	case token.ASSIGN, token.DEFINE:
		if len(a.Lhs) != len(a.Rhs) {
			if a.Tok == token.DEFINE && x.define != nil && x.define(x, a, out) {
				return out, true
			}
			return out, false
		}
		if a.Tok == token.DEFINE && x.define != nil && x.define(x, a, out) {
			return out, true
		}
		vals := make([]string, len(a.Rhs))
		for i, l := range a.Lhs {
			if _, isId := l.(*ast.Ident); !isId {
				return out, false
			}
			if b, isBasic := x.p.TypesInfo.TypeOf(a.Rhs[i]).Underlying().(*types.Basic); isBasic && b.Info()&types.IsBoolean != 0 {
				vals[i] = "(decide (" + x.cond(a.Rhs[i], env) + "))"
			} else {
				vals[i] = x.expr(a.Rhs[i], env)
			}
		}
		for i, l := range a.Lhs {
			out[l.(*ast.Ident).Name] = vals[i]
		}
		return out, true
	case token.ADD_ASSIGN, token.SUB_ASSIGN, token.MUL_ASSIGN, token.REM_ASSIGN, token.QUO_ASSIGN:
		id, isId := a.Lhs[0].(*ast.Ident)
		if !isId || len(a.Lhs) != 1 || len(a.Rhs) != 1 {
			return out, false
		}
		cur, has := env[id.Name]
		if !has {
			return out, false
		}
		r := x.expr(a.Rhs[0], env)
		switch a.Tok {
		case token.ADD_ASSIGN:
			out[id.Name] = "(" + cur + " + " + r + ")"
		case token.SUB_ASSIGN:
			out[id.Name] = "(" + cur + " - " + r + ")"
		case token.MUL_ASSIGN:
			out[id.Name] = "(" + cur + " * " + r + ")"
		case token.REM_ASSIGN:
			out[id.Name] = "(Int.tmod " + cur + " " + r + ")"
		case token.QUO_ASSIGN:
			out[id.Name] = "(Int.tdiv " + cur + " " + r + ")"
		}
		return out, true
	}
	return out, false
}

// condBlock: the environment after `if c { list }` where list holds assignments and nested ifs without return
func (x *locksIdxTr) condBlock(c string, list []ast.Stmt, env map[string]string) map[string]string {
	inner := locksIdxCopy(env)
	for _, bs := range list {
		if x.skip != nil && x.skip(x, bs) {
			continue
		}
		switch b := bs.(type) {
		case *ast.AssignStmt:
			out, ok := x.assign(b, inner)
			if !ok {
				x.fail(b, "assignment")
			}
			inner = out
		case *ast.IfStmt:
			if b.Init != nil || b.Else != nil || locksIdxHasReturn(b.Body.List) {
				x.fail(b, "nested if with init / else / return in a conditional block")
				continue
			}
			inner = x.condBlock(x.cond(b.Cond, inner), b.Body.List, inner)
		default:
			x.fail(bs, "statement in a conditional block")
		}
	}
	merged := locksIdxCopy(env)
	for k, nv := range inner {
		if old, had := env[k]; had && old != nv {
			merged[k] = "(if " + c + " then " + nv + " else " + old + ")"
		}
	}
	return merged
}

func locksIdxTerminates(list []ast.Stmt) bool {
	if len(list) == 0 {
		return false
	}
	_, isRet := list[len(list)-1].(*ast.ReturnStmt)
	return isRet
}

func locksIdxHasReturn(list []ast.Stmt) bool {
	found := false
	for _, s := range list {
		ast.Inspect(s, func(n ast.Node) bool {
			if _, isRet := n.(*ast.ReturnStmt); isRet {
				found = true
			}
			if _, isLit := n.(*ast.FuncLit); isLit {
				return false
			}
			return true
		})
	}
	return found
}

// stmts: the Lean term a statement list evaluates to (every path must end in a return).
func (x *locksIdxTr) stmts(list []ast.Stmt, env map[string]string, dflt string) string {
	for i, s := range list {
		if x.skip != nil && x.skip(x, s) {
			continue
		}
		switch v := s.(type) {
		case *ast.DeclStmt:
			continue // `var zero T`
		case *ast.AssignStmt:
			out, ok := x.assign(v, env)
			if !ok {
				x.fail(v, "assignment")
			}
			env = out
		case *ast.IfStmt:
			if v.Init != nil {
				x.fail(v, "if with init")
				continue
			}
			c := x.cond(v.Cond, env)
			rest := list[i+1:]
			if locksIdxHasReturn(v.Body.List) || v.Else != nil {
				if !locksIdxTerminates(v.Body.List) {
					x.fail(v, "if body with a return that is not its last statement")
					continue
				}
				thenT := x.stmts(v.Body.List, locksIdxCopy(env), dflt)
				var elseT string
				switch e := v.Else.(type) {
				case nil:
					elseT = x.stmts(rest, env, dflt)
				case *ast.BlockStmt:
					if locksIdxTerminates(e.List) {
						elseT = x.stmts(e.List, locksIdxCopy(env), dflt)
					} else {
						elseT = x.stmts(append(append([]ast.Stmt(nil), e.List...), rest...), locksIdxCopy(env), dflt)
					}
				case *ast.IfStmt:
					// else if: the then-branch has returned, so this is the next statement
					elseT = x.stmts(append([]ast.Stmt{e}, rest...), locksIdxCopy(env), dflt)
				default:
					x.fail(v, "else")
					elseT = dflt
				}
				return "(if " + c + " then " + thenT + " else " + elseT + ")"
			}
			// a conditional block of assignments (and nested blocks of that kind)
			env = x.condBlock(c, v.Body.List, env)
		case *ast.ReturnStmt:
			if s, ok := x.ret(x, v, env); ok {
				return s
			}
			x.fail(v, "return")
			return dflt
		default:
			x.fail(s, "statement")
		}
	}
	x.t.errs = append(x.t.errs, x.name+": a path without return")
	return dflt
}

func locksIdxFindFunc(p *packages.Package, recv, name string) *ast.FuncDecl {
	if p == nil {
		return nil
	}
	for _, f := range p.Syntax {
		if locksIsTestFile(p, f) {
			continue
		}
		for _, d := range f.Decls {
			fd, ok := d.(*ast.FuncDecl)
			if !ok || fd.Name.Name != name || fd.Body == nil {
				continue
			}
			if recv == "" {
				if fd.Recv == nil {
					return fd
				}
				continue
			}
			if fd.Recv == nil || len(fd.Recv.List) != 1 {
				continue
			}
			rt := fd.Recv.List[0].Type
			if st, isStar := rt.(*ast.StarExpr); isStar {
				rt = st.X
			}
			if ix, isIx := rt.(*ast.IndexExpr); isIx {
				rt = ix.X
			}
			if id, isId := rt.(*ast.Ident); isId && id.Name == recv {
				return fd
			}
		}
	}
	return nil
}

func locksIdxParams(fd *ast.FuncDecl) []string {
	var out []string
	for _, f := range fd.Type.Params.List {
		for _, n := range f.Names {
			out = append(out, n.Name)
		}
	}
	return out
}

// isMutexCall: `x.Lock()`, `x.Unlock()`, `x.RLock()`, `x.RUnlock()` on a sync mutex
func locksIdxMutexCall(p *packages.Package, e ast.Expr) bool {
	c, ok := e.(*ast.CallExpr)
	if !ok {
		return false
	}
	sel, ok := c.Fun.(*ast.SelectorExpr)
	if !ok {
		return false
	}
	switch sel.Sel.Name {
	case "Lock", "Unlock", "RLock", "RUnlock":
	default:
		return false
	}
	t := p.TypesInfo.TypeOf(sel.X)
	if t == nil {
		return false
	}
	return strings.HasPrefix(derefType(t).String(), "sync.")
}

// atomicAdd: `<x>.Add(1)` on a sync/atomic integer → the counter parameter wrapped to the width of that type
func locksIdxAtomicAdd(x *locksIdxTr, c *ast.CallExpr, counters *[]string) (string, bool) {
	sel, ok := c.Fun.(*ast.SelectorExpr)
	if !ok || sel.Sel.Name != "Add" || len(c.Args) != 1 {
		return "", false
	}
	if lit, isLit := c.Args[0].(*ast.BasicLit); !isLit || lit.Value != "1" {
		return "", false
	}
	t := x.p.TypesInfo.TypeOf(sel.X)
	if t == nil {
		return "", false
	}
	bits, signed, ok := locksIdxWidth(t)
	if !ok {
		return "", false
	}
	if _, isNamed := derefType(t).(*types.Named); !isNamed {
		return "", false
	}
	*counters = append(*counters, derefType(t).String())
	return locksIdxWrap(bits, signed, "ctr"), true
}

func locksIndexFacts(t *tr, loaded map[string]*packages.Package) string {
	var b strings.Builder
	b.WriteString("\n/-! ### index arithmetic behind the shared counters (gen/area_locksidx.go) -/\n")

	// ---- lib/mp.calcIndex
	mp := loaded[locksMpPkg]
	if fd := locksIdxFindFunc(mp, "", "calcIndex"); fd == nil {
		t.errs = append(t.errs, "calcIndex not found in "+locksMpPkg)
	} else if ps := locksIdxParams(fd); len(ps) != 4 {
		t.errs = append(t.errs, "calcIndex: expected 4 parameters (indexStr, segment, length, iter)")
	} else {
		x := &locksIdxTr{t: t, p: mp, name: "lib/mp.calcIndex"}
		iterName, segName := ps[3], ps[1]
		x.define = func(x *locksIdxTr, a *ast.AssignStmt, env map[string]string) bool {
			// index, err := strconv.Atoi(indexStr)
			if len(a.Lhs) == 2 && len(a.Rhs) == 1 {
				if c, isCall := a.Rhs[0].(*ast.CallExpr); isCall && types.ExprString(c.Fun) == "strconv.Atoi" && len(c.Args) == 1 && types.ExprString(c.Args[0]) == ps[0] {
					env[a.Lhs[0].(*ast.Ident).Name] = "atoi"
					env[a.Lhs[1].(*ast.Ident).Name] = "atoiErr"
					return true
				}
			}
			return false
		}
		x.call = func(x *locksIdxTr, c *ast.CallExpr, env map[string]string) (string, bool) {
			switch types.ExprString(c.Fun) {
			case iterName + ".Next":
				if len(c.Args) == 1 && types.ExprString(c.Args[0]) == segName {
					return "nextV", true
				}
			case iterName + ".Rand":
				if len(c.Args) == 1 && env[types.ExprString(c.Args[0])] == "length" {
					return "randV", true
				}
			}
			return "", false
		}
		x.ret = func(x *locksIdxTr, r *ast.ReturnStmt, env map[string]string) (string, bool) {
			if len(r.Results) != 2 {
				return "", false
			}
			if id, isId := r.Results[1].(*ast.Ident); isId && id.Name == "nil" {
				return "some " + x.expr(r.Results[0], env), true
			}
			return "none", true
		}
		env := map[string]string{ps[0]: "indexStr", ps[2]: "length"}
		body := x.stmts(fd.Body.List, env, "none")
		b.WriteString("\n/-- regenerated from `lib/mp.calcIndex`: `atoi` / `atoiErr` stand for the result of `strconv.Atoi(indexStr)` (its error:\n")
		b.WriteString("\"is not nil\"), `nextV` for `iter.Next(segment)`, `randV` for `iter.Rand(length)`; `none` = an error is returned -/\n")
		b.WriteString("def calcIndexBody (indexStr : String) (atoi : Int) (atoiErr : Bool) (length nextV randV : Int) : Option Int :=\n  " + body + "\n")
	}

	// ---- (*NextIterator).Next
	if fd := locksIdxFindFunc(mp, "NextIterator", "Next"); fd == nil {
		t.errs = append(t.errs, "(*NextIterator).Next not found in "+locksMpPkg)
	} else {
		x := &locksIdxTr{t: t, p: mp, name: "lib/mp.NextIterator.Next"}
		var counters []string
		x.skip = func(x *locksIdxTr, s ast.Stmt) bool {
			switch v := s.(type) {
			case *ast.ExprStmt:
				return locksIdxMutexCall(x.p, v.X)
			case *ast.DeferStmt:
				return locksIdxMutexCall(x.p, v.Call)
			case *ast.AssignStmt:
				// the insertion of a new counter: n.gs[segment] = &atomic.Uint64{}
				if len(v.Lhs) == 1 && len(v.Rhs) == 1 {
					if ix, isIx := v.Lhs[0].(*ast.IndexExpr); isIx {
						if _, isMap := x.p.TypesInfo.TypeOf(ix.X).Underlying().(*types.Map); isMap {
							if u, isU := v.Rhs[0].(*ast.UnaryExpr); isU && u.Op == token.AND {
								if _, isLit := u.X.(*ast.CompositeLit); isLit {
									return true
								}
							}
						}
					}
				}
				// a pointer to one of several mutexes: mx := &n.mx[…]
				if v.Tok == token.DEFINE && len(v.Lhs) == 1 && len(v.Rhs) == 1 {
					if tt := x.p.TypesInfo.TypeOf(v.Rhs[0]); tt != nil && strings.HasPrefix(derefType(tt).String(), "sync.") {
						return true
					}
				}
			}
			return false
		}
		x.define = func(x *locksIdxTr, a *ast.AssignStmt, env map[string]string) bool {
			// a, ok := n.gs[segment]
			if len(a.Lhs) == 2 && len(a.Rhs) == 1 {
				if ix, isIx := a.Rhs[0].(*ast.IndexExpr); isIx {
					if _, isMap := x.p.TypesInfo.TypeOf(ix.X).Underlying().(*types.Map); isMap {
						env[a.Lhs[1].(*ast.Ident).Name] = "seen"
						return true
					}
				}
			}
			return false
		}
		x.call = func(x *locksIdxTr, c *ast.CallExpr, env map[string]string) (string, bool) {
			return locksIdxAtomicAdd(x, c, &counters)
		}
		x.ret = func(x *locksIdxTr, r *ast.ReturnStmt, env map[string]string) (string, bool) {
			if len(r.Results) != 1 {
				return "", false
			}
			return x.expr(r.Results[0], env), true
		}
		body := x.stmts(fd.Body.List, map[string]string{}, "0")
		b.WriteString("\n/-- regenerated from `(*NextIterator).Next`: `seen` = the segment has a counter already (the first use creates it),\n")
		b.WriteString("`ctr` = the number of increments the counter has received including this one (it wraps to the counter's type) -/\n")
		b.WriteString("def iterNextBody (seen : Bool) (ctr : Int) : Int :=\n  " + body + "\n")
		b.WriteString(fmt.Sprintf("\ndef iterCounterTypes : List String := %s\n", locksStrList(locksDedup(counters))))
	}

	// ---- (*clientpool.Pool).Next
	cp := loaded[locksClientpoolPkg]
	if fd := locksIdxFindFunc(cp, "Pool", "Next"); fd == nil {
		t.errs = append(t.errs, "(*Pool).Next not found in "+locksClientpoolPkg)
	} else {
		x := &locksIdxTr{t: t, p: cp, name: "core/clientpool.Pool.Next"}
		var counters []string
		isPoolLen := func(c *ast.CallExpr) bool {
			if id, isId := c.Fun.(*ast.Ident); isId && id.Name == "len" && len(c.Args) == 1 {
				if _, isSlice := x.p.TypesInfo.TypeOf(c.Args[0]).Underlying().(*types.Slice); isSlice {
					if _, isSel := c.Args[0].(*ast.SelectorExpr); isSel {
						return true
					}
				}
			}
			return false
		}
		x.call = func(x *locksIdxTr, c *ast.CallExpr, env map[string]string) (string, bool) {
			if isPoolLen(c) {
				return "n", true
			}
			return locksIdxAtomicAdd(x, c, &counters)
		}
		x.ret = func(x *locksIdxTr, r *ast.ReturnStmt, env map[string]string) (string, bool) {
			if len(r.Results) != 1 {
				return "", false
			}
			switch v := r.Results[0].(type) {
			case *ast.Ident:
				// `var zero T; return zero`
				if _, bound := env[v.Name]; !bound {
					return "none", true
				}
			case *ast.IndexExpr:
				if _, isSlice := x.p.TypesInfo.TypeOf(v.X).Underlying().(*types.Slice); isSlice {
					return "some " + x.expr(v.Index, env), true
				}
			}
			return "", false
		}
		body := x.stmts(fd.Body.List, map[string]string{}, "none")
		b.WriteString("\n/-- regenerated from `(*clientpool.Pool).Next`: `n` = the number of clients, `ctr` = the number of increments the cursor\n")
		b.WriteString("has received including this one; `some i` = the client at index `i` is returned, `none` = the zero value -/\n")
		b.WriteString("def poolNextBody (n ctr : Int) : Option Int :=\n  " + body + "\n")
		b.WriteString(fmt.Sprintf("\ndef poolCounterTypes : List String := %s\n", locksStrList(locksDedup(counters))))
	}
	return b.String()
}
