package main

// Area "c02leaf" (property C02): how the LEAF schedules of core/schedule (every type with methods Next and Left that
// take no lock: doAtSchedule, unlimitedSchedule) touch their shared state, re-extracted from the CURRENT source.
//
//  1. `leafAccesses`: per (type, method ∈ {Next, Left}) the statements that touch shared state, in source order, each
//     with its accesses: a call of a method on a receiver field whose type is an atomic of go.uber.org/atomic /
//     sync/atomic or a sync.Once (`i.Inc`, `i.Load`, `finish.Load`, `startOnce.Do`), a call of a method of the receiver
//     itself (`IsStarted()`), a plain write of a receiver field (`start.write`). Function literals are not entered (what
//     is passed to `Do` runs inside the once). Statements without such an access do not appear, so reordering them,
//     renaming locals or rewriting the arithmetic changes nothing; a new access, a dropped one, a load split from its
//     increment does. This is the table the concurrent leaf model `Model/C02LeafPar.lean` stands for and the table the
//     harness's instrumentation (harness/cmd/c02/instr.go) puts its scheduling points by.
//  2. `leafPlainWrites`: every plain (non-atomic) write of a receiver field in ANY method of those types, with whether
//     it happens inside a function literal passed to `<once>.Do` (the reason why reading `start` after the once is no
//     access of its own).

import (
	"fmt"
	"go/ast"
	"go/types"
	"sort"
	"strconv"
	"strings"

	"golang.org/x/tools/go/packages"
)

func init() {
	areas["c02leaf"] = area{
		pkgPath:   "github.com/yandex/pandora/core/schedule",
		module:    "C02Leaf",
		namespace: "Pandora.Gen.C02Leaf",
		imports:   []string{"Pandora.Model.C02Ns"},
		extra:     c02leafExtra,
	}
}

func c02leafHasLock(body *ast.BlockStmt) bool {
	found := false
	ast.Inspect(body, func(x ast.Node) bool {
		if c, ok := x.(*ast.CallExpr); ok {
			if se, ok := c.Fun.(*ast.SelectorExpr); ok {
				switch se.Sel.Name {
				case "Lock", "RLock", "Unlock", "RUnlock":
					found = true
				}
			}
		}
		return !found
	})
	return found
}

func c02leafSyncType(t types.Type) bool {
	s := types.TypeString(t, nil)
	s = strings.TrimPrefix(s, "*")
	return strings.HasPrefix(s, "go.uber.org/atomic.") || strings.HasPrefix(s, "sync/atomic.") || s == "sync.Once"
}

type c02leafScan struct {
	p    *packages.Package
	recv types.Object
}

func (s *c02leafScan) isRecv(e ast.Expr) bool {
	id, ok := e.(*ast.Ident)
	return ok && s.recv != nil && s.p.TypesInfo.Uses[id] == s.recv
}

func (s *c02leafScan) recvField(e ast.Expr) (string, types.Type, bool) {
	se, ok := e.(*ast.SelectorExpr)
	if !ok || !s.isRecv(se.X) {
		return "", nil, false
	}
	sel := s.p.TypesInfo.Selections[se]
	if sel == nil || sel.Kind() != types.FieldVal {
		return "", nil, false
	}
	return se.Sel.Name, sel.Type(), true
}

// accesses of ONE statement (nested blocks and function literals excluded)
func (s *c02leafScan) accesses(st ast.Stmt) []string {
	var out []string
	var own []ast.Node
	switch v := st.(type) {
	case *ast.IfStmt:
		own = []ast.Node{v.Init, v.Cond}
	case *ast.ForStmt:
		own = []ast.Node{v.Init, v.Cond, v.Post}
	case *ast.RangeStmt:
		own = []ast.Node{v.X}
	case *ast.SwitchStmt:
		own = []ast.Node{v.Init, v.Tag}
	case *ast.TypeSwitchStmt:
		own = []ast.Node{v.Init, v.Assign}
	case *ast.SelectStmt, *ast.BlockStmt, *ast.LabeledStmt:
		own = nil
	default:
		own = []ast.Node{st}
	}
	for _, n := range own {
		if n == nil {
			continue
		}
		switch v := n.(type) {
		case ast.Stmt:
			if v == nil {
				continue
			}
		case ast.Expr:
			if v == nil {
				continue
			}
		}
		ast.Inspect(n, func(x ast.Node) bool {
			switch v := x.(type) {
			case *ast.FuncLit, *ast.BlockStmt:
				return false
			case *ast.CallExpr:
				if se, ok := v.Fun.(*ast.SelectorExpr); ok {
					if f, ty, ok := s.recvField(se.X); ok && c02leafSyncType(ty) {
						out = append(out, f+"."+se.Sel.Name)
						return false
					}
					if s.isRecv(se.X) {
						if sel := s.p.TypesInfo.Selections[se]; sel != nil && sel.Kind() == types.MethodVal {
							out = append(out, se.Sel.Name+"()")
						}
					}
				}
			case *ast.AssignStmt:
				for _, l := range v.Lhs {
					if f, _, ok := s.recvField(l); ok {
						out = append(out, f+".write")
					}
				}
			case *ast.IncDecStmt:
				if f, _, ok := s.recvField(v.X); ok {
					out = append(out, f+".write")
				}
			}
			return true
		})
	}
	return out
}

func (s *c02leafScan) table(body *ast.BlockStmt) [][]string {
	var rows [][]string
	var walk func(list []ast.Stmt)
	var nested func(st ast.Stmt)
	walk = func(list []ast.Stmt) {
		for _, st := range list {
			if _, isDecl := st.(*ast.DeclStmt); !isDecl {
				if a := s.accesses(st); len(a) > 0 {
					rows = append(rows, a)
				}
			}
			nested(st)
		}
	}
	nested = func(st ast.Stmt) {
		switch v := st.(type) {
		case *ast.BlockStmt:
			walk(v.List)
		case *ast.IfStmt:
			walk(v.Body.List)
			if v.Else != nil {
				nested(v.Else)
			}
		case *ast.ForStmt:
			walk(v.Body.List)
		case *ast.RangeStmt:
			walk(v.Body.List)
		case *ast.SwitchStmt:
			for _, c := range v.Body.List {
				walk(c.(*ast.CaseClause).Body)
			}
		case *ast.TypeSwitchStmt:
			for _, c := range v.Body.List {
				walk(c.(*ast.CaseClause).Body)
			}
		case *ast.SelectStmt:
			for _, c := range v.Body.List {
				walk(c.(*ast.CommClause).Body)
			}
		case *ast.LabeledStmt:
			nested(v.Stmt)
		}
	}
	walk(body.List)
	return rows
}

// plainWrites: (field, insideOnceDo) for every plain write of a receiver field in the body
func (s *c02leafScan) plainWrites(body *ast.BlockStmt) [][2]string {
	var out [][2]string
	var visit func(n ast.Node, inOnce bool)
	visit = func(n ast.Node, inOnce bool) {
		ast.Inspect(n, func(x ast.Node) bool {
			switch v := x.(type) {
			case *ast.CallExpr:
				if se, ok := v.Fun.(*ast.SelectorExpr); ok && se.Sel.Name == "Do" && len(v.Args) == 1 {
					if _, ty, ok := s.recvField(se.X); ok && strings.TrimPrefix(types.TypeString(ty, nil), "*") == "sync.Once" {
						if fl, ok := v.Args[0].(*ast.FuncLit); ok {
							visit(fl.Body, true)
							return false
						}
					}
				}
			case *ast.AssignStmt:
				for _, l := range v.Lhs {
					if f, ty, ok := s.recvField(l); ok && !c02leafSyncType(ty) {
						out = append(out, [2]string{f, strconv.FormatBool(inOnce)})
					}
				}
			case *ast.IncDecStmt:
				if f, ty, ok := s.recvField(v.X); ok && !c02leafSyncType(ty) {
					out = append(out, [2]string{f, strconv.FormatBool(inOnce)})
				}
			}
			return true
		})
	}
	visit(body, false)
	return out
}

// c02leafOrder: the accesses to shared state (operations on atomic / once fields, plain field writes) a method performs
// on a straight-line reading, in EXECUTION order: statements in source order, the arguments of a call before the call,
// a function literal passed to `<sync.Once>.Do` entered in place, a call of a method of the receiver (its own or of an
// embedded struct of the package, e.g. `MarkStarted()`, `IsStarted()`, an extracted helper) replaced by the accesses of
// that method (depth <= 3). Round 6: the ORDER of the stores of a starting leaf and of the loads of its `Left` is what
// makes `Left` see a consistent pair (started flag, finish time) without going through the once.
func c02leafOrder(p *packages.Package, decls map[types.Object]*ast.FuncDecl, fd *ast.FuncDecl, depth int) []string {
	var out []string
	if fd == nil || fd.Body == nil || depth > 3 {
		return out
	}
	sc := &c02leafScan{p: p}
	if fd.Recv != nil && len(fd.Recv.List) == 1 && len(fd.Recv.List[0].Names) == 1 {
		sc.recv = p.TypesInfo.Defs[fd.Recv.List[0].Names[0]]
	}
	var visit func(n ast.Node)
	visit = func(n ast.Node) {
		if n == nil {
			return
		}
		ast.Inspect(n, func(x ast.Node) bool {
			switch v := x.(type) {
			case *ast.FuncLit:
				return false // runs when called, not here (the literal of a once is entered below)
			case *ast.CallExpr:
				se, ok := v.Fun.(*ast.SelectorExpr)
				if !ok {
					return true
				}
				if f, ty, ok := sc.recvField(se.X); ok && c02leafSyncType(ty) {
					isOnce := strings.TrimPrefix(types.TypeString(ty, nil), "*") == "sync.Once"
					for _, a := range v.Args {
						if fl, isLit := a.(*ast.FuncLit); isLit && isOnce && se.Sel.Name == "Do" {
							for _, st := range fl.Body.List {
								visit(st)
							}
						} else {
							visit(a)
						}
					}
					if !isOnce {
						out = append(out, f+"."+se.Sel.Name)
					}
					return false
				}
				if sc.isRecv(se.X) {
					if sel := p.TypesInfo.Selections[se]; sel != nil && sel.Kind() == types.MethodVal {
						for _, a := range v.Args {
							visit(a)
						}
						if callee := decls[sel.Obj()]; callee != nil {
							out = append(out, c02leafOrder(p, decls, callee, depth+1)...)
						} else {
							out = append(out, se.Sel.Name+"()")
						}
						return false
					}
				}
			case *ast.AssignStmt:
				for _, r := range v.Rhs {
					visit(r)
				}
				for _, l := range v.Lhs {
					if f, ty, ok := sc.recvField(l); ok && !c02leafSyncType(ty) {
						out = append(out, f+".write")
					} else {
						visit(l)
					}
				}
				return false
			case *ast.IncDecStmt:
				if f, ty, ok := sc.recvField(v.X); ok && !c02leafSyncType(ty) {
					out = append(out, f+".write")
					return false
				}
			}
			return true
		})
	}
	for _, st := range fd.Body.List {
		visit(st)
	}
	return out
}

func c02leafExtra(t *tr) string {
	p := t.pkg
	type meth struct {
		typ, name string
		fd        *ast.FuncDecl
	}
	byType := map[string][]meth{}
	c02leafDecls := map[types.Object]*ast.FuncDecl{}
	for _, f := range p.Syntax {
		for _, d := range f.Decls {
			fd, ok := d.(*ast.FuncDecl)
			if !ok || fd.Recv == nil || fd.Body == nil || len(fd.Recv.List) != 1 {
				continue
			}
			if o := p.TypesInfo.Defs[fd.Name]; o != nil {
				c02leafDecls[o] = fd
			}
			n, ok := c02cbDeref(p.TypesInfo.TypeOf(fd.Recv.List[0].Type)).(*types.Named)
			if !ok {
				continue
			}
			byType[n.Obj().Name()] = append(byType[n.Obj().Name()], meth{n.Obj().Name(), fd.Name.Name, fd})
		}
	}
	var leafTypes []string
	for ty, ms := range byType {
		var next, left *ast.FuncDecl
		for _, m := range ms {
			switch m.name {
			case "Next":
				next = m.fd
			case "Left":
				left = m.fd
			}
		}
		if next != nil && left != nil && !c02leafHasLock(next.Body) && !c02leafHasLock(left.Body) {
			leafTypes = append(leafTypes, ty)
		}
	}
	sort.Strings(leafTypes)
	q := func(s string) string { return strconv.Quote(s) }
	var accRows, wrRows, ordRows []string
	for _, ty := range leafTypes {
		ms := byType[ty]
		sort.Slice(ms, func(a, b int) bool { return ms[a].name < ms[b].name })
		for _, m := range ms {
			sc := &c02leafScan{p: p}
			if len(m.fd.Recv.List[0].Names) == 1 {
				sc.recv = p.TypesInfo.Defs[m.fd.Recv.List[0].Names[0]]
			}
			if m.name == "Next" || m.name == "Left" {
				var stmts []string
				for _, a := range sc.table(m.fd.Body) {
					var qs []string
					for _, x := range a {
						qs = append(qs, q(x))
					}
					stmts = append(stmts, "["+strings.Join(qs, ", ")+"]")
				}
				accRows = append(accRows, fmt.Sprintf("(%s, %s, [%s])", q(ty), q(m.name), strings.Join(stmts, ", ")))
			}
			if m.name == "Next" || m.name == "Left" || m.name == "Start" {
				var qs []string
				for _, x := range c02leafOrder(p, c02leafDecls, m.fd, 0) {
					qs = append(qs, q(x))
				}
				ordRows = append(ordRows, fmt.Sprintf("(%s, %s, [%s])", q(ty), q(m.name), strings.Join(qs, ", ")))
			}
			for _, w := range sc.plainWrites(m.fd.Body) {
				wrRows = append(wrRows, fmt.Sprintf("(%s, %s, %s, %s)", q(ty), q(m.name), q(w[0]), w[1]))
			}
		}
	}
	var b strings.Builder
	b.WriteString("/-- regenerated from `core/schedule`: for every schedule type whose `Next` and `Left` take no lock, the statements of\nthese methods that touch shared state, in source order, each with its accesses -/\n")
	b.WriteString("def leafAccesses : List (String × String × List (List String)) :=\n  [" + strings.Join(accRows, ",\n   ") + "]\n\n")
	b.WriteString("/-- … and every plain (non-atomic) write of a receiver field in any method of these types: (type, method, field,\ninside a function passed to `<sync.Once>.Do`) -/\n")
	b.WriteString("def leafPlainWrites : List (String × String × String × Bool) :=\n  [" + strings.Join(wrRows, ",\n   ") + "]\n\n")
	b.WriteString("/-- … and, per method Start / Next / Left of these types, its accesses to shared state in EXECUTION order (arguments before\nthe call, the function passed to a once entered in place, methods of the receiver — `MarkStarted()`, `IsStarted()`, extracted\nhelpers — replaced by their own accesses) -/\n")
	b.WriteString("def leafOrder : List (String × String × List String) :=\n  [" + strings.Join(ordRows, ",\n   ") + "]\n")
	return b.String()
}
