package main

// area config (C17), round 6: envTokenResolver read by WHAT IT RETURNS ON WHICH PATH, not by its layout.
//
// The resolver is executed symbolically over the one fact that matters: the `ok` result of os.LookupEnv(<parameter>).
// Every return is recorded as "<path condition>:<value>,<error>" with
//
//	path condition  found | missing | always | ? (a condition this reader does not understand)
//	value           value (the first result of that very LookupEnv call) | empty ("" literal) | the source text otherwise
//	error           nil | error
//
// so `if !ok { return "", err }; return val, nil`, `if v, found := os.LookupEnv(in); found { return v, nil }; return "", err`
// and an if/else all regenerate to ["found:value,nil", "missing:empty,error"], while a resolver that answers an unset
// variable from somewhere else (a scan of os.Environ with EqualFold: "missing:…,nil") does not.  The calls into package
// os are listed as well (os.LookupEnv only).

import (
	"go/ast"
	"go/token"
	"sort"

	"golang.org/x/tools/go/packages"
)

type configEnvState struct {
	p        *packages.Package
	param    string
	valName  string
	okName   string
	paths    map[string]bool
	osCalls  map[string]bool
	lookupOK bool // LookupEnv was called with the parameter itself
}

func configEnvIsLookup(st *configEnvState, e ast.Expr) bool {
	c, ok := e.(*ast.CallExpr)
	if !ok {
		return false
	}
	sel, ok := c.Fun.(*ast.SelectorExpr)
	if !ok {
		return false
	}
	x, ok := sel.X.(*ast.Ident)
	if !ok || x.Name != "os" || sel.Sel.Name != "LookupEnv" || len(c.Args) != 1 {
		return false
	}
	if a, ok := c.Args[0].(*ast.Ident); ok && a.Name == st.param {
		st.lookupOK = true
	}
	return true
}

func configEnvAssign(st *configEnvState, s ast.Stmt) {
	as, ok := s.(*ast.AssignStmt)
	if !ok || len(as.Lhs) != 2 || len(as.Rhs) != 1 || !configEnvIsLookup(st, as.Rhs[0]) {
		return
	}
	if v, ok := as.Lhs[0].(*ast.Ident); ok {
		st.valName = v.Name
	}
	if o, ok := as.Lhs[1].(*ast.Ident); ok {
		st.okName = o.Name
	}
}

// configEnvCond: "found" / "missing" for `ok` / `!ok`, "?" otherwise
func configEnvCond(st *configEnvState, e ast.Expr) string {
	switch x := e.(type) {
	case *ast.Ident:
		if st.okName != "" && x.Name == st.okName {
			return "found"
		}
	case *ast.ParenExpr:
		return configEnvCond(st, x.X)
	case *ast.UnaryExpr:
		if x.Op == token.NOT {
			switch configEnvCond(st, x.X) {
			case "found":
				return "missing"
			case "missing":
				return "found"
			}
		}
	}
	return "?"
}

func configEnvNeg(c string) string {
	switch c {
	case "found":
		return "missing"
	case "missing":
		return "found"
	}
	return "?"
}

// configEnvAnd: the condition of a path that already runs under `outer` and now also under `inner`
func configEnvAnd(outer, inner string) string {
	switch {
	case outer == "always":
		return inner
	case outer == inner:
		return outer
	case outer == "?" || inner == "?":
		return "?"
	}
	return "never" // found && missing
}

// configEnvWalk runs over a statement list under a path condition; it reports whether every path through the list ends
// in a return
func configEnvWalk(st *configEnvState, list []ast.Stmt, cond string) bool {
	for _, s := range list {
		switch x := s.(type) {
		case *ast.AssignStmt:
			configEnvAssign(st, x)
		case *ast.ReturnStmt:
			if cond == "never" {
				return true
			}
			val, er := "?", "?"
			if len(x.Results) == 2 {
				switch r := x.Results[0].(type) {
				case *ast.Ident:
					if r.Name == st.valName && st.valName != "" {
						val = "value"
					} else {
						val = cfSrc(st.p, r)
					}
				case *ast.BasicLit:
					if r.Value == `""` {
						val = "empty"
					} else {
						val = r.Value
					}
				default:
					val = cfSrc(st.p, x.Results[0])
				}
				if id, ok := x.Results[1].(*ast.Ident); ok && id.Name == "nil" {
					er = "nil"
				} else {
					er = "error"
				}
			}
			st.paths[cond+":"+val+","+er] = true
			return true
		case *ast.IfStmt:
			if x.Init != nil {
				configEnvAssign(st, x.Init)
			}
			c := configEnvCond(st, x.Cond)
			thenEnds := configEnvWalk(st, x.Body.List, configEnvAnd(cond, c))
			elseEnds := false
			if x.Else != nil {
				switch e := x.Else.(type) {
				case *ast.BlockStmt:
					elseEnds = configEnvWalk(st, e.List, configEnvAnd(cond, configEnvNeg(c)))
				case *ast.IfStmt:
					elseEnds = configEnvWalk(st, []ast.Stmt{e}, configEnvAnd(cond, configEnvNeg(c)))
				}
			}
			switch {
			case thenEnds && elseEnds:
				return true
			case thenEnds:
				cond = configEnvAnd(cond, configEnvNeg(c))
			case elseEnds:
				cond = configEnvAnd(cond, c)
			}
		case *ast.BlockStmt:
			if configEnvWalk(st, x.List, cond) {
				return true
			}
		case *ast.ForStmt:
			// a loop body may or may not run: its returns are paths of the current condition, the walk goes on after it
			configEnvWalk(st, x.Body.List, cond)
		case *ast.RangeStmt:
			configEnvWalk(st, x.Body.List, cond)
		case *ast.SwitchStmt:
			for _, cc := range x.Body.List {
				if cl, ok := cc.(*ast.CaseClause); ok {
					configEnvWalk(st, cl.Body, configEnvAnd(cond, "?"))
				}
			}
		}
	}
	return false
}

// configEnvFacts: the return paths and the os calls of envTokenResolver
func configEnvFacts(p *packages.Package, fd *ast.FuncDecl) (paths, osCalls []string, lookupParam bool) {
	st := &configEnvState{p: p, paths: map[string]bool{}, osCalls: map[string]bool{}}
	if fd.Type.Params != nil && len(fd.Type.Params.List) == 1 && len(fd.Type.Params.List[0].Names) == 1 {
		st.param = fd.Type.Params.List[0].Names[0].Name
	}
	ast.Inspect(fd.Body, func(n ast.Node) bool {
		if sel, ok := n.(*ast.SelectorExpr); ok {
			if x, ok := sel.X.(*ast.Ident); ok && x.Name == "os" {
				st.osCalls["os."+sel.Sel.Name] = true
			}
		}
		return true
	})
	configEnvWalk(st, fd.Body.List, "always")
	for k := range st.paths {
		paths = append(paths, k)
	}
	for k := range st.osCalls {
		osCalls = append(osCalls, k)
	}
	sort.Strings(paths)
	sort.Strings(osCalls)
	return paths, osCalls, st.lookupOK
}
