package main

// Area "locks" (property C11): for the objects the sharing model classes as `sharedSync` (or as frozen after set-up)
// re-extract from the CURRENT source which fields every instance-facing function touches and how each access is
// protected: inside `X.Lock()…Unlock()` of a mutex, through a sync/atomic value, a sync.Map, a sync.Pool, a channel,
// or not at all. Emitted as `Pandora.Gen.Locks.table : List C11LockRow`; Props/C11 proves `∀ row ∈ table, guarded`
// by `decide` and uses it as the hypothesis under which the objects may be classed `sharedSync`.
//
// Lock tracking is a small abstract interpretation of one function body: the set of held mutexes is threaded through
// the statements in source order; `defer X.Unlock()` holds to the end; a nested block (if/for/switch/select body)
// must leave the set unchanged unless it ends in `return` (`if c { mx.Unlock(); return }`). Any other shape is a
// translation error (gen exits non-zero), never a silent default. Function literals are scanned with the set held
// where they are written; `go` statements with the empty set.
//
// Entries of the held set: "W:x" after x.Lock(), "R:x" after x.RLock() (a WRITE under a read lock is reported as
// `.rmutex` and rejected by the Lean side), "O:x" inside the function passed to x.Do of a sync.Once and after that
// call (sync.Once: the completion of f synchronizes before the return of every Do). A private helper listed in
// `helpers` is scanned with the lock its callers must hold, and every call site is checked for it: a call without
// the lock is emitted as an unguarded write site "<type>.<helper>()".
//
// Every row carries a numeric object id (`oid`, the rank of the object name among the table's object names) so that
// the Lean side can reason about objects without comparing strings.

import (
	"fmt"
	"go/ast"
	"go/types"
	"os"
	"sort"
	"strings"

	"golang.org/x/tools/go/packages"
)

type lockTarget struct {
	pkg     string   // import path below github.com/yandex/pandora/
	typ     string   // struct type ("" = package variables)
	vars    []string // package variables
	setup   []string // methods that only run before instances start (their writes do not unfreeze a field)
	methods []string // if set: only these methods are instance-facing
	// randVars: additionally track EVERY package-level variable whose type is *math/rand.Rand or math/rand.Rand
	// (a rand.Rand is not safe for concurrent use; template functions and string helpers run in every instance)
	randVars bool
	// helpers: private methods that run with a mutex held by every caller (method name -> held-set entry, "W:rwMu")
	helpers map[string]string
}

var lockTargets = []lockTarget{
	{pkg: "lib/mp", typ: "NextIterator"},
	{pkg: "lib/str", vars: []string{"randSource"}, randVars: true},
	{pkg: "components/providers/scenario/templater", randVars: true},
	// the gun packages: any package-level rand.Rand they introduce is used by every instance
	{pkg: "components/guns/http", randVars: true},
	{pkg: "components/guns/http_scenario", randVars: true},
	{pkg: "components/guns/grpc", randVars: true},
	{pkg: "components/guns/grpc/scenario", randVars: true},
	{pkg: "components/guns/grpc/scenario", typ: "TextTemplater"},
	{pkg: "components/providers/scenario/http/templater", typ: "TextTemplater"},
	{pkg: "components/providers/scenario/http/templater", typ: "HTMLTemplater"},
	{pkg: "core/clientpool", typ: "Pool", setup: []string{"Add"}},
	{pkg: "components/providers/base", typ: "ProviderBase"},
	{pkg: "components/providers/grpc", typ: "Provider", methods: []string{"Acquire", "Release"}},
	{pkg: "components/providers/scenario", typ: "Provider", methods: []string{"Acquire", "Release"}},
	{pkg: "core/aggregator/netsample", vars: []string{"samplePool"}},
	{pkg: "components/providers/http/provider", typ: "Provider", methods: []string{"Acquire", "Release"}},
	// the provider's request middlewares: UpdateRequest runs inside Acquire, i.e. in every instance's goroutine, on ONE object
	{pkg: "components/providers/http/middleware/headerdate", typ: "Middleware", setup: []string{"InitMiddleware"}},
	{pkg: "components/providers/http/decoders", typ: "uriDecoder", methods: []string{"Release"}},
	{pkg: "components/providers/http/decoders", typ: "uripostDecoder", methods: []string{"Release"}},
	{pkg: "components/providers/http/decoders", typ: "rawDecoder", methods: []string{"Release"}},
	{pkg: "components/providers/http/decoders", typ: "jsonlineDecoder", methods: []string{"Release"}},
	{pkg: "core/provider", typ: "AmmoQueue", methods: []string{"Acquire", "Release"}},
	{pkg: "lib/netutil", typ: "SimpleDNSCache"},
	// schedules: one RPS schedule object is shared by all instances of a pool unless rps-per-instance is set
	{pkg: "core/schedule", typ: "StartSync"},
	{pkg: "core/schedule", typ: "doAtSchedule"},
	{pkg: "core/schedule", typ: "unlimitedSchedule"},
	{pkg: "core/schedule", typ: "compositeSchedule", helpers: map[string]string{"startNext": "W:rwMu"}},
	{pkg: "core/coreutil", typ: "callbackOnFinishSchedule"},
	// aggregators: Report is called by every instance
	{pkg: "core/aggregator/netsample", typ: "phoutAggregator", methods: []string{"Report"}},
	{pkg: "core/aggregator", typ: "Reporter", methods: []string{"Report", "dropSample"}},
	// the components of a scenario definition: one object per step, called by every instance for its own requests and
	// responses; their fields are configuration (frozen after set-up)
	{pkg: "components/providers/scenario/http/postprocessor", typ: "VarHeaderPostprocessor"},
	{pkg: "components/providers/scenario/http/postprocessor", typ: "VarJsonpathPostprocessor"},
	{pkg: "components/providers/scenario/http/postprocessor", typ: "VarXpathPostprocessor"},
	{pkg: "components/providers/scenario/http/postprocessor", typ: "AssertResponse", setup: []string{"Validate"}},
	{pkg: "components/providers/scenario/http/preprocessor", typ: "Preprocessor", setup: []string{"InitIterator"}},
	{pkg: "components/providers/scenario/grpc/preprocessor", typ: "PreparePreprocessor", setup: []string{"InitIterator"}},
	{pkg: "components/providers/scenario/grpc/postprocessor", typ: "AssertResponse", setup: []string{"Validate"}},
	{pkg: "components/providers/scenario/vs", typ: "SourceStorage", setup: []string{"AddSource"}},
}

func init() {
	areas["locks"] = area{
		pkgPath:   "github.com/yandex/pandora/lib/mp",
		module:    "Locks",
		namespace: "Pandora.Gen.Locks",
		imports:   []string{"Pandora.Model.C11Ns"},
		extra:     locksExtra,
	}
}

type lockRow struct {
	obj, method string
	write       bool
	guard       string // Lean term
	unguarded   bool   // resolved in the second pass (frozen or none)
}

// locksPromoted adds the fields promoted from embedded struct fields (outer names win, as in Go).
func locksPromoted(st *types.Struct, fields map[string]*types.Var, depth int) {
	if depth > 3 {
		return
	}
	for i := 0; i < st.NumFields(); i++ {
		f := st.Field(i)
		if !f.Embedded() {
			continue
		}
		inner, ok := derefType(f.Type()).Underlying().(*types.Struct)
		if !ok {
			continue
		}
		for j := 0; j < inner.NumFields(); j++ {
			if _, have := fields[inner.Field(j).Name()]; !have {
				fields[inner.Field(j).Name()] = inner.Field(j)
			}
		}
		locksPromoted(inner, fields, depth+1)
	}
}

func typeGuard(t types.Type) string {
	if n, ok := t.(*types.Named); ok && n.Obj().Pkg() != nil {
		switch n.Obj().Pkg().Path() {
		case "sync/atomic", "go.uber.org/atomic":
			return ".atomic"
		case "sync":
			switch n.Obj().Name() {
			case "Map":
				return ".syncMap"
			case "Pool":
				return ".syncPool"
			}
		}
	}
	if _, ok := t.Underlying().(*types.Chan); ok {
		return ".chan"
	}
	return ""
}

func isMutexType(t types.Type) bool {
	s := t.String()
	return strings.HasSuffix(s, "sync.Mutex") || strings.HasSuffix(s, "sync.RWMutex")
}

func isOnceType(t types.Type) bool {
	return strings.HasSuffix(derefType(t).String(), "sync.Once")
}

func isRandType(t types.Type) bool {
	return strings.HasSuffix(t.String(), "math/rand.Rand")
}

type lockScan struct {
	t      *tr
	p      *packages.Package
	tgt    lockTarget
	recv   types.Object            // receiver variable of the current method (nil for plain funcs)
	fields map[string]*types.Var   // fields of the target struct
	vars   map[types.Object]string // target package variables
	fn     string
	held   []string
	rows   []lockRow
	writes map[ast.Expr]bool
}

func (s *lockScan) fail(n ast.Node, format string, a ...any) {
	s.t.errs = append(s.t.errs, fmt.Sprintf("%s: unsupported: %s", s.p.Fset.Position(n.Pos()), fmt.Sprintf(format, a...)))
}

// lockCall recognises X.Lock() / X.RLock() / X.Unlock() / X.RUnlock() on a mutex; returns (name, op).
func (s *lockScan) lockCall(e ast.Expr) (string, string) {
	call, ok := e.(*ast.CallExpr)
	if !ok {
		return "", ""
	}
	sel, ok := call.Fun.(*ast.SelectorExpr)
	if !ok {
		return "", ""
	}
	op := sel.Sel.Name
	if op != "Lock" && op != "RLock" && op != "Unlock" && op != "RUnlock" {
		return "", ""
	}
	tv, ok := s.p.TypesInfo.Types[sel.X]
	if !ok || !isMutexType(tv.Type) {
		return "", ""
	}
	name := types.ExprString(sel.X)
	if i := strings.LastIndex(name, "."); i >= 0 {
		name = name[i+1:]
	}
	return name, op
}

// onceCall recognises X.Do(f) on a sync.Once; returns the name of X and the argument.
func (s *lockScan) onceCall(e ast.Expr) (string, ast.Expr) {
	call, ok := e.(*ast.CallExpr)
	if !ok || len(call.Args) != 1 {
		return "", nil
	}
	sel, ok := call.Fun.(*ast.SelectorExpr)
	if !ok || sel.Sel.Name != "Do" {
		return "", nil
	}
	tv, ok := s.p.TypesInfo.Types[sel.X]
	if !ok || !isOnceType(tv.Type) {
		return "", nil
	}
	name := types.ExprString(sel.X)
	if i := strings.LastIndex(name, "."); i >= 0 {
		name = name[i+1:]
	}
	return name, call.Args[0]
}

func isPanicCall(e ast.Expr) bool {
	call, ok := e.(*ast.CallExpr)
	if !ok {
		return false
	}
	id, ok := call.Fun.(*ast.Ident)
	return ok && id.Name == "panic"
}

// guardOf: the protection a held set gives: a write lock, else a read lock, else a Once.
func guardOf(held []string) string {
	for _, pre := range []string{"W:", "R:", "O:"} {
		for _, h := range held {
			if strings.HasPrefix(h, pre) {
				switch pre {
				case "W:":
					return fmt.Sprintf(".mutex %q", h[2:])
				case "R:":
					return fmt.Sprintf(".rmutex %q", h[2:])
				default:
					return fmt.Sprintf(".once %q", h[2:])
				}
			}
		}
	}
	return ""
}

func baseOf(e ast.Expr) ast.Expr {
	for {
		switch x := e.(type) {
		case *ast.IndexExpr:
			e = x.X
		case *ast.StarExpr:
			e = x.X
		case *ast.ParenExpr:
			e = x.X
		case *ast.SliceExpr:
			e = x.X
		default:
			return e
		}
	}
}

// target returns (object name, type) if e is an access to a tracked field / variable.
func (s *lockScan) target(e ast.Expr) (string, types.Type, bool) {
	switch x := e.(type) {
	case *ast.SelectorExpr:
		id, ok := x.X.(*ast.Ident)
		if !ok || s.recv == nil || s.p.TypesInfo.Uses[id] != s.recv {
			return "", nil, false
		}
		f, ok := s.fields[x.Sel.Name]
		if !ok {
			return "", nil, false
		}
		return s.tgt.pkg + "." + s.tgt.typ + "." + x.Sel.Name, f.Type(), true
	case *ast.Ident:
		obj := s.p.TypesInfo.Uses[x]
		if name, ok := s.vars[obj]; ok {
			return s.tgt.pkg + "." + name, obj.Type(), true
		}
	}
	return "", nil, false
}

func (s *lockScan) scanExprs(n ast.Node) {
	// writes: assignment / inc-dec targets
	ast.Inspect(n, func(m ast.Node) bool {
		switch x := m.(type) {
		case *ast.AssignStmt:
			for _, l := range x.Lhs {
				s.writes[baseOf(l)] = true
			}
		case *ast.IncDecStmt:
			s.writes[baseOf(x.X)] = true
		case *ast.CallExpr:
			// a method call on a *rand.Rand mutates it
			if sel, ok := x.Fun.(*ast.SelectorExpr); ok {
				if tv, ok := s.p.TypesInfo.Types[sel.X]; ok && isRandType(derefType(tv.Type)) {
					s.writes[baseOf(sel.X)] = true
				}
			}
		}
		return true
	})
	ast.Inspect(n, func(m ast.Node) bool {
		e, ok := m.(ast.Expr)
		if !ok {
			return true
		}
		if call, ok := e.(*ast.CallExpr); ok && s.recv != nil {
			if sel, ok := call.Fun.(*ast.SelectorExpr); ok {
				if id, ok := sel.X.(*ast.Ident); ok && s.p.TypesInfo.Uses[id] == s.recv {
					if need, ok := s.tgt.helpers[sel.Sel.Name]; ok && !contains(s.held, need) {
						// the helper relies on its caller holding the lock: this caller does not
						s.rows = append(s.rows, lockRow{obj: s.tgt.pkg + "." + s.tgt.typ + "." + sel.Sel.Name + "()", method: s.fn,
							write: true, unguarded: true})
					}
				}
			}
		}
		obj, ty, ok := s.target(e)
		if !ok {
			return true
		}
		if isMutexType(ty) || isOnceType(ty) {
			return false
		}
		row := lockRow{obj: obj, method: s.fn, write: s.writes[e]}
		if g := typeGuard(derefType(ty)); g != "" {
			row.guard = g
		} else if g := guardOf(s.held); g != "" {
			row.guard = g
		} else {
			row.unguarded = true
		}
		s.rows = append(s.rows, row)
		return false
	})
}

func derefType(t types.Type) types.Type {
	if p, ok := t.(*types.Pointer); ok {
		return p.Elem()
	}
	return t
}

// scanStmts interprets a statement list with the set of mutexes held on entry; returns the set held at the end and
// whether the list always ends in a return. Lock/Unlock calls are understood as statements at any nesting depth; a
// nested block must leave the held set as it found it unless it ends in `return` (e.g. `if c { mx.Unlock(); return }`).
func (s *lockScan) scanStmts(list []ast.Stmt, held []string) ([]string, bool) {
	for _, st := range list {
		var term bool
		held, term = s.scanStmt(st, held)
		if term {
			return held, true
		}
	}
	return held, false
}

func dropOnce(a []string) []string {
	var out []string
	for _, h := range a {
		if !strings.HasPrefix(h, "O:") {
			out = append(out, h)
		}
	}
	return out
}

func sameHeld(a, b []string) bool {
	a, b = dropOnce(a), dropOnce(b)
	if len(a) != len(b) {
		return false
	}
	for i := range a {
		if a[i] != b[i] {
			return false
		}
	}
	return true
}

func (s *lockScan) exprs(held []string, ns ...ast.Node) {
	s.held = held
	for _, n := range ns {
		if n == nil {
			continue
		}
		s.scanExprs(n)
	}
}

// nested: a block inside a compound statement; must preserve the held set unless it terminates
func (s *lockScan) nested(at ast.Node, list []ast.Stmt, held []string) {
	out, term := s.scanStmts(list, append([]string(nil), held...))
	if !term && !sameHeld(out, held) {
		s.fail(at, "nested block of %s changes the set of held mutexes %v -> %v without returning", s.fn, held, out)
	}
}

func (s *lockScan) scanStmt(st ast.Stmt, held []string) ([]string, bool) {
	switch x := st.(type) {
	case *ast.ExprStmt:
		if name, op := s.lockCall(x.X); name != "" {
			switch op {
			case "Lock":
				return append(append([]string(nil), held...), "W:"+name), false
			case "RLock":
				return append(append([]string(nil), held...), "R:"+name), false
			}
			drop := "W:" + name
			if op == "RUnlock" {
				drop = "R:" + name
			}
			var keep []string
			for _, h := range held {
				if h != drop {
					keep = append(keep, h)
				}
			}
			return keep, false
		}
		if name, arg := s.onceCall(x.X); name != "" {
			in := append(append([]string(nil), held...), "O:"+name)
			s.exprs(in, arg)
			return in, false // what follows is ordered after the one execution of the function
		}
		if isPanicCall(x.X) {
			s.exprs(held, x)
			return held, true
		}
		s.exprs(held, x)
	case *ast.DeferStmt:
		if name, op := s.lockCall(x.Call); name != "" && (op == "Unlock" || op == "RUnlock") {
			return held, false // held until the function returns
		}
		s.exprs(held, x)
	case *ast.GoStmt:
		s.exprs(nil, x) // a new goroutine holds nothing
	case *ast.ReturnStmt:
		s.exprs(held, x)
		return held, true
	case *ast.BlockStmt:
		return s.scanStmts(x.List, held)
	case *ast.LabeledStmt:
		return s.scanStmt(x.Stmt, held)
	case *ast.IfStmt:
		if x.Init != nil {
			held, _ = s.scanStmt(x.Init, held)
		}
		s.exprs(held, x.Cond)
		s.nested(x, x.Body.List, held)
		if x.Else != nil {
			s.nested(x, []ast.Stmt{x.Else}, held)
		}
	case *ast.ForStmt:
		if x.Init != nil {
			held, _ = s.scanStmt(x.Init, held)
		}
		s.exprs(held, x.Cond, x.Post)
		s.nested(x, x.Body.List, held)
	case *ast.RangeStmt:
		s.exprs(held, x.Key, x.Value, x.X)
		s.nested(x, x.Body.List, held)
	case *ast.SwitchStmt:
		if x.Init != nil {
			held, _ = s.scanStmt(x.Init, held)
		}
		s.exprs(held, x.Tag)
		for _, c := range x.Body.List {
			cc := c.(*ast.CaseClause)
			for _, e := range cc.List {
				s.exprs(held, e)
			}
			s.nested(cc, cc.Body, held)
		}
	case *ast.TypeSwitchStmt:
		if x.Init != nil {
			held, _ = s.scanStmt(x.Init, held)
		}
		s.exprs(held, x.Assign)
		for _, c := range x.Body.List {
			cc := c.(*ast.CaseClause)
			s.nested(cc, cc.Body, held)
		}
	case *ast.SelectStmt:
		for _, c := range x.Body.List {
			cc := c.(*ast.CommClause)
			if cc.Comm != nil {
				s.exprs(held, cc.Comm)
			}
			s.nested(cc, cc.Body, held)
		}
	default:
		s.exprs(held, st)
	}
	return held, false
}

func (s *lockScan) scanBody(body *ast.BlockStmt) {
	var held []string
	if h, ok := s.tgt.helpers[s.fn]; ok {
		held = []string{h}
	}
	s.scanStmts(body.List, held)
}

func contains(xs []string, x string) bool {
	for _, y := range xs {
		if x == y {
			return true
		}
	}
	return false
}

// loadMany loads all target packages with ONE go/packages call (the dependency graph is type-checked once).
func loadMany() map[string]*packages.Package {
	seen := map[string]bool{}
	var paths []string
	for _, tgt := range lockTargets {
		full := "github.com/yandex/pandora/" + tgt.pkg
		if !seen[full] {
			seen[full] = true
			paths = append(paths, full)
		}
	}
	paths = append(paths, enginePkg)
	paths = append(paths, locksScanPatterns...)
	cfg := &packages.Config{Mode: packages.NeedName | packages.NeedSyntax | packages.NeedTypes | packages.NeedTypesInfo |
		packages.NeedFiles | packages.NeedImports | packages.NeedDeps, Dir: repo, BuildFlags: []string{"-tags=verif"}}
	pkgs, err := packages.Load(cfg, paths...)
	if err != nil {
		fmt.Fprintln(os.Stderr, "load:", err)
		os.Exit(1)
	}
	out := map[string]*packages.Package{}
	for _, p := range pkgs {
		if len(p.Errors) > 0 {
			fmt.Fprintln(os.Stderr, "load errors:", p.PkgPath, p.Errors)
			os.Exit(1)
		}
		out[p.PkgPath] = p
	}
	return out
}

const enginePkg = "github.com/yandex/pandora/core/engine"

// locksEngineFacts: how the engine gets and uses guns, read off core/engine: every call of the pool's gun factory
// (`NewGun` / the `newGun` dependency) with the function it occurs in and whether it sits inside a loop or a function
// literal; where the
// `newGun` dependency is wired from; every call of a gun's `Shoot` with its receiver expression.
func locksEngineFacts(t *tr, p *packages.Package) string {
	if p == nil {
		t.errs = append(t.errs, "package core/engine not loaded")
		return ""
	}
	var factory, wiring, shoots, creates, runs []string
	for _, f := range p.Syntax {
		if strings.HasSuffix(p.Fset.Position(f.Pos()).Filename, "_test.go") {
			continue
		}
		for _, d := range f.Decls {
			fd, ok := d.(*ast.FuncDecl)
			if !ok || fd.Body == nil {
				continue
			}
			var walk func(n ast.Node, inLoop, inLit bool)
			walk = func(n ast.Node, inLoop, inLit bool) {
				ast.Inspect(n, func(m ast.Node) bool {
					switch x := m.(type) {
					case *ast.ForStmt:
						if m != n {
							walk(x, true, inLit)
							return false
						}
					case *ast.RangeStmt:
						if m != n {
							walk(x, true, inLit)
							return false
						}
					case *ast.FuncLit:
						// a call inside a function literal (sync.Once body, deferred closure …) does not run once per call of
						// the enclosing function: the gun factory calls are flagged for it like for a loop
						if m != n {
							walk(x, inLoop, true)
							return false
						}
					case *ast.CallExpr:
						if id, ok := x.Fun.(*ast.Ident); ok && id.Name == "newInstance" {
							creates = append(creates, fmt.Sprintf("(%q, %v)", fd.Name.Name, inLoop))
						}
						if sel, ok := x.Fun.(*ast.SelectorExpr); ok {
							if tv, ok := p.TypesInfo.Types[sel.X]; ok && sel.Sel.Name == "Run" && strings.HasSuffix(tv.Type.String(), "core/engine.instance") {
								runs = append(runs, fmt.Sprintf("(%q, %v)", fd.Name.Name, inLoop))
							}
							switch sel.Sel.Name {
							case "NewGun", "newGun":
								factory = append(factory, fmt.Sprintf("(%q, %q, %v)", fd.Name.Name, types.ExprString(x.Fun), inLoop || inLit))
							case "Shoot":
								shoots = append(shoots, fmt.Sprintf("(%q, %q)", fd.Name.Name, types.ExprString(sel.X)))
							}
						}
					case *ast.KeyValueExpr:
						if id, ok := x.Key.(*ast.Ident); ok && (id.Name == "newGun" || id.Name == "gun") {
							wiring = append(wiring, fmt.Sprintf("(%q, %q)", fd.Name.Name, id.Name+": "+types.ExprString(x.Value)))
						}
					case *ast.AssignStmt:
						for i, l := range x.Lhs {
							if sel, ok := l.(*ast.SelectorExpr); ok && (sel.Sel.Name == "newGun" || sel.Sel.Name == "NewGun" || sel.Sel.Name == "gun") && i < len(x.Rhs) {
								wiring = append(wiring, fmt.Sprintf("(%q, %q)", fd.Name.Name, types.ExprString(l)+" = "+types.ExprString(x.Rhs[i])))
							}
						}
					}
					return true
				})
			}
			walk(fd.Body, false, false)
		}
	}
	sort.Strings(factory)
	sort.Strings(wiring)
	sort.Strings(shoots)
	sort.Strings(creates)
	sort.Strings(runs)
	var b strings.Builder
	b.WriteString("\n/-- regenerated from core/engine: every call of the gun factory (function, callee, inside a loop or a function literal?) -/\n")
	b.WriteString("def gunFactoryCalls : List (String × String × Bool) := [" + strings.Join(factory, ", ") + "]\n")
	b.WriteString("\n/-- where the instances' `newGun` dependency (and any `gun` field) is assigned from -/\n")
	b.WriteString("def gunWiring : List (String × String) := [" + strings.Join(wiring, ", ") + "]\n")
	b.WriteString("\n/-- every call of `Shoot` in the engine: (function, receiver) -/\n")
	b.WriteString("def shootCalls : List (String × String) := [" + strings.Join(shoots, ", ") + "]\n")
	b.WriteString("\n/-- every call of `newInstance`: (function, inside a loop?) -/\n")
	b.WriteString("def instanceCreations : List (String × Bool) := [" + strings.Join(creates, ", ") + "]\n")
	b.WriteString("\n/-- every call of `(*instance).Run`: (function, inside a loop?) -/\n")
	b.WriteString("def instanceRuns : List (String × Bool) := [" + strings.Join(runs, ", ") + "]\n")
	return b.String()
}

func locksExtra(t *tr) string {
	var all []lockRow
	loaded := loadMany()
	for _, tgt := range lockTargets {
		full := "github.com/yandex/pandora/" + tgt.pkg
		p := loaded[full]
		if p == nil {
			t.errs = append(t.errs, fmt.Sprintf("package %s not loaded", full))
			continue
		}
		s := &lockScan{t: t, p: p, tgt: tgt, fields: map[string]*types.Var{}, vars: map[types.Object]string{}}
		if tgt.typ != "" {
			obj := p.Types.Scope().Lookup(tgt.typ)
			if obj == nil {
				t.errs = append(t.errs, fmt.Sprintf("type %s.%s not found", tgt.pkg, tgt.typ))
				continue
			}
			st, ok := obj.Type().Underlying().(*types.Struct)
			if !ok {
				t.errs = append(t.errs, fmt.Sprintf("%s.%s is not a struct", tgt.pkg, tgt.typ))
				continue
			}
			for i := 0; i < st.NumFields(); i++ {
				s.fields[st.Field(i).Name()] = st.Field(i)
			}
			// fields promoted from embedded structs (`p.Middlewares` of a Provider that embeds its Config) are fields of the
			// object as well
			locksPromoted(st, s.fields, 0)
		}
		for _, v := range tgt.vars {
			obj := p.Types.Scope().Lookup(v)
			if obj == nil {
				// the variable is gone (e.g. replaced by the goroutine-safe top-level math/rand functions): no rows
				continue
			}
			s.vars[obj] = v
		}
		if tgt.randVars {
			for _, name := range p.Types.Scope().Names() {
				if v, ok := p.Types.Scope().Lookup(name).(*types.Var); ok && isRandType(derefType(v.Type())) {
					s.vars[v] = name
				}
			}
		}
		// pass 1: collect accesses; remember which fields are written outside set-up
		var rows []lockRow
		writtenLate := map[string]bool{}
		for _, f := range p.Syntax {
			for _, d := range f.Decls {
				fd, ok := d.(*ast.FuncDecl)
				if !ok || fd.Body == nil {
					continue
				}
				s.recv = nil
				isMethod := false
				if fd.Recv != nil && len(fd.Recv.List) == 1 && tgt.typ != "" {
					rt := p.TypesInfo.TypeOf(fd.Recv.List[0].Type)
					if n, ok := derefType(rt).(*types.Named); ok && n.Obj().Name() == tgt.typ && n.Obj().Pkg() == p.Types {
						isMethod = true
						if len(fd.Recv.List[0].Names) == 1 {
							s.recv = p.TypesInfo.Defs[fd.Recv.List[0].Names[0]]
						}
					}
				}
				if tgt.typ != "" && !isMethod {
					continue
				}
				if tgt.typ != "" && len(tgt.methods) > 0 && !contains(tgt.methods, fd.Name.Name) {
					continue
				}
				s.fn = fd.Name.Name
				s.rows = nil
				s.writes = map[ast.Expr]bool{}
				s.scanBody(fd.Body)
				setup := contains(tgt.setup, fd.Name.Name) || strings.HasPrefix(fd.Name.Name, "New") || fd.Name.Name == "init"
				for _, r := range s.rows {
					if setup {
						continue
					}
					if r.write {
						writtenLate[r.obj] = true
					}
					rows = append(rows, r)
				}
			}
		}
		// pass 2: an unguarded read of a field never written after set-up is `frozen`; everything else unguarded is `none`
		for i := range rows {
			if rows[i].unguarded {
				if !rows[i].write && !writtenLate[rows[i].obj] {
					rows[i].guard = ".frozen"
				} else {
					rows[i].guard = ".none"
				}
			}
		}
		all = append(all, rows...)
	}
	// canonical order, duplicates removed; object ids = rank of the object name
	names := map[string]bool{}
	for _, r := range all {
		names[r.obj] = true
	}
	var sortedNames []string
	for n := range names {
		sortedNames = append(sortedNames, n)
	}
	sort.Strings(sortedNames)
	oid := map[string]int{}
	for i, n := range sortedNames {
		oid[n] = i
	}
	seen := map[string]bool{}
	var lines []string
	for _, r := range all {
		l := fmt.Sprintf("  ⟨%03d, %q, %q, %v, %s⟩", oid[r.obj], r.obj, r.method, r.write, r.guard)
		if !seen[l] {
			seen[l] = true
			lines = append(lines, l)
		}
	}
	sort.Strings(lines)
	for i := range lines {
		// "⟨007, " -> "⟨7, " (the zero padding is only there for the sort)
		j := strings.Index(lines[i], "⟨") + len("⟨")
		k := j
		for k < j+2 && lines[i][k] == '0' {
			k++
		}
		lines[i] = lines[i][:j] + lines[i][k:]
	}
	var b strings.Builder
	b.WriteString("/-- regenerated lock facts: every access of an instance-facing function to a field / package variable of the\n")
	b.WriteString("objects listed in gen/area_locks.go, with the protection found in the source -/\n")
	b.WriteString("def table : List C11LockRow := [\n")
	b.WriteString(strings.Join(lines, ",\n"))
	b.WriteString("\n]\n")
	b.WriteString(locksEngineFacts(t, loaded[enginePkg]))
	var scanned []*packages.Package
	for _, p := range loaded {
		if locksScanned(p) {
			scanned = append(scanned, p)
		}
	}
	sort.Slice(scanned, func(i, j int) bool { return scanned[i].PkgPath < scanned[j].PkgPath })
	b.WriteString(locksClosureFacts(t, scanned))
	b.WriteString(locksHandoverSites(t, scanned))
	b.WriteString(locksPkgVars(t, scanned))
	b.WriteString(locksSubstr(t, loaded[locksPostprocPkg]))
	b.WriteString(locksAmmoFlows(t, scanned))
	b.WriteString(locksPooledEscapes(t, scanned))
	b.WriteString(locksIndexFacts(t, loaded))
	b.WriteString(locksSetupCallers(t, loaded))
	return b.String()
}
