package main

// Area "hclyaml", round 3: more facts about the way from the FILE to the ammo, regenerated from the current source.
//
//	extSubject      what `ReadAmmoConfig` tests in its extension switch: the chain of calls the tested value goes through,
//	                outermost first, down to the parameter it comes from (strings.ToLower <- FileInfo.Name <- File.Stat <-
//	                Fs.Open <- param:fileName); every case of the switch must test the same value
//	pkgStateUses    every use of a package-level VARIABLE of a pandora package in the functions reachable (inside
//	                scenario/config) from ReadAmmoConfig / ParseHCLFile / ConvertHCLToAmmo / ParseAmmoConfig / DecodeMap:
//	                (function, variable, "read" | "write" | "method" | "addr" | "escapes") — a cache, a pool, a hoisted
//	                parser or context is state that survives from one file to the next
//	providerFlow    scenario/http and scenario/grpc NewProvider: where the file name (conf.File) and the decoded
//	                *AmmoConfig flow: (provider, callee, argument index, "file" | "cfg"); any other use is "<other>"
//
// Everything with an unexpected shape is a translation error (gen exits non-zero).

import (
	"fmt"
	"go/ast"
	"go/token"
	"go/types"
	"sort"
	"strings"

	"golang.org/x/tools/go/packages"
)

// hyR3DefOf: the single `x := e` / `x, y := f()` that defines local variable o inside fd (nil when o is a parameter or
// is assigned more than once)
func hyR3DefOf(p *packages.Package, fd *ast.FuncDecl, o types.Object) (ast.Expr, int) {
	var rhs ast.Expr
	idx, n := 0, 0
	ast.Inspect(fd.Body, func(x ast.Node) bool {
		as, ok := x.(*ast.AssignStmt)
		if !ok {
			return true
		}
		for i, l := range as.Lhs {
			id, ok := l.(*ast.Ident)
			if !ok {
				continue
			}
			if p.TypesInfo.Defs[id] == o || p.TypesInfo.Uses[id] == o {
				n++
				if len(as.Rhs) == len(as.Lhs) {
					rhs, idx = as.Rhs[i], 0
				} else if len(as.Rhs) == 1 {
					rhs, idx = as.Rhs[0], i
				}
			}
		}
		return true
	})
	if n != 1 {
		return nil, 0
	}
	return rhs, idx
}

// hyR3Chain: the calls an expression goes through, outermost first
func hyR3Chain(p *packages.Package, fd *ast.FuncDecl, e ast.Expr, depth int) []string {
	if depth > 12 {
		return []string{"<deep>"}
	}
	switch x := e.(type) {
	case *ast.ParenExpr:
		return hyR3Chain(p, fd, x.X, depth+1)
	case *ast.CallExpr:
		name := hyCalleeName(p, x)
		var next ast.Expr
		if sel, ok := x.Fun.(*ast.SelectorExpr); ok {
			if _, isPkg := hyObj(p, sel.X).(*types.PkgName); !isPkg {
				next = sel.X // method call: follow the receiver …
				if rc := hyR3Chain(p, fd, sel.X, depth+1); len(rc) == 1 && strings.HasPrefix(rc[0], "param:") && len(x.Args) > 0 {
					next = x.Args[0] // … unless it is a parameter itself (fs.Open(fileName)): follow the argument
				}
			}
		}
		if next == nil && len(x.Args) > 0 {
			next = x.Args[0]
		}
		if next == nil {
			return []string{name}
		}
		return append([]string{name}, hyR3Chain(p, fd, next, depth+1)...)
	case *ast.Ident:
		o := hyObj(p, x)
		v, ok := o.(*types.Var)
		if !ok {
			return []string{"<" + x.Name + ">"}
		}
		if fd.Type.Params != nil {
			for _, f := range fd.Type.Params.List {
				for _, n := range f.Names {
					if p.TypesInfo.Defs[n] == v {
						return []string{"param:" + n.Name}
					}
				}
			}
		}
		if rhs, _ := hyR3DefOf(p, fd, v); rhs != nil {
			return hyR3Chain(p, fd, rhs, depth+1)
		}
		return []string{"<reassigned:" + x.Name + ">"}
	}
	return []string{"<" + hyNodeString(p, e) + ">"}
}

func hyR3ExtSubject(g *hyGen, p *packages.Package) string {
	fd := findFunc(p, "ReadAmmoConfig")
	var chains [][]string
	if fd == nil {
		g.fail("ReadAmmoConfig not found")
	} else {
		var sw *ast.SwitchStmt
		ast.Inspect(fd.Body, func(n ast.Node) bool {
			if s, ok := n.(*ast.SwitchStmt); ok && s.Tag == nil && sw == nil {
				sw = s
			}
			return true
		})
		if sw != nil {
			for _, cs := range sw.Body.List {
				for _, e := range cs.(*ast.CaseClause).List {
					ast.Inspect(e, func(n ast.Node) bool {
						c, ok := n.(*ast.CallExpr)
						if !ok || len(c.Args) != 2 {
							return true
						}
						if sel, ok := c.Fun.(*ast.SelectorExpr); ok && (sel.Sel.Name == "HasSuffix" || sel.Sel.Name == "HasPrefix") {
							chains = append(chains, hyR3Chain(p, fd, c.Args[0], 0))
							return false
						}
						return true
					})
				}
			}
		}
	}
	if len(chains) == 0 {
		g.fail("ReadAmmoConfig: no HasSuffix / HasPrefix test of the file name found")
		chains = [][]string{{"<none>"}}
	}
	for _, c := range chains[1:] {
		if strings.Join(c, "|") != strings.Join(chains[0], "|") {
			g.fail("ReadAmmoConfig: the cases of the extension switch test different values: %v vs %v", chains[0], c)
		}
	}
	return "/-- what the extension switch of `ReadAmmoConfig` tests: the calls the tested value goes through, outermost first,\ndown to the parameter it comes from -/\n" +
		"def extSubject : List String := " + hyStrList(chains[0]) + "\n\n"
}

// ---- package-level state

func hyR3IsPandoraPkgVar(o types.Object) bool {
	v, ok := o.(*types.Var)
	if !ok || v.IsField() || v.Pkg() == nil {
		return false
	}
	if v.Parent() != v.Pkg().Scope() {
		return false
	}
	return strings.HasPrefix(v.Pkg().Path(), "github.com/yandex/pandora")
}

func hyR3RefType(t types.Type) bool {
	switch t.Underlying().(type) {
	case *types.Pointer, *types.Map, *types.Slice, *types.Chan, *types.Interface, *types.Signature:
		return true
	}
	return false
}

func hyR3StateUses(g *hyGen, p *packages.Package) string {
	roots := []string{"ReadAmmoConfig", "ParseHCLFile", "ConvertHCLToAmmo", "ParseAmmoConfig", "DecodeMap"}
	seen := map[string]bool{}
	var order []string
	var visit func(name string)
	decls := map[string]*ast.FuncDecl{}
	for _, f := range p.Syntax {
		for _, d := range f.Decls {
			if fd, ok := d.(*ast.FuncDecl); ok && fd.Recv == nil && fd.Body != nil {
				decls[fd.Name.Name] = fd
			}
		}
	}
	visit = func(name string) {
		if seen[name] {
			return
		}
		fd := decls[name]
		if fd == nil {
			return
		}
		seen[name] = true
		order = append(order, name)
		ast.Inspect(fd.Body, func(n ast.Node) bool {
			if id, ok := n.(*ast.Ident); ok {
				if fn, ok := p.TypesInfo.Uses[id].(*types.Func); ok && fn.Pkg() != nil && fn.Pkg().Path() == hyCfgPkg {
					if sig, ok := fn.Type().(*types.Signature); ok && sig.Recv() == nil {
						visit(fn.Name())
					}
				}
			}
			return true
		})
	}
	for _, r := range roots {
		if decls[r] == nil {
			g.fail("%s not found", r)
		}
		visit(r)
	}
	var rows []string
	for _, name := range order {
		fd := decls[name]
		// classify every identifier that denotes a package-level variable by the syntactic position it stands in
		var stack []ast.Node
		ast.Inspect(fd.Body, func(n ast.Node) bool {
			if n == nil {
				stack = stack[:len(stack)-1]
				return true
			}
			stack = append(stack, n)
			id, ok := n.(*ast.Ident)
			if !ok {
				return true
			}
			o := p.TypesInfo.Uses[id]
			if !hyR3IsPandoraPkgVar(o) {
				return true
			}
			// climb: x, pkg.x, x[i], x.f, (x)
			cur := ast.Node(id)
			i := len(stack) - 2
			use := "read"
			for ; i >= 0; i-- {
				par := stack[i]
				switch q := par.(type) {
				case *ast.SelectorExpr:
					if q.Sel == cur { // pkg.x
						cur = q
						continue
					}
					// x.f…: a method call on x, or a field of x
					if i > 0 {
						if c, ok := stack[i-1].(*ast.CallExpr); ok && c.Fun == q {
							if _, isFn := p.TypesInfo.Uses[q.Sel].(*types.Func); isFn {
								use = "method"
							}
						}
					}
					cur = q
					continue
				case *ast.IndexExpr:
					if q.X == cur {
						cur = q
						continue
					}
				case *ast.ParenExpr:
					cur = q
					continue
				case *ast.StarExpr:
					cur = q
					continue
				case *ast.UnaryExpr:
					if q.Op == token.AND {
						use = "addr"
					}
				case *ast.AssignStmt:
					for _, l := range q.Lhs {
						if l == cur {
							use = "write"
						}
					}
				case *ast.IncDecStmt:
					if q.X == cur {
						use = "write"
					}
				case *ast.CallExpr:
					for _, a := range q.Args {
						if a == cur && use == "read" && hyR3RefType(p.TypesInfo.TypeOf(a)) {
							use = "escapes"
						}
					}
				case *ast.RangeStmt:
					if q.Key == cur || q.Value == cur {
						use = "write"
					}
				}
				break
			}
			rows = append(rows, fmt.Sprintf("(%q, %q, %q)", name, o.Pkg().Name()+"."+o.Name(), use))
			return true
		})
	}
	sort.Strings(rows)
	// de-duplicate
	var uniq []string
	for i, r := range rows {
		if i == 0 || rows[i-1] != r {
			uniq = append(uniq, r)
		}
	}
	return "/-- the functions of scenario/config reachable from the two front-ends (discovery order) -/\n" +
		"def frontEndFunctions : List String := " + hyStrList(order) + "\n\n" +
		"/-- every use of a package-level variable of a pandora package in those functions:\n(function, variable, \"read\" | \"write\" | \"method\" | \"addr\" | \"escapes\") -/\n" +
		"def pkgStateUses : List (String × String × String) := [" + strings.Join(uniq, ", ") + "]\n\n"
}

// ---- the providers: where the file name and the decoded config go

func hyR3ProviderFlow(g *hyGen) string {
	var rows []string
	for _, pv := range []struct{ tag, path string }{{"http", hyHTTPPkg}, {"grpc", hyGRPCPkg}} {
		pp := hclyamlLoad(pv.path)
		fd := findFunc(pp, "NewProvider")
		if fd == nil {
			g.fail("%s.NewProvider not found", pv.path)
			continue
		}
		// the variable holding ReadAmmoConfig's result
		var cfgObj types.Object
		ast.Inspect(fd.Body, func(n ast.Node) bool {
			as, ok := n.(*ast.AssignStmt)
			if !ok || len(as.Rhs) != 1 {
				return true
			}
			if c, ok := as.Rhs[0].(*ast.CallExpr); ok && strings.HasSuffix(hyCalleeName(pp, c), "ReadAmmoConfig") && len(as.Lhs) > 0 {
				cfgObj = hyObj(pp, as.Lhs[0])
			}
			return true
		})
		if cfgObj == nil {
			g.fail("%s.NewProvider: no `cfg, err := config.ReadAmmoConfig(…)`", pv.path)
			continue
		}
		isFile := func(e ast.Expr) bool {
			sel, ok := e.(*ast.SelectorExpr)
			if !ok || sel.Sel.Name != "File" {
				return false
			}
			t := pp.TypesInfo.TypeOf(sel.X)
			if t == nil {
				return false
			}
			if pt, ok := t.(*types.Pointer); ok {
				t = pt.Elem()
			}
			n, ok := t.(*types.Named)
			return ok && n.Obj().Name() == "ProviderConfig"
		}
		isCfg := func(e ast.Expr) bool {
			id, ok := e.(*ast.Ident)
			return ok && pp.TypesInfo.Uses[id] == cfgObj
		}
		accounted := map[ast.Node]bool{}
		ast.Inspect(fd.Body, func(n ast.Node) bool {
			c, ok := n.(*ast.CallExpr)
			if !ok {
				return true
			}
			for i, a := range c.Args {
				switch {
				case isFile(a):
					rows = append(rows, fmt.Sprintf("(%q, %q, %d, %q)", pv.tag, hyCalleeName(pp, c), i, "file"))
					accounted[a] = true
				case isCfg(a):
					rows = append(rows, fmt.Sprintf("(%q, %q, %d, %q)", pv.tag, hyCalleeName(pp, c), i, "cfg"))
					accounted[a] = true
				}
			}
			return true
		})
		// any other mention of the two values
		ast.Inspect(fd.Body, func(n ast.Node) bool {
			e, ok := n.(ast.Expr)
			if !ok || accounted[n] {
				return true
			}
			if isFile(e) {
				rows = append(rows, fmt.Sprintf("(%q, %q, %d, %q)", pv.tag, "<other>", 0, "file"))
				return false
			}
			if id, ok := e.(*ast.Ident); ok && pp.TypesInfo.Uses[id] == cfgObj {
				rows = append(rows, fmt.Sprintf("(%q, %q, %d, %q)", pv.tag, "<other>", 0, "cfg"))
			}
			return true
		})
	}
	return "/-- `scenario/http.NewProvider`, `scenario/grpc.NewProvider`: the calls that receive the file name (`conf.File`) or the\ndecoded `*AmmoConfig` (the result of `ReadAmmoConfig`): (provider, callee, argument index, \"file\" | \"cfg\");\nany other use of either value is reported with callee \"<other>\" -/\n" +
		"def providerFlow : List (String × String × Nat × String) := [\n  " + strings.Join(rows, ",\n  ") + "]\n\n"
}

func hyR3Facts(g *hyGen, p *packages.Package) string {
	return hyR3ExtSubject(g, p) + hyR3StateUses(g, p) + hyR3ProviderFlow(g)
}

var _ = packages.NeedName
