package main

// Area "httpwire", round 4 (property C09).
//
//	guns/http/base.go   prepareClientPool: WHICH configurations get a pool of shared clients and of what size
//	                    -> sharedPool (SEMANTIC: Bool → Int → Option Int), sharedPoolFill (what the pool is filled with)
//
// The decision part of prepareClientPool is translated statement by statement into a Lean function of the two options of the
// `shared-client` section (`enabled`, `client-number`); `none` = the function returns without a pool (`return nil, nil`),
// `some k` = a pool that the fill loop gives k clients. Supported forms (anything else makes gen fail):
//
//	if c { A } [else { B }] ; R          -> if c then A;R else B;R        (a branch that returns does not continue)
//	c over recv.Config.SharedClient.Enabled, recv.Config.SharedClient.ClientNumber, integer / boolean locals defined from
//	them, integer literals, ! && || < <= > >= == != + -
//	recv.Config.SharedClient.ClientNumber = e | x := e | x = e   -> let …
//	return nil, nil                      -> none
//	p, _ := clientpool.New[…](e)         -> the pool (its capacity argument is only a capacity: not part of the result)
//	for i := 0; i < e; i++ { … p.Add(…) … }   -> the pool holds `e` clients (e evaluated when the loop starts)
//	return p, nil                        -> some (number of clients added)
//
// Renamed locals, reordered independent guards, `n <= 0` for `n < 1`, an early copy of the option into a local all give a Lean
// function that the bridge lemma proves equal to the model's `sharedPool` by case analysis + linear arithmetic; a change of
// WHICH configurations get a pool (or of its size) does not.

import (
	"fmt"
	"go/ast"
	"go/token"
	"go/types"
	"strings"
)

type httpwirePoolTr struct {
	x       *hw
	fd      *ast.FuncDecl
	recv    types.Object
	locals  map[types.Object]string // Go local -> Lean name
	pool    types.Object            // the clientpool.Pool local
	fill    []string                // descriptors of what is added to the pool
	nLocals int
}

const (
	httpwireEnabledPath = "Config.SharedClient.Enabled"
	httpwireNumberPath  = "Config.SharedClient.ClientNumber"
)

func (t *httpwirePoolTr) fail(n ast.Node, format string, a ...any) string {
	return t.x.failf(t.x.pkgs["components/guns/http"], n, "prepareClientPool: "+format, a...)
}

// expr: Lean term of an integer / boolean expression over the two options and the locals
func (t *httpwirePoolTr) expr(e ast.Expr) string {
	p := t.x.pkgs["components/guns/http"]
	switch v := e.(type) {
	case *ast.ParenExpr:
		return "(" + t.expr(v.X) + ")"
	case *ast.BasicLit:
		if v.Kind == token.INT {
			return "(" + v.Value + " : Int)"
		}
	case *ast.Ident:
		if v.Name == "true" || v.Name == "false" {
			return v.Name
		}
		if ln, ok := t.locals[p.TypesInfo.Uses[v]]; ok {
			return ln
		}
	case *ast.SelectorExpr:
		root, path := hwSelPath(v)
		if root != nil && p.TypesInfo.Uses[root] == t.recv {
			switch path {
			case httpwireEnabledPath:
				return "enabled"
			case httpwireNumberPath:
				return "n"
			}
		}
	case *ast.UnaryExpr:
		if v.Op == token.NOT {
			return "(!" + t.expr(v.X) + ")"
		}
		if v.Op == token.SUB {
			return "(-" + t.expr(v.X) + ")"
		}
	case *ast.BinaryExpr:
		l, r := t.expr(v.X), t.expr(v.Y)
		switch v.Op {
		case token.LAND:
			return "(" + l + " && " + r + ")"
		case token.LOR:
			return "(" + l + " || " + r + ")"
		case token.LSS:
			return "decide (" + l + " < " + r + ")"
		case token.LEQ:
			return "decide (" + l + " ≤ " + r + ")"
		case token.GTR:
			return "decide (" + l + " > " + r + ")"
		case token.GEQ:
			return "decide (" + l + " ≥ " + r + ")"
		case token.EQL:
			return "(" + l + " == " + r + ")"
		case token.NEQ:
			return "(" + l + " != " + r + ")"
		case token.ADD:
			return "(" + l + " + " + r + ")"
		case token.SUB:
			return "(" + l + " - " + r + ")"
		}
	}
	return t.fail(e, "expression %s", hwSrc(p, e))
}

func httpwireReturns(list []ast.Stmt) bool {
	if len(list) == 0 {
		return false
	}
	_, ok := list[len(list)-1].(*ast.ReturnStmt)
	return ok
}

// block translates `list` followed by nothing; `count` = Lean term of the number of clients in the pool so far ("" = no pool yet)
func (t *httpwirePoolTr) block(list []ast.Stmt, ind, count string) string {
	p := t.x.pkgs["components/guns/http"]
	if len(list) == 0 {
		return ind + t.fail(t.fd, "a path without return")
	}
	s, rest := list[0], list[1:]
	switch v := s.(type) {
	case *ast.IfStmt:
		if v.Init != nil {
			break
		}
		cond := t.expr(v.Cond)
		thenList := append(append([]ast.Stmt{}, v.Body.List...), rest...)
		if httpwireReturns(v.Body.List) {
			thenList = v.Body.List
		}
		var elseList []ast.Stmt
		switch el := v.Else.(type) {
		case nil:
			elseList = rest
		case *ast.BlockStmt:
			elseList = append(append([]ast.Stmt{}, el.List...), rest...)
			if httpwireReturns(el.List) {
				elseList = el.List
			}
		default:
			return ind + t.fail(s, "else-if chain")
		}
		// the locals / option values a branch rebinds are scoped to the branch by Lean's `let` shadowing
		saved := t.snapshot()
		a := t.block(thenList, ind+"  ", count)
		t.restore(saved)
		b := t.block(elseList, ind+"  ", count)
		t.restore(saved)
		return ind + "if " + cond + " then\n" + a + "\n" + ind + "else\n" + b
	case *ast.AssignStmt:
		// p, _ := clientpool.New[…](e)
		if len(v.Rhs) == 1 {
			if call, ok := v.Rhs[0].(*ast.CallExpr); ok && hwCallee(p, call) == "clientpool.New" && v.Tok == token.DEFINE && len(v.Lhs) >= 1 {
				if id, ok := v.Lhs[0].(*ast.Ident); ok && len(call.Args) == 1 {
					t.pool = p.TypesInfo.Defs[id]
					_ = t.expr(call.Args[0]) // must be an expression over the options (capacity only)
					return t.block(rest, ind, "(0 : Int)")
				}
			}
		}
		if len(v.Lhs) == 1 && len(v.Rhs) == 1 {
			// the option itself
			if root, path := hwSelPath(v.Lhs[0]); root != nil && p.TypesInfo.Uses[root] == t.recv && v.Tok == token.ASSIGN {
				switch path {
				case httpwireNumberPath:
					return ind + "let n : Int := " + t.expr(v.Rhs[0]) + "\n" + t.block(rest, ind, count)
				case httpwireEnabledPath:
					return ind + "let enabled : Bool := " + t.expr(v.Rhs[0]) + "\n" + t.block(rest, ind, count)
				}
			}
			if id, ok := v.Lhs[0].(*ast.Ident); ok {
				var o types.Object
				if v.Tok == token.DEFINE {
					o = p.TypesInfo.Defs[id]
				} else if v.Tok == token.ASSIGN {
					o = p.TypesInfo.Uses[id]
				}
				if o != nil {
					ty := ""
					if bt, ok := o.Type().Underlying().(*types.Basic); ok {
						switch {
						case bt.Info()&types.IsInteger != 0:
							ty = "Int"
						case bt.Info()&types.IsBoolean != 0:
							ty = "Bool"
						}
					}
					if ty != "" {
						rhs := t.expr(v.Rhs[0])
						ln, ok := t.locals[o]
						if !ok {
							ln = fmt.Sprintf("v%d", t.nLocals)
							t.nLocals++
							t.locals[o] = ln
						}
						return ind + "let " + ln + " : " + ty + " := " + rhs + "\n" + t.block(rest, ind, count)
					}
				}
			}
		}
	case *ast.ForStmt:
		// for i := 0; i < e; i++ { …; pool.Add(c) }
		if count == "" || t.pool == nil {
			break
		}
		init, ok1 := v.Init.(*ast.AssignStmt)
		cond, ok2 := v.Cond.(*ast.BinaryExpr)
		post, ok3 := v.Post.(*ast.IncDecStmt)
		if !ok1 || !ok2 || !ok3 || init.Tok != token.DEFINE || len(init.Lhs) != 1 || len(init.Rhs) != 1 || hwSrc(p, init.Rhs[0]) != "0" ||
			cond.Op != token.LSS || post.Tok != token.INC {
			break
		}
		iv, ok := init.Lhs[0].(*ast.Ident)
		if !ok || hwSrc(p, cond.X) != iv.Name || hwSrc(p, post.X) != iv.Name {
			break
		}
		bound := t.expr(cond.Y)
		// the body: exactly one Add on the pool per round; what is added, by origin
		adds := 0
		d := &hwDesc{x: t.x, p: p, fn: t.fd, labels: map[types.Object]string{}}
		for _, bs := range v.Body.List {
			ast.Inspect(bs, func(n ast.Node) bool {
				call, ok := n.(*ast.CallExpr)
				if !ok {
					return true
				}
				if sel, ok := call.Fun.(*ast.SelectorExpr); ok && sel.Sel.Name == "Add" {
					if id, ok := sel.X.(*ast.Ident); ok && p.TypesInfo.Uses[id] == t.pool && len(call.Args) == 1 {
						adds++
						t.fill = append(t.fill, "Add("+d.desc(call.Args[0])+")")
					}
				}
				return true
			})
			switch bs.(type) {
			case *ast.AssignStmt, *ast.ExprStmt:
			default:
				return ind + t.fail(bs, "statement in the fill loop: %s", hwSrc(p, bs))
			}
		}
		if adds != 1 {
			return ind + t.fail(s, "%d Add calls in one round of the fill loop", adds)
		}
		// the loop condition is evaluated against the option as it stands when the loop runs; the body does not assign it
		newCount := "(" + count + " + (if decide (" + bound + " < 0) then 0 else " + bound + "))"
		return t.block(rest, ind, newCount)
	case *ast.ReturnStmt:
		if len(v.Results) == 2 && hwSrc(p, v.Results[1]) == "nil" {
			if hwSrc(p, v.Results[0]) == "nil" {
				return ind + "none"
			}
			if id, ok := v.Results[0].(*ast.Ident); ok && t.pool != nil && p.TypesInfo.Uses[id] == t.pool && count != "" {
				return ind + "some " + count
			}
		}
	}
	return ind + t.fail(s, "statement %s", hwSrc(p, s))
}

type httpwirePoolSnap struct {
	locals map[types.Object]string
	pool   types.Object
}

func (t *httpwirePoolTr) snapshot() httpwirePoolSnap {
	m := map[types.Object]string{}
	for k, v := range t.locals {
		m[k] = v
	}
	return httpwirePoolSnap{locals: m, pool: t.pool}
}

func (t *httpwirePoolTr) restore(s httpwirePoolSnap) {
	t.locals = map[types.Object]string{}
	for k, v := range s.locals {
		t.locals[k] = v
	}
	t.pool = s.pool
}

func (x *hw) httpwireSharedPool(out *strings.Builder) {
	p := x.pkgs["components/guns/http"]
	fd := hwFunc(p, "BaseGun", "prepareClientPool")
	if fd == nil || fd.Recv == nil || len(fd.Recv.List) != 1 || len(fd.Recv.List[0].Names) != 1 {
		x.failf(p, nil, "BaseGun.prepareClientPool not found")
		return
	}
	t := &httpwirePoolTr{x: x, fd: fd, recv: p.TypesInfo.Defs[fd.Recv.List[0].Names[0]], locals: map[types.Object]string{}}
	body := t.block(fd.Body.List, "  ", "")
	out.WriteString("/-- regenerated from `components/guns/http/base.go` method `(*BaseGun).prepareClientPool`: for the options `enabled` and\n`client-number` (`n`) of the `shared-client` section, `none` = no pool (every instance keeps its own client), `some k` = a pool\nof k shared clients -/\n")
	out.WriteString("def sharedPool (enabled : Bool) (n : Int) : Option Int :=\n" + body + "\n\n")
	// the same descriptor once per syntactic Add site (the branches of an `if` repeat the rest of the function)
	seen := map[string]bool{}
	var fill []string
	for _, f := range t.fill {
		if !seen[f] {
			seen[f] = true
			fill = append(fill, f)
		}
	}
	fmt.Fprintf(out, "/-- what the fill loop of prepareClientPool adds to the pool, by origin -/\ndef sharedPoolFill : List String := %s\n\n", hwStrList(fill))
}

func (x *hw) httpwireRound4(out *strings.Builder) {
	x.httpwireSharedPool(out)
}
