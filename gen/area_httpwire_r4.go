package main

// Area "httpwire", round 4 (property C09).
//
//	guns/http/base.go   prepareClientPool: WHICH configurations get a pool of shared clients and of what size
//	                    -> sharedPool (SEMANTIC: Bool → Int → Option Int), sharedPoolFill (what the pool is filled with)
//
// The decision part of prepareClientPool is translated statement by statement into a Lean function of the two options of the
// `shared-client` section (`enabled`, `client-number`); `none` = the function returns without a pool (`return nil, nil`),
// `some k` = a pool that the fill loop gives k clients. Supported forms (anything else makes gen fail):
//
//	if c { A } [else { B }] ; R          -> if c then A;R else B;R        (a branch that returns does not continue)
//	c over recv.Config.SharedClient.Enabled, recv.Config.SharedClient.ClientNumber, integer / boolean locals defined from
//	them, integer literals, ! && || < <= > >= == != + -
//	recv.Config.SharedClient.ClientNumber = e | x := e | x = e   -> let …
//	return nil, nil                      -> none
//	p, _ := clientpool.New[…](e)         -> the pool (its capacity argument is only a capacity: not part of the result)
//	for i := 0; i < e; i++ { … p.Add(…) … }   -> the pool holds `e` clients (e evaluated when the loop starts)
//	return p, nil                        -> some (number of clients added)
//
// Renamed locals, reordered independent guards, `n <= 0` for `n < 1`, an early copy of the option into a local all give a Lean
// function that the bridge lemma proves equal to the model's `sharedPool` by case analysis + linear arithmetic; a change of
// WHICH configurations get a pool (or of its size) does not.

import (
	"fmt"
	"go/ast"
	"go/constant"
	"go/token"
	"go/types"
	"strings"

	"golang.org/x/tools/go/packages"
)

type httpwirePoolTr struct {
	x       *hw
	fd      *ast.FuncDecl
	recv    types.Object
	locals  map[types.Object]string // Go local -> Lean name
	pool    types.Object            // the clientpool.Pool local
	fill    []string                // descriptors of what is added to the pool
	nLocals int
}

const (
	httpwireEnabledPath = "Config.SharedClient.Enabled"
	httpwireNumberPath  = "Config.SharedClient.ClientNumber"
)

func (t *httpwirePoolTr) fail(n ast.Node, format string, a ...any) string {
	return t.x.failf(t.x.pkgs["components/guns/http"], n, "prepareClientPool: "+format, a...)
}

// expr: Lean term of an integer / boolean expression over the two options and the locals
func (t *httpwirePoolTr) expr(e ast.Expr) string {
	p := t.x.pkgs["components/guns/http"]
	switch v := e.(type) {
	case *ast.ParenExpr:
		return "(" + t.expr(v.X) + ")"
	case *ast.BasicLit:
		if v.Kind == token.INT {
			return "(" + v.Value + " : Int)"
		}
	case *ast.Ident:
		if v.Name == "true" || v.Name == "false" {
			return v.Name
		}
		if ln, ok := t.locals[p.TypesInfo.Uses[v]]; ok {
			return ln
		}
	case *ast.SelectorExpr:
		root, path := hwSelPath(v)
		if root != nil && p.TypesInfo.Uses[root] == t.recv {
			switch path {
			case httpwireEnabledPath:
				return "enabled"
			case httpwireNumberPath:
				return "n"
			}
		}
	case *ast.UnaryExpr:
		if v.Op == token.NOT {
			return "(!" + t.expr(v.X) + ")"
		}
		if v.Op == token.SUB {
			return "(-" + t.expr(v.X) + ")"
		}
	case *ast.BinaryExpr:
		l, r := t.expr(v.X), t.expr(v.Y)
		switch v.Op {
		case token.LAND:
			return "(" + l + " && " + r + ")"
		case token.LOR:
			return "(" + l + " || " + r + ")"
		case token.LSS:
			return "decide (" + l + " < " + r + ")"
		case token.LEQ:
			return "decide (" + l + " ≤ " + r + ")"
		case token.GTR:
			return "decide (" + l + " > " + r + ")"
		case token.GEQ:
			return "decide (" + l + " ≥ " + r + ")"
		case token.EQL:
			return "(" + l + " == " + r + ")"
		case token.NEQ:
			return "(" + l + " != " + r + ")"
		case token.ADD:
			return "(" + l + " + " + r + ")"
		case token.SUB:
			return "(" + l + " - " + r + ")"
		}
	}
	return t.fail(e, "expression %s", hwSrc(p, e))
}

func httpwireReturns(list []ast.Stmt) bool {
	if len(list) == 0 {
		return false
	}
	_, ok := list[len(list)-1].(*ast.ReturnStmt)
	return ok
}

// block translates `list` followed by nothing; `count` = Lean term of the number of clients in the pool so far ("" = no pool yet)
func (t *httpwirePoolTr) block(list []ast.Stmt, ind, count string) string {
	p := t.x.pkgs["components/guns/http"]
	if len(list) == 0 {
		return ind + t.fail(t.fd, "a path without return")
	}
	s, rest := list[0], list[1:]
	switch v := s.(type) {
	case *ast.IfStmt:
		if v.Init != nil {
			break
		}
		cond := t.expr(v.Cond)
		thenList := append(append([]ast.Stmt{}, v.Body.List...), rest...)
		if httpwireReturns(v.Body.List) {
			thenList = v.Body.List
		}
		var elseList []ast.Stmt
		switch el := v.Else.(type) {
		case nil:
			elseList = rest
		case *ast.BlockStmt:
			elseList = append(append([]ast.Stmt{}, el.List...), rest...)
			if httpwireReturns(el.List) {
				elseList = el.List
			}
		default:
			return ind + t.fail(s, "else-if chain")
		}
		// the locals / option values a branch rebinds are scoped to the branch by Lean's `let` shadowing
		saved := t.snapshot()
		a := t.block(thenList, ind+"  ", count)
		t.restore(saved)
		b := t.block(elseList, ind+"  ", count)
		t.restore(saved)
		return ind + "if " + cond + " then\n" + a + "\n" + ind + "else\n" + b
	case *ast.AssignStmt:
		// p, _ := clientpool.New[…](e)
		if len(v.Rhs) == 1 {
			if call, ok := v.Rhs[0].(*ast.CallExpr); ok && hwCallee(p, call) == "clientpool.New" && v.Tok == token.DEFINE && len(v.Lhs) >= 1 {
				if id, ok := v.Lhs[0].(*ast.Ident); ok && len(call.Args) == 1 {
					t.pool = p.TypesInfo.Defs[id]
					_ = t.expr(call.Args[0]) // must be an expression over the options (capacity only)
					return t.block(rest, ind, "(0 : Int)")
				}
			}
		}
		if len(v.Lhs) == 1 && len(v.Rhs) == 1 {
			// the option itself
			if root, path := hwSelPath(v.Lhs[0]); root != nil && p.TypesInfo.Uses[root] == t.recv && v.Tok == token.ASSIGN {
				switch path {
				case httpwireNumberPath:
					return ind + "let n : Int := " + t.expr(v.Rhs[0]) + "\n" + t.block(rest, ind, count)
				case httpwireEnabledPath:
					return ind + "let enabled : Bool := " + t.expr(v.Rhs[0]) + "\n" + t.block(rest, ind, count)
				}
			}
			if id, ok := v.Lhs[0].(*ast.Ident); ok {
				var o types.Object
				if v.Tok == token.DEFINE {
					o = p.TypesInfo.Defs[id]
				} else if v.Tok == token.ASSIGN {
					o = p.TypesInfo.Uses[id]
				}
				if o != nil {
					ty := ""
					if bt, ok := o.Type().Underlying().(*types.Basic); ok {
						switch {
						case bt.Info()&types.IsInteger != 0:
							ty = "Int"
						case bt.Info()&types.IsBoolean != 0:
							ty = "Bool"
						}
					}
					if ty != "" {
						rhs := t.expr(v.Rhs[0])
						ln, ok := t.locals[o]
						if !ok {
							ln = fmt.Sprintf("v%d", t.nLocals)
							t.nLocals++
							t.locals[o] = ln
						}
						return ind + "let " + ln + " : " + ty + " := " + rhs + "\n" + t.block(rest, ind, count)
					}
				}
			}
		}
	case *ast.ForStmt:
		// for i := 0; i < e; i++ { …; pool.Add(c) }
		if count == "" || t.pool == nil {
			break
		}
		init, ok1 := v.Init.(*ast.AssignStmt)
		cond, ok2 := v.Cond.(*ast.BinaryExpr)
		post, ok3 := v.Post.(*ast.IncDecStmt)
		if !ok1 || !ok2 || !ok3 || init.Tok != token.DEFINE || len(init.Lhs) != 1 || len(init.Rhs) != 1 || hwSrc(p, init.Rhs[0]) != "0" ||
			cond.Op != token.LSS || post.Tok != token.INC {
			break
		}
		iv, ok := init.Lhs[0].(*ast.Ident)
		if !ok || hwSrc(p, cond.X) != iv.Name || hwSrc(p, post.X) != iv.Name {
			break
		}
		bound := t.expr(cond.Y)
		// the body: exactly one Add on the pool per round; what is added, by origin
		adds := 0
		d := &hwDesc{x: t.x, p: p, fn: t.fd, labels: map[types.Object]string{}}
		for _, bs := range v.Body.List {
			ast.Inspect(bs, func(n ast.Node) bool {
				call, ok := n.(*ast.CallExpr)
				if !ok {
					return true
				}
				if sel, ok := call.Fun.(*ast.SelectorExpr); ok && sel.Sel.Name == "Add" {
					if id, ok := sel.X.(*ast.Ident); ok && p.TypesInfo.Uses[id] == t.pool && len(call.Args) == 1 {
						adds++
						t.fill = append(t.fill, "Add("+d.desc(call.Args[0])+")")
					}
				}
				return true
			})
			switch bs.(type) {
			case *ast.AssignStmt, *ast.ExprStmt:
			default:
				return ind + t.fail(bs, "statement in the fill loop: %s", hwSrc(p, bs))
			}
		}
		if adds != 1 {
			return ind + t.fail(s, "%d Add calls in one round of the fill loop", adds)
		}
		// the loop condition is evaluated against the option as it stands when the loop runs; the body does not assign it
		newCount := "(" + count + " + (if decide (" + bound + " < 0) then 0 else " + bound + "))"
		return t.block(rest, ind, newCount)
	case *ast.ReturnStmt:
		if len(v.Results) == 2 && hwSrc(p, v.Results[1]) == "nil" {
			if hwSrc(p, v.Results[0]) == "nil" {
				return ind + "none"
			}
			if id, ok := v.Results[0].(*ast.Ident); ok && t.pool != nil && p.TypesInfo.Uses[id] == t.pool && count != "" {
				return ind + "some " + count
			}
		}
	}
	return ind + t.fail(s, "statement %s", hwSrc(p, s))
}

type httpwirePoolSnap struct {
	locals map[types.Object]string
	pool   types.Object
}

func (t *httpwirePoolTr) snapshot() httpwirePoolSnap {
	m := map[types.Object]string{}
	for k, v := range t.locals {
		m[k] = v
	}
	return httpwirePoolSnap{locals: m, pool: t.pool}
}

func (t *httpwirePoolTr) restore(s httpwirePoolSnap) {
	t.locals = map[types.Object]string{}
	for k, v := range s.locals {
		t.locals[k] = v
	}
	t.pool = s.pool
}

func (x *hw) httpwireSharedPool(out *strings.Builder) {
	p := x.pkgs["components/guns/http"]
	fd := hwFunc(p, "BaseGun", "prepareClientPool")
	if fd == nil || fd.Recv == nil || len(fd.Recv.List) != 1 || len(fd.Recv.List[0].Names) != 1 {
		x.failf(p, nil, "BaseGun.prepareClientPool not found")
		return
	}
	t := &httpwirePoolTr{x: x, fd: fd, recv: p.TypesInfo.Defs[fd.Recv.List[0].Names[0]], locals: map[types.Object]string{}}
	body := t.block(fd.Body.List, "  ", "")
	out.WriteString("/-- regenerated from `components/guns/http/base.go` method `(*BaseGun).prepareClientPool`: for the options `enabled` and\n`client-number` (`n`) of the `shared-client` section, `none` = no pool (every instance keeps its own client), `some k` = a pool\nof k shared clients -/\n")
	out.WriteString("def sharedPool (enabled : Bool) (n : Int) : Option Int :=\n" + body + "\n\n")
	// the same descriptor once per syntactic Add site (the branches of an `if` repeat the rest of the function)
	seen := map[string]bool{}
	var fill []string
	for _, f := range t.fill {
		if !seen[f] {
			seen[f] = true
			fill = append(fill, f)
		}
	}
	fmt.Fprintf(out, "/-- what the fill loop of prepareClientPool adds to the pool, by origin -/\ndef sharedPoolFill : List String := %s\n\n", hwStrList(fill))
}

func (x *hw) httpwireRound4(out *strings.Builder) {
	x.httpwireSharedPool(out)
	x.httpwireDecodeHeader(out)
	x.httpwireConfigHeaders(out)
}

// ---------------------------------------------------------------- util.DecodeHeader, semantically (round 4)
//
//	providers/http/util/request.go  DecodeHeader(h string) (key, value string, err error)
//	-> decodeHeader : Str → Option (Except HdrErr (Str × Str))      (`none` = the Go code would PANIC: index / slice out of range)
//
// Every expression is translated into a total Lean term TOGETHER with the condition under which Go evaluates it without a
// run-time panic (`h[i]`: 0 ≤ i < len; `h[a:b]`: 0 ≤ a ≤ b ≤ len; `x || y`: y is only evaluated when x is false …); a
// statement whose condition fails makes the function `none`. Integers are Lean `Int` (`len(h)-1` of an empty string is −1, not 0).
// Supported forms (anything else makes gen fail): `var x bool|string`, `x = e`, `a, b, c = strings.Cut(s, "<one byte>")` (also as
// the init of an `if`), `if c { … }` without else, bare `return` (named results), `err = ErrHeaderFormat | ErrEmptyKey`;
// expressions: len(s), integer / one-byte rune / string literals, s[i], s[a:b], strings.TrimSpace(s), == != < <= > >= + - ! && ||.

type httpwireDH struct {
	x      *hw
	p      *packages.Package
	fd     *ast.FuncDecl
	names  map[types.Object]string // Go variable -> Lean name (shadowed by `let`)
	kinds  map[types.Object]string // "str" | "bool" | "err" | "int"
	key    types.Object
	value  types.Object
	err    types.Object
	errVal map[string]string
}

func (t *httpwireDH) fail(n ast.Node, format string, a ...any) string {
	return t.x.failf(t.p, n, "DecodeHeader: "+format, a...)
}

func httpwireAndG(a, b string) string {
	if a == "true" {
		return b
	}
	if b == "true" {
		return a
	}
	return "(" + a + " && " + b + ")"
}

// expr returns (Lean term, definedness condition as a Lean Bool term, kind)
func (t *httpwireDH) expr(e ast.Expr) (string, string, string) {
	switch v := e.(type) {
	case *ast.ParenExpr:
		return t.expr(v.X)
	case *ast.BasicLit:
		switch v.Kind {
		case token.INT:
			return "(" + v.Value + " : Int)", "true", "int"
		case token.CHAR:
			if tv, ok := t.p.TypesInfo.Types[e]; ok && tv.Value != nil {
				if n, ok := constant.Int64Val(tv.Value); ok && n >= 0 && n < 256 {
					return fmt.Sprintf("(%d : Nat)", n), "true", "byte"
				}
			}
		case token.STRING:
			if tv, ok := t.p.TypesInfo.Types[e]; ok && tv.Value != nil {
				return "(" + hwLeanBytes(constant.StringVal(tv.Value)) + " : Str)", "true", "str"
			}
		}
	case *ast.Ident:
		if o := t.p.TypesInfo.Uses[v]; o != nil {
			if n, ok := t.names[o]; ok {
				return n, "true", t.kinds[o]
			}
		}
	case *ast.CallExpr:
		if id, ok := v.Fun.(*ast.Ident); ok && id.Name == "len" && len(v.Args) == 1 {
			s, g, k := t.expr(v.Args[0])
			if k == "str" {
				return "(" + s + ".length : Int)", g, "int"
			}
		}
		if hwCallee(t.p, v) == "strings.TrimSpace" && len(v.Args) == 1 {
			s, g, k := t.expr(v.Args[0])
			if k == "str" {
				return "(trim " + s + ")", g, "str"
			}
		}
	case *ast.IndexExpr:
		s, gs, ks := t.expr(v.X)
		i, gi, ki := t.expr(v.Index)
		if ks == "str" && ki == "int" {
			g := httpwireAndG(httpwireAndG(gs, gi), "(decide (0 ≤ "+i+") && decide ("+i+" < ("+s+".length : Int)))")
			return "(" + s + ".getD (" + i + ").toNat 0)", g, "byte"
		}
	case *ast.SliceExpr:
		if v.Slice3 || v.Low == nil || v.High == nil {
			break
		}
		s, gs, ks := t.expr(v.X)
		a, ga, ka := t.expr(v.Low)
		b, gb, kb := t.expr(v.High)
		if ks == "str" && ka == "int" && kb == "int" {
			g := httpwireAndG(httpwireAndG(gs, httpwireAndG(ga, gb)),
				"(decide (0 ≤ "+a+") && decide ("+a+" ≤ "+b+") && decide ("+b+" ≤ ("+s+".length : Int)))")
			return "((" + s + ".drop (" + a + ").toNat).take ((" + b + ").toNat - (" + a + ").toNat))", g, "str"
		}
	case *ast.UnaryExpr:
		if v.Op == token.NOT {
			s, g, k := t.expr(v.X)
			if k == "bool" {
				return "(!" + s + ")", g, "bool"
			}
		}
	case *ast.BinaryExpr:
		l, gl, kl := t.expr(v.X)
		r, gr, kr := t.expr(v.Y)
		switch v.Op {
		case token.LOR:
			if kl == "bool" && kr == "bool" {
				g := gl
				if gr != "true" {
					g = httpwireAndG(gl, "("+l+" || "+gr+")")
				}
				return "(" + l + " || " + r + ")", g, "bool"
			}
		case token.LAND:
			if kl == "bool" && kr == "bool" {
				g := gl
				if gr != "true" {
					g = httpwireAndG(gl, "(!"+l+" || "+gr+")")
				}
				return "(" + l + " && " + r + ")", g, "bool"
			}
		case token.EQL, token.NEQ:
			if kl == kr && (kl == "str" || kl == "byte" || kl == "int" || kl == "bool") {
				op := map[token.Token]string{token.EQL: "==", token.NEQ: "!="}[v.Op]
				return "(" + l + " " + op + " " + r + ")", httpwireAndG(gl, gr), "bool"
			}
		case token.LSS, token.LEQ, token.GTR, token.GEQ:
			if kl == "int" && kr == "int" {
				op := map[token.Token]string{token.LSS: "<", token.LEQ: "≤", token.GTR: ">", token.GEQ: "≥"}[v.Op]
				return "decide (" + l + " " + op + " " + r + ")", httpwireAndG(gl, gr), "bool"
			}
		case token.ADD, token.SUB:
			if kl == "int" && kr == "int" {
				return "(" + l + " " + v.Op.String() + " " + r + ")", httpwireAndG(gl, gr), "int"
			}
		}
	}
	return t.fail(e, "expression %s", hwSrc(t.p, e)), "true", "?"
}

func (t *httpwireDH) guarded(ind, g, rest string) string {
	if g == "true" {
		return rest
	}
	return ind + "if !" + g + " then none else\n" + rest
}

func (t *httpwireDH) leanType(kind string) string {
	return map[string]string{"str": "Str", "bool": "Bool", "int": "Int", "err": "Option HdrErr"}[kind]
}

// assign translates one assignment statement (possibly the tuple form of strings.Cut) followed by `rest`
func (t *httpwireDH) assign(v *ast.AssignStmt, ind string, rest func() string) string {
	if v.Tok != token.ASSIGN && v.Tok != token.DEFINE {
		return ind + t.fail(v, "assignment %s", hwSrc(t.p, v))
	}
	obj := func(e ast.Expr) types.Object {
		id, ok := e.(*ast.Ident)
		if !ok {
			return nil
		}
		if id.Name == "_" {
			return nil
		}
		if o := t.p.TypesInfo.Defs[id]; o != nil {
			return o
		}
		return t.p.TypesInfo.Uses[id]
	}
	if len(v.Lhs) == 3 && len(v.Rhs) == 1 {
		call, ok := v.Rhs[0].(*ast.CallExpr)
		if ok && hwCallee(t.p, call) == "strings.Cut" && len(call.Args) == 2 {
			s, gs, ks := t.expr(call.Args[0])
			sep := ""
			if tv, ok := t.p.TypesInfo.Types[call.Args[1]]; ok && tv.Value != nil && tv.Value.Kind() == constant.String {
				sep = constant.StringVal(tv.Value)
			}
			if ks != "str" || len(sep) != 1 {
				return ind + t.fail(v, "strings.Cut with %s", hwSrc(t.p, call))
			}
			c := fmt.Sprintf("(cut %s %d)", s, sep[0])
			out := ""
			terms := []string{
				"(match " + c + " with | some p => p.1 | none => " + s + ")",
				"(match " + c + " with | some p => p.2 | none => [])",
				c + ".isSome"}
			kinds := []string{"str", "str", "bool"}
			// all three are computed from the OLD value of s: bind them to fresh names first
			for i := range terms {
				out += fmt.Sprintf("%slet cut%d : %s := %s\n", ind, i, t.leanType(kinds[i]), terms[i])
			}
			for i, l := range v.Lhs {
				o := obj(l)
				if o == nil {
					continue
				}
				if _, ok := t.names[o]; !ok {
					t.names[o] = o.Name()
				}
				t.kinds[o] = kinds[i]
				out += fmt.Sprintf("%slet %s : %s := cut%d\n", ind, t.names[o], t.leanType(kinds[i]), i)
			}
			return t.guarded(ind, gs, out+rest())
		}
	}
	if len(v.Lhs) == 1 && len(v.Rhs) == 1 {
		o := obj(v.Lhs[0])
		if o != nil {
			if o == t.err {
				name := hwSrc(t.p, v.Rhs[0])
				if ev, ok := t.errVal[name]; ok {
					return ind + "let " + t.names[o] + " : Option HdrErr := some " + ev + "\n" + rest()
				}
				return ind + t.fail(v, "error value %s", name)
			}
			term, g, k := t.expr(v.Rhs[0])
			if _, ok := t.names[o]; !ok {
				t.names[o] = o.Name()
			}
			if kk, ok := t.kinds[o]; ok && kk != k {
				return ind + t.fail(v, "kind of %s", hwSrc(t.p, v))
			}
			t.kinds[o] = k
			if ty := t.leanType(k); ty != "" {
				return t.guarded(ind, g, ind+"let "+t.names[o]+" : "+ty+" := "+term+"\n"+rest())
			}
		}
	}
	return ind + t.fail(v, "assignment %s", hwSrc(t.p, v))
}

func (t *httpwireDH) ret(ind string) string {
	return ind + "some (match " + t.names[t.err] + " with | none => .ok (" + t.names[t.key] + ", " + t.names[t.value] + ") | some e => .error e)"
}

func (t *httpwireDH) block(list []ast.Stmt, ind string) string {
	if len(list) == 0 {
		return ind + t.fail(t.fd, "a path without return")
	}
	s, rest := list[0], list[1:]
	switch v := s.(type) {
	case *ast.DeclStmt:
		gd, ok := v.Decl.(*ast.GenDecl)
		if !ok || gd.Tok != token.VAR {
			break
		}
		out := ""
		for _, sp := range gd.Specs {
			vs, ok := sp.(*ast.ValueSpec)
			if !ok || len(vs.Values) != 0 {
				return ind + t.fail(s, "declaration %s", hwSrc(t.p, s))
			}
			for _, id := range vs.Names {
				o := t.p.TypesInfo.Defs[id]
				bt, ok := o.Type().Underlying().(*types.Basic)
				if !ok {
					return ind + t.fail(s, "declaration %s", hwSrc(t.p, s))
				}
				switch {
				case bt.Info()&types.IsBoolean != 0:
					t.names[o], t.kinds[o] = id.Name, "bool"
					out += ind + "let " + id.Name + " : Bool := false\n"
				case bt.Info()&types.IsString != 0:
					t.names[o], t.kinds[o] = id.Name, "str"
					out += ind + "let " + id.Name + " : Str := []\n"
				default:
					return ind + t.fail(s, "declaration %s", hwSrc(t.p, s))
				}
			}
		}
		return out + t.block(rest, ind)
	case *ast.AssignStmt:
		return t.assign(v, ind, func() string { return t.block(rest, ind) })
	case *ast.ReturnStmt:
		if len(v.Results) == 0 {
			return t.ret(ind)
		}
	case *ast.IfStmt:
		if v.Else != nil {
			break
		}
		cont := func() string {
			c, g, k := t.expr(v.Cond)
			if k != "bool" {
				return ind + t.fail(v.Cond, "condition %s", hwSrc(t.p, v.Cond))
			}
			saved := map[types.Object]string{}
			for k2, v2 := range t.kinds {
				saved[k2] = v2
			}
			thenList := append(append([]ast.Stmt{}, v.Body.List...), rest...)
			if httpwireReturns(v.Body.List) {
				thenList = v.Body.List
			}
			a := t.block(thenList, ind+"  ")
			t.kinds = saved
			b := t.block(rest, ind+"  ")
			return t.guarded(ind, g, ind+"if "+c+" then\n"+a+"\n"+ind+"else\n"+b)
		}
		if v.Init != nil {
			as, ok := v.Init.(*ast.AssignStmt)
			if !ok {
				break
			}
			return t.assign(as, ind, cont)
		}
		return cont()
	}
	return ind + t.fail(s, "statement %s", hwSrc(t.p, s))
}

func (x *hw) httpwireDecodeHeader(out *strings.Builder) {
	p := x.pkgs["components/providers/http/util"]
	fd := hwFunc(p, "", "DecodeHeader")
	if fd == nil || fd.Type.Params == nil || len(fd.Type.Params.List) != 1 || len(fd.Type.Params.List[0].Names) != 1 ||
		fd.Type.Results == nil {
		x.failf(p, nil, "util.DecodeHeader(h string) (key, value string, err error) not found")
		return
	}
	t := &httpwireDH{x: x, p: p, fd: fd, names: map[types.Object]string{}, kinds: map[types.Object]string{},
		errVal: map[string]string{"ErrHeaderFormat": "HdrErr.format", "ErrEmptyKey": "HdrErr.emptyKey"}}
	h := p.TypesInfo.Defs[fd.Type.Params.List[0].Names[0]]
	t.names[h], t.kinds[h] = "h", "str"
	var res []types.Object
	for _, f := range fd.Type.Results.List {
		for _, id := range f.Names {
			res = append(res, p.TypesInfo.Defs[id])
		}
	}
	if len(res) != 3 {
		x.failf(p, fd, "DecodeHeader: three named results expected")
		return
	}
	t.key, t.value, t.err = res[0], res[1], res[2]
	t.names[t.key], t.kinds[t.key] = "key", "str"
	t.names[t.value], t.kinds[t.value] = "value", "str"
	t.names[t.err], t.kinds[t.err] = "err", "err"
	// the error values are what their names say
	for name := range t.errVal {
		if o := p.Types.Scope().Lookup(name); o == nil {
			x.failf(p, fd, "DecodeHeader: %s not found", name)
			return
		}
	}
	body := "  let key : Str := []\n  let value : Str := []\n  let err : Option HdrErr := none\n" + t.block(fd.Body.List, "  ")
	out.WriteString("/-- regenerated from `components/providers/http/util/request.go` func `DecodeHeader`, statement by statement; `none` = the Go\ncode would panic (index or slice out of range), `some (.error e)` = it returns ErrHeaderFormat / ErrEmptyKey, `some (.ok (key, value))`\nits results; `cut` / `trim` stand for strings.Cut (one-byte separator) / strings.TrimSpace -/\n")
	out.WriteString("def decodeHeader (h : Str) : Option (Except HdrErr (Str × Str)) :=\n" + body + "\n\n")
}

// ---------------------------------------------------------------- util.DecodeHTTPConfigHeaders, semantically (round 4)
//
//	DecodeHTTPConfigHeaders(headers []string) (http.Header, error)
//	-> configHeadersInit : Hdr                         the map the loop starts with (make(http.Header) / http.Header{} = empty)
//	-> configHeaderStep : Hdr → Str → Option (Except HdrErr Hdr)   one round of the loop over the option's strings (none = panic)
//
// Supported: the named (or local) result map initialised empty; ONE `for _, h := range headers` whose body is, in this order,
// `key, value, err = DecodeHeader(h)`; `if err != nil { break | return … }`; one store of (key, value) into the map:
// `m.Add(key, value)` -> hadd, `m.Set(key, value)` -> hset; nothing else touches the map; the function returns after the loop.

func (x *hw) httpwireConfigHeaders(out *strings.Builder) {
	p := x.pkgs["components/providers/http/util"]
	fd := hwFunc(p, "", "DecodeHTTPConfigHeaders")
	fail := func(n ast.Node, format string, a ...any) {
		x.failf(p, n, "DecodeHTTPConfigHeaders: "+format, a...)
	}
	if fd == nil || len(fd.Type.Params.List) != 1 || len(fd.Type.Params.List[0].Names) != 1 {
		x.failf(p, nil, "util.DecodeHTTPConfigHeaders(headers []string) not found")
		return
	}
	param := p.TypesInfo.Defs[fd.Type.Params.List[0].Names[0]]
	isHeaderMap := func(o types.Object) bool {
		return o != nil && strings.HasSuffix(o.Type().String(), "net/http.Header")
	}
	var m types.Object // the header map
	initSeen, loopSeen, afterLoop := false, false, 0
	store := ""
	for _, s := range fd.Body.List {
		switch v := s.(type) {
		case *ast.DeclStmt: // var key, value string
			continue
		case *ast.AssignStmt:
			if len(v.Lhs) == 1 && len(v.Rhs) == 1 && !loopSeen {
				id, ok := v.Lhs[0].(*ast.Ident)
				var o types.Object
				if ok {
					if o = p.TypesInfo.Defs[id]; o == nil {
						o = p.TypesInfo.Uses[id]
					}
				}
				rhs := hwSrc(p, v.Rhs[0])
				if isHeaderMap(o) && (rhs == "make(http.Header)" || rhs == "http.Header{}") {
					m, initSeen = o, true
					continue
				}
			}
			fail(s, "statement %s", hwSrc(p, s))
			return
		case *ast.RangeStmt:
			if loopSeen || !initSeen {
				fail(s, "a second loop, or a loop before the map exists")
				return
			}
			loopSeen = true
			xid, ok := v.X.(*ast.Ident)
			val, ok2 := v.Value.(*ast.Ident)
			if !ok || !ok2 || p.TypesInfo.Uses[xid] != param || (v.Key != nil && hwSrc(p, v.Key) != "_") {
				fail(s, "range header %s", hwSrc(p, v.X))
				return
			}
			h := p.TypesInfo.Defs[val]
			if len(v.Body.List) != 3 {
				fail(s, "%d statements in the loop body", len(v.Body.List))
				return
			}
			// 1. key, value, err = DecodeHeader(h)
			as, ok := v.Body.List[0].(*ast.AssignStmt)
			if !ok || len(as.Lhs) != 3 || len(as.Rhs) != 1 {
				fail(v.Body.List[0], "statement %s", hwSrc(p, v.Body.List[0]))
				return
			}
			call, ok := as.Rhs[0].(*ast.CallExpr)
			if !ok || hwCallee(p, call) != "DecodeHeader" || len(call.Args) != 1 {
				fail(as, "statement %s", hwSrc(p, as))
				return
			}
			if aid, ok := call.Args[0].(*ast.Ident); !ok || p.TypesInfo.Uses[aid] != h {
				fail(as, "DecodeHeader of %s", hwSrc(p, call.Args[0]))
				return
			}
			objOf := func(e ast.Expr) types.Object {
				id, ok := e.(*ast.Ident)
				if !ok {
					return nil
				}
				if o := p.TypesInfo.Defs[id]; o != nil {
					return o
				}
				return p.TypesInfo.Uses[id]
			}
			k, val2, er := objOf(as.Lhs[0]), objOf(as.Lhs[1]), objOf(as.Lhs[2])
			if k == nil || val2 == nil || er == nil {
				fail(as, "results of DecodeHeader must be kept: %s", hwSrc(p, as))
				return
			}
			// 2. if err != nil { break | return }
			ifs, ok := v.Body.List[1].(*ast.IfStmt)
			if !ok || ifs.Init != nil || ifs.Else != nil || len(ifs.Body.List) != 1 {
				fail(v.Body.List[1], "statement %s", hwSrc(p, v.Body.List[1]))
				return
			}
			be, ok := ifs.Cond.(*ast.BinaryExpr)
			if !ok || be.Op != token.NEQ || objOf(be.X) != er || hwSrc(p, be.Y) != "nil" {
				fail(ifs, "condition %s", hwSrc(p, ifs.Cond))
				return
			}
			switch b := ifs.Body.List[0].(type) {
			case *ast.BranchStmt:
				if b.Tok != token.BREAK {
					fail(b, "statement %s", hwSrc(p, b))
					return
				}
			case *ast.ReturnStmt:
			default:
				fail(b, "statement %s", hwSrc(p, b))
				return
			}
			// 3. the store
			es, ok := v.Body.List[2].(*ast.ExprStmt)
			if !ok {
				fail(v.Body.List[2], "statement %s", hwSrc(p, v.Body.List[2]))
				return
			}
			sc, ok := es.X.(*ast.CallExpr)
			sel, ok2 := sc.Fun.(*ast.SelectorExpr)
			if !ok || !ok2 || objOf(sel.X) != m || len(sc.Args) != 2 || objOf(sc.Args[0]) != k || objOf(sc.Args[1]) != val2 {
				fail(es, "statement %s", hwSrc(p, es))
				return
			}
			switch sel.Sel.Name {
			case "Add":
				store = "hadd"
			case "Set":
				store = "hset"
			default:
				fail(es, "statement %s", hwSrc(p, es))
				return
			}
		case *ast.ReturnStmt:
			if !loopSeen {
				fail(s, "return before the loop")
				return
			}
			afterLoop++
		default:
			fail(s, "statement %s", hwSrc(p, s))
			return
		}
	}
	if !loopSeen || store == "" || afterLoop != 1 {
		fail(fd, "loop / final return not found")
		return
	}
	out.WriteString("/-- regenerated from `components/providers/http/util/request.go` func `DecodeHTTPConfigHeaders`: the map the loop over the\n`headers` option starts with -/\ndef configHeadersInit : Hdr := []\n\n")
	out.WriteString("/-- one round of that loop: DecodeHeader of the string, the first bad string ends the loop with its error, a good one is\nstored into the map; `none` = DecodeHeader would panic -/\ndef configHeaderStep (st : Hdr) (h : Str) : Option (Except HdrErr Hdr) :=\n  (decodeHeader h).map fun r => match r with\n    | .error e => .error e\n    | .ok (key, value) => .ok (" + store + " st key value)\n\n")
}
