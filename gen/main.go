// Command gen regenerates Lean definitions from /repo's CURRENT source.
//
//	gen -repo /repo -area schedule -out /verif/lean/Pandora/Gen
//
// It type-checks the package with go/packages and translates a whitelisted set
// of functions, statement by statement and expression by expression, into Lean
// text. Reading of Go semantics (part of the trusted base, DESIGN.md section 8):
//
//	float64            -> ℝ (exact; float rounding is measured by the sampling tie, not proved)
//	int, int64, Duration, other integer kinds -> ℤ (no wrap-around; range is an explicit proof obligation)
//	typed integer x/y  -> Go.tdiv x y    (T-division; this is what exposes float64(duration/1e9))
//	float64(intexpr)   -> ((e : ℤ) : ℝ)
//	int64(floatexpr), time.Duration(floatexpr) -> Go.f2i e   (truncation toward zero)
//	math.Sqrt          -> Real.sqrt
//	x := e / x = e     -> let x := e
//	if c { x = e }     -> let x := if c then e else x
//	if c { return e }  -> if c then e else <rest>
//	for i := a; i <= b; i += s { xs = append(xs, e...) } -> xs ++ (Go.loopLE a b s).flatMap (fun i => [e...])
//	switch v { case k: return e ... default: return d }  -> if v = k then e else ... d
//
// Anything outside the supported subset makes gen exit non-zero (a broken
// obligation), never a silent default. Files are rewritten only when their
// content changes so unchanged sources do not trigger lake rebuilds.
package main

import (
	"bytes"
	"flag"
	"fmt"
	"go/ast"
	"go/constant"
	"go/token"
	"go/types"
	"os"
	"path/filepath"
	"sort"
	"strings"

	"golang.org/x/tools/go/packages"
)

type tr struct {
	pkg  *packages.Package
	errs []string
	// names of package-level functions translated in this area (calls to them become Lean calls)
	known map[string]string
	// helper functions translated on demand (helperFunc): their text, emitted before the function that called them
	aux         []string
	auxNames    []string
	translating map[string]bool
	// round: "float64 reading" — the result of every float operation (+ - * /, math.Sqrt, int -> float conversion) is wrapped
	// in `fl`, a rounding function that the emitted definition takes as its first parameter (used by area schedule only;
	// false everywhere else, so nothing changes for other areas)
	round bool
}

// rnd wraps a float-valued operation in the rounding function when the float64 reading is being emitted.
func (t *tr) rnd(e ast.Expr, s string) string {
	if t.round && isFloat(t.pkg.TypesInfo.TypeOf(e)) {
		return "(fl " + s + ")"
	}
	return s
}

func (t *tr) fail(n ast.Node, format string, a ...any) string {
	msg := fmt.Sprintf("%s: unsupported: %s", t.pkg.Fset.Position(n.Pos()), fmt.Sprintf(format, a...))
	t.errs = append(t.errs, msg)
	return "(UNSUPPORTED)"
}

var leanKeywords = map[string]bool{"from": true, "to": true, "at": true, "end": true, "open": true, "in": true,
	"fun": true, "let": true, "if": true, "then": true, "else": true, "do": true, "have": true, "show": true,
	"match": true, "with": true, "where": true, "def": true, "theorem": true, "by": true, "then_": true, "type": true,
	"left": false}

func mangle(s string) string {
	if leanKeywords[s] {
		return "r" + strings.ToUpper(s[:1]) + s[1:]
	}
	return s
}

func isFloat(t types.Type) bool {
	b, ok := t.Underlying().(*types.Basic)
	return ok && b.Info()&types.IsFloat != 0
}
func isInt(t types.Type) bool {
	b, ok := t.Underlying().(*types.Basic)
	return ok && b.Info()&types.IsInteger != 0
}
func isBool(t types.Type) bool {
	b, ok := t.Underlying().(*types.Basic)
	return ok && b.Info()&types.IsBoolean != 0
}
func isString(t types.Type) bool {
	b, ok := t.Underlying().(*types.Basic)
	return ok && b.Info()&types.IsString != 0
}

func (t *tr) leanType(ty types.Type, at ast.Node) string {
	switch {
	case isFloat(ty):
		return "ℝ"
	case isInt(ty):
		return "ℤ"
	case isBool(ty):
		return "Bool"
	case isString(ty):
		return "String"
	}
	if n, ok := ty.(*types.Named); ok {
		if n.Obj().Name() == "Schedule" {
			return "Sched"
		}
	}
	if sig, ok := ty.Underlying().(*types.Signature); ok {
		var parts []string
		for i := 0; i < sig.Params().Len(); i++ {
			parts = append(parts, t.leanType(sig.Params().At(i).Type(), at))
		}
		parts = append(parts, t.leanType(sig.Results().At(0).Type(), at))
		return "(" + strings.Join(parts, " → ") + ")"
	}
	return t.fail(at, "type %s", ty)
}

func (t *tr) constLit(tv types.TypeAndValue, at ast.Node) (string, bool) {
	if tv.Value == nil {
		return "", false
	}
	switch {
	case isFloat(tv.Type) || tv.Value.Kind() == constant.Float && !isInt(tv.Type):
		// exact rational
		v := constant.ToFloat(tv.Value)
		num := constant.Num(v)
		den := constant.Denom(v)
		if den.ExactString() == "1" {
			return "(" + num.ExactString() + " : ℝ)", true
		}
		if t.round {
			return "(fl ((" + num.ExactString() + " : ℝ) / " + den.ExactString() + "))", true
		}
		return "((" + num.ExactString() + " : ℝ) / " + den.ExactString() + ")", true
	case isInt(tv.Type):
		v := constant.ToInt(tv.Value)
		if v.Kind() != constant.Int {
			return t.fail(at, "non-integer constant for integer type"), true
		}
		return "(" + v.ExactString() + " : ℤ)", true
	case isBool(tv.Type):
		if constant.BoolVal(tv.Value) {
			return "true", true
		}
		return "false", true
	case isString(tv.Type):
		return fmt.Sprintf("%q", constant.StringVal(tv.Value)), true
	}
	return "", false
}

func (t *tr) expr(e ast.Expr) string {
	info := t.pkg.TypesInfo
	if tv, ok := info.Types[e]; ok && tv.Value != nil {
		if s, ok := t.constLit(tv, e); ok {
			return s
		}
	}
	switch x := e.(type) {
	case *ast.ParenExpr:
		return t.expr(x.X)
	case *ast.Ident:
		// a package-level function of the same package used as a VALUE (e.g. a named helper passed where a function
		// literal stood before): translated on demand like a called helper. Additive: the bare name was an unknown
		// identifier on the Lean side before.
		if fn, ok := info.Uses[x].(*types.Func); ok && fn.Pkg() == t.pkg.Types {
			if _, listed := t.known[x.Name]; !listed {
				if name, ok := t.helperFunc(x); ok {
					return name
				}
			}
		}
		return mangle(x.Name)
	case *ast.UnaryExpr:
		switch x.Op {
		case token.SUB:
			return "(-" + t.expr(x.X) + ")"
		case token.NOT:
			return "(!" + t.expr(x.X) + ")"
		}
		return t.fail(e, "unary %s", x.Op)
	case *ast.BinaryExpr:
		l, r := t.expr(x.X), t.expr(x.Y)
		ty := info.TypeOf(x.X)
		switch x.Op {
		case token.ADD:
			return t.rnd(e, "("+l+" + "+r+")")
		case token.SUB:
			return t.rnd(e, "("+l+" - "+r+")")
		case token.MUL:
			return t.rnd(e, "("+l+" * "+r+")")
		case token.QUO:
			if isInt(info.TypeOf(e)) {
				return "(Go.tdiv " + l + " " + r + ")"
			}
			return t.rnd(e, "("+l+" / "+r+")")
		case token.REM:
			if isInt(info.TypeOf(e)) {
				return "(Go.tmod " + l + " " + r + ")"
			}
		case token.LSS:
			return "(" + l + " < " + r + ")"
		case token.LEQ:
			return "(" + l + " ≤ " + r + ")"
		case token.GTR:
			return "(" + l + " > " + r + ")"
		case token.GEQ:
			return "(" + l + " ≥ " + r + ")"
		case token.EQL:
			_ = ty
			return "(" + l + " = " + r + ")"
		case token.NEQ:
			return "(" + l + " ≠ " + r + ")"
		case token.LAND:
			return "(" + l + " ∧ " + r + ")"
		case token.LOR:
			return "(" + l + " ∨ " + r + ")"
		}
		return t.fail(e, "binary %s", x.Op)
	case *ast.CallExpr:
		// make([]T, 0) / make([]T, 0, capacity): an empty slice, whatever its capacity. Additive (was unsupported).
		if f, ok := x.Fun.(*ast.Ident); ok && f.Name == "make" && info.Uses[f] == types.Universe.Lookup("make") && len(x.Args) >= 2 {
			if _, isSlice := info.TypeOf(x.Args[0]).Underlying().(*types.Slice); isSlice {
				if tv, ok := info.Types[x.Args[1]]; ok && tv.Value != nil && tv.Value.ExactString() == "0" {
					return "[]"
				}
			}
		}
		// conversion?
		if tv, ok := info.Types[x.Fun]; ok && tv.IsType() {
			if len(x.Args) != 1 {
				return t.fail(e, "conversion arity")
			}
			src := info.TypeOf(x.Args[0])
			dst := tv.Type
			a := t.expr(x.Args[0])
			switch {
			case isFloat(dst) && isInt(src):
				return t.rnd(e, "(("+a+" : ℤ) : ℝ)")
			case isInt(dst) && isFloat(src):
				return "(Go.f2i " + a + ")"
			case isFloat(dst) && isFloat(src):
				// float64(x) of a float32 is exact; float32(x) of a float64 rounds to 24 bits and is NOT the identity
				if db, ok := dst.Underlying().(*types.Basic); ok && db.Kind() == types.Float32 {
					if sb, ok := src.Underlying().(*types.Basic); ok && sb.Kind() != types.Float32 {
						return t.fail(e, "narrowing conversion %s -> %s", src, dst)
					}
				}
				return a
			case isInt(dst) && isInt(src):
				return a
			}
			return t.fail(e, "conversion %s -> %s", src, dst)
		}
		// math.Sqrt etc
		if sel, ok := x.Fun.(*ast.SelectorExpr); ok {
			if id, ok := sel.X.(*ast.Ident); ok {
				if pn, ok := info.Uses[id].(*types.PkgName); ok {
					full := pn.Imported().Path() + "." + sel.Sel.Name
					switch full {
					case "math.Sqrt":
						return t.rnd(e, "(Real.sqrt "+t.expr(x.Args[0])+")")
					}
					if s, ok := t.mathCall(full, x); ok {
						return s
					}
					return t.fail(e, "call %s", full)
				}
			}
			if s, ok := t.durationMethod(sel, x); ok {
				return s
			}
		}
		if id, ok := x.Fun.(*ast.Ident); ok {
			switch id.Name {
			case "NewDoAtSchedule":
				if len(x.Args) == 3 {
					return "(Sched.doAt " + t.expr(x.Args[0]) + " " + t.expr(x.Args[1]) + " " + t.expr(x.Args[2]) + ")"
				}
			case "NewCompositeConf":
				// NewCompositeConf(CompositeConf{nexts})
				if len(x.Args) == 1 {
					if cl, ok := x.Args[0].(*ast.CompositeLit); ok && len(cl.Elts) == 1 {
						el := cl.Elts[0]
						if kve, ok := el.(*ast.KeyValueExpr); ok {
							el = kve.Value
						}
						return "(Sched.composite " + t.expr(el) + ")"
					}
				}
			}
			if ln, ok := t.known[id.Name]; ok {
				var args []string
				for _, a := range x.Args {
					args = append(args, t.expr(a))
				}
				return "(" + ln + " " + strings.Join(args, " ") + ")"
			}
			if ln, ok := t.helperFunc(id); ok {
				var args []string
				for _, a := range x.Args {
					args = append(args, t.expr(a))
				}
				return "(" + ln + " " + strings.Join(args, " ") + ")"
			}
			return t.fail(e, "call %s", id.Name)
		}
		return t.fail(e, "call")
	case *ast.FuncLit:
		var ps []string
		for _, f := range x.Type.Params.List {
			for _, n := range f.Names {
				ps = append(ps, "("+mangle(n.Name)+" : "+t.leanType(info.TypeOf(f.Type), f)+")")
			}
		}
		return "(fun " + strings.Join(ps, " ") + " =>\n" + t.block(x.Body.List, "      ") + ")"
	}
	return t.fail(e, "%T", e)
}

// block translates a statement list whose control flow ends in return on every path.
func (t *tr) block(stmts []ast.Stmt, ind string) string {
	if len(stmts) == 0 {
		return ind + "(UNSUPPORTED-empty-block)"
	}
	info := t.pkg.TypesInfo
	s := stmts[0]
	rest := stmts[1:]
	switch x := s.(type) {
	case *ast.ReturnStmt:
		if len(x.Results) != 1 {
			return ind + t.fail(s, "return arity")
		}
		return ind + t.expr(x.Results[0])
	case *ast.AssignStmt:
		if len(x.Lhs) == 1 && len(x.Rhs) == 1 {
			id, ok := x.Lhs[0].(*ast.Ident)
			if !ok {
				return ind + t.fail(s, "assign target")
			}
			if id.Name == "_" {
				return t.block(rest, ind)
			}
			// a variable that outlives the call (package level) is not a `let`: another call sees the assignment
			if obj := info.ObjectOf(id); obj != nil && obj.Pkg() != nil && obj.Parent() == obj.Pkg().Scope() {
				return ind + t.fail(s, "assignment to the package-level variable %s", id.Name)
			}
			rhs := ""
			// xs = append(xs, e1, e2)
			if call, ok := x.Rhs[0].(*ast.CallExpr); ok {
				if f, ok := call.Fun.(*ast.Ident); ok && f.Name == "append" {
					var els []string
					for _, a := range call.Args[1:] {
						els = append(els, t.expr(a))
					}
					rhs = "(" + t.expr(call.Args[0]) + " ++ [" + strings.Join(els, ", ") + "])"
				}
			}
			if rhs == "" {
				rhs = t.expr(x.Rhs[0])
			}
			switch x.Tok {
			case token.DEFINE, token.ASSIGN:
			// (float64 reading: `x op= e` is the float operation `x op e`, rounded like any other)
			case token.ADD_ASSIGN:
				rhs = t.rnd(x.Lhs[0], "("+mangle(id.Name)+" + "+rhs+")")
			case token.SUB_ASSIGN:
				rhs = t.rnd(x.Lhs[0], "("+mangle(id.Name)+" - "+rhs+")")
			case token.MUL_ASSIGN:
				rhs = t.rnd(x.Lhs[0], "("+mangle(id.Name)+" * "+rhs+")")
			case token.QUO_ASSIGN:
				if !isFloat(info.TypeOf(x.Lhs[0])) {
					return ind + t.fail(s, "assign op %s on a non-float", x.Tok)
				}
				rhs = t.rnd(x.Lhs[0], "("+mangle(id.Name)+" / "+rhs+")")
			default:
				return ind + t.fail(s, "assign op %s", x.Tok)
			}
			ty := ""
			if _, isSlice := info.TypeOf(x.Lhs[0]).Underlying().(*types.Slice); isSlice {
				ty = "List Sched"
			} else {
				ty = t.leanType(info.TypeOf(x.Lhs[0]), s)
			}
			return ind + "let " + mangle(id.Name) + " : " + ty + " := " + rhs + "\n" + t.block(rest, ind)
		}
		return ind + t.fail(s, "multi-assign")
	case *ast.DeclStmt:
		gd, ok := x.Decl.(*ast.GenDecl)
		if ok && gd.Tok == token.VAR && len(gd.Specs) == 1 {
			vs := gd.Specs[0].(*ast.ValueSpec)
			if len(vs.Names) == 1 && len(vs.Values) == 0 {
				if _, isSlice := info.TypeOf(vs.Type).Underlying().(*types.Slice); isSlice {
					return ind + "let " + mangle(vs.Names[0].Name) + " : List Sched := []\n" + t.block(rest, ind)
				}
			}
			// var x T = e   /   var x = e   (scalars; additive: was "unsupported: decl")
			if len(vs.Names) == 1 && len(vs.Values) == 1 {
				if ty := info.TypeOf(vs.Names[0]); ty != nil && (isFloat(ty) || isInt(ty) || isBool(ty)) {
					return ind + "let " + mangle(vs.Names[0].Name) + " : " + t.leanType(ty, s) + " := " + t.expr(vs.Values[0]) + "\n" + t.block(rest, ind)
				}
			}
		}
		return ind + t.fail(s, "decl")
	case *ast.IfStmt:
		if x.Init != nil {
			return ind + t.fail(s, "if-init")
		}
		c := t.expr(x.Cond)
		endsInReturn := func(b []ast.Stmt) bool {
			if len(b) == 0 {
				return false
			}
			_, ok := b[len(b)-1].(*ast.ReturnStmt)
			return ok
		}
		if endsInReturn(x.Body.List) && x.Else == nil {
			return ind + "if " + c + " then\n" + t.block(x.Body.List, ind+"  ") + "\n" + ind + "else\n" + t.block(rest, ind+"  ")
		}
		// if c { …; return a } else { …; return b } as the last statement (additive: was "unsupported: if shape")
		if eb, ok := x.Else.(*ast.BlockStmt); ok && endsInReturn(x.Body.List) && endsInReturn(eb.List) && len(rest) == 0 {
			return ind + "if " + c + " then\n" + t.block(x.Body.List, ind+"  ") + "\n" + ind + "else\n" + t.block(eb.List, ind+"  ")
		}
		// if c { v = e } (single assignment, no else)
		if len(x.Body.List) == 1 && x.Else == nil {
			if as, ok := x.Body.List[0].(*ast.AssignStmt); ok && as.Tok == token.ASSIGN && len(as.Lhs) == 1 {
				if id, ok := as.Lhs[0].(*ast.Ident); ok {
					v := mangle(id.Name)
					return ind + "let " + v + " : " + t.leanType(info.TypeOf(as.Lhs[0]), s) + " := if " + c + " then " + t.expr(as.Rhs[0]) + " else " + v + "\n" + t.block(rest, ind)
				}
			}
		}
		return ind + t.fail(s, "if shape")
	case *ast.ForStmt:
		// for i := a; i <= b; i += s { xs = append(xs, ...)+ }
		init, ok1 := x.Init.(*ast.AssignStmt)
		cond, ok2 := x.Cond.(*ast.BinaryExpr)
		post, ok3 := x.Post.(*ast.AssignStmt)
		if !ok1 || !ok2 || !ok3 || init.Tok != token.DEFINE || cond.Op != token.LEQ || post.Tok != token.ADD_ASSIGN {
			return ind + t.fail(s, "for shape")
		}
		iv := init.Lhs[0].(*ast.Ident)
		if ci, ok := cond.X.(*ast.Ident); !ok || ci.Name != iv.Name {
			return ind + t.fail(s, "for cond var")
		}
		if pi, ok := post.Lhs[0].(*ast.Ident); !ok || pi.Name != iv.Name {
			return ind + t.fail(s, "for post var")
		}
		var target string
		var els []string
		for _, bs := range x.Body.List {
			as, ok := bs.(*ast.AssignStmt)
			if !ok || len(as.Rhs) != 1 {
				return ind + t.fail(bs, "for body")
			}
			call, ok := as.Rhs[0].(*ast.CallExpr)
			if !ok {
				return ind + t.fail(bs, "for body")
			}
			f, ok := call.Fun.(*ast.Ident)
			if !ok || f.Name != "append" {
				return ind + t.fail(bs, "for body")
			}
			tg := t.expr(call.Args[0])
			if target != "" && target != tg {
				return ind + t.fail(bs, "for body appends to two slices")
			}
			target = tg
			for _, a := range call.Args[1:] {
				els = append(els, t.expr(a))
			}
		}
		loop := "Go.loopLEInt"
		if isFloat(info.TypeOf(init.Lhs[0])) {
			loop = "Go.loopLE"
		}
		return ind + "let " + target + " : List Sched := " + target + " ++ (" + loop + " " + t.expr(init.Rhs[0]) + " " + t.expr(cond.Y) + " " + t.expr(post.Rhs[0]) +
			").flatMap (fun " + mangle(iv.Name) + " => [" + strings.Join(els, ", ") + "])\n" + t.block(rest, ind)
	case *ast.SwitchStmt:
		if x.Init == nil && x.Tag == nil {
			// switch { case c1: …return; case c2: …return; default: … } -> if c1 then … else if c2 then … else default/rest
			// (additive: a tagless switch was "unsupported: switch shape")
			var b strings.Builder
			var def []ast.Stmt
			for _, cs := range x.Body.List {
				cc := cs.(*ast.CaseClause)
				if cc.List == nil {
					def = cc.Body
					continue
				}
				if len(cc.Body) == 0 {
					return ind + t.fail(s, "switch case without a body")
				}
				if _, ok := cc.Body[len(cc.Body)-1].(*ast.ReturnStmt); !ok {
					return ind + t.fail(s, "switch case that does not end in return")
				}
				var conds []string
				for _, v := range cc.List {
					conds = append(conds, t.expr(v))
				}
				b.WriteString(ind + "if " + strings.Join(conds, " ∨ ") + " then\n" + t.block(cc.Body, ind+"  ") + "\n" + ind + "else\n")
			}
			if def == nil {
				def = rest
			} else if len(rest) > 0 {
				return ind + t.fail(s, "switch with a default followed by more statements")
			}
			b.WriteString(t.block(def, ind+"  "))
			return b.String()
		}
		if x.Init != nil || x.Tag == nil {
			return ind + t.fail(s, "switch shape")
		}
		tag := t.expr(x.Tag)
		var b strings.Builder
		var def []ast.Stmt
		closing := 0
		for _, cs := range x.Body.List {
			cc := cs.(*ast.CaseClause)
			if cc.List == nil {
				def = cc.Body
				continue
			}
			var conds []string
			for _, v := range cc.List {
				conds = append(conds, tag+" = "+t.expr(v))
			}
			b.WriteString(ind + "if " + strings.Join(conds, " ∨ ") + " then\n" + t.block(cc.Body, ind+"  ") + "\n" + ind + "else\n")
			closing++
		}
		if def == nil {
			def = rest
		}
		b.WriteString(t.block(def, ind+"  "))
		return b.String()
	}
	return ind + t.fail(s, "%T", s)
}

// mathCall: further functions of package math over ℝ (exact). Additive: every one of these was a translation error before.
func (t *tr) mathCall(full string, x *ast.CallExpr) (string, bool) {
	arg := func(i int) string { return t.expr(x.Args[i]) }
	switch {
	case full == "math.Floor" && len(x.Args) == 1:
		return "((⌊" + arg(0) + "⌋ : ℤ) : ℝ)", true
	case full == "math.Ceil" && len(x.Args) == 1:
		return "((⌈" + arg(0) + "⌉ : ℤ) : ℝ)", true
	case full == "math.Trunc" && len(x.Args) == 1:
		return "(((Go.f2i " + arg(0) + ") : ℤ) : ℝ)", true
	case full == "math.Round" && len(x.Args) == 1:
		// half away from zero
		a := arg(0)
		return "(((if (0 : ℝ) ≤ " + a + " then ⌊" + a + " + 1 / 2⌋ else ⌈" + a + " - 1 / 2⌉) : ℤ) : ℝ)", true
	case full == "math.Abs" && len(x.Args) == 1:
		return "|" + arg(0) + "|", true
	case full == "math.Max" && len(x.Args) == 2:
		return "(max " + arg(0) + " " + arg(1) + ")", true
	case full == "math.Min" && len(x.Args) == 2:
		return "(min " + arg(0) + " " + arg(1) + ")", true
	case full == "math.Pow" && len(x.Args) == 2:
		// only a constant natural exponent
		if tv, ok := t.pkg.TypesInfo.Types[x.Args[1]]; ok && tv.Value != nil {
			if v := constant.ToInt(tv.Value); v.Kind() == constant.Int {
				if n, ok := constant.Int64Val(v); ok && n >= 0 && n <= 16 {
					return fmt.Sprintf("(%s ^ (%d : ℕ))", arg(0), n), true
				}
			}
		}
	}
	return "", false
}

// durationMethod: d.Seconds() etc. on a time.Duration (ℤ ns): the float-valued ones are exact quotients over ℝ, the
// integer-valued ones T-divisions. Additive: a method call was a translation error before.
func (t *tr) durationMethod(sel *ast.SelectorExpr, x *ast.CallExpr) (string, bool) {
	ty := t.pkg.TypesInfo.TypeOf(sel.X)
	if ty == nil || types.TypeString(ty, nil) != "time.Duration" || len(x.Args) != 0 {
		return "", false
	}
	d := t.expr(sel.X)
	switch sel.Sel.Name {
	case "Nanoseconds":
		return d, true
	case "Microseconds":
		return "(Go.tdiv " + d + " (1000 : ℤ))", true
	case "Milliseconds":
		return "(Go.tdiv " + d + " (1000000 : ℤ))", true
	case "Seconds", "Minutes", "Hours":
		unit := map[string]string{"Seconds": "1000000000", "Minutes": "60000000000", "Hours": "3600000000000"}[sel.Sel.Name]
		if t.round {
			// float64 reading: the library computes float64(d/unit) + float64(d%unit)/unit (both conversions exact below
			// 2^53), i.e. two roundings of non-negative quantities; it is read as fl(fl(d)/unit), which has the same
			// envelope (1 ± u)² around d/unit — all that the error analysis uses
			return "(fl ((fl ((" + d + " : ℤ) : ℝ)) / (" + unit + " : ℝ)))", true
		}
		return "(((" + d + " : ℤ) : ℝ) / (" + unit + " : ℝ))", true
	}
	return "", false
}

// helperFunc: a call of a package-level function of the same package that is not one of the area's listed functions
// (e.g. a helper extracted by a refactoring). It is translated on demand like a listed one, under the Lean name
// `aux_<name>`, and emitted BEFORE the function that was being translated; t.auxNames lets the area's `extra` emitter
// publish the names (area schedule: tactic macro `schedule_aux_unfold`). Additive: such a call was a translation error.
func (t *tr) helperFunc(id *ast.Ident) (string, bool) {
	obj, ok := t.pkg.TypesInfo.Uses[id].(*types.Func)
	if !ok || obj.Pkg() != t.pkg.Types {
		return "", false
	}
	fd := findFunc(t.pkg, id.Name)
	if fd == nil || fd.Body == nil || fd.Type.Results == nil || len(fd.Type.Results.List) != 1 {
		return "", false
	}
	if t.translating == nil {
		t.translating = map[string]bool{}
	}
	if t.translating[id.Name] {
		return "", false // recursion
	}
	name := "aux_" + id.Name
	call := name
	if t.round {
		name += "_fl"
		call = name + " fl"
	}
	t.translating[id.Name] = true
	text := t.funcDecl(fd, name)
	delete(t.translating, id.Name)
	if t.round {
		text = strings.Replace(text, "def "+name+" ", "def "+name+" (fl : ℝ → ℝ) ", 1)
	}
	t.known[id.Name] = call
	t.aux = append(t.aux, text)
	t.auxNames = append(t.auxNames, name)
	return call, true
}

func (t *tr) funcDecl(fd *ast.FuncDecl, leanName string) string {
	info := t.pkg.TypesInfo
	var ps []string
	for _, f := range fd.Type.Params.List {
		for _, n := range f.Names {
			ps = append(ps, "("+mangle(n.Name)+" : "+t.leanType(info.TypeOf(f.Type), f)+")")
		}
	}
	ret := t.leanType(info.TypeOf(fd.Type.Results.List[0].Type), fd)
	pos := t.pkg.Fset.Position(fd.Pos())
	rel, _ := filepath.Rel(repo, pos.Filename)
	return fmt.Sprintf("/-- regenerated from `%s` func `%s` -/\ndef %s %s : %s :=\n%s\n", rel, fd.Name.Name, leanName, strings.Join(ps, " "), ret, t.block(fd.Body.List, "  "))
}

var repo string

type area struct {
	pkgPath   string
	module    string   // Lean module name under Pandora.Gen
	namespace string
	imports   []string
	funcs     []string // in dependency order
	extra     func(t *tr) string
}

var areas = map[string]area{}

func load(pkgPath string) *packages.Package {
	cfg := &packages.Config{Mode: packages.NeedName | packages.NeedSyntax | packages.NeedTypes | packages.NeedTypesInfo |
		packages.NeedFiles | packages.NeedImports | packages.NeedDeps, Dir: repo, BuildFlags: []string{"-tags=verif"}}
	pkgs, err := packages.Load(cfg, pkgPath)
	if err != nil {
		fmt.Fprintln(os.Stderr, "load:", err)
		os.Exit(1)
	}
	if len(pkgs) != 1 || len(pkgs[0].Errors) > 0 {
		fmt.Fprintln(os.Stderr, "load errors:", pkgs[0].Errors)
		os.Exit(1)
	}
	return pkgs[0]
}

func findFunc(p *packages.Package, name string) *ast.FuncDecl {
	for _, f := range p.Syntax {
		for _, d := range f.Decls {
			if fd, ok := d.(*ast.FuncDecl); ok && fd.Recv == nil && fd.Name.Name == name {
				return fd
			}
		}
	}
	return nil
}

func main() {
	areaName := flag.String("area", "", "")
	out := flag.String("out", "", "")
	flag.StringVar(&repo, "repo", "/repo", "")
	flag.Parse()
	a, ok := areas[*areaName]
	if !ok {
		var ks []string
		for k := range areas {
			ks = append(ks, k)
		}
		sort.Strings(ks)
		fmt.Fprintln(os.Stderr, "unknown area; have", ks)
		os.Exit(2)
	}
	p := load(a.pkgPath)
	t := &tr{pkg: p, known: map[string]string{}}
	for _, f := range a.funcs {
		t.known[f] = f
	}
	var b bytes.Buffer
	b.WriteString("-- GENERATED by /verif/gen from " + a.pkgPath + " — do not edit; rewritten on every check run.\n")
	for _, im := range a.imports {
		b.WriteString("import " + im + "\n")
	}
	b.WriteString("\nset_option linter.unusedVariables false\n\nnamespace " + a.namespace + "\nopen Pandora Pandora.Go\n\n")
	if len(a.funcs) > 0 {
		b.WriteString("noncomputable section\n\n")
	}
	for _, f := range a.funcs {
		fd := findFunc(p, f)
		if fd == nil {
			t.errs = append(t.errs, "function "+f+" not found in "+a.pkgPath)
			continue
		}
		text := t.funcDecl(fd, f)
		for _, a := range t.aux { // helpers translated on demand while translating f
			b.WriteString(a)
			b.WriteString("\n")
		}
		t.aux = nil
		b.WriteString(text)
		b.WriteString("\n")
	}
	if len(a.funcs) > 0 {
		b.WriteString("end\n\n")
	}
	if a.extra != nil {
		b.WriteString(a.extra(t))
	}
	b.WriteString("\nend " + a.namespace + "\n")
	if len(t.errs) > 0 {
		for _, e := range t.errs {
			fmt.Fprintln(os.Stderr, e)
		}
		// still write the file so the broken obligation is visible to lake too
	}
	path := filepath.Join(*out, a.module+".lean")
	old, _ := os.ReadFile(path)
	if !bytes.Equal(old, b.Bytes()) {
		if err := os.WriteFile(path, b.Bytes(), 0o644); err != nil {
			fmt.Fprintln(os.Stderr, err)
			os.Exit(1)
		}
		fmt.Println("rewrote", path)
	}
	if len(t.errs) > 0 {
		os.Exit(1)
	}
}
