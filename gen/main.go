// Command gen regenerates Lean definitions from /repo's CURRENT source.
//
//	gen -repo /repo -area schedule -out /verif/lean/Pandora/Gen
//
// It type-checks the package with go/packages and translates a whitelisted set
// of functions, statement by statement and expression by expression, into Lean
// text. Reading of Go semantics (part of the trusted base, DESIGN.md section 8):
//
//	float64            -> ℝ (exact; float rounding is measured by the sampling tie, not proved)
//	int, int64, Duration, other integer kinds -> ℤ (no wrap-around; range is an explicit proof obligation)
//	typed integer x/y  -> Go.tdiv x y    (T-division; this is what exposes float64(duration/1e9))
//	float64(intexpr)   -> ((e : ℤ) : ℝ)
//	int64(floatexpr), time.Duration(floatexpr) -> Go.f2i e   (truncation toward zero)
//	math.Sqrt          -> Real.sqrt
//	x := e / x = e     -> let x := e
//	if c { x = e }     -> let x := if c then e else x
//	if c { return e }  -> if c then e else <rest>
//	for i := a; i <= b; i += s { xs = append(xs, e...) } -> xs ++ (Go.loopLE a b s).flatMap (fun i => [e...])
//	switch v { case k: return e ... default: return d }  -> if v = k then e else ... d
//
// Anything outside the supported subset makes gen exit non-zero (a broken
// obligation), never a silent default. Files are rewritten only when their
// content changes so unchanged sources do not trigger lake rebuilds.
package main

import (
	"bytes"
	"flag"
	"fmt"
	"go/ast"
	"go/constant"
	"go/token"
	"go/types"
	"os"
	"path/filepath"
	"sort"
	"strings"

	"golang.org/x/tools/go/packages"
)

type tr struct {
	pkg  *packages.Package
	errs []string
	// names of package-level functions translated in this area (calls to them become Lean calls)
	known map[string]string
}

func (t *tr) fail(n ast.Node, format string, a ...any) string {
	msg := fmt.Sprintf("%s: unsupported: %s", t.pkg.Fset.Position(n.Pos()), fmt.Sprintf(format, a...))
	t.errs = append(t.errs, msg)
	return "(UNSUPPORTED)"
}

var leanKeywords = map[string]bool{"from": true, "to": true, "at": true, "end": true, "open": true, "in": true,
	"fun": true, "let": true, "if": true, "then": true, "else": true, "do": true, "have": true, "show": true,
	"match": true, "with": true, "where": true, "def": true, "theorem": true, "by": true, "then_": true, "type": true,
	"left": false}

func mangle(s string) string {
	if leanKeywords[s] {
		return "r" + strings.ToUpper(s[:1]) + s[1:]
	}
	return s
}

func isFloat(t types.Type) bool {
	b, ok := t.Underlying().(*types.Basic)
	return ok && b.Info()&types.IsFloat != 0
}
func isInt(t types.Type) bool {
	b, ok := t.Underlying().(*types.Basic)
	return ok && b.Info()&types.IsInteger != 0
}
func isBool(t types.Type) bool {
	b, ok := t.Underlying().(*types.Basic)
	return ok && b.Info()&types.IsBoolean != 0
}
func isString(t types.Type) bool {
	b, ok := t.Underlying().(*types.Basic)
	return ok && b.Info()&types.IsString != 0
}

func (t *tr) leanType(ty types.Type, at ast.Node) string {
	switch {
	case isFloat(ty):
		return "ℝ"
	case isInt(ty):
		return "ℤ"
	case isBool(ty):
		return "Bool"
	case isString(ty):
		return "String"
	}
	if n, ok := ty.(*types.Named); ok {
		if n.Obj().Name() == "Schedule" {
			return "Sched"
		}
	}
	if sig, ok := ty.Underlying().(*types.Signature); ok {
		var parts []string
		for i := 0; i < sig.Params().Len(); i++ {
			parts = append(parts, t.leanType(sig.Params().At(i).Type(), at))
		}
		parts = append(parts, t.leanType(sig.Results().At(0).Type(), at))
		return "(" + strings.Join(parts, " → ") + ")"
	}
	return t.fail(at, "type %s", ty)
}

func (t *tr) constLit(tv types.TypeAndValue, at ast.Node) (string, bool) {
	if tv.Value == nil {
		return "", false
	}
	switch {
	case isFloat(tv.Type) || tv.Value.Kind() == constant.Float && !isInt(tv.Type):
		// exact rational
		v := constant.ToFloat(tv.Value)
		num := constant.Num(v)
		den := constant.Denom(v)
		if den.ExactString() == "1" {
			return "(" + num.ExactString() + " : ℝ)", true
		}
		return "((" + num.ExactString() + " : ℝ) / " + den.ExactString() + ")", true
	case isInt(tv.Type):
		v := constant.ToInt(tv.Value)
		if v.Kind() != constant.Int {
			return t.fail(at, "non-integer constant for integer type"), true
		}
		return "(" + v.ExactString() + " : ℤ)", true
	case isBool(tv.Type):
		if constant.BoolVal(tv.Value) {
			return "true", true
		}
		return "false", true
	case isString(tv.Type):
		return fmt.Sprintf("%q", constant.StringVal(tv.Value)), true
	}
	return "", false
}

func (t *tr) expr(e ast.Expr) string {
	info := t.pkg.TypesInfo
	if tv, ok := info.Types[e]; ok && tv.Value != nil {
		if s, ok := t.constLit(tv, e); ok {
			return s
		}
	}
	switch x := e.(type) {
	case *ast.ParenExpr:
		return t.expr(x.X)
	case *ast.Ident:
		return mangle(x.Name)
	case *ast.UnaryExpr:
		switch x.Op {
		case token.SUB:
			return "(-" + t.expr(x.X) + ")"
		case token.NOT:
			return "(!" + t.expr(x.X) + ")"
		}
		return t.fail(e, "unary %s", x.Op)
	case *ast.BinaryExpr:
		l, r := t.expr(x.X), t.expr(x.Y)
		ty := info.TypeOf(x.X)
		switch x.Op {
		case token.ADD:
			return "(" + l + " + " + r + ")"
		case token.SUB:
			return "(" + l + " - " + r + ")"
		case token.MUL:
			return "(" + l + " * " + r + ")"
		case token.QUO:
			if isInt(info.TypeOf(e)) {
				return "(Go.tdiv " + l + " " + r + ")"
			}
			return "(" + l + " / " + r + ")"
		case token.REM:
			if isInt(info.TypeOf(e)) {
				return "(Go.tmod " + l + " " + r + ")"
			}
		case token.LSS:
			return "(" + l + " < " + r + ")"
		case token.LEQ:
			return "(" + l + " ≤ " + r + ")"
		case token.GTR:
			return "(" + l + " > " + r + ")"
		case token.GEQ:
			return "(" + l + " ≥ " + r + ")"
		case token.EQL:
			_ = ty
			return "(" + l + " = " + r + ")"
		case token.NEQ:
			return "(" + l + " ≠ " + r + ")"
		case token.LAND:
			return "(" + l + " ∧ " + r + ")"
		case token.LOR:
			return "(" + l + " ∨ " + r + ")"
		}
		return t.fail(e, "binary %s", x.Op)
	case *ast.CallExpr:
		// conversion?
		if tv, ok := info.Types[x.Fun]; ok && tv.IsType() {
			if len(x.Args) != 1 {
				return t.fail(e, "conversion arity")
			}
			src := info.TypeOf(x.Args[0])
			dst := tv.Type
			a := t.expr(x.Args[0])
			switch {
			case isFloat(dst) && isInt(src):
				return "((" + a + " : ℤ) : ℝ)"
			case isInt(dst) && isFloat(src):
				return "(Go.f2i " + a + ")"
			case isInt(dst) && isInt(src), isFloat(dst) && isFloat(src):
				return a
			}
			return t.fail(e, "conversion %s -> %s", src, dst)
		}
		// math.Sqrt etc
		if sel, ok := x.Fun.(*ast.SelectorExpr); ok {
			if id, ok := sel.X.(*ast.Ident); ok {
				if pn, ok := info.Uses[id].(*types.PkgName); ok {
					full := pn.Imported().Path() + "." + sel.Sel.Name
					switch full {
					case "math.Sqrt":
						return "(Real.sqrt " + t.expr(x.Args[0]) + ")"
					}
					return t.fail(e, "call %s", full)
				}
			}
		}
		if id, ok := x.Fun.(*ast.Ident); ok {
			switch id.Name {
			case "NewDoAtSchedule":
				if len(x.Args) == 3 {
					return "(Sched.doAt " + t.expr(x.Args[0]) + " " + t.expr(x.Args[1]) + " " + t.expr(x.Args[2]) + ")"
				}
			case "NewCompositeConf":
				// NewCompositeConf(CompositeConf{nexts})
				if len(x.Args) == 1 {
					if cl, ok := x.Args[0].(*ast.CompositeLit); ok && len(cl.Elts) == 1 {
						el := cl.Elts[0]
						if kve, ok := el.(*ast.KeyValueExpr); ok {
							el = kve.Value
						}
						return "(Sched.composite " + t.expr(el) + ")"
					}
				}
			}
			if ln, ok := t.known[id.Name]; ok {
				var args []string
				for _, a := range x.Args {
					args = append(args, t.expr(a))
				}
				return "(" + ln + " " + strings.Join(args, " ") + ")"
			}
			return t.fail(e, "call %s", id.Name)
		}
		return t.fail(e, "call")
	case *ast.FuncLit:
		var ps []string
		for _, f := range x.Type.Params.List {
			for _, n := range f.Names {
				ps = append(ps, "("+mangle(n.Name)+" : "+t.leanType(info.TypeOf(f.Type), f)+")")
			}
		}
		return "(fun " + strings.Join(ps, " ") + " =>\n" + t.block(x.Body.List, "      ") + ")"
	}
	return t.fail(e, "%T", e)
}

// block translates a statement list whose control flow ends in return on every path.
func (t *tr) block(stmts []ast.Stmt, ind string) string {
	if len(stmts) == 0 {
		return ind + "(UNSUPPORTED-empty-block)"
	}
	info := t.pkg.TypesInfo
	s := stmts[0]
	rest := stmts[1:]
	switch x := s.(type) {
	case *ast.ReturnStmt:
		if len(x.Results) != 1 {
			return ind + t.fail(s, "return arity")
		}
		return ind + t.expr(x.Results[0])
	case *ast.AssignStmt:
		if len(x.Lhs) == 1 && len(x.Rhs) == 1 {
			id, ok := x.Lhs[0].(*ast.Ident)
			if !ok {
				return ind + t.fail(s, "assign target")
			}
			if id.Name == "_" {
				return t.block(rest, ind)
			}
			rhs := ""
			// xs = append(xs, e1, e2)
			if call, ok := x.Rhs[0].(*ast.CallExpr); ok {
				if f, ok := call.Fun.(*ast.Ident); ok && f.Name == "append" {
					var els []string
					for _, a := range call.Args[1:] {
						els = append(els, t.expr(a))
					}
					rhs = "(" + t.expr(call.Args[0]) + " ++ [" + strings.Join(els, ", ") + "])"
				}
			}
			if rhs == "" {
				rhs = t.expr(x.Rhs[0])
			}
			switch x.Tok {
			case token.DEFINE, token.ASSIGN:
			case token.ADD_ASSIGN:
				rhs = "(" + mangle(id.Name) + " + " + rhs + ")"
			default:
				return ind + t.fail(s, "assign op %s", x.Tok)
			}
			ty := ""
			if _, isSlice := info.TypeOf(x.Lhs[0]).Underlying().(*types.Slice); isSlice {
				ty = "List Sched"
			} else {
				ty = t.leanType(info.TypeOf(x.Lhs[0]), s)
			}
			return ind + "let " + mangle(id.Name) + " : " + ty + " := " + rhs + "\n" + t.block(rest, ind)
		}
		return ind + t.fail(s, "multi-assign")
	case *ast.DeclStmt:
		gd, ok := x.Decl.(*ast.GenDecl)
		if ok && gd.Tok == token.VAR && len(gd.Specs) == 1 {
			vs := gd.Specs[0].(*ast.ValueSpec)
			if len(vs.Names) == 1 && len(vs.Values) == 0 {
				if _, isSlice := info.TypeOf(vs.Type).Underlying().(*types.Slice); isSlice {
					return ind + "let " + mangle(vs.Names[0].Name) + " : List Sched := []\n" + t.block(rest, ind)
				}
			}
		}
		return ind + t.fail(s, "decl")
	case *ast.IfStmt:
		if x.Init != nil {
			return ind + t.fail(s, "if-init")
		}
		c := t.expr(x.Cond)
		endsInReturn := func(b []ast.Stmt) bool {
			if len(b) == 0 {
				return false
			}
			_, ok := b[len(b)-1].(*ast.ReturnStmt)
			return ok
		}
		if endsInReturn(x.Body.List) && x.Else == nil {
			return ind + "if " + c + " then\n" + t.block(x.Body.List, ind+"  ") + "\n" + ind + "else\n" + t.block(rest, ind+"  ")
		}
		// if c { v = e } (single assignment, no else)
		if len(x.Body.List) == 1 && x.Else == nil {
			if as, ok := x.Body.List[0].(*ast.AssignStmt); ok && as.Tok == token.ASSIGN && len(as.Lhs) == 1 {
				if id, ok := as.Lhs[0].(*ast.Ident); ok {
					v := mangle(id.Name)
					return ind + "let " + v + " : " + t.leanType(info.TypeOf(as.Lhs[0]), s) + " := if " + c + " then " + t.expr(as.Rhs[0]) + " else " + v + "\n" + t.block(rest, ind)
				}
			}
		}
		return ind + t.fail(s, "if shape")
	case *ast.ForStmt:
		// for i := a; i <= b; i += s { xs = append(xs, ...)+ }
		init, ok1 := x.Init.(*ast.AssignStmt)
		cond, ok2 := x.Cond.(*ast.BinaryExpr)
		post, ok3 := x.Post.(*ast.AssignStmt)
		if !ok1 || !ok2 || !ok3 || init.Tok != token.DEFINE || cond.Op != token.LEQ || post.Tok != token.ADD_ASSIGN {
			return ind + t.fail(s, "for shape")
		}
		iv := init.Lhs[0].(*ast.Ident)
		if ci, ok := cond.X.(*ast.Ident); !ok || ci.Name != iv.Name {
			return ind + t.fail(s, "for cond var")
		}
		if pi, ok := post.Lhs[0].(*ast.Ident); !ok || pi.Name != iv.Name {
			return ind + t.fail(s, "for post var")
		}
		var target string
		var els []string
		for _, bs := range x.Body.List {
			as, ok := bs.(*ast.AssignStmt)
			if !ok || len(as.Rhs) != 1 {
				return ind + t.fail(bs, "for body")
			}
			call, ok := as.Rhs[0].(*ast.CallExpr)
			if !ok {
				return ind + t.fail(bs, "for body")
			}
			f, ok := call.Fun.(*ast.Ident)
			if !ok || f.Name != "append" {
				return ind + t.fail(bs, "for body")
			}
			tg := t.expr(call.Args[0])
			if target != "" && target != tg {
				return ind + t.fail(bs, "for body appends to two slices")
			}
			target = tg
			for _, a := range call.Args[1:] {
				els = append(els, t.expr(a))
			}
		}
		loop := "Go.loopLEInt"
		if isFloat(info.TypeOf(init.Lhs[0])) {
			loop = "Go.loopLE"
		}
		return ind + "let " + target + " : List Sched := " + target + " ++ (" + loop + " " + t.expr(init.Rhs[0]) + " " + t.expr(cond.Y) + " " + t.expr(post.Rhs[0]) +
			").flatMap (fun " + mangle(iv.Name) + " => [" + strings.Join(els, ", ") + "])\n" + t.block(rest, ind)
	case *ast.SwitchStmt:
		if x.Init != nil || x.Tag == nil {
			return ind + t.fail(s, "switch shape")
		}
		tag := t.expr(x.Tag)
		var b strings.Builder
		var def []ast.Stmt
		closing := 0
		for _, cs := range x.Body.List {
			cc := cs.(*ast.CaseClause)
			if cc.List == nil {
				def = cc.Body
				continue
			}
			var conds []string
			for _, v := range cc.List {
				conds = append(conds, tag+" = "+t.expr(v))
			}
			b.WriteString(ind + "if " + strings.Join(conds, " ∨ ") + " then\n" + t.block(cc.Body, ind+"  ") + "\n" + ind + "else\n")
			closing++
		}
		if def == nil {
			def = rest
		}
		b.WriteString(t.block(def, ind+"  "))
		return b.String()
	}
	return ind + t.fail(s, "%T", s)
}

func (t *tr) funcDecl(fd *ast.FuncDecl, leanName string) string {
	info := t.pkg.TypesInfo
	var ps []string
	for _, f := range fd.Type.Params.List {
		for _, n := range f.Names {
			ps = append(ps, "("+mangle(n.Name)+" : "+t.leanType(info.TypeOf(f.Type), f)+")")
		}
	}
	ret := t.leanType(info.TypeOf(fd.Type.Results.List[0].Type), fd)
	pos := t.pkg.Fset.Position(fd.Pos())
	rel, _ := filepath.Rel(repo, pos.Filename)
	return fmt.Sprintf("/-- regenerated from `%s` func `%s` -/\ndef %s %s : %s :=\n%s\n", rel, fd.Name.Name, leanName, strings.Join(ps, " "), ret, t.block(fd.Body.List, "  "))
}

var repo string

type area struct {
	pkgPath   string
	module    string   // Lean module name under Pandora.Gen
	namespace string
	imports   []string
	funcs     []string // in dependency order
	extra     func(t *tr) string
}

var areas = map[string]area{}

func load(pkgPath string) *packages.Package {
	cfg := &packages.Config{Mode: packages.NeedName | packages.NeedSyntax | packages.NeedTypes | packages.NeedTypesInfo |
		packages.NeedFiles | packages.NeedImports | packages.NeedDeps, Dir: repo, BuildFlags: []string{"-tags=verif"}}
	pkgs, err := packages.Load(cfg, pkgPath)
	if err != nil {
		fmt.Fprintln(os.Stderr, "load:", err)
		os.Exit(1)
	}
	if len(pkgs) != 1 || len(pkgs[0].Errors) > 0 {
		fmt.Fprintln(os.Stderr, "load errors:", pkgs[0].Errors)
		os.Exit(1)
	}
	return pkgs[0]
}

func findFunc(p *packages.Package, name string) *ast.FuncDecl {
	for _, f := range p.Syntax {
		for _, d := range f.Decls {
			if fd, ok := d.(*ast.FuncDecl); ok && fd.Recv == nil && fd.Name.Name == name {
				return fd
			}
		}
	}
	return nil
}

func main() {
	areaName := flag.String("area", "", "")
	out := flag.String("out", "", "")
	flag.StringVar(&repo, "repo", "/repo", "")
	flag.Parse()
	a, ok := areas[*areaName]
	if !ok {
		var ks []string
		for k := range areas {
			ks = append(ks, k)
		}
		sort.Strings(ks)
		fmt.Fprintln(os.Stderr, "unknown area; have", ks)
		os.Exit(2)
	}
	p := load(a.pkgPath)
	t := &tr{pkg: p, known: map[string]string{}}
	for _, f := range a.funcs {
		t.known[f] = f
	}
	var b bytes.Buffer
	b.WriteString("-- GENERATED by /verif/gen from " + a.pkgPath + " — do not edit; rewritten on every check run.\n")
	for _, im := range a.imports {
		b.WriteString("import " + im + "\n")
	}
	b.WriteString("\nset_option linter.unusedVariables false\n\nnamespace " + a.namespace + "\nopen Pandora Pandora.Go\n\n")
	if len(a.funcs) > 0 {
		b.WriteString("noncomputable section\n\n")
	}
	for _, f := range a.funcs {
		fd := findFunc(p, f)
		if fd == nil {
			t.errs = append(t.errs, "function "+f+" not found in "+a.pkgPath)
			continue
		}
		b.WriteString(t.funcDecl(fd, f))
		b.WriteString("\n")
	}
	if len(a.funcs) > 0 {
		b.WriteString("end\n\n")
	}
	if a.extra != nil {
		b.WriteString(a.extra(t))
	}
	b.WriteString("\nend " + a.namespace + "\n")
	if len(t.errs) > 0 {
		for _, e := range t.errs {
			fmt.Fprintln(os.Stderr, e)
		}
		// still write the file so the broken obligation is visible to lake too
	}
	path := filepath.Join(*out, a.module+".lean")
	old, _ := os.ReadFile(path)
	if !bytes.Equal(old, b.Bytes()) {
		if err := os.WriteFile(path, b.Bytes(), 0o644); err != nil {
			fmt.Fprintln(os.Stderr, err)
			os.Exit(1)
		}
		fmt.Println("rewrote", path)
	}
	if len(t.errs) > 0 {
		os.Exit(1)
	}
}
