package main

// Area "respguard", round 4 (property C19): the code the anchored guns DEPEND on.
//
//	instanceShootCond                   the condition of the `if` around `i.gun.Shoot(ammo)` in instance.Run as a boolean
//	                                    FUNCTION of its atoms (`i.discardOverflow`, `waiter.IsSlowDown(ctx)`)
//	instanceShootCondUnknownAtoms       atoms of that condition the translator does not know (must be none)
//	instanceLoopEvents                  the calls that matter inside one iteration of the loop, in source order, with the
//	                                    if / else structure around Shoot (logging, metrics and tag.Debug blocks are not events)
//	maxOverdueNanos, waiterWaitStmts, waiterIsSlowDownStmts   coreutil.MaxOverdueDuration, (*Waiter).Wait / IsSlowDown
//	discardedTag / discardedNet         netsample.DiscardedShootTag / DiscardedShootCodeError
//	discardedSampleStmts                statements of netsample.DiscardedShootSample (canonical spelling)
//	sampleAcquireStmts / phoutHandleStmts   netsample.Acquire, (*phoutAggregator).handle
//	dnsCachingDialStmts                 statements of the closure NewDNSCachingDialer returns (canonical spelling)
//	dnsCacheGetStmts / dnsCacheAddStmts (*SimpleDNSCache).Get / Add
//	preResolveStmts                     phttp.PreResolveTargetAddr
//	netutil{ExplicitPanics,UncheckedAssertions,Indexings,MapWritesWithoutMake}   inventory of lib/netutil/dial.go
//	scenarioShootLoop                   the body of the step loop of ScenarioGun.shoot (canonical spelling)
//	scenarioReportErrStmts              ScenarioGun.reportErr
//	scenarioReportLastUse               in shootStep: exactly one `….Report(<sample param>)`, at the top level of the body, no
//	                                    statement after it mentions the sample parameter and every `return` after it returns nil
//	                                    — the aggregator owns a reported sample (phout returns it to the pool)
//	scenarioReportCalls                 number of `.Report(` calls in [shootStep, shoot, reportErr]

import (
	"fmt"
	"go/ast"
	"go/constant"
	"go/printer"
	"go/token"
	"go/types"
	"path/filepath"
	"sort"
	"strconv"
	"strings"

	"golang.org/x/tools/go/packages"
)

const (
	respguardPkgNetsample = "github.com/yandex/pandora/core/aggregator/netsample"
	respguardPkgNetutil   = "github.com/yandex/pandora/lib/netutil"
	respguardPkgCoreutil  = "github.com/yandex/pandora/core/coreutil"
)

func respguardConstString(p *packages.Package, name string) (string, bool) {
	c, ok := p.Types.Scope().Lookup(name).(*types.Const)
	if !ok || c.Val().Kind() != constant.String {
		return "", false
	}
	return constant.StringVal(c.Val()), true
}

func respguardConstInt(p *packages.Package, name string) (string, bool) {
	c, ok := p.Types.Scope().Lookup(name).(*types.Const)
	if !ok || c.Val().Kind() != constant.Int {
		return "", false
	}
	return constant.ToInt(c.Val()).ExactString(), true
}

// respguardCallName: "Shoot" for `i.gun.Shoot(ammo)`, "recover" for `recover()`, "" otherwise
func respguardCallName(e ast.Expr) string {
	call, ok := e.(*ast.CallExpr)
	if !ok {
		return ""
	}
	switch f := call.Fun.(type) {
	case *ast.SelectorExpr:
		return f.Sel.Name
	case *ast.Ident:
		return f.Name
	}
	return ""
}

var respguardLoopEventNames = map[string]bool{"Acquire": true, "Release": true, "Wait": true, "Shoot": true, "Report": true,
	"DiscardedShootSample": true, "IsFinished": true}

// respguardEvents lists the interesting calls of a statement list in source order; an if statement whose branches hold
// events is printed with its structure (`if COND {…} else {…}` when the condition is the Shoot condition, the source
// text of the condition otherwise); `return` statements are events too.
func respguardEvents(p *packages.Package, stmts []ast.Stmt, shootCond *ast.Expr) []string {
	var out []string
	var exprEvents func(n ast.Node) []string
	exprEvents = func(n ast.Node) []string {
		var ev []string
		ast.Inspect(n, func(m ast.Node) bool {
			if _, isLit := m.(*ast.FuncLit); isLit {
				return false
			}
			if c, ok := m.(*ast.CallExpr); ok {
				// arguments first (they are evaluated before the call)
				for _, a := range c.Args {
					ev = append(ev, exprEvents(a)...)
				}
				if nm := respguardCallName(c); respguardLoopEventNames[nm] {
					ev = append(ev, nm)
				}
				if s, ok := c.Fun.(*ast.SelectorExpr); ok {
					ev = append(ev, exprEvents(s.X)...)
				}
				return false
			}
			return true
		})
		return ev
	}
	for _, st := range stmts {
		switch x := st.(type) {
		case *ast.IfStmt:
			body := respguardEvents(p, x.Body.List, shootCond)
			var els []string
			if x.Else != nil {
				if eb, ok := x.Else.(*ast.BlockStmt); ok {
					els = respguardEvents(p, eb.List, shootCond)
				} else {
					els = respguardEvents(p, []ast.Stmt{x.Else}, shootCond)
				}
			}
			condEv := exprEvents(x.Cond)
			if x.Init != nil {
				condEv = append(respguardEvents(p, []ast.Stmt{x.Init}, shootCond), condEv...)
			}
			if len(body) == 0 && len(els) == 0 {
				out = append(out, condEv...)
				continue
			}
			hasShoot := false
			for _, e := range body {
				hasShoot = hasShoot || e == "Shoot"
			}
			cond := oneLine(nodeString(p, x.Cond))
			if hasShoot && shootCond != nil {
				*shootCond = x.Cond
				cond = "SHOOT-COND"
			}
			s := "if " + cond + " {" + strings.Join(body, ";") + "}"
			if x.Else != nil {
				s += " else {" + strings.Join(els, ";") + "}"
			}
			out = append(out, s)
		case *ast.DeferStmt:
			for _, e := range exprEvents(x.Call) {
				out = append(out, "defer "+e)
			}
		case *ast.ReturnStmt:
			out = append(out, exprEvents(x)...)
			out = append(out, oneLine(nodeString(p, x)))
		case *ast.BlockStmt:
			out = append(out, respguardEvents(p, x.List, shootCond)...)
		default:
			out = append(out, exprEvents(st)...)
		}
	}
	return out
}

func respguardRound4Extra(t *tr) string {
	var b strings.Builder
	all := rgLoadAll(rgEngine, respguardPkgNetsample, respguardPkgNetutil, respguardPkgCoreutil, rgGunHTTP, rgGunScn)
	b.WriteString("/-! ## round 4: instance.Run against the clock, the DNS-caching dialer, sample ownership -/\n\n")

	// ---------------------------------------------------------------- instance.Run: the loop
	ep := all[rgEngine]
	if run := rgFindMethod(ep, "instance", "Run"); run == nil {
		t.errs = append(t.errs, "instance.Run not found (round 4)")
	} else {
		var loop *ast.ForStmt
		for _, st := range run.Body.List {
			if f, ok := st.(*ast.ForStmt); ok && loop == nil {
				loop = f
			}
		}
		var body []ast.Stmt
		if loop != nil {
			// the body is `err := func() error { … }()` followed by the check of err: take the statements of the closure
			ast.Inspect(loop.Body, func(n ast.Node) bool {
				if fl, ok := n.(*ast.FuncLit); ok && body == nil {
					body = fl.Body.List
					return false
				}
				return true
			})
			if body == nil {
				body = loop.Body.List
			}
		}
		var cond ast.Expr
		events := respguardEvents(ep, body, &cond)
		b.WriteString("/-- the calls that matter in one iteration of the loop of `instance.Run`, in source order -/\ndef instanceLoopEvents : List String := " + leanStrList(events) + "\n\n")
		var unknown []string
		expr := "false"
		if cond == nil {
			t.errs = append(t.errs, "instance.Run: no `if` around Shoot found")
		} else {
			expr = respguardBoolCond(ep, cond, map[string]string{"i.discardOverflow": "discardOverflow", "waiter.IsSlowDown(ctx)": "isSlowDown"}, &unknown)
		}
		b.WriteString("/-- the condition under which `instance.Run` takes the shot (else: the token is reported as discarded) -/\ndef instanceShootCond (discardOverflow isSlowDown : Bool) : Bool := " + expr + "\n\n")
		b.WriteString("/-- atoms of that condition the translator does not know -/\ndef instanceShootCondUnknownAtoms : List String := " + leanStrList(unknown) + "\n\n")
	}

	// ---------------------------------------------------------------- coreutil: the waiter
	cp := all[respguardPkgCoreutil]
	maxOver := "0"
	if c, ok := cp.Types.Scope().Lookup("MaxOverdueDuration").(*types.Const); ok {
		if v, exact := constant.Int64Val(constant.ToInt(c.Val())); exact {
			maxOver = strconv.FormatInt(v, 10)
		}
	} else {
		t.errs = append(t.errs, "coreutil.MaxOverdueDuration not found")
	}
	b.WriteString("/-- `coreutil.MaxOverdueDuration` in nanoseconds -/\ndef maxOverdueNanos : Int := " + maxOver + "\n\n")
	respguardCanonOf(t, &b, cp, rgFindMethod(cp, "Waiter", "Wait"), "waiterWaitStmts", "`(*Waiter).Wait` (model `waiterOverdue`)")
	respguardCanonOf(t, &b, cp, rgFindMethod(cp, "Waiter", "IsSlowDown"), "waiterIsSlowDownStmts", "`(*Waiter).IsSlowDown` (model `isSlowDown`)")

	// ---------------------------------------------------------------- netsample: the discarded sample
	np := all[respguardPkgNetsample]
	tag, ok1 := respguardConstString(np, "DiscardedShootTag")
	code, ok2 := respguardConstInt(np, "DiscardedShootCodeError")
	if !ok1 || !ok2 {
		t.errs = append(t.errs, "netsample: DiscardedShootTag / DiscardedShootCodeError not found")
		code = "0"
	}
	b.WriteString("def discardedTag : String := " + strconv.Quote(tag) + "\n\ndef discardedNet : Nat := " + code + "\n\n")
	respguardCanonOf(t, &b, np, findFunc(np, "DiscardedShootSample"), "discardedSampleStmts", "`netsample.DiscardedShootSample`")

	respguardCanonOf(t, &b, np, findFunc(np, "Acquire"), "sampleAcquireStmts", "`netsample.Acquire` (a pooled sample is reset COMPLETELY before it is handed out)")
	respguardCanonOf(t, &b, np, rgFindMethod(np, "phoutAggregator", "handle"), "phoutHandleStmts", "`(*phoutAggregator).handle` (the sample goes back to the pool AFTER its line is formatted and written)")
	b.WriteString("/-- order-free facts about `(*phoutAggregator).handle` (round 6: the literal statement list broke on the legitimate repair\n89739df): exactly one `releaseSample(<sample parameter>)`, at the top level; the line is formatted from the sample (`appendPhout`)\nand written (`….Write(`) BEFORE it; no statement after it mentions the sample -/\ndef phoutHandleFacts : List String := " + leanStrList(respguardReleaseFacts(np, rgFindMethod(np, "phoutAggregator", "handle"))) + "\n\n")

	// ---------------------------------------------------------------- lib/netutil: the DNS-caching dialer
	up := all[respguardPkgNetutil]
	if fd := findFunc(up, "NewDNSCachingDialer"); fd == nil {
		t.errs = append(t.errs, "netutil.NewDNSCachingDialer not found")
	} else {
		var lit *ast.FuncLit
		ast.Inspect(fd, func(n ast.Node) bool {
			if fl, ok := n.(*ast.FuncLit); ok && lit == nil {
				lit = fl
				return false
			}
			return true
		})
		if lit == nil {
			t.errs = append(t.errs, "netutil.NewDNSCachingDialer: no closure")
		} else {
			b.WriteString("/-- the statements of the dialer `netutil.NewDNSCachingDialer` returns (model `dnsDial`), canonical spelling -/\ndef dnsCachingDialStmts : List String := " +
				leanStrList(respguardCanonStmts(up, lit.Body.List)) + "\n\n")
		}
	}
	respguardCanonOf(t, &b, up, rgFindMethod(up, "SimpleDNSCache", "Get"), "dnsCacheGetStmts", "`(*SimpleDNSCache).Get`")
	respguardCanonOf(t, &b, up, rgFindMethod(up, "SimpleDNSCache", "Add"), "dnsCacheAddStmts", "`(*SimpleDNSCache).Add`")
	hp := all[rgGunHTTP]
	respguardCanonOf(t, &b, hp, findFunc(hp, "PreResolveTargetAddr"), "preResolveStmts", "`phttp.PreResolveTargetAddr`")
	var panics, asserts, idx, mapw []string
	for _, f := range up.Syntax {
		fn := up.Fset.Position(f.Pos()).Filename
		if filepath.Base(fn) != "dial.go" {
			continue
		}
		rel, _ := filepath.Rel(repo, fn)
		restore := respguardAnonLocals(up, f)
		rgScanFileWith(up, f, rel, func(n ast.Node) string {
			var sb strings.Builder
			_ = printer.Fprint(&sb, token.NewFileSet(), n)
			return sb.String()
		}, &panics, &asserts, &idx, &mapw)
		restore()
	}
	for _, l := range []*[]string{&panics, &asserts, &idx, &mapw} {
		sort.Strings(*l)
	}
	b.WriteString("/-- explicit panics of lib/netutil/dial.go -/\ndef netutilExplicitPanics : List String := " + leanStrList(panics) + "\n\n")
	b.WriteString("/-- type assertions without comma-ok of lib/netutil/dial.go -/\ndef netutilUncheckedAssertions : List String := " + leanStrList(asserts) + "\n\n")
	b.WriteString("/-- index / slice expressions of lib/netutil/dial.go -/\ndef netutilIndexings : List String := " + leanStrList(idx) + "\n\n")
	b.WriteString("/-- writes to maps not created in the same function, lib/netutil/dial.go -/\ndef netutilMapWritesWithoutMake : List String := " + leanStrList(mapw) + "\n\n")

	// ---------------------------------------------------------------- the scenario gun: who owns the sample
	sp := all[rgGunScn]
	countReports := func(fd *ast.FuncDecl) int {
		n := 0
		if fd == nil {
			return 1000
		}
		ast.Inspect(fd, func(m ast.Node) bool {
			if respguardCallName2(m) == "Report" {
				n++
			}
			return true
		})
		return n
	}
	ss, sh, re := rgFindMethod(sp, "ScenarioGun", "shootStep"), rgFindMethod(sp, "ScenarioGun", "shoot"), rgFindMethod(sp, "ScenarioGun", "reportErr")
	b.WriteString(fmt.Sprintf("/-- number of `.Report(` calls in `ScenarioGun.shootStep`, `shoot`, `reportErr` -/\ndef scenarioReportCalls : List Nat := [%d, %d, %d]\n\n",
		countReports(ss), countReports(sh), countReports(re)))
	respguardCanonOf(t, &b, sp, re, "scenarioReportErrStmts", "`ScenarioGun.reportErr`")
	if sh == nil {
		t.errs = append(t.errs, "ScenarioGun.shoot not found")
	} else {
		var loop *ast.RangeStmt
		for _, st := range sh.Body.List {
			if r, ok := st.(*ast.RangeStmt); ok && loop == nil {
				loop = r
			}
		}
		if loop == nil {
			t.errs = append(t.errs, "ScenarioGun.shoot: no range loop over the steps")
		} else {
			b.WriteString("/-- the body of the step loop of `ScenarioGun.shoot`: Acquire, shootStep, on an error reportErr and return -/\ndef scenarioShootLoop : List String := " +
				leanStrList(respguardCanonStmts(sp, loop.Body.List)) + "\n\n")
		}
	}
	lastUse := false
	if ss != nil {
		// the sample parameter: the one of type *netsample.Sample
		var sampleObj types.Object
		for _, f := range ss.Type.Params.List {
			if strings.HasSuffix(oneLine(nodeString(sp, f.Type)), "netsample.Sample") && len(f.Names) == 1 {
				sampleObj = sp.TypesInfo.ObjectOf(f.Names[0])
			}
		}
		at := -1
		for i, st := range ss.Body.List {
			es, ok := st.(*ast.ExprStmt)
			if !ok || respguardCallName(es.X) != "Report" {
				continue
			}
			call := es.X.(*ast.CallExpr)
			if len(call.Args) == 1 {
				if id, ok := call.Args[0].(*ast.Ident); ok && sampleObj != nil && sp.TypesInfo.ObjectOf(id) == sampleObj {
					at = i
				}
			}
		}
		if at >= 0 && countReports(ss) == 1 {
			lastUse = true
			for _, st := range ss.Body.List[at+1:] {
				ast.Inspect(st, func(m ast.Node) bool {
					switch x := m.(type) {
					case *ast.Ident:
						if sp.TypesInfo.ObjectOf(x) == sampleObj {
							lastUse = false
						}
					case *ast.ReturnStmt:
						for _, r := range x.Results {
							if oneLine(nodeString(sp, r)) != "nil" {
								lastUse = false
							}
						}
					}
					return true
				})
			}
		}
	}
	b.WriteString(fmt.Sprintf("/-- `shootStep` hands the sample to the aggregator as its LAST use of it and cannot fail afterwards -/\ndef scenarioReportLastUse : Bool := %v\n\n", lastUse))
	return b.String()
}

func respguardCallName2(n ast.Node) string {
	if e, ok := n.(ast.Expr); ok {
		return respguardCallName(e)
	}
	return ""
}

// respguardReleaseFacts: order-free facts about (*phoutAggregator).handle (see the doc of `phoutHandleFacts`).
func respguardReleaseFacts(p *packages.Package, fd *ast.FuncDecl) []string {
	if fd == nil || fd.Body == nil || fd.Type.Params == nil || len(fd.Type.Params.List) != 1 || len(fd.Type.Params.List[0].Names) != 1 {
		return []string{"function not found"}
	}
	param := p.TypesInfo.ObjectOf(fd.Type.Params.List[0].Names[0])
	mentions := func(n ast.Node) bool {
		found := false
		ast.Inspect(n, func(m ast.Node) bool {
			if id, ok := m.(*ast.Ident); ok && p.TypesInfo.ObjectOf(id) == param {
				found = true
			}
			return !found
		})
		return found
	}
	releases := 0
	ast.Inspect(fd.Body, func(n ast.Node) bool {
		if respguardCallName2(n) == "releaseSample" {
			releases++
		}
		return true
	})
	at := -1
	for i, st := range fd.Body.List {
		if es, ok := st.(*ast.ExprStmt); ok && respguardCallName(es.X) == "releaseSample" {
			if c := es.X.(*ast.CallExpr); len(c.Args) == 1 && mentions(c.Args[0]) {
				at = i
			}
		}
	}
	formatted, written, usedAfter := false, false, false
	for i, st := range fd.Body.List {
		txt := oneLine(nodeString(p, st))
		if at >= 0 && i < at {
			if strings.Contains(txt, "appendPhout(") && mentions(st) {
				formatted = true
			}
			if formatted && strings.Contains(txt, ".Write(") {
				written = true
			}
		}
		if at >= 0 && i > at && mentions(st) {
			usedAfter = true
		}
	}
	return []string{
		fmt.Sprintf("releaseCalls=%d", releases),
		fmt.Sprintf("releaseAtTopLevel=%v", at >= 0),
		fmt.Sprintf("lineFormattedBeforeRelease=%v", formatted),
		fmt.Sprintf("lineWrittenBeforeRelease=%v", written),
		fmt.Sprintf("sampleUsedAfterRelease=%v", usedAfter),
	}
}
