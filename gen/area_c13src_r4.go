package main

// Area "c13src", third file (property C13, round 4): option handling around the decoders, re-read from the CURRENT source.
//
//	components/providers/http/provider/provider.go  runFullScan: the statements of one round of its loop in front of
//	                                                `p.Decoder.Scan(ctx)` (executed symbolically in source order), the
//	                                                block that handles an error of `Scan`, where the delivered ammo are
//	                                                counted; and - from the TYPES - whether each file decoder answers the
//	                                                dynamic assertion `p.Decoder.(passCounter)` (the link between the two
//	                                                packages is structural only: a changed method signature still compiles)
//	core/plugin/pluginconfig/hooks.go               parseConf: which function of the raw `type` value is compared with ""
//	                                                and which one is handed on as the plugin name
//	components/providers/scenario/vs/vs_csv.go      readCsv: the test that guards `delimiter[…]` and the index used; the
//	                                                conditions under which the record is indexed in the loop over the
//	                                                column names (then-branches as they are, else-branches negated)
//
// lean/Pandora/Bridge/C13.lean proves what the models of lean/Pandora/Model/C13Cfg.lean need of them, for ALL arguments.
// Every identifier of this file carries the prefix `c13src`.

import (
	"fmt"
	"go/ast"
	"go/constant"
	"go/token"
	"go/types"
	"strings"

	"golang.org/x/tools/go/packages"
)

type c13srcR4 struct {
	t *tr
	p *packages.Package
}

func (x *c13srcR4) fail(n ast.Node, format string, a ...any) string {
	pos := ""
	if n != nil {
		pos = x.p.Fset.Position(n.Pos()).String() + ": "
	}
	x.t.errs = append(x.t.errs, pos+"unsupported (c13src r4): "+fmt.Sprintf(format, a...))
	return "(UNSUPPORTED)"
}

// ---------------------------------------------------------------- runFullScan

// c13srcR4Head: the statements of the loop body up to the call of Scan -> Lean text of an Int
// (0 = go on to Scan | 1 = return nil | 2 = return ErrNoAmmo)
func (x *c13srcR4) head(cx *c13srcX, stmts []ast.Stmt, ind string) string {
	if len(stmts) == 0 {
		return ind + x.fail(nil, "runFullScan: no call of Scan in the loop")
	}
	s, rest := stmts[0], stmts[1:]
	text := c13srcText(x.p, s)
	switch y := s.(type) {
	case *ast.AssignStmt:
		if len(y.Rhs) == 1 && strings.HasSuffix(c13srcText(x.p, y.Rhs[0]), ".Scan(ctx)") {
			return ind + "0"
		}
	case *ast.IfStmt:
		// the context test is passed over (cancellation is C08's subject)
		if y.Init != nil && c13srcText(x.p, y.Init) == "err := ctx.Err()" {
			return x.head(cx, rest, ind)
		}
		if y.Init == nil && y.Else == nil && len(y.Body.List) == 1 {
			if rs, ok := y.Body.List[0].(*ast.ReturnStmt); ok && len(rs.Results) == 1 {
				switch c13srcText(x.p, rs.Results[0]) {
				case "nil":
					return ind + "if " + cx.cond(y.Cond) + " then 1 else\n" + x.head(cx, rest, ind)
				case "decoders.ErrNoAmmo":
					return ind + "if " + cx.cond(y.Cond) + " then 2 else\n" + x.head(cx, rest, ind)
				}
			}
		}
	}
	return ind + x.fail(s, "statement of runFullScan in front of Scan: %s", text)
}

// c13srcR4AfterErr: the block `if err != nil { … }` behind Scan -> Lean text of an Int
// (0 = the error as it is | 1 = nil | 2 = ErrNoAmmo)
func (x *c13srcR4) afterErr(cx *c13srcX, stmts []ast.Stmt, errIs string, ind string) string {
	if len(stmts) == 0 {
		return ind + x.fail(nil, "runFullScan: the error block does not return")
	}
	s, rest := stmts[0], stmts[1:]
	switch y := s.(type) {
	case *ast.ReturnStmt:
		if len(y.Results) == 1 {
			switch c13srcText(x.p, y.Results[0]) {
			case "err":
				return ind + errIs
			case "nil":
				return ind + "1"
			case "decoders.ErrNoAmmo":
				return ind + "2"
			}
		}
	case *ast.IfStmt:
		if y.Init == nil && y.Else == nil && len(y.Body.List) == 1 {
			c := cx.cond(y.Cond)
			switch b := y.Body.List[0].(type) {
			case *ast.ReturnStmt:
				return ind + "if " + c + " then\n" + x.afterErr(cx, []ast.Stmt{b}, errIs, ind+"  ") + "\n" + ind + "else\n" + x.afterErr(cx, rest, errIs, ind)
			case *ast.AssignStmt:
				if c13srcText(x.p, b) == "err = nil" {
					return ind + "if " + c + " then\n" + x.afterErr(cx, rest, "1", ind+"  ") + "\n" + ind + "else\n" + x.afterErr(cx, rest, errIs, ind)
				}
			}
		}
	}
	return ind + x.fail(s, "statement of runFullScan's error block: %s", c13srcText(x.p, s))
}

func c13srcR4FullScan(t *tr, b *strings.Builder) {
	p := c13srcLoad(t, "github.com/yandex/pandora/components/providers/http/provider")
	dp := c13srcLoad(t, "github.com/yandex/pandora/components/providers/http/decoders")
	x := &c13srcR4{t: t, p: p}
	fd := c13srcFunc(p, "Provider", "runFullScan")
	if fd == nil {
		x.fail(nil, "(*Provider).runFullScan not found")
		return
	}
	// the assertion `passes, _ := p.Decoder.(<iface>)` in front of the loop
	var loop *ast.ForStmt
	var counter string // name of the variable that holds the asserted decoder
	var iface *types.Interface
	var ifaceName string
	for _, s := range fd.Body.List {
		switch y := s.(type) {
		case *ast.ForStmt:
			loop = y
		case *ast.AssignStmt:
			if len(y.Rhs) == 1 {
				if ta, ok := y.Rhs[0].(*ast.TypeAssertExpr); ok && c13srcText(p, ta.X) == "p.Decoder" && len(y.Lhs) == 2 {
					counter = c13srcText(p, y.Lhs[0])
					if tv, ok := p.TypesInfo.Types[ta.Type]; ok {
						if it, ok := tv.Type.Underlying().(*types.Interface); ok {
							iface = it
							ifaceName = c13srcText(p, ta.Type)
						}
					}
				}
			}
		}
	}
	if loop == nil || loop.Cond != nil || loop.Init != nil || loop.Post != nil {
		x.fail(fd, "runFullScan: no `for { … }` loop")
		return
	}
	env := map[string]string{"p.Limit": "limit", "ammoNum": "ammoNum"}
	if counter != "" {
		env[counter+" != nil"] = "(hasPassCounter = true)"
		env[counter+".PassNum()"] = "passNum"
	}
	cx := &c13srcX{t: t, p: p, env: env}
	b.WriteString("/-- regenerated from `components/providers/http/provider/provider.go` `runFullScan`: the statements of one round of the\nloop in front of `p.Decoder.Scan(ctx)`, in source order (the context test is passed over): 0 = `Scan` is called |\n1 = `return nil` | 2 = `return decoders.ErrNoAmmo`. `hasPassCounter` = the decoder answers the assertion in front of the loop,\n`passNum` = what its `PassNum()` says -/\n")
	b.WriteString("def fullScanHead (limit ammoNum : Int) (hasPassCounter : Bool) (passNum : Int) : Int :=\n")
	b.WriteString(x.head(cx, loop.Body.List, "  "))
	b.WriteString("\n\n")

	// the error block behind Scan
	var errIf *ast.IfStmt
	var afterScan []ast.Stmt
	for i, s := range loop.Body.List {
		if as, ok := s.(*ast.AssignStmt); ok && len(as.Rhs) == 1 && strings.HasSuffix(c13srcText(p, as.Rhs[0]), ".Scan(ctx)") {
			afterScan = loop.Body.List[i+1:]
			if len(afterScan) > 0 {
				if is, ok := afterScan[0].(*ast.IfStmt); ok && c13srcText(p, is.Cond) == "err != nil" && is.Else == nil {
					errIf = is
				}
			}
		}
	}
	if errIf == nil {
		x.fail(fd, "runFullScan: no `if err != nil { … }` behind Scan")
	} else {
		cx2 := &c13srcX{t: t, p: p, env: map[string]string{"ammoNum": "ammoNum",
			"errors.Is(err, decoders.ErrPassLimit)": "(isPassLimit = true)", "errors.Is(err, decoders.ErrAmmoLimit)": "(isAmmoLimit = true)"}}
		b.WriteString("/-- the block `if err != nil { … }` behind `Scan`: 0 = the decoder's error is returned as it is | 1 = `nil` |\n2 = `decoders.ErrNoAmmo` -/\n")
		b.WriteString("def fullScanAfterErr (ammoNum : Int) (isPassLimit isAmmoLimit : Bool) : Int :=\n")
		b.WriteString(x.afterErr(cx2, errIf.Body.List, "0", "  "))
		b.WriteString("\n\n")
	}
	// where `ammoNum` is counted: only in the `case p.Sink <- ammo:` of the select behind the chosen-cases filter
	counted, elsewhere := false, false
	ast.Inspect(loop.Body, func(n ast.Node) bool {
		if cc, ok := n.(*ast.CommClause); ok {
			if cc.Comm != nil && strings.HasPrefix(c13srcText(p, cc.Comm), "p.Sink <- ") {
				for _, s := range cc.Body {
					if c13srcText(p, s) == "ammoNum++" {
						counted = true
					}
				}
				return false
			}
		}
		switch y := n.(type) {
		case *ast.IncDecStmt:
			if c13srcText(p, y.X) == "ammoNum" {
				elsewhere = true
			}
		case *ast.AssignStmt:
			for _, l := range y.Lhs {
				if c13srcText(p, l) == "ammoNum" {
					elsewhere = true
				}
			}
		}
		return true
	})
	filterFirst := false
	for _, s := range afterScan {
		if is, ok := s.(*ast.IfStmt); ok && strings.Contains(c13srcText(p, is.Cond), "IsChosenCase(") && strings.HasPrefix(c13srcText(p, is.Cond), "!") &&
			len(is.Body.List) == 1 && c13srcText(p, is.Body.List[0]) == "continue" {
			filterFirst = true
		}
		if _, ok := s.(*ast.SelectStmt); ok {
			break
		}
	}
	fmt.Fprintf(b, "/-- `ammoNum` counts what was handed to the sink and nothing else: it is advanced in the `case p.Sink <- ammo:` only, and an\nammo the `ChosenCases` filter refuses never gets there (`continue` in front of the `select`) -/\ndef fullScanCountsDelivered : Bool := %v\n\n", counted && !elsewhere && filterFirst)

	// the file decoders and the asserted interface, from the types
	b.WriteString("/-- from the TYPES of the current source: does `*<decoder>` have the method set of the interface `" + ifaceName + "` that\n`runFullScan` asserts (`p.Decoder.(" + ifaceName + ")`)? The assertion is dynamic: a decoder that does not, still compiles. -/\n")
	b.WriteString("def passCounterDecoders : List (String × Bool) :=\n  [")
	var items []string
	for _, dec := range []string{"uripostDecoder", "rawDecoder", "uriDecoder", "jsonlineDecoder"} {
		ok := false
		if obj := dp.Types.Scope().Lookup(dec); obj != nil && iface != nil {
			ok = types.Implements(types.NewPointer(obj.Type()), iface)
		} else if obj == nil {
			x.fail(nil, "type decoders.%s not found", dec)
		}
		items = append(items, fmt.Sprintf("(%q, %v)", dec, ok))
	}
	if iface == nil {
		x.fail(fd, "runFullScan: no assertion `…, _ := p.Decoder.(<interface>)` in front of the loop")
	}
	b.WriteString(strings.Join(items, ", ") + "]\n\n")
}

// ---------------------------------------------------------------- parseConf

// c13srcR4Str: a string expression built from names[0] by strings.TrimSpace / strings.ToLower -> Lean text over `raw`
func (x *c13srcR4) strE(e ast.Expr, vars map[string]string) (string, bool) {
	text := c13srcText(x.p, e)
	if text == "names[0]" {
		return "raw", true
	}
	if v, ok := vars[text]; ok {
		return v, true
	}
	switch y := e.(type) {
	case *ast.ParenExpr:
		return x.strE(y.X, vars)
	case *ast.CallExpr:
		if len(y.Args) == 1 {
			inner, ok := x.strE(y.Args[0], vars)
			if !ok {
				return "", false
			}
			switch c13srcText(x.p, y.Fun) {
			case "strings.TrimSpace":
				return "(Pandora.Model.C13.trimSpace " + inner + ")", true
			case "strings.ToLower":
				return "(Pandora.Model.C13.asciiLower " + inner + ")", true
			}
		}
	}
	return "", false
}

func c13srcR4ParseConf(t *tr, b *strings.Builder) {
	p := c13srcLoad(t, "github.com/yandex/pandora/core/plugin/pluginconfig")
	x := &c13srcR4{t: t, p: p}
	fd := c13srcFunc(p, "", "parseConf")
	if fd == nil {
		x.fail(nil, "pluginconfig.parseConf not found")
		return
	}
	// the statements behind `if len(names) > 1 { … }`, up to the assignment of fillConf
	start := -1
	for i, s := range fd.Body.List {
		if is, ok := s.(*ast.IfStmt); ok && c13srcText(p, is.Cond) == "len(names) > 1" {
			start = i + 1
		}
	}
	if start < 0 {
		x.fail(fd, "parseConf: no `if len(names) > 1 { … }`")
		return
	}
	vars := map[string]string{}
	tested := ""
	done := false
	for _, s := range fd.Body.List[start:] {
		if done {
			break
		}
		switch y := s.(type) {
		case *ast.AssignStmt:
			if len(y.Lhs) == 1 && len(y.Rhs) == 1 {
				lhs := c13srcText(p, y.Lhs[0])
				if lhs == "fillConf" {
					done = true
					continue
				}
				if v, ok := x.strE(y.Rhs[0], vars); ok {
					vars[lhs] = v
					continue
				}
			}
			x.fail(s, "statement of parseConf: %s", c13srcText(p, s))
		case *ast.IfStmt:
			// `if <string> == "" { err = …; return }`
			be, ok := y.Cond.(*ast.BinaryExpr)
			n := len(y.Body.List)
			endsInReturn := false
			if n > 0 {
				_, endsInReturn = y.Body.List[n-1].(*ast.ReturnStmt)
			}
			if ok && be.Op == token.EQL && y.Init == nil && y.Else == nil && endsInReturn {
				if tv, isConst := p.TypesInfo.Types[be.Y]; isConst && tv.Value != nil && tv.Value.Kind() == constant.String && constant.StringVal(tv.Value) == "" {
					if v, ok := x.strE(be.X, vars); ok && tested == "" {
						tested = v
						continue
					}
				}
			}
			x.fail(s, "test of parseConf: %s", c13srcText(p, y.Cond))
		default:
			x.fail(s, "statement of parseConf: %s", c13srcText(p, s))
		}
	}
	returned, ok := vars["name"]
	if !ok {
		x.fail(fd, "parseConf: `name` is not assigned from names[0]")
		returned = "(UNSUPPORTED)"
	}
	if tested == "" {
		// no test: nothing is refused (the constant function to a non-empty string)
		tested = "([120] : List UInt8)"
	}
	b.WriteString("/-- regenerated from `core/plugin/pluginconfig/hooks.go` `parseConf`, the statements between the count of the `type` keys and\nthe config filler, in source order (`raw` = the value found under `type`): the string that is compared with `\"\"` (an error\nif equal) … -/\n")
	b.WriteString("def pcTested (raw : List UInt8) : List UInt8 := " + tested + "\n\n")
	b.WriteString("/-- … and the string handed to `plugin.New` / `plugin.NewFactory` as the name (which panic on an empty one) -/\n")
	b.WriteString("def pcReturned (raw : List UInt8) : List UInt8 := " + returned + "\n\n")
}

// ---------------------------------------------------------------- readCsv

func c13srcR4ReadCsv(t *tr, b *strings.Builder) {
	p := c13srcLoad(t, "github.com/yandex/pandora/components/providers/scenario/vs")
	x := &c13srcR4{t: t, p: p}
	fd := c13srcFunc(p, "", "readCsv")
	if fd == nil {
		x.fail(nil, "vs.readCsv not found")
		return
	}
	cx := &c13srcX{t: t, p: p, env: map[string]string{"delimiter": "delimiter", "len(delimiter)": "(delimiter.length : Int)"}}
	// every index expression on `delimiter`, with the conditions of the enclosing if statements (then-branches)
	type use struct {
		guards []string
		index  string
	}
	var uses []use
	var walk func(stmts []ast.Stmt, guards []string)
	visitExpr := func(n ast.Node, guards []string) {
		ast.Inspect(n, func(m ast.Node) bool {
			if ie, ok := m.(*ast.IndexExpr); ok && c13srcText(p, ie.X) == "delimiter" {
				uses = append(uses, use{append([]string(nil), guards...), cx.intE(ie.Index)})
			}
			if se, ok := m.(*ast.SliceExpr); ok && c13srcText(p, se.X) == "delimiter" {
				x.fail(se, "slice expression on delimiter")
			}
			return true
		})
	}
	walk = func(stmts []ast.Stmt, guards []string) {
		for _, s := range stmts {
			switch y := s.(type) {
			case *ast.IfStmt:
				if y.Init != nil {
					visitExpr(y.Init, guards)
				}
				visitExpr(y.Cond, guards)
				touches := false
				ast.Inspect(y.Body, func(m ast.Node) bool {
					if ie, ok := m.(*ast.IndexExpr); ok && c13srcText(p, ie.X) == "delimiter" {
						touches = true
					}
					return true
				})
				if touches {
					walk(y.Body.List, append(append([]string(nil), guards...), cx.cond(y.Cond)))
				}
				if y.Else != nil {
					visitExpr(y.Else, guards) // an index in an else-branch is reported without the (negated) guard: refused by the bridge
				}
			case *ast.ForStmt:
				walk(y.Body.List, guards)
			case *ast.RangeStmt:
				walk(y.Body.List, guards)
			case *ast.BlockStmt:
				walk(y.List, guards)
			default:
				visitExpr(s, guards)
			}
		}
	}
	walk(fd.Body.List, nil)
	if len(uses) != 1 {
		x.fail(fd, "readCsv: %d index expressions on `delimiter` (one expected)", len(uses))
		return
	}
	g := "True"
	if len(uses[0].guards) > 0 {
		g = strings.Join(uses[0].guards, " ∧ ")
	}
	b.WriteString("/-- regenerated from `components/providers/scenario/vs/vs_csv.go` `readCsv`: the conditions under which `delimiter[…]` is\nevaluated (`True`: always) … -/\n")
	b.WriteString("def csvCommaGuard (delimiter : List UInt8) : Prop := " + g + "\n")
	b.WriteString("instance (delimiter : List UInt8) : Decidable (csvCommaGuard delimiter) := by unfold csvCommaGuard; exact inferInstance\n\n")
	b.WriteString("/-- … and the index used -/\n")
	b.WriteString("def csvCommaIndex : Int := " + uses[0].index + "\n\n")
}

// ---------------------------------------------------------------- readCsv: the index into a record

// c13srcR4CsvRecord: every index expression on the record `csv.Reader.Read` hands out, other than `record[k]` inside
// `for k := range record` (inside by construction), with the conditions it stands under - then-branches as they are,
// else-branches negated. Conditions that do not mention the record are dropped (a weaker guard: sound). The names of the
// locals are read off the source: the record is what `….Read()` is assigned to, the index may be the key of any
// enclosing `range` (of which only `0 ≤ key` is used).
func c13srcR4CsvRecord(t *tr, b *strings.Builder) {
	p := c13srcLoad(t, "github.com/yandex/pandora/components/providers/scenario/vs")
	x := &c13srcR4{t: t, p: p}
	fd := c13srcFunc(p, "", "readCsv")
	if fd == nil {
		x.fail(nil, "vs.readCsv not found")
		return
	}
	rec := ""
	ast.Inspect(fd.Body, func(n ast.Node) bool {
		if as, ok := n.(*ast.AssignStmt); ok && len(as.Lhs) == 2 && len(as.Rhs) == 1 {
			if c, ok := as.Rhs[0].(*ast.CallExpr); ok && strings.HasSuffix(c13srcText(p, c.Fun), ".Read") && len(c.Args) == 0 {
				rec = c13srcText(p, as.Lhs[0])
			}
		}
		return true
	})
	if rec == "" {
		x.fail(fd, "readCsv: no `record, err := ….Read()`")
		return
	}
	type guard struct {
		e   ast.Expr
		neg bool
	}
	type use struct {
		guards []guard
		index  ast.Expr
		keys   map[string]bool
	}
	var uses []use
	var walk func(stmts []ast.Stmt, guards []guard, keys map[string]bool, self map[string]bool)
	visit := func(n ast.Node, guards []guard, keys, self map[string]bool) {
		if n == nil {
			return
		}
		ast.Inspect(n, func(m ast.Node) bool {
			switch y := m.(type) {
			case *ast.IndexExpr:
				if c13srcText(p, y.X) == rec {
					if id, ok := y.Index.(*ast.Ident); ok && self[id.Name] {
						return true
					}
					ks := map[string]bool{}
					for k := range keys {
						ks[k] = true
					}
					uses = append(uses, use{append([]guard(nil), guards...), y.Index, ks})
				}
			case *ast.SliceExpr:
				if c13srcText(p, y.X) == rec {
					x.fail(y, "slice expression on the record")
				}
			case *ast.FuncLit:
				x.fail(y, "function literal in readCsv")
				return false
			}
			return true
		})
	}
	with := func(m map[string]bool, k string) map[string]bool {
		out := map[string]bool{}
		for a := range m {
			out[a] = true
		}
		if k != "" && k != "_" {
			out[k] = true
		}
		return out
	}
	walk = func(stmts []ast.Stmt, guards []guard, keys, self map[string]bool) {
		for _, s := range stmts {
			switch y := s.(type) {
			case *ast.IfStmt:
				visit(y.Init, guards, keys, self)
				visit(y.Cond, guards, keys, self)
				walk(y.Body.List, append(append([]guard(nil), guards...), guard{y.Cond, false}), keys, self)
				switch e := y.Else.(type) {
				case *ast.BlockStmt:
					walk(e.List, append(append([]guard(nil), guards...), guard{y.Cond, true}), keys, self)
				case *ast.IfStmt:
					walk([]ast.Stmt{e}, append(append([]guard(nil), guards...), guard{y.Cond, true}), keys, self)
				}
			case *ast.RangeStmt:
				visit(y.X, guards, keys, self)
				k := ""
				if y.Key != nil {
					k = c13srcText(p, y.Key)
				}
				if c13srcText(p, y.X) == rec {
					walk(y.Body.List, guards, keys, with(self, k))
				} else {
					walk(y.Body.List, guards, with(keys, k), self)
				}
			case *ast.ForStmt:
				visit(y.Init, guards, keys, self)
				visit(y.Cond, guards, keys, self)
				visit(y.Post, guards, keys, self)
				walk(y.Body.List, guards, keys, self)
			case *ast.BlockStmt:
				walk(y.List, guards, keys, self)
			default:
				visit(s, guards, keys, self)
			}
		}
	}
	walk(fd.Body.List, nil, map[string]bool{}, map[string]bool{})
	if len(uses) != 1 {
		x.fail(fd, "readCsv: %d index expressions on the record outside a range over it (one expected)", len(uses))
		return
	}
	u := uses[0]
	env := map[string]string{"len(" + rec + ")": "recLen"}
	for k := range u.keys {
		env[k] = "i"
	}
	if len(u.keys) != 1 {
		x.fail(u.index, "readCsv: the index into the record stands under %d range loops (one expected)", len(u.keys))
		return
	}
	cx := &c13srcX{t: t, p: p, env: env}
	var gs []string
	for _, g := range u.guards {
		if !strings.Contains(c13srcText(p, g.e), rec) {
			continue
		}
		c := cx.cond(g.e)
		if g.neg {
			c = "(¬ " + c + ")"
		}
		gs = append(gs, c)
	}
	g := "True"
	if len(gs) > 0 {
		g = strings.Join(gs, " ∧ ")
	}
	b.WriteString("/-- regenerated from `readCsv`: the conditions under which the record the reader handed out is indexed outside a `range` over\nit (`i` = the key of the enclosing `range` over the column names, `recLen` = `len(record)`; else-branches negated) … -/\n")
	b.WriteString("def csvRecordGuard (i recLen : Int) : Prop := " + g + "\n")
	b.WriteString("instance (i recLen : Int) : Decidable (csvRecordGuard i recLen) := by unfold csvRecordGuard; exact inferInstance\n\n")
	b.WriteString("/-- … and the index used -/\n")
	b.WriteString("def csvRecordIndex (i recLen : Int) : Int := " + cx.intE(u.index) + "\n\n")
}

func c13srcRound4(t *tr) string {
	var b strings.Builder
	b.WriteString("/-! ## round 4: `chosen_cases` under `runFullScan`, the plugin name of `parseConf`, the separator of `readCsv` -/\n\n")
	c13srcR4FullScan(t, &b)
	c13srcR4ParseConf(t, &b)
	c13srcR4ReadCsv(t, &b)
	c13srcR4CsvRecord(t, &b)
	return b.String()
}
