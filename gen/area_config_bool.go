package main

// Area "config", second part: the BODIES of the validations of core/config/validations.go as boolean functions over
// named atoms, independent of how the body is laid out.
//
// A validation `func F(x T) bool` is read statement by statement:
//
//	a, b, c := callee(args)      binds the locals to the results of the call: canonical names callee#0, callee#1, …
//	if cond { return e }         if-then-else on the rest of the body
//	return e
//
// and its boolean expressions are translated over ATOMS in canonical form (locals replaced by the canonical name of
// what they are bound to, the parameters by arg0, arg1 …):
//
//	x == nil / x != nil        eqnil:X            (negated for !=)
//	x == "" / x != ""          empty:X
//	a <= b, b >= a             le:A,B             a < b is !le:B,A, a > b is !le:A,B
//	a == b (other)             eq:A,B  (sorted)
//	f(args)                    call:f(ARGS)
//	v (a bool local)           var:V
//
// The atoms are sorted; the emitted Lean function takes one Bool per atom in that order.  An early return, a renamed
// local, reordered conjuncts, De Morgan rewrites all give a function that is EQUAL as a function of its atoms, so the
// bridge lemma (equality for all values of the atoms) survives them; a lost parenthesis, a dropped conjunct, a flipped
// comparison does not.

import (
	"fmt"
	"go/ast"
	"go/token"
	"sort"
	"strings"

	"golang.org/x/tools/go/packages"
)

type configBoolTr struct {
	p     *packages.Package
	names map[string]string // local identifier -> canonical name
	binds []string
	atoms map[string]bool
	errs  []string
}

func (c *configBoolTr) failf(n ast.Node, format string, a ...any) {
	c.errs = append(c.errs, fmt.Sprintf("%s: %s", cfSrc(c.p, n), fmt.Sprintf(format, a...)))
}

// canon prints an expression with locals replaced by canonical names
func (c *configBoolTr) canon(e ast.Expr) string {
	switch x := e.(type) {
	case *ast.Ident:
		if n, ok := c.names[x.Name]; ok {
			return n
		}
		return x.Name
	case *ast.ParenExpr:
		return c.canon(x.X)
	case *ast.SelectorExpr:
		return c.canon(x.X) + "." + x.Sel.Name
	case *ast.CallExpr:
		var as []string
		for _, a := range x.Args {
			as = append(as, c.canon(a))
		}
		return c.canon(x.Fun) + "(" + strings.Join(as, ", ") + ")"
	case *ast.TypeAssertExpr:
		return c.canon(x.X) + ".(" + cfSrc(c.p, x.Type) + ")"
	case *ast.StarExpr:
		return "*" + c.canon(x.X)
	case *ast.UnaryExpr:
		return x.Op.String() + c.canon(x.X)
	case *ast.BasicLit:
		return x.Value
	case *ast.IndexExpr:
		return c.canon(x.X) + "[" + c.canon(x.Index) + "]"
	}
	return cfSrc(c.p, e)
}

type configBoolExpr struct {
	op   string // atom | not | and | or | const | ite
	atom string
	val  bool
	args []*configBoolExpr
}

func configNot(e *configBoolExpr) *configBoolExpr { return &configBoolExpr{op: "not", args: []*configBoolExpr{e}} }

func (c *configBoolTr) atomOf(a string) *configBoolExpr {
	c.atoms[a] = true
	return &configBoolExpr{op: "atom", atom: a}
}

func configIsNil(e ast.Expr) bool {
	id, ok := e.(*ast.Ident)
	return ok && id.Name == "nil"
}

func configIsEmptyString(e ast.Expr) bool {
	bl, ok := e.(*ast.BasicLit)
	return ok && bl.Kind == token.STRING && (bl.Value == `""` || bl.Value == "``")
}

func (c *configBoolTr) expr(e ast.Expr) *configBoolExpr {
	switch x := e.(type) {
	case *ast.ParenExpr:
		return c.expr(x.X)
	case *ast.Ident:
		switch x.Name {
		case "true":
			return &configBoolExpr{op: "const", val: true}
		case "false":
			return &configBoolExpr{op: "const", val: false}
		}
		return c.atomOf("var:" + c.canon(x))
	case *ast.UnaryExpr:
		if x.Op == token.NOT {
			return configNot(c.expr(x.X))
		}
	case *ast.CallExpr:
		return c.atomOf("call:" + c.canon(x))
	case *ast.BinaryExpr:
		switch x.Op {
		case token.LAND:
			return &configBoolExpr{op: "and", args: []*configBoolExpr{c.expr(x.X), c.expr(x.Y)}}
		case token.LOR:
			return &configBoolExpr{op: "or", args: []*configBoolExpr{c.expr(x.X), c.expr(x.Y)}}
		case token.EQL, token.NEQ:
			var a *configBoolExpr
			switch {
			case configIsNil(x.Y):
				a = c.atomOf("eqnil:" + c.canon(x.X))
			case configIsNil(x.X):
				a = c.atomOf("eqnil:" + c.canon(x.Y))
			case configIsEmptyString(x.Y):
				a = c.atomOf("empty:" + c.canon(x.X))
			case configIsEmptyString(x.X):
				a = c.atomOf("empty:" + c.canon(x.Y))
			default:
				l, r := c.canon(x.X), c.canon(x.Y)
				if r < l {
					l, r = r, l
				}
				a = c.atomOf("eq:" + l + "," + r)
			}
			if x.Op == token.NEQ {
				return configNot(a)
			}
			return a
		case token.LEQ:
			return c.atomOf("le:" + c.canon(x.X) + "," + c.canon(x.Y))
		case token.GEQ:
			return c.atomOf("le:" + c.canon(x.Y) + "," + c.canon(x.X))
		case token.LSS:
			return configNot(c.atomOf("le:" + c.canon(x.Y) + "," + c.canon(x.X)))
		case token.GTR:
			return configNot(c.atomOf("le:" + c.canon(x.X) + "," + c.canon(x.Y)))
		}
	}
	c.failf(e, "not a boolean expression the translator knows")
	return &configBoolExpr{op: "const", val: false}
}

func (c *configBoolTr) bind(as *ast.AssignStmt) bool {
	if as.Tok != token.DEFINE && as.Tok != token.ASSIGN {
		return false
	}
	if len(as.Rhs) != 1 {
		return false
	}
	call, ok := as.Rhs[0].(*ast.CallExpr)
	if !ok {
		return false
	}
	callee := c.canon(call.Fun)
	c.binds = append(c.binds, c.canon(call))
	for i, l := range as.Lhs {
		id, ok := l.(*ast.Ident)
		if !ok {
			return false
		}
		if id.Name != "_" {
			c.names[id.Name] = fmt.Sprintf("%s#%d", callee, i)
		}
	}
	return true
}

func (c *configBoolTr) stmts(list []ast.Stmt) *configBoolExpr {
	if len(list) == 0 {
		c.errs = append(c.errs, "body falls off its end without a return")
		return &configBoolExpr{op: "const", val: false}
	}
	switch x := list[0].(type) {
	case *ast.AssignStmt:
		if !c.bind(x) {
			c.failf(x, "only `a, b := call(...)` bindings are translated")
		}
		return c.stmts(list[1:])
	case *ast.ReturnStmt:
		if len(x.Results) != 1 {
			c.failf(x, "return with one boolean result expected")
			return &configBoolExpr{op: "const", val: false}
		}
		return c.expr(x.Results[0])
	case *ast.IfStmt:
		if x.Init != nil {
			as, ok := x.Init.(*ast.AssignStmt)
			if !ok || !c.bind(as) {
				c.failf(x.Init, "only `a, b := call(...)` bindings are translated")
			}
		}
		cond := c.expr(x.Cond)
		var elseList []ast.Stmt
		switch el := x.Else.(type) {
		case nil:
			elseList = list[1:]
		case *ast.BlockStmt:
			elseList = append(append([]ast.Stmt{}, el.List...), list[1:]...)
		default:
			elseList = append([]ast.Stmt{el}, list[1:]...)
		}
		// the then-branch must end in a return (validations have no other effects)
		th := c.stmts(x.Body.List)
		return &configBoolExpr{op: "ite", args: []*configBoolExpr{cond, th, c.stmts(elseList)}}
	case *ast.BlockStmt:
		return c.stmts(append(append([]ast.Stmt{}, x.List...), list[1:]...))
	}
	c.failf(list[0], "statement kind not translated")
	return &configBoolExpr{op: "const", val: false}
}

func (e *configBoolExpr) lean(idx map[string]int) string {
	switch e.op {
	case "atom":
		return fmt.Sprintf("a%d", idx[e.atom])
	case "const":
		return leanBool(e.val)
	case "not":
		return "(!" + e.args[0].lean(idx) + ")"
	case "and":
		return "(" + e.args[0].lean(idx) + " && " + e.args[1].lean(idx) + ")"
	case "or":
		return "(" + e.args[0].lean(idx) + " || " + e.args[1].lean(idx) + ")"
	case "ite":
		return "(bif " + e.args[0].lean(idx) + " then " + e.args[1].lean(idx) + " else " + e.args[2].lean(idx) + ")"
	}
	return "false"
}

// configBoolFunc emits, for the validation `goName`, the defs <leanName>Binds, <leanName>Atoms and <leanName>
func configBoolFunc(t *tr, p *packages.Package, goName, leanName string) string {
	fd := findFunc(p, goName)
	if fd == nil || fd.Body == nil {
		t.errs = append(t.errs, "core/config: func "+goName+" not found")
		return ""
	}
	c := &configBoolTr{p: p, names: map[string]string{}, atoms: map[string]bool{}}
	i := 0
	for _, f := range fd.Type.Params.List {
		for _, n := range f.Names {
			c.names[n.Name] = fmt.Sprintf("arg%d", i)
			i++
		}
	}
	e := c.stmts(fd.Body.List)
	for _, m := range c.errs {
		t.errs = append(t.errs, goName+": "+m)
	}
	var atoms []string
	for a := range c.atoms {
		atoms = append(atoms, a)
	}
	sort.Strings(atoms)
	idx := map[string]int{}
	var params []string
	for i, a := range atoms {
		idx[a] = i
		params = append(params, fmt.Sprintf("a%d", i))
	}
	var b strings.Builder
	b.WriteString(fmt.Sprintf("/-- `%s`: the calls whose results its locals are bound to (canonical names `callee#i`, parameters `arg<i>`) -/\n", goName))
	b.WriteString("def " + leanName + "Binds : List String := " + cfQ(c.binds) + "\n")
	b.WriteString(fmt.Sprintf("/-- `%s`: the atomic conditions of its result, sorted -/\n", goName))
	b.WriteString("def " + leanName + "Atoms : List String := " + cfQ(atoms) + "\n")
	b.WriteString(fmt.Sprintf("/-- `%s` as a function of its atoms (in the order of `%sAtoms`) -/\n", goName, leanName))
	if len(params) == 0 {
		b.WriteString("def " + leanName + " : Bool := " + e.lean(idx) + "\n\n")
	} else {
		b.WriteString("def " + leanName + " (" + strings.Join(params, " ") + " : Bool) : Bool := " + e.lean(idx) + "\n\n")
	}
	return b.String()
}

// configValidationBodies: every validation of validations.go, the two helpers statement by statement, the path regexp
func configValidationBodies(t *tr, p *packages.Package) string {
	var b strings.Builder
	for _, v := range [][2]string{
		{"MinTimeValidation", "vMinTime"}, {"MaxTimeValidation", "vMaxTime"},
		{"MinSizeValidation", "vMinSize"}, {"MaxSizeValidation", "vMaxSize"},
		{"EndpointStringValidation", "vEndpoint"}, {"URLPathStringValidation", "vUrlPath"},
	} {
		b.WriteString(configBoolFunc(t, p, v[0], v[1]))
	}
	for _, h := range [][2]string{{"getTimeForValidation", "timeHelper"}, {"getSizeForValidation", "sizeHelper"}} {
		b.WriteString(configHelperFunc(t, p, h[0], h[1]))
	}
	// StringToAbstractValidation: a non-string field fails
	if fd := findFunc(p, "StringToAbstractValidation"); fd != nil {
		restore := configCanonLocals(p, fd)
		var st []string
		configStmts(p, fd.Body.List, &st)
		restore()
		b.WriteString("/-- `StringToAbstractValidation`, statement by statement -/\ndef stringValidationWrapper : List String := " + cfQ(st) + "\n")
	} else {
		t.errs = append(t.errs, "core/config: func StringToAbstractValidation not found")
	}
	re := ""
	for _, f := range p.Syntax {
		for _, d := range f.Decls {
			gd, ok := d.(*ast.GenDecl)
			if !ok || gd.Tok != token.VAR {
				continue
			}
			for _, s := range gd.Specs {
				vs := s.(*ast.ValueSpec)
				for i, n := range vs.Names {
					if n.Name == "pathRegexp" && i < len(vs.Values) {
						if call, ok := vs.Values[i].(*ast.CallExpr); ok && cfSrc(p, call.Fun) == "regexp.MustCompile" && len(call.Args) == 1 {
							if sv, ok := cfStringConst(p, call.Args[0]); ok {
								re = sv
							}
						}
					}
				}
			}
		}
	}
	if re == "" {
		t.errs = append(t.errs, "core/config: var pathRegexp = regexp.MustCompile(<constant>) not found")
	}
	b.WriteString(fmt.Sprintf("/-- the regular expression of `URLPathStringValidation` -/\ndef urlPathRegexp : String := %q\n\n", re))
	return b.String()
}
