package main

// Area "grpcstatus" (property C10): regenerates, core-Lean only,
//
//	grpcToHttp : Nat → Nat            the switch of components/guns/grpc/core.go ConvertGrpcStatus
//	                                  (case constants through go/types constant values)
//	protoCodeError, discardedShootCodeError, discardedShootTag   constants of core/aggregator/netsample
//	timeoutErrno, errnoUnwrapTypes, errnoLeafType, errnoDefault  the shape of netsample.getErrno
//	emptyTag, scenarioEmptyTag        EmptyTag of guns/http and guns/http_scenario
//	connectHookAssignments            every non-test place of the repo that assigns a `Connect` field/key
//	                                  (syntax-only pass; the C10 model assumes BaseGun.Connect == nil)
//
// Anything that does not have the expected shape is a translation error (gen exits non-zero).

import (
	"fmt"
	"go/ast"
	"go/constant"
	"go/parser"
	"go/token"
	"go/types"
	"os"
	"path/filepath"
	"sort"
	"strings"

	"golang.org/x/tools/go/packages"
)

func init() {
	areas["grpcstatus"] = area{
		pkgPath:   "github.com/yandex/pandora/components/guns/grpc",
		module:    "GrpcStatus",
		namespace: "Pandora.Gen.GrpcStatus",
		imports:   []string{"Pandora.Model.C10Ns"},
		extra:     grpcStatusExtra,
	}
}

func gsFail(t *tr, p *packages.Package, n ast.Node, format string, a ...any) {
	t.errs = append(t.errs, fmt.Sprintf("%s: unsupported: %s", p.Fset.Position(n.Pos()), fmt.Sprintf(format, a...)))
}

func gsConstNat(p *packages.Package, e ast.Expr) (string, bool) {
	tv, ok := p.TypesInfo.Types[e]
	if !ok || tv.Value == nil {
		return "", false
	}
	v := constant.ToInt(tv.Value)
	if v.Kind() != constant.Int || constant.Sign(v) < 0 {
		return "", false
	}
	return v.ExactString(), true
}

// gsSingleReturnConst: body must be exactly `return <non-negative integer constant>`.
func gsSingleReturnConst(p *packages.Package, body []ast.Stmt) (string, bool) {
	if len(body) != 1 {
		return "", false
	}
	r, ok := body[0].(*ast.ReturnStmt)
	if !ok || len(r.Results) != 1 {
		return "", false
	}
	return gsConstNat(p, r.Results[0])
}

func gsPkgConst(t *tr, p *packages.Package, name string) (constant.Value, bool) {
	obj := p.Types.Scope().Lookup(name)
	c, ok := obj.(*types.Const)
	if !ok {
		t.errs = append(t.errs, "constant "+name+" not found in "+p.PkgPath)
		return nil, false
	}
	return c.Val(), true
}

func grpcStatusExtra(t *tr) string {
	var b strings.Builder
	p := t.pkg

	// ---- 1. ConvertGrpcStatus
	fd := findFunc(p, "ConvertGrpcStatus")
	if fd == nil {
		t.errs = append(t.errs, "ConvertGrpcStatus not found")
		return ""
	}
	// expected shape:  s := status.Convert(err) ; switch s.Code() { case K: return N ... default: return D }
	var sw *ast.SwitchStmt
	okShape := len(fd.Body.List) == 2
	if okShape {
		as, ok1 := fd.Body.List[0].(*ast.AssignStmt)
		s2, ok2 := fd.Body.List[1].(*ast.SwitchStmt)
		okShape = ok1 && ok2 && len(as.Lhs) == 1 && len(as.Rhs) == 1
		if okShape {
			call, ok := as.Rhs[0].(*ast.CallExpr)
			okShape = ok
			if ok {
				sel, ok := call.Fun.(*ast.SelectorExpr)
				okShape = ok && sel.Sel.Name == "Convert"
				if okShape {
					if id, ok := sel.X.(*ast.Ident); ok {
						pn, ok := p.TypesInfo.Uses[id].(*types.PkgName)
						okShape = ok && pn.Imported().Path() == "google.golang.org/grpc/status"
					} else {
						okShape = false
					}
				}
			}
			lhs, ok := as.Lhs[0].(*ast.Ident)
			okShape = okShape && ok
			if okShape && s2.Init == nil && s2.Tag != nil {
				// tag must be <lhs>.Code()
				tc, ok := s2.Tag.(*ast.CallExpr)
				okShape = ok && len(tc.Args) == 0
				if okShape {
					sel, ok := tc.Fun.(*ast.SelectorExpr)
					okShape = ok && sel.Sel.Name == "Code"
					if okShape {
						x, ok := sel.X.(*ast.Ident)
						okShape = ok && x.Name == lhs.Name
					}
				}
				sw = s2
			} else {
				okShape = false
			}
		}
	}
	if !okShape || sw == nil {
		gsFail(t, p, fd, "ConvertGrpcStatus: expected `s := status.Convert(err); switch s.Code() {...}`")
		return ""
	}
	type arm struct{ keys []string; val string }
	var arms []arm
	def := ""
	seen := map[string]bool{}
	for _, cs := range sw.Body.List {
		cc := cs.(*ast.CaseClause)
		v, ok := gsSingleReturnConst(p, cc.Body)
		if !ok {
			gsFail(t, p, cc, "case body must be `return <integer constant>`")
			continue
		}
		if cc.List == nil {
			def = v
			continue
		}
		var a arm
		a.val = v
		for _, k := range cc.List {
			ks, ok := gsConstNat(p, k)
			if !ok {
				gsFail(t, p, k, "case label must be an integer constant")
				continue
			}
			if seen[ks] {
				gsFail(t, p, k, "duplicate case label %s", ks)
			}
			seen[ks] = true
			a.keys = append(a.keys, ks)
		}
		arms = append(arms, a)
	}
	if def == "" {
		gsFail(t, p, sw, "switch without default (falling off the end of the function is not modelled)")
		def = "0"
	}
	rel, _ := filepath.Rel(repo, p.Fset.Position(fd.Pos()).Filename)
	b.WriteString("/-- regenerated from `" + rel + "` func `ConvertGrpcStatus`: the HTTP-style code reported for gRPC status code `c`\n(case labels are the numeric values of the `codes.*` constants as go/types sees them) -/\n")
	b.WriteString("def grpcToHttp (c : Nat) : Nat :=\n")
	for _, a := range arms {
		var conds []string
		for _, k := range a.keys {
			conds = append(conds, "c = "+k)
		}
		b.WriteString("  if " + strings.Join(conds, " ∨ ") + " then " + a.val + " else\n")
	}
	b.WriteString("  " + def + "\n\n")

	// ---- 2. netsample constants and getErrno's shape
	ns := grpcstatusLoad("github.com/yandex/pandora/core/aggregator/netsample")
	for _, c := range [][2]string{{"ProtoCodeError", "protoCodeError"}, {"DiscardedShootCodeError", "discardedShootCodeError"}} {
		if v, ok := gsPkgConst(t, ns, c[0]); ok {
			b.WriteString(fmt.Sprintf("/-- `netsample.%s` -/\ndef %s : Nat := %s\n\n", c[0], c[1], constant.ToInt(v).ExactString()))
		}
	}
	if v, ok := gsPkgConst(t, ns, "DiscardedShootTag"); ok {
		b.WriteString(fmt.Sprintf("/-- `netsample.DiscardedShootTag` -/\ndef discardedShootTag : String := %q\n\n", constant.StringVal(v)))
	}
	ge := findFunc(ns, "getErrno")
	if ge == nil {
		t.errs = append(t.errs, "netsample.getErrno not found")
	} else {
		// first statement: if e, ok := err.(net.Error); ok && e.Timeout() { return <const> }
		timeout := ""
		if len(ge.Body.List) > 0 {
			if ifs, ok := ge.Body.List[0].(*ast.IfStmt); ok && ifs.Else == nil {
				src := nodeString(ns, ifs.Init) + " ; " + nodeString(ns, ifs.Cond)
				if src == "e, ok := err.(net.Error) ; ok && e.Timeout()" {
					if v, ok := gsSingleReturnConst(ns, ifs.Body.List); ok {
						timeout = v
					}
				}
			}
		}
		if timeout == "" {
			gsFail(t, ns, ge, "getErrno: first statement must be `if e, ok := err.(net.Error); ok && e.Timeout() { return N }`")
			timeout = "0"
		}
		b.WriteString("/-- `getErrno`: the code returned when the error is a `net.Error` whose `Timeout()` is true -/\ndef timeoutErrno : Nat := " + timeout + "\n\n")
		// the statements between: hasUnderlying loop and errors.Cause
		var mid []string
		for _, s := range ge.Body.List[1 : len(ge.Body.List)-1] {
			mid = append(mid, strings.Join(strings.Fields(nodeString(ns, s)), " "))
		}
		wantMid := []string{
			"type hasUnderlying interface { Underlying() error }",
			"for { typed, ok := err.(hasUnderlying) if !ok { break } err = typed.Underlying() }",
			"err = errors.Cause(err)",
		}
		if strings.Join(mid, " ## ") != strings.Join(wantMid, " ## ") {
			gsFail(t, ns, ge, "getErrno: unwrapping prologue changed: %q", mid)
		}
		// last statement: for { switch typed := err.(type) { case *T: err = typed.Err ... case syscall.Errno: return int(typed); default: return C } }
		var unwrap []string
		leaf, dflt := "", ""
		last := ge.Body.List[len(ge.Body.List)-1]
		okLoop := false
		if fs, ok := last.(*ast.ForStmt); ok && fs.Init == nil && fs.Cond == nil && fs.Post == nil && len(fs.Body.List) == 1 {
			if ts, ok := fs.Body.List[0].(*ast.TypeSwitchStmt); ok && nodeString(ns, ts.Assign) == "typed := err.(type)" {
				okLoop = true
				for _, cs := range ts.Body.List {
					cc := cs.(*ast.CaseClause)
					body := ""
					if len(cc.Body) == 1 {
						body = nodeString(ns, cc.Body[0])
					}
					if cc.List == nil {
						if len(cc.Body) == 1 {
							if v, ok := gsSingleReturnConst(ns, cc.Body); ok {
								dflt = v
								continue
							}
						}
						okLoop = false
						continue
					}
					for _, ty := range cc.List {
						name := nodeString(ns, ty)
						switch body {
						case "err = typed.Err":
							unwrap = append(unwrap, name)
						case "return int(typed)":
							if leaf != "" {
								okLoop = false
							}
							leaf = name
						default:
							okLoop = false
						}
					}
				}
			}
		}
		if !okLoop || dflt == "" || leaf == "" {
			gsFail(t, ns, last, "getErrno: final loop must be `for { switch typed := err.(type) { case *T: err = typed.Err … case E: return int(typed) default: return C } }`")
		}
		sort.Strings(unwrap)
		var q []string
		for _, u := range unwrap {
			q = append(q, fmt.Sprintf("%q", u))
		}
		b.WriteString("/-- `getErrno`: the wrapper types whose `.Err` is followed (sorted) -/\ndef errnoUnwrapTypes : List String := [" + strings.Join(q, ", ") + "]\n\n")
		b.WriteString(fmt.Sprintf("/-- `getErrno`: the leaf type whose integer value is returned -/\ndef errnoLeafType : String := %q\n\n", leaf))
		b.WriteString("/-- `getErrno`: the code returned for every other error -/\ndef errnoDefault : Nat := " + orZero(dflt) + "\n\n")
	}

	// ---- 3. EmptyTag of both http guns
	for _, c := range [][2]string{{"github.com/yandex/pandora/components/guns/http", "emptyTag"}, {"github.com/yandex/pandora/components/guns/http_scenario", "scenarioEmptyTag"}} {
		hp := grpcstatusLoad(c[0])
		if v, ok := gsPkgConst(t, hp, "EmptyTag"); ok {
			b.WriteString(fmt.Sprintf("/-- `EmptyTag` of %s -/\ndef %s : String := %q\n\n", c[0], c[1], constant.StringVal(v)))
		}
	}

	// ---- 4. who assigns a Connect hook (syntax only, whole repo, non-test files)
	var hits []string
	fset := token.NewFileSet()
	_ = filepath.Walk(repo, func(path string, info os.FileInfo, err error) error {
		if err != nil {
			return nil
		}
		if info.IsDir() {
			n := info.Name()
			if n == ".git" || n == "vendor" || n == "testdata" || n == "node_modules" {
				return filepath.SkipDir
			}
			return nil
		}
		if !strings.HasSuffix(path, ".go") || strings.HasSuffix(path, "_test.go") {
			return nil
		}
		f, err := parser.ParseFile(fset, path, nil, parser.SkipObjectResolution)
		if err != nil {
			return nil
		}
		ast.Inspect(f, func(n ast.Node) bool {
			switch x := n.(type) {
			case *ast.AssignStmt:
				for _, l := range x.Lhs {
					if sel, ok := l.(*ast.SelectorExpr); ok && sel.Sel.Name == "Connect" {
						r, _ := filepath.Rel(repo, fset.Position(x.Pos()).Filename)
						hits = append(hits, fmt.Sprintf("%s:%d", r, fset.Position(x.Pos()).Line))
					}
				}
			case *ast.KeyValueExpr:
				if id, ok := x.Key.(*ast.Ident); ok && id.Name == "Connect" {
					r, _ := filepath.Rel(repo, fset.Position(x.Pos()).Filename)
					hits = append(hits, fmt.Sprintf("%s:%d", r, fset.Position(x.Pos()).Line))
				}
			}
			return true
		})
		return nil
	})
	sort.Strings(hits)
	var hq []string
	for _, h := range hits {
		hq = append(hq, fmt.Sprintf("%q", h))
	}
	b.WriteString("/-- every non-test source position that assigns a field or composite-literal key named `Connect`\n(the optional `BaseGun.Connect` hook; the C10 model assumes it is never set) -/\ndef connectHookAssignments : List String := [" + strings.Join(hq, ", ") + "]\n\n")

	// ---- 5. the documented table (docs/eng/grpc-generator.md)
	gsDocTable(t, &b)
	// ---- 6. the id counter
	gsIDCounter(t, &b)
	// ---- 7. sample-relevant slices of the guns' shoot functions
	gsSlices(t, &b)
	// ---- 8. path summaries of the functions that report samples
	gsPaths(t, &b)
	grpcstatusR4(t, &b)
	grpcstatusR6(t, &b)
	return b.String()
}

func orZero(s string) string {
	if s == "" {
		return "0"
	}
	return s
}

func nodeString(p *packages.Package, n ast.Node) string {
	if n == nil {
		return ""
	}
	start := p.Fset.Position(n.Pos())
	end := p.Fset.Position(n.End())
	src, err := os.ReadFile(start.Filename)
	if err != nil || end.Offset > len(src) {
		return ""
	}
	return string(src[start.Offset:end.Offset])
}
