package main

// Area "config", third part: pins that survive renamed locals, and the shortcut hooks of core/import.
//
// configCanonLocals renames, for the duration of one extraction, every variable declared inside a function (parameters,
// named results, locals, parameters of closures) to x0, x1, … in order of first appearance; the statement-by-statement
// pins of that function are then independent of how the locals are called.

import (
	"fmt"
	"go/ast"
	"go/token"
	"go/types"
	"sort"

	"golang.org/x/tools/go/packages"
)

func configCanonLocals(p *packages.Package, fd *ast.FuncDecl) (restore func()) {
	if fd == nil {
		return func() {}
	}
	type saved struct {
		id   *ast.Ident
		name string
	}
	var undo []saved
	names := map[types.Object]string{}
	ast.Inspect(fd, func(n ast.Node) bool {
		id, ok := n.(*ast.Ident)
		if !ok || id.Name == "_" {
			return true
		}
		obj := p.TypesInfo.ObjectOf(id)
		v, isVar := obj.(*types.Var)
		if !isVar || v.IsField() || obj.Pos() < fd.Pos() || obj.Pos() > fd.End() {
			return true
		}
		nn, seen := names[obj]
		if !seen {
			nn = fmt.Sprintf("x%d", len(names))
			names[obj] = nn
		}
		undo = append(undo, saved{id, id.Name})
		id.Name = nn
		return true
	})
	return func() {
		for _, u := range undo {
			u.id.Name = u.name
		}
	}
}

// configStringConstsIn: the values of all constant string expressions (identifiers, literals) below n, in source order
func configStringConstsIn(p *packages.Package, n ast.Node) []string {
	var out []string
	ast.Inspect(n, func(m ast.Node) bool {
		switch x := m.(type) {
		case *ast.Ident:
			if s, ok := cfStringConst(p, x); ok {
				out = append(out, s)
			}
		case *ast.BasicLit:
			if x.Kind == token.STRING {
				if s, ok := cfStringConst(p, x); ok {
					out = append(out, s)
				}
			}
		case *ast.SelectorExpr:
			if s, ok := cfStringConst(p, x); ok {
				out = append(out, s)
				return false
			}
		}
		return true
	})
	return out
}

// configShortcuts: core/import — which strings at a DataSink position name a plugin by themselves, what every other
// string becomes, and what a list at a Schedule position becomes
func configShortcuts(t *tr, ip *packages.Package) string {
	var names []string
	if imp := findFunc(ip, "Import"); imp != nil {
		ast.Inspect(imp.Body, func(n ast.Node) bool {
			call, ok := n.(*ast.CallExpr)
			if !ok || cfSrc(ip, call.Fun) != "AddSinkConfigHook" || len(call.Args) != 1 {
				return true
			}
			names = append(names, configStringConstsIn(ip, call.Args[0])...)
			return false
		})
	}
	sort.Strings(names)
	uniq := names[:0]
	for i, n := range names {
		if i == 0 || n != names[i-1] {
			uniq = append(uniq, n)
		}
	}
	names = uniq
	fallbackType, fallbackKeys := "", []string{}
	if sh := findFunc(ip, "sinkStringHook"); sh != nil {
		ast.Inspect(sh.Body, func(n ast.Node) bool {
			switch x := n.(type) {
			case *ast.AssignStmt:
				if len(x.Lhs) == 1 && len(x.Rhs) == 1 && cfSrc(ip, x.Lhs[0]) == "pluginType" {
					if s, ok := cfStringConst(ip, x.Rhs[0]); ok {
						fallbackType = s
					}
				}
			case *ast.CompositeLit:
				for _, el := range x.Elts {
					if kv, ok := el.(*ast.KeyValueExpr); ok {
						if s, ok := cfStringConst(ip, kv.Key); ok {
							fallbackKeys = append(fallbackKeys, s+"="+cfSrc(ip, kv.Value))
						}
					}
				}
			}
			return true
		})
	} else {
		t.errs = append(t.errs, "core/import: sinkStringHook not found")
	}
	var sched []string
	if sc := findFunc(ip, "scheduleSliceToCompositeConfigHook"); sc != nil {
		if len(sc.Body.List) > 0 {
			if r, ok := sc.Body.List[len(sc.Body.List)-1].(*ast.ReturnStmt); ok && len(r.Results) >= 1 {
				if cl, ok := r.Results[0].(*ast.CompositeLit); ok {
					for _, el := range cl.Elts {
						if kv, ok := el.(*ast.KeyValueExpr); ok {
							k, _ := cfStringConst(ip, kv.Key)
							v := cfSrc(ip, kv.Value)
							if s, ok := cfStringConst(ip, kv.Value); ok {
								v = fmt.Sprintf("%q", s)
							}
							sched = append(sched, k+"="+v)
						}
					}
				}
			}
		}
	} else {
		t.errs = append(t.errs, "core/import: scheduleSliceToCompositeConfigHook not found")
	}
	sort.Strings(sched)
	out := "/-- core/import `Import`: the strings for which an `AddSinkConfigHook` closure names a plugin (sorted) -/\n"
	out += "def sinkShortcutNames : List String := " + cfQ(names) + "\n"
	out += fmt.Sprintf("/-- `sinkStringHook`: any other string is this plugin, with these config entries -/\ndef sinkFallbackType : String := %q\n", fallbackType)
	out += "def sinkFallbackEntries : List String := " + cfQ(fallbackKeys) + "\n"
	out += "/-- `scheduleSliceToCompositeConfigHook`: the mapping a list becomes (sorted `key=value`) -/\ndef schedShortcutEntries : List String := " + cfQ(sched) + "\n\n"
	return out
}
