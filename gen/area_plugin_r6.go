package main

// Area "plugin", round 6 (property C18): SEMANTIC readings of the straight-line glue of core/plugin.
//
// Rounds 1-4 compared the result conversion and the optional-argument helpers as canonical source TEXT, so a harmless
// rewrite (switch -> if, early return -> if/else, `len(x) == 0` -> `len(x) < 1`) was reported as a broken obligation.
// Here the functions are EVALUATED on their whole (finite) abstract input space by a tiny interpreter of go/ast and the
// resulting decision TABLE is what goes into Lean:
//
//   convertTable              convertFactoryOutParams(pluginType, numOut, out): for numOut in {1,2,3}, len(out) in {1,2},
//                             out[1] nil or not -> "ret:len=N" | "ret:len=N+nilerr" (a nil error was appended) |
//                             "panic:err" (panic carrying out[1]) | "panic:other"
//   getFillConfTable /        getFillConf / getNewDefaultConfig for 0, 1, 2 optional arguments -> "ret:nil" | "ret:elem0" |
//   getNewDefaultConfigTable  "panic:expect"
//   confErrTable              the closure of pluginConstructor.NewFactory when getMaybeConf fails, by factoryType.NumOut()
//                             in {1,2,3} -> "panic:err" | "ret:zero,err" | "panic:other"
//   newExpects / newFactoryExpects   the top-level expectations of Registry.New / NewFactory as Lean conditions over the
//                             abstract reflect.Type (isFactoryType is the regenerated function)
//   defaultWrappers           plugin.go: every package-level wrapper (Register, Lookup, LookupFactory, New, NewFactory) calls
//                             the method of the same name on the default registry with its parameters in order
//
// The interpreter knows: expect(c, …), panic(x), if / else with an evaluable condition, if with a condition it cannot
// evaluate whose branches neither leave the function nor touch the tracked slice (skipped: `out[0]` is converted to the
// plugin interface there), switch on an evaluable tag, `s = append(s, x)`, `s = s[:n]`, return.  Anything else is a failed
// reading (a broken obligation, reported as no-failing-input-found unless the driver finds a failing input).

import (
	"fmt"
	"go/ast"
	"go/token"
	"go/types"
	"sort"
	"strconv"
	"strings"

	"golang.org/x/tools/go/packages"
)

type pluginEv struct {
	p           *packages.Package
	fd          *ast.FuncDecl
	env         map[string]int    // canonical text of an expression -> its value (bools are 0 / 1)
	panics      map[string]string // canonical text of a panic argument -> outcome label
	rets        map[string]string // canonical text of a returned expression (list) -> outcome label
	slice       string            // canonical name of the tracked slice variable
	ln          int               // its current length
	appendedNil bool
	fail        string
}

func (e *pluginEv) canon(n ast.Node) string { return pluginCanon(e.p, e.fd, n) }

func (e *pluginEv) bad(n ast.Node, what string) {
	if e.fail == "" {
		e.fail = what + ": " + e.canon(n)
	}
}

// eval gives the value of an int / bool expression, ok = false when it is outside what the interpreter knows
func (e *pluginEv) eval(x ast.Expr) (int, bool) {
	if v, ok := e.env[e.canon(x)]; ok {
		return v, true
	}
	b2i := func(b bool) int {
		if b {
			return 1
		}
		return 0
	}
	switch v := x.(type) {
	case *ast.ParenExpr:
		return e.eval(v.X)
	case *ast.BasicLit:
		if v.Kind == token.INT {
			n, err := strconv.Atoi(v.Value)
			return n, err == nil
		}
	case *ast.Ident:
		switch v.Name {
		case "true":
			return 1, true
		case "false":
			return 0, true
		}
	case *ast.CallExpr:
		if id, ok := v.Fun.(*ast.Ident); ok && id.Name == "len" && len(v.Args) == 1 && e.slice != "" && e.canon(v.Args[0]) == e.slice {
			return e.ln, true
		}
	case *ast.UnaryExpr:
		if v.Op == token.NOT {
			a, ok := e.eval(v.X)
			return 1 - a, ok
		}
	case *ast.BinaryExpr:
		a, ok1 := e.eval(v.X)
		// short circuit: `len(out) > 1 && !out[1].IsNil()` must not need the right side when the left decides
		if v.Op == token.LAND && ok1 && a == 0 {
			return 0, true
		}
		if v.Op == token.LOR && ok1 && a == 1 {
			return 1, true
		}
		b, ok2 := e.eval(v.Y)
		if !ok1 || !ok2 {
			return 0, false
		}
		switch v.Op {
		case token.EQL:
			return b2i(a == b), true
		case token.NEQ:
			return b2i(a != b), true
		case token.LSS:
			return b2i(a < b), true
		case token.LEQ:
			return b2i(a <= b), true
		case token.GTR:
			return b2i(a > b), true
		case token.GEQ:
			return b2i(a >= b), true
		case token.LAND:
			return b2i(a == 1 && b == 1), true
		case token.LOR:
			return b2i(a == 1 || b == 1), true
		case token.ADD:
			return a + b, true
		case token.SUB:
			return a - b, true
		}
	}
	return 0, false
}

// inert: the statement neither leaves the function nor changes the tracked slice's length
func (e *pluginEv) inert(n ast.Node) bool {
	ok := true
	ast.Inspect(n, func(m ast.Node) bool {
		switch v := m.(type) {
		case *ast.ReturnStmt, *ast.BranchStmt, *ast.GoStmt, *ast.DeferStmt:
			ok = false
		case *ast.CallExpr:
			if id, isId := v.Fun.(*ast.Ident); isId && (id.Name == "panic" || id.Name == "expect") {
				ok = false
			}
		case *ast.AssignStmt:
			for _, l := range v.Lhs {
				if e.slice != "" && e.canon(l) == e.slice {
					ok = false
				}
			}
		}
		return ok
	})
	return ok
}

// exec runs the statements; a non-empty result is the outcome of the function
func (e *pluginEv) exec(list []ast.Stmt) string {
	for _, s := range list {
		if e.fail != "" {
			return "?"
		}
		if out := e.stmt(s); out != "" {
			return out
		}
	}
	return ""
}

func (e *pluginEv) stmt(s ast.Stmt) string {
	switch v := s.(type) {
	case *ast.EmptyStmt, *ast.DeclStmt:
		return ""
	case *ast.BlockStmt:
		return e.exec(v.List)
	case *ast.ExprStmt:
		c, ok := v.X.(*ast.CallExpr)
		if !ok {
			e.bad(s, "statement")
			return "?"
		}
		if id, ok := c.Fun.(*ast.Ident); ok {
			switch id.Name {
			case "expect":
				if len(c.Args) == 0 {
					e.bad(s, "expect without condition")
					return "?"
				}
				val, ok := e.eval(c.Args[0])
				if !ok {
					e.bad(c.Args[0], "condition")
					return "?"
				}
				if val == 0 {
					return "panic:expect"
				}
				return ""
			case "panic":
				if len(c.Args) == 1 {
					if l, ok := e.panics[e.canon(c.Args[0])]; ok {
						return l
					}
				}
				return "panic:other"
			}
		}
		if e.inert(s) {
			return "" // a call for its effect on something the table does not track (logging)
		}
		e.bad(s, "statement")
		return "?"
	case *ast.AssignStmt:
		if len(v.Lhs) == 1 && len(v.Rhs) == 1 && e.slice != "" && e.canon(v.Lhs[0]) == e.slice {
			switch r := v.Rhs[0].(type) {
			case *ast.CallExpr:
				if id, ok := r.Fun.(*ast.Ident); ok && id.Name == "append" && len(r.Args) == 2 && e.canon(r.Args[0]) == e.slice && !r.Ellipsis.IsValid() {
					if e.canon(r.Args[1]) != "reflect.Zero(errorType)" {
						e.bad(s, "appended value")
						return "?"
					}
					e.ln++
					e.appendedNil = true
					return ""
				}
			case *ast.SliceExpr:
				if e.canon(r.X) == e.slice && r.Low == nil && r.High != nil && !r.Slice3 {
					n, ok := e.eval(r.High)
					if !ok || n > e.ln {
						e.bad(s, "slice bound")
						return "?"
					}
					if n < e.ln {
						e.appendedNil = false
					}
					e.ln = n
					return ""
				}
			}
			e.bad(s, "assignment to the tracked slice")
			return "?"
		}
		if e.inert(s) {
			// a definition / assignment of something else; its value must not be one the table depends on
			for _, l := range v.Lhs {
				if _, tracked := e.env[e.canon(l)]; tracked {
					e.bad(s, "assignment to a tracked value")
					return "?"
				}
			}
			return ""
		}
		e.bad(s, "assignment")
		return "?"
	case *ast.IfStmt:
		if v.Init != nil {
			if out := e.stmt(v.Init); out != "" {
				return out
			}
		}
		val, ok := e.eval(v.Cond)
		if !ok {
			if e.inert(v.Body) && (v.Else == nil || e.inert(v.Else)) {
				return ""
			}
			e.bad(v.Cond, "condition")
			return "?"
		}
		if val == 1 {
			return e.exec(v.Body.List)
		}
		if v.Else != nil {
			return e.stmt(v.Else)
		}
		return ""
	case *ast.SwitchStmt:
		if v.Init != nil || v.Tag == nil {
			e.bad(s, "switch")
			return "?"
		}
		tag, ok := e.eval(v.Tag)
		if !ok {
			e.bad(v.Tag, "switch tag")
			return "?"
		}
		var dflt *ast.CaseClause
		for _, c := range v.Body.List {
			cc := c.(*ast.CaseClause)
			if cc.List == nil {
				dflt = cc
				continue
			}
			for _, x := range cc.List {
				k, ok := e.eval(x)
				if !ok {
					e.bad(x, "case")
					return "?"
				}
				if k == tag {
					return e.exec(cc.Body)
				}
			}
		}
		if dflt != nil {
			return e.exec(dflt.Body)
		}
		return ""
	case *ast.ReturnStmt:
		var rs []string
		for _, r := range v.Results {
			rs = append(rs, e.canon(r))
		}
		key := strings.Join(rs, ", ")
		if l, ok := e.rets[key]; ok {
			return l
		}
		if e.slice != "" && key == e.slice {
			out := "ret:len=" + strconv.Itoa(e.ln)
			if e.appendedNil {
				out += "+nilerr"
			}
			return out
		}
		if len(v.Results) == 1 {
			if ix, ok := v.Results[0].(*ast.IndexExpr); ok && e.slice != "" && e.canon(ix.X) == e.slice {
				if i, ok := e.eval(ix.Index); ok {
					if i < 0 || i >= e.ln {
						return "panic:index"
					}
					return "ret:elem" + strconv.Itoa(i)
				}
			}
		}
		return "ret:" + key
	}
	e.bad(s, fmt.Sprintf("statement %T", s))
	return "?"
}

// pluginParamByType: canonical name of the first parameter whose type prints as ty
func pluginParamByType(p *packages.Package, fd *ast.FuncDecl, ty string) string {
	for _, f := range fd.Type.Params.List {
		if pluginShortType(p, p.TypesInfo.TypeOf(f.Type)) == ty || (ty == "[]" && strings.HasPrefix(pluginShortType(p, p.TypesInfo.TypeOf(f.Type)), "[]")) {
			for _, n := range f.Names {
				return pluginCanon(p, fd, n)
			}
		}
	}
	return ""
}

func pluginR6(t *tr, p *packages.Package, x *pluginTx) string {
	var b strings.Builder
	b.WriteString("\n/-! ### round 6: semantic readings (decision tables computed by evaluating the Go functions) -/\n\n")

	// ---- convertFactoryOutParams
	if fd := pluginFindDecl(p, "convertFactoryOutParams"); fd != nil {
		slice := pluginParamByType(p, fd, "[]reflect.Value")
		numOut := pluginParamByType(p, fd, "int")
		var rows []string
		if slice == "" || numOut == "" {
			t.fail(fd, "convertFactoryOutParams: parameters ([]reflect.Value, int) not found")
		} else {
			for _, n := range []int{1, 2, 3} {
				for _, ln := range []int{1, 2} {
					for _, errNil := range []bool{true, false} {
						if ln == 1 && !errNil {
							continue
						}
						ev := &pluginEv{p: p, fd: fd, slice: slice, ln: ln,
							env:    map[string]int{numOut: n},
							panics: map[string]string{slice + "[1].Interface()": "panic:err"}}
						if ln == 2 {
							ev.env[slice+"[1].IsNil()"] = map[bool]int{true: 1, false: 0}[errNil]
						}
						out := ev.exec(fd.Body.List)
						if ev.fail != "" {
							t.fail(fd, "convertFactoryOutParams (numOut=%d len=%d): %s", n, ln, ev.fail)
							out = "?"
						}
						if out == "" {
							out = "fallsoff"
						}
						rows = append(rows, fmt.Sprintf("(%d, %d, %v, %q)", n, ln, errNil, out))
					}
				}
			}
		}
		fmt.Fprintf(&b, "/-- regenerated by EVALUATING `convertFactoryOutParams`: (numOut requested, len(out) of the callee, is out[1] nil, outcome) -/\ndef convertTable : List (Nat × Nat × Bool × String) :=\n  [%s]\n\n", strings.Join(rows, ",\n   "))
	} else {
		t.errs = append(t.errs, "func convertFactoryOutParams not found")
	}

	// ---- the optional-argument helpers
	for _, fn := range []string{"getFillConf", "getNewDefaultConfig"} {
		fd := pluginFindDecl(p, fn)
		if fd == nil {
			t.errs = append(t.errs, "func "+fn+" not found")
			continue
		}
		slice := pluginParamByType(p, fd, "[]")
		var rows []string
		for _, ln := range []int{0, 1, 2} {
			ev := &pluginEv{p: p, fd: fd, slice: slice, ln: ln, env: map[string]int{}, rets: map[string]string{"nil": "ret:nil"}}
			out := ev.exec(fd.Body.List)
			if ev.fail != "" {
				t.fail(fd, "%s (len=%d): %s", fn, ln, ev.fail)
				out = "?"
			}
			rows = append(rows, fmt.Sprintf("(%d, %q)", ln, out))
		}
		fmt.Fprintf(&b, "/-- regenerated by EVALUATING `%s`: (number of optional arguments passed, outcome) -/\ndef %sTable : List (Nat × String) := [%s]\n\n", fn, fn, strings.Join(rows, ", "))
	}

	// ---- a config error inside the closure of pluginConstructor.NewFactory
	if fd := pluginFindDecl(p, "pluginConstructor.NewFactory"); fd != nil {
		// the statement list guarded by `err != nil` right after the getMaybeConf call, inside the function literal
		var guarded *ast.IfStmt
		errName := ""
		ast.Inspect(fd, func(n ast.Node) bool {
			blk, ok := n.(*ast.BlockStmt)
			if !ok {
				return true
			}
			for i, s := range blk.List {
				as, ok := s.(*ast.AssignStmt)
				if !ok || len(as.Rhs) != 1 || len(as.Lhs) != 2 || i+1 >= len(blk.List) {
					continue
				}
				call, ok := as.Rhs[0].(*ast.CallExpr)
				if !ok || pluginCanon(p, fd, call.Fun) != "$func" {
					continue
				}
				if is, ok := blk.List[i+1].(*ast.IfStmt); ok {
					en := pluginCanon(p, fd, as.Lhs[1])
					if c := pluginCanon(p, fd, is.Cond); c == en+" != nil" || c == "nil != "+en {
						guarded, errName = is, en
					}
				}
			}
			return true
		})
		var rows []string
		if guarded == nil {
			t.fail(fd, "pluginConstructor.NewFactory: no `if err != nil` right after the getMaybeConf call")
		} else {
			for _, n := range []int{1, 2, 3} {
				ev := &pluginEv{p: p, fd: fd, env: map[string]int{"$reflect.Type.NumOut()": n},
					panics: map[string]string{errName: "panic:err"},
					rets: map[string]string{
						"[]reflect.Value{reflect.Zero($*pluginConstructor.pluginType), reflect.ValueOf(&" + errName + ").Elem()}": "ret:zero,err",
						"[]reflect.Value{reflect.Zero($*pluginConstructor.pluginType), reflect.ValueOf(" + errName + ")}":         "ret:zero,err"}}
				out := ev.exec(guarded.Body.List)
				if ev.fail != "" {
					t.fail(fd, "config-error branch (NumOut=%d): %s", n, ev.fail)
					out = "?"
				}
				if out == "" {
					out = "continues" // the error is ignored and the constructor is called all the same
				}
				rows = append(rows, fmt.Sprintf("(%d, %q)", n, out))
			}
		}
		fmt.Fprintf(&b, "/-- regenerated by EVALUATING the `err != nil` branch after `getMaybeConf()` in the closure of `pluginConstructor.NewFactory`:\n(factoryType.NumOut(), outcome); `continues` = the error is dropped and the constructor is called all the same -/\ndef confErrTable : List (Nat × String) := [%s]\n\n", strings.Join(rows, ", "))
	}

	// ---- the expectations of Registry.New / Registry.NewFactory on the requested form
	for _, fn := range []struct{ decl, lean, doc string }{
		{"Registry.New", "newExpects", "`(*Registry).New`"},
		{"Registry.NewFactory", "newFactoryExpects", "`(*Registry).NewFactory`"},
	} {
		fd := pluginFindDecl(p, fn.decl)
		if fd == nil {
			t.errs = append(t.errs, "method "+fn.decl+" not found")
			continue
		}
		x.option, x.opaque = map[string]bool{}, map[string]bool{}
		x.vars = map[string]string{}
		for _, f := range fd.Type.Params.List {
			ty := t.pkg.TypesInfo.TypeOf(f.Type)
			for _, n := range f.Names {
				switch {
				case ty.String() == "reflect.Type":
					x.vars[n.Name] = "requested"
				case isString(ty):
					x.vars[n.Name] = "name"
				}
			}
		}
		var conds []string
		for _, s := range fd.Body.List {
			if name, c := pluginCallName(s); name == "expect" && len(c.Args) >= 1 {
				conds = append(conds, x.expr(c.Args[0]))
			}
		}
		// no expectation hides in a nested statement
		nested := 0
		ast.Inspect(fd.Body, func(n ast.Node) bool {
			if c, ok := n.(*ast.CallExpr); ok {
				if id, ok := c.Fun.(*ast.Ident); ok && id.Name == "expect" {
					nested++
				}
			}
			return true
		})
		if nested != len(conds) {
			t.fail(fd, "%s: an expectation that is not a top-level statement", fn.decl)
		}
		fmt.Fprintf(&b, "/-- regenerated from %s: its own expectations on the requested type and the name -/\ndef %s (requested : Ty) (name : String) : List Bool :=\n  [%s]\n\n", fn.doc, fn.lean, strings.Join(conds, ",\n   "))
	}

	// ---- LookupFactory / FactoryPluginType: isFactoryType first, then the plugin type is the first result
	for _, fn := range []struct{ decl, lean string }{{"Registry.LookupFactory", "lookupFactorySteps"}, {"FactoryPluginType", "factoryPluginTypeSteps"}} {
		fd := pluginFindDecl(p, fn.decl)
		if fd == nil {
			t.errs = append(t.errs, fn.decl+" not found")
			continue
		}
		var rows []string
		for _, s := range fd.Body.List {
			rows = append(rows, pluginCanon(p, fd, s))
		}
		fmt.Fprintf(&b, "/-- regenerated from `%s` (canonical statements) -/\ndef %s : List String := [%s]\n\n", fn.decl, fn.lean, pluginQuoteList(rows))
	}

	// ---- plugin.go: the package-level wrappers around the default registry
	type wrow struct {
		name, method string
		inOrder      bool
		recv         string
	}
	var wrows []wrow
	for _, f := range p.Syntax {
		for _, d := range f.Decls {
			fd, ok := d.(*ast.FuncDecl)
			if !ok || fd.Recv != nil || fd.Body == nil || len(fd.Body.List) != 1 || !fd.Name.IsExported() {
				continue
			}
			var call *ast.CallExpr
			switch s := fd.Body.List[0].(type) {
			case *ast.ReturnStmt:
				if len(s.Results) == 1 {
					call, _ = s.Results[0].(*ast.CallExpr)
				}
			case *ast.ExprStmt:
				call, _ = s.X.(*ast.CallExpr)
			}
			if call == nil {
				continue
			}
			sel, ok := call.Fun.(*ast.SelectorExpr)
			if !ok {
				continue
			}
			recv := pluginSrc(p.Fset, sel.X)
			if recv != "defaultRegistry" && recv != "DefaultRegistry()" {
				continue
			}
			// the arguments are exactly the parameters, in order (a variadic one spread)
			var params []types.Object
			for _, pf := range fd.Type.Params.List {
				for _, n := range pf.Names {
					params = append(params, p.TypesInfo.Defs[n])
				}
			}
			inOrder := len(params) == len(call.Args)
			for i := 0; inOrder && i < len(params); i++ {
				id, ok := call.Args[i].(*ast.Ident)
				inOrder = ok && p.TypesInfo.ObjectOf(id) == params[i]
			}
			if sig, ok := p.TypesInfo.TypeOf(fd.Name).(*types.Signature); ok && sig.Variadic() && !call.Ellipsis.IsValid() {
				inOrder = false
			}
			wrows = append(wrows, wrow{fd.Name.Name, sel.Sel.Name, inOrder, recv})
		}
	}
	sort.Slice(wrows, func(i, j int) bool { return wrows[i].name < wrows[j].name })
	var ws []string
	for _, w := range wrows {
		ws = append(ws, fmt.Sprintf("(%q, %q, %v)", w.name, w.method, w.inOrder))
	}
	fmt.Fprintf(&b, "/-- regenerated from core/plugin/plugin.go: (exported package-level wrapper, the method it calls on the default registry, are its\narguments exactly its parameters in order) -/\ndef defaultWrappers : List (String × String × Bool) :=\n  [%s]\n\n", strings.Join(ws, ",\n   "))
	return b.String()
}
