package main

// Area "c02locks" (property C02): the lock discipline of core/schedule/composite.go, re-extracted from the CURRENT
// source. For the methods Start, Next, Left and startNext of compositeSchedule every access that matters for the
// atomicity of the model's sections is emitted as a row (function, access, what is held of s.rwMu at that point):
// child calls s.scheds[0].Next/Left/Start, reads and writes of s.scheds / s.leftAfter, the atomic flag, the
// verifhook scheduling points, retries (return s.Next() / s.Left()), calls of startNext, panics.
// The rows are a SET (sorted, de-duplicated): reordering independent statements inside one critical section does
// not change it, moving an access out of its critical section does.
//
// Lock tracking: the state none / R / W is threaded through the statements in source order; `defer s.rwMu.Unlock()`
// holds W to the end; an `if` body must either end in return/panic or leave the state as it found it; startNext is
// scanned with the state `caller`. Any other shape is a translation error (gen exits non-zero), never a silent default.

import (
	"fmt"
	"go/ast"
	"go/token"
	"go/types"
	"sort"
	"strconv"
	"strings"

	"golang.org/x/tools/go/packages"
)

func init() {
	areas["c02locks"] = area{
		pkgPath:   "github.com/yandex/pandora/core/schedule",
		module:    "C02Locks",
		namespace: "Pandora.Gen.C02Locks",
		imports:   []string{"Pandora.Model.C02Ns"},
		extra:     c02LocksExtra,
	}
}

type c02Scan struct {
	t        *tr
	p        *packages.Package
	fn       string
	recv     types.Object
	rows     map[[3]string]bool
	deferred bool
}

func (s *c02Scan) fail(n ast.Node, format string, a ...any) {
	s.t.errs = append(s.t.errs, fmt.Sprintf("%s: unsupported (c02locks): %s", s.p.Fset.Position(n.Pos()), fmt.Sprintf(format, a...)))
}

func (s *c02Scan) row(acc, st string) { s.rows[[3]string{s.fn, acc, st}] = true }

func (s *c02Scan) isRecv(e ast.Expr) bool {
	id, ok := e.(*ast.Ident)
	return ok && s.recv != nil && s.p.TypesInfo.Uses[id] == s.recv
}

// recvField returns the field name if e is `s.<field>`.
func (s *c02Scan) recvField(e ast.Expr) string {
	sel, ok := e.(*ast.SelectorExpr)
	if !ok || !s.isRecv(sel.X) {
		return ""
	}
	return sel.Sel.Name
}

// mutexOp recognises s.rwMu.<op>().
func (s *c02Scan) mutexOp(e ast.Expr) string {
	call, ok := e.(*ast.CallExpr)
	if !ok {
		return ""
	}
	sel, ok := call.Fun.(*ast.SelectorExpr)
	if !ok || s.recvField(sel.X) != "rwMu" {
		return ""
	}
	return sel.Sel.Name
}

func (s *c02Scan) scanExpr(e ast.Node, st string) {
	if e == nil {
		return
	}
	ast.Inspect(e, func(n ast.Node) bool {
		switch x := n.(type) {
		case *ast.FuncLit:
			s.fail(x, "function literal")
			return false
		case *ast.CallExpr:
			if id, ok := x.Fun.(*ast.Ident); ok && id.Name == "panic" {
				s.row(".panic", st)
				return true
			}
			sel, ok := x.Fun.(*ast.SelectorExpr)
			if !ok {
				return true
			}
			// verifhook.At("…")
			if pk, ok := sel.X.(*ast.Ident); ok {
				if pn, ok := s.p.TypesInfo.Uses[pk].(*types.PkgName); ok && strings.HasSuffix(pn.Imported().Path(), "lib/verifhook") && sel.Sel.Name == "At" {
					name := "?"
					if len(x.Args) == 1 {
						if bl, ok := x.Args[0].(*ast.BasicLit); ok && bl.Kind == token.STRING {
							name, _ = strconv.Unquote(bl.Value)
						}
					}
					s.row(".hook "+strconv.Quote(name), st)
					return false
				}
			}
			// s.Next() / s.Left() / s.startNext(…)
			if s.isRecv(sel.X) {
				switch sel.Sel.Name {
				case "Next", "Left":
					s.row(".retry", st)
				case "startNext":
					s.row(".callStartNext", st)
				default:
					s.fail(x, "call of method %s on the receiver", sel.Sel.Name)
				}
				return true
			}
			// s.scheds[0].M(…)
			if ix, ok := sel.X.(*ast.IndexExpr); ok && s.recvField(ix.X) == "scheds" {
				switch sel.Sel.Name {
				case "Next":
					s.row(".childNext", st)
				case "Left":
					s.row(".childLeft", st)
				case "Start":
					s.row(".childStart", st)
				default:
					s.fail(x, "child call %s", sel.Sel.Name)
				}
				return true
			}
			// s.started.Store / Load
			if s.recvField(sel.X) == "started" {
				switch sel.Sel.Name {
				case "Store":
					s.row(".startedStore", st)
				case "Load":
					s.row(".startedLoad", st)
				default:
					s.fail(x, "started.%s", sel.Sel.Name)
				}
				return false
			}
			if s.recvField(sel.X) == "rwMu" {
				s.fail(x, "mutex operation inside an expression")
				return false
			}
			return true
		case *ast.SelectorExpr:
			switch s.recvField(x) {
			case "scheds":
				s.row(".readScheds", st)
			case "leftAfter":
				s.row(".readLeftAfter", st)
			}
			return true
		}
		return true
	})
}

// block returns the state after the statements and whether control cannot reach the end.
func (s *c02Scan) block(stmts []ast.Stmt, st string) (string, bool) {
	for i, stmt := range stmts {
		switch x := stmt.(type) {
		case *ast.ExprStmt:
			switch s.mutexOp(x.X) {
			case "RLock":
				if st != "none" {
					s.fail(x, "RLock while holding %s", st)
				}
				st = "R"
			case "RUnlock":
				if st != "R" {
					s.fail(x, "RUnlock while holding %s", st)
				}
				st = "none"
			case "Lock":
				if st != "none" {
					s.fail(x, "Lock while holding %s", st)
				}
				st = "W"
			case "Unlock":
				if st != "W" || s.deferred {
					s.fail(x, "Unlock while holding %s", st)
				}
				st = "none"
			case "":
				s.scanExpr(x.X, st)
				if call, ok := x.X.(*ast.CallExpr); ok {
					if id, ok := call.Fun.(*ast.Ident); ok && id.Name == "panic" {
						return st, true
					}
				}
			default:
				s.fail(x, "mutex operation %s", s.mutexOp(x.X))
			}
		case *ast.DeferStmt:
			if s.mutexOp(x.Call) == "Unlock" && st == "W" && !s.deferred {
				s.deferred = true
			} else {
				s.fail(x, "defer")
			}
		case *ast.AssignStmt:
			for _, r := range x.Rhs {
				s.scanExpr(r, st)
			}
			for _, l := range x.Lhs {
				switch s.recvField(baseOf(l)) {
				case "scheds":
					s.row(".writeScheds", st)
				case "leftAfter":
					s.row(".writeLeftAfter", st)
				case "":
					if _, ok := l.(*ast.Ident); !ok {
						s.fail(l, "assignment target")
					}
				default:
					s.fail(l, "assignment to field %s", s.recvField(baseOf(l)))
				}
			}
		case *ast.DeclStmt:
			s.scanExpr(x, st)
		case *ast.IfStmt:
			if x.Init != nil {
				st2, _ := s.block([]ast.Stmt{x.Init}, st)
				if st2 != st {
					s.fail(x.Init, "lock state changes in an if initialiser")
				}
			}
			s.scanExpr(x.Cond, st)
			stB, termB := s.block(x.Body.List, st)
			stE, termE := st, false
			if x.Else != nil {
				switch e := x.Else.(type) {
				case *ast.BlockStmt:
					stE, termE = s.block(e.List, st)
				case *ast.IfStmt:
					stE, termE = s.block([]ast.Stmt{e}, st)
				}
			}
			switch {
			case termB && termE:
				return st, true
			case termB:
				st = stE
			case termE:
				st = stB
			default:
				if stB != stE {
					s.fail(x, "branches leave different lock states (%s / %s)", stB, stE)
				}
				st = stB
			}
		case *ast.ReturnStmt:
			for _, r := range x.Results {
				s.scanExpr(r, st)
			}
			if !(st == "none" || st == "caller" || (st == "W" && s.deferred)) {
				s.fail(x, "return while holding %s", st)
			}
			if i != len(stmts)-1 {
				s.fail(x, "statements after return")
			}
			return st, true
		default:
			s.fail(stmt, "statement %T", stmt)
		}
	}
	return st, false
}

func c02LocksExtra(t *tr) string {
	p := t.pkg
	s := &c02Scan{t: t, p: p, rows: map[[3]string]bool{}}
	want := map[string]string{"Start": "none", "Next": "none", "Left": "none", "startNext": "caller"}
	seen := map[string]bool{}
	for _, f := range p.Syntax {
		for _, d := range f.Decls {
			fd, ok := d.(*ast.FuncDecl)
			if !ok || fd.Body == nil || fd.Recv == nil || len(fd.Recv.List) != 1 {
				continue
			}
			rt := p.TypesInfo.TypeOf(fd.Recv.List[0].Type)
			n, ok := derefType(rt).(*types.Named)
			if !ok || n.Obj().Name() != "compositeSchedule" {
				continue
			}
			init, ok := want[fd.Name.Name]
			if !ok {
				t.errs = append(t.errs, fmt.Sprintf("compositeSchedule has a method %s the lock facts do not know", fd.Name.Name))
				continue
			}
			seen[fd.Name.Name] = true
			s.fn = fd.Name.Name
			s.recv = nil
			s.deferred = false
			if len(fd.Recv.List[0].Names) == 1 {
				s.recv = p.TypesInfo.Defs[fd.Recv.List[0].Names[0]]
			}
			st, term := s.block(fd.Body.List, init)
			if !term && !(st == "none" || st == "caller" || (st == "W" && s.deferred)) {
				s.fail(fd, "%s ends while holding %s", fd.Name.Name, st)
			}
		}
	}
	for m := range want {
		if !seen[m] {
			t.errs = append(t.errs, "method compositeSchedule."+m+" not found")
		}
	}
	var keys [][3]string
	for k := range s.rows {
		keys = append(keys, k)
	}
	sort.Slice(keys, func(i, j int) bool {
		for c := 0; c < 3; c++ {
			if keys[i][c] != keys[j][c] {
				return keys[i][c] < keys[j][c]
			}
		}
		return false
	})
	var b strings.Builder
	b.WriteString("/-- regenerated from `core/schedule/composite.go`: what the methods of `compositeSchedule` access, and what they hold of\n`rwMu` when they do (a set: sorted, without duplicates) -/\n")
	b.WriteString("def rows : List C02Row := [\n")
	for i, k := range keys {
		sep := ","
		if i == len(keys)-1 {
			sep = ""
		}
		fmt.Fprintf(&b, "  ⟨%s, %s, .%s⟩%s\n", strconv.Quote(k[0]), k[1], k[2], sep)
	}
	b.WriteString("]\n")
	return b.String()
}
