package main

// Area "startup" (property C12): regenerates from the CURRENT source of core/engine (engine.go, instance.go) and
// core/coreutil (waiter.go, schedule.go) into lean/Pandora/Gen/Startup.lean, over the vocabulary `Pandora.Go.C12` of
// lean/Pandora/Model/C12.lean (core-only):
//
//	(*instancePool).runAsync                 which context is the parent of the instance-start context; which contexts
//	                                         startInstances and buildNewInstanceSchedule are given (roles `Ctx.start`,
//	                                         `Ctx.run` are resolved from the `context.WithCancel` statements and the
//	                                         fields of the returned handle, never from variable names)
//	(*instancePool).startInstances           the whole start loop as a SEQUENTIAL Lean function of the result of the
//	                                         synchronous newInstance and of the results of the successive
//	                                         `waiter.Wait(ctx)` calls (each a function of the context the call is given)
//	runNewInstance, newInstance              context / id handed on to newInstance, GunDeps and instance.Run
//	(*runAwaitHandle).awaitRun               what the `res := <-ah.runRes` case does (cancel which context / report error)
//	(*instancePool).buildNewInstanceSchedule whether a finish callback is installed, and what it does
//	coreutil callbackOnFinishSchedule        when the callback fires (Next / Left)
//	coreutil (*Waiter).IsFinished
//	(*instance).Run                          the loop `for !waiter.IsFinished(ctx) { err := body(); if err != nil { return err } }`
//	                                         and the returns of its body
//
// Reading of Go used here (trusted, see notes/C12.md):
//
//	ok := waiter.Wait(c)                     -> the next element of the oracle list applied to the role of c
//	for ; waiter.Wait(c); post { body }      -> recursion over the oracle list; the statements after the loop are its exit
//	x, err := newInstance(c, …, id, deps)    -> Act.newInstance (role c) id ; err := if firstOk then none else create
//	go func() { runRes <- instanceRunResult{id, v} }()  -> Act.goRunFirst / Act.goRunNew (by the shape of v)
//	err = c.Err()                            -> StartErr.ofCtx (role c)
//	calls on a *zap.Logger, `defer`, `if tag.Debug {…}` and blocks without `return` in instance.Run -> no effect
//	select { case <-c.Done(): A; default: B }   -> if ctxDone (role c) then A else B
//
// Anything else in these functions makes gen fail (broken obligation), never a silent default.

import (
	"bytes"
	"fmt"
	"go/ast"
	"go/printer"
	"go/token"
	"go/types"
	"sort"
	"strings"

	"golang.org/x/tools/go/packages"
)

func init() {
	areas["startup"] = area{
		pkgPath:   "github.com/yandex/pandora/core/engine",
		module:    "Startup",
		namespace: "Pandora.Gen.Startup",
		imports:   []string{"Pandora.Model.C12"},
		extra:     startupExtra,
	}
}

type startupSup struct {
	t   *tr
	pkg *packages.Package
	// role ("Ctx.start" | "Ctx.run") of context objects and of cancel-function objects / handle fields
	ctxRole    map[types.Object]string
	cancelRole map[types.Object]string
	fieldRole  map[string]string // field of poolAsyncRunHandle -> role (ctx or cancel)
}

func (x *startupSup) fail(n ast.Node, format string, a ...any) string {
	msg := fmt.Sprintf("%s: unsupported (startup area): %s", x.pkg.Fset.Position(n.Pos()), fmt.Sprintf(format, a...))
	x.t.errs = append(x.t.errs, msg)
	return "(UNSUPPORTED)"
}

func (x *startupSup) src(n ast.Node) string {
	var b bytes.Buffer
	_ = printer.Fprint(&b, x.pkg.Fset, n)
	return strings.Join(strings.Fields(b.String()), " ")
}

func startupFindMethod(p *packages.Package, recvType, name string) *ast.FuncDecl {
	for _, f := range p.Syntax {
		for _, d := range f.Decls {
			fd, ok := d.(*ast.FuncDecl)
			if !ok || fd.Recv == nil || fd.Name.Name != name || len(fd.Recv.List) != 1 {
				continue
			}
			ty := fd.Recv.List[0].Type
			if st, ok := ty.(*ast.StarExpr); ok {
				ty = st.X
			}
			if id, ok := ty.(*ast.Ident); ok && id.Name == recvType {
				return fd
			}
		}
	}
	return nil
}

func (x *startupSup) obj(e ast.Expr) types.Object {
	if id, ok := e.(*ast.Ident); ok {
		return x.pkg.TypesInfo.ObjectOf(id)
	}
	return nil
}

// isLog: a call on a *zap.Logger value (p.log.Info(…), log.With(…), ah.log.Debug(…)) or a statement built on one
func (x *startupSup) isLogCall(e ast.Expr) bool {
	c, ok := e.(*ast.CallExpr)
	if !ok {
		return false
	}
	sel, ok := c.Fun.(*ast.SelectorExpr)
	if !ok {
		return false
	}
	ty := x.pkg.TypesInfo.TypeOf(sel.X)
	if ty == nil {
		return false
	}
	s := ty.String()
	return s == "*go.uber.org/zap.Logger" || s == "*go.uber.org/zap/zapcore.CheckedEntry"
}

func startupHasReturn(n ast.Node) bool {
	found := false
	ast.Inspect(n, func(m ast.Node) bool {
		if _, ok := m.(*ast.FuncLit); ok {
			return false
		}
		if _, ok := m.(*ast.ReturnStmt); ok {
			found = true
		}
		return !found
	})
	return found
}

// paramObjs returns the objects of all parameters of fd, in order
func (x *startupSup) paramObjs(ft *ast.FuncType) []types.Object {
	var out []types.Object
	for _, f := range ft.Params.List {
		for _, n := range f.Names {
			out = append(out, x.pkg.TypesInfo.ObjectOf(n))
		}
	}
	return out
}

// ---------------------------------------------------------------- runAsync: roles

func (x *startupSup) roles(b *strings.Builder) (startArgs []string, builderArgs [2]string, ok bool) {
	fd := startupFindMethod(x.pkg, "instancePool", "runAsync")
	if fd == nil {
		x.t.errs = append(x.t.errs, "method (*instancePool).runAsync not found")
		return nil, builderArgs, false
	}
	type wc struct {
		ctx, cancel types.Object
		parent      ast.Expr
	}
	var wcs []wc
	var handle *ast.CompositeLit
	var startCall, builderCall *ast.CallExpr
	ast.Inspect(fd.Body, func(n ast.Node) bool {
		switch v := n.(type) {
		case *ast.AssignStmt:
			if len(v.Lhs) == 2 && len(v.Rhs) == 1 {
				if c, isCall := v.Rhs[0].(*ast.CallExpr); isCall && x.src(c.Fun) == "context.WithCancel" && len(c.Args) == 1 {
					wcs = append(wcs, wc{x.obj(v.Lhs[0]), x.obj(v.Lhs[1]), c.Args[0]})
				}
			}
		case *ast.CompositeLit:
			if x.src(v.Type) == "poolAsyncRunHandle" {
				handle = v
			}
		case *ast.CallExpr:
			switch x.src(v.Fun) {
			case "p.startInstances":
				startCall = v
			case "p.buildNewInstanceSchedule":
				builderCall = v
			}
		}
		return true
	})
	if handle == nil || startCall == nil || builderCall == nil || len(wcs) != 2 {
		x.fail(fd, "runAsync shape (handle literal, startInstances call, buildNewInstanceSchedule call, two context.WithCancel)")
		return nil, builderArgs, false
	}
	// the fields of the handle decide the roles
	for _, el := range handle.Elts {
		kv, isKv := el.(*ast.KeyValueExpr)
		if !isKv {
			x.fail(el, "handle literal must be keyed")
			return nil, builderArgs, false
		}
		key := x.src(kv.Key)
		o := x.obj(kv.Value)
		switch key {
		case "instanceStartCancel":
			x.cancelRole[o] = "Ctx.start"
		case "runCancel":
			x.cancelRole[o] = "Ctx.run"
		}
	}
	for _, w := range wcs {
		if r, has := x.cancelRole[w.cancel]; has {
			x.ctxRole[w.ctx] = r
		}
	}
	if len(x.ctxRole) != 2 || len(x.cancelRole) != 2 {
		x.fail(fd, "cannot resolve the start / run contexts from the handle fields instanceStartCancel / runCancel")
		return nil, builderArgs, false
	}
	for _, el := range handle.Elts {
		kv := el.(*ast.KeyValueExpr)
		o := x.obj(kv.Value)
		if r, has := x.ctxRole[o]; has {
			x.fieldRole[x.src(kv.Key)] = r
		} else if r, has := x.cancelRole[o]; has {
			x.fieldRole[x.src(kv.Key)] = r
		}
	}
	parent := ""
	for _, w := range wcs {
		if x.ctxRole[w.ctx] == "Ctx.start" {
			if r, has := x.ctxRole[x.obj(w.parent)]; has {
				parent = r
			}
		}
	}
	if parent == "" {
		x.fail(fd, "the instance-start context is not derived from one of the two contexts")
		return nil, builderArgs, false
	}
	b.WriteString("/-- regenerated from `core/engine/engine.go` `(*instancePool).runAsync`: the context the instance-start context is\nderived from by `context.WithCancel` (cancelling the parent cancels the child, never the reverse) -/\n")
	b.WriteString("def startCtxParent : Ctx := " + parent + "\n\n")
	if len(startCall.Args) < 2 || len(builderCall.Args) != 2 {
		x.fail(fd, "arity of startInstances / buildNewInstanceSchedule calls")
		return nil, builderArgs, false
	}
	for i := 0; i < 2; i++ {
		r, has := x.ctxRole[x.obj(startCall.Args[i])]
		if !has {
			x.fail(startCall.Args[i], "startInstances argument %d is not one of the two contexts", i)
			return nil, builderArgs, false
		}
		startArgs = append(startArgs, r)
	}
	b.WriteString("/-- regenerated from `runAsync`: the contexts `startInstances(startCtx, runCtx, …)` is called with -/\n")
	b.WriteString("def startInstancesCtxArgs : List Ctx := [" + strings.Join(startArgs, ", ") + "]\n\n")
	r0, has0 := x.ctxRole[x.obj(builderCall.Args[0])]
	r1, has1 := x.cancelRole[x.obj(builderCall.Args[1])]
	if !has0 || !has1 {
		x.fail(builderCall, "buildNewInstanceSchedule arguments are not (context, cancel function) of the two contexts")
		return nil, builderArgs, false
	}
	builderArgs = [2]string{r0, r1}
	b.WriteString("/-- regenerated from `runAsync`: `buildNewInstanceSchedule(ctx, cancel)` is given this context and the cancel\nfunction of this context -/\n")
	b.WriteString("def scheduleBuilderArgs : Ctx × Ctx := (" + r0 + ", " + r1 + ")\n\n")
	return startArgs, builderArgs, true
}

// ---------------------------------------------------------------- startInstances

type startupSiTr struct {
	x        *startupSup
	ctxOf    map[types.Object]string // parameter object -> role
	started  types.Object
	errObj   types.Object
	waiter   types.Object
	first    types.Object // the variable holding the synchronously created instance
	boolVars map[types.Object]bool
	intVars  map[types.Object]bool
	loopDef  string
}

func (s *startupSiTr) intExpr(e ast.Expr) string {
	x := s.x
	switch v := e.(type) {
	case *ast.ParenExpr:
		return s.intExpr(v.X)
	case *ast.BasicLit:
		if v.Kind == token.INT {
			return "(" + v.Value + " : Int)"
		}
	case *ast.Ident:
		o := x.obj(v)
		if o == s.started {
			return "started"
		}
		if s.intVars[o] {
			return mangle(v.Name)
		}
	case *ast.BinaryExpr:
		switch v.Op {
		case token.ADD:
			return "(" + s.intExpr(v.X) + " + " + s.intExpr(v.Y) + ")"
		case token.SUB:
			return "(" + s.intExpr(v.X) + " - " + s.intExpr(v.Y) + ")"
		case token.MUL:
			return "(" + s.intExpr(v.X) + " * " + s.intExpr(v.Y) + ")"
		}
	}
	return x.fail(e, "integer expression %s", x.src(e))
}

func (s *startupSiTr) ctxExpr(e ast.Expr) string {
	if r, ok := s.ctxOf[s.x.obj(e)]; ok {
		return r
	}
	return s.x.fail(e, "context expression %s (not a context parameter)", s.x.src(e))
}

// waitCall recognises `waiter.Wait(c)` and returns the role of c
func (s *startupSiTr) waitCall(e ast.Expr) (string, bool) {
	c, ok := e.(*ast.CallExpr)
	if !ok || len(c.Args) != 1 {
		return "", false
	}
	sel, ok := c.Fun.(*ast.SelectorExpr)
	if !ok || sel.Sel.Name != "Wait" || s.x.obj(sel.X) != s.waiter || s.waiter == nil {
		return "", false
	}
	return s.ctxExpr(c.Args[0]), true
}

func (s *startupSiTr) boolExpr(e ast.Expr) string {
	x := s.x
	switch v := e.(type) {
	case *ast.ParenExpr:
		return s.boolExpr(v.X)
	case *ast.Ident:
		if s.boolVars[x.obj(v)] {
			return mangle(v.Name)
		}
	case *ast.UnaryExpr:
		if v.Op == token.NOT {
			return "(!" + s.boolExpr(v.X) + ")"
		}
	case *ast.BinaryExpr:
		if (v.Op == token.NEQ || v.Op == token.EQL) && x.obj(v.X) == s.errObj && x.src(v.Y) == "nil" {
			if v.Op == token.NEQ {
				return "(err != StartErr.none)"
			}
			return "(err == StartErr.none)"
		}
	}
	return x.fail(e, "condition %s", x.src(e))
}

const startupSiRes = "{ acts := acts, started := started, err := err, returned := %s }"

// goStmt: go func() { runRes <- instanceRunResult{ID, V} }()
func (s *startupSiTr) goStmt(g *ast.GoStmt) string {
	x := s.x
	fl, ok := g.Call.Fun.(*ast.FuncLit)
	if !ok || len(g.Call.Args) != 0 || len(fl.Body.List) != 1 {
		return x.fail(g, "go statement shape")
	}
	send, ok := fl.Body.List[0].(*ast.SendStmt)
	if !ok {
		return x.fail(g, "go statement must send one run result")
	}
	cl, ok := send.Value.(*ast.CompositeLit)
	if !ok || x.src(cl.Type) != "instanceRunResult" || len(cl.Elts) != 2 {
		return x.fail(g, "run result literal")
	}
	idE, val := cl.Elts[0], cl.Elts[1]
	if kv, isKv := idE.(*ast.KeyValueExpr); isKv {
		idE = kv.Value
	}
	if kv, isKv := val.(*ast.KeyValueExpr); isKv {
		val = kv.Value
	}
	call, ok := val.(*ast.CallExpr)
	if !ok {
		return x.fail(g, "run result value")
	}
	if id, isId := call.Fun.(*ast.Ident); isId && id.Name == "runNewInstance" && len(call.Args) == 5 {
		return "Act.goRunNew " + s.ctxExpr(call.Args[0]) + " " + s.intExpr(call.Args[3])
	}
	if inner, isFl := call.Fun.(*ast.FuncLit); isFl && len(call.Args) == 0 {
		// func() error { defer first.Close(); return first.Run(c) }()
		var ret *ast.ReturnStmt
		for _, st := range inner.Body.List {
			switch v := st.(type) {
			case *ast.DeferStmt:
			case *ast.ReturnStmt:
				ret = v
			default:
				return x.fail(st, "statement in the first instance's run closure")
			}
		}
		if ret != nil && len(ret.Results) == 1 {
			if rc, isCall := ret.Results[0].(*ast.CallExpr); isCall && len(rc.Args) == 1 {
				if sel, isSel := rc.Fun.(*ast.SelectorExpr); isSel && sel.Sel.Name == "Run" && x.obj(sel.X) == s.first && s.first != nil {
					return "Act.goRunFirst " + s.ctxExpr(rc.Args[0]) + " " + s.intExpr(idE)
				}
			}
		}
	}
	return x.fail(g, "run result value %s", x.src(val))
}

// simple translates one statement without control flow into `let` lines; ok=false if it is not such a statement
func (s *startupSiTr) simple(st ast.Stmt, ind string) (string, bool) {
	x := s.x
	switch v := st.(type) {
	case *ast.IncDecStmt:
		if x.obj(v.X) == s.started && v.Tok == token.INC {
			return ind + "let started : Int := started + 1\n", true
		}
		if x.obj(v.X) == s.started && v.Tok == token.DEC {
			return ind + "let started : Int := started - 1\n", true
		}
	case *ast.ExprStmt:
		if x.isLogCall(v.X) {
			return "", true
		}
	case *ast.GoStmt:
		return ind + "let acts : List Act := acts ++ [" + s.goStmt(v) + "]\n", true
	case *ast.AssignStmt:
		if len(v.Lhs) == 1 && len(v.Rhs) == 1 {
			lo := x.obj(v.Lhs[0])
			// err = c.Err()
			if lo == s.errObj && v.Tok == token.ASSIGN {
				if c, isCall := v.Rhs[0].(*ast.CallExpr); isCall && len(c.Args) == 0 {
					if sel, isSel := c.Fun.(*ast.SelectorExpr); isSel && sel.Sel.Name == "Err" {
						return ind + "let err : StartErr := StartErr.ofCtx " + s.ctxExpr(sel.X) + "\n", true
					}
				}
			}
			if lo == s.started && v.Tok == token.ASSIGN {
				return ind + "let started : Int := " + s.intExpr(v.Rhs[0]) + "\n", true
			}
			if lo == s.started && (v.Tok == token.ADD_ASSIGN || v.Tok == token.SUB_ASSIGN) {
				op := map[token.Token]string{token.ADD_ASSIGN: "+", token.SUB_ASSIGN: "-"}[v.Tok]
				return ind + "let started : Int := started " + op + " " + s.intExpr(v.Rhs[0]) + "\n", true
			}
			if v.Tok == token.DEFINE {
				if id, isId := v.Lhs[0].(*ast.Ident); isId {
					ty := x.pkg.TypesInfo.TypeOf(v.Rhs[0])
					switch {
					case ty != nil && isInt(ty):
						r := s.intExpr(v.Rhs[0])
						s.intVars[lo] = true
						return ind + "let " + mangle(id.Name) + " : Int := " + r + "\n", true
					case x.src(v.Rhs[0]) == "coreutil.NewWaiter(p.StartupSchedule)" || strings.HasPrefix(x.src(v.Rhs[0]), "coreutil.NewWaiter("):
						s.waiter = lo
						return "", true
					}
					if _, isLit := v.Rhs[0].(*ast.CompositeLit); isLit && id.Name == "deps" {
						return "", true
					}
				}
			}
		}
		// first, err := newInstance(c, log, poolID, id, deps)
		if len(v.Lhs) == 2 && len(v.Rhs) == 1 && x.obj(v.Lhs[1]) == s.errObj {
			if c, isCall := v.Rhs[0].(*ast.CallExpr); isCall && len(c.Args) == 5 {
				if id, isId := c.Fun.(*ast.Ident); isId && id.Name == "newInstance" {
					s.first = x.obj(v.Lhs[0])
					return ind + "let acts : List Act := acts ++ [Act.newInstance " + s.ctxExpr(c.Args[0]) + " " + s.intExpr(c.Args[3]) + "]\n" +
						ind + "let err : StartErr := if firstOk then StartErr.none else StartErr.create\n", true
				}
			}
		}
	}
	return "", false
}

// seq translates a statement list that ends the function. inLoop: we are in the body of the Wait loop; after the body
// comes `post` and the recursive call.
func (s *startupSiTr) seq(stmts []ast.Stmt, ind string, tail func(ind string) string) string {
	x := s.x
	if len(stmts) == 0 {
		return tail(ind)
	}
	st, rest := stmts[0], stmts[1:]
	if txt, ok := s.simple(st, ind); ok {
		return txt + s.seq(rest, ind, tail)
	}
	switch v := st.(type) {
	case *ast.ReturnStmt:
		if len(v.Results) == 0 {
			return ind + fmt.Sprintf(startupSiRes, "true") + "\n"
		}
	case *ast.AssignStmt:
		// ok := waiter.Wait(c)
		if len(v.Lhs) == 1 && len(v.Rhs) == 1 && v.Tok == token.DEFINE {
			if role, isWait := s.waitCall(v.Rhs[0]); isWait {
				id := v.Lhs[0].(*ast.Ident)
				s.boolVars[x.obj(id)] = true
				return ind + "match waits with\n" + ind + "| [] => " + fmt.Sprintf(startupSiRes, "false") + "\n" + ind + "| w :: waits =>\n" +
					ind + "let " + mangle(id.Name) + " : Bool := w " + role + "\n" + s.seq(rest, ind, tail)
			}
		}
	case *ast.IfStmt:
		if v.Init != nil {
			// `if x := e; cond { … }` is `x := e` followed by `if cond { … }` (a local declared there is not used after the statement)
			cp := *v
			cp.Init = nil
			return s.seq(append([]ast.Stmt{v.Init, &cp}, rest...), ind, tail)
		}
		if v.Else == nil && len(v.Body.List) > 0 {
			if _, isRet := v.Body.List[len(v.Body.List)-1].(*ast.ReturnStmt); isRet {
				// `if !waiter.Wait(c) { …; return }`: the call in the condition consumes the next oracle answer
				if un, isNot := v.Cond.(*ast.UnaryExpr); isNot && un.Op == token.NOT {
					if role, isWait := s.waitCall(un.X); isWait {
						return ind + "match waits with\n" + ind + "| [] => " + fmt.Sprintf(startupSiRes, "false") + "\n" + ind + "| w :: waits =>\n" +
							ind + "if (!(w " + role + ")) then\n" + s.seq(v.Body.List, ind+"  ", tail) + ind + "else\n" + s.seq(rest, ind, tail)
					}
				}
				return ind + "if " + s.boolExpr(v.Cond) + " then\n" + s.seq(v.Body.List, ind+"  ", tail) + ind + "else\n" + s.seq(rest, ind, tail)
			}
		}
	case *ast.ForStmt:
		// for ; waiter.Wait(c); post { body }  followed by the exit statements
		if v.Init == nil && v.Cond != nil && s.loopDef == "" {
			if role, isWait := s.waitCall(v.Cond); isWait {
				var post []ast.Stmt
				if v.Post != nil {
					post = []ast.Stmt{v.Post}
				}
				var d strings.Builder
				d.WriteString("/-- regenerated from `startInstances`: the `for ; waiter.Wait(…); … { … }` loop and the statements after it -/\n")
				d.WriteString("def startInstances_loop (firstOk : Bool) (acts : List Act) (started : Int) (err : StartErr) : List (Ctx → Bool) → StartRes\n")
				d.WriteString("  | [] => " + fmt.Sprintf(startupSiRes, "false") + "\n")
				d.WriteString("  | w :: waits =>\n    if w " + role + " then\n")
				d.WriteString(s.seq(append(append([]ast.Stmt{}, v.Body.List...), post...), "      ", func(ind string) string {
					return ind + "startInstances_loop firstOk acts started err waits\n"
				}))
				d.WriteString("    else\n")
				d.WriteString(s.seq(rest, "      ", func(ind string) string { return ind + x.fail(v, "startInstances must end in return") + "\n" }))
				s.loopDef = d.String()
				return ind + "startInstances_loop firstOk acts started err waits\n"
			}
		}
	}
	return ind + x.fail(st, "statement %s", x.src(st)) + "\n"
}

func (x *startupSup) startInstances(b *strings.Builder, startArgs []string) {
	fd := startupFindMethod(x.pkg, "instancePool", "startInstances")
	if fd == nil {
		x.t.errs = append(x.t.errs, "method (*instancePool).startInstances not found")
		return
	}
	ps := x.paramObjs(fd.Type)
	if len(ps) < 2 || fd.Type.Results == nil {
		x.fail(fd, "startInstances signature")
		return
	}
	s := &startupSiTr{x: x, ctxOf: map[types.Object]string{ps[0]: startArgs[0], ps[1]: startArgs[1]}, boolVars: map[types.Object]bool{}, intVars: map[types.Object]bool{}}
	// named results (started int, err error)
	for _, f := range fd.Type.Results.List {
		for _, n := range f.Names {
			o := x.pkg.TypesInfo.ObjectOf(n)
			if isInt(o.Type()) {
				s.started = o
			} else {
				s.errObj = o
			}
		}
	}
	if s.started == nil || s.errObj == nil {
		x.fail(fd, "startInstances must have named results (started int, err error)")
		return
	}
	// the schedule the waiter is built on
	sched := ""
	ast.Inspect(fd.Body, func(n ast.Node) bool {
		if c, ok := n.(*ast.CallExpr); ok && x.src(c.Fun) == "coreutil.NewWaiter" && len(c.Args) == 1 {
			sched = x.src(c.Args[0])
		}
		return true
	})
	body := s.seq(fd.Body.List, "  ", func(ind string) string { return ind + x.fail(fd, "startInstances must end in return") + "\n" })
	b.WriteString("/-- regenerated from `core/engine/engine.go` `(*instancePool).startInstances`: the schedule the startup Waiter draws from -/\n")
	b.WriteString(fmt.Sprintf("def waiterSchedule : String := %q\n\n", sched))
	b.WriteString(s.loopDef + "\n")
	b.WriteString("/-- regenerated from `core/engine/engine.go` `(*instancePool).startInstances` (firstOk: the synchronous `newInstance`\nsucceeds; waits: results of the successive `waiter.Wait(·)` calls as functions of the context given) -/\n")
	b.WriteString("def startInstances (firstOk : Bool) (waits : List (Ctx → Bool)) : StartRes :=\n")
	b.WriteString("  let started : Int := 0\n  let err : StartErr := StartErr.none\n  let acts : List Act := []\n")
	b.WriteString(body + "\n")
}

// ---------------------------------------------------------------- runNewInstance / newInstance

func (x *startupSup) passThrough(b *strings.Builder) {
	// runNewInstance(ctx, log, poolID, id, deps)
	fd := findFunc(x.pkg, "runNewInstance")
	if fd == nil {
		x.t.errs = append(x.t.errs, "func runNewInstance not found")
		return
	}
	ps := x.paramObjs(fd.Type)
	if len(ps) != 5 {
		x.fail(fd, "runNewInstance signature")
		return
	}
	ctxP, idP := ps[0], ps[3]
	ctxE := func(e ast.Expr) string {
		if x.obj(e) == ctxP {
			return "ctx"
		}
		return x.fail(e, "context %s is not the ctx parameter", x.src(e))
	}
	var idE func(e ast.Expr, idP types.Object) string
	idE = func(e ast.Expr, idP types.Object) string {
		switch v := e.(type) {
		case *ast.ParenExpr:
			return idE(v.X, idP)
		case *ast.Ident:
			if x.obj(v) == idP {
				return "id"
			}
		case *ast.BasicLit:
			if v.Kind == token.INT {
				return "(" + v.Value + " : Int)"
			}
		case *ast.BinaryExpr:
			if v.Op == token.ADD || v.Op == token.SUB {
				return "(" + idE(v.X, idP) + " " + v.Op.String() + " " + idE(v.Y, idP) + ")"
			}
		}
		return x.fail(e, "id expression %s", x.src(e))
	}
	var newCall, runCall *ast.CallExpr
	ast.Inspect(fd.Body, func(n ast.Node) bool {
		if c, ok := n.(*ast.CallExpr); ok {
			if id, isId := c.Fun.(*ast.Ident); isId && id.Name == "newInstance" {
				newCall = c
			}
			if sel, isSel := c.Fun.(*ast.SelectorExpr); isSel && sel.Sel.Name == "Run" {
				runCall = c
			}
		}
		return true
	})
	if newCall == nil || runCall == nil || len(newCall.Args) != 5 || len(runCall.Args) != 1 {
		x.fail(fd, "runNewInstance shape")
		return
	}
	b.WriteString("/-- regenerated from `core/engine/engine.go` `runNewInstance`: (context given to newInstance, id given to newInstance,\ncontext given to instance.Run) -/\n")
	b.WriteString("def runNewInstance (ctx : Ctx) (id : Int) : Ctx × Int × Ctx := (" + ctxE(newCall.Args[0]) + ", " + idE(newCall.Args[3], idP) + ", " + ctxE(runCall.Args[0]) + ")\n\n")

	// newInstance(ctx, log, poolID, id, deps): GunDeps{Ctx: …, InstanceID: …}, &instance{id: …}
	fd = findFunc(x.pkg, "newInstance")
	if fd == nil {
		x.t.errs = append(x.t.errs, "func newInstance not found")
		return
	}
	ps = x.paramObjs(fd.Type)
	if len(ps) != 5 {
		x.fail(fd, "newInstance signature")
		return
	}
	ctxP = ps[0]
	idP2 := ps[3]
	gunCtx, gunID, instID := "", "", ""
	ast.Inspect(fd.Body, func(n ast.Node) bool {
		cl, ok := n.(*ast.CompositeLit)
		if !ok {
			return true
		}
		switch x.src(cl.Type) {
		case "core.GunDeps":
			for _, el := range cl.Elts {
				if kv, isKv := el.(*ast.KeyValueExpr); isKv {
					switch x.src(kv.Key) {
					case "Ctx":
						gunCtx = ctxE(kv.Value)
					case "InstanceID":
						gunID = idE(kv.Value, idP2)
					}
				}
			}
		case "instance":
			for _, el := range cl.Elts {
				if kv, isKv := el.(*ast.KeyValueExpr); isKv && x.src(kv.Key) == "id" {
					instID = idE(kv.Value, idP2)
				}
			}
		}
		return true
	})
	if gunCtx == "" || gunID == "" || instID == "" {
		x.fail(fd, "newInstance shape (GunDeps{Ctx, InstanceID}, instance{id})")
		return
	}
	b.WriteString("/-- regenerated from `core/engine/instance.go` `newInstance`: (GunDeps.Ctx, GunDeps.InstanceID, instance.id) -/\n")
	b.WriteString("def newInstance (ctx : Ctx) (id : Int) : Ctx × Int × Int := (" + gunCtx + ", " + gunID + ", " + instID + ")\n\n")
}

// ---------------------------------------------------------------- pool actions (awaitRun, finish callback)

type startupPaTr struct {
	x *startupSup
	// call source text -> Lean list of PoolAct
	calls func(c *ast.CallExpr) (string, bool)
	// condition atoms
	atom func(e ast.Expr) (string, bool)
	// <-X.Done() role
	doneRole func(e ast.Expr) (string, bool)
}

func (p *startupPaTr) cond(e ast.Expr) string {
	x := p.x
	if a, ok := p.atom(e); ok {
		return a
	}
	switch v := e.(type) {
	case *ast.ParenExpr:
		return p.cond(v.X)
	case *ast.UnaryExpr:
		if v.Op == token.NOT {
			return "(!" + p.cond(v.X) + ")"
		}
	case *ast.BinaryExpr:
		if v.Op == token.LAND {
			return "(" + p.cond(v.X) + " && " + p.cond(v.Y) + ")"
		}
		if v.Op == token.LOR {
			return "(" + p.cond(v.X) + " || " + p.cond(v.Y) + ")"
		}
	}
	return x.fail(e, "condition %s", x.src(e))
}

// acts translates a statement list into a Lean `List PoolAct` term
func (p *startupPaTr) acts(stmts []ast.Stmt) string {
	x := p.x
	var parts []string
	for i, st := range stmts {
		switch v := st.(type) {
		case *ast.ReturnStmt:
			if len(v.Results) == 0 {
				goto done
			}
			parts = append(parts, x.fail(st, "return with values"))
		case *ast.IncDecStmt:
			// counters of the await loop
		case *ast.ExprStmt:
			if x.isLogCall(v.X) {
				continue
			}
			if c, ok := v.X.(*ast.CallExpr); ok {
				if a, ok := p.calls(c); ok {
					if a != "" {
						parts = append(parts, a)
					}
					continue
				}
			}
			parts = append(parts, x.fail(st, "statement %s", x.src(st)))
		case *ast.IfStmt:
			if v.Init != nil {
				// `if ent := ah.log.Check(…); ent != nil { ent.Write(…) }`
				if as, ok := v.Init.(*ast.AssignStmt); ok && len(as.Rhs) == 1 && x.isLogCall(as.Rhs[0]) {
					continue
				}
				parts = append(parts, x.fail(st, "if with init"))
				continue
			}
			th := p.acts(v.Body.List)
			el := "[]"
			switch e := v.Else.(type) {
			case nil:
			case *ast.BlockStmt:
				el = p.acts(e.List)
			case *ast.IfStmt:
				el = p.acts([]ast.Stmt{e})
			}
			// an if whose then-branch returns: the rest belongs to the else branch
			if len(v.Body.List) > 0 && v.Else == nil {
				if _, isRet := v.Body.List[len(v.Body.List)-1].(*ast.ReturnStmt); isRet {
					el = p.acts(stmts[i+1:])
					parts = append(parts, "(if "+p.cond(v.Cond)+" then "+th+" else "+el+")")
					goto done
				}
			}
			parts = append(parts, "(if "+p.cond(v.Cond)+" then "+th+" else "+el+")")
		case *ast.SelectStmt:
			// select { case <-c.Done(): A; default: B }
			var doneBody, defBody []ast.Stmt
			role := ""
			okShape := len(v.Body.List) == 2
			for _, cl := range v.Body.List {
				cc := cl.(*ast.CommClause)
				if cc.Comm == nil {
					defBody = cc.Body
					continue
				}
				es, isEs := cc.Comm.(*ast.ExprStmt)
				if !isEs {
					okShape = false
					continue
				}
				r, isDone := p.doneRole(es.X)
				if !isDone {
					okShape = false
					continue
				}
				role = r
				doneBody = cc.Body
			}
			if !okShape || role == "" {
				parts = append(parts, x.fail(st, "select shape"))
				continue
			}
			parts = append(parts, "(if ctxDone "+role+" then "+p.acts(doneBody)+" else "+p.acts(defBody)+")")
		default:
			parts = append(parts, x.fail(st, "statement %s", x.src(st)))
		}
	}
done:
	if len(parts) == 0 {
		return "[]"
	}
	return "(" + strings.Join(parts, " ++ ") + ")"
}

func (x *startupSup) awaitRun(b *strings.Builder) {
	fd := startupFindMethod(x.pkg, "runAwaitHandle", "awaitRun")
	if fd == nil {
		x.t.errs = append(x.t.errs, "method (*runAwaitHandle).awaitRun not found")
		return
	}
	recv := fd.Recv.List[0].Names[0].Name
	var clause *ast.CommClause
	resName := ""
	ast.Inspect(fd.Body, func(n ast.Node) bool {
		cc, ok := n.(*ast.CommClause)
		if !ok || cc.Comm == nil {
			return true
		}
		if as, isAs := cc.Comm.(*ast.AssignStmt); isAs && len(as.Rhs) == 1 && x.src(as.Rhs[0]) == "<-"+recv+".runRes" {
			clause = cc
			resName = x.src(as.Lhs[0])
		}
		return true
	})
	if clause == nil {
		x.fail(fd, "case res := <-%s.runRes not found", recv)
		return
	}
	p := &startupPaTr{x: x}
	p.atom = func(e ast.Expr) (string, bool) {
		s := x.src(e)
		switch s {
		case resName + ".Err == outOfAmmoErr":
			return "outOfAmmo", true
		case resName + ".Err != outOfAmmoErr":
			return "(!outOfAmmo)", true
		case recv + ".isStartFinished()":
			return "startFinished", true
		}
		if c, ok := e.(*ast.CallExpr); ok && x.src(c.Fun) == "errutil.IsCtxError" && len(c.Args) == 2 && x.src(c.Args[1]) == resName+".Err" {
			if sel, isSel := c.Args[0].(*ast.SelectorExpr); isSel && x.src(sel.X) == recv {
				if r, has := x.fieldRole[sel.Sel.Name]; has {
					return "(isCtxErr " + r + ")", true
				}
			}
		}
		return "", false
	}
	p.calls = func(c *ast.CallExpr) (string, bool) {
		sel, ok := c.Fun.(*ast.SelectorExpr)
		if !ok || x.src(sel.X) != recv {
			return "", false
		}
		switch sel.Sel.Name {
		case "onErrAwaited":
			return "[PoolAct.reportErr]", true
		case "checkAllInstancesAreFinished":
			return "", true
		}
		if r, has := x.fieldRole[sel.Sel.Name]; has && strings.HasSuffix(sel.Sel.Name, "Cancel") && len(c.Args) == 0 {
			return "[PoolAct.cancel " + r + "]", true
		}
		return "", false
	}
	p.doneRole = func(ast.Expr) (string, bool) { return "", false }
	b.WriteString("/-- regenerated from `core/engine/engine.go` `(*runAwaitHandle).awaitRun`, case `res := <-ah.runRes`: what the pool does\nwith the result of an instance (outOfAmmo: `res.Err == outOfAmmoErr`; startFinished: `ah.isStartFinished()`;\nisCtxErr c: `errutil.IsCtxError(<context c>, res.Err)`) -/\n")
	b.WriteString("def onInstanceResult (outOfAmmo startFinished : Bool) (isCtxErr : Ctx → Bool) : List PoolAct :=\n  " + p.acts(clause.Body) + "\n\n")

	// who calls runCancel
	var callers []string
	for _, f := range x.pkg.Syntax {
		for _, d := range f.Decls {
			fd, ok := d.(*ast.FuncDecl)
			if !ok || fd.Body == nil {
				continue
			}
			ast.Inspect(fd.Body, func(n ast.Node) bool {
				if c, ok := n.(*ast.CallExpr); ok {
					if sel, isSel := c.Fun.(*ast.SelectorExpr); isSel && sel.Sel.Name == "runCancel" {
						callers = append(callers, fmt.Sprintf("%q", fd.Name.Name))
					}
				}
				return true
			})
		}
	}
	b.WriteString("/-- regenerated from `core/engine`: the functions that call the run context's cancel function `runCancel()` -/\n")
	b.WriteString("def runCancelCallers : List String := [" + strings.Join(callers, ", ") + "]\n\n")
}

// ---------------------------------------------------------------- Engine.Run: when the engine returns (and so cancels every pool)

func (x *startupSup) startupEngInt(e ast.Expr, iName string) string {
	switch v := e.(type) {
	case *ast.ParenExpr:
		return x.startupEngInt(v.X, iName)
	case *ast.Ident:
		if v.Name == iName {
			return "i"
		}
	case *ast.BasicLit:
		if v.Kind == token.INT {
			return "(" + v.Value + " : Int)"
		}
	case *ast.CallExpr:
		if strings.HasPrefix(x.src(v), "len(") && strings.HasSuffix(x.src(v), ".config.Pools)") {
			return "nPools"
		}
	case *ast.BinaryExpr:
		if v.Op == token.ADD || v.Op == token.SUB {
			return "(" + x.startupEngInt(v.X, iName) + " " + v.Op.String() + " " + x.startupEngInt(v.Y, iName) + ")"
		}
	}
	return x.fail(e, "engine loop bound %s", x.src(e))
}

// startupEngBody: what a statement list of the await loop of Engine.Run does: "ret:<EngRet>" when every path returns, "" when it
// falls through
func (x *startupSup) startupEngBody(stmts []ast.Stmt, resName string, failedCtx bool) string {
	for _, st := range stmts {
		switch v := st.(type) {
		case *ast.ExprStmt:
			if x.isLogCall(v.X) {
				continue
			}
		case *ast.ReturnStmt:
			if len(v.Results) == 1 {
				r := x.src(v.Results[0])
				switch {
				case r == "nil":
					return "EngRet.ok"
				case strings.HasSuffix(r, ".Err()"):
					return "EngRet.cancelled"
				case failedCtx:
					return "EngRet.failed"
				}
			}
		case *ast.SelectStmt:
			// `select { case <-ctx.Done(): return ctx.Err(); default: }` inside the error branch: which error is returned, not whether
			continue
		case *ast.IfStmt:
			if v.Init == nil && v.Else == nil && x.src(v.Cond) == resName+".Err != nil" {
				inner := x.startupEngBody(v.Body.List, resName, true)
				if inner == "" {
					x.fail(st, "the error branch of the engine's await loop does not return")
					return ""
				}
				rest := x.startupEngBody(stmts[startupIndexOfStmt(stmts, st)+1:], resName, failedCtx)
				if rest == "" {
					rest = "CONTINUE"
				}
				return "IF " + inner + " ELSE " + rest
			}
		}
		x.fail(st, "statement of the engine's await loop %s", x.src(st))
		return ""
	}
	return ""
}

func startupIndexOfStmt(stmts []ast.Stmt, st ast.Stmt) int {
	for i, s := range stmts {
		if s == st {
			return i
		}
	}
	return -1
}

func (x *startupSup) engineRun(b *strings.Builder) {
	fd := startupFindMethod(x.pkg, "Engine", "Run")
	if fd == nil {
		x.t.errs = append(x.t.errs, "method (*Engine).Run not found")
		return
	}
	var loop *ast.ForStmt
	var after []ast.Stmt
	for i, st := range fd.Body.List {
		if f, ok := st.(*ast.ForStmt); ok && f.Init != nil && f.Cond != nil {
			if _, isSel := f.Body.List[0].(*ast.SelectStmt); isSel && len(f.Body.List) == 1 {
				loop = f
				after = fd.Body.List[i+1:]
			}
		}
	}
	if loop == nil {
		x.fail(fd, "Engine.Run: await loop `for i := 0; i < len(e.config.Pools); i++ { select {…} }` not found")
		return
	}
	iName := ""
	if as, ok := loop.Init.(*ast.AssignStmt); ok && len(as.Lhs) == 1 && len(as.Rhs) == 1 && x.src(as.Rhs[0]) == "0" {
		iName = x.src(as.Lhs[0])
	}
	inc, isInc := loop.Post.(*ast.IncDecStmt)
	if iName == "" || !isInc || inc.Tok != token.INC || x.src(inc.X) != iName {
		x.fail(loop, "Engine.Run: loop header")
		return
	}
	cond := ""
	if be, ok := loop.Cond.(*ast.BinaryExpr); ok {
		op := map[token.Token]string{token.LSS: "<", token.LEQ: "≤", token.NEQ: "≠"}[be.Op]
		if op != "" {
			cond = "(" + x.startupEngInt(be.X, iName) + " " + op + " " + x.startupEngInt(be.Y, iName) + ")"
		}
	}
	if cond == "" {
		x.fail(loop.Cond, "Engine.Run: loop condition %s", x.src(loop.Cond))
		return
	}
	resCase, doneCase := "", ""
	for _, cl := range loop.Body.List[0].(*ast.SelectStmt).Body.List {
		cc := cl.(*ast.CommClause)
		switch c := cc.Comm.(type) {
		case *ast.AssignStmt:
			if len(c.Rhs) == 1 && x.src(c.Rhs[0]) == "<-runRes" {
				resCase = x.startupEngBody(cc.Body, x.src(c.Lhs[0]), false)
				if resCase == "" {
					resCase = "CONTINUE"
				}
				continue
			}
		case *ast.ExprStmt:
			if x.src(c.X) == "<-ctx.Done()" {
				doneCase = x.startupEngBody(cc.Body, "", false)
				continue
			}
		}
		x.fail(cl, "Engine.Run: select case")
	}
	afterRet := x.startupEngBody(after, "", false)
	if resCase == "" || doneCase == "" || afterRet == "" || strings.Contains(doneCase, "IF") {
		x.fail(fd, "Engine.Run: shape of the await loop (result case / ctx.Done case / return after the loop)")
		return
	}
	ret := func(r string) string { return "{ awaited := i, ret := some " + r + " }" }
	leaf := func(s string) string {
		if s == "CONTINUE" {
			return "engineRun nPools (i + 1) rest"
		}
		return ret(s)
	}
	resLean := ""
	if strings.HasPrefix(resCase, "IF ") {
		parts := strings.SplitN(strings.TrimPrefix(resCase, "IF "), " ELSE ", 2)
		resLean = "if !errNil then " + leaf(parts[0]) + " else " + leaf(parts[1])
	} else {
		resLean = leaf(resCase)
	}
	// the deferred cancel(): `ctx, cancel := context.WithCancel(ctx)` first, a deferred call of that cancel, and every pool is run with
	// that derived context
	var engCtx, engCancel types.Object
	defers, poolsGetIt := false, false
	for _, st := range fd.Body.List {
		switch v := st.(type) {
		case *ast.AssignStmt:
			if len(v.Lhs) == 2 && len(v.Rhs) == 1 && engCtx == nil {
				if c, isCall := v.Rhs[0].(*ast.CallExpr); isCall && x.src(c.Fun) == "context.WithCancel" && len(c.Args) == 1 {
					ps := x.paramObjs(fd.Type)
					if len(ps) == 1 && x.obj(c.Args[0]) == ps[0] {
						engCtx, engCancel = x.obj(v.Lhs[0]), x.obj(v.Lhs[1])
					}
				}
			}
		case *ast.DeferStmt:
			ast.Inspect(v, func(n ast.Node) bool {
				if c, ok := n.(*ast.CallExpr); ok && len(c.Args) == 0 && engCancel != nil && x.obj(c.Fun) == engCancel {
					defers = true
				}
				return true
			})
		}
	}
	nRun, nRunWithCtx := 0, 0
	ast.Inspect(fd.Body, func(n ast.Node) bool {
		if c, ok := n.(*ast.CallExpr); ok && len(c.Args) == 1 {
			if sel, isSel := c.Fun.(*ast.SelectorExpr); isSel && sel.Sel.Name == "Run" {
				if ty := x.pkg.TypesInfo.TypeOf(sel.X); ty != nil && strings.HasSuffix(ty.String(), "engine.instancePool") {
					nRun++
					if engCtx != nil && x.obj(c.Args[0]) == engCtx {
						nRunWithCtx++
					}
				}
			}
		}
		return true
	})
	poolsGetIt = nRun > 0 && nRun == nRunWithCtx
	b.WriteString("/-- regenerated from `(*Engine).Run`: it derives its context with `context.WithCancel` from the caller's, a deferred function calls\nthat `cancel()`, and every pool's `Run` is given the derived context: returning cancels every pool -/\n")
	b.WriteString(fmt.Sprintf("def engineReturnCancelsPools : Bool := %v\n\n", defers && poolsGetIt))
	b.WriteString("/-- regenerated from `core/engine/engine.go` `(*Engine).Run`: the loop that awaits the pools, as a function of the number of\npools and of what its successive iterations receive (a pool result with or without error, or the engine context done);\nreturning — with any result — cancels the context of EVERY pool (the deferred `cancel()`) -/\n")
	b.WriteString("def engineRun (nPools : Int) (i : Int) : List EngEv → EngRes\n")
	b.WriteString("  | [] => if " + cond + " then { awaited := i, ret := none } else " + ret(afterRet) + "\n")
	b.WriteString("  | ev :: rest =>\n    if " + cond + " then\n      match ev with\n      | EngEv.result errNil => " + resLean + "\n      | EngEv.ctxDone => " + ret(doneCase) + "\n    else " + ret(afterRet) + "\n\n")
}

// ---------------------------------------------------------------- the counters of the await loop

// startupCaseOf finds `case <res> := <-<recv>.<ch>:` in fd
func (x *startupSup) startupCaseOf(fd *ast.FuncDecl, recv, ch string) (*ast.CommClause, string) {
	var clause *ast.CommClause
	resName := ""
	ast.Inspect(fd.Body, func(n ast.Node) bool {
		cc, ok := n.(*ast.CommClause)
		if !ok || cc.Comm == nil {
			return true
		}
		if as, isAs := cc.Comm.(*ast.AssignStmt); isAs && len(as.Rhs) == 1 && x.src(as.Rhs[0]) == "<-"+recv+"."+ch {
			clause = cc
			resName = x.src(as.Lhs[0])
		}
		return true
	})
	return clause, resName
}

// startupAwaitCond translates the "all finished" condition over the counters of the handle
func (x *startupSup) startupAwaitCond(e ast.Expr, recv string, local map[string]ast.Expr) string {
	switch v := e.(type) {
	case *ast.ParenExpr:
		return x.startupAwaitCond(v.X, recv, local)
	case *ast.Ident:
		if d, ok := local[v.Name]; ok {
			return x.startupAwaitCond(d, recv, local)
		}
	case *ast.UnaryExpr:
		if v.Op == token.NOT {
			return "(!" + x.startupAwaitCond(v.X, recv, local) + ")"
		}
	case *ast.CallExpr:
		if x.src(v) == recv+".isStartFinished()" {
			return "a.startFinished"
		}
	case *ast.BinaryExpr:
		switch v.Op {
		case token.LAND:
			return "(" + x.startupAwaitCond(v.X, recv, local) + " && " + x.startupAwaitCond(v.Y, recv, local) + ")"
		case token.LOR:
			return "(" + x.startupAwaitCond(v.X, recv, local) + " || " + x.startupAwaitCond(v.Y, recv, local) + ")"
		case token.GEQ, token.LEQ, token.LSS, token.GTR, token.EQL, token.NEQ:
			op := map[token.Token]string{token.GEQ: "≥", token.LEQ: "≤", token.LSS: "<", token.GTR: ">", token.EQL: "=", token.NEQ: "≠"}[v.Op]
			return "decide (" + x.startupAwaitInt(v.X, recv) + " " + op + " " + x.startupAwaitInt(v.Y, recv) + ")"
		}
	}
	return x.fail(e, "all-finished condition %s", x.src(e))
}

func (x *startupSup) startupAwaitInt(e ast.Expr, recv string) string {
	switch v := e.(type) {
	case *ast.ParenExpr:
		return x.startupAwaitInt(v.X, recv)
	case *ast.BasicLit:
		if v.Kind == token.INT {
			return "(" + v.Value + " : Int)"
		}
	case *ast.SelectorExpr:
		switch x.src(v) {
		case recv + ".awaitedInstances":
			return "a.awaited"
		case recv + ".startedInstances":
			return "a.started"
		}
	case *ast.BinaryExpr:
		if v.Op == token.ADD || v.Op == token.SUB {
			return "(" + x.startupAwaitInt(v.X, recv) + " " + v.Op.String() + " " + x.startupAwaitInt(v.Y, recv) + ")"
		}
	}
	return x.fail(e, "counter expression %s", x.src(e))
}

// startupCaseUpdate reads the top-level statements of a case of the await loop: the update of the counters (as a Lean record
// update with the fields in a fixed order, so that reordering independent assignments changes nothing), the pool actions of its `if`
// statements, and whether `checkAllInstancesAreFinished()` is called, unconditionally, after the counters have been updated
func (x *startupSup) startupCaseUpdate(cc *ast.CommClause, recv, resName, startResField string, p *startupPaTr) (update string, acts string, checks bool) {
	fields := map[string]string{}
	var actParts []string
	updatesDone := true
	for _, st := range cc.Body {
		if checks {
			// anything after the check that touches the counters would not be seen by it
			switch st.(type) {
			case *ast.AssignStmt, *ast.IncDecStmt:
				updatesDone = false
			}
		}
		switch v := st.(type) {
		case *ast.IncDecStmt:
			switch x.src(v.X) {
			case recv + ".toWait":
				// how many of the four results are still awaited: termination of the await loop, not a counter of instances
			case recv + ".awaitedInstances":
				if v.Tok == token.INC {
					if _, dup := fields["awaited"]; dup {
						x.fail(st, "second update of awaitedInstances")
					}
					fields["awaited"] = "a.awaited + 1"
				} else {
					fields["awaited"] = "a.awaited - 1"
				}
			default:
				x.fail(st, "statement %s", x.src(st))
			}
		case *ast.AssignStmt:
			if len(v.Lhs) != 1 || len(v.Rhs) != 1 || v.Tok != token.ASSIGN {
				x.fail(st, "statement %s", x.src(st))
				continue
			}
			switch x.src(v.Lhs[0]) {
			case recv + "." + startResField:
				if x.src(v.Rhs[0]) == "nil" {
					fields["startFinished"] = "true"
				} else {
					x.fail(st, "statement %s", x.src(st))
				}
			case recv + ".startedInstances":
				if x.src(v.Rhs[0]) == resName+".Started" {
					fields["started"] = "resStarted"
				} else {
					fields["started"] = x.startupAwaitInt(v.Rhs[0], recv)
				}
			case recv + ".providerErr", recv + ".aggregatorErr":
			default:
				x.fail(st, "statement %s", x.src(st))
			}
		case *ast.ExprStmt:
			if x.isLogCall(v.X) {
				continue
			}
			if x.src(v.X) == recv+".checkAllInstancesAreFinished()" {
				checks = true
				continue
			}
			actParts = append(actParts, p.acts([]ast.Stmt{st}))
		case *ast.IfStmt:
			actParts = append(actParts, p.acts([]ast.Stmt{st}))
		default:
			x.fail(st, "statement %s", x.src(st))
		}
	}
	checks = checks && updatesDone
	var ups []string
	for _, f := range []string{"awaited", "startFinished", "started"} {
		if v, ok := fields[f]; ok {
			ups = append(ups, f+" := "+v)
		}
	}
	update = "a"
	if len(ups) > 0 {
		update = "{ a with " + strings.Join(ups, ", ") + " }"
	}
	acts = "[]"
	if len(actParts) > 0 {
		acts = "(" + strings.Join(actParts, " ++ ") + ")"
	}
	return
}

func (x *startupSup) awaitCounters(b *strings.Builder) {
	// isStartFinished: `return ah.<field> == nil`
	isf := startupFindMethod(x.pkg, "runAwaitHandle", "isStartFinished")
	startResField := ""
	if isf != nil && len(isf.Body.List) == 1 {
		if rs, ok := isf.Body.List[0].(*ast.ReturnStmt); ok && len(rs.Results) == 1 {
			if be, isB := rs.Results[0].(*ast.BinaryExpr); isB && be.Op == token.EQL && x.src(be.Y) == "nil" {
				if sel, isSel := be.X.(*ast.SelectorExpr); isSel {
					startResField = sel.Sel.Name
				}
			}
		}
	}
	if startResField == "" {
		x.t.errs = append(x.t.errs, "(*runAwaitHandle).isStartFinished is not `return ah.<channel field> == nil`")
		return
	}
	// checkAllInstancesAreFinished
	ca := startupFindMethod(x.pkg, "runAwaitHandle", "checkAllInstancesAreFinished")
	if ca == nil {
		x.t.errs = append(x.t.errs, "method (*runAwaitHandle).checkAllInstancesAreFinished not found")
		return
	}
	recv := ca.Recv.List[0].Names[0].Name
	local := map[string]ast.Expr{}
	cond := ""
	var rest []ast.Stmt
	for i, st := range ca.Body.List {
		if as, ok := st.(*ast.AssignStmt); ok && as.Tok == token.DEFINE && len(as.Lhs) == 1 && len(as.Rhs) == 1 {
			local[x.src(as.Lhs[0])] = as.Rhs[0]
			continue
		}
		if is, ok := st.(*ast.IfStmt); ok && is.Init == nil && is.Else == nil && len(is.Body.List) == 1 {
			if rs, isR := is.Body.List[0].(*ast.ReturnStmt); isR && len(rs.Results) == 0 {
				// `if !allFinished { return }`: what follows runs when the negation holds
				cond = "(!" + x.startupAwaitCond(is.Cond, recv, local) + ")"
				rest = ca.Body.List[i+1:]
				break
			}
		}
		x.fail(st, "checkAllInstancesAreFinished: statement before the guard %s", x.src(st))
	}
	if cond == "" {
		x.fail(ca, "checkAllInstancesAreFinished: guard `if !<all finished> { return }` not found")
		return
	}
	// what it does once everything has finished: which contexts it cancels
	var cancels []string
	for _, st := range rest {
		ast.Inspect(st, func(n ast.Node) bool {
			c, ok := n.(*ast.CallExpr)
			if !ok {
				return true
			}
			if sel, isSel := c.Fun.(*ast.SelectorExpr); isSel && x.src(sel.X) == recv {
				if r, has := x.fieldRole[sel.Sel.Name]; has && strings.HasSuffix(sel.Sel.Name, "Cancel") {
					cancels = append(cancels, "PoolAct.cancel "+r)
				}
			}
			return true
		})
	}
	b.WriteString("/-- regenerated from `core/engine/engine.go` `(*runAwaitHandle).checkAllInstancesAreFinished`: the condition under which\nit goes on (a: the counters of the await loop; `a.startFinished` is `ah.isStartFinished()`, i.e. `ah." + startResField + " == nil`) -/\n")
	b.WriteString("def allFinished (a : Await) : Bool := " + cond + "\n\n")
	b.WriteString("/-- regenerated from `checkAllInstancesAreFinished`: the contexts it cancels once everything has finished -/\n")
	b.WriteString("def onAllFinished : List PoolAct := [" + strings.Join(cancels, ", ") + "]\n\n")

	fd := startupFindMethod(x.pkg, "runAwaitHandle", "awaitRun")
	if fd == nil {
		return
	}
	recv = fd.Recv.List[0].Names[0].Name
	mk := func(resName string) *startupPaTr {
		p := &startupPaTr{x: x}
		p.atom = func(e ast.Expr) (string, bool) {
			if c, ok := e.(*ast.CallExpr); ok && x.src(c.Fun) == "errutil.IsCtxError" && len(c.Args) == 2 && x.src(c.Args[1]) == resName+".Err" {
				if sel, isSel := c.Args[0].(*ast.SelectorExpr); isSel && x.src(sel.X) == recv {
					if r, has := x.fieldRole[sel.Sel.Name]; has {
						return "(isCtxErr " + r + ")", true
					}
				}
			}
			return "", false
		}
		p.calls = func(c *ast.CallExpr) (string, bool) {
			sel, ok := c.Fun.(*ast.SelectorExpr)
			if !ok || x.src(sel.X) != recv {
				return "", false
			}
			if sel.Sel.Name == "onErrAwaited" {
				return "[PoolAct.reportErr]", true
			}
			if r, has := x.fieldRole[sel.Sel.Name]; has && strings.HasSuffix(sel.Sel.Name, "Cancel") && len(c.Args) == 0 {
				return "[PoolAct.cancel " + r + "]", true
			}
			return "", false
		}
		p.doneRole = func(ast.Expr) (string, bool) { return "", false }
		return p
	}
	// case res := <-ah.startRes
	if cc, resName := x.startupCaseOf(fd, recv, startResField); cc != nil {
		up, acts, checks := x.startupCaseUpdate(cc, recv, resName, startResField, mk(resName))
		b.WriteString("/-- regenerated from `(*runAwaitHandle).awaitRun`, case `" + resName + " := <-" + recv + "." + startResField + "`: the counters after the result of\n`startInstances` has been received (resStarted: `" + resName + ".Started`) -/\n")
		b.WriteString("def onStartResAwait (a : Await) (resStarted : Int) : Await := " + up + "\n\n")
		b.WriteString("/-- regenerated from the same case: what the pool does with the error of `startInstances` -/\n")
		b.WriteString("def onStartResult (isCtxErr : Ctx → Bool) : List PoolAct :=\n  " + acts + "\n\n")
		b.WriteString("/-- regenerated from the same case: `checkAllInstancesAreFinished()` is called, unconditionally, after the counters were updated -/\n")
		b.WriteString(fmt.Sprintf("def startResChecksAll : Bool := %v\n\n", checks))
	} else {
		x.fail(fd, "case res := <-%s.%s not found", recv, startResField)
	}
	// case res := <-ah.runRes: the counters only (what is done with the result is `onInstanceResult`)
	if cc, resName := x.startupCaseOf(fd, recv, "runRes"); cc != nil {
		p := mk(resName)
		inner := p.atom
		p.atom = func(e ast.Expr) (string, bool) {
			switch x.src(e) {
			case resName + ".Err == outOfAmmoErr", resName + ".Err != outOfAmmoErr", recv + ".isStartFinished()":
				return "true", true
			}
			return inner(e)
		}
		up, _, checks := x.startupCaseUpdate(cc, recv, resName, startResField, p)
		b.WriteString("/-- regenerated from `awaitRun`, case `" + resName + " := <-" + recv + ".runRes`: the counters after the result of an instance has been received -/\n")
		b.WriteString("def onRunResAwait (a : Await) : Await := " + up + "\n\n")
		b.WriteString("/-- regenerated from the same case: `checkAllInstancesAreFinished()` is called, unconditionally, after the counters were updated -/\n")
		b.WriteString(fmt.Sprintf("def runResChecksAll : Bool := %v\n\n", checks))
	}
}

func (x *startupSup) finishCallback(b *strings.Builder, builderArgs [2]string) {
	fd := startupFindMethod(x.pkg, "instancePool", "buildNewInstanceSchedule")
	if fd == nil {
		x.t.errs = append(x.t.errs, "method (*instancePool).buildNewInstanceSchedule not found")
		return
	}
	ps := x.paramObjs(fd.Type)
	if len(ps) != 2 {
		x.fail(fd, "buildNewInstanceSchedule signature")
		return
	}
	ctxP, cancelP := ps[0], ps[1]
	// first statement: if p.RPSPerInstance { return p.NewRPSSchedule, nil }
	perInstGuard := false
	if len(fd.Body.List) > 0 {
		if ifs, ok := fd.Body.List[0].(*ast.IfStmt); ok && ifs.Init == nil && ifs.Else == nil && x.src(ifs.Cond) == "p.RPSPerInstance" && len(ifs.Body.List) == 1 {
			if r, isRet := ifs.Body.List[0].(*ast.ReturnStmt); isRet && len(r.Results) == 2 && x.src(r.Results[0]) == "p.NewRPSSchedule" {
				perInstGuard = true
			}
		}
	}
	var cb *ast.FuncLit
	inGuard := false
	ast.Inspect(fd.Body, func(n ast.Node) bool {
		if c, ok := n.(*ast.CallExpr); ok && x.src(c.Fun) == "coreutil.NewCallbackOnFinishSchedule" && len(c.Args) == 2 {
			if fl, isFl := c.Args[1].(*ast.FuncLit); isFl {
				cb = fl
				if len(fd.Body.List) > 0 && c.Pos() < fd.Body.List[0].End() {
					inGuard = true
				}
			}
		}
		return true
	})
	if cb == nil || !perInstGuard || inGuard {
		x.fail(fd, "buildNewInstanceSchedule shape (`if p.RPSPerInstance { return p.NewRPSSchedule, nil }` first, then NewCallbackOnFinishSchedule(…, func() {…}))")
		return
	}
	b.WriteString("/-- regenerated from `core/engine/engine.go` `(*instancePool).buildNewInstanceSchedule`: is the finish callback installed on\nthe RPS schedule the instances get? (not for per-instance schedules) -/\n")
	b.WriteString("def callbackInstalled (perInstance : Bool) : Bool := if perInstance then false else true\n\n")
	p := &startupPaTr{x: x}
	p.atom = func(ast.Expr) (string, bool) { return "", false }
	p.calls = func(c *ast.CallExpr) (string, bool) {
		if x.obj(c.Fun) == cancelP && len(c.Args) == 0 {
			return "[PoolAct.cancel " + builderArgs[1] + "]", true
		}
		return "", false
	}
	p.doneRole = func(e ast.Expr) (string, bool) {
		u, ok := e.(*ast.UnaryExpr)
		if !ok || u.Op != token.ARROW {
			return "", false
		}
		c, ok := u.X.(*ast.CallExpr)
		if !ok || len(c.Args) != 0 {
			return "", false
		}
		sel, ok := c.Fun.(*ast.SelectorExpr)
		if !ok || sel.Sel.Name != "Done" || x.obj(sel.X) != ctxP {
			return "", false
		}
		return builderArgs[0], true
	}
	b.WriteString("/-- regenerated from `buildNewInstanceSchedule`: the callback run (once) when the shared RPS schedule reports its end -/\n")
	b.WriteString("def onSharedRpsFinish (ctxDone : Ctx → Bool) : List PoolAct :=\n  " + p.acts(cb.Body.List) + "\n\n")
}

// ---------------------------------------------------------------- coreutil: callback schedule, IsFinished

func (x *startupSup) coreutilPart(b *strings.Builder) {
	cu := load("github.com/yandex/pandora/core/coreutil")
	cx := &startupSup{t: x.t, pkg: cu}
	// (*callbackOnFinishSchedule).Next / Left: `if COND { s.onFinishOnce.Do(s.onFinish) }`
	for _, m := range []struct{ name, param, ty string }{{"Next", "ok", "Bool"}, {"Left", "left", "Int"}} {
		fd := startupFindMethod(cu, "callbackOnFinishSchedule", m.name)
		if fd == nil {
			x.t.errs = append(x.t.errs, "method (*callbackOnFinishSchedule)."+m.name+" not found")
			continue
		}
		cond := ""
		n := 0
		ast.Inspect(fd.Body, func(nd ast.Node) bool {
			if ifs, ok := nd.(*ast.IfStmt); ok && len(ifs.Body.List) == 1 && cx.src(ifs.Body.List[0]) == "s.onFinishOnce.Do(s.onFinish)" && ifs.Else == nil && ifs.Init == nil {
				cond = cx.src(ifs.Cond)
				n++
			}
			if c, ok := nd.(*ast.CallExpr); ok && cx.src(c.Fun) == "s.onFinishOnce.Do" {
				n += 10
			}
			return true
		})
		// round 6: the early-return form `if C { return … }; s.onFinishOnce.Do(s.onFinish); return …` (the Do is an unconditional
		// top-level statement behind a top-level `if` that only returns): the callback condition is the negation of C
		if n == 10 {
			neg := map[string]string{"ok": "!ok", "left != 0": "left == 0", "left > 0": "left <= 0", "0 != left": "left == 0"}
			var guards []string
			doTop := false
			for _, st := range fd.Body.List {
				if ifs, ok := st.(*ast.IfStmt); ok && !doTop && ifs.Else == nil && ifs.Init == nil && len(ifs.Body.List) > 0 {
					if _, isRet := ifs.Body.List[len(ifs.Body.List)-1].(*ast.ReturnStmt); isRet {
						guards = append(guards, cx.src(ifs.Cond))
					}
				}
				if es, ok := st.(*ast.ExprStmt); ok && cx.src(es.X) == "s.onFinishOnce.Do(s.onFinish)" {
					doTop = true
				}
			}
			if doTop && len(guards) == 1 && neg[guards[0]] != "" {
				cond = neg[guards[0]]
				n = 11
			}
		}
		lean := ""
		switch {
		case n != 11:
		case m.name == "Next" && cond == "!ok":
			lean = "!ok"
		case m.name == "Left" && cond == "left == 0":
			lean = "left == 0"
		case m.name == "Left" && cond == "left <= 0":
			lean = "decide (left ≤ 0)"
		}
		if lean == "" {
			cx.fail(fd, "callback condition %q in %s", cond, m.name)
			continue
		}
		b.WriteString("/-- regenerated from `core/coreutil/schedule.go` `(*callbackOnFinishSchedule)." + m.name + "`: does this call run `onFinishOnce.Do(onFinish)`? -/\n")
		b.WriteString("def callbackOn" + m.name + " (" + m.param + " : " + m.ty + ") : Bool := " + lean + "\n\n")
	}
	// (*Waiter).IsFinished: select { case <-ctx.Done(): return A; default: return B }
	fd := startupFindMethod(cu, "Waiter", "IsFinished")
	okShape := false
	if fd != nil && len(fd.Body.List) == 1 {
		if sel, isSel := fd.Body.List[0].(*ast.SelectStmt); isSel && len(sel.Body.List) == 2 {
			c0 := sel.Body.List[0].(*ast.CommClause)
			c1 := sel.Body.List[1].(*ast.CommClause)
			if c0.Comm != nil && c1.Comm == nil && len(c0.Body) == 1 && len(c1.Body) == 1 && cx.src(c0.Comm) == "<-ctx.Done()" {
				r0, isR0 := c0.Body[0].(*ast.ReturnStmt)
				r1, isR1 := c1.Body[0].(*ast.ReturnStmt)
				if isR0 && isR1 && len(r0.Results) == 1 && len(r1.Results) == 1 {
					a := cx.src(r0.Results[0])
					bb := cx.src(r1.Results[0])
					recv := fd.Recv.List[0].Names[0].Name
					lb := map[string]string{recv + ".sched.Left() == 0": "left == 0", recv + ".sched.Left() <= 0": "decide (left ≤ 0)"}[bb]
					if (a == "true" || a == "false") && lb != "" {
						okShape = true
						b.WriteString("/-- regenerated from `core/coreutil/waiter.go` `(*Waiter).IsFinished` (left: `w.sched.Left()`) -/\n")
						b.WriteString("def IsFinished (ctxDone : Bool) (left : Int) : Bool := if ctxDone then " + a + " else " + lb + "\n\n")
					}
				}
			}
		}
	}
	if !okShape {
		x.t.errs = append(x.t.errs, "(*Waiter).IsFinished: unsupported shape")
	}
}

// ---------------------------------------------------------------- (*instance).Run

func (x *startupSup) instanceRun(b *strings.Builder) {
	fd := startupFindMethod(x.pkg, "instance", "Run")
	if fd == nil {
		x.t.errs = append(x.t.errs, "method (*instance).Run not found")
		return
	}
	ps := x.paramObjs(fd.Type)
	if len(ps) != 1 {
		x.fail(fd, "(*instance).Run signature")
		return
	}
	ctxP := ps[0]
	var waiter types.Object
	var loop *ast.ForStmt
	var after []ast.Stmt
	recovers := false
	for i, st := range fd.Body.List {
		switch v := st.(type) {
		case *ast.DeferStmt:
			ast.Inspect(v, func(n ast.Node) bool {
				if c, ok := n.(*ast.CallExpr); ok && x.src(c.Fun) == "recover" {
					recovers = true
				}
				return true
			})
		case *ast.ExprStmt:
			if !x.isLogCall(v.X) && !strings.Contains(x.src(v.X), ".metrics.") {
				x.fail(st, "statement %s", x.src(st))
			}
		case *ast.AssignStmt:
			if len(v.Lhs) == 1 && len(v.Rhs) == 1 && v.Tok == token.DEFINE && strings.HasPrefix(x.src(v.Rhs[0]), "coreutil.NewWaiter(") {
				waiter = x.obj(v.Lhs[0])
			} else {
				x.fail(st, "statement %s", x.src(st))
			}
		case *ast.ForStmt:
			loop = v
			after = fd.Body.List[i+1:]
		case *ast.ReturnStmt:
		default:
			x.fail(st, "statement %s", x.src(st))
		}
		if loop != nil {
			break
		}
	}
	if loop == nil || waiter == nil || loop.Init != nil || loop.Post != nil || loop.Cond == nil {
		x.fail(fd, "(*instance).Run shape (waiter, for loop)")
		return
	}
	isWaiterCall := func(e ast.Expr, name string) bool {
		c, ok := e.(*ast.CallExpr)
		if !ok || len(c.Args) != 1 || x.obj(c.Args[0]) != ctxP {
			return false
		}
		sel, ok := c.Fun.(*ast.SelectorExpr)
		return ok && sel.Sel.Name == name && x.obj(sel.X) == waiter
	}
	// loop condition: boolean formula over waiter.IsFinished(ctx)
	var cond func(e ast.Expr) string
	cond = func(e ast.Expr) string {
		switch v := e.(type) {
		case *ast.ParenExpr:
			return cond(v.X)
		case *ast.UnaryExpr:
			if v.Op == token.NOT {
				return "(!" + cond(v.X) + ")"
			}
		case *ast.CallExpr:
			if isWaiterCall(v, "IsFinished") {
				return "(IsFinished it.ctxDone it.left)"
			}
		}
		return x.fail(e, "loop condition %s", x.src(e))
	}
	// loop body: err := func() error { … }(); if err != nil { return err }
	if len(loop.Body.List) != 2 {
		x.fail(loop, "loop body shape")
		return
	}
	as, ok := loop.Body.List[0].(*ast.AssignStmt)
	if !ok || len(as.Lhs) != 1 || len(as.Rhs) != 1 {
		x.fail(loop, "loop body shape")
		return
	}
	errObj := x.obj(as.Lhs[0])
	call, ok := as.Rhs[0].(*ast.CallExpr)
	var body *ast.FuncLit
	if ok {
		body, _ = call.Fun.(*ast.FuncLit)
	}
	ifs, ok2 := loop.Body.List[1].(*ast.IfStmt)
	if body == nil || !ok2 || ifs.Init != nil || ifs.Else != nil || len(ifs.Body.List) != 1 {
		x.fail(loop, "loop body shape")
		return
	}
	bx, isBin := ifs.Cond.(*ast.BinaryExpr)
	ret, isRet := ifs.Body.List[0].(*ast.ReturnStmt)
	if !isBin || bx.Op != token.NEQ || x.obj(bx.X) != errObj || x.src(bx.Y) != "nil" || !isRet || len(ret.Results) != 1 || x.obj(ret.Results[0]) != errObj {
		x.fail(ifs, "`if err != nil { return err }` expected")
		return
	}
	// after the loop: return ctx.Err()
	if len(after) != 1 {
		x.fail(fd, "statements after the loop")
		return
	}
	r, isRet := after[0].(*ast.ReturnStmt)
	if !isRet || len(r.Results) != 1 || x.src(r.Results[0]) != ctxP.Name()+".Err()" {
		x.fail(after[0], "`return ctx.Err()` expected after the loop")
		return
	}
	// the body closure
	var ammoOk types.Object
	var bodyTr func(stmts []ast.Stmt, ind string) string
	retVal := func(e ast.Expr) string {
		switch x.src(e) {
		case "nil":
			return "BodyErr.nil"
		case "outOfAmmoErr":
			return "BodyErr.outOfAmmo"
		}
		return x.fail(e, "returned error %s", x.src(e))
	}
	var bcond func(e ast.Expr) string
	bcond = func(e ast.Expr) string {
		switch v := e.(type) {
		case *ast.ParenExpr:
			return bcond(v.X)
		case *ast.UnaryExpr:
			if v.Op == token.NOT {
				return "(!" + bcond(v.X) + ")"
			}
		case *ast.Ident:
			if x.obj(v) == ammoOk && ammoOk != nil {
				return "ammoOk"
			}
		case *ast.CallExpr:
			if isWaiterCall(v, "Wait") {
				return "waitOk"
			}
		}
		return x.fail(e, "condition %s", x.src(e))
	}
	bodyTr = func(stmts []ast.Stmt, ind string) string {
		if len(stmts) == 0 {
			return ind + x.fail(body, "body must end in return")
		}
		st, rest := stmts[0], stmts[1:]
		switch v := st.(type) {
		case *ast.ReturnStmt:
			if len(v.Results) == 1 {
				return ind + retVal(v.Results[0])
			}
		case *ast.DeferStmt:
			return bodyTr(rest, ind)
		case *ast.ExprStmt:
			if x.isLogCall(v.X) {
				return bodyTr(rest, ind)
			}
		case *ast.AssignStmt:
			// ammo, ok := i.provider.Acquire()
			if len(v.Lhs) == 2 && len(v.Rhs) == 1 && strings.HasSuffix(x.src(v.Rhs[0]), ".provider.Acquire()") {
				ammoOk = x.obj(v.Lhs[1])
				return bodyTr(rest, ind)
			}
		case *ast.IfStmt:
			if !startupHasReturn(v) {
				return bodyTr(rest, ind) // logging / shoot-or-discard: no exit
			}
			if v.Init == nil && v.Else == nil && len(v.Body.List) > 0 {
				if _, isR := v.Body.List[len(v.Body.List)-1].(*ast.ReturnStmt); isR {
					return ind + "if " + bcond(v.Cond) + " then\n" + bodyTr(v.Body.List, ind+"  ") + "\n" + ind + "else\n" + bodyTr(rest, ind+"  ")
				}
			}
		}
		return ind + x.fail(st, "statement %s", x.src(st))
	}
	b.WriteString("/-- regenerated from `core/engine/instance.go` `(*instance).Run`: the error one pass of the loop body returns\n(ammoOk: `provider.Acquire()` ok; waitOk: `waiter.Wait(ctx)`) -/\n")
	b.WriteString("def runBody (ammoOk waitOk : Bool) : BodyErr :=\n" + bodyTr(body.Body.List, "  ") + "\n\n")
	b.WriteString("/-- regenerated from `(*instance).Run`: `for COND { err := body(); if err != nil { return err } }; return ctx.Err()` -/\n")
	b.WriteString("def instanceRun : List RunIter → RunRet\n  | [] => RunRet.running\n  | it :: rest =>\n    if " + cond(loop.Cond) + " then\n")
	b.WriteString("      let err : BodyErr := runBody it.ammoOk it.waitOk\n      if err != BodyErr.nil then RunRet.body err else instanceRun rest\n    else RunRet.ctxErr\n\n")
	b.WriteString("/-- regenerated from `(*instance).Run`: a panic of `gun.Shoot` is recovered into an error result (deferred `recover()`) -/\n")
	b.WriteString(fmt.Sprintf("def recoversShootPanic : Bool := %v\n\n", recovers))
}

// ---------------------------------------------------------------- round 3: how a pool fails and how its Run returns

// startupOtherResults: the cases `err := <-ah.providerErr` / `err := <-ah.aggregatorErr` of awaitRun as lists of pool actions
func (x *startupSup) startupOtherResults(b *strings.Builder) {
	fd := startupFindMethod(x.pkg, "runAwaitHandle", "awaitRun")
	if fd == nil {
		return
	}
	recv := fd.Recv.List[0].Names[0].Name
	for _, it := range [][2]string{{"providerErr", "onProviderResult"}, {"aggregatorErr", "onAggregatorResult"}} {
		cc, errName := x.startupCaseOf(fd, recv, it[0])
		if cc == nil {
			x.fail(fd, "case err := <-%s.%s not found", recv, it[0])
			continue
		}
		p := &startupPaTr{x: x}
		p.atom = func(e ast.Expr) (string, bool) {
			if c, ok := e.(*ast.CallExpr); ok && x.src(c.Fun) == "errutil.IsCtxError" && len(c.Args) == 2 && x.src(c.Args[1]) == errName {
				if sel, isSel := c.Args[0].(*ast.SelectorExpr); isSel && x.src(sel.X) == recv {
					if r, has := x.fieldRole[sel.Sel.Name]; has {
						return "(isCtxErr " + r + ")", true
					}
				}
			}
			return "", false
		}
		p.calls = func(c *ast.CallExpr) (string, bool) {
			sel, ok := c.Fun.(*ast.SelectorExpr)
			if !ok || x.src(sel.X) != recv {
				return "", false
			}
			if sel.Sel.Name == "onErrAwaited" {
				return "[PoolAct.reportErr]", true
			}
			if r, has := x.fieldRole[sel.Sel.Name]; has && strings.HasSuffix(sel.Sel.Name, "Cancel") && len(c.Args) == 0 {
				return "[PoolAct.cancel " + r + "]", true
			}
			return "", false
		}
		p.doneRole = func(ast.Expr) (string, bool) { return "", false }
		var parts []string
		for _, st := range cc.Body {
			switch v := st.(type) {
			case *ast.IncDecStmt:
				if x.src(v.X) != recv+".toWait" {
					x.fail(st, "statement %s", x.src(st))
				}
			case *ast.AssignStmt:
				// `ah.providerErr = nil`: the channel is not read again
				if len(v.Lhs) != 1 || x.src(v.Lhs[0]) != recv+"."+it[0] || x.src(v.Rhs[0]) != "nil" {
					x.fail(st, "statement %s", x.src(st))
				}
			case *ast.ExprStmt:
				if x.isLogCall(v.X) {
					continue
				}
				parts = append(parts, p.acts([]ast.Stmt{st}))
			case *ast.IfStmt:
				parts = append(parts, p.acts([]ast.Stmt{st}))
			default:
				x.fail(st, "statement %s", x.src(st))
			}
		}
		acts := "[]"
		if len(parts) > 0 {
			acts = "(" + strings.Join(parts, " ++ ") + ")"
		}
		b.WriteString("/-- regenerated from `(*runAwaitHandle).awaitRun`, case `" + errName + " := <-" + recv + "." + it[0] + "`: what the pool does with that result\n(isCtxErr c: `errutil.IsCtxError(<context c>, " + errName + ")`) -/\n")
		b.WriteString("def " + it[1] + " (isCtxErr : Ctx → Bool) : List PoolAct :=\n  " + acts + "\n\n")
	}
}

// startupPoolRunRet classifies the statements of a case of the final select of (*instancePool).Run
func (x *startupSup) startupPoolRunRet(stmts []ast.Stmt, errName, okName string) string {
	for i, st := range stmts {
		switch v := st.(type) {
		case *ast.ExprStmt:
			if x.isLogCall(v.X) {
				continue
			}
		case *ast.ReturnStmt:
			if len(v.Results) == 1 {
				r := x.src(v.Results[0])
				switch {
				case r == "nil":
					return "PoolRunRet.nil"
				case errName != "" && r == errName:
					return "PoolRunRet.reported"
				case strings.HasSuffix(r, ".Err()"):
					return "PoolRunRet.ctxErr"
				}
			}
		case *ast.IfStmt:
			if v.Init == nil && okName != "" && len(v.Body.List) > 0 {
				c := x.src(v.Cond)
				th := x.startupPoolRunRet(v.Body.List, errName, okName)
				var el string
				if v.Else != nil {
					if eb, isB := v.Else.(*ast.BlockStmt); isB {
						el = x.startupPoolRunRet(eb.List, errName, okName)
					}
				} else {
					el = x.startupPoolRunRet(stmts[i+1:], errName, okName)
				}
				if c == okName {
					return "(if ok then " + th + " else " + el + ")"
				}
				if c == "!"+okName {
					return "(if ok then " + el + " else " + th + ")"
				}
			}
		}
		return x.fail(st, "statement of the final select of pool Run %s", x.src(st))
	}
	return x.fail(stmts[0], "case of the final select of pool Run does not return")
}

func (x *startupSup) startupPoolRun(b *strings.Builder) {
	fd := startupFindMethod(x.pkg, "instancePool", "Run")
	if fd == nil {
		x.t.errs = append(x.t.errs, "method (*instancePool).Run not found")
		return
	}
	var ctxObj, cancelObj, awaitErrObj types.Object
	defersCancel, handsOn := false, false
	var sel *ast.SelectStmt
	for _, st := range fd.Body.List {
		switch v := st.(type) {
		case *ast.AssignStmt:
			if len(v.Lhs) == 2 && len(v.Rhs) == 1 {
				if c, isCall := v.Rhs[0].(*ast.CallExpr); isCall && x.src(c.Fun) == "context.WithCancel" && len(c.Args) == 1 && ctxObj == nil {
					ps := x.paramObjs(fd.Type)
					if len(ps) == 1 && x.obj(c.Args[0]) == ps[0] {
						ctxObj, cancelObj = x.obj(v.Lhs[0]), x.obj(v.Lhs[1])
					}
				}
				if c, isCall := v.Rhs[0].(*ast.CallExpr); isCall && strings.HasSuffix(x.src(c.Fun), ".runAsync") && len(c.Args) == 1 {
					handsOn = ctxObj != nil && x.obj(c.Args[0]) == ctxObj
				}
			}
			if len(v.Lhs) == 1 && len(v.Rhs) == 1 {
				if c, isCall := v.Rhs[0].(*ast.CallExpr); isCall && strings.HasSuffix(x.src(c.Fun), ".awaitRunAsync") {
					awaitErrObj = x.obj(v.Lhs[0])
				}
			}
		case *ast.DeferStmt:
			ast.Inspect(v, func(n ast.Node) bool {
				if c, ok := n.(*ast.CallExpr); ok && len(c.Args) == 0 && cancelObj != nil && x.obj(c.Fun) == cancelObj {
					defersCancel = true
				}
				return true
			})
		case *ast.SelectStmt:
			sel = v
		}
	}
	if ctxObj == nil || awaitErrObj == nil || sel == nil {
		x.fail(fd, "pool Run shape (ctx, cancel := context.WithCancel(ctx); awaitErr := p.awaitRunAsync(rh); final select)")
		return
	}
	// runAsync: the run context is derived from its parameter
	runFromParam := false
	if ra := startupFindMethod(x.pkg, "instancePool", "runAsync"); ra != nil {
		ps := x.paramObjs(ra.Type)
		ast.Inspect(ra.Body, func(n ast.Node) bool {
			if as, ok := n.(*ast.AssignStmt); ok && len(as.Lhs) == 2 && len(as.Rhs) == 1 {
				if c, isCall := as.Rhs[0].(*ast.CallExpr); isCall && x.src(c.Fun) == "context.WithCancel" && len(c.Args) == 1 {
					if x.cancelRole[x.obj(as.Lhs[1])] == "Ctx.run" && len(ps) == 1 && x.obj(c.Args[0]) == ps[0] {
						runFromParam = true
					}
				}
			}
			return true
		})
	}
	doneCase, errCase := "", ""
	for _, cl := range sel.Body.List {
		cc := cl.(*ast.CommClause)
		switch c := cc.Comm.(type) {
		case *ast.ExprStmt:
			if un, ok := c.X.(*ast.UnaryExpr); ok && un.Op == token.ARROW {
				if call, isCall := un.X.(*ast.CallExpr); isCall {
					if s2, isSel := call.Fun.(*ast.SelectorExpr); isSel && s2.Sel.Name == "Done" && x.obj(s2.X) == ctxObj {
						doneCase = x.startupPoolRunRet(cc.Body, "", "")
						continue
					}
				}
			}
		case *ast.AssignStmt:
			if len(c.Lhs) == 2 && len(c.Rhs) == 1 {
				if un, ok := c.Rhs[0].(*ast.UnaryExpr); ok && un.Op == token.ARROW && x.obj(un.X) == awaitErrObj {
					errCase = x.startupPoolRunRet(cc.Body, x.src(c.Lhs[0]), x.src(c.Lhs[1]))
					continue
				}
			}
		}
		x.fail(cl, "case of the final select of pool Run")
	}
	if doneCase == "" || errCase == "" {
		x.fail(sel, "final select of pool Run: cases `<-ctx.Done()` and `err, ok := <-awaitErr`")
		return
	}
	b.WriteString("/-- regenerated from `core/engine/engine.go` `(*instancePool).Run`: what it returns, by the case its final `select` takes (its own\ncontext done; a value / the close of the channel returned by `awaitRunAsync`) -/\n")
	b.WriteString("def poolRunSelect : PoolRunEv → PoolRunRet\n  | PoolRunEv.ctxDone => " + doneCase + "\n  | PoolRunEv.awaitErr ok => " + errCase + "\n\n")
	b.WriteString("/-- regenerated from `(*instancePool).Run`: it derives its context with `context.WithCancel` from the one it is given and a\ndeferred function calls that `cancel()`: returning — with any result — cancels the pool context -/\n")
	b.WriteString(fmt.Sprintf("def poolRunCancelsOnReturn : Bool := %v\n\n", defersCancel))
	b.WriteString("/-- regenerated from `Run` / `runAsync`: `runAsync` is given that derived context and derives the RUN context from its parameter\n(so cancelling the pool context cancels the run context, which cancels the start context: `startCtxParent`) -/\n")
	b.WriteString(fmt.Sprintf("def runCtxIsChildOfPoolCtx : Bool := %v\n\n", handsOn && runFromParam))

	// onErrAwaited: the two ways out of its select
	oe := startupFindMethod(x.pkg, "runAwaitHandle", "onErrAwaited")
	if oe == nil {
		x.t.errs = append(x.t.errs, "method (*runAwaitHandle).onErrAwaited not found")
		return
	}
	recv := oe.Recv.List[0].Names[0].Name
	var cases []string
	var osel *ast.SelectStmt
	for _, st := range oe.Body.List {
		if s2, ok := st.(*ast.SelectStmt); ok {
			osel = s2
		} else {
			x.fail(st, "onErrAwaited: statement outside its select")
		}
	}
	if osel == nil {
		x.fail(oe, "onErrAwaited: select not found")
		return
	}
	for _, cl := range osel.Body.List {
		cc := cl.(*ast.CommClause)
		switch c := cc.Comm.(type) {
		case *ast.SendStmt:
			if x.src(c.Chan) == recv+".awaitErr" && len(oe.Type.Params.List) == 1 && x.src(c.Value) == oe.Type.Params.List[0].Names[0].Name {
				cases = append(cases, "ErrCase.send")
				continue
			}
		case *ast.ExprStmt:
			if x.src(c.X) == "<-"+recv+".poolCtx.Done()" {
				cases = append(cases, "ErrCase.poolCtxDone")
				continue
			}
		}
		x.fail(cl, "onErrAwaited: select case")
	}
	b.WriteString("/-- regenerated from `(*runAwaitHandle).onErrAwaited`: the cases of its `select` — the error is SENT to the pool's `Run` (which\nthen returns it), or given up once the pool context is done (`Run` has returned already) -/\n")
	b.WriteString("def onErrAwaitedCases : List ErrCase := [" + strings.Join(cases, ", ") + "]\n\n")
}

// startupToWait (round 4): the termination bookkeeping of the await loop of the pool — `ah.toWait`: its initial value
// (`const resultsToWait` of newAwaitRunHandle), the loop condition of awaitRun, and for every receive case of the select and for
// checkAllInstancesAreFinished (after its guard) how often `toWait--` runs at the TOP LEVEL of the block (unconditionally) and
// whether the channel the case received from is put out of the select (`ah.<ch> = nil`) there.  A `toWait--` anywhere else
// (inside an `if`, a loop, a closure) makes gen fail.
func (x *startupSup) startupToWait(b *strings.Builder) {
	// initial value
	nh := startupFindMethod(x.pkg, "instancePool", "newAwaitRunHandle")
	if nh == nil {
		x.t.errs = append(x.t.errs, "method (*instancePool).newAwaitRunHandle not found")
		return
	}
	consts := map[string]string{}
	initial := ""
	ast.Inspect(nh.Body, func(n ast.Node) bool {
		switch v := n.(type) {
		case *ast.ValueSpec:
			for i, id := range v.Names {
				if i < len(v.Values) {
					if tv, ok := x.pkg.TypesInfo.Types[v.Values[i]]; ok && tv.Value != nil {
						consts[id.Name] = tv.Value.ExactString()
					}
				}
			}
		case *ast.KeyValueExpr:
			if k, ok := v.Key.(*ast.Ident); ok && k.Name == "toWait" {
				if tv, ok := x.pkg.TypesInfo.Types[v.Value]; ok && tv.Value != nil {
					initial = tv.Value.ExactString()
				} else {
					x.fail(v, "toWait initialised with a non-constant %s", x.src(v.Value))
				}
			}
		}
		return true
	})
	if initial == "" {
		x.t.errs = append(x.t.errs, "newAwaitRunHandle: no constant initial value of the field toWait")
		return
	}
	fd := startupFindMethod(x.pkg, "runAwaitHandle", "awaitRun")
	if fd == nil || len(fd.Body.List) == 0 {
		return
	}
	recv := fd.Recv.List[0].Names[0].Name
	loop, ok := fd.Body.List[0].(*ast.ForStmt)
	if !ok || loop.Init != nil || loop.Post != nil || loop.Cond == nil {
		x.fail(fd, "awaitRun does not begin with `for <cond> {`")
		return
	}
	cond := ""
	if be, ok := loop.Cond.(*ast.BinaryExpr); ok {
		l, r := x.src(be.X), x.src(be.Y)
		op := map[token.Token]string{token.GTR: ">", token.GEQ: "≥", token.NEQ: "≠", token.LSS: "<", token.LEQ: "≤"}[be.Op]
		switch {
		case op != "" && l == recv+".toWait" && (r == "0" || r == "1"):
			cond = "decide (toWait " + op + " (" + r + " : Int))"
		case op != "" && r == recv+".toWait" && (l == "0" || l == "1"):
			cond = "decide ((" + l + " : Int) " + op + " toWait)"
		}
	}
	if cond == "" {
		x.fail(loop, "loop condition of awaitRun %s", x.src(loop.Cond))
		return
	}
	// count the top-level `recv.toWait--` of a block; any other occurrence is refused
	count := func(list []ast.Stmt, what string) (dec int, nilled map[string]bool) {
		nilled = map[string]bool{}
		total := 0
		for _, st := range list {
			ast.Inspect(st, func(n ast.Node) bool {
				switch v := n.(type) {
				case *ast.IncDecStmt:
					if x.src(v.X) == recv+".toWait" {
						total++
					}
				case *ast.AssignStmt:
					for _, l := range v.Lhs {
						if x.src(l) == recv+".toWait" {
							x.fail(v, "%s: assignment to toWait", what)
						}
					}
				}
				return true
			})
			switch v := st.(type) {
			case *ast.IncDecStmt:
				if x.src(v.X) == recv+".toWait" {
					if v.Tok != token.DEC {
						x.fail(v, "%s: toWait++", what)
					}
					dec++
				}
			case *ast.AssignStmt:
				if v.Tok == token.ASSIGN && len(v.Lhs) == 1 && len(v.Rhs) == 1 && x.src(v.Rhs[0]) == "nil" {
					if sel, ok := v.Lhs[0].(*ast.SelectorExpr); ok && x.src(sel.X) == recv {
						nilled[sel.Sel.Name] = true
					}
				}
			}
		}
		if total != dec {
			x.t.errs = append(x.t.errs, what+": toWait is changed conditionally (not at the top level of the block)")
		}
		return
	}
	var sel *ast.SelectStmt
	for _, st := range loop.Body.List {
		if s, ok := st.(*ast.SelectStmt); ok {
			sel = s
		} else {
			x.fail(st, "awaitRun: statement beside the select %s", x.src(st))
		}
	}
	if sel == nil {
		x.fail(loop, "awaitRun: no select in the loop")
		return
	}
	var rows []string
	for _, cl := range sel.Body.List {
		cc := cl.(*ast.CommClause)
		ch := ""
		switch c := cc.Comm.(type) {
		case *ast.AssignStmt:
			if len(c.Rhs) == 1 {
				if u, ok := c.Rhs[0].(*ast.UnaryExpr); ok && u.Op == token.ARROW {
					if se, ok := u.X.(*ast.SelectorExpr); ok && x.src(se.X) == recv {
						ch = se.Sel.Name
					}
				}
			}
		case *ast.ExprStmt:
			if u, ok := c.X.(*ast.UnaryExpr); ok && u.Op == token.ARROW {
				if se, ok := u.X.(*ast.SelectorExpr); ok && x.src(se.X) == recv {
					ch = se.Sel.Name
				}
			}
		}
		if ch == "" {
			x.fail(cc, "awaitRun: a case that does not receive from a channel field of the handle")
			continue
		}
		dec, nilled := count(cc.Body, "case <-"+ch)
		rows = append(rows, fmt.Sprintf("(%q, %d, %v)", ch, dec, nilled[ch]))
	}
	sort.Strings(rows)
	// checkAllInstancesAreFinished after its guard
	ca := startupFindMethod(x.pkg, "runAwaitHandle", "checkAllInstancesAreFinished")
	if ca == nil {
		return
	}
	crecv := ca.Recv.List[0].Names[0].Name
	var after []ast.Stmt
	for i, st := range ca.Body.List {
		if is, ok := st.(*ast.IfStmt); ok && is.Else == nil && len(is.Body.List) == 1 {
			if rs, isR := is.Body.List[0].(*ast.ReturnStmt); isR && len(rs.Results) == 0 {
				after = ca.Body.List[i+1:]
				break
			}
		}
	}
	save := recv
	recv = crecv
	dec, nilled := count(after, "checkAllInstancesAreFinished")
	recv = save
	fmt.Fprintf(b, "/-- regenerated from `core/engine/engine.go` `(*instancePool).newAwaitRunHandle`: the initial value of `toWait` (results the\nawait loop of the pool waits for) -/\ndef resultsToWait : Int := %s\n\n", initial)
	fmt.Fprintf(b, "/-- regenerated from `(*runAwaitHandle).awaitRun`: its loop goes on while (`%s`) -/\ndef awaitLoopGoesOn (toWait : Int) : Bool := %s\n\n", x.src(loop.Cond), cond)
	fmt.Fprintf(b, "/-- regenerated from the select of `awaitRun`: for every case (channel field received from, sorted) how often `toWait--` runs\nunconditionally in it and whether the case takes its channel out of the select (`ah.<ch> = nil`) -/\ndef awaitCases : List (String × Nat × Bool) := [%s]\n\n", strings.Join(rows, ", "))
	fmt.Fprintf(b, "/-- regenerated from `checkAllInstancesAreFinished`, after its guard: how often `toWait--` runs and whether `runRes` is taken out\nof the select -/\ndef allFinishedToWait : Nat × Bool := (%d, %v)\n\n", dec, nilled["runRes"])
}

func startupExtra(t *tr) string {
	var b strings.Builder
	b.WriteString("open Pandora.Go.C12\n\n")
	x := &startupSup{t: t, pkg: t.pkg, ctxRole: map[types.Object]string{}, cancelRole: map[types.Object]string{}, fieldRole: map[string]string{}}
	startArgs, builderArgs, ok := x.roles(&b)
	if ok {
		x.startInstances(&b, startArgs)
		x.awaitRun(&b)
		x.awaitCounters(&b)
		x.finishCallback(&b, builderArgs)
		x.startupOtherResults(&b)
		x.startupPoolRun(&b)
		x.startupToWait(&b)
	}
	x.engineRun(&b)
	x.passThrough(&b)
	x.coreutilPart(&b)
	x.instanceRun(&b)
	return b.String()
}
