package main

// C10, sixth round — regenerated facts about OPTION DEFAULTS and REGISTRATIONS the sample's tag depends on, and about the
// sample the engine reports for a shot it does not send. All of them are syntactic (go/parser, no type checking):
//
//	autoTagDefaults     : for every function `Default…GunConfig` of components/guns/http the constants of the
//	                      `AutoTagConfig{…}` literal it builds (keys in any order; a missing key is the zero value;
//	                      a function without such a literal that calls another `Default…GunConfig` inherits its values)
//	gunDefaultConfig    : for every `register.Gun("<name>", <constructor>, <defaults>)` of components/phttp/import and
//	                      components/guns/http_scenario the name of the defaults function, sorted by gun name
//	docAutoTagDefaults  : the `Default: <v>` remarks of docs/eng/http-generator.md for `uri-elements` and `no-tag-only`
//	discardedTag / discardedNet : the constants `DiscardedShootTag` / `DiscardedShootCodeError` of netsample
//
//	discardedShootSampleFacts : what `DiscardedShootSample` does, as a sorted set of facts — the keyed fields of the one
//	                      `Sample{…}` literal it builds (`lit:<key>=<expr>`), the method calls on it (`call:<M>(<args>)`),
//	                      whether it touches the sample pool (`pool:true|false`), whether it returns that sample
//	                      (`returns:it`): no statement order, no local names
//
// (the body of `SetUserNet` is regenerated with the other normalised bodies: gsSlices)

import (
	"fmt"
	"go/ast"
	"go/parser"
	"go/printer"
	"go/token"
	"os"
	"path/filepath"
	"regexp"
	"sort"
	"strconv"
	"strings"

	"golang.org/x/tools/go/packages"
)

// grpcstatusLoad: every package of the area is type-checked ONCE per run (the extractors only read it); each load shells out
// to `go list`, which is what a check costs on a loaded host.
var grpcstatusLoaded = map[string]*packages.Package{}

func grpcstatusLoad(pkgPath string) *packages.Package {
	if p := grpcstatusLoaded[pkgPath]; p != nil {
		return p
	}
	p := load(pkgPath)
	grpcstatusLoaded[pkgPath] = p
	return p
}

func grpcstatusR6ParseDir(t *tr, rel string) []*ast.File {
	dir := filepath.Join(repo, rel)
	ents, err := os.ReadDir(dir)
	if err != nil {
		t.errs = append(t.errs, rel+": "+err.Error())
		return nil
	}
	fset := token.NewFileSet()
	var out []*ast.File
	for _, e := range ents {
		n := e.Name()
		if e.IsDir() || !strings.HasSuffix(n, ".go") || strings.HasSuffix(n, "_test.go") {
			continue
		}
		f, err := parser.ParseFile(fset, filepath.Join(dir, n), nil, parser.SkipObjectResolution)
		if err != nil {
			t.errs = append(t.errs, rel+"/"+n+": "+err.Error())
			continue
		}
		out = append(out, f)
	}
	return out
}

// grpcstatusR6Lit: a literal constant as Lean text (`true`, `false`, a natural number), or "" when it is not one.
func grpcstatusR6Lit(e ast.Expr) string {
	switch v := e.(type) {
	case *ast.Ident:
		if v.Name == "true" || v.Name == "false" {
			return v.Name
		}
	case *ast.BasicLit:
		if v.Kind == token.INT {
			if n, err := strconv.ParseUint(v.Value, 0, 63); err == nil {
				return strconv.FormatUint(n, 10)
			}
		}
	case *ast.ParenExpr:
		return grpcstatusR6Lit(v.X)
	}
	return ""
}

var grpcstatusR6DocRe = regexp.MustCompile(`^\s*(uri-elements|no-tag-only):.*Default:\s*([A-Za-z0-9]+)`)

func grpcstatusR6(t *tr, b *strings.Builder) {
	// ---- autoTagDefaults
	files := grpcstatusR6ParseDir(t, "components/guns/http")
	type dflt struct{ enabled, el, nto string }
	found := map[string]*dflt{}
	calls := map[string][]string{}
	var names []string
	for _, f := range files {
		for _, d := range f.Decls {
			fd, ok := d.(*ast.FuncDecl)
			if !ok || fd.Recv != nil || fd.Body == nil || !strings.HasPrefix(fd.Name.Name, "Default") || !strings.HasSuffix(fd.Name.Name, "GunConfig") {
				continue
			}
			names = append(names, fd.Name.Name)
			ast.Inspect(fd.Body, func(n ast.Node) bool {
				switch v := n.(type) {
				case *ast.CallExpr:
					if id, ok := v.Fun.(*ast.Ident); ok && strings.HasPrefix(id.Name, "Default") && strings.HasSuffix(id.Name, "GunConfig") {
						calls[fd.Name.Name] = append(calls[fd.Name.Name], id.Name)
					}
				case *ast.CompositeLit:
					id, ok := v.Type.(*ast.Ident)
					if !ok || id.Name != "AutoTagConfig" {
						return true
					}
					d := &dflt{"false", "0", "false"}
					for _, el := range v.Elts {
						kv, ok := el.(*ast.KeyValueExpr)
						if !ok {
							t.errs = append(t.errs, fd.Name.Name+": AutoTagConfig literal without keys")
							continue
						}
						k, _ := kv.Key.(*ast.Ident)
						lit := grpcstatusR6Lit(kv.Value)
						if k == nil || lit == "" {
							t.errs = append(t.errs, fd.Name.Name+": AutoTagConfig literal with a value that is not a literal constant")
							continue
						}
						switch k.Name {
						case "Enabled":
							d.enabled = lit
						case "URIElements":
							d.el = lit
						case "NoTagOnly":
							d.nto = lit
						default:
							t.errs = append(t.errs, fd.Name.Name+": AutoTagConfig literal with unknown key "+k.Name)
						}
					}
					found[fd.Name.Name] = d
				}
				return true
			})
		}
	}
	sort.Strings(names)
	var rows []string
	for _, n := range names {
		d := found[n]
		for hop, cur := 0, n; d == nil && hop < 4; hop++ {
			if len(calls[cur]) != 1 {
				break
			}
			cur = calls[cur][0]
			d = found[cur]
		}
		if d == nil {
			t.errs = append(t.errs, n+": no AutoTagConfig literal and no single Default…GunConfig call to inherit from")
			continue
		}
		rows = append(rows, fmt.Sprintf("(%q, %s, %s, %s)", n, d.enabled, d.el, d.nto))
	}
	fmt.Fprintf(b, "/-- components/guns/http: the `AutoTagConfig` defaults (enabled, uri-elements, no-tag-only) every `Default…GunConfig` builds -/\ndef autoTagDefaults : List (String × Bool × Nat × Bool) := [%s]\n\n", strings.Join(rows, ", "))

	// ---- gunDefaultConfig
	var regs []string
	for _, rel := range []string{"components/phttp/import", "components/guns/http_scenario"} {
		for _, f := range grpcstatusR6ParseDir(t, rel) {
			ast.Inspect(f, func(n ast.Node) bool {
				c, ok := n.(*ast.CallExpr)
				if !ok {
					return true
				}
				sel, ok := c.Fun.(*ast.SelectorExpr)
				if !ok || sel.Sel.Name != "Gun" {
					return true
				}
				if x, ok := sel.X.(*ast.Ident); !ok || x.Name != "register" {
					return true
				}
				if len(c.Args) < 2 {
					return true
				}
				name, ok := c.Args[0].(*ast.BasicLit)
				if !ok || name.Kind != token.STRING {
					t.errs = append(t.errs, rel+": register.Gun with a name that is not a string literal")
					return true
				}
				gun, _ := strconv.Unquote(name.Value)
				dfl := "-"
				if len(c.Args) >= 3 {
					switch a := c.Args[2].(type) {
					case *ast.SelectorExpr:
						dfl = a.Sel.Name
					case *ast.Ident:
						dfl = a.Name
					default:
						dfl = "?"
					}
				}
				regs = append(regs, fmt.Sprintf("(%q, %q)", gun, dfl))
				return true
			})
		}
	}
	sort.Strings(regs)
	fmt.Fprintf(b, "/-- `register.Gun(name, constructor, defaults)` of components/phttp/import and components/guns/http_scenario: which\ndefaults function every registered http-family gun decodes its config over -/\ndef gunDefaultConfig : List (String × String) := [%s]\n\n", strings.Join(regs, ", "))

	// ---- docAutoTagDefaults
	var docs []string
	if src, err := os.ReadFile(filepath.Join(repo, "docs", "eng", "http-generator.md")); err != nil {
		t.errs = append(t.errs, "docs/eng/http-generator.md: "+err.Error())
	} else {
		for _, l := range strings.Split(string(src), "\n") {
			if m := grpcstatusR6DocRe.FindStringSubmatch(l); m != nil {
				docs = append(docs, fmt.Sprintf("(%q, %q)", m[1], m[2]))
			}
		}
	}
	sort.Strings(docs)
	fmt.Fprintf(b, "/-- docs/eng/http-generator.md: the `Default: …` remarks of the auto-tag keys -/\ndef docAutoTagDefaults : List (String × String) := [%s]\n\n", strings.Join(docs, ", "))

	// ---- the discarded-shot constants and constructor
	tag, code := "", ""
	for _, f := range grpcstatusR6ParseDir(t, "core/aggregator/netsample") {
		for _, d := range f.Decls {
			if fd, ok := d.(*ast.FuncDecl); ok && fd.Recv == nil && fd.Name.Name == "DiscardedShootSample" && fd.Body != nil {
				grpcstatusR6Discarded(t, b, fd)
			}
			gd, ok := d.(*ast.GenDecl)
			if !ok || gd.Tok != token.CONST {
				continue
			}
			for _, sp := range gd.Specs {
				vs := sp.(*ast.ValueSpec)
				for i, nm := range vs.Names {
					if i >= len(vs.Values) {
						continue
					}
					switch nm.Name {
					case "DiscardedShootTag":
						if bl, ok := vs.Values[i].(*ast.BasicLit); ok && bl.Kind == token.STRING {
							if u, err := strconv.Unquote(bl.Value); err == nil {
								tag = fmt.Sprintf("%q", u)
							}
						}
					case "DiscardedShootCodeError":
						code = grpcstatusR6Lit(vs.Values[i])
					}
				}
			}
		}
	}
	if tag == "" || code == "" {
		t.errs = append(t.errs, "netsample: DiscardedShootTag / DiscardedShootCodeError are not literal constants")
		tag, code = `""`, "0"
	}
	fmt.Fprintf(b, "/-- `netsample.DiscardedShootTag`, `netsample.DiscardedShootCodeError` -/\ndef discardedTag : String := %s\ndef discardedNet : Nat := %s\n\n", tag, code)
	grpcstatusR6Waiter(t, b)
}

var grpcstatusR6Units = map[string]uint64{"Nanosecond": 1, "Microsecond": 1000, "Millisecond": 1000000, "Second": 1000000000,
	"Minute": 60000000000, "Hour": 3600000000000}

// grpcstatusR6Duration: `<int> * time.<Unit>` / `time.<Unit> * <int>` / `time.<Unit>` in nanoseconds.
func grpcstatusR6Duration(e ast.Expr) (uint64, bool) {
	switch v := e.(type) {
	case *ast.ParenExpr:
		return grpcstatusR6Duration(v.X)
	case *ast.SelectorExpr:
		if x, ok := v.X.(*ast.Ident); ok && x.Name == "time" {
			u, ok := grpcstatusR6Units[v.Sel.Name]
			return u, ok
		}
	case *ast.BasicLit:
		if v.Kind == token.INT {
			n, err := strconv.ParseUint(v.Value, 0, 63)
			return n, err == nil
		}
	case *ast.BinaryExpr:
		if v.Op == token.MUL {
			a, ok1 := grpcstatusR6Duration(v.X)
			c, ok2 := grpcstatusR6Duration(v.Y)
			return a * c, ok1 && ok2
		}
	}
	return 0, false
}

// grpcstatusR6Waiter: `coreutil.MaxOverdueDuration` in nanoseconds, and what `(*Waiter).IsSlowDown` returns — one fact per
// `return`: `done:<expr>` when it stands in a `case <-….Done():` clause of a select, `live:<expr>` otherwise (receiver
// printed as `recv`), as a sorted set.
func grpcstatusR6Waiter(t *tr, b *strings.Builder) {
	nanos, found := uint64(0), false
	var facts []string
	for _, f := range grpcstatusR6ParseDir(t, "core/coreutil") {
		for _, d := range f.Decls {
			switch v := d.(type) {
			case *ast.GenDecl:
				if v.Tok != token.CONST {
					continue
				}
				for _, sp := range v.Specs {
					vs := sp.(*ast.ValueSpec)
					for i, nm := range vs.Names {
						if nm.Name == "MaxOverdueDuration" && i < len(vs.Values) {
							nanos, found = grpcstatusR6Duration(vs.Values[i])
						}
					}
				}
			case *ast.FuncDecl:
				if v.Name.Name != "IsSlowDown" || v.Recv == nil || v.Body == nil || len(v.Recv.List) != 1 {
					continue
				}
				recv := ""
				if len(v.Recv.List[0].Names) == 1 {
					recv = v.Recv.List[0].Names[0].Name
				}
				var walk func(n ast.Node, done bool)
				walk = func(n ast.Node, done bool) {
					ast.Inspect(n, func(m ast.Node) bool {
						switch w := m.(type) {
						case *ast.CommClause:
							isDone := false
							if w.Comm != nil {
								ast.Inspect(w.Comm, func(k ast.Node) bool {
									if id, ok := k.(*ast.Ident); ok && id.Name == "Done" {
										isDone = true
									}
									return true
								})
							}
							for _, st := range w.Body {
								walk(st, isDone)
							}
							return false
						case *ast.ReturnStmt:
							for _, r := range w.Results {
								txt := grpcstatusR6Expr(r)
								if recv != "" {
									txt = regexp.MustCompile(`\b`+regexp.QuoteMeta(recv)+`\.`).ReplaceAllString(txt, "recv.")
								}
								if done {
									facts = append(facts, "done:"+txt)
								} else {
									facts = append(facts, "live:"+txt)
								}
							}
						}
						return true
					})
				}
				walk(v.Body, false)
			}
		}
	}
	if !found {
		t.errs = append(t.errs, "coreutil.MaxOverdueDuration is not `<int> * time.<Unit>`")
	}
	sort.Strings(facts)
	var q []string
	for _, f := range facts {
		q = append(q, fmt.Sprintf("%q", f))
	}
	fmt.Fprintf(b, "/-- `coreutil.MaxOverdueDuration` in nanoseconds -/\ndef maxOverdueNanos : Nat := %d\n\n", nanos)
	fmt.Fprintf(b, "/-- `(*Waiter).IsSlowDown`: what it returns once the context is done (`done:`) and otherwise (`live:`), as a sorted set -/\ndef isSlowDownFacts : List String := [%s]\n\n", strings.Join(q, ", "))
}

func grpcstatusR6Expr(e ast.Expr) string {
	var sb strings.Builder
	_ = printer.Fprint(&sb, token.NewFileSet(), e)
	return strings.Join(strings.Fields(sb.String()), " ")
}

func grpcstatusR6Discarded(t *tr, b *strings.Builder, fd *ast.FuncDecl) {
	var facts []string
	var lits []*ast.CompositeLit
	pool := false
	ast.Inspect(fd.Body, func(n ast.Node) bool {
		switch v := n.(type) {
		case *ast.CompositeLit:
			if id, ok := v.Type.(*ast.Ident); ok && id.Name == "Sample" {
				lits = append(lits, v)
			}
		case *ast.Ident:
			if v.Name == "samplePool" || v.Name == "Acquire" {
				pool = true
			}
		}
		return true
	})
	if len(lits) != 1 {
		t.errs = append(t.errs, fmt.Sprintf("DiscardedShootSample: %d Sample literals", len(lits)))
	}
	// the variable the literal is bound to
	holder := ""
	for _, st := range fd.Body.List {
		as, ok := st.(*ast.AssignStmt)
		if !ok || len(as.Lhs) != 1 || len(as.Rhs) != 1 {
			continue
		}
		r := as.Rhs[0]
		if u, ok := r.(*ast.UnaryExpr); ok && u.Op == token.AND {
			r = u.X
		}
		if cl, ok := r.(*ast.CompositeLit); ok && len(lits) == 1 && cl == lits[0] {
			if id, ok := as.Lhs[0].(*ast.Ident); ok {
				holder = id.Name
			}
		}
	}
	for _, cl := range lits {
		for _, el := range cl.Elts {
			kv, ok := el.(*ast.KeyValueExpr)
			if !ok {
				t.errs = append(t.errs, "DiscardedShootSample: Sample literal without keys")
				continue
			}
			facts = append(facts, "lit:"+grpcstatusR6Expr(kv.Key)+"="+grpcstatusR6Expr(kv.Value))
		}
	}
	ast.Inspect(fd.Body, func(n ast.Node) bool {
		switch v := n.(type) {
		case *ast.CallExpr:
			if sel, ok := v.Fun.(*ast.SelectorExpr); ok {
				if x, ok := sel.X.(*ast.Ident); ok && holder != "" && x.Name == holder {
					var args []string
					for _, a := range v.Args {
						args = append(args, grpcstatusR6Expr(a))
					}
					facts = append(facts, "call:"+sel.Sel.Name+"("+strings.Join(args, ", ")+")")
				}
			}
		case *ast.ReturnStmt:
			if len(v.Results) == 1 {
				if id, ok := v.Results[0].(*ast.Ident); ok && holder != "" && id.Name == holder {
					facts = append(facts, "returns:it")
				} else {
					facts = append(facts, "returns:"+grpcstatusR6Expr(v.Results[0]))
				}
			}
		case *ast.AssignStmt:
			// a field of the sample written directly
			for i, l := range v.Lhs {
				if sel, ok := l.(*ast.SelectorExpr); ok {
					if x, ok := sel.X.(*ast.Ident); ok && holder != "" && x.Name == holder && i < len(v.Rhs) {
						facts = append(facts, "set:"+sel.Sel.Name+"="+grpcstatusR6Expr(v.Rhs[i]))
					}
				}
			}
		}
		return true
	})
	facts = append(facts, fmt.Sprintf("pool:%v", pool))
	sort.Strings(facts)
	var q []string
	for _, f := range facts {
		q = append(q, fmt.Sprintf("%q", f))
	}
	fmt.Fprintf(b, "/-- `netsample.DiscardedShootSample`: the fields of the `Sample` literal it builds, the method calls on that sample, whether it\ntouches the sample pool, what it returns — as a sorted set -/\ndef discardedShootSampleFacts : List String := [%s]\n\n", strings.Join(q, ", "))
}
