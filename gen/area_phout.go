package main

// Area "phout" (property C06): re-extracts from core/aggregator/netsample
//   - the iota block of field-index constants of sample.go (name, value), fieldsNum, len(Sample.fields)
//   - which public setter of *Sample writes which index constant
//   - appendPhout statement by statement, as a list of Pandora.Model.Phout.Stmt
//   - the constants and the shape of appendTimestamp (divisor of UnixNano, base, dot position, dot byte,
//     the byte-shift loop)
//   - the line terminator appended by (*phoutAggregator).handle
// Everything outside the recognised shapes is a translator error (broken obligation).

import (
	"bytes"
	"fmt"
	"go/ast"
	"go/constant"
	"go/printer"
	"go/token"
	"go/types"
	"sort"
	"strings"
)

func init() {
	areas["phout"] = area{
		pkgPath:   "github.com/yandex/pandora/core/aggregator/netsample",
		module:    "Phout",
		namespace: "Pandora.Gen.Phout",
		imports:   []string{"Pandora.Model.C06Phout"},
		extra:     phoutExtra,
	}
}

func phoutSrc(t *tr, n ast.Node) string {
	var b bytes.Buffer
	_ = printer.Fprint(&b, t.pkg.Fset, n)
	return strings.Join(strings.Fields(b.String()), " ")
}

func phoutConstInt(t *tr, e ast.Expr) (int64, bool) {
	tv, ok := t.pkg.TypesInfo.Types[e]
	if !ok || tv.Value == nil {
		return 0, false
	}
	v := constant.ToInt(tv.Value)
	if v.Kind() != constant.Int {
		return 0, false
	}
	i, exact := constant.Int64Val(v)
	return i, exact
}

func phoutFindMethod(t *tr, recv, name string) *ast.FuncDecl {
	for _, f := range t.pkg.Syntax {
		for _, d := range f.Decls {
			fd, ok := d.(*ast.FuncDecl)
			if !ok || fd.Recv == nil || fd.Name.Name != name || len(fd.Recv.List) != 1 {
				continue
			}
			ty := fd.Recv.List[0].Type
			if st, ok := ty.(*ast.StarExpr); ok {
				ty = st.X
			}
			if id, ok := ty.(*ast.Ident); ok && id.Name == recv {
				return fd
			}
		}
	}
	return nil
}

// phoutAtom recognises one `dst = …` statement of appendPhout.
func phoutAtom(t *tr, st ast.Stmt, rangeVar string) string {
	as, ok := st.(*ast.AssignStmt)
	if !ok || as.Tok != token.ASSIGN || len(as.Lhs) != 1 || len(as.Rhs) != 1 || phoutSrc(t, as.Lhs[0]) != "dst" {
		return t.fail(st, "appendPhout statement %q", phoutSrc(t, st))
	}
	call, ok := as.Rhs[0].(*ast.CallExpr)
	if !ok || len(call.Args) < 2 || phoutSrc(t, call.Args[0]) != "dst" && phoutSrc(t, call.Fun) != "appendTimestamp" {
		return t.fail(st, "appendPhout statement %q", phoutSrc(t, st))
	}
	switch phoutSrc(t, call.Fun) {
	case "appendTimestamp":
		if len(call.Args) == 2 && phoutSrc(t, call.Args[0]) == "s.timeStamp" && phoutSrc(t, call.Args[1]) == "dst" {
			return ".timestamp"
		}
	case "append":
		if len(call.Args) != 2 {
			break
		}
		if call.Ellipsis.IsValid() {
			if phoutSrc(t, call.Args[1]) == "s.tags" {
				return ".tags"
			}
			break
		}
		if v, ok := phoutConstInt(t, call.Args[1]); ok && v >= 0 && v < 256 {
			return fmt.Sprintf(".byte %d", v)
		}
	case "strconv.AppendInt":
		if len(call.Args) != 3 {
			break
		}
		base, ok := phoutConstInt(t, call.Args[2])
		if !ok {
			break
		}
		switch phoutSrc(t, call.Args[1]) {
		case "int64(s.ID())":
			return fmt.Sprintf(".intId %d", base)
		case "int64(" + rangeVar + ")":
			if rangeVar != "" {
				return fmt.Sprintf(".intVar %d", base)
			}
		}
	}
	return t.fail(st, "appendPhout statement %q", phoutSrc(t, st))
}

func phoutAtoms(t *tr, body *ast.BlockStmt, rangeVar string) string {
	var xs []string
	for _, st := range body.List {
		xs = append(xs, phoutAtom(t, st, rangeVar))
	}
	return "[" + strings.Join(xs, ", ") + "]"
}

func phoutExtra(t *tr) string {
	var b strings.Builder
	b.WriteString("open Pandora.Model.Phout\n\n")
	scope := t.pkg.Types.Scope()

	// ---- the iota block: all package-level constants whose name starts with "key", plus fieldsNum
	type kc struct {
		name string
		val  int64
	}
	var keys []kc
	for _, n := range scope.Names() {
		c, ok := scope.Lookup(n).(*types.Const)
		if !ok || !strings.HasPrefix(n, "key") {
			continue
		}
		v, exact := constant.Int64Val(constant.ToInt(c.Val()))
		if !exact {
			t.errs = append(t.errs, "constant "+n+" is not an int64")
			continue
		}
		keys = append(keys, kc{n, v})
	}
	sort.Slice(keys, func(i, j int) bool {
		if keys[i].val != keys[j].val {
			return keys[i].val < keys[j].val
		}
		return keys[i].name < keys[j].name
	})
	b.WriteString("/-- regenerated from `core/aggregator/netsample/sample.go`: the field-index constants (`key…`), sorted by value -/\n")
	b.WriteString("def fieldKeys : List (String × Nat) :=\n  [")
	for i, k := range keys {
		if i > 0 {
			b.WriteString(", ")
		}
		fmt.Fprintf(&b, "(%q, %d)", k.name, k.val)
	}
	b.WriteString("]\n\n")
	if c, ok := scope.Lookup("fieldsNum").(*types.Const); ok {
		v, _ := constant.Int64Val(constant.ToInt(c.Val()))
		fmt.Fprintf(&b, "def fieldsNum : Nat := %d\n\n", v)
	} else {
		t.errs = append(t.errs, "constant fieldsNum not found")
	}
	// len of Sample.fields, element type
	if tn, ok := scope.Lookup("Sample").(*types.TypeName); ok {
		if stt, ok := tn.Type().Underlying().(*types.Struct); ok {
			found := false
			for i := 0; i < stt.NumFields(); i++ {
				f := stt.Field(i)
				if f.Name() == "fields" {
					if arr, ok := f.Type().(*types.Array); ok {
						fmt.Fprintf(&b, "/-- `len(Sample.fields)`, element type `%s` -/\ndef fieldsArrayLen : Nat := %d\n\n", arr.Elem().String(), arr.Len())
						found = true
					}
				}
			}
			if !found {
				t.errs = append(t.errs, "Sample.fields is not an array")
			}
		}
	} else {
		t.errs = append(t.errs, "type Sample not found")
	}

	// ---- setters: methods of *Sample with exactly one s.set(K, …) / s.setDuration(K, …), K a key constant
	type sk struct{ m, k string }
	var setters []sk
	for _, f := range t.pkg.Syntax {
		for _, d := range f.Decls {
			fd, ok := d.(*ast.FuncDecl)
			if !ok || fd.Recv == nil || fd.Body == nil || !strings.HasPrefix(fd.Name.Name, "Set") {
				continue
			}
			if !strings.Contains(phoutSrc(t, fd.Recv.List[0].Type), "Sample") {
				continue
			}
			var ks []string
			ast.Inspect(fd.Body, func(n ast.Node) bool {
				c, ok := n.(*ast.CallExpr)
				if !ok || len(c.Args) < 1 {
					return true
				}
				fn := phoutSrc(t, c.Fun)
				if fn == "s.set" || fn == "s.setDuration" {
					if id, ok := c.Args[0].(*ast.Ident); ok && strings.HasPrefix(id.Name, "key") {
						ks = append(ks, id.Name)
					}
				}
				return true
			})
			if len(ks) == 1 {
				setters = append(setters, sk{fd.Name.Name, ks[0]})
			}
		}
	}
	sort.Slice(setters, func(i, j int) bool { return setters[i].m < setters[j].m })
	b.WriteString("/-- regenerated: setter of `*Sample` ↦ the index constant it writes (`s.set` / `s.setDuration`) -/\n")
	b.WriteString("def setters : List (String × String) :=\n  [")
	for i, s := range setters {
		if i > 0 {
			b.WriteString(", ")
		}
		fmt.Fprintf(&b, "(%q, %q)", s.m, s.k)
	}
	b.WriteString("]\n\n")
	// set / get really index the array with the key
	for name, want := range map[string]string{"set": "{ s.fields[k] = v }", "get": "{ return s.fields[k] }"} {
		fd := phoutFindMethod(t, "Sample", name)
		if fd == nil || phoutSrc(t, fd.Body) != want {
			t.errs = append(t.errs, "(*Sample)."+name+" is not "+want)
		}
	}
	if fd := phoutFindMethod(t, "Sample", "setDuration"); fd == nil || phoutSrc(t, fd.Body) != "{ s.set(k, int(d.Nanoseconds()/1000)) }" {
		t.errs = append(t.errs, "(*Sample).setDuration changed")
	}

	// ---- appendPhout
	if fd := findFunc(t.pkg, "appendPhout"); fd == nil {
		t.errs = append(t.errs, "func appendPhout not found")
	} else {
		if got := phoutSrc(t, fd.Type); got != "func(s *Sample, dst []byte, id bool) []byte" {
			t.fail(fd, "appendPhout signature %q", got)
		}
		var stmts []string
		n := len(fd.Body.List)
		for i, st := range fd.Body.List {
			switch s := st.(type) {
			case *ast.IfStmt:
				if s.Init != nil || s.Else != nil || phoutSrc(t, s.Cond) != "id" {
					stmts = append(stmts, t.fail(s, "if statement %q", phoutSrc(t, s.Cond)))
					continue
				}
				stmts = append(stmts, ".ifId "+phoutAtoms(t, s.Body, ""))
			case *ast.RangeStmt:
				v, ok := s.Value.(*ast.Ident)
				if !ok || phoutSrc(t, s.Key) != "_" || phoutSrc(t, s.X) != "s.fields" || s.Tok != token.DEFINE {
					stmts = append(stmts, t.fail(s, "range statement"))
					continue
				}
				stmts = append(stmts, ".forFields "+phoutAtoms(t, s.Body, v.Name))
			case *ast.ReturnStmt:
				if i != n-1 || len(s.Results) != 1 || phoutSrc(t, s.Results[0]) != "dst" {
					t.fail(s, "return statement")
				}
			default:
				stmts = append(stmts, ".atom ("+phoutAtom(t, st, "")+")")
			}
		}
		b.WriteString("/-- regenerated from `core/aggregator/netsample/phout.go` func `appendPhout`, statement by statement -/\n")
		b.WriteString("def appendPhoutStmts : List Stmt :=\n  [" + strings.Join(stmts, ",\n   ") + "]\n\n")
	}

	// ---- appendTimestamp
	if fd := findFunc(t.pkg, "appendTimestamp"); fd == nil {
		t.errs = append(t.errs, "func appendTimestamp not found")
	} else {
		l := fd.Body.List
		ok := len(l) == 6 && phoutSrc(t, fd.Type) == "func(ts time.Time, dst []byte) []byte"
		var div, base, off, dot int64 = -1, -1, -1, -1
		if ok {
			// dst = strconv.AppendInt(dst, ts.UnixNano()/<div>, <base>)
			if as, o := l[0].(*ast.AssignStmt); o && len(as.Rhs) == 1 && phoutSrc(t, as.Lhs[0]) == "dst" {
				if c, o := as.Rhs[0].(*ast.CallExpr); o && phoutSrc(t, c.Fun) == "strconv.AppendInt" && len(c.Args) == 3 && phoutSrc(t, c.Args[0]) == "dst" {
					if be, o := c.Args[1].(*ast.BinaryExpr); o && be.Op == token.QUO && phoutSrc(t, be.X) == "ts.UnixNano()" {
						div, _ = phoutConstInt(t, be.Y)
					}
					base, _ = phoutConstInt(t, c.Args[2])
				}
			}
			// dotIndex := len(dst) - <off>
			if as, o := l[1].(*ast.AssignStmt); o && as.Tok == token.DEFINE && phoutSrc(t, as.Lhs[0]) == "dotIndex" {
				if be, o := as.Rhs[0].(*ast.BinaryExpr); o && be.Op == token.SUB && phoutSrc(t, be.X) == "len(dst)" {
					off, _ = phoutConstInt(t, be.Y)
				}
			}
			ok = ok && phoutSrc(t, l[2]) == "dst = append(dst, 0)"
			ok = ok && phoutSrc(t, l[3]) == "for i := len(dst) - 1; i > dotIndex; i-- { dst[i] = dst[i-1] }"
			if as, o := l[4].(*ast.AssignStmt); o && as.Tok == token.ASSIGN && phoutSrc(t, as.Lhs[0]) == "dst[dotIndex]" {
				dot, _ = phoutConstInt(t, as.Rhs[0])
			}
			ok = ok && phoutSrc(t, l[5]) == "return dst"
		}
		if !ok || div <= 0 || base <= 0 || off < 0 || dot < 0 {
			t.fail(fd, "appendTimestamp has an unrecognised shape")
		}
		b.WriteString("/-- regenerated from func `appendTimestamp`: `strconv.AppendInt(dst, ts.UnixNano()/tsDivisor, tsBase)`,\n")
		b.WriteString("`dotIndex := len(dst) - tsDotFromEnd`, `append(dst, 0)`, the shift loop, `dst[dotIndex] = tsDotByte` -/\n")
		fmt.Fprintf(&b, "def tsDivisor : Int := %d\ndef tsBase : Nat := %d\ndef tsDotFromEnd : Nat := %d\ndef tsDotByte : Nat := %d\n", div, base, off, dot)
		fmt.Fprintf(&b, "def tsShiftLoop : Bool := %v\n\n", ok)
	}

	// ---- handle: buf = appendPhout(s, buf, config.ID); buf = append(buf, <LF>); Write(buf)
	if fd := phoutFindMethod(t, "phoutAggregator", "handle"); fd == nil {
		t.errs = append(t.errs, "(*phoutAggregator).handle not found")
	} else {
		// (round 6) read structurally, whatever else the function does (the control skeleton of handle is compared in
		// Bridge/C06AggQ.lean): in statement order `X = appendPhout(…, X, …)`, then `X = append(X, <constant>)`, then a
		// statement that calls `….Write(X)`
		l := fd.Body.List
		var term int64 = -1
		stage, lineBuf := 0, ""
		for _, st := range l {
			switch stage {
			case 0:
				if as, o := st.(*ast.AssignStmt); o && len(as.Lhs) == 1 && len(as.Rhs) == 1 {
					if c, o := as.Rhs[0].(*ast.CallExpr); o && phoutSrc(t, c.Fun) == "appendPhout" && len(c.Args) == 3 && phoutSrc(t, c.Args[1]) == phoutSrc(t, as.Lhs[0]) {
						lineBuf, stage = phoutSrc(t, as.Lhs[0]), 1
					}
				}
			case 1:
				if as, o := st.(*ast.AssignStmt); o && len(as.Lhs) == 1 && len(as.Rhs) == 1 && phoutSrc(t, as.Lhs[0]) == lineBuf {
					if c, o := as.Rhs[0].(*ast.CallExpr); o && phoutSrc(t, c.Fun) == "append" && len(c.Args) == 2 && phoutSrc(t, c.Args[0]) == lineBuf {
						if v, o := phoutConstInt(t, c.Args[1]); o {
							term, stage = v, 2
						}
					}
				}
			case 2:
				ast.Inspect(st, func(n ast.Node) bool {
					if c, o := n.(*ast.CallExpr); o && len(c.Args) == 1 && phoutSrc(t, c.Args[0]) == lineBuf {
						if sel, o := c.Fun.(*ast.SelectorExpr); o && sel.Sel.Name == "Write" {
							stage = 3
						}
					}
					return true
				})
			}
		}
		ok := stage == 3
		if !ok || term < 0 {
			t.fail(fd, "(*phoutAggregator).handle has an unrecognised shape")
		}
		fmt.Fprintf(&b, "/-- regenerated from `(*phoutAggregator).handle`: the byte appended after `appendPhout` -/\ndef lineTerminator : Nat := %d\n", term)
	}
	return b.String()
}
