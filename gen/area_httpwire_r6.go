package main

// Area "httpwire", round 6: shape facts for code the anchored files DEPEND ON and that was tied by correspondence only.
//
//	lib/netutil/validator.go             ValidHTTPMethod                        -> validMethodSrc
//	providers/http/ammo/ammo.go          GunAmmo.Request / IsInvalid, NewGunAmmo -> gunAmmoSrc
//	providers/http/decoders/ammo/ammo.go Ammo.Setup / Reset                     -> ammoSetupSrc
//	providers/http/decoders/decoder.go   NewDecoder (option headers decoded once; decoder by type) -> newDecoderSrc
//	guns/http/{http,connect}.go          Default{HTTP,HTTP2,Connect}GunConfig: ssl / client defaults -> gunDefaults
//	guns/http/client.go                  DefaultClientConfig, DefaultDialerConfig, NewDialer -> clientDefaults
//
// Every row is a statement rendered by origin (httpwireStmt of round 3: independent of the names of locals and parameters);
// Pandora.Bridge.HttpWire pins the rows (`r6_shape`). A change of one of these functions re-opens that obligation even when no
// generated input happens to hit it.

import (
	"fmt"
	"go/ast"
	"go/token"
	"go/types"
	"sort"
	"strings"

	"golang.org/x/tools/go/packages"
)

func httpwireR6Load(pkgs map[string]*packages.Package) {
	paths := []string{hwBase + "lib/netutil", hwBase + "components/providers/http/ammo"}
	cfg := &packages.Config{Mode: packages.NeedName | packages.NeedSyntax | packages.NeedTypes | packages.NeedTypesInfo |
		packages.NeedFiles | packages.NeedImports, Dir: repo, BuildFlags: []string{"-tags=verif"}}
	more, err := packages.Load(cfg, paths...)
	if err != nil {
		return
	}
	for _, p := range more {
		if len(p.Errors) == 0 {
			pkgs[strings.TrimPrefix(p.PkgPath, hwBase)] = p
		}
	}
}

// httpwireR6Rows renders the statements of the named functions / methods of one package (`Recv.Name` or `Name`)
func (x *hw) httpwireR6Rows(pkg string, names ...string) []string {
	p := x.pkgs[pkg]
	if p == nil {
		x.failf(nil, nil, "package %s not loaded", pkg)
		return nil
	}
	var rows []string
	for _, n := range names {
		recv, name := "", n
		if i := strings.Index(n, "."); i >= 0 {
			recv, name = n[:i], n[i+1:]
		}
		var fd *ast.FuncDecl
		if recv == "" {
			fd = hwFunc(p, "", name)
		} else {
			fd = httpwireMethod(p, recv, name)
		}
		if fd == nil || fd.Body == nil {
			x.failf(p, nil, "%s.%s not found", pkg, n)
			continue
		}
		d := &hwDesc{x: x, p: p, fn: fd, labels: map[types.Object]string{}}
		var body []string
		for _, s := range fd.Body.List {
			body = append(body, d.httpwireR6Stmt(s))
		}
		rows = append(rows, n+": "+strings.Join(body, " ; "))
	}
	return rows
}

// httpwireR6Expr renders composite literals field by field (sorted), constants by value, everything else by origin
func (d *hwDesc) httpwireR6Expr(e ast.Expr) string {
	switch v := e.(type) {
	case *ast.ParenExpr:
		return d.httpwireR6Expr(v.X)
	case *ast.UnaryExpr:
		if v.Op == token.AND {
			return "&" + d.httpwireR6Expr(v.X)
		}
	case *ast.CompositeLit:
		var fs []string
		for _, el := range v.Elts {
			if kv, ok := el.(*ast.KeyValueExpr); ok {
				fs = append(fs, hwSrc(d.p, kv.Key)+"="+d.httpwireR6Expr(kv.Value))
			} else {
				fs = append(fs, d.httpwireR6Expr(el))
			}
		}
		sort.Strings(fs)
		ty := ""
		if v.Type != nil {
			ty = hwSrc(d.p, v.Type)
		}
		return ty + "{" + strings.Join(fs, ",") + "}"
	}
	if tv, ok := d.p.TypesInfo.Types[e]; ok && tv.Value != nil {
		return "const:" + tv.Value.ExactString()
	}
	return d.desc(e)
}

func (d *hwDesc) httpwireR6Stmt(s ast.Stmt) string {
	switch v := s.(type) {
	case *ast.ReturnStmt:
		var r []string
		for _, e := range v.Results {
			r = append(r, d.httpwireR6Expr(e))
		}
		return "return " + strings.Join(r, ",")
	case *ast.AssignStmt:
		if len(v.Lhs) == 1 && len(v.Rhs) == 1 {
			inner := v.Rhs[0]
			if u, ok := inner.(*ast.UnaryExpr); ok && u.Op == token.AND {
				inner = u.X
			}
			if _, ok := inner.(*ast.CompositeLit); ok {
				return "def:=" + d.httpwireR6Expr(v.Rhs[0])
			}
		}
	}
	return d.httpwireStmt(s)
}

func (x *hw) httpwireRound6(out *strings.Builder) {
	httpwireR6Load(x.pkgs)
	fmt.Fprintf(out, "/-- regenerated from `lib/netutil/validator.go` func `ValidHTTPMethod` (what Ammo.Setup accepts as a method) -/\ndef validMethodSrc : List String := %s\n\n",
		hwStrList(x.httpwireR6Rows("lib/netutil", "ValidHTTPMethod", "isNotToken")))
	fmt.Fprintf(out, "/-- regenerated from `components/providers/http/ammo/ammo.go`: the ammo the gun gets carries the request BuildRequest made, as it is -/\ndef gunAmmoSrc : List String := %s\n\n",
		hwStrList(x.httpwireR6Rows("components/providers/http/ammo", "GunAmmo.Request", "GunAmmo.IsInvalid", "NewGunAmmo")))
	fmt.Fprintf(out, "/-- regenerated from `components/providers/http/decoders/ammo/ammo.go` methods `Ammo.Setup` / `Reset`: what is stored (as given) and what is refused -/\ndef ammoSetupSrc : List String := %s\n\n",
		hwStrList(x.httpwireR6Rows("components/providers/http/decoders/ammo", "Ammo.Setup", "Ammo.Reset", "RawAmmo.Reset")))
	fmt.Fprintf(out, "/-- regenerated from `components/providers/http/decoders/decoder.go` func `NewDecoder`: the `headers` option is decoded once and handed to the decoder of the configured type -/\ndef newDecoderSrc : List String := %s\n\n",
		hwStrList(x.httpwireR6Rows("components/providers/http/decoders", "NewDecoder")))
	fmt.Fprintf(out, "/-- regenerated from `components/guns/http/http.go`, `connect.go`: the default gun configurations (ssl, client, optional features) -/\ndef gunDefaults : List String := %s\n\n",
		hwStrList(x.httpwireR6Rows("components/guns/http", "DefaultHTTPGunConfig", "DefaultHTTP2GunConfig", "DefaultConnectGunConfig")))
	fmt.Fprintf(out, "/-- regenerated from `components/guns/http/client.go`: the default client / dialer configuration and the dialer built from it -/\ndef clientDefaults : List String := %s\n\n",
		hwStrList(x.httpwireR6Rows("components/guns/http", "DefaultClientConfig", "DefaultDialerConfig", "NewDialer")))
}
