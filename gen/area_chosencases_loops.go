package main

// Part of area "chosencases" (property C14): the translator of the provider LOOP BODIES.  This is a copy (identifiers
// renamed) of the part of gen/area_provloops.go (written for C08) that reads
//
//	components/providers/http/provider/provider.go  runFullScan loop body, runPreloaded loop body, Run (sentinel mapping, deferred close)
//	components/providers/http/provider.go           NewProvider: capacity of Sink, decoderConf.Limit = 0
//	components/providers/http/decoders/jsonline.go  scanAmmos
//
// so that C14's regenerated file does not depend on the other providers that area "provloops" also reads (scenario,
// grpc, generic JSON, MultiPassReader).  Reading of Go (trusted, the same as provloops):
//
//	uint counters and config fields                                                   -> Nat
//	err := ctx.Err(); if err != nil { …; return err }                                 -> if c then Act.ret RunRes.canceled else …
//	x := e / x = e / x++ / if c { x = e } / if c { x++ }                              -> let x := …
//	if c { return SENTINEL }                                                         -> if c then Act.ret … else …
//	a == b - k  (ints)                                                               -> a + k = b
//	errors.Is(err, decoders.ErrX)                                                    -> errV = RunRes.errX   (err is one of the sentinels or opaque)
//	select { case <-ctx.Done(): return R; case sink <- ammo: S }                       -> Act.offer i (state after S), doneRes := R
//	if !confutil.IsChosenCase(ammo.Tag(), p.Config.ChosenCases) { continue }           -> if ¬ chosen then Act.tau … else …
//
// Every statement of the translated bodies must match one of the listed shapes; anything else makes gen fail.
//
// Round 4: the loop bodies of runFullScan / runPreloaded and Run are no longer read here (symbolic execution,
// area_chosencases_sym.go + area_chosencases_symloops.go); what is still used of this file: scanAmmos, chanCapOf,
// deferCloses and the guard translator they share.

import (
	"bytes"
	"fmt"
	"go/ast"
	"go/constant"
	"go/printer"
	"go/token"
	"strings"

	"golang.org/x/tools/go/packages"
)

type chosencasesPl struct {
	t    *tr
	pkg  *packages.Package
	vars map[string]string // normalised Go source of an expression -> Lean term
	ctx  string            // name of the function being translated (messages)
}

func (x *chosencasesPl) src(n ast.Node) string {
	var b bytes.Buffer
	_ = printer.Fprint(&b, x.pkg.Fset, n)
	return strings.Join(strings.Fields(b.String()), " ")
}

func (x *chosencasesPl) fail(n ast.Node, format string, a ...any) string {
	msg := fmt.Sprintf("%s: unsupported (chosencases loops %s): %s", x.pkg.Fset.Position(n.Pos()), x.ctx, fmt.Sprintf(format, a...))
	x.t.errs = append(x.t.errs, msg)
	return "(UNSUPPORTED)"
}


var chosencasesSentinels = map[string]string{
	"decoders.ErrPassLimit": "RunRes.errPasses", "ErrPassLimit": "RunRes.errPasses",
	"decoders.ErrAmmoLimit": "RunRes.errLimit", "ErrAmmoLimit": "RunRes.errLimit",
	"decoders.ErrNoAmmo": "RunRes.errNoAmmo", "ErrNoAmmo": "RunRes.errNoAmmo",
	"nil": "RunRes.nil",
}

// expr: pure Nat / Prop valued expressions over x.vars.
func (x *chosencasesPl) expr(e ast.Expr) string {
	info := x.pkg.TypesInfo
	if v, ok := x.vars[x.src(e)]; ok {
		return v
	}
	if tv, ok := info.Types[e]; ok && tv.Value != nil && tv.Value.Kind() == constant.Int {
		return tv.Value.ExactString()
	}
	switch v := e.(type) {
	case *ast.ParenExpr:
		return "(" + x.expr(v.X) + ")"
	case *ast.Ident:
		if v.Name == "true" {
			return "True"
		}
		if v.Name == "false" {
			return "False"
		}
		return x.fail(e, "unknown identifier %s", v.Name)
	case *ast.UnaryExpr:
		if v.Op == token.NOT {
			return "(¬ " + x.expr(v.X) + ")"
		}
	case *ast.CallExpr:
		// conversions between integer types
		if tv, ok := info.Types[v.Fun]; ok && tv.IsType() && len(v.Args) == 1 && isInt(tv.Type) && isInt(info.TypeOf(v.Args[0])) {
			return x.expr(v.Args[0])
		}
		if s := x.src(v.Fun); (s == "errors.Is" || s == "xerrors.Is") && len(v.Args) == 2 && x.src(v.Args[0]) == "err" {
			if r, ok := chosencasesSentinels[x.src(v.Args[1])]; ok && r != "RunRes.nil" {
				return "(errV = " + r + ")"
			}
		}
	case *ast.BinaryExpr:
		// comparisons with a subtraction on one side: a == b - k  ->  a + k = b
		if v.Op == token.EQL || v.Op == token.NEQ || v.Op == token.LSS || v.Op == token.LEQ || v.Op == token.GTR || v.Op == token.GEQ {
			op := map[token.Token]string{token.EQL: "=", token.NEQ: "≠", token.LSS: "<", token.LEQ: "≤", token.GTR: ">", token.GEQ: "≥"}[v.Op]
			lx, ly := ast.Expr(v.X), ast.Expr(v.Y)
			addL, addR := "", ""
			if b, ok := chosencasesUnparen(ly).(*ast.BinaryExpr); ok && b.Op == token.SUB {
				ly, addL = b.X, x.expr(b.Y)
			}
			if b, ok := chosencasesUnparen(lx).(*ast.BinaryExpr); ok && b.Op == token.SUB {
				lx, addR = b.X, x.expr(b.Y)
			}
			l, r := x.expr(lx), x.expr(ly)
			if addL != "" {
				l = "(" + l + " + " + addL + ")"
			}
			if addR != "" {
				r = "(" + r + " + " + addR + ")"
			}
			return "(" + l + " " + op + " " + r + ")"
		}
		l, r := x.expr(v.X), x.expr(v.Y)
		switch v.Op {
		case token.ADD:
			return "(" + l + " + " + r + ")"
		case token.MUL:
			return "(" + l + " * " + r + ")"
		case token.QUO:
			return "(" + l + " / " + r + ")"
		case token.REM:
			return "(" + l + " % " + r + ")"
		case token.LAND:
			return "(" + l + " ∧ " + r + ")"
		case token.LOR:
			return "(" + l + " ∨ " + r + ")"
		}
	}
	return x.fail(e, "expression %s", x.src(e))
}

func chosencasesUnparen(e ast.Expr) ast.Expr {
	for {
		p, ok := e.(*ast.ParenExpr)
		if !ok {
			return e
		}
		e = p.X
	}
}

// lhs: the Lean variable an assignment target stands for
func (x *chosencasesPl) lhs(e ast.Expr) (string, bool) {
	v, ok := x.vars[x.src(e)]
	return v, ok
}

// isCtxErrCheck: `if err != nil { [if !errors.Is(err, context.Canceled) { err = wrap }]; return err }` right after `err := ctx.Err()`
func (x *chosencasesPl) isCtxErrCheck(s ast.Stmt) bool {
	is, ok := s.(*ast.IfStmt)
	if !ok || is.Init != nil || is.Else != nil || x.src(is.Cond) != "err != nil" || len(is.Body.List) == 0 {
		return false
	}
	last, ok := is.Body.List[len(is.Body.List)-1].(*ast.ReturnStmt)
	if !ok || len(last.Results) != 1 || x.src(last.Results[0]) != "err" {
		return false
	}
	for _, st := range is.Body.List[:len(is.Body.List)-1] {
		// only the DeadlineExceeded wrapping is allowed here
		if !strings.HasPrefix(x.src(st), "if !errors.Is(err, context.Canceled) {") {
			return false
		}
	}
	return true
}

// doneBranch: the statements of `case <-ctx.Done():` must end in a return; its result class
func (x *chosencasesPl) doneBranch(cc *ast.CommClause) string {
	if len(cc.Body) == 0 {
		return x.fail(cc, "empty Done branch")
	}
	ret, ok := cc.Body[len(cc.Body)-1].(*ast.ReturnStmt)
	if !ok || len(ret.Results) != 1 {
		return x.fail(cc, "Done branch does not end in a return")
	}
	for _, st := range cc.Body[:len(cc.Body)-1] {
		// err = ctx.Err() (possibly wrapped when it is not context.Canceled); logging
		s := x.src(st)
		if s != "err = ctx.Err()" && !strings.HasPrefix(s, "if err != nil && !errors.Is(err, context.Canceled) {") &&
			!strings.HasPrefix(s, "p.Log.") && !strings.HasPrefix(s, "p.log.") {
			return x.fail(st, "Done branch statement %s", s)
		}
	}
	switch x.src(ret.Results[0]) {
	case "nil":
		return "RunRes.nil"
	case "err", "ctx.Err()":
		return "RunRes.canceled"
	}
	return x.fail(ret, "Done branch returns %s", x.src(ret.Results[0]))
}

type chosencasesSelectInfo struct {
	done     string     // RunRes of the Done branch
	sendBody []ast.Stmt // statements of the send case
	sendVal  string     // source of the sent value
	sink     string     // source of the channel
}

func (x *chosencasesPl) selectStmt(s *ast.SelectStmt) (chosencasesSelectInfo, bool) {
	var si chosencasesSelectInfo
	if len(s.Body.List) != 2 {
		x.fail(s, "select with %d cases", len(s.Body.List))
		return si, false
	}
	seenDone, seenSend := false, false
	for _, c := range s.Body.List {
		cc := c.(*ast.CommClause)
		switch comm := cc.Comm.(type) {
		case *ast.ExprStmt:
			if x.src(comm.X) != "<-ctx.Done()" {
				x.fail(comm, "select case %s", x.src(comm))
				return si, false
			}
			si.done = x.doneBranch(cc)
			seenDone = true
		case *ast.SendStmt:
			si.sink, si.sendVal, si.sendBody = x.src(comm.Chan), x.src(comm.Value), cc.Body
			seenSend = true
		default:
			x.fail(cc, "select case")
			return si, false
		}
	}
	return si, seenDone && seenSend
}

// guards translates a statement list made of pure updates and guarded returns; `fall` renders what follows when
// the list falls through, `special` may take over a statement (returns handled=true and the full rest translation).
type chosencasesGuardCtx struct {
	ret      func(r *ast.ReturnStmt) string // Lean term for a return statement
	brk      string                         // Lean term for `break` ("" = not allowed)
	cont     string                         // Lean term for `continue`
	typeOf   func(v string) string          // Lean type of a variable (for let)
	skip     func(s string) bool            // source prefixes of statements that are ignored
	special  func(s ast.Stmt, rest []ast.Stmt, ind string) (string, bool)
	fall     func(ind string) string
}

func (x *chosencasesPl) guards(stmts []ast.Stmt, ind string, g *chosencasesGuardCtx) string {
	if len(stmts) == 0 {
		return g.fall(ind)
	}
	s, rest := stmts[0], stmts[1:]
	if g.special != nil {
		if out, ok := g.special(s, rest, ind); ok {
			return out
		}
	}
	if g.skip != nil && g.skip(x.src(s)) {
		return x.guards(rest, ind, g)
	}
	ty := func(v string) string {
		if g.typeOf != nil {
			return g.typeOf(v)
		}
		return "Nat"
	}
	switch v := s.(type) {
	case *ast.AssignStmt:
		if len(v.Lhs) == 1 && len(v.Rhs) == 1 && (v.Tok == token.ASSIGN || v.Tok == token.DEFINE) {
			// err := ctx.Err(); if err != nil { … return err }
			if x.src(v.Rhs[0]) == "ctx.Err()" && x.src(v.Lhs[0]) == "err" && len(rest) > 0 && x.isCtxErrCheck(rest[0]) {
				return ind + "if c then Act.ret RunRes.canceled else\n" + x.guards(rest[1:], ind, g)
			}
			if name, ok := x.lhs(v.Lhs[0]); ok {
				if x.src(v.Lhs[0]) == "err" && x.src(v.Rhs[0]) == "nil" {
					return ind + "let errV : RunRes := RunRes.nil\n" + x.guards(rest, ind, g)
				}
				return ind + "let " + name + " : " + ty(name) + " := " + x.expr(v.Rhs[0]) + "\n" + x.guards(rest, ind, g)
			}
		}
	case *ast.IncDecStmt:
		if name, ok := x.lhs(v.X); ok && v.Tok == token.INC {
			return ind + "let " + name + " : " + ty(name) + " := " + name + " + 1\n" + x.guards(rest, ind, g)
		}
	case *ast.ReturnStmt:
		return ind + g.ret(v)
	case *ast.BranchStmt:
		if v.Tok == token.BREAK && g.brk != "" {
			return ind + g.brk
		}
		if v.Tok == token.CONTINUE && g.cont != "" {
			return ind + g.cont
		}
	case *ast.IfStmt:
		if v.Init == nil && v.Else == nil && len(v.Body.List) > 0 {
			body := v.Body.List
			switch last := body[len(body)-1].(type) {
			case *ast.ReturnStmt, *ast.BranchStmt:
				_ = last
				return ind + "if " + x.expr(v.Cond) + " then\n" + x.guards(body, ind+"  ", g) + "\n" + ind + "else\n" + x.guards(rest, ind, g)
			}
			if len(body) == 1 {
				switch b := body[0].(type) {
				case *ast.AssignStmt:
					if len(b.Lhs) == 1 && len(b.Rhs) == 1 && b.Tok == token.ASSIGN {
						if name, ok := x.lhs(b.Lhs[0]); ok {
							if x.src(b.Lhs[0]) == "err" && x.src(b.Rhs[0]) == "nil" {
								return ind + "let errV : RunRes := if " + x.expr(v.Cond) + " then RunRes.nil else errV\n" + x.guards(rest, ind, g)
							}
							return ind + "let " + name + " : " + ty(name) + " := if " + x.expr(v.Cond) + " then " + x.expr(b.Rhs[0]) + " else " + name + "\n" + x.guards(rest, ind, g)
						}
					}
				case *ast.IncDecStmt:
					if name, ok := x.lhs(b.X); ok && b.Tok == token.INC {
						return ind + "let " + name + " : " + ty(name) + " := if " + x.expr(v.Cond) + " then " + name + " + 1 else " + name + "\n" + x.guards(rest, ind, g)
					}
				}
			}
		}
	}
	return ind + x.fail(s, "statement %s", x.src(s))
}

// retSentinel: `return SENTINEL` / `return nil, SENTINEL` -> Act.ret …
func (x *chosencasesPl) retSentinel(wrap string) func(r *ast.ReturnStmt) string {
	return func(r *ast.ReturnStmt) string {
		if len(r.Results) == 0 {
			return x.fail(r, "bare return")
		}
		last := x.src(r.Results[len(r.Results)-1])
		if last == "err" {
			return wrap + "errV"
		}
		if v, ok := chosencasesSentinels[last]; ok {
			return wrap + v
		}
		if strings.HasPrefix(last, "errors.New(") || strings.HasPrefix(last, "errors.Wrap") || strings.HasPrefix(last, "fmt.Errorf(") || strings.HasPrefix(last, "xerrors.Errorf(") {
			return wrap + "RunRes.errOther"
		}
		return x.fail(r, "return %s", last)
	}
}


func chosencasesForBody(fd *ast.FuncDecl) *ast.ForStmt {
	var out *ast.ForStmt
	for _, s := range fd.Body.List {
		if f, ok := s.(*ast.ForStmt); ok && out == nil {
			out = f
		}
	}
	return out
}

// deferCloses: does the function defer close(<ch>) (directly or inside a deferred func literal)?  Returns the
// channel expression and, for a deferred literal, its statements.
func (x *chosencasesPl) deferCloses(fd *ast.FuncDecl) (string, []ast.Stmt) {
	for _, s := range fd.Body.List {
		d, ok := s.(*ast.DeferStmt)
		if !ok {
			continue
		}
		if id, ok := d.Call.Fun.(*ast.Ident); ok && id.Name == "close" && len(d.Call.Args) == 1 {
			return x.src(d.Call.Args[0]), nil
		}
		if fl, ok := d.Call.Fun.(*ast.FuncLit); ok {
			for _, st := range fl.Body.List {
				if es, ok := st.(*ast.ExprStmt); ok {
					if c, ok := es.X.(*ast.CallExpr); ok {
						if id, ok := c.Fun.(*ast.Ident); ok && id.Name == "close" && len(c.Args) == 1 {
							return x.src(c.Args[0]), fl.Body.List
						}
					}
				}
			}
		}
	}
	return "", nil
}

// chanCapOf finds `make(chan T[, n])` inside node and returns its capacity as Lean text.
func (x *chosencasesPl) chanCapOf(node ast.Node, want string) string {
	found := ""
	ast.Inspect(node, func(n ast.Node) bool {
		c, ok := n.(*ast.CallExpr)
		if !ok {
			return true
		}
		id, ok := c.Fun.(*ast.Ident)
		if !ok || id.Name != "make" || len(c.Args) == 0 {
			return true
		}
		if _, ok := c.Args[0].(*ast.ChanType); !ok {
			return true
		}
		if found != "" {
			found = x.fail(c, "second make(chan) in %s", want)
			return false
		}
		if len(c.Args) == 1 {
			found = "0"
			return true
		}
		if tv, ok := x.pkg.TypesInfo.Types[c.Args[1]]; ok && tv.Value != nil && tv.Value.Kind() == constant.Int {
			found = tv.Value.ExactString()
			return true
		}
		if v, ok := x.vars[x.src(c.Args[1])]; ok {
			found = v
			return true
		}
		found = x.fail(c, "channel capacity %s", x.src(c.Args[1]))
		return true
	})
	if found == "" {
		return x.fail(node, "no make(chan) in %s", want)
	}
	return found
}

// requireMin0: int config fields read as Nat must be validated non-negative


func chosencasesShortPath(p string) string {
	if i := strings.Index(p, "/components/"); i >= 0 {
		return p[i+1:]
	}
	if i := strings.Index(p, "/core/"); i >= 0 {
		return p[i+1:]
	}
	if i := strings.Index(p, "/lib/"); i >= 0 {
		return p[i+1:]
	}
	return p
}



// scanAmmos of the jsonline decoder (JSON array)
func (x *chosencasesPl) scanAmmos(fd *ast.FuncDecl) string {
	x.vars = map[string]string{
		"d.config.Passes": "passes", "d.passNum": "passNum", "d.ammoNum": "ammoNum", "length": "length", "i": "i",
		"len(d.ammos)": "length",
	}
	item := ""
	g := &chosencasesGuardCtx{}
	g.ret = func(r *ast.ReturnStmt) string {
		if len(r.Results) != 2 {
			return x.fail(r, "return arity")
		}
		a, e := x.src(r.Results[0]), x.src(r.Results[1])
		if a == "nil" {
			switch e {
			case "ErrNoAmmo":
				return "(ScanRes.errNoAmmo, ammoNum, passNum)"
			case "ErrPassLimit":
				return "(ScanRes.errPass, ammoNum, passNum)"
			case "ErrAmmoLimit":
				return "(ScanRes.errLimit, ammoNum, passNum)"
			}
		}
		if a == "a" && e == "nil" && item != "" {
			return "(ScanRes.ammo " + item + ", ammoNum, passNum)"
		}
		return x.fail(r, "return %s, %s", a, e)
	}
	g.special = func(s ast.Stmt, rest []ast.Stmt, ind string) (string, bool) {
		if x.src(s) == "length := len(d.ammos)" {
			return x.guards(rest, ind, g), true
		}
		if as, ok := s.(*ast.AssignStmt); ok && len(as.Lhs) == 1 && x.src(as.Lhs[0]) == "a" {
			if ie, ok := as.Rhs[0].(*ast.IndexExpr); ok && x.src(ie.X) == "d.ammos" {
				item = x.expr(ie.Index)
				return x.guards(rest, ind, g), true
			}
		}
		return "", false
	}
	g.fall = func(ind string) string { return ind + x.fail(fd, "falls through") }
	return fmt.Sprintf("/-- regenerated from `components/providers/http/decoders/jsonline.go` scanAmmos (`length` = len(d.ammos)); result, ammoNum, passNum -/\n"+
		"def scanAmmosStep (passes length ammoNum passNum : Nat) : ScanRes × Nat × Nat :=\n%s\n\n", x.guards(fd.Body.List, "  ", g))
}

// grpcStart: grpcjson (*Provider).start
