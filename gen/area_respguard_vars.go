package main

// Area "respguard", round 3: the code that reads RESPONSE-DERIVED VARIABLES inside Shoot.
//
//	calcIndex indexStr atoi length nextV randRaw : Checked (Option Int)
//	        lib/mp/map.go func calcIndex translated statement by statement into the Checked monad of Model.C19Vars:
//	        `a %= b` is goRem (panics for b = 0), `iter.Rand(n)` is intn (rand.Intn panics for n ≤ 0), `iter.Next(..)` is the
//	        counter value nextV, an error return is `none`; `atoi` is what strconv.Atoi made of indexStr
//	mpExtractFromSlice, mpGetMapValue, mpIterRand, mpIterNext, preprocessHTTP, preprocessGRPC, execTemplateFunc,
//	tplRandString, tplRandInt, tplRandIntRange, strRandStringRunes
//	        the statements of these functions in the canonical spelling (locals v<i>, error texts dropped)
//	maxRandStringLength                   the bound randString puts on its length (0 when the source has none)
//	varsExplicitPanics / varsUncheckedAssertions / varsIndexings
//	        the inventory of run-time panic sites of lib/mp/*.go, the two preprocessors, templater/exec.go, func.go
//
// Every top-level identifier of this file carries the area prefix `respguard`.

import (
	"fmt"
	"go/ast"
	"go/constant"
	"go/token"
	"path/filepath"
	"sort"
	"strings"

	"golang.org/x/tools/go/packages"
)

const (
	respguardPkgMP      = "github.com/yandex/pandora/lib/mp"
	respguardPkgStr     = "github.com/yandex/pandora/lib/str"
	respguardPkgTpl     = "github.com/yandex/pandora/components/providers/scenario/templater"
	respguardPkgPreHTTP = "github.com/yandex/pandora/components/providers/scenario/http/preprocessor"
	respguardPkgPreGRPC = "github.com/yandex/pandora/components/providers/scenario/grpc/preprocessor"
)

// respguardIdxTr translates calcIndex.
type respguardIdxTr struct {
	t       *tr
	p       *packages.Package
	idxVar  string // the int result of strconv.Atoi
	errVar  string // its error
	strVar  string // the index text parameter
	lenVar  string
	iterVar string
}

func (x *respguardIdxTr) fail(n ast.Node, format string, a ...any) string {
	gsFail(x.t, x.p, n, "calcIndex: "+format, a...)
	return "(UNSUPPORTED)"
}

func (x *respguardIdxTr) iterCall(e ast.Expr) (method string, args []ast.Expr, ok bool) {
	c, isCall := e.(*ast.CallExpr)
	if !isCall {
		return "", nil, false
	}
	sel, isSel := c.Fun.(*ast.SelectorExpr)
	if !isSel {
		return "", nil, false
	}
	id, isID := sel.X.(*ast.Ident)
	if !isID || id.Name != x.iterVar {
		return "", nil, false
	}
	return sel.Sel.Name, c.Args, true
}

func (x *respguardIdxTr) intExpr(e ast.Expr) string {
	switch v := e.(type) {
	case *ast.ParenExpr:
		return x.intExpr(v.X)
	case *ast.Ident:
		switch v.Name {
		case x.idxVar:
			return "index"
		case x.lenVar:
			return "length"
		}
	case *ast.BasicLit:
		if v.Kind == token.INT {
			return "(" + v.Value + " : Int)"
		}
	case *ast.UnaryExpr:
		if v.Op == token.SUB {
			return "(-" + x.intExpr(v.X) + ")"
		}
	case *ast.BinaryExpr:
		switch v.Op {
		case token.ADD:
			return "(" + x.intExpr(v.X) + " + " + x.intExpr(v.Y) + ")"
		case token.SUB:
			return "(" + x.intExpr(v.X) + " - " + x.intExpr(v.Y) + ")"
		}
	case *ast.CallExpr:
		if m, args, ok := x.iterCall(v); ok && m == "Next" && len(args) == 1 {
			return "(nextV : Int)"
		}
	}
	return x.fail(e, "integer expression %s", oneLine(nodeString(x.p, e)))
}

func (x *respguardIdxTr) boolExpr(e ast.Expr) string {
	switch v := e.(type) {
	case *ast.ParenExpr:
		return x.boolExpr(v.X)
	case *ast.UnaryExpr:
		if v.Op == token.NOT {
			return "(!" + x.boolExpr(v.X) + ")"
		}
	case *ast.BinaryExpr:
		switch v.Op {
		case token.LAND:
			return "(" + x.boolExpr(v.X) + " && " + x.boolExpr(v.Y) + ")"
		case token.LOR:
			return "(" + x.boolExpr(v.X) + " || " + x.boolExpr(v.Y) + ")"
		case token.EQL, token.NEQ:
			l, r := oneLine(nodeString(x.p, v.X)), oneLine(nodeString(x.p, v.Y))
			if l == "nil" {
				l, r = r, l
			}
			if l == x.errVar && r == "nil" {
				if v.Op == token.NEQ {
					return "atoi.isNone"
				}
				return "atoi.isSome"
			}
			// the index text against a string constant (either order)
			strSide, litSide := v.X, v.Y
			if id, ok := strSide.(*ast.Ident); !ok || id.Name != x.strVar {
				strSide, litSide = v.Y, v.X
			}
			if id, ok := strSide.(*ast.Ident); ok && id.Name == x.strVar {
				if tv, ok := x.p.TypesInfo.Types[litSide]; ok && tv.Value != nil && tv.Value.Kind() == constant.String {
					op := "=="
					if v.Op == token.NEQ {
						op = "!="
					}
					return fmt.Sprintf("(indexStr %s %q)", op, constant.StringVal(tv.Value))
				}
			}
			op := "="
			if v.Op == token.NEQ {
				op = "≠"
			}
			return "decide (" + x.intExpr(v.X) + " " + op + " " + x.intExpr(v.Y) + ")"
		case token.LSS, token.LEQ, token.GTR, token.GEQ:
			op := map[token.Token]string{token.LSS: "<", token.LEQ: "≤", token.GTR: ">", token.GEQ: "≥"}[v.Op]
			return "decide (" + x.intExpr(v.X) + " " + op + " " + x.intExpr(v.Y) + ")"
		}
	}
	return x.fail(e, "condition %s", oneLine(nodeString(x.p, e)))
}

func respguardTerminates(stmts []ast.Stmt) bool {
	if len(stmts) == 0 {
		return false
	}
	_, ok := stmts[len(stmts)-1].(*ast.ReturnStmt)
	return ok
}

// stmts translates a statement list that ends every path with a return into one Lean expression.
func (x *respguardIdxTr) stmts(list []ast.Stmt, ind string) string {
	if len(list) == 0 {
		x.t.errs = append(x.t.errs, "calcIndex: a path without return")
		return ind + "(UNSUPPORTED)"
	}
	s, rest := list[0], list[1:]
	switch v := s.(type) {
	case *ast.ReturnStmt:
		if len(v.Results) != 2 {
			return ind + x.fail(v, "return arity")
		}
		if oneLine(nodeString(x.p, v.Results[1])) != "nil" {
			return ind + ".ok none"
		}
		if m, args, ok := x.iterCall(v.Results[0]); ok && m == "Rand" && len(args) == 1 {
			return ind + "(intn " + x.intExpr(args[0]) + " randRaw).bind fun r => .ok (some r)"
		}
		return ind + ".ok (some " + x.intExpr(v.Results[0]) + ")"
	case *ast.IfStmt:
		if v.Init != nil || v.Else != nil {
			return ind + x.fail(v, "if with init / else")
		}
		c := x.boolExpr(v.Cond)
		then := v.Body.List
		if !respguardTerminates(then) {
			then = append(append([]ast.Stmt{}, then...), rest...)
		}
		return ind + "if " + c + " then\n" + x.stmts(then, ind+"  ") + "\n" + ind + "else\n" + x.stmts(rest, ind+"  ")
	case *ast.AssignStmt:
		if len(v.Lhs) == 1 && len(v.Rhs) == 1 {
			if id, ok := v.Lhs[0].(*ast.Ident); ok && id.Name == x.idxVar {
				switch v.Tok {
				case token.REM_ASSIGN:
					return ind + "(goRem index " + x.intExpr(v.Rhs[0]) + ").bind fun index =>\n" + x.stmts(rest, ind)
				case token.ADD_ASSIGN:
					return ind + "let index : Int := index + " + x.intExpr(v.Rhs[0]) + "\n" + x.stmts(rest, ind)
				case token.SUB_ASSIGN:
					return ind + "let index : Int := index - " + x.intExpr(v.Rhs[0]) + "\n" + x.stmts(rest, ind)
				case token.ASSIGN:
					return ind + "let index : Int := " + x.intExpr(v.Rhs[0]) + "\n" + x.stmts(rest, ind)
				}
			}
		}
		return ind + x.fail(v, "assignment %s", oneLine(nodeString(x.p, v)))
	}
	return ind + x.fail(s, "statement %s", oneLine(nodeString(x.p, s)))
}

func respguardCalcIndex(t *tr, p *packages.Package) string {
	fd := findFunc(p, "calcIndex")
	if fd == nil {
		t.errs = append(t.errs, "lib/mp calcIndex not found")
		return ""
	}
	var names []string
	for _, f := range fd.Type.Params.List {
		for _, n := range f.Names {
			names = append(names, n.Name)
		}
	}
	if len(names) != 4 || len(fd.Body.List) < 2 {
		gsFail(t, p, fd, "calcIndex: expected (indexStr, segment string, length int, iter Iterator)")
		return ""
	}
	x := &respguardIdxTr{t: t, p: p, strVar: names[0], lenVar: names[2], iterVar: names[3]}
	// index, err := strconv.Atoi(indexStr)
	as, ok := fd.Body.List[0].(*ast.AssignStmt)
	if !ok || as.Tok != token.DEFINE || len(as.Lhs) != 2 || len(as.Rhs) != 1 || oneLine(nodeString(p, as.Rhs[0])) != "strconv.Atoi("+x.strVar+")" {
		gsFail(t, p, fd, "calcIndex: first statement must be `index, err := strconv.Atoi(%s)`", x.strVar)
		return ""
	}
	x.idxVar, x.errVar = as.Lhs[0].(*ast.Ident).Name, as.Lhs[1].(*ast.Ident).Name
	var b strings.Builder
	b.WriteString("/-- regenerated from `lib/mp/map.go` func `calcIndex`, statement by statement: `atoi` is `strconv.Atoi(indexStr)`\n(`none`: it failed, the int is then 0), `length` the length of the slice, `nextV` what `iter.Next(segment)` returns, `randRaw`\nwhat the generator behind `iter.Rand` draws; `a %= b` is `goRem`, `iter.Rand(n)` is `intn`; `none` = an error return -/\n")
	b.WriteString("def calcIndex (indexStr : String) (atoi : Option Int) (length : Int) (nextV randRaw : Nat) : Model.C19.Checked (Option Int) :=\n")
	b.WriteString("  let index : Int := atoi.getD 0\n")
	b.WriteString(x.stmts(fd.Body.List[1:], "  "))
	b.WriteString("\n\n")
	return b.String()
}

func respguardCanonOf(t *tr, b *strings.Builder, p *packages.Package, fd *ast.FuncDecl, def, doc string) {
	if fd == nil {
		t.errs = append(t.errs, def+": function not found")
		return
	}
	b.WriteString("/-- the statements of " + doc + ", locals renamed canonically, error texts dropped -/\ndef " + def + " : List String := " +
		leanStrList(respguardCanonStmts(p, fd.Body.List)) + "\n\n")
}

func respguardVarsExtra(t *tr) string {
	var b strings.Builder
	all := rgLoadAll(respguardPkgMP, respguardPkgStr, respguardPkgTpl, respguardPkgPreHTTP, respguardPkgPreGRPC)
	mp := all[respguardPkgMP]
	b.WriteString("/-! ## round 3: response-derived variables read inside Shoot -/\n\nopen Pandora.Model.C19 in\n")
	b.WriteString(respguardCalcIndex(t, mp))
	respguardCanonOf(t, &b, mp, findFunc(mp, "extractFromSlice"), "mpExtractFromSlice", "`mp.extractFromSlice` (model `extractFromSlice`)")
	respguardCanonOf(t, &b, mp, findFunc(mp, "GetMapValue"), "mpGetMapValue", "`mp.GetMapValue` (model `getMapValue`)")
	respguardCanonOf(t, &b, mp, rgFindMethod(mp, "NextIterator", "Rand"), "mpIterRand", "`(*NextIterator).Rand` (model `intn`)")
	respguardCanonOf(t, &b, mp, rgFindMethod(mp, "NextIterator", "Next"), "mpIterNext", "`(*NextIterator).Next` (a counter per segment: never negative)")
	ph, pg := all[respguardPkgPreHTTP], all[respguardPkgPreGRPC]
	respguardCanonOf(t, &b, ph, rgFindMethod(ph, "Preprocessor", "Process"), "preprocessHTTP", "`(*Preprocessor).Process` of the http scenario (model `preprocess`)")
	respguardCanonOf(t, &b, pg, rgFindMethod(pg, "PreparePreprocessor", "Process"), "preprocessGRPC", "`(*PreparePreprocessor).Process` of the gRPC scenario (model `preprocess`)")
	tp := all[respguardPkgTpl]
	respguardCanonOf(t, &b, tp, findFunc(tp, "ExecTemplateFuncWithVariables"), "execTemplateFunc", "`templater.ExecTemplateFuncWithVariables` (model `resolveArgs` + `callTplFn`)")
	respguardCanonOf(t, &b, tp, findFunc(tp, "RandString"), "tplRandStringArgs", "`templater.RandString` (model `callRandString`)")
	respguardCanonOf(t, &b, tp, findFunc(tp, "randString"), "tplRandString", "`templater.randString` (model `randString`)")
	respguardCanonOf(t, &b, tp, findFunc(tp, "RandInt"), "tplRandIntArgs", "`templater.RandInt` (model `callRandInt`)")
	respguardCanonOf(t, &b, tp, findFunc(tp, "randInt"), "tplRandIntRange", "`templater.randInt` (model `randIntRange`)")
	sp := all[respguardPkgStr]
	respguardCanonOf(t, &b, sp, findFunc(sp, "RandStringRunes"), "strRandStringRunes", "`str.RandStringRunes` (model `goMakeRunes`)")
	// the bound on the length of a random string (absent: 0)
	maxLen := "0"
	if c := tp.Types.Scope().Lookup("maxRandStringLength"); c != nil {
		if k, ok := c.(interface{ Val() constant.Value }); ok {
			maxLen = constant.ToInt(k.Val()).ExactString()
		}
	}
	b.WriteString("/-- `maxRandStringLength` of templater/func.go (0: the source has no such constant) -/\ndef maxRandStringLength : Int := " + maxLen + "\n\n")

	// inventory of run-time panic sites
	var panics, asserts, idx, mapw []string
	for _, sc := range []struct {
		pkg   *packages.Package
		files []string
	}{{mp, nil}, {ph, nil}, {pg, []string{"prepare.go"}}, {tp, nil}, {sp, []string{"string.go"}}} {
		for _, f := range sc.pkg.Syntax {
			fn := sc.pkg.Fset.Position(f.Pos()).Filename
			base := filepath.Base(fn)
			if strings.HasSuffix(base, "_test.go") {
				continue
			}
			if sc.files != nil {
				found := false
				for _, w := range sc.files {
					found = found || w == base
				}
				if !found {
					continue
				}
			}
			rel, _ := filepath.Rel(repo, fn)
			rgScanFile(sc.pkg, f, rel, &panics, &asserts, &idx, &mapw)
		}
	}
	for _, l := range []*[]string{&panics, &asserts, &idx, &mapw} {
		sort.Strings(*l)
	}
	b.WriteString("/-- explicit panics of lib/mp, the scenario preprocessors, the template functions and lib/str/string.go -/\ndef varsExplicitPanics : List String := " + leanStrList(panics) + "\n\n")
	b.WriteString("/-- type assertions without comma-ok of these files -/\ndef varsUncheckedAssertions : List String := " + leanStrList(asserts) + "\n\n")
	b.WriteString("/-- index / slice expressions of these files -/\ndef varsIndexings : List String := " + leanStrList(idx) + "\n\n")
	b.WriteString("/-- writes to maps not created in the same function -/\ndef varsMapWritesWithoutMake : List String := " + leanStrList(mapw) + "\n")
	return b.String()
}
