package main

// Area "respguard", round 3: the code that reads RESPONSE-DERIVED VARIABLES inside Shoot.
//
//	calcIndex indexStr atoi length nextV randRaw : Checked (Option Int)
//	        lib/mp/map.go func calcIndex translated statement by statement into the Checked monad of Model.C19Vars:
//	        `a %= b` is goRem (panics for b = 0), `iter.Rand(n)` is intn (rand.Intn panics for n ≤ 0), `iter.Next(..)` is the
//	        counter value nextV, an error return is `none`; `atoi` is what strconv.Atoi made of indexStr
//	mpExtractFromSlice, mpGetMapValue, mpIterRand, mpIterNext, preprocessHTTP, preprocessGRPC, execTemplateFunc,
//	tplRandString, tplRandInt, tplRandIntRange, strRandStringRunes
//	        the statements of these functions in the canonical spelling (locals v<i>, error texts dropped)
//	maxRandStringLength                   the bound randString puts on its length (0 when the source has none)
//	varsExplicitPanics / varsUncheckedAssertions / varsIndexings
//	        the inventory of run-time panic sites of lib/mp/*.go, the two preprocessors, templater/exec.go, func.go
//
// Every top-level identifier of this file carries the area prefix `respguard`.

import (
	"fmt"
	"go/ast"
	"go/constant"
	"go/printer"
	"go/token"
	"go/types"
	"path/filepath"
	"regexp"
	"sort"
	"strings"

	"golang.org/x/tools/go/packages"
)

const (
	respguardPkgMP      = "github.com/yandex/pandora/lib/mp"
	respguardPkgStr     = "github.com/yandex/pandora/lib/str"
	respguardPkgTpl     = "github.com/yandex/pandora/components/providers/scenario/templater"
	respguardPkgPreHTTP = "github.com/yandex/pandora/components/providers/scenario/http/preprocessor"
	respguardPkgPreGRPC = "github.com/yandex/pandora/components/providers/scenario/grpc/preprocessor"
)

// respguardIdxTr translates calcIndex.
type respguardIdxTr struct {
	t       *tr
	p       *packages.Package
	idxVar  string // the int result of strconv.Atoi
	errVar  string // its error
	strVar  string // the index text parameter
	lenVar  string
	iterVar string
	bools   map[string]bool // boolean locals (`keyword := indexStr == "next" || …`)
}

func (x *respguardIdxTr) fail(n ast.Node, format string, a ...any) string {
	gsFail(x.t, x.p, n, "calcIndex: "+format, a...)
	return "(UNSUPPORTED)"
}

func (x *respguardIdxTr) iterCall(e ast.Expr) (method string, args []ast.Expr, ok bool) {
	c, isCall := e.(*ast.CallExpr)
	if !isCall {
		return "", nil, false
	}
	sel, isSel := c.Fun.(*ast.SelectorExpr)
	if !isSel {
		return "", nil, false
	}
	id, isID := sel.X.(*ast.Ident)
	if !isID || id.Name != x.iterVar {
		return "", nil, false
	}
	return sel.Sel.Name, c.Args, true
}

func (x *respguardIdxTr) intExpr(e ast.Expr) string {
	switch v := e.(type) {
	case *ast.ParenExpr:
		return x.intExpr(v.X)
	case *ast.Ident:
		switch v.Name {
		case x.idxVar:
			return "index"
		case x.lenVar:
			return "length"
		}
	case *ast.BasicLit:
		if v.Kind == token.INT {
			return "(" + v.Value + " : Int)"
		}
	case *ast.UnaryExpr:
		if v.Op == token.SUB {
			return "(-" + x.intExpr(v.X) + ")"
		}
	case *ast.BinaryExpr:
		switch v.Op {
		case token.ADD:
			return "(" + x.intExpr(v.X) + " + " + x.intExpr(v.Y) + ")"
		case token.SUB:
			return "(" + x.intExpr(v.X) + " - " + x.intExpr(v.Y) + ")"
		}
	case *ast.CallExpr:
		if m, args, ok := x.iterCall(v); ok && m == "Next" && len(args) == 1 {
			return "(nextV : Int)"
		}
	}
	return x.fail(e, "integer expression %s", oneLine(nodeString(x.p, e)))
}

func (x *respguardIdxTr) boolExpr(e ast.Expr) string {
	switch v := e.(type) {
	case *ast.ParenExpr:
		return x.boolExpr(v.X)
	case *ast.Ident:
		if x.bools[v.Name] {
			return "b_" + mangle(v.Name)
		}
	case *ast.UnaryExpr:
		if v.Op == token.NOT {
			return "(!" + x.boolExpr(v.X) + ")"
		}
	case *ast.BinaryExpr:
		switch v.Op {
		case token.LAND:
			return "(" + x.boolExpr(v.X) + " && " + x.boolExpr(v.Y) + ")"
		case token.LOR:
			return "(" + x.boolExpr(v.X) + " || " + x.boolExpr(v.Y) + ")"
		case token.EQL, token.NEQ:
			l, r := oneLine(nodeString(x.p, v.X)), oneLine(nodeString(x.p, v.Y))
			if l == "nil" {
				l, r = r, l
			}
			if l == x.errVar && r == "nil" {
				if v.Op == token.NEQ {
					return "atoi.isNone"
				}
				return "atoi.isSome"
			}
			// the index text against a string constant (either order)
			strSide, litSide := v.X, v.Y
			if id, ok := strSide.(*ast.Ident); !ok || id.Name != x.strVar {
				strSide, litSide = v.Y, v.X
			}
			if id, ok := strSide.(*ast.Ident); ok && id.Name == x.strVar {
				if tv, ok := x.p.TypesInfo.Types[litSide]; ok && tv.Value != nil && tv.Value.Kind() == constant.String {
					op := "=="
					if v.Op == token.NEQ {
						op = "!="
					}
					return fmt.Sprintf("(indexStr %s %q)", op, constant.StringVal(tv.Value))
				}
			}
			op := "="
			if v.Op == token.NEQ {
				op = "≠"
			}
			return "decide (" + x.intExpr(v.X) + " " + op + " " + x.intExpr(v.Y) + ")"
		case token.LSS, token.LEQ, token.GTR, token.GEQ:
			op := map[token.Token]string{token.LSS: "<", token.LEQ: "≤", token.GTR: ">", token.GEQ: "≥"}[v.Op]
			return "decide (" + x.intExpr(v.X) + " " + op + " " + x.intExpr(v.Y) + ")"
		}
	}
	return x.fail(e, "condition %s", oneLine(nodeString(x.p, e)))
}

func respguardTerminates(stmts []ast.Stmt) bool {
	if len(stmts) == 0 {
		return false
	}
	_, ok := stmts[len(stmts)-1].(*ast.ReturnStmt)
	return ok
}

// stmts translates a statement list that ends every path with a return into one Lean expression.
func (x *respguardIdxTr) stmts(list []ast.Stmt, ind string) string {
	if len(list) == 0 {
		x.t.errs = append(x.t.errs, "calcIndex: a path without return")
		return ind + "(UNSUPPORTED)"
	}
	s, rest := list[0], list[1:]
	switch v := s.(type) {
	case *ast.ReturnStmt:
		if len(v.Results) != 2 {
			return ind + x.fail(v, "return arity")
		}
		if oneLine(nodeString(x.p, v.Results[1])) != "nil" {
			return ind + ".ok none"
		}
		if m, args, ok := x.iterCall(v.Results[0]); ok && m == "Rand" && len(args) == 1 {
			return ind + "(intn " + x.intExpr(args[0]) + " randRaw).bind fun r => .ok (some r)"
		}
		return ind + ".ok (some " + x.intExpr(v.Results[0]) + ")"
	case *ast.IfStmt:
		if v.Init != nil {
			return ind + x.fail(v, "if with init")
		}
		c := x.boolExpr(v.Cond)
		then := v.Body.List
		if !respguardTerminates(then) {
			then = append(append([]ast.Stmt{}, then...), rest...)
		}
		// `else { … }` / `else if …`: the else branch continues with the statements after the if as well
		els := rest
		switch e := v.Else.(type) {
		case nil:
		case *ast.BlockStmt:
			els = e.List
			if !respguardTerminates(els) {
				els = append(append([]ast.Stmt{}, els...), rest...)
			}
		case *ast.IfStmt:
			els = append([]ast.Stmt{e}, rest...)
		}
		return ind + "if " + c + " then\n" + x.stmts(then, ind+"  ") + "\n" + ind + "else\n" + x.stmts(els, ind+"  ")
	case *ast.AssignStmt:
		if len(v.Lhs) == 1 && len(v.Rhs) == 1 {
			// a boolean local: `name := <condition>`
			if id, ok := v.Lhs[0].(*ast.Ident); ok && v.Tok == token.DEFINE && id.Name != x.idxVar {
				if tv, ok := x.p.TypesInfo.Types[v.Rhs[0]]; ok && isBool(tv.Type) {
					c := x.boolExpr(v.Rhs[0])
					if x.bools == nil {
						x.bools = map[string]bool{}
					}
					x.bools[id.Name] = true
					return ind + "let b_" + mangle(id.Name) + " : Bool := " + c + "\n" + x.stmts(rest, ind)
				}
			}
			if id, ok := v.Lhs[0].(*ast.Ident); ok && id.Name == x.idxVar {
				switch v.Tok {
				case token.REM_ASSIGN:
					return ind + "(goRem index " + x.intExpr(v.Rhs[0]) + ").bind fun index =>\n" + x.stmts(rest, ind)
				case token.ADD_ASSIGN:
					return ind + "let index : Int := index + " + x.intExpr(v.Rhs[0]) + "\n" + x.stmts(rest, ind)
				case token.SUB_ASSIGN:
					return ind + "let index : Int := index - " + x.intExpr(v.Rhs[0]) + "\n" + x.stmts(rest, ind)
				case token.ASSIGN:
					// `index = a % b`
					if be, ok := v.Rhs[0].(*ast.BinaryExpr); ok && be.Op == token.REM {
						return ind + "(goRem " + x.intExpr(be.X) + " " + x.intExpr(be.Y) + ").bind fun index =>\n" + x.stmts(rest, ind)
					}
					return ind + "let index : Int := " + x.intExpr(v.Rhs[0]) + "\n" + x.stmts(rest, ind)
				}
			}
		}
		return ind + x.fail(v, "assignment %s", oneLine(nodeString(x.p, v)))
	}
	return ind + x.fail(s, "statement %s", oneLine(nodeString(x.p, s)))
}

func respguardCalcIndex(t *tr, p *packages.Package) string {
	fd := findFunc(p, "calcIndex")
	if fd == nil {
		t.errs = append(t.errs, "lib/mp calcIndex not found")
		return ""
	}
	var names []string
	for _, f := range fd.Type.Params.List {
		for _, n := range f.Names {
			names = append(names, n.Name)
		}
	}
	if len(names) != 4 || len(fd.Body.List) < 2 {
		gsFail(t, p, fd, "calcIndex: expected (indexStr, segment string, length int, iter Iterator)")
		return ""
	}
	x := &respguardIdxTr{t: t, p: p, strVar: names[0], lenVar: names[2], iterVar: names[3]}
	// index, err := strconv.Atoi(indexStr)
	as, ok := fd.Body.List[0].(*ast.AssignStmt)
	if !ok || as.Tok != token.DEFINE || len(as.Lhs) != 2 || len(as.Rhs) != 1 || oneLine(nodeString(p, as.Rhs[0])) != "strconv.Atoi("+x.strVar+")" {
		gsFail(t, p, fd, "calcIndex: first statement must be `index, err := strconv.Atoi(%s)`", x.strVar)
		return ""
	}
	x.idxVar, x.errVar = as.Lhs[0].(*ast.Ident).Name, as.Lhs[1].(*ast.Ident).Name
	var b strings.Builder
	b.WriteString("/-- regenerated from `lib/mp/map.go` func `calcIndex`, statement by statement: `atoi` is `strconv.Atoi(indexStr)`\n(`none`: it failed, the int is then 0), `length` the length of the slice, `nextV` what `iter.Next(segment)` returns, `randRaw`\nwhat the generator behind `iter.Rand` draws; `a %= b` is `goRem`, `iter.Rand(n)` is `intn`; `none` = an error return -/\n")
	b.WriteString("def calcIndex (indexStr : String) (atoi : Option Int) (length : Int) (nextV randRaw : Nat) : Model.C19.Checked (Option Int) :=\n")
	b.WriteString("  let index : Int := atoi.getD 0\n")
	b.WriteString(x.stmts(fd.Body.List[1:], "  "))
	b.WriteString("\n\n")
	return b.String()
}

// respguardExtractFromSlice: the statements of extractFromSlice with the list of accepted slice types and the cases of the
// type switch taken out and SORTED (their order does not matter), everything else in the canonical spelling.
func respguardExtractFromSlice(t *tr, p *packages.Package) string {
	fd := findFunc(p, "extractFromSlice")
	if fd == nil {
		t.errs = append(t.errs, "lib/mp extractFromSlice not found")
		return ""
	}
	var tyList, cases []string
	var typesLit *ast.CompositeLit
	var sw *ast.TypeSwitchStmt
	for _, st := range fd.Body.List {
		switch v := st.(type) {
		case *ast.AssignStmt:
			if len(v.Rhs) == 1 {
				if cl, ok := v.Rhs[0].(*ast.CompositeLit); ok && strings.HasPrefix(oneLine(nodeString(p, cl.Type)), "[]reflect.Type") && typesLit == nil {
					typesLit = cl
				}
			}
		case *ast.TypeSwitchStmt:
			if sw == nil {
				sw = v
			}
		}
	}
	if typesLit == nil || sw == nil {
		gsFail(t, p, fd, "extractFromSlice: expected a `[]reflect.Type{…}` literal and a type switch")
		return ""
	}
	for _, e := range typesLit.Elts {
		tyList = append(tyList, oneLine(nodeString(p, e)))
	}
	sort.Strings(tyList)
	// canonical names: variables of the function are v<i> by first occurrence OUTSIDE the clauses' own declarations, the
	// switch variable is `vsw` in every clause, variables declared inside a clause are w<i> per clause — so the clauses
	// can be reordered, and `vsw[v5]` still says WHICH variable indexes the slice.
	swVar := map[types.Object]bool{}
	for _, c := range sw.Body.List {
		if o := p.TypesInfo.Implicits[c]; o != nil {
			swVar[o] = true
		}
	}
	clauseOf := func(pos token.Pos) int {
		for i, c := range sw.Body.List {
			if pos >= c.Pos() && pos < c.End() {
				return i
			}
		}
		return -1
	}
	global := map[types.Object]string{}
	local := map[int]map[types.Object]string{}
	type edit struct {
		id  *ast.Ident
		old string
	}
	var edits []edit
	ast.Inspect(fd.Body, func(n ast.Node) bool {
		id, ok := n.(*ast.Ident)
		if !ok {
			return true
		}
		obj := p.TypesInfo.ObjectOf(id)
		v, isVar := obj.(*types.Var)
		if !isVar || v.IsField() || v.Parent() == nil || v.Parent() == v.Pkg().Scope() || v.Parent() == types.Universe {
			return true
		}
		var nm string
		switch ci := clauseOf(obj.Pos()); {
		case swVar[obj]:
			nm = "vsw"
		case ci >= 0:
			if local[ci] == nil {
				local[ci] = map[types.Object]string{}
			}
			if local[ci][obj] == "" {
				local[ci][obj] = fmt.Sprintf("w%d", len(local[ci]))
			}
			nm = local[ci][obj]
		default:
			if global[obj] == "" {
				global[obj] = fmt.Sprintf("v%d", len(global))
			}
			nm = global[obj]
		}
		edits = append(edits, edit{id, id.Name})
		id.Name = nm
		return true
	})
	// the symbolic variable of the switch statement itself (`switch v := x.(type)`)
	if as, ok := sw.Assign.(*ast.AssignStmt); ok && len(as.Lhs) == 1 {
		if id, ok := as.Lhs[0].(*ast.Ident); ok {
			edits = append(edits, edit{id, id.Name})
			id.Name = "vsw"
		}
	}
	printStmts := func(list []ast.Stmt) []string {
		var out []string
		for _, st := range list {
			var sb strings.Builder
			_ = printer.Fprint(&sb, token.NewFileSet(), st)
			out = append(out, respguardDropErrText(oneLine(sb.String())))
		}
		return out
	}
	for _, c := range sw.Body.List {
		cc := c.(*ast.CaseClause)
		var tys []string
		for _, e := range cc.List {
			tys = append(tys, oneLine(nodeString(p, e)))
		}
		sort.Strings(tys)
		label := "default"
		if cc.List != nil {
			label = "case " + strings.Join(tys, ", ")
		}
		cases = append(cases, label+": "+strings.Join(printStmts(cc.Body), " "))
	}
	sort.Strings(cases)
	// the skeleton: the literal's elements and the switch's clauses removed
	savedElts, savedClauses := typesLit.Elts, sw.Body.List
	typesLit.Elts, sw.Body.List = nil, nil
	skel := printStmts(fd.Body.List)
	typesLit.Elts, sw.Body.List = savedElts, savedClauses
	for _, e := range edits {
		e.id.Name = e.old
	}
	var b strings.Builder
	b.WriteString("/-- the slice types `mp.extractFromSlice` accepts (sorted) -/\ndef mpSliceTypes : List String := " + leanStrList(tyList) + "\n\n")
	b.WriteString("/-- the clauses of its type switch (sorted; bodies in the canonical spelling, each numbered on its own) -/\ndef mpSliceCases : List String := " + leanStrList(cases) + "\n\n")
	b.WriteString("/-- its statements with the type list and the switch clauses taken out, canonical spelling (model `extractFromSlice`) -/\ndef mpExtractFromSlice : List String := " + leanStrList(skel) + "\n\n")
	return b.String()
}

var respguardErrTextRe = regexp.MustCompile(`(fmt\.Errorf|errors\.New|errors\.Errorf)\("(?:[^"\\]|\\.)*"`)

// respguardDropErrText replaces the message of fmt.Errorf / errors.New in printed source by "…".
func respguardDropErrText(s string) string {
	return respguardErrTextRe.ReplaceAllString(s, `$1("…"`)
}

// respguardAnonLocals renames every local variable of the file to `_` (in place) and returns the function that restores
// the names.
func respguardAnonLocals(p *packages.Package, f *ast.File) func() {
	type edit struct {
		id  *ast.Ident
		old string
	}
	var edits []edit
	ast.Inspect(f, func(n ast.Node) bool {
		id, ok := n.(*ast.Ident)
		if !ok {
			return true
		}
		v, isVar := p.TypesInfo.ObjectOf(id).(*types.Var)
		if !isVar || v.IsField() || v.Parent() == nil || v.Parent() == v.Pkg().Scope() || v.Parent() == types.Universe {
			return true
		}
		edits = append(edits, edit{id, id.Name})
		id.Name = "_"
		return true
	})
	return func() {
		for _, e := range edits {
			e.id.Name = e.old
		}
	}
}

func respguardCanonOf(t *tr, b *strings.Builder, p *packages.Package, fd *ast.FuncDecl, def, doc string) {
	if fd == nil {
		t.errs = append(t.errs, def+": function not found")
		return
	}
	b.WriteString("/-- the statements of " + doc + ", locals renamed canonically, error texts dropped -/\ndef " + def + " : List String := " +
		leanStrList(respguardCanonStmts(p, fd.Body.List)) + "\n\n")
}

func respguardVarsExtra(t *tr) string {
	var b strings.Builder
	all := rgLoadAll(respguardPkgMP, respguardPkgStr, respguardPkgTpl, respguardPkgPreHTTP, respguardPkgPreGRPC)
	mp := all[respguardPkgMP]
	b.WriteString("/-! ## round 3: response-derived variables read inside Shoot -/\n\nopen Pandora.Model.C19 in\n")
	b.WriteString(respguardCalcIndex(t, mp))
	b.WriteString(respguardExtractFromSlice(t, mp))
	respguardCanonOf(t, &b, mp, findFunc(mp, "GetMapValue"), "mpGetMapValue", "`mp.GetMapValue` (model `getMapValue`)")
	respguardCanonOf(t, &b, mp, rgFindMethod(mp, "NextIterator", "Rand"), "mpIterRand", "`(*NextIterator).Rand` (model `intn`)")
	respguardCanonOf(t, &b, mp, rgFindMethod(mp, "NextIterator", "Next"), "mpIterNext", "`(*NextIterator).Next` (a counter per segment: never negative)")
	ph, pg := all[respguardPkgPreHTTP], all[respguardPkgPreGRPC]
	respguardCanonOf(t, &b, ph, rgFindMethod(ph, "Preprocessor", "Process"), "preprocessHTTP", "`(*Preprocessor).Process` of the http scenario (model `preprocess`)")
	respguardCanonOf(t, &b, pg, rgFindMethod(pg, "PreparePreprocessor", "Process"), "preprocessGRPC", "`(*PreparePreprocessor).Process` of the gRPC scenario (model `preprocess`)")
	tp := all[respguardPkgTpl]
	respguardCanonOf(t, &b, tp, findFunc(tp, "ExecTemplateFuncWithVariables"), "execTemplateFunc", "`templater.ExecTemplateFuncWithVariables` (model `resolveArgs` + `callTplFn`)")
	respguardCanonOf(t, &b, tp, findFunc(tp, "RandString"), "tplRandStringArgs", "`templater.RandString` (model `callRandString`)")
	respguardCanonOf(t, &b, tp, findFunc(tp, "randString"), "tplRandString", "`templater.randString` (model `randString`)")
	respguardCanonOf(t, &b, tp, findFunc(tp, "RandInt"), "tplRandIntArgs", "`templater.RandInt` (model `callRandInt`)")
	respguardCanonOf(t, &b, tp, findFunc(tp, "randInt"), "tplRandIntRange", "`templater.randInt` (model `randIntRange`)")
	sp := all[respguardPkgStr]
	respguardCanonOf(t, &b, sp, findFunc(sp, "RandStringRunes"), "strRandStringRunes", "`str.RandStringRunes` (model `goMakeRunes`)")
	// the bound on the length of a random string (absent: 0)
	maxLen := "0"
	if c := tp.Types.Scope().Lookup("maxRandStringLength"); c != nil {
		if k, ok := c.(interface{ Val() constant.Value }); ok {
			maxLen = constant.ToInt(k.Val()).ExactString()
		}
	}
	b.WriteString("/-- `maxRandStringLength` of templater/func.go (0: the source has no such constant) -/\ndef maxRandStringLength : Int := " + maxLen + "\n\n")

	// when the scenario gun buffers the response body (`respBody` is what every postprocessor reads and the loop rewinds:
	// it must not be nil when there is a postprocessor): the condition of the `if` whose block calls io.ReadAll(resp.Body),
	// as a boolean function of its atoms
	scn := rgLoadAll(rgGunScn)[rgGunScn]
	if ss := rgFindMethod(scn, "ScenarioGun", "shootStep"); ss == nil {
		t.errs = append(t.errs, "ScenarioGun.shootStep not found")
	} else {
		var cond ast.Expr
		for _, st := range ss.Body.List {
			ifs, ok := st.(*ast.IfStmt)
			if !ok || cond != nil {
				continue
			}
			ast.Inspect(ifs.Body, func(n ast.Node) bool {
				if ce, ok := n.(*ast.CallExpr); ok && oneLine(nodeString(scn, ce)) == "io.ReadAll(resp.Body)" {
					cond = ifs.Cond
				}
				return true
			})
		}
		if cond == nil {
			gsFail(t, scn, ss, "shootStep: no top-level `if … { … io.ReadAll(resp.Body) … }`")
		} else {
			var unknown []string
			lean := respguardBoolCond(scn, cond, map[string]string{
				`g.base.Config.AnswLog.Enabled`: "answlog",
				`g.base.DebugLog`:               "debug",
				`len(processors) > 0`:           "hasPostprocessors",
				`len(processors) != 0`:          "hasPostprocessors",
				`len(step.Postprocessors) > 0`:  "hasPostprocessors",
			}, &unknown)
			sort.Strings(unknown)
			b.WriteString("/-- regenerated from the condition of the `if` of `ScenarioGun.shootStep` whose block buffers the response body\n(`" + oneLine(nodeString(scn, cond)) + "`): `respBody` is non-nil exactly then -/\ndef scenarioBodyBuffered (answlog debug hasPostprocessors : Bool) : Bool :=\n  " + lean + "\n\n")
			b.WriteString("/-- atoms of that condition the translator does not know (each is read as `false`) -/\ndef scenarioBodyBufferedUnknownAtoms : List String := " + leanStrList(unknown) + "\n\n")
		}
	}

	respguardCanonOf(t, &b, scn, rgFindMethod(scn, "ScenarioGun", "prepareRequest"), "scenarioPrepareRequest", "`ScenarioGun.prepareRequest` (for information: the bridge rests on `scenarioPrepareFacts`, which survives edits of what is done with a request that exists)")
	b.WriteString("/-- what C19 needs of `ScenarioGun.prepareRequest` (the URL may be rendered from response-derived variables and not\nparse): exactly one `http.NewRequest`, at the top level; the next statement that mentions its results is\n`if err != nil { return nil, … }` with nothing but the return inside; no other statement mentions the request before -/\ndef scenarioPrepareFacts : List String := " + leanStrList(respguardPrepareFacts(scn, rgFindMethod(scn, "ScenarioGun", "prepareRequest"))) + "\n\n")
	if ss := rgFindMethod(scn, "ScenarioGun", "shootStep"); ss != nil {
		var pre []ast.Stmt
		for _, st := range ss.Body.List {
			if ifs, ok := st.(*ast.IfStmt); ok && strings.Contains(oneLine(nodeString(scn, ifs.Cond)), "Preprocessor") {
				pre = append(pre, ifs)
			}
		}
		if len(pre) != 1 {
			gsFail(t, scn, ss, "shootStep: expected one `if step.Preprocessor != nil { … }`")
		} else {
			b.WriteString("/-- the preprocessor block of `ScenarioGun.shootStep` (model `scenarioStepsV`: an error of `Process` is the step's error,\nits variables are stored under `preprocessor`), canonical spelling -/\ndef scenarioPreBlock : List String := " + leanStrList(respguardCanonStmts(scn, pre)) + "\n\n")
		}
	}

	// inventory of run-time panic sites
	var panics, asserts, idx, mapw []string
	for _, sc := range []struct {
		pkg   *packages.Package
		files []string
	}{{mp, nil}, {ph, nil}, {pg, []string{"prepare.go"}}, {tp, nil}, {sp, []string{"string.go"}}} {
		for _, f := range sc.pkg.Syntax {
			fn := sc.pkg.Fset.Position(f.Pos()).Filename
			base := filepath.Base(fn)
			if strings.HasSuffix(base, "_test.go") {
				continue
			}
			if sc.files != nil {
				found := false
				for _, w := range sc.files {
					found = found || w == base
				}
				if !found {
					continue
				}
			}
			rel, _ := filepath.Rel(repo, fn)
			// local variables (parameters included) are printed as `_`: renaming one is harmless, a NEW index expression,
			// assertion or panic is not (WHICH variable indexes what is pinned by the canonical statements above)
			restore := respguardAnonLocals(sc.pkg, f)
			rgScanFileWith(sc.pkg, f, rel, func(n ast.Node) string {
				var sb strings.Builder
				_ = printer.Fprint(&sb, token.NewFileSet(), n)
				return sb.String()
			}, &panics, &asserts, &idx, &mapw)
			restore()
		}
	}
	for _, l := range []*[]string{&panics, &asserts, &idx, &mapw} {
		sort.Strings(*l)
	}
	b.WriteString("/-- explicit panics of lib/mp, the scenario preprocessors, the template functions and lib/str/string.go -/\ndef varsExplicitPanics : List String := " + leanStrList(panics) + "\n\n")
	b.WriteString("/-- type assertions without comma-ok of these files -/\ndef varsUncheckedAssertions : List String := " + leanStrList(asserts) + "\n\n")
	b.WriteString("/-- index / slice expressions of these files -/\ndef varsIndexings : List String := " + leanStrList(idx) + "\n\n")
	b.WriteString("/-- writes to maps not created in the same function -/\ndef varsMapWritesWithoutMake : List String := " + leanStrList(mapw) + "\n")
	return b.String()
}

// respguardPrepareFacts: order-free facts about ScenarioGun.prepareRequest (see the doc of `scenarioPrepareFacts`).
func respguardPrepareFacts(p *packages.Package, fd *ast.FuncDecl) []string {
	if fd == nil || fd.Body == nil {
		return []string{"function not found"}
	}
	mentions := func(n ast.Node, objs ...types.Object) bool {
		found := false
		ast.Inspect(n, func(m ast.Node) bool {
			if id, ok := m.(*ast.Ident); ok {
				o := p.TypesInfo.ObjectOf(id)
				for _, w := range objs {
					found = found || (o != nil && o == w)
				}
			}
			return !found
		})
		return found
	}
	isNewRequest := func(e ast.Expr) bool {
		ce, ok := e.(*ast.CallExpr)
		if !ok {
			return false
		}
		s := oneLine(nodeString(p, ce.Fun))
		return s == "http.NewRequest" || s == "http.NewRequestWithContext"
	}
	calls := 0
	ast.Inspect(fd.Body, func(n ast.Node) bool {
		if e, ok := n.(ast.Expr); ok && isNewRequest(e) {
			calls++
		}
		return true
	})
	topLevel, checkedNext, nilOnError, unusedOnError := false, false, false, false
	for i, st := range fd.Body.List {
		as, ok := st.(*ast.AssignStmt)
		if !ok || len(as.Lhs) != 2 || len(as.Rhs) != 1 || !isNewRequest(as.Rhs[0]) {
			continue
		}
		reqID, ok1 := as.Lhs[0].(*ast.Ident)
		errID, ok2 := as.Lhs[1].(*ast.Ident)
		if !ok1 || !ok2 {
			continue
		}
		topLevel = true
		req, er := p.TypesInfo.ObjectOf(reqID), p.TypesInfo.ObjectOf(errID)
		for _, nx := range fd.Body.List[i+1:] {
			if !mentions(nx, req, er) {
				continue
			}
			ifs, ok := nx.(*ast.IfStmt)
			if !ok || ifs.Init != nil || ifs.Else != nil {
				break
			}
			be, ok := ifs.Cond.(*ast.BinaryExpr)
			if !ok || be.Op != token.NEQ {
				break
			}
			x, y := oneLine(nodeString(p, be.X)), oneLine(nodeString(p, be.Y))
			if !((mentions(be.X, er) && y == "nil") || (mentions(be.Y, er) && x == "nil")) {
				break
			}
			checkedNext = true
			unusedOnError = !mentions(ifs.Body, req)
			if n := len(ifs.Body.List); n > 0 {
				if rs, ok := ifs.Body.List[n-1].(*ast.ReturnStmt); ok && len(rs.Results) == 2 {
					nilOnError = oneLine(nodeString(p, rs.Results[0])) == "nil" && oneLine(nodeString(p, rs.Results[1])) != "nil"
				}
			}
			break
		}
		break
	}
	return []string{
		fmt.Sprintf("newRequestCalls=%d", calls),
		fmt.Sprintf("newRequestAtTopLevel=%v", topLevel),
		fmt.Sprintf("errorCheckedBeforeAnyUse=%v", checkedNext),
		fmt.Sprintf("requestUntouchedOnError=%v", unusedOnError),
		fmt.Sprintf("returnsNilRequestAndAnError=%v", nilOnError),
	}
}
