package main

// Area "grpcgun", fourth part (property C20, round 4): code the anchored files DEPEND on, and the glue around them.
//
//	components/providers/scenario/provider.go   (*Provider[A]).Run: what precedes the loop
//	lib/mp/iterator.go                          (*NextIterator).Next
//	lib/math/gcd_lcm.go                         GCDM (scenario weights)
//	components/providers/scenario/config        SpreadNames without its two loops
//	components/providers/scenario/grpc          decodeAmmo: the loop that repeats a scenario in the ammo list
//	components/guns/grpc/core.go                prepareMethodList's loop over the services (an unresolvable service is
//	                                            skipped), NewGun (the configuration is stored as given)
//	components/guns/grpc/scenario/core.go       mergeMaps (the first definition of a variable wins)
//	components/providers/grpc/grpcjson          NewProvider (source.path names the file)
//	components/grpc/import                      how the grpc plugins are registered (default configuration or none)
//
// (The provider's loop, calcIndex, GCD, the loops of SpreadNames and the dial timeout of MakeGRPCConnect are re-extracted
// as Lean FUNCTIONS by area_grpcgun_sym.go.)
//
// Statements are printed in the canonical form of area_grpcgun_feed.go (receiver `$recv`, parameters `$0…`, other locals
// `$<type><rank>`); string literals are kept EXCEPT those handed to an error constructor or a logger (`"…"`): renaming
// locals / parameters / receivers and rewording messages changes nothing, any change of the logic does.

import (
	"go/ast"
	"go/token"
	"strings"

	"golang.org/x/tools/go/packages"
)

// grpcgunR4Method finds a method by receiver type name, also when the receiver is generic (`*Provider[A]`).
func grpcgunR4Method(p *packages.Package, recvType, name string) *ast.FuncDecl {
	if p == nil {
		return nil
	}
	for _, f := range p.Syntax {
		for _, d := range f.Decls {
			fd, ok := d.(*ast.FuncDecl)
			if !ok || fd.Recv == nil || fd.Name.Name != name || len(fd.Recv.List) != 1 || fd.Body == nil {
				continue
			}
			ty := fd.Recv.List[0].Type
			if st, ok := ty.(*ast.StarExpr); ok {
				ty = st.X
			}
			if ix, ok := ty.(*ast.IndexExpr); ok {
				ty = ix.X
			}
			if id, ok := ty.(*ast.Ident); ok && id.Name == recvType {
				return fd
			}
		}
	}
	return nil
}

func grpcgunR4Func(p *packages.Package, name string) *ast.FuncDecl {
	if p == nil {
		return nil
	}
	return findFunc(p, name)
}

// grpcgunR4IsMessageSink: calls whose string arguments are messages for people (errors, logs), not data.
func grpcgunR4IsMessageSink(callee string) bool {
	switch callee {
	case "fmt.Errorf", "errors.New", "errors.Wrap", "errors.Wrapf", "errors.Errorf", "errors.WithMessage":
		return true
	}
	return strings.Contains(callee, ".Log.") || strings.HasPrefix(callee, "zap.") || strings.Contains(callee, ".log.")
}

// grpcgunR4Canon prints n (inside fn) canonically: aliases for receiver / parameters / locals, message strings masked.
func grpcgunR4Canon(p *packages.Package, fn *ast.FuncDecl, n ast.Node) string {
	if n == nil {
		return ""
	}
	al := grpcgunFeedAliases(p, fn)
	type savedID struct {
		id   *ast.Ident
		name string
	}
	type savedLit struct {
		l *ast.BasicLit
		v string
	}
	var ids []savedID
	var lits []savedLit
	ast.Inspect(n, func(x ast.Node) bool {
		switch y := x.(type) {
		case *ast.Ident:
			if o := ggObj(p, y); o != nil {
				if a, ok := al[o]; ok && a != "" {
					ids = append(ids, savedID{y, y.Name})
					y.Name = a
				}
			}
		case *ast.CallExpr:
			if grpcgunR4IsMessageSink(ggSrc(p, y.Fun)) {
				for _, a := range y.Args {
					if l, ok := a.(*ast.BasicLit); ok && l.Kind == token.STRING {
						lits = append(lits, savedLit{l, l.Value})
						l.Value = `"…"`
					}
				}
			}
		}
		return true
	})
	s := ggSrc(p, n)
	for _, x := range ids {
		x.id.Name = x.name
	}
	for _, x := range lits {
		x.l.Value = x.v
	}
	return s
}

func grpcgunR4Stmts(p *packages.Package, fn *ast.FuncDecl, ss []ast.Stmt) []string {
	var out []string
	for _, s := range ss {
		out = append(out, grpcgunR4Canon(p, fn, s))
	}
	return out
}

// grpcgunR4IsLogStmt: an expression statement that only logs.
func grpcgunR4IsLogStmt(p *packages.Package, s ast.Stmt) bool {
	es, ok := s.(*ast.ExprStmt)
	if !ok {
		return false
	}
	c, ok := es.X.(*ast.CallExpr)
	return ok && (strings.Contains(ggSrc(p, c.Fun), ".Log.") || strings.Contains(ggSrc(p, c.Fun), ".log."))
}

// grpcgunR4Extra is appended to the area's output by grpcGunExtra.
func grpcgunR4Extra(t *tr, many map[string]*packages.Package) string {
	var b strings.Builder
	def := func(doc, name, typ, val string) {
		b.WriteString("/-- " + doc + " -/\ndef " + name + " : " + typ + " := " + val + "\n\n")
	}
	unrec := []string{"unrecognised"}
	const root = "github.com/yandex/pandora/"
	gp := many[root+"components/guns/grpc"]
	sp := many[root+"components/guns/grpc/scenario"]
	jp := many[root+"components/providers/grpc/grpcjson"]
	dp := many[root+"components/providers/scenario/grpc"]
	pp := many[root+"components/providers/scenario"]
	cp := many[root+"components/providers/scenario/config"]
	mp := many[root+"lib/mp"]
	lm := many[root+"lib/math"]
	ip := many[root+"components/grpc/import"]
	for name, p := range map[string]*packages.Package{"providers/scenario": pp, "providers/scenario/config": cp, "lib/mp": mp, "lib/math": lm, "grpc/import": ip} {
		if p == nil {
			t.errs = append(t.errs, "grpcgun (round 4): could not load "+name)
		}
	}

	// ---- the generic scenario provider (its loop is re-extracted as Lean functions by area_grpcgun_sym.go)
	pro := unrec
	if run := grpcgunR4Method(pp, "Provider", "Run"); run != nil {
		var keep []string
		for _, s := range run.Body.List {
			if _, ok := s.(*ast.ForStmt); ok {
				break
			}
			switch s.(type) {
			case *ast.DeferStmt, *ast.DeclStmt:
				continue
			}
			if as, ok := s.(*ast.AssignStmt); ok && strings.HasSuffix(ggSrc(pp, as.Lhs[0]), ".Deps") {
				continue
			}
			keep = append(keep, grpcgunR4Canon(pp, run, s))
		}
		pro = keep
	}
	def("… what precedes the loop (an empty list is an error; the counters start at 0)", "scenProviderPrologue", "List String", grpcgunNetStrList(pro))

	// ---- lib/mp: NextIterator.Next (calcIndex is re-extracted as Lean functions by area_grpcgun_sym.go)
	nx := unrec
	if f := grpcgunR4Method(mp, "NextIterator", "Next"); f != nil {
		nx = grpcgunR4Stmts(mp, f, f.Body.List)
	}
	def("`(*NextIterator).Next($0 = segment)`: 0 on first use, then one more each time, under the mutex", "nextIteratorBody", "List String", grpcgunNetStrList(nx))

	// ---- weights
	for _, fn := range []struct{ name, doc, lean string }{
		{"GCDM", "`math.GCDM($0…)`: the gcd of ALL the weights (recursion on the list without its last element)", "gcdmBody"},
	} {
		body := unrec
		if f := grpcgunR4Func(lm, fn.name); f != nil {
			body = grpcgunR4Stmts(lm, f, f.Body.List)
		}
		def(fn.doc, fn.lean, "List String", grpcgunNetStrList(body))
	}
	spread := unrec
	if f := grpcgunR4Func(cp, "SpreadNames"); f != nil {
		// the two loops (which weight counts, how often a scenario is listed) are re-extracted as Lean functions by
		// area_grpcgun_sym.go; here: everything around them
		var keep []ast.Stmt
		for _, s := range f.Body.List {
			if _, isRange := s.(*ast.RangeStmt); isRange {
				continue
			}
			keep = append(keep, s)
		}
		spread = grpcgunR4Stmts(cp, f, keep)
	}
	def("`config.SpreadNames($0 = scenarios)` without its two loops: no scenario: nothing; a single scenario: once; otherwise the divisor is `GCDM` of the weights", "spreadNamesBody", "List String", grpcgunNetStrList(spread))
	rep := "unrecognised"
	if f := grpcgunR4Func(dp, "decodeAmmo"); f != nil {
		ast.Inspect(f.Body, func(x ast.Node) bool {
			if fs, ok := x.(*ast.ForStmt); ok && fs.Cond != nil && len(ggCalls(dp, fs.Body, "append")) == 1 {
				rep = grpcgunR4Canon(dp, f, fs)
			}
			return true
		})
	}
	def("scenario provider `decodeAmmo`: the loop that puts a scenario into the ammo list as often as `SpreadNames` says", "scenarioSpreadLoop", "String", ggQuote(rep))

	// ---- prepareMethodList: the loop over the services the reflection API lists
	svcLoop := unrec
	if f := ggMethod(gp, "Gun", "prepareMethodList"); f != nil {
		for _, s := range f.Body.List {
			r, ok := s.(*ast.RangeStmt)
			if !ok {
				continue
			}
			var keep []string
			var walk func(ss []ast.Stmt) []ast.Stmt
			walk = func(ss []ast.Stmt) []ast.Stmt { // drop statements that only log, at any depth of if-bodies
				var out []ast.Stmt
				for _, x := range ss {
					if grpcgunR4IsLogStmt(gp, x) {
						continue
					}
					out = append(out, x)
				}
				return out
			}
			for _, bs := range r.Body.List {
				if ifs, ok := bs.(*ast.IfStmt); ok {
					saved := ifs.Body.List
					ifs.Body.List = walk(saved)
					keep = append(keep, grpcgunR4Canon(gp, f, ifs))
					ifs.Body.List = saved
					continue
				}
				keep = append(keep, grpcgunR4Canon(gp, f, bs))
			}
			svcLoop = append([]string{"range " + grpcgunR4Canon(gp, f, r.X)}, keep...)
		}
	}
	def("`prepareMethodList`: the loop over the listed services: a service that cannot be found is SKIPPED (the others still enter the table), any other error ends the warm-up, every method is stored under its fully qualified name", "reflectServiceLoop", "List String", grpcgunNetStrList(svcLoop))

	// ---- NewGun (the dial timeout of MakeGRPCConnect is re-extracted as a Lean function by area_grpcgun_sym.go)
	ng := unrec
	if f := grpcgunR4Func(gp, "NewGun"); f != nil {
		ng = grpcgunR4Stmts(gp, f, f.Body.List)
	}
	def("`grpc.NewGun($0 = configuration)`: the configuration is stored as given", "newGunBody", "List String", grpcgunNetStrList(ng))

	// ---- scenario gun: mergeMaps
	mm := unrec
	if f := grpcgunR4Func(sp, "mergeMaps"); f != nil {
		mm = grpcgunR4Stmts(sp, f, f.Body.List)
	}
	def("`mergeMaps($0 = variables so far, $1 = a preprocessor's variables)`: the FIRST definition of a variable wins", "mergeMapsBody", "List String", grpcgunNetStrList(mm))

	// ---- grpc/json: NewProvider, registrations
	np := unrec
	if f := grpcgunR4Func(jp, "NewProvider"); f != nil {
		np = grpcgunR4Stmts(jp, f, f.Body.List)
	}
	def("`grpcjson.NewProvider($0 = fs, $1 = configuration)`: `source.path`, when given, names the file BEFORE the provider is made", "jsonNewProvider", "List String", grpcgunNetStrList(np))
	var regs [][2]string
	if f := grpcgunR4Func(ip, "Import"); f != nil {
		ast.Inspect(f.Body, func(x ast.Node) bool {
			c, ok := x.(*ast.CallExpr)
			if !ok || !strings.HasPrefix(ggSrc(ip, c.Fun), "register.") || len(c.Args) < 2 {
				return true
			}
			name := ggSrc(ip, c.Args[0])
			var rest []string
			for _, a := range c.Args[2:] {
				if _, isLit := a.(*ast.FuncLit); isLit {
					rest = append(rest, "func literal")
				} else {
					rest = append(rest, ggSrc(ip, a))
				}
			}
			regs = append(regs, [2]string{strings.TrimPrefix(ggSrc(ip, c.Fun), "register.") + " " + strings.Trim(name, `"`), strings.Join(rest, ",")})
			return true
		})
	}
	def("`grpc/import.Import`: the registered plugins with what is passed as their default configuration (\"\" = none: zero values, so `passes` of grpc/json defaults to 0 = unlimited)", "grpcRegistrations", "List (String × String)", ggPairs(regs))
	return b.String()
}
