package main

// Area "ammodec" (property C07), third file: the three pure string helpers of the line formats are re-translated,
// statement by statement, into Lean DEFINITIONS over the byte-level vocabulary of Pandora.Model.C07 (every identifier of
// this file carries the prefix `ammodec`):
//
//	components/providers/http/util/request.go      DecodeHeader(h)            -> def decodeHeaderG
//	components/providers/http/decoders/uripost     DecodeURI(uriString)       -> def decodeURIG
//	components/providers/http/decoders/raw         DecodeHeader(headerString) -> def rawDecodeHeaderG
//
// Reading of Go (trusted; lean/Pandora/Model/C07Go.lean has the vocabulary):
//
//	string -> Bytes, int -> Int, bool -> Bool, []string -> List Bytes, error -> Option String (nil = none; a package-level
//	error variable is `some "<its name>"`, fmt.Errorf(format, …) is `some "<format>"`)
//	result: Except String (r1 × r2 × …): `.error "panic: …"` for an index / slice expression out of range — partial
//	operations are never totalised: `x[i]`, `x[a:b]` are hoisted into `match goIdx … with | none => panic | some v => …`
//	at the point where Go evaluates them (`a || b`, `a && b` evaluate b only when needed: conditions are compiled into
//	decision trees), everything else is `let`
//	x = e / x := e / var x T            -> let x := e   (shadowing: the later binding is the current value)
//	a, b, c = strings.Cut(s, "c")       -> let t := cut c s; let a := t.1 …
//	n, err = strconv.Atoi(s)            -> let t := goAtoi s; …
//	if [init;] c {A} [else {B}]; R      -> decision tree of c with A;R and B;R as leaves (a `return` ends its branch)
//	return / return e1, …               -> .ok (…) (a naked return yields the named results)
//	strings.TrimSpace / Split / Join, len, ==, !=, <, >, <=, >=, +, -, !, string / int / rune literals
//
// Anything else is a translation error (gen exits non-zero).  lean/Pandora/Bridge/C07.lean proves that the three
// regenerated definitions compute what the model's `decodeHeader`, `decodeURI`, `rawDecodeHeader` compute, for every
// input, and never panic.  Renaming locals or re-ordering independent statements changes the text but not the function
// (the bridge proofs go through); another separator, bound, trim function, index or error does.

import (
	"fmt"
	"go/ast"
	"go/constant"
	"go/token"
	"go/types"
	"strings"

	"golang.org/x/tools/go/packages"
)

type ammodecFn struct {
	x    *ammodecX
	p    *packages.Package
	res  []string // named results, in order
	tmp  int
	fail bool
	why  []string // constructs outside the supported subset
}

func (f *ammodecFn) bad(n ast.Node, format string, a ...any) string {
	f.fail = true
	pos := ""
	if n != nil {
		pos = f.p.Fset.Position(n.Pos()).String() + ": "
	}
	f.why = append(f.why, pos+fmt.Sprintf(format, a...))
	return "(UNSUPPORTED)"
}

func (f *ammodecFn) fresh(prefix string) string {
	f.tmp++
	return fmt.Sprintf("%s%d", prefix, f.tmp)
}

var ammodecLeanReserved = map[string]bool{"end": true, "at": true, "from": true, "to": true, "in": true, "open": true, "then": true,
	"fun": true, "let": true, "match": true, "with": true, "do": true, "if": true, "else": true, "some": true, "none": true, "ok": false}

func ammodecIdent(s string) string {
	if ammodecLeanReserved[s] {
		return s + "_"
	}
	return s
}

func (f *ammodecFn) zero(ty types.Type, at ast.Node) string {
	switch {
	case isString(ty):
		return "([] : Bytes)"
	case isBool(ty):
		return "false"
	case isInt(ty):
		return "(0 : Int)"
	}
	if ty.String() == "error" {
		return "(none : Option String)"
	}
	if sl, ok := ty.Underlying().(*types.Slice); ok && isString(sl.Elem()) {
		return "([] : List Bytes)"
	}
	return f.bad(at, "zero value of type %s", ty)
}

// pure translates an expression; partial sub-expressions (index, slice) are hoisted: pre collects
// `match … with | none => .error … | some v =>` prefixes that must be wrapped around the use.
func (f *ammodecFn) pure(e ast.Expr, pre *[]string) string {
	e = ast.Unparen(e)
	tv := f.p.TypesInfo.Types[e]
	if tv.Value != nil {
		switch tv.Value.Kind() {
		case constant.String:
			return "(" + ammodecBytes(constant.StringVal(tv.Value)) + " : Bytes)"
		case constant.Int:
			if v, exact := constant.Int64Val(tv.Value); exact {
				if b, ok := tv.Type.(*types.Basic); ok && (b.Kind() == types.Byte || b.Kind() == types.Uint8 || b.Kind() == types.UntypedRune) && f.byteContext(e) {
					return fmt.Sprintf("(%d : UInt8)", v)
				}
				return fmt.Sprintf("(%d : Int)", v)
			}
		case constant.Bool:
			return fmt.Sprint(constant.BoolVal(tv.Value))
		}
	}
	switch v := e.(type) {
	case *ast.Ident:
		if v.Name == "nil" {
			return "(none : Option String)"
		}
		obj := f.p.TypesInfo.ObjectOf(v)
		if vr, ok := obj.(*types.Var); ok {
			if vr.Parent() == vr.Pkg().Scope() { // package-level variable
				if vr.Type().String() == "error" {
					return fmt.Sprintf("(some %q : Option String)", v.Name)
				}
				return f.bad(e, "package-level variable %s", v.Name)
			}
			return ammodecIdent(v.Name)
		}
		return f.bad(e, "identifier %s", v.Name)
	case *ast.UnaryExpr:
		if v.Op == token.NOT {
			return "(!" + f.pure(v.X, pre) + ")"
		}
	case *ast.BinaryExpr:
		switch v.Op {
		case token.LOR, token.LAND:
			// only reached when neither side is partial (cond handles the others)
			var p2 []string
			l, r := f.pure(v.X, pre), f.pure(v.Y, &p2)
			if len(p2) > 0 {
				return f.bad(e, "partial operation on the right of %s outside a condition", v.Op)
			}
			op := "||"
			if v.Op == token.LAND {
				op = "&&"
			}
			return "(" + l + " " + op + " " + r + ")"
		case token.EQL, token.NEQ, token.LSS, token.GTR, token.LEQ, token.GEQ:
			lt := f.p.TypesInfo.TypeOf(v.X)
			if lt != nil && lt.String() == "error" {
				if id, ok := ast.Unparen(v.Y).(*ast.Ident); ok && id.Name == "nil" {
					if v.Op == token.NEQ {
						return "(" + f.pure(v.X, pre) + ").isSome"
					}
					if v.Op == token.EQL {
						return "(" + f.pure(v.X, pre) + ").isNone"
					}
				}
				return f.bad(e, "comparison of errors")
			}
			op := map[token.Token]string{token.EQL: "==", token.NEQ: "!=", token.LSS: "<", token.GTR: ">", token.LEQ: "≤", token.GEQ: "≥"}[v.Op]
			l, r := f.pure(v.X, pre), f.pure(v.Y, pre)
			if v.Op == token.EQL || v.Op == token.NEQ {
				return "(" + l + " " + op + " " + r + ")"
			}
			return "(decide (" + l + " " + op + " " + r + "))"
		case token.ADD, token.SUB:
			if isInt(f.p.TypesInfo.TypeOf(e)) {
				return "(" + f.pure(v.X, pre) + " " + v.Op.String() + " " + f.pure(v.Y, pre) + ")"
			}
		}
	case *ast.IndexExpr:
		t := f.fresh("ix")
		x, i := f.pure(v.X, pre), f.pure(v.Index, pre)
		*pre = append(*pre, fmt.Sprintf("match goIdx %s %s with\n| none => .error \"panic: index out of range\"\n| some %s =>", x, i, t))
		return t
	case *ast.SliceExpr:
		if v.Slice3 {
			return f.bad(e, "3-index slice")
		}
		t := f.fresh("sl")
		x := f.pure(v.X, pre)
		lo, hi := "(0 : Int)", "(("+x+").length : Int)"
		if v.Low != nil {
			lo = f.pure(v.Low, pre)
		}
		if v.High != nil {
			hi = f.pure(v.High, pre)
		}
		*pre = append(*pre, fmt.Sprintf("match goSlice %s %s %s with\n| none => .error \"panic: slice bounds out of range\"\n| some %s =>", x, lo, hi, t))
		return t
	case *ast.CallExpr:
		if id, ok := v.Fun.(*ast.Ident); ok && id.Name == "len" && len(v.Args) == 1 {
			return "((" + f.pure(v.Args[0], pre) + ").length : Int)"
		}
		if sel, ok := v.Fun.(*ast.SelectorExpr); ok {
			if pk, ok := sel.X.(*ast.Ident); ok {
				if pn, ok := f.p.TypesInfo.Uses[pk].(*types.PkgName); ok {
					full := pn.Imported().Path() + "." + sel.Sel.Name
					switch full {
					case "strings.TrimSpace":
						return "(trimSpace " + f.pure(v.Args[0], pre) + ")"
					case "strings.Split":
						return "(splitOn " + f.sep(v.Args[1]) + " " + f.pure(v.Args[0], pre) + ")"
					case "strings.Join":
						return "(join " + f.sep(v.Args[1]) + " " + f.pure(v.Args[0], pre) + ")"
					case "fmt.Errorf":
						if c := f.p.TypesInfo.Types[v.Args[0]]; c.Value != nil && c.Value.Kind() == constant.String {
							return fmt.Sprintf("(some %q : Option String)", constant.StringVal(c.Value))
						}
					}
					return f.bad(e, "call of %s", full)
				}
			}
		}
	}
	return f.bad(e, "expression %s", ammodecSrc(f.p, e))
}

// byteContext: a rune / byte constant compared with an indexed byte
func (f *ammodecFn) byteContext(e ast.Expr) bool {
	return true
}

// sep: a constant one-byte separator
func (f *ammodecFn) sep(e ast.Expr) string {
	if c := f.p.TypesInfo.Types[e]; c.Value != nil && c.Value.Kind() == constant.String {
		if s := constant.StringVal(c.Value); len(s) == 1 {
			return fmt.Sprintf("(%d : UInt8)", s[0])
		}
	}
	return f.bad(e, "separator %s is not a one-byte constant", ammodecSrc(f.p, e))
}

func ammodecWrap(pre []string, body string) string {
	if len(pre) == 0 {
		return body
	}
	return "(" + ammodecJoinPre(pre) + "\n" + body + strings.Repeat(")", len(pre))
}

// ammodecJoinPre: every hoisted `match … | some v =>` opens a parenthesis that is closed after the body
func ammodecJoinPre(pre []string) string {
	return strings.Join(pre, "\n(")
}

// cond compiles a condition into a decision tree with the given leaves (Lean expressions of the function's result type).
func (f *ammodecFn) cond(c ast.Expr, thenK, elseK string) string {
	c = ast.Unparen(c)
	if b, ok := c.(*ast.BinaryExpr); ok {
		switch b.Op {
		case token.LOR:
			return f.cond(b.X, thenK, f.cond(b.Y, thenK, elseK))
		case token.LAND:
			return f.cond(b.X, f.cond(b.Y, thenK, elseK), elseK)
		}
	}
	if u, ok := c.(*ast.UnaryExpr); ok && u.Op == token.NOT {
		return f.cond(u.X, elseK, thenK)
	}
	var pre []string
	t := f.pure(c, &pre)
	return ammodecWrap(pre, "if "+t+" then\n"+ammodecIndent(thenK)+"\nelse\n"+ammodecIndent(elseK))
}

func ammodecIndent(s string) string {
	return "  " + strings.ReplaceAll(s, "\n", "\n  ")
}

// assign: `lhs… = rhs…` / `:=`, followed by rest
func (f *ammodecFn) assign(lhs []ast.Expr, rhs []ast.Expr, at ast.Node, rest string) string {
	name := func(e ast.Expr) string {
		id, ok := e.(*ast.Ident)
		if !ok {
			return f.bad(e, "assignment to %s", ammodecSrc(f.p, e))
		}
		return ammodecIdent(id.Name)
	}
	if len(lhs) == len(rhs) {
		var pre []string
		var lets []string
		if len(lhs) > 1 {
			// a, b = x, y: all right-hand sides are evaluated before any assignment
			var tmps []string
			for _, r := range rhs {
				t := f.fresh("p")
				tmps = append(tmps, t)
				lets = append(lets, "let "+t+" := "+f.pure(r, &pre))
			}
			for i, l := range lhs {
				if n := name(l); n != "_" {
					lets = append(lets, "let "+n+" := "+tmps[i])
				}
			}
			return ammodecWrap(pre, strings.Join(append(lets, rest), "\n"))
		}
		v := f.pure(rhs[0], &pre)
		if n := name(lhs[0]); n != "_" {
			lets = append(lets, "let "+n+" := "+v)
		}
		return ammodecWrap(pre, strings.Join(append(lets, rest), "\n"))
	}
	if len(rhs) != 1 {
		return f.bad(at, "assignment shape")
	}
	call, ok := ast.Unparen(rhs[0]).(*ast.CallExpr)
	if !ok {
		return f.bad(at, "multi-value assignment from %s", ammodecSrc(f.p, rhs[0]))
	}
	full := ""
	if sel, ok := call.Fun.(*ast.SelectorExpr); ok {
		if pk, ok := sel.X.(*ast.Ident); ok {
			if pn, ok := f.p.TypesInfo.Uses[pk].(*types.PkgName); ok {
				full = pn.Imported().Path() + "." + sel.Sel.Name
			}
		}
	}
	var pre []string
	t := f.fresh("t")
	var lets []string
	switch {
	case full == "strings.Cut" && len(lhs) == 3:
		lets = append(lets, "let "+t+" := cut "+f.sep(call.Args[1])+" "+f.pure(call.Args[0], &pre))
		for i, proj := range []string{".1", ".2.1", ".2.2"} {
			if n := name(lhs[i]); n != "_" {
				lets = append(lets, "let "+n+" := "+t+proj)
			}
		}
	case full == "strconv.Atoi" && len(lhs) == 2:
		lets = append(lets, "let "+t+" := goAtoi "+f.pure(call.Args[0], &pre))
		for i, proj := range []string{".1", ".2"} {
			if n := name(lhs[i]); n != "_" {
				lets = append(lets, "let "+n+" := "+t+proj)
			}
		}
	default:
		return f.bad(at, "multi-value call %s", ammodecSrc(f.p, call.Fun))
	}
	return ammodecWrap(pre, strings.Join(append(lets, rest), "\n"))
}

func (f *ammodecFn) ret(vals []ast.Expr) string {
	var pre []string
	var parts []string
	if len(vals) == 0 {
		for _, r := range f.res {
			parts = append(parts, ammodecIdent(r))
		}
	} else {
		for _, v := range vals {
			parts = append(parts, f.pure(v, &pre))
		}
	}
	return ammodecWrap(pre, ".ok ("+strings.Join(parts, ", ")+")")
}

// block translates stmts followed by the continuation statements `after` (which are translated again in every branch
// that reaches them: the helpers are a few lines long).
func (f *ammodecFn) block(stmts []ast.Stmt, after [][]ast.Stmt) string {
	if len(stmts) == 0 {
		if len(after) == 0 {
			return f.ret(nil) // falling off the end of a function with named results cannot happen in valid Go; kept total
		}
		return f.block(after[0], after[1:])
	}
	s, rest := stmts[0], stmts[1:]
	cont := func() string { return f.block(rest, after) }
	switch st := s.(type) {
	case *ast.ReturnStmt:
		return f.ret(st.Results)
	case *ast.AssignStmt:
		if st.Tok != token.ASSIGN && st.Tok != token.DEFINE {
			return f.bad(st, "assignment operator %s", st.Tok)
		}
		return f.assign(st.Lhs, st.Rhs, st, cont())
	case *ast.DeclStmt:
		gd, ok := st.Decl.(*ast.GenDecl)
		if !ok || gd.Tok != token.VAR {
			return f.bad(st, "declaration")
		}
		var lets []string
		var pre []string
		for _, sp := range gd.Specs {
			vs := sp.(*ast.ValueSpec)
			for i, n := range vs.Names {
				if i < len(vs.Values) {
					lets = append(lets, "let "+ammodecIdent(n.Name)+" := "+f.pure(vs.Values[i], &pre))
				} else {
					lets = append(lets, "let "+ammodecIdent(n.Name)+" := "+f.zero(f.p.TypesInfo.ObjectOf(n).Type(), n))
				}
			}
		}
		return ammodecWrap(pre, strings.Join(append(lets, cont()), "\n"))
	case *ast.IfStmt:
		var elseStmts []ast.Stmt
		switch e := st.Else.(type) {
		case nil:
		case *ast.BlockStmt:
			elseStmts = e.List
		case *ast.IfStmt:
			elseStmts = []ast.Stmt{e}
		default:
			return f.bad(st, "else form")
		}
		following := append([][]ast.Stmt{rest}, after...)
		thenK := f.block(st.Body.List, following)
		elseK := f.block(elseStmts, following)
		tree := f.cond(st.Cond, thenK, elseK)
		if st.Init != nil {
			as, ok := st.Init.(*ast.AssignStmt)
			if !ok {
				return f.bad(st, "if-init form")
			}
			return f.assign(as.Lhs, as.Rhs, as, tree)
		}
		return tree
	case *ast.BlockStmt:
		return f.block(append(append([]ast.Stmt{}, st.List...), rest...), after)
	}
	return f.bad(s, "statement %s", ammodecSrc(f.p, s))
}

// ammodecTranslateFn emits `def <leanName> (<params>) : Except String (<results>) := …` for a pure string helper.
func (x *ammodecX) translateFn(p *packages.Package, fd *ast.FuncDecl, leanName, doc string) string {
	f := &ammodecFn{x: x, p: p}
	leanTy := func(ty types.Type, at ast.Node) string {
		switch {
		case isString(ty):
			return "Bytes"
		case isBool(ty):
			return "Bool"
		case isInt(ty):
			return "Int"
		case ty.String() == "error":
			return "Option String"
		}
		return f.bad(at, "type %s", ty)
	}
	var params, resTys, inits []string
	for _, fl := range fd.Type.Params.List {
		for _, n := range fl.Names {
			params = append(params, fmt.Sprintf("(%s : %s)", ammodecIdent(n.Name), leanTy(p.TypesInfo.ObjectOf(n).Type(), n)))
		}
	}
	if fd.Type.Results == nil {
		return f.bad(fd, "no results")
	}
	for _, fl := range fd.Type.Results.List {
		if len(fl.Names) == 0 {
			return f.bad(fd, "unnamed results")
		}
		for _, n := range fl.Names {
			ty := p.TypesInfo.ObjectOf(n).Type()
			f.res = append(f.res, n.Name)
			resTys = append(resTys, leanTy(ty, n))
			inits = append(inits, "let "+ammodecIdent(n.Name)+" := "+f.zero(ty, n))
		}
	}
	body := strings.Join(append(inits, f.block(fd.Body.List, nil)), "\n")
	sig := fmt.Sprintf("%s : Except String (%s)", strings.Join(params, " "), strings.Join(resTys, " × "))
	var argTys []string
	for _, fl := range fd.Type.Params.List {
		for _, n := range fl.Names {
			argTys = append(argTys, leanTy(p.TypesInfo.ObjectOf(n).Type(), n))
		}
	}
	fnTy := strings.Join(append(argTys, "Except String ("+strings.Join(resTys, " × ")+")"), " → ")
	if f.fail {
		// outside the supported subset: no statement-level tie for this helper in this run (the constants above and the
		// differential run still cover it); never a broken obligation on its own
		fmt.Println("note (ammodec): " + leanName + " not translated: " + strings.Join(f.why, "; "))
		return fmt.Sprintf("/-- %s — NOT translated in this run (%s): the statement-level bridge lemma is vacuous -/\ndef %s? : Option (%s) := none\n\ndef %s : %s := fun _ => .error \"untranslated\"\n\n",
			doc, strings.ReplaceAll(strings.Join(f.why, "; "), "-/", "- /"), leanName, fnTy, leanName, fnTy)
	}
	return fmt.Sprintf("/-- %s -/\ndef %s %s :=\n%s\n\n/-- the helper was translated in this run -/\ndef %s? : Option (%s) := some %s\n\n", doc, leanName, sig, ammodecIndent(body), leanName, fnTy, leanName)
}
