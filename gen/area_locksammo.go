package main

// Area "locks", third part (property C11): reference flows on the instance-facing side of the http provider.
//
// `(*Provider).Acquire` of components/providers/http/provider runs in the goroutine of the instance that asks: it builds
// a request from the decoded ammo it received (`BuildRequest` of every ammo type), applies the provider's middlewares
// (`UpdateRequest` of every middleware type) and wraps the request. A preloading provider delivers the same decoded ammo
// again on every pass, to whichever instance asks — so whatever memory the request has in common with the decoded ammo is
// shared by the instances that got a request built from it.
//
// ammoFlows : List (String × String × String × String × String) — (function, kind, class of destination, destination,
// source): for every function
// reachable from Acquire by static calls (interface methods resolved to every implementing type of the scanned
// packages) each place where a REFERENCE (map, slice, pointer, channel) that comes from a parameter or the receiver —
// as opposed to one the function made itself: make, composite literal, result of a call — is put somewhere it outlives
// the statement: a field or element store, a field of a composite literal, a result, an argument of a function whose
// body is not part of the closure (classes `store`, `lit`, `return`, `arg`, `chan`, `global`). Names are canonical (`recv`, `param0`…, `local`; field names and `[]` kept), so
// renaming variables or reordering statements does not change the table; a new kind of sharing does.
//
// Locals are followed through plain assignments and `range`; results of calls are taken as fresh (a getter that hands
// out a field of its receiver is not seen through).

import (
	"fmt"
	"go/ast"
	"go/token"
	"go/types"
	"sort"
	"strings"

	"golang.org/x/tools/go/packages"
)

const locksAmmoRootPkg = locksPandora + "components/providers/http/provider"

type locksAmmoFunc struct {
	p  *packages.Package
	fd *ast.FuncDecl
}

func locksAmmoFuncName(fn *types.Func) string {
	name := fn.Name()
	if sig, ok := fn.Type().(*types.Signature); ok && sig.Recv() != nil {
		if n, ok := derefType(sig.Recv().Type()).(*types.Named); ok {
			name = n.Obj().Name() + "." + name
		}
	}
	pkg := ""
	if fn.Pkg() != nil {
		pkg = strings.TrimPrefix(fn.Pkg().Path(), locksPandora)
	}
	return pkg + "." + name
}

func locksAmmoIsRef(t types.Type) string {
	if t == nil {
		return ""
	}
	switch t.Underlying().(type) {
	case *types.Map:
		return "map"
	case *types.Slice:
		return "slice"
	case *types.Pointer:
		return "ptr"
	case *types.Chan:
		return "chan"
	}
	return ""
}

// locksAmmoHolds: a value of this type may hold a reference (round 4: interface values and values of a type parameter
// too — what a channel of `DecodedAmmo` / of `A` delivers; used for what a received value and a callee's receiver denote,
// not for the flow rows)
func locksAmmoHolds(t types.Type) bool {
	if t == nil {
		return false
	}
	if locksAmmoIsRef(t) != "" {
		return true
	}
	if _, isTP := t.(*types.TypeParam); isTP {
		return true
	}
	_, isIface := t.Underlying().(*types.Interface)
	return isIface
}

type locksAmmoScan struct {
	p      *packages.Package
	fn     string
	roots  map[types.Object]string // receiver, parameters
	alias  map[types.Object]string // locals that hold a reference coming from a root
	known  map[*types.Func]bool    // functions of the closure (their bodies are analysed with their own parameters as roots)
	rows   map[[5]string]bool
	// writes: (function, destination, how) for every store through a receiver / parameter; sites: for every call of a
	// function of the closure, what is passed for its parameter i: (callee, i) -> roots of the arguments, as "caller|root"
	fnObj  *types.Func
	writes map[[3]string]bool
	sites  map[locksAmmoParam][]string
	pkgs   []*packages.Package
}

type locksAmmoParam struct {
	fn *types.Func
	i  int
}

var locksMapMutators = map[string]bool{"Add": true, "Set": true, "Del": true}

func locksAmmoRoot(path string) string {
	path = strings.TrimPrefix(path, "&")
	for i, c := range path {
		if c == '.' || c == '[' {
			return path[:i]
		}
	}
	return path
}

func (s *locksAmmoScan) write(dst ast.Expr, how string) {
	d := s.dest(dst)
	switch locksAmmoRoot(d) {
	case "local", "call", "expr":
		return // what the function made itself
	}
	s.writes[[3]string{s.fn, d, how}] = true
}

// bind: a call of a function of the closure: what its parameters are bound to
func (s *locksAmmoScan) bind(callee *types.Func, call *ast.CallExpr) {
	sig, ok := callee.Type().(*types.Signature)
	if !ok {
		return
	}
	if sel, isSel := call.Fun.(*ast.SelectorExpr); isSel && sig.Recv() != nil {
		// round 4: what the callee's receiver is bound to (parameter -1): something of the caller's own receiver /
		// parameters, or something the caller made itself (the result of a call, a new literal)
		root := "own"
		if pth := s.path(sel.X); pth != "" {
			root = locksAmmoRoot(pth)
		}
		k := locksAmmoParam{callee, -1}
		s.sites[k] = append(s.sites[k], s.fn+"|"+root)
	}
	for i, a := range call.Args {
		if i >= sig.Params().Len() {
			break
		}
		if locksAmmoIsRef(s.p.TypesInfo.TypeOf(a)) == "" {
			continue
		}
		root := "own"
		if pth := s.path(a); pth != "" {
			root = locksAmmoRoot(pth)
		}
		k := locksAmmoParam{callee, i}
		s.sites[k] = append(s.sites[k], s.fn+"|"+root)
	}
}

// path: the canonical access path of an expression that denotes (part of) what a root refers to; "" = anything else
func (s *locksAmmoScan) path(e ast.Expr) string {
	switch x := e.(type) {
	case *ast.Ident:
		obj := s.p.TypesInfo.Uses[x]
		if obj == nil {
			obj = s.p.TypesInfo.Defs[x]
		}
		if r, ok := s.roots[obj]; ok {
			return r
		}
		if a, ok := s.alias[obj]; ok {
			return a
		}
		return ""
	case *ast.ParenExpr:
		return s.path(x.X)
	case *ast.StarExpr:
		return s.path(x.X)
	case *ast.UnaryExpr:
		if x.Op == token.AND {
			if b := s.path(x.X); b != "" {
				return "&" + b
			}
		}
		if x.Op == token.ARROW {
			// round 4: what a channel of the receiver delivers is something the receiver's owner put there — a decoded ammo
			// or a scenario definition that is delivered again on the next pass (a pooled ammo that changes hands is the
			// reviewed exception)
			if b := s.path(x.X); b != "" {
				return b + "[]"
			}
		}
		return ""
	case *ast.SelectorExpr:
		if sel, ok := s.p.TypesInfo.Selections[x]; ok && sel.Kind() == types.FieldVal {
			if b := s.path(x.X); b != "" {
				return b + "." + x.Sel.Name
			}
		}
		return ""
	case *ast.IndexExpr:
		if b := s.path(x.X); b != "" {
			return b + "[]"
		}
		return ""
	case *ast.SliceExpr:
		return s.path(x.X)
	case *ast.TypeAssertExpr:
		return s.path(x.X)
	case *ast.CallExpr:
		// a conversion keeps the reference
		if tv, ok := s.p.TypesInfo.Types[x.Fun]; ok && tv.IsType() && len(x.Args) == 1 {
			if locksAmmoIsRef(s.p.TypesInfo.TypeOf(x.Args[0])) != "" && locksAmmoIsRef(tv.Type) != "" {
				return s.path(x.Args[0])
			}
		}
		return ""
	}
	return ""
}

// dest: canonical name of a store destination (a field / element of anything)
func (s *locksAmmoScan) dest(e ast.Expr) string {
	switch x := e.(type) {
	case *ast.Ident:
		if p := s.path(x); p != "" {
			return p
		}
		return "local"
	case *ast.ParenExpr:
		return s.dest(x.X)
	case *ast.StarExpr:
		return s.dest(x.X)
	case *ast.SelectorExpr:
		return s.dest(x.X) + "." + x.Sel.Name
	case *ast.IndexExpr:
		return s.dest(x.X) + "[]"
	case *ast.CallExpr:
		return "call"
	}
	return "expr"
}

func (s *locksAmmoScan) row(kind, dst, src string) {
	class := "store"
	for _, c := range []string{"lit", "return", "arg", "chan", "global"} {
		if strings.HasPrefix(dst, c+":") {
			class, dst = c, strings.TrimPrefix(dst, c+":")
		}
	}
	s.rows[[5]string{s.fn, kind, class, dst, src}] = true
}

func (s *locksAmmoScan) flow(lhs ast.Expr, rhs ast.Expr, define bool) {
	src := s.path(rhs)
	kind := locksAmmoIsRef(s.p.TypesInfo.TypeOf(rhs))
	if id, ok := lhs.(*ast.Ident); ok {
		obj := s.p.TypesInfo.Defs[id]
		if obj == nil {
			obj = s.p.TypesInfo.Uses[id]
		}
		if id.Name == "_" || obj == nil {
			return
		}
		if _, isRoot := s.roots[obj]; isRoot {
			// a parameter re-bound to something else: what it denoted before is unaffected
			return
		}
		if v, ok := obj.(*types.Var); ok && v.Parent() != nil && v.Parent() == v.Pkg().Scope() {
			if src != "" && kind != "" {
				s.row(kind, "global:"+v.Name(), src)
			}
			return
		}
		if src != "" && kind != "" {
			s.alias[obj] = src
		} else if kind != "" {
			delete(s.alias, obj)
		}
		return
	}
	if src != "" && kind != "" {
		s.row(kind, s.dest(lhs), src)
	}
}

func (s *locksAmmoScan) scan(n ast.Node) {
	ast.Inspect(n, func(n ast.Node) bool {
		switch st := n.(type) {
		case *ast.AssignStmt:
			if len(st.Lhs) == len(st.Rhs) {
				for i := range st.Lhs {
					s.flow(st.Lhs[i], st.Rhs[i], st.Tok == token.DEFINE)
				}
			} else if len(st.Lhs) == 2 && len(st.Rhs) == 1 {
				// round 4: comma-ok receive / map look-up / type assertion: the first variable holds the reference
				switch st.Rhs[0].(type) {
				case *ast.UnaryExpr, *ast.IndexExpr, *ast.TypeAssertExpr:
					if id, isId := st.Lhs[0].(*ast.Ident); isId && id.Name != "_" {
						obj := s.p.TypesInfo.Defs[id]
						if obj == nil {
							obj = s.p.TypesInfo.Uses[id]
						}
						if _, isRoot := s.roots[obj]; obj != nil && !isRoot && locksAmmoHolds(obj.Type()) {
							if src := s.path(st.Rhs[0]); src != "" {
								s.alias[obj] = src
							} else {
								delete(s.alias, obj)
							}
						}
					}
				}
			}
			for _, l := range st.Lhs {
				if _, plain := l.(*ast.Ident); !plain {
					s.write(l, "assign")
				}
			}
		case *ast.IncDecStmt:
			if _, plain := st.X.(*ast.Ident); !plain {
				s.write(st.X, "assign")
			}
		case *ast.ValueSpec:
			if len(st.Names) == len(st.Values) {
				for i := range st.Names {
					s.flow(st.Names[i], st.Values[i], true)
				}
			}
		case *ast.RangeStmt:
			if b := s.path(st.X); b != "" && st.Value != nil {
				if id, ok := st.Value.(*ast.Ident); ok && id.Name != "_" {
					obj := s.p.TypesInfo.Defs[id]
					if obj == nil {
						obj = s.p.TypesInfo.Uses[id]
					}
					if obj != nil && locksAmmoIsRef(obj.Type()) != "" {
						s.alias[obj] = b + "[]"
					}
				}
			}
		case *ast.CompositeLit:
			tn := ""
			if t := s.p.TypesInfo.TypeOf(st); t != nil {
				if n, ok := derefType(t).(*types.Named); ok {
					tn = n.Obj().Name()
				}
			}
			for i, el := range st.Elts {
				val, key := el, fmt.Sprintf("#%d", i)
				if kv, ok := el.(*ast.KeyValueExpr); ok {
					val = kv.Value
					if id, ok := kv.Key.(*ast.Ident); ok {
						key = id.Name
					} else {
						key = "[]"
					}
				}
				if src, kind := s.path(val), locksAmmoIsRef(s.p.TypesInfo.TypeOf(val)); src != "" && kind != "" {
					s.row(kind, "lit:"+tn+"."+key, src)
				}
			}
		case *ast.ReturnStmt:
			for i, r := range st.Results {
				if src, kind := s.path(r), locksAmmoIsRef(s.p.TypesInfo.TypeOf(r)); src != "" && kind != "" {
					s.row(kind, fmt.Sprintf("return:%d", i), src)
				}
			}
		case *ast.SendStmt:
			if src, kind := s.path(st.Value), locksAmmoIsRef(s.p.TypesInfo.TypeOf(st.Value)); src != "" && kind != "" {
				s.row(kind, "chan:"+s.dest(st.Chan), src)
			}
		case *ast.CallExpr:
			if tv, ok := s.p.TypesInfo.Types[st.Fun]; ok && tv.IsType() {
				return true
			}
			var id *ast.Ident
			switch f := st.Fun.(type) {
			case *ast.Ident:
				id = f
			case *ast.SelectorExpr:
				id = f.Sel
			}
			callee := ""
			if id != nil {
				switch o := s.p.TypesInfo.Uses[id].(type) {
				case *types.Func:
					if s.known[o] {
						s.bind(o, st)
						return true // analysed with its own parameters as roots
					}
					if sig, ok := o.Type().(*types.Signature); ok && sig.Recv() != nil {
						if iface, isIface := sig.Recv().Type().Underlying().(*types.Interface); isIface && strings.HasPrefix(o.Pkg().Path(), locksPandora) {
							for _, m := range locksAmmoImplementers(s.pkgs, iface, o.Name()) {
								if s.known[m] {
									s.bind(m, st)
								}
							}
							return true // resolved to its implementations, which are part of the closure
						}
						// a method of a map-like library type that changes its receiver; an atomic value changes itself safely
						if sel, ok := st.Fun.(*ast.SelectorExpr); ok {
							if n, ok := derefType(sig.Recv().Type()).(*types.Named); ok && n.Obj().Pkg() != nil {
								switch {
								case n.Obj().Pkg().Path() == "sync/atomic":
									if o.Name() != "Load" {
										s.write(sel.X, "atomic")
									}
								case locksMapMutators[o.Name()] && locksAmmoIsRef(n) == "map":
									s.write(sel.X, "call:"+n.Obj().Name()+"."+o.Name())
								}
							}
						}
					}
					callee = locksAmmoFuncName(o)
					if o.Pkg() != nil && !strings.HasPrefix(o.Pkg().Path(), locksPandora) {
						callee = o.Pkg().Name() + "." + strings.TrimPrefix(callee, o.Pkg().Path()+".")
					}
				case *types.Builtin:
					return true // append / copy / len / delete …: elements are copied, nothing is kept
				}
			}
			if callee == "" {
				callee = "func-value"
			}
			for i, a := range st.Args {
				if src, kind := s.path(a), locksAmmoIsRef(s.p.TypesInfo.TypeOf(a)); src != "" && kind != "" {
					s.row(kind, fmt.Sprintf("arg:%s#%d", callee, i), src)
				}
			}
		}
		return true
	})
}

// locksAmmoImplementers: the methods named `name` of every named type of the scanned packages that implements iface
func locksAmmoImplementers(pkgs []*packages.Package, iface *types.Interface, name string) []*types.Func {
	var out []*types.Func
	for _, p := range pkgs {
		sc := p.Types.Scope()
		for _, n := range sc.Names() {
			tn, ok := sc.Lookup(n).(*types.TypeName)
			if !ok || tn.IsAlias() {
				continue
			}
			if _, isIface := tn.Type().Underlying().(*types.Interface); isIface {
				continue
			}
			for _, t := range []types.Type{tn.Type(), types.NewPointer(tn.Type())} {
				if types.Implements(t, iface) {
					if obj, _, _ := types.LookupFieldOrMethod(t, true, p.Types, name); obj != nil {
						if fn, ok := obj.(*types.Func); ok {
							out = append(out, fn)
						}
					}
					break
				}
			}
		}
	}
	return out
}

func locksAmmoFlows(t *tr, pkgs []*packages.Package) string {
	decls := map[*types.Func]locksAmmoFunc{}
	var rootPkg *packages.Package
	for _, p := range pkgs {
		if p.PkgPath == locksAmmoRootPkg {
			rootPkg = p
		}
		for _, f := range p.Syntax {
			if locksIsTestFile(p, f) {
				continue
			}
			name := p.Fset.Position(f.Pos()).Filename
			if strings.Contains(name, "mock_") {
				continue
			}
			for _, d := range f.Decls {
				if fd, ok := d.(*ast.FuncDecl); ok && fd.Body != nil {
					if fn, ok := p.TypesInfo.Defs[fd.Name].(*types.Func); ok {
						decls[fn] = locksAmmoFunc{p, fd}
					}
				}
			}
		}
	}
	var b strings.Builder
	b.WriteString("\n/-- reference flows on the instance-facing side of the http provider (`Provider.Acquire` and everything it calls):\n")
	b.WriteString("(function, kind of reference, class of destination, destination, source) — see gen/area_locksammo.go -/\n")
	if rootPkg == nil {
		t.errs = append(t.errs, "package "+locksAmmoRootPkg+" not loaded")
		b.WriteString("def ammoFlows : List (String × String × String × String × String) := []\n")
		return b.String()
	}
	// closure of static calls from Provider.Acquire
	var work []*types.Func
	known := map[*types.Func]bool{}
	add := func(fn *types.Func) {
		if fn == nil || known[fn] {
			return
		}
		if _, ok := decls[fn]; !ok {
			return
		}
		known[fn] = true
		work = append(work, fn)
	}
	if tn, ok := rootPkg.Types.Scope().Lookup("Provider").(*types.TypeName); ok {
		if obj, _, _ := types.LookupFieldOrMethod(types.NewPointer(tn.Type()), true, rootPkg.Types, "Acquire"); obj != nil {
			if fn, ok := obj.(*types.Func); ok {
				add(fn)
			}
		}
	}
	if len(work) == 0 {
		t.errs = append(t.errs, "http provider: (*Provider).Acquire not found")
	}
	// round 4: the other providers' instance-facing side — grpc/json and the scenario provider (both gun kinds' ammo)
	for _, p := range pkgs {
		if p.PkgPath != locksPandora+"components/providers/grpc" && p.PkgPath != locksPandora+"components/providers/scenario" {
			continue
		}
		n0 := len(work)
		if tn, ok := p.Types.Scope().Lookup("Provider").(*types.TypeName); ok {
			for _, m := range []string{"Acquire", "Release"} {
				if obj, _, _ := types.LookupFieldOrMethod(types.NewPointer(tn.Type()), true, p.Types, m); obj != nil {
					if fn, ok := obj.(*types.Func); ok {
						add(fn.Origin())
					}
				}
			}
		}
		if len(work) == n0 {
			t.errs = append(t.errs, p.PkgPath+": (*Provider).Acquire not found")
		}
	}
	for len(work) > 0 {
		fn := work[0]
		work = work[1:]
		d := decls[fn]
		ast.Inspect(d.fd.Body, func(n ast.Node) bool {
			call, ok := n.(*ast.CallExpr)
			if !ok {
				return true
			}
			var id *ast.Ident
			switch f := call.Fun.(type) {
			case *ast.Ident:
				id = f
			case *ast.SelectorExpr:
				id = f.Sel
			}
			if id == nil {
				return true
			}
			callee, ok := d.p.TypesInfo.Uses[id].(*types.Func)
			if !ok {
				return true
			}
			if sig, ok := callee.Type().(*types.Signature); ok && sig.Recv() != nil {
				if iface, ok := sig.Recv().Type().Underlying().(*types.Interface); ok {
					for _, m := range locksAmmoImplementers(pkgs, iface, callee.Name()) {
						add(m)
					}
					return true
				}
			}
			add(callee)
			return true
		})
	}
	rows := map[[5]string]bool{}
	writes := map[[3]string]bool{}
	sites := map[locksAmmoParam][]string{}
	byName := map[string]*types.Func{}
	var fns []string
	for fn := range known {
		d := decls[fn]
		byName[locksAmmoFuncName(fn)] = fn
		s := &locksAmmoScan{p: d.p, fn: locksAmmoFuncName(fn), roots: map[types.Object]string{}, alias: map[types.Object]string{}, known: known, rows: rows,
			fnObj: fn, writes: writes, sites: sites, pkgs: pkgs}
		if d.fd.Recv != nil && len(d.fd.Recv.List) == 1 && len(d.fd.Recv.List[0].Names) == 1 {
			if obj := d.p.TypesInfo.Defs[d.fd.Recv.List[0].Names[0]]; obj != nil {
				s.roots[obj] = "recv"
			}
		}
		i := 0
		for _, f := range d.fd.Type.Params.List {
			for _, nm := range f.Names {
				if obj := d.p.TypesInfo.Defs[nm]; obj != nil {
					s.roots[obj] = fmt.Sprintf("param%d", i)
				}
				i++
			}
			if len(f.Names) == 0 {
				i++
			}
		}
		// two passes: an alias introduced late in the body (loops) is known to the statements before it
		s.scan(d.fd.Body)
		s.scan(d.fd.Body)
		fns = append(fns, s.fn)
	}
	sort.Strings(fns)
	var lines []string
	for r := range rows {
		lines = append(lines, fmt.Sprintf("  (%q, %q, %q, %q, %q)", r[0], r[1], r[2], r[3], r[4]))
	}
	sort.Strings(lines)
	b.WriteString("def ammoFlows : List (String × String × String × String × String) := [\n" + strings.Join(lines, ",\n") + "\n]\n")
	b.WriteString("\n/-- the functions the table was read from: `(*Provider).Acquire` of the http provider and its static call closure -/\n")
	b.WriteString("def ammoFlowFuncs : List String := " + locksStrList(fns) + "\n")
	// which parameters may be bound to something of a caller's receiver (the decoded ammo, the provider, a middleware)
	shared := map[locksAmmoParam]bool{}
	for changed := true; changed; {
		changed = false
		for k, ss := range sites {
			if shared[k] {
				continue
			}
			for _, site := range ss {
				caller, root, _ := strings.Cut(site, "|")
				// the caller's receiver is shared unless every call site of the caller binds it to something made on the spot
				bad := root == "recv" && (len(sites[locksAmmoParam{byName[caller], -1}]) == 0 || shared[locksAmmoParam{byName[caller], -1}])
				if strings.HasPrefix(root, "param") {
					var j int
					if _, err := fmt.Sscanf(root, "param%d", &j); err == nil && shared[locksAmmoParam{byName[caller], j}] {
						bad = true
					}
				}
				if bad {
					shared[k] = true
					changed = true
					break
				}
			}
		}
	}
	var wl []string
	for w := range writes {
		origin := "param"
		root := locksAmmoRoot(w[1])
		if root == "recv" {
			origin = "recv"
			if k := (locksAmmoParam{byName[w[0]], -1}); len(sites[k]) > 0 && !shared[k] {
				origin = "own-recv" // every call site binds the receiver to an object the caller has just made
			}
		} else {
			var j int
			if _, err := fmt.Sscanf(root, "param%d", &j); err == nil && shared[locksAmmoParam{byName[w[0]], j}] {
				origin = "shared-param"
			}
		}
		wl = append(wl, fmt.Sprintf("  (%q, %q, %q, %q)", w[0], origin, w[1], w[2]))
	}
	sort.Strings(wl)
	b.WriteString("\n/-- what these functions write through their receiver and parameters: (function, origin of the object written,\n")
	b.WriteString("destination, how). Origin `recv`: the receiver (a decoded ammo, the provider, a middleware — objects every instance\n")
	b.WriteString("uses); `shared-param`: a parameter that some call chain binds to part of a receiver; `param`: a parameter every\n")
	b.WriteString("call site binds to something the caller made itself. How: `assign`, `call:<Type>.<Method>` (Add / Set / Del of a\n")
	b.WriteString("map-like library type), `atomic` -/\n")
	b.WriteString("def ammoWrites : List (String × String × String × String) := [\n" + strings.Join(wl, ",\n") + "\n]\n")
	return b.String()
}

// ---------------------------------------------------------------- memory of pooled objects that escapes
//
// pooledEscapes : List (String × String × String) — (function, pooled variable, escaping expression): a local that comes
// from `<sync.Pool>.Get()` and goes back with `Put` in the same function (directly or deferred), while memory that
// belongs to it — `v.Bytes()` and the other accessors of a bytes.Buffer that return its array, a slice of it, a
// reference-typed field of it — is stored in a field / element of something else or returned: whoever holds that
// reference reads memory the next `Get` — of any goroutine — writes.

var locksInnerAccessors = map[string]bool{"Bytes": true, "AvailableBuffer": true, "Next": true}

func locksIsSyncPool(t types.Type) bool {
	if n, ok := derefType(t).(*types.Named); ok && n.Obj().Pkg() != nil {
		return n.Obj().Pkg().Path() == "sync" && n.Obj().Name() == "Pool"
	}
	return false
}

func locksPoolCall(p *packages.Package, e ast.Expr, method string) (ast.Expr, bool) {
	for {
		switch x := e.(type) {
		case *ast.ParenExpr:
			e = x.X
			continue
		case *ast.TypeAssertExpr:
			e = x.X
			continue
		}
		break
	}
	call, ok := e.(*ast.CallExpr)
	if !ok {
		return nil, false
	}
	sel, ok := call.Fun.(*ast.SelectorExpr)
	if !ok || sel.Sel.Name != method || !locksIsSyncPool(p.TypesInfo.TypeOf(sel.X)) {
		return nil, false
	}
	return call, true
}

func locksPooledEscapes(t *tr, pkgs []*packages.Package) string {
	var lines []string
	for _, p := range pkgs {
		for _, f := range p.Syntax {
			if locksIsTestFile(p, f) {
				continue
			}
			for _, d := range f.Decls {
				fd, ok := d.(*ast.FuncDecl)
				if !ok || fd.Body == nil {
					continue
				}
				pooled := map[types.Object]bool{}
				put := map[types.Object]bool{}
				ast.Inspect(fd.Body, func(n ast.Node) bool {
					switch st := n.(type) {
					case *ast.AssignStmt:
						if len(st.Lhs) == len(st.Rhs) {
							for i := range st.Lhs {
								if _, ok := locksPoolCall(p, st.Rhs[i], "Get"); ok {
									if id, ok := st.Lhs[i].(*ast.Ident); ok {
										obj := p.TypesInfo.Defs[id]
										if obj == nil {
											obj = p.TypesInfo.Uses[id]
										}
										if obj != nil {
											pooled[obj] = true
										}
									}
								}
							}
						}
					case *ast.CallExpr:
						if call, ok := locksPoolCall(p, st, "Put"); ok {
							c := call.(*ast.CallExpr)
							if len(c.Args) == 1 {
								if id := locksPlainIdent(c.Args[0]); id != nil {
									if obj := p.TypesInfo.Uses[id]; obj != nil {
										put[obj] = true
									}
								}
							}
						}
					}
					return true
				})
				if len(pooled) == 0 {
					continue
				}
				// inner: does the expression denote memory that belongs to a pooled local that is put back here?
				var inner func(e ast.Expr) (types.Object, bool)
				inner = func(e ast.Expr) (types.Object, bool) {
					switch x := e.(type) {
					case *ast.ParenExpr:
						return inner(x.X)
					case *ast.SliceExpr:
						return inner(x.X)
					case *ast.CallExpr:
						if sel, ok := x.Fun.(*ast.SelectorExpr); ok && locksInnerAccessors[sel.Sel.Name] {
							if id := locksPlainIdent(sel.X); id != nil {
								if obj := p.TypesInfo.Uses[id]; obj != nil && pooled[obj] && put[obj] {
									return obj, true
								}
							}
						}
					case *ast.SelectorExpr:
						if id := locksPlainIdent(x.X); id != nil {
							if obj := p.TypesInfo.Uses[id]; obj != nil && pooled[obj] && put[obj] && locksAmmoIsRef(p.TypesInfo.TypeOf(x)) != "" {
								return obj, true
							}
						}
					}
					return nil, false
				}
				fname := strings.TrimPrefix(p.PkgPath, locksPandora) + "." + fd.Name.Name
				ast.Inspect(fd.Body, func(n ast.Node) bool {
					switch st := n.(type) {
					case *ast.AssignStmt:
						if len(st.Lhs) == len(st.Rhs) {
							for i := range st.Lhs {
								if _, plain := st.Lhs[i].(*ast.Ident); plain && st.Tok == token.DEFINE {
									continue
								}
								if obj, ok := inner(st.Rhs[i]); ok {
									lines = append(lines, fmt.Sprintf("  (%q, %q, %q)", fname, obj.Name(), locksShortExpr(st.Lhs[i])+" = "+locksShortExpr(st.Rhs[i])))
								}
							}
						}
					case *ast.ReturnStmt:
						for _, r := range st.Results {
							if obj, ok := inner(r); ok {
								lines = append(lines, fmt.Sprintf("  (%q, %q, %q)", fname, obj.Name(), "return "+locksShortExpr(r)))
							}
						}
					}
					return true
				})
			}
		}
	}
	sort.Strings(lines)
	lines = locksDedup(lines)
	var b strings.Builder
	b.WriteString("\n/-- memory of an object that goes back to a sync.Pool in the same function, stored or returned all the same:\n")
	b.WriteString("(function, pooled variable, escaping expression) — see gen/area_locksammo.go -/\n")
	b.WriteString("def pooledEscapes : List (String × String × String) := [\n" + strings.Join(lines, ",\n") + "\n]\n")
	return b.String()
}
