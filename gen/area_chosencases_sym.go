package main

// Area "chosencases", round 4: a small SYMBOLIC EXECUTOR for the control code of the http provider (the drivers are in
// area_chosencases_symloops.go: runPreloaded, runFullScan, Run, the filter loop of loadAmmo).  It replaces the text-shape
// matchers of rounds 1-3 (replayLoop / fullScanLoop / httpRun of area_chosencases_loops.go, chosencasesRun, the filter
// part of chosencasesLoadAmmo — all removed), which broke on harmless rewrites (an inverted `if`, a local declared
// inside the loop, an index loop instead of a range loop, `continue` instead of a nested `if`, two independent guards
// in the other order).  confutil.IsChosenCase is still read by the statement translator chosencasesFunc, the error
// branch of loadAmmo by chosencasesLF, the deferred function of Run by area_chosencases_fin.go.
//
// Reading of Go (trusted):
//   * identifiers are resolved through go/types (objects, not names): renaming a local changes nothing;
//   * statements are executed in order in continuation style: what follows an `if` / `switch` follows each of its
//     branches unless the branch returned / continued; conditions whose operands are known constants are folded and the
//     dead branch is dropped;
//   * values: Nat terms (uint / int counters, config bounds: NO wrap-around — a conversion that narrows a value which is
//     neither a constant nor a len(…) makes gen fail), propositions, error CLASSES (what errors.Is finds: RunRes),
//     strings, string lists and opaque references (the ammo Scan returned, p.ammos[i], the request);
//   * `ctx.Err()` splits the execution once per iteration on `c` (the context is cancelled / is not); the Done branch of
//     the send select is executed separately with a cancelled context;
//   * `ammo, err := p.Decoder.Scan(ctx)` splits on the five results of the decoder machine (ScanRes);
//   * fmt.Errorf / xerrors.Errorf with exactly one %w keep the class of the wrapped error (a nil operand gives errOther),
//     without %w, and errors.New, give errOther; `errors.Is(e, target)` compares classes;
//   * a loop-carried variable is a local declared before the loop, assigned in the loop, whose loop-head value is READ
//     in the loop body; each of the two provider loops must have exactly one (the delivered-ammo counter);
//   * logging calls (p.Deps.Log.…, p.Log.…) are skipped.
// Everything else makes gen fail (broken obligation).

import (
	"fmt"
	"go/ast"
	"go/constant"
	"go/token"
	"go/types"
	"strconv"
	"strings"

	"golang.org/x/tools/go/packages"
)

type chosencasesSV struct {
	kind  string // nat prop err str strs ref tuple none
	lean  string
	k     *bool  // prop: known constant
	cls   string // err: known class (nil canceled errLimit errPasses errNoAmmo errOther); "" = symbolic (lean)
	ref   string // ref: scan replay nilref ctx recv passes decoder req acq mw elem sink mws gun
	idx   string // ref scan / replay: Lean index term
	elems []chosencasesSV
	head  types.Object // nat: still the loop-head value of this outer variable
}

func chosencasesBoolp(b bool) *bool { return &b }

func chosencasesProp(lean string) chosencasesSV { return chosencasesSV{kind: "prop", lean: lean} }
func chosencasesConstProp(b bool) chosencasesSV {
	if b {
		return chosencasesSV{kind: "prop", lean: "True", k: chosencasesBoolp(true)}
	}
	return chosencasesSV{kind: "prop", lean: "False", k: chosencasesBoolp(false)}
}
func chosencasesNat(lean string) chosencasesSV { return chosencasesSV{kind: "nat", lean: lean} }
func chosencasesErrC(cls string) chosencasesSV {
	return chosencasesSV{kind: "err", cls: cls, lean: "RunRes." + cls}
}
func chosencasesErrS(lean string) chosencasesSV { return chosencasesSV{kind: "err", lean: lean} }
func chosencasesRef(r string) chosencasesSV     { return chosencasesSV{kind: "ref", ref: r} }

type chosencasesSt struct {
	env      map[types.Object]chosencasesSV
	ctx      int    // 0 unknown, 1 cancelled, 2 not cancelled
	sent     string // Lean index of the ammo that was sent in this iteration ("" = none)
	trace    []string
	appended bool
	flags    map[string]bool
}

func (s *chosencasesSt) clone() *chosencasesSt {
	n := &chosencasesSt{env: make(map[types.Object]chosencasesSV, len(s.env)), ctx: s.ctx, sent: s.sent,
		trace: append([]string(nil), s.trace...), appended: s.appended, flags: map[string]bool{}}
	for k, v := range s.env {
		n.env[k] = v
	}
	for k, v := range s.flags {
		n.flags[k] = v
	}
	return n
}

type chosencasesCont func(st *chosencasesSt, ind string) string

type chosencasesSym struct {
	t     *tr
	pkg   *packages.Package
	fn    string
	recv  types.Object // the receiver `p`
	ctxO  types.Object // the context parameter
	reads map[types.Object]bool
	depth int

	call     func(c *ast.CallExpr, st *chosencasesSt) (chosencasesSV, bool)
	field    func(owner, name string, e *ast.SelectorExpr, st *chosencasesSt) (chosencasesSV, bool)
	index    func(e *ast.IndexExpr, st *chosencasesSt) (chosencasesSV, bool)
	stmt     func(s ast.Stmt, rest []ast.Stmt, st *chosencasesSt, k chosencasesCont, ind string) (string, bool)
	onReturn func(r *ast.ReturnStmt, st *chosencasesSt, ind string) string
	onCont   func(st *chosencasesSt, ind string) string
	onBreak  func(st *chosencasesSt, ind string) string
}

func (x *chosencasesSym) fail(n ast.Node, format string, a ...any) string {
	msg := fmt.Sprintf("%s: unsupported (chosencases sym %s): %s", x.pkg.Fset.Position(n.Pos()), x.fn, fmt.Sprintf(format, a...))
	x.t.errs = append(x.t.errs, msg)
	return "(UNSUPPORTED)"
}

func (x *chosencasesSym) failV(n ast.Node, format string, a ...any) chosencasesSV {
	return chosencasesSV{kind: "none", lean: x.fail(n, format, a...)}
}

func (x *chosencasesSym) src(n ast.Node) string { return chosencasesSrc(x.pkg, n) }

func (x *chosencasesSym) obj(id *ast.Ident) types.Object {
	if o := x.pkg.TypesInfo.Uses[id]; o != nil {
		return o
	}
	return x.pkg.TypesInfo.Defs[id]
}

// ---- callee / field resolution ------------------------------------------------------------------------------------

// chosencasesCallee: what a call calls.  kind = "func" (package-level function: pkg path, name), "method" (name, the
// receiver expression, the package path of the method's receiver type), "conv" (a type conversion), "builtin" (name).
type chosencasesCalleeInfo struct {
	kind, pkg, name string
	recv            ast.Expr
	typ             types.Type
}

func (x *chosencasesSym) callee(c *ast.CallExpr) chosencasesCalleeInfo {
	info := x.pkg.TypesInfo
	fun := chosencasesUnparen(c.Fun)
	if tv, ok := info.Types[fun]; ok && tv.IsType() {
		return chosencasesCalleeInfo{kind: "conv", typ: tv.Type}
	}
	switch f := fun.(type) {
	case *ast.Ident:
		switch o := info.Uses[f].(type) {
		case *types.Builtin:
			return chosencasesCalleeInfo{kind: "builtin", name: o.Name()}
		case *types.Func:
			if o.Pkg() != nil {
				return chosencasesCalleeInfo{kind: "func", pkg: o.Pkg().Path(), name: o.Name()}
			}
		}
	case *ast.SelectorExpr:
		if s, ok := info.Selections[f]; ok && s.Kind() == types.MethodVal {
			p := ""
			if fn, ok := s.Obj().(*types.Func); ok && fn.Pkg() != nil {
				p = fn.Pkg().Path()
			}
			return chosencasesCalleeInfo{kind: "method", pkg: p, name: f.Sel.Name, recv: f.X}
		}
		if o, ok := info.Uses[f.Sel].(*types.Func); ok && o.Pkg() != nil && o.Type().(*types.Signature).Recv() == nil {
			return chosencasesCalleeInfo{kind: "func", pkg: o.Pkg().Path(), name: o.Name()}
		}
	case *ast.IndexExpr: // generic function instantiated explicitly
		if sel, ok := f.X.(*ast.SelectorExpr); ok {
			if o, ok := info.Uses[sel.Sel].(*types.Func); ok && o.Pkg() != nil {
				return chosencasesCalleeInfo{kind: "func", pkg: o.Pkg().Path(), name: o.Name()}
			}
		}
	}
	return chosencasesCalleeInfo{}
}

// rootIsRecv: the innermost operand of a selector chain is the receiver
func (x *chosencasesSym) rootIsRecv(e ast.Expr) bool {
	for {
		switch v := chosencasesUnparen(e).(type) {
		case *ast.SelectorExpr:
			e = v.X
		case *ast.Ident:
			return x.recv != nil && x.obj(v) == x.recv
		default:
			return false
		}
	}
}

// fieldInfo: a field selection rooted at the receiver: last element of the package path of the field, field name
func (x *chosencasesSym) fieldInfo(e *ast.SelectorExpr) (owner, name string, ok bool) {
	s, isSel := x.pkg.TypesInfo.Selections[e]
	if !isSel || s.Kind() != types.FieldVal || !x.rootIsRecv(e) {
		return "", "", false
	}
	v, isVar := s.Obj().(*types.Var)
	if !isVar || v.Pkg() == nil {
		return "", "", false
	}
	p := v.Pkg().Path()
	return p[strings.LastIndex(p, "/")+1:], v.Name(), true
}

func (x *chosencasesSym) isNilIdent(e ast.Expr) bool {
	id, ok := chosencasesUnparen(e).(*ast.Ident)
	if !ok {
		return false
	}
	_, isNil := x.pkg.TypesInfo.Uses[id].(*types.Nil)
	return isNil
}

func (x *chosencasesSym) isErrorType(e ast.Expr) bool {
	t := x.pkg.TypesInfo.TypeOf(e)
	return t != nil && types.Identical(t, types.Universe.Lookup("error").Type())
}

// class of a package-level error variable (context.Canceled, the sentinels of package decoders)
func (x *chosencasesSym) pkgErrClass(e ast.Expr) (string, bool) {
	var id *ast.Ident
	switch v := chosencasesUnparen(e).(type) {
	case *ast.SelectorExpr:
		id = v.Sel
	case *ast.Ident:
		id = v
	default:
		return "", false
	}
	o, ok := x.pkg.TypesInfo.Uses[id].(*types.Var)
	if !ok || o.Pkg() == nil || o.Parent() != o.Pkg().Scope() {
		return "", false
	}
	if o.Pkg().Path() == "context" && o.Name() == "Canceled" {
		return "canceled", true
	}
	if o.Pkg().Path() == "context" && o.Name() == "DeadlineExceeded" {
		return "deadline", true
	}
	if o.Pkg().Path() == chosencasesDecodersPath {
		if r, ok := chosencasesSentinelVars[o.Name()]; ok {
			return strings.TrimPrefix(r, "RunRes."), true
		}
	}
	return "", false
}

// ---- propositions -------------------------------------------------------------------------------------------------

func chosencasesNot(a chosencasesSV) chosencasesSV {
	if a.k != nil {
		return chosencasesConstProp(!*a.k)
	}
	return chosencasesProp("(¬ " + a.lean + ")")
}

func chosencasesAnd(a, b chosencasesSV) chosencasesSV {
	switch {
	case a.k != nil && !*a.k, b.k != nil && !*b.k:
		return chosencasesConstProp(false)
	case a.k != nil:
		return b
	case b.k != nil:
		return a
	}
	return chosencasesProp("(" + a.lean + " ∧ " + b.lean + ")")
}

func chosencasesOr(a, b chosencasesSV) chosencasesSV {
	switch {
	case a.k != nil && *a.k, b.k != nil && *b.k:
		return chosencasesConstProp(true)
	case a.k != nil:
		return b
	case b.k != nil:
		return a
	}
	return chosencasesProp("(" + a.lean + " ∨ " + b.lean + ")")
}

// errIs: errors.Is(e, <class>) / e == nil (class "nil")
func chosencasesErrIs(e chosencasesSV, cls string) chosencasesSV {
	if cls == "deadline" { // the model has no deadlines
		if e.cls != "" {
			return chosencasesConstProp(false)
		}
		return chosencasesConstProp(false)
	}
	if e.cls != "" {
		return chosencasesConstProp(e.cls == cls)
	}
	return chosencasesProp("(" + e.lean + " = RunRes." + cls + ")")
}

// wrap: a non-nil error in which errors.Is finds what it finds in e
func chosencasesWrapErr(e chosencasesSV) chosencasesSV {
	if e.cls != "" {
		if e.cls == "nil" {
			return chosencasesErrC("errOther")
		}
		return e
	}
	return chosencasesErrS("(loadAmmoWrap " + e.lean + ")")
}

// ---- expressions --------------------------------------------------------------------------------------------------

func (x *chosencasesSym) read(v chosencasesSV) chosencasesSV {
	if v.head != nil && x.reads != nil {
		x.reads[v.head] = true
	}
	return v
}

func (x *chosencasesSym) eval(e ast.Expr, st *chosencasesSt) chosencasesSV {
	info := x.pkg.TypesInfo
	e = chosencasesUnparen(e)
	if tv, ok := info.Types[e]; ok && tv.Value != nil {
		switch tv.Value.Kind() {
		case constant.Int:
			return chosencasesNat(tv.Value.ExactString())
		case constant.Bool:
			return chosencasesConstProp(constant.BoolVal(tv.Value))
		case constant.String:
			return chosencasesSV{kind: "str", lean: fmt.Sprintf("%q", constant.StringVal(tv.Value))}
		}
	}
	if cls, ok := x.pkgErrClass(e); ok { // a sentinel of package decoders, context.Canceled
		if cls == "deadline" {
			cls = "errOther"
		}
		return chosencasesErrC(cls)
	}
	switch v := e.(type) {
	case *ast.Ident:
		if x.isNilIdent(v) {
			return chosencasesSV{kind: "nil"}
		}
		if o := x.obj(v); o != nil {
			if val, ok := st.env[o]; ok {
				return x.read(val)
			}
			if o == x.ctxO {
				return chosencasesRef("ctx")
			}
			if o == x.recv {
				return chosencasesRef("recv")
			}
		}
		return x.failV(e, "identifier %s", v.Name)
	case *ast.UnaryExpr:
		if v.Op == token.NOT {
			a := x.eval(v.X, st)
			if a.kind != "prop" {
				return x.failV(e, "! of %s", x.src(v.X))
			}
			return chosencasesNot(a)
		}
	case *ast.BinaryExpr:
		return x.binary(v, st)
	case *ast.SelectorExpr:
		if owner, name, ok := x.fieldInfo(v); ok && x.field != nil {
			if r, ok := x.field(owner, name, v, st); ok {
				return r
			}
		}
	case *ast.IndexExpr:
		if x.index != nil {
			if r, ok := x.index(v, st); ok {
				return r
			}
		}
	case *ast.CallExpr:
		return x.evalCall(v, st)
	case *ast.TypeAssertExpr:
		// p.Decoder.(passCounter): every file decoder implements it (checked: passCounterImplemented)
		if sel, ok := chosencasesUnparen(v.X).(*ast.SelectorExpr); ok {
			if _, name, ok := x.fieldInfo(sel); ok && name == "Decoder" && v.Type != nil && x.src(v.Type) == "passCounter" {
				return chosencasesSV{kind: "tuple", elems: []chosencasesSV{chosencasesRef("passes"), chosencasesConstProp(true)}}
			}
		}
	}
	return x.failV(e, "expression %s", x.src(e))
}

func (x *chosencasesSym) binary(v *ast.BinaryExpr, st *chosencasesSt) chosencasesSV {
	switch v.Op {
	case token.LAND, token.LOR:
		a := x.eval(v.X, st)
		// Go evaluates the right operand only when needed; our operands have no effects, so evaluating is harmless
		b := x.eval(v.Y, st)
		if a.kind != "prop" || b.kind != "prop" {
			return x.failV(v, "operands of %s", x.src(v))
		}
		if v.Op == token.LAND {
			return chosencasesAnd(a, b)
		}
		return chosencasesOr(a, b)
	}
	a, b := x.eval(v.X, st), x.eval(v.Y, st)
	cmp := map[token.Token]string{token.EQL: "=", token.NEQ: "≠", token.LSS: "<", token.LEQ: "≤", token.GTR: ">", token.GEQ: "≥"}
	if op, ok := cmp[v.Op]; ok {
		if a.kind == "nil" {
			a, b = b, a
		}
		switch {
		case b.kind == "nil" && a.kind == "err" && (v.Op == token.EQL || v.Op == token.NEQ):
			r := chosencasesErrIs(a, "nil")
			if v.Op == token.NEQ {
				return chosencasesNot(r)
			}
			return r
		case b.kind == "nil" && a.kind == "ref" && a.ref == "list" && (v.Op == token.EQL || v.Op == token.NEQ):
			// a nil and an empty chosencases list are the same configuration
			if v.Op == token.EQL {
				return chosencasesProp("(chosenCases.length = 0)")
			}
			return chosencasesProp("(chosenCases.length ≠ 0)")
		case b.kind == "nil" && a.kind == "ref" && (v.Op == token.EQL || v.Op == token.NEQ):
			isNil := a.ref == "nilref"
			return chosencasesConstProp(isNil == (v.Op == token.EQL))
		case a.kind == "err" && b.kind == "err" && b.cls != "" && (v.Op == token.EQL || v.Op == token.NEQ):
			// err == context.Canceled: identity; for the classes of the model the same as errors.Is on an unwrapped value
			r := chosencasesErrIs(a, b.cls)
			if v.Op == token.NEQ {
				return chosencasesNot(r)
			}
			return r
		case a.kind == "nat" && b.kind == "nat":
			return chosencasesProp("(" + a.lean + " " + op + " " + b.lean + ")")
		case a.kind == "str" && b.kind == "str" && (v.Op == token.EQL || v.Op == token.NEQ):
			return chosencasesProp("(" + a.lean + " " + op + " " + b.lean + ")")
		case a.kind == "prop" && b.kind == "prop" && (v.Op == token.EQL || v.Op == token.NEQ) && b.k != nil:
			if *b.k == (v.Op == token.EQL) {
				return a
			}
			return chosencasesNot(a)
		}
		return x.failV(v, "comparison %s", x.src(v))
	}
	if a.kind == "nat" && b.kind == "nat" {
		switch v.Op {
		case token.ADD:
			return chosencasesNat("(" + a.lean + " + " + b.lean + ")")
		case token.MUL:
			return chosencasesNat("(" + a.lean + " * " + b.lean + ")")
		case token.QUO:
			return chosencasesNat("(" + a.lean + " / " + b.lean + ")")
		case token.REM:
			return chosencasesNat("(" + a.lean + " % " + b.lean + ")")
		}
	}
	return x.failV(v, "operation %s", x.src(v))
}

// narrowing: does a conversion to `to` lose values of `from`?
func chosencasesNarrows(from, to types.Type) bool {
	fb, ok1 := from.Underlying().(*types.Basic)
	tb, ok2 := to.Underlying().(*types.Basic)
	if !ok1 || !ok2 {
		return true
	}
	bits := func(b *types.Basic) (int, bool) { // size, signed
		switch b.Kind() {
		case types.Int8:
			return 8, true
		case types.Int16:
			return 16, true
		case types.Int32:
			return 32, true
		case types.Int, types.Int64:
			return 64, true
		case types.Uint8:
			return 8, false
		case types.Uint16:
			return 16, false
		case types.Uint32:
			return 32, false
		case types.Uint, types.Uint64, types.Uintptr:
			return 64, false
		}
		return 0, false
	}
	fs, fsg := bits(fb)
	ts, tsg := bits(tb)
	if fs == 0 || ts == 0 {
		return true
	}
	switch {
	case fsg == tsg:
		return ts < fs
	case !fsg && tsg: // unsigned -> signed
		return ts <= fs
	default: // signed -> unsigned: negative values
		return true
	}
}

func (x *chosencasesSym) evalCall(c *ast.CallExpr, st *chosencasesSt) chosencasesSV {
	ci := x.callee(c)
	switch {
	case ci.kind == "conv" && len(c.Args) == 1 && isInt(ci.typ):
		arg := chosencasesUnparen(c.Args[0])
		at := x.pkg.TypesInfo.TypeOf(arg)
		v := x.eval(arg, st)
		if v.kind != "nat" {
			return x.failV(c, "conversion of %s", x.src(arg))
		}
		if tv, ok := x.pkg.TypesInfo.Types[arg]; ok && tv.Value != nil {
			return v
		}
		if inner, ok := arg.(*ast.CallExpr); ok {
			if ic := x.callee(inner); ic.kind == "builtin" && ic.name == "len" {
				if tb, ok := ci.typ.Underlying().(*types.Basic); ok && tb.Kind() != types.Int8 && tb.Kind() != types.Uint8 && tb.Kind() != types.Int16 && tb.Kind() != types.Uint16 {
					return v
				}
			}
		}
		if at == nil || chosencasesNarrows(at, ci.typ) {
			return x.failV(c, "conversion %s narrows a value that is not a constant (the model counts in natural numbers)", x.src(c))
		}
		return v
	case ci.kind == "func" && ci.name == "Is" && len(c.Args) == 2 &&
		(ci.pkg == "errors" || ci.pkg == "golang.org/x/xerrors" || ci.pkg == "github.com/pkg/errors"):
		a := x.eval(c.Args[0], st)
		if a.kind == "nil" {
			a = chosencasesErrC("nil")
		}
		if a.kind != "err" {
			return x.failV(c, "errors.Is on %s", x.src(c.Args[0]))
		}
		if cls, ok := x.pkgErrClass(c.Args[1]); ok {
			return chosencasesErrIs(a, cls)
		}
		b := x.eval(c.Args[1], st)
		if b.kind == "err" && b.cls != "" {
			if b.cls == "nil" { // errors.Is(err, nil) is err == nil
				return chosencasesErrIs(a, "nil")
			}
			return chosencasesErrIs(a, b.cls)
		}
		return x.failV(c, "target of %s", x.src(c))
	case ci.kind == "func" && ci.name == "Errorf" && (ci.pkg == "fmt" || ci.pkg == "golang.org/x/xerrors") && len(c.Args) >= 1:
		tv, ok := x.pkg.TypesInfo.Types[c.Args[0]]
		if !ok || tv.Value == nil || tv.Value.Kind() != constant.String {
			return x.failV(c, "format of %s is not a constant", x.src(c))
		}
		format := constant.StringVal(tv.Value)
		ws, okf := chosencasesWrapVerbs(format)
		if !okf {
			return x.failV(c, "format %q", format)
		}
		if len(ws) == 0 || (ci.pkg != "fmt" && len(ws) > 1) {
			return chosencasesErrC("errOther")
		}
		if len(ws) == 1 && ws[0]+1 < len(c.Args) && (ci.pkg == "fmt" || strings.HasSuffix(format, ": %w")) {
			a := x.eval(c.Args[ws[0]+1], st)
			if a.kind == "nil" {
				a = chosencasesErrC("nil")
			}
			if a.kind == "err" {
				return chosencasesWrapErr(a)
			}
		}
		return x.failV(c, "error value %s", x.src(c))
	case ci.kind == "func" && ci.name == "New" && (ci.pkg == "errors" || ci.pkg == "golang.org/x/xerrors" || ci.pkg == "github.com/pkg/errors"):
		return chosencasesErrC("errOther")
	case ci.kind == "method" && ci.name == "Err" && len(c.Args) == 0:
		if r := x.eval(ci.recv, st); r.kind == "ref" && r.ref == "ctx" {
			switch st.ctx {
			case 1:
				return chosencasesErrC("canceled")
			case 2:
				return chosencasesErrC("nil")
			}
			return x.failV(c, "ctx.Err() where the state of the context is not split")
		}
	}
	if x.call != nil {
		if r, ok := x.call(c, st); ok {
			return r
		}
	}
	return x.failV(c, "call %s", x.src(c))
}

// ---- statements ---------------------------------------------------------------------------------------------------

func (x *chosencasesSym) isLogCall(e ast.Expr) bool {
	s := x.src(e)
	return strings.HasPrefix(s, "p.Deps.Log.") || strings.HasPrefix(s, "p.Log.") || strings.HasPrefix(s, "p.log.") || strings.HasPrefix(s, "zap.L().")
}

// containsCtxErr: an expression of the statement's head calls ctx.Err()
func (x *chosencasesSym) headCallsCtxErr(s ast.Stmt) bool {
	found := false
	look := func(n ast.Node) {
		if n == nil {
			return
		}
		ast.Inspect(n, func(m ast.Node) bool {
			if _, ok := m.(*ast.FuncLit); ok {
				return false
			}
			if c, ok := m.(*ast.CallExpr); ok {
				if ci := x.callee(c); ci.kind == "method" && ci.name == "Err" && len(c.Args) == 0 {
					if id, ok := chosencasesUnparen(ci.recv).(*ast.Ident); ok && x.obj(id) == x.ctxO {
						found = true
					}
				}
			}
			return true
		})
	}
	switch v := s.(type) {
	case *ast.IfStmt:
		if v.Init != nil {
			look(v.Init)
		}
		look(v.Cond)
	case *ast.AssignStmt:
		for _, r := range v.Rhs {
			look(r)
		}
	case *ast.ReturnStmt:
		for _, r := range v.Results {
			look(r)
		}
	case *ast.SwitchStmt:
		if v.Init != nil {
			look(v.Init)
		}
		if v.Tag != nil {
			look(v.Tag)
		}
		for _, cc := range v.Body.List {
			for _, e := range cc.(*ast.CaseClause).List {
				look(e)
			}
		}
	case *ast.DeclStmt:
		look(v)
	}
	return found
}

func (x *chosencasesSym) assign(lhs ast.Expr, v chosencasesSV, define bool, st *chosencasesSt) bool {
	id, ok := chosencasesUnparen(lhs).(*ast.Ident)
	if !ok {
		return false
	}
	if id.Name == "_" {
		return true
	}
	var o types.Object
	if define {
		o = x.pkg.TypesInfo.Defs[id]
		if o == nil { // redeclaration in a := with an existing variable
			o = x.pkg.TypesInfo.Uses[id]
		}
	} else {
		o = x.pkg.TypesInfo.Uses[id]
	}
	if o == nil {
		return false
	}
	if v.kind == "nil" {
		if types.Identical(o.Type(), types.Universe.Lookup("error").Type()) {
			v = chosencasesErrC("nil")
		} else {
			v = chosencasesRef("nilref")
		}
	}
	v.head = nil
	st.env[o] = v
	return true
}

func (x *chosencasesSym) zero(t types.Type) (chosencasesSV, bool) {
	switch {
	case isInt(t):
		return chosencasesNat("0"), true
	case isBool(t):
		return chosencasesConstProp(false), true
	case types.Identical(t, types.Universe.Lookup("error").Type()):
		return chosencasesErrC("nil"), true
	}
	if _, ok := t.Underlying().(*types.Slice); ok {
		return chosencasesRef("nilref"), true
	}
	if _, ok := t.Underlying().(*types.Interface); ok {
		return chosencasesRef("nilref"), true
	}
	if _, ok := t.Underlying().(*types.Pointer); ok {
		return chosencasesRef("nilref"), true
	}
	return chosencasesSV{}, false
}

func (x *chosencasesSym) branch(c chosencasesSV, ind string, thenF, elseF func(ind string) string) string {
	if c.k != nil {
		if *c.k {
			return thenF(ind)
		}
		return elseF(ind)
	}
	return ind + "if " + c.lean + " then\n" + thenF(ind+"  ") + "\n" + ind + "else\n" + elseF(ind)
}

func (x *chosencasesSym) exec(list []ast.Stmt, st *chosencasesSt, k chosencasesCont, ind string) string {
	if len(list) == 0 {
		return k(st, ind)
	}
	x.depth++
	defer func() { x.depth-- }()
	if x.depth > 60 {
		return ind + x.fail(list[0], "nested too deeply")
	}
	s, rest := list[0], list[1:]
	next := func(st *chosencasesSt, ind string) string { return x.exec(rest, st, k, ind) }

	// one split on the state of the context per iteration
	if st.ctx == 0 && x.ctxO != nil && x.headCallsCtxErr(s) {
		a, b := st.clone(), st.clone()
		a.ctx, b.ctx = 1, 2
		return ind + "if c = true then\n" + x.exec(list, a, k, ind+"  ") + "\n" + ind + "else\n" + x.exec(list, b, k, ind)
	}
	if x.stmt != nil {
		if out, ok := x.stmt(s, rest, st, k, ind); ok {
			return out
		}
	}
	switch v := s.(type) {
	case *ast.EmptyStmt:
		return next(st, ind)
	case *ast.BlockStmt:
		return x.exec(append(append([]ast.Stmt{}, v.List...), rest...), st, k, ind)
	case *ast.ExprStmt:
		if x.isLogCall(v.X) {
			return next(st, ind)
		}
	case *ast.DeclStmt:
		gd, ok := v.Decl.(*ast.GenDecl)
		if !ok || gd.Tok != token.VAR {
			break
		}
		for _, sp := range gd.Specs {
			vs := sp.(*ast.ValueSpec)
			for i, n := range vs.Names {
				o := x.pkg.TypesInfo.Defs[n]
				if o == nil {
					continue
				}
				if i < len(vs.Values) {
					if !x.assign(n, x.eval(vs.Values[i], st), true, st) {
						return ind + x.fail(s, "declaration %s", x.src(s))
					}
					continue
				}
				z, ok := x.zero(o.Type())
				if !ok {
					return ind + x.fail(s, "zero value of %s", o.Type())
				}
				st.env[o] = z
			}
		}
		return next(st, ind)
	case *ast.AssignStmt:
		switch {
		case (v.Tok == token.ASSIGN || v.Tok == token.DEFINE) && len(v.Lhs) == len(v.Rhs):
			vals := make([]chosencasesSV, len(v.Rhs))
			for i, r := range v.Rhs {
				vals[i] = x.eval(r, st)
			}
			for i, l := range v.Lhs {
				if vals[i].kind == "none" || vals[i].kind == "tuple" || !x.assign(l, vals[i], v.Tok == token.DEFINE, st) {
					return ind + x.fail(s, "assignment %s", x.src(s))
				}
			}
			return next(st, ind)
		case (v.Tok == token.ASSIGN || v.Tok == token.DEFINE) && len(v.Rhs) == 1:
			t := x.eval(v.Rhs[0], st)
			if t.kind != "tuple" || len(t.elems) != len(v.Lhs) {
				return ind + x.fail(s, "assignment %s", x.src(s))
			}
			for i, l := range v.Lhs {
				if !x.assign(l, t.elems[i], v.Tok == token.DEFINE, st) {
					return ind + x.fail(s, "assignment %s", x.src(s))
				}
			}
			return next(st, ind)
		case v.Tok == token.ADD_ASSIGN && len(v.Lhs) == 1 && len(v.Rhs) == 1:
			a, b := x.eval(v.Lhs[0], st), x.eval(v.Rhs[0], st)
			if a.kind == "nat" && b.kind == "nat" && x.assign(v.Lhs[0], chosencasesNat("("+a.lean+" + "+b.lean+")"), false, st) {
				return next(st, ind)
			}
		}
	case *ast.IncDecStmt:
		if v.Tok == token.INC {
			a := x.eval(v.X, st)
			if a.kind == "nat" && x.assign(v.X, chosencasesNat("("+a.lean+" + 1)"), false, st) {
				return next(st, ind)
			}
		}
	case *ast.ReturnStmt:
		if x.onReturn != nil {
			return x.onReturn(v, st, ind)
		}
	case *ast.BranchStmt:
		if v.Label == nil && v.Tok == token.CONTINUE && x.onCont != nil {
			return x.onCont(st, ind)
		}
		if v.Label == nil && v.Tok == token.BREAK && x.onBreak != nil {
			return x.onBreak(st, ind)
		}
	case *ast.IfStmt:
		if v.Init != nil {
			// the init statement, then the if without it (its variables live in the if only; objects keep them apart)
			bare := &ast.IfStmt{If: v.If, Cond: v.Cond, Body: v.Body, Else: v.Else}
			return x.exec(append([]ast.Stmt{v.Init, bare}, rest...), st, k, ind)
		}
		c := x.eval(v.Cond, st)
		if c.kind != "prop" {
			return ind + x.fail(s, "condition %s", x.src(v.Cond))
		}
		var els []ast.Stmt
		switch e := v.Else.(type) {
		case nil:
		case *ast.BlockStmt:
			els = e.List
		case *ast.IfStmt:
			els = []ast.Stmt{e}
		default:
			return ind + x.fail(s, "else of %s", x.src(s))
		}
		return x.branch(c, ind,
			func(ind string) string { return x.exec(v.Body.List, st.clone(), next, ind) },
			func(ind string) string { return x.exec(els, st.clone(), next, ind) })
	case *ast.SwitchStmt:
		if v.Init != nil {
			bare := &ast.SwitchStmt{Switch: v.Switch, Tag: v.Tag, Body: v.Body}
			return x.exec(append([]ast.Stmt{v.Init, bare}, rest...), st, k, ind)
		}
		return x.switchStmt(v, st, next, ind)
	}
	return ind + x.fail(s, "statement %s", x.src(s))
}

// switch: an if-chain in source order, `default` last; no fallthrough
func (x *chosencasesSym) switchStmt(v *ast.SwitchStmt, st *chosencasesSt, next chosencasesCont, ind string) string {
	var clauses []*ast.CaseClause
	var def *ast.CaseClause
	for _, c := range v.Body.List {
		cc := c.(*ast.CaseClause)
		for _, b := range cc.Body {
			if br, ok := b.(*ast.BranchStmt); ok && (br.Tok == token.FALLTHROUGH || br.Tok == token.BREAK) {
				return ind + x.fail(v, "fallthrough / break in a switch")
			}
		}
		if cc.List == nil {
			def = cc
		} else {
			clauses = append(clauses, cc)
		}
	}
	var chain func(i int, st *chosencasesSt, ind string) string
	chain = func(i int, st *chosencasesSt, ind string) string {
		if i == len(clauses) {
			if def != nil {
				return x.exec(def.Body, st.clone(), next, ind)
			}
			return next(st, ind)
		}
		cc := clauses[i]
		c := chosencasesConstProp(false)
		for _, e := range cc.List {
			var one chosencasesSV
			if v.Tag == nil {
				one = x.eval(e, st)
			} else {
				one = x.binary(&ast.BinaryExpr{X: v.Tag, Op: token.EQL, Y: e, OpPos: e.Pos()}, st)
			}
			if one.kind != "prop" {
				return ind + x.fail(e, "case %s", x.src(e))
			}
			c = chosencasesOr(c, one)
		}
		return x.branch(c, ind,
			func(ind string) string { return x.exec(cc.Body, st.clone(), next, ind) },
			func(ind string) string { return chain(i+1, st, ind) })
	}
	return chain(0, st, ind)
}

// assignedOuter: objects declared outside `body` (but inside fd) that are assigned inside it
func (x *chosencasesSym) assignedOuter(body *ast.BlockStmt) []types.Object {
	var out []types.Object
	seen := map[types.Object]bool{}
	add := func(e ast.Expr) {
		id, ok := chosencasesUnparen(e).(*ast.Ident)
		if !ok || id.Name == "_" {
			return
		}
		o := x.pkg.TypesInfo.Uses[id]
		if o == nil || seen[o] {
			return
		}
		if o.Pos() >= body.Pos() && o.Pos() <= body.End() {
			return
		}
		if _, isVar := o.(*types.Var); !isVar {
			return
		}
		seen[o] = true
		out = append(out, o)
	}
	ast.Inspect(body, func(n ast.Node) bool {
		switch v := n.(type) {
		case *ast.AssignStmt:
			for _, l := range v.Lhs {
				add(l)
			}
		case *ast.IncDecStmt:
			add(v.X)
		}
		return true
	})
	return out
}

func chosencasesLeanStrList(xs []string) string {
	q := make([]string, len(xs))
	for i, s := range xs {
		q[i] = strconv.Quote(s)
	}
	return "[" + strings.Join(q, ", ") + "]"
}
