package main

// Area "grpcgun", third part (property C20, round 3): the grpc/json provider's reading loop, what happens to a line
// that cannot be decoded, the status mapping, the shared client pool's size, the scenario provider's call registry and
// the scenario gun's postprocessor loop.
//
//	components/providers/grpc/grpcjson/provider.go   (*Provider).start: the loop condition, the loop body statement by
//	                                                 statement, what follows a pass; decodeAmmo's error path
//	components/guns/grpc/core.go                     shoot's check of IsInvalid, ConvertGrpcStatus as a table,
//	                                                 prepareClientPool's guards and pool size
//	components/providers/scenario/grpc/decode.go     the call registry (the last definition of a name wins)
//	components/guns/grpc/scenario/core.go            the loop over the step's postprocessors
//	components/providers/scenario/grpc/postprocessor assert/response: the status code check
//
// Statements are printed in CANONICAL form: the receiver is `$recv`, parameters `$0`, `$1` …, every other local variable
// `$<type><k>` (k = its rank among the function's locals of that type, by declaration position), string literals `"…"`
// unless stated otherwise: renaming a local, a parameter or the receiver, or rewording a message, changes nothing.

import (
	"fmt"
	"go/ast"
	"go/constant"
	"go/token"
	"go/types"
	"sort"
	"strings"

	"golang.org/x/tools/go/packages"
)

// grpcgunFeedAliases: receiver, parameters and locals of fn ↦ canonical names.
func grpcgunFeedAliases(p *packages.Package, fn *ast.FuncDecl) map[types.Object]string {
	al := map[types.Object]string{}
	if fn.Recv != nil {
		for _, f := range fn.Recv.List {
			for _, n := range f.Names {
				if o := p.TypesInfo.Defs[n]; o != nil {
					al[o] = "$recv"
				}
			}
		}
	}
	k := 0
	if fn.Type.Params != nil {
		for _, f := range fn.Type.Params.List {
			for _, n := range f.Names {
				if o := p.TypesInfo.Defs[n]; o != nil {
					al[o] = fmt.Sprintf("$%d", k)
				}
				k++
			}
		}
	}
	if fn.Type.Results != nil {
		for _, f := range fn.Type.Results.List {
			for _, n := range f.Names {
				if o := p.TypesInfo.Defs[n]; o != nil {
					al[o] = "$result:" + n.Name
				}
			}
		}
	}
	type loc struct {
		o   types.Object
		pos token.Pos
	}
	byType := map[string][]loc{}
	qual := func(pkg *types.Package) string { return pkg.Name() }
	ast.Inspect(fn.Body, func(x ast.Node) bool {
		id, ok := x.(*ast.Ident)
		if !ok {
			return true
		}
		o := p.TypesInfo.Defs[id]
		v, isVar := o.(*types.Var)
		if o == nil || !isVar || v.IsField() {
			return true
		}
		if _, done := al[o]; done {
			return true
		}
		ts := types.TypeString(v.Type(), qual)
		byType[ts] = append(byType[ts], loc{o, id.Pos()})
		al[o] = "" // placeholder, filled below
		return true
	})
	for ts, ls := range byType {
		sort.Slice(ls, func(i, j int) bool { return ls[i].pos < ls[j].pos })
		for i, l := range ls {
			al[l.o] = fmt.Sprintf("$%s%d", strings.ReplaceAll(ts, " ", ""), i)
		}
	}
	return al
}

// grpcgunFeedCanon prints n (a node inside fn) in canonical form.
func grpcgunFeedCanon(p *packages.Package, fn *ast.FuncDecl, n ast.Node, keepStrings bool) string {
	if n == nil {
		return ""
	}
	al := grpcgunFeedAliases(p, fn)
	type savedID struct {
		id   *ast.Ident
		name string
	}
	type savedLit struct {
		l *ast.BasicLit
		v string
	}
	var ids []savedID
	var lits []savedLit
	ast.Inspect(n, func(x ast.Node) bool {
		switch y := x.(type) {
		case *ast.Ident:
			if o := ggObj(p, y); o != nil {
				if a, ok := al[o]; ok && a != "" {
					ids = append(ids, savedID{y, y.Name})
					y.Name = a
				}
			}
		case *ast.BasicLit:
			if !keepStrings && y.Kind == token.STRING {
				lits = append(lits, savedLit{y, y.Value})
				y.Value = `"…"`
			}
		}
		return true
	})
	s := ggSrc(p, n)
	for _, x := range ids {
		x.id.Name = x.name
	}
	for _, x := range lits {
		x.l.Value = x.v
	}
	return s
}

func grpcgunFeedStmts(p *packages.Package, fn *ast.FuncDecl, ss []ast.Stmt, keepStrings bool) []string {
	var out []string
	for _, s := range ss {
		out = append(out, grpcgunFeedCanon(p, fn, s, keepStrings))
	}
	return out
}

// grpcgunFeedExtra is appended to the area's output by grpcGunExtra. gp: guns/grpc, sp: guns/grpc/scenario,
// jp: providers/grpc/grpcjson, dp: providers/scenario/grpc, pp: providers/scenario/grpc/postprocessor.
func grpcgunFeedExtra(t *tr, gp, sp, jp, dp, pp *packages.Package) string {
	var b strings.Builder
	def := func(doc, name, typ, val string) {
		b.WriteString("/-- " + doc + " -/\ndef " + name + " : " + typ + " := " + val + "\n\n")
	}

	// ---- ConvertGrpcStatus as a table: gRPC status code number ↦ reported code
	type row struct{ code, rep int64 }
	var rows []row
	dflt := int64(-1)
	okShape := true
	if cs := findFunc(gp, "ConvertGrpcStatus"); cs != nil {
		nsw := 0
		ast.Inspect(cs.Body, func(x ast.Node) bool {
			sw, ok := x.(*ast.SwitchStmt)
			if !ok {
				return true
			}
			nsw++
			for _, st := range sw.Body.List {
				cc := st.(*ast.CaseClause)
				if len(cc.Body) != 1 {
					okShape = false
					continue
				}
				r, ok := cc.Body[0].(*ast.ReturnStmt)
				if !ok || len(r.Results) != 1 {
					okShape = false
					continue
				}
				tv := gp.TypesInfo.Types[r.Results[0]]
				if tv.Value == nil {
					okShape = false
					continue
				}
				rep, _ := constant.Int64Val(constant.ToInt(tv.Value))
				if cc.List == nil {
					dflt = rep
				}
				for _, l := range cc.List {
					lv := gp.TypesInfo.Types[l]
					if lv.Value == nil {
						okShape = false
						continue
					}
					code, _ := constant.Int64Val(constant.ToInt(lv.Value))
					rows = append(rows, row{code, rep})
				}
			}
			return false
		})
		if nsw != 1 {
			okShape = false
		}
	} else {
		okShape = false
	}
	if !okShape || dflt < 0 {
		t.errs = append(t.errs, "ConvertGrpcStatus: not a single switch of `case <codes…>: return <const>` with a default")
	}
	sort.Slice(rows, func(i, j int) bool { return rows[i].code < rows[j].code })
	var rs []string
	for _, r := range rows {
		rs = append(rs, fmt.Sprintf("(%d, %d)", r.code, r.rep))
	}
	def("`ConvertGrpcStatus` as a table: (gRPC status code number, reported protocol code), sorted by status code", "statusTable", "List (Nat × Nat)", "["+strings.Join(rs, ", ")+"]")
	if dflt < 0 {
		dflt = 0
	}
	def("`ConvertGrpcStatus`: what every other status is reported as", "statusDefault", "Nat", fmt.Sprint(dflt))

	// ---- the provider's reading loop
	cond, body, prologue, after := "unrecognised", []string{}, []string{}, []string{}
	if st := ggMethod(jp, "Provider", "start"); st != nil {
		var outer *ast.ForStmt
		for _, s := range st.Body.List {
			if f, ok := s.(*ast.ForStmt); ok && outer == nil {
				outer = f
			}
		}
		if outer != nil {
			seenInner := false
			for _, s := range outer.Body.List {
				if f, ok := s.(*ast.ForStmt); ok && !seenInner {
					seenInner = true
					cond = grpcgunFeedCanon(jp, st, f.Cond, false)
					body = grpcgunFeedStmts(jp, st, f.Body.List, false)
					continue
				}
				if !seenInner {
					prologue = append(prologue, grpcgunFeedCanon(jp, st, s, false))
				} else {
					after = append(after, grpcgunFeedCanon(jp, st, s, false))
				}
			}
		}
	}
	def("`(*Provider).start` (grpc/json): what every pass begins with", "providerPassPrologue", "List String", grpcgunNetStrList(prologue))
	def("… the condition of the loop over the lines of a pass", "providerLoopCond", "String", ggQuote(cond))
	def("… the body of that loop, statement by statement", "providerLoopBody", "List String", grpcgunNetStrList(body))
	def("… what follows a pass", "providerAfterPass", "List String", grpcgunNetStrList(after))

	// ---- decodeAmmo: the error path
	onErr := []string{"unrecognised"}
	if da := findFunc(jp, "decodeAmmo"); da != nil {
		for _, s := range da.Body.List {
			if ifs, ok := s.(*ast.IfStmt); ok && strings.Contains(ggSrc(jp, ifs.Cond), "!= nil") {
				onErr = grpcgunFeedStmts(jp, da, ifs.Body.List, true)
				for i := range onErr {
					// comments are not printed; normalise the error wrapper's message-free form
					onErr[i] = strings.TrimSpace(onErr[i])
				}
				break
			}
		}
	}
	def("`grpcjson.decodeAmmo($0 = line, $1 = pooled ammo)`: what is done when the line cannot be decoded", "ammoDecodeOnError", "List String", grpcgunNetStrList(onErr))

	// ---- shoot: an invalid ammo is not shot
	inv := "unrecognised: no IsInvalid check"
	if sh := ggMethod(gp, "Gun", "shoot"); sh != nil {
		var lookupPos token.Pos
		ast.Inspect(sh.Body, func(x ast.Node) bool {
			if ix, ok := x.(*ast.IndexExpr); ok && strings.HasSuffix(ggSrc(gp, ix.X), ".Services") && lookupPos == 0 {
				lookupPos = ix.Pos()
			}
			return true
		})
		for _, s := range sh.Body.List {
			ifs, ok := s.(*ast.IfStmt)
			if !ok || ifs.Init != nil || ifs.Else != nil {
				continue
			}
			c := grpcgunFeedCanon(gp, sh, ifs.Cond, false)
			if !strings.Contains(c, "IsInvalid()") && !strings.Contains(c, "IsValid()") {
				continue
			}
			endsInReturn := false
			if n := len(ifs.Body.List); n > 0 {
				if r, ok := ifs.Body.List[n-1].(*ast.ReturnStmt); ok && len(r.Results) == 0 {
					endsInReturn = true
				}
			}
			calls := len(ggCallsSuffix(gp, ifs.Body, ".InvokeRpc"))
			inv = fmt.Sprintf("if %s { … return=%v }; calls inside=%d; before the method lookup=%v", c, endsInReturn, calls, lookupPos != 0 && ifs.Pos() < lookupPos)
			break
		}
	}
	def("`(*Gun).shoot($0 = ammo)`: the check that keeps an ammo the provider marked invalid from being shot", "gunInvalidAmmo", "String", ggQuote(inv))

	// ---- prepareClientPool: guards, pool size
	var poolPre []string
	poolSize, poolLoop := "unrecognised", "unrecognised"
	if pc := ggMethod(gp, "Gun", "prepareClientPool"); pc != nil {
		for _, s := range pc.Body.List {
			if as, ok := s.(*ast.AssignStmt); ok && len(as.Rhs) == 1 {
				if c, ok := as.Rhs[0].(*ast.CallExpr); ok && strings.HasPrefix(ggSrc(gp, c.Fun), "clientpool.New") && len(c.Args) == 1 {
					poolSize = grpcgunFeedCanon(gp, pc, c.Args[0], false)
					break
				}
			}
			poolPre = append(poolPre, grpcgunFeedCanon(gp, pc, s, false))
		}
		for _, s := range pc.Body.List {
			if f, ok := s.(*ast.ForStmt); ok {
				poolLoop = "for " + grpcgunFeedCanon(gp, pc, f.Init, false) + "; " + grpcgunFeedCanon(gp, pc, f.Cond, false) + "; " + grpcgunFeedCanon(gp, pc, f.Post, false) +
					fmt.Sprintf(" | Add calls=%d", len(ggCallsSuffix(gp, f.Body, ".Add")))
			}
		}
	}
	def("`prepareClientPool`: the statements before the pool is made (no pool unless enabled; at least one client)", "poolGuards", "List String", grpcgunNetStrList(poolPre))
	def("… the size the pool is made with", "poolSize", "String", ggQuote(poolSize))
	def("… the loop that fills it", "poolLoop", "String", ggQuote(poolLoop))

	// ---- scenario provider: the call registry
	reg, lookup := "unrecognised", "unrecognised"
	if dp != nil {
		if da := findFunc(dp, "decodeAmmo"); da != nil {
			for _, s := range da.Body.List {
				if r, ok := s.(*ast.RangeStmt); ok && strings.HasSuffix(ggSrc(dp, r.X), ".Calls") {
					reg = grpcgunFeedCanon(dp, da, r, false)
					break
				}
			}
		}
		if cv := findFunc(dp, "convertScenarioToAmmo"); cv != nil {
			var ls []string
			ast.Inspect(cv.Body, func(x ast.Node) bool {
				if ix, ok := x.(*ast.IndexExpr); ok {
					if o := ggObj(dp, ix.X); o != nil {
						if _, isMap := o.Type().Underlying().(*types.Map); isMap {
							ls = append(ls, grpcgunFeedCanon(dp, cv, ix, false))
						}
					}
				}
				return true
			})
			lookup = strings.Join(ls, ";")
		}
	}
	def("scenario provider `decodeAmmo($0 = config)`: how the registry of calls is filled (a later definition of a name replaces an earlier one)", "scenarioCallRegistry", "String", ggQuote(reg))
	def("… `convertScenarioToAmmo($0 = scenario, $1 = registry)`: how a request name is resolved", "scenarioCallLookup", "String", ggQuote(lookup))

	// ---- scenario gun: the postprocessors
	ppLoop := "unrecognised"
	if st := ggMethod(sp, "Gun", "shootStep"); st != nil {
		invs := ggCallsSuffix(sp, st.Body, ".InvokeRpc")
		for _, s := range st.Body.List {
			r, ok := s.(*ast.RangeStmt)
			if !ok || !strings.HasSuffix(ggSrc(sp, r.X), ".Postprocessors") {
				continue
			}
			// the statements of the loop body other than debug logging
			var keep []string
			for _, bs := range r.Body.List {
				if ifs, ok := bs.(*ast.IfStmt); ok && strings.HasSuffix(ggSrc(sp, ifs.Cond), ".DebugLog") {
					continue
				}
				keep = append(keep, grpcgunFeedCanon(sp, st, bs, false))
			}
			ppLoop = "range " + grpcgunFeedCanon(sp, st, r.X, false) + " { " + strings.Join(keep, " ; ") + " }" +
				fmt.Sprintf(" | after InvokeRpc=%v", len(invs) == 1 && r.Pos() > invs[0].Pos())
		}
	}
	def("`shootStep`: the loop over the step's postprocessors (an error ends the step, hence the shot)", "scenarioPostprocessors", "String", ggQuote(ppLoop))
	assertCheck := "unrecognised"
	if pp != nil {
		if pr := ggMethod(pp, "AssertResponse", "Process"); pr != nil && len(pr.Body.List) > 0 {
			if ifs, ok := pr.Body.List[0].(*ast.IfStmt); ok {
				isErr := false
				if n := len(ifs.Body.List); n == 1 {
					if r, ok := ifs.Body.List[0].(*ast.ReturnStmt); ok && len(r.Results) == 2 && ggSrc(pp, r.Results[0]) == "nil" && ggSrc(pp, r.Results[1]) != "nil" {
						isErr = true
					}
				}
				assertCheck = fmt.Sprintf("if %s { return an error=%v }", grpcgunFeedCanon(pp, pr, ifs.Cond, false), isErr)
			}
		}
	}
	def("`AssertResponse.Process($0 = reply, $1 = code)`: the status code check", "assertStatusCheck", "String", ggQuote(assertCheck))
	return b.String()
}
