import Pandora.Model.C07

/-!
Round 4 — the provider side of the http ammo formats (components/providers/http: import.go, provider.go,
provider/provider.go, config/decoderTypes.go), core Lean only.

* which decoder a provider TYPE of the config selects (`Import`'s registrations): `regTable`, `decoderOf`;
* the `uris` option: `NewProvider` joins the strings with a newline and reads the result as a uri file: `urisFile`;
* the delivery counters: the index of the preloaded slice / of the http/json array is `counter % length`, the counter a
  machine integer of `bits` value bits: `wrapIdx`.
-/
namespace Pandora.Model.C07

/-- plugin name ↦ the decoder its factory forces (`none`: the `decoder` option of the config decides), sorted by name -/
def regTable : List (String × Option String) :=
  [("http", none), ("http/json", some "jsonline"), ("raw", some "raw"), ("uri", some "uri"), ("uripost", some "uripost")]

/-- `DecoderType.IsValid` -/
def validDecoders : List String := ["jsonline", "raw", "uri", "uripost"]

/-- the decoder that reads the ammo file for provider type `ty` with `decoder: opt` in the config
(`none`: no such provider type / `NewProvider` refuses the decoder) -/
def decoderOf (ty opt : String) : Option String :=
  match regTable.lookup ty with
  | none => none
  | some (some d) => some d
  | some none => if validDecoders.contains opt then some opt else none

/-- the name of a line format as the config spells it (provider type and decoder name coincide) -/
def Fmt.name : Fmt → String
  | .uri => "uri" | .uripost => "uripost" | .raw => "raw"

/-- `strings.Join(conf.Uris, "\n")`: the bytes `uriReadSeekCloser` hands to the uri decoder -/
def urisFile : List Bytes → Bytes
  | [] => []
  | [u] => u
  | u :: v :: r => u ++ LF :: urisFile (v :: r)

/-- the line of an entry of a uri file without any layout: `uri`, `uri tag`, `[key: value]` -/
def urisLine (it : Item) : Bytes := content .uri it {}

/-- the index `counter % length` when the counter is kept in an unsigned machine integer of `bits` bits
(the `n`-th increment leaves `n mod 2^bits` in it) -/
def wrapIdx (bits len n : Nat) : Nat := (n % 2 ^ bits) % len

end Pandora.Model.C07
