/-
Core-only anchor: the translator `/verif/gen` opens the namespaces `Pandora` and `Pandora.Go` in every
regenerated file.  `Pandora.Go.Real` (which declares them) imports Mathlib; the `config` area is regenerated
core-only (plain facts: booleans, strings, tables) and imports this file instead.
-/
namespace Pandora.Go

/-- makes `open Pandora Pandora.Go` resolve without Mathlib -/
def c17NamespaceAnchor : Unit := ()

end Pandora.Go
