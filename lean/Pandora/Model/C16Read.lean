/-
Model C16, round 4: `ReadAmmoConfig` (config.go) as a reader of a FILE — the I/O around the two front-ends.

    file, openErr := fs.Open(fileName)            -- error: refused
    defer func() { closeErr := file.Close() … }() -- a Close error turns whatever was computed into an error
    stat, statErr := file.Stat()                  -- error: refused
    switch { case …: ParseHCLFile(file) + ConvertHCLToAmmo | ParseAmmoConfig(file) }   -- both start with io.ReadAll(file)

`io.ReadAll` returns the bytes delivered so far TOGETHER with the error.  A prefix of an HCL file cut at a block
boundary, or of a YAML file cut at a line boundary, is a well-formed file of its own: a front-end that does not test
that error decodes a truncated description and says nothing.  `checked` is that test (regenerated: the `io.ReadAll`
rows of `errFlow` for `ParseHCLFile` and `ParseAmmoConfig`).

Core Lean only.
-/
import Pandora.Model.C16Src

namespace Pandora.Model.C16

/-- the faults of one reading of one file (any of them may coincide) -/
structure IOPlan where
  openF : Bool := false
  statF : Bool := false
  /-- `some n`: `Read` delivers `n` bytes (at most the file), then fails -/
  readAt : Option Nat := none
  closeF : Bool := false
  deriving Repr, DecidableEq, Inhabited

/-- nothing fails -/
def IOPlan.clean (p : IOPlan) : Bool := !p.openF && !p.statF && p.readAt.isNone && !p.closeF

/-- `bytes, err := io.ReadAll(file)` followed (`checked`) or not by `if err != nil { return … err }`: the text the
front-end goes on with -/
def readAll (checked : Bool) (text : List Char) : Option Nat → Option (List Char)
  | none => some text
  | some n => if checked then none else some (text.take n)

/-- `ReadAmmoConfig` on a file with content `text`; `parse` is the selected front-end from the text of the file to its
result (`none`: refused).  Named results and the deferred `Close`: a Close error makes the call fail whatever was
computed before. -/
def readAmmoConfig {α : Type} (checked : Bool) (parse : List Char → Option α) (text : List Char) (p : IOPlan) : Option α :=
  if p.openF then none
  else
    let r := if p.statF then none else (readAll checked text p.readAt).bind parse
    if p.closeF then none else r

end Pandora.Model.C16
