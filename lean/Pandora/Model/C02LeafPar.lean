/-
C02 — concurrent model of a LEAF (core/schedule/do_at.go, unlilmited.go) at the granularity of its accesses to
shared state.

`doAtSchedule.Next` is  `startOnce.Do(…)` ; `i.Inc()` ; arithmetic on what it got (immutable fields and `start`,
which is written only inside the once);  `Left` is  `i.Load()` ; arithmetic.  `unlimitedSchedule.Next` is
`startOnce.Do(…)` ; clock, `finish.Load()` (written only inside the once) ; `Left` is one statement.  So a call is
at most two actions on shared state, and any other caller may run between them:

  * `Next`:  enter (nothing yet)                                           idle    → entered
             `startOnce.Do`: start the leaf at the clock reading if it is not started      entered → afterDo
             the operation itself (`ops.next` of a STARTED leaf: fetch-and-increment, result)   afterDo → return
  * `Left`:  enter                                                          idle    → entered
             the operation (`ops.left`: one load)                           entered → return

The leaf is ANY object `σ` with `Ops σ` (the list leaf, the run leaf of `Model/C02Huge.lean`): the once is modelled by
`ops.start`, which starts an unstarted object and fails — changing nothing — on a started one.  "enter" is a step of
its own because the controlled harness sees it (the caller is parked in front of its first access).
-/
import Pandora.Model.C02Par

namespace Pandora.Model.C02.LeafPar
open Pandora.Model.C02 Pandora.Model.C02.Par

inductive LPc where
  | idle
  /-- the call has begun; in front of its first access to shared state -/
  | entered
  /-- in `Next`, after `startOnce.Do`, in front of `i.Inc()` / `finish.Load()` -/
  | afterDo
deriving Repr, DecidableEq

structure LThread where
  pc : LPc := .idle
  todo : List Op
deriving Repr

structure LSt (σ : Type) where
  sh : σ
  thr : List LThread
  log : List (Nat × Int × Out)     -- caller, clock reading, outcome; newest first (`goto` = an internal action)

/-- `startOnce.Do(func() { MarkStarted(); start = time.Now() })` -/
def onceDo {σ : Type} (ops : Ops σ) (s : σ) (now : Int) : σ :=
  match ops.start s now with
  | .ok s' => s'
  | .error _ => s

/-- the three access tables the model stands for (compared with the regenerated ones by `Bridge/C02Leaf.lean`):
per method the statements that touch shared state, each with its accesses -/
def doAtNextAccesses : List (List String) := [["startOnce.Do"], ["i.Inc"]]
def doAtLeftAccesses : List (List String) := [["i.Load"]]
def unlNextAccesses : List (List String) := [["startOnce.Do"], ["finish.Load"]]
def unlLeftAccesses : List (List String) := [["IsStarted()", "finish.Load"]]

def lstep {σ : Type} (ops : Ops σ) (st : LSt σ) (e : Nat × Int) : LSt σ :=
  match st.thr[e.1]? with
  | none => st
  | some th =>
    match th.todo with
    | [] => st
    | op :: more =>
      match th.pc, op with
      | .idle, _ =>
        { st with thr := st.thr.set e.1 { th with pc := .entered }, log := (e.1, e.2, .goto .idle) :: st.log }
      | .entered, .next =>
        { sh := onceDo ops st.sh e.2, thr := st.thr.set e.1 { th with pc := .afterDo },
          log := (e.1, e.2, .goto .nextB) :: st.log }
      | .entered, .left =>
        match ops.left st.sh e.2 with
        | .ok (s', n) => { sh := s', thr := st.thr.set e.1 { pc := .idle, todo := more }, log := (e.1, e.2, .ret (.cnt n)) :: st.log }
        | .error m => { st with thr := st.thr.set e.1 { pc := .idle, todo := more }, log := (e.1, e.2, .ret (.panic m)) :: st.log }
      | .afterDo, _ =>
        match ops.next st.sh e.2 with
        | .ok (s', tx, ok) =>
          { sh := s', thr := st.thr.set e.1 { pc := .idle, todo := more }, log := (e.1, e.2, .ret (.tok tx ok)) :: st.log }
        | .error m => { st with thr := st.thr.set e.1 { pc := .idle, todo := more }, log := (e.1, e.2, .ret (.panic m)) :: st.log }

def lrun {σ : Type} (ops : Ops σ) (st : LSt σ) (sched : List (Nat × Int)) : LSt σ := sched.foldl (lstep ops) st

def linit {σ : Type} (s : σ) (progs : List (List Op)) : LSt σ := ⟨s, progs.map (fun p => { todo := p }), []⟩

/-- after the given order let every caller finish, lowest id first -/
def ldrain {σ : Type} (ops : Ops σ) (now : Int) : Nat → LSt σ → LSt σ
  | 0, st => st
  | fuel + 1, st =>
    match st.thr.findIdx? (fun t => !t.todo.isEmpty) with
    | none => st
    | some i => ldrain ops now fuel (lstep ops st (i, now))

end Pandora.Model.C02.LeafPar
