/-
C02 — a schedule FACTORY: an option of type `func() (core.Schedule, error)` (what `rps` of an instance pool is; with
`rps-per-instance: true` every instance calls it) produces, at every call, a NEW schedule object built from the
configured tree.  The model of k produced schedules is the product of k independent objects: an op goes to the
schedule of one factory call and changes nothing else (`facRun`).  `Props/C02.lean` (`C02_factory_independent`)
shows that what each produced schedule returns is exactly `seqRun` of that object on the calls made to IT — hence, by
`C02_tree_refines`, the run of the flat spec of the configured tree — whatever is done with the other ones in between.
-/
import Pandora.Model.C02Sched

namespace Pandora.Model.C02

/-- one call on one object -/
def seqStep {σ : Type} (ops : Ops σ) (s : σ) : SOp × Int → Except String (σ × Obs)
  | (.start t, _) => (ops.start s t).map fun s' => (s', Obs.started)
  | (.next, now) => (ops.next s now).map fun x => (x.1, Obs.tok x.2.1 x.2.2)
  | (.left, now) => (ops.left s now).map fun x => (x.1, Obs.cnt x.2)

/-- calls `(j, op, clock)` on the j-th of the produced objects; a panic ends the run (as in `seqRun`) -/
def facRun {σ : Type} (ops : Ops σ) : List σ → List (Nat × SOp × Int) → List (Nat × Obs)
  | _, [] => []
  | ss, (j, c) :: r =>
    match ss[j]? with
    | none => facRun ops ss r
    | some s =>
      match seqStep ops s c with
      | .ok (s', o) => (j, o) :: facRun ops (ss.set j s') r
      | .error e => [(j, .err e)]

/-- what schedule `j` was asked / what it answered -/
def projCalls (j : Nat) (calls : List (Nat × SOp × Int)) : List (SOp × Int) :=
  (calls.filter (·.1 == j)).map (·.2)

def projObs (j : Nat) (obs : List (Nat × Obs)) : List Obs :=
  (obs.filter (·.1 == j)).map (·.2)

def noErr : List (Nat × Obs) → Bool
  | [] => true
  | (_, .err _) :: _ => false
  | _ :: r => noErr r

end Pandora.Model.C02
