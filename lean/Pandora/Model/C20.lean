/-
C20 — executable model of the gRPC guns' wire behaviour (core Lean only).

* method table of the example service (what `prepareMethodList` obtains by reflection; tied by `mode=table`)
* payload map → JSON → dynamic message of the method's input type (`dynamic.Message.UnmarshalJSON`): which
  payloads fit the type (library behaviour, recorded as a decision table and tied by correspondence)
* `Gun.shoot` (components/guns/grpc/core.go): unknown method ⇒ sample with code 0, no call; ill-typed payload ⇒
  sample with code 400, no call; otherwise one call with `metadata.New(ammo.Metadata)` (keys lower-cased) under
  the configured timeout (15 s when 0) and a sample with the converted status
* `scenario.Gun.shoot/shootStep`: preprocessor (`source.users[next]` through the scenario's shared
  `mp.NextIterator`), templater, the same method / payload branches (a failing step ends the scenario shot),
  variables returned by the step named `auth`
* the example server's replies (environment)

Metadata rendering is delegated to the small-step machine of `Model.C20Conc` (shared map cells + per-gun cache),
run one shot at a time; `Variant.copy` is the repaired code, `Variant.inPlace` the code as written.
-/
import Pandora.Model.C20Conc

namespace Pandora.Model.C20
open Pandora.Model.C20Conc

/-! ### text encoding shared with the harness (`c20lib.Enc` / `Dec`) -/

def hexD (n : Nat) : Char := if n < 10 then Char.ofNat (48 + n) else Char.ofNat (55 + n)

def encChar (c : Char) : List Char :=
  if c = ' ' then ['~']
  else if c.isAlphanum || c = '_' || c = '.' || c = '-' || c = '{' || c = '}' then [c]
  else ['%', hexD (c.toNat / 16 % 16), hexD (c.toNat % 16)]

def encL (s : List Char) : List Char := s.flatMap encChar
def enc (s : String) : String := String.ofList (encL s.toList)

def hexV (c : Char) : Option Nat :=
  if '0' ≤ c ∧ c ≤ '9' then some (c.toNat - 48)
  else if 'A' ≤ c ∧ c ≤ 'F' then some (c.toNat - 55)
  else if 'a' ≤ c ∧ c ≤ 'f' then some (c.toNat - 87)
  else none

def decL : List Char → List Char
  | [] => []
  | '~' :: rest => ' ' :: decL rest
  | '%' :: a :: b :: rest =>
    match hexV a, hexV b with
    | some x, some y => Char.ofNat (x * 16 + y) :: decL rest
    | _, _ => '%' :: decL (a :: b :: rest)
  | c :: rest => c :: decL rest

/-- `*<n>*<c>` (a raw `*` is never produced by `enc`): `n` copies of the character `c` — long values without long inputs -/
def repMacro? (cs : List Char) : Option (List Char) :=
  match cs with
  | '*' :: rest =>
    let ds := rest.takeWhile Char.isDigit
    match rest.drop ds.length with
    | ['*', c] =>
      if ds.isEmpty then none else
      let n := ds.foldl (fun a d => a * 10 + (d.toNat - 48)) 0
      if n ≤ 4194304 then some (List.replicate n c) else none
    | _ => none
  | _ => none

def dec (s : String) : String :=
  match repMacro? s.toList with
  | some l => String.ofList l
  | none => String.ofList (decL s.toList)

/-- values longer than this are printed abbreviated by the recorder (`c20lib.EncV`) -/
def longText : Nat := 300

/-- a message or metadata VALUE as the recorder prints it: `enc`, but a value longer than `longText` bytes becomes
`LONG<length>.<sum of its bytes mod 65521>.<enc of its first 8 bytes>` -/
def encV (s : String) : String :=
  let cs := s.toList
  if cs.length ≤ longText then enc s
  else "LONG" ++ toString cs.length ++ "." ++ toString (cs.foldl (fun a c => (a + c.toNat) % 65521) 0) ++ "." ++
    enc (String.ofList (cs.take 8))

/-! ### method table -/

inductive FKind where
  | str | i64
  deriving DecidableEq, Repr

structure Field where
  name : String
  jsonName : String
  kind : FKind
  deriving Repr

def svc : String := "target.TargetService"

/-- input message fields (field-number order) of every method of `examples/grpc/server/proto/target.proto` -/
def methodTable : List (String × List Field) :=
  [ ("Auth", [⟨"login", "login", .str⟩, ⟨"pass", "pass", .str⟩]),
    ("Hello", [⟨"name", "name", .str⟩]),
    ("List", [⟨"token", "token", .str⟩, ⟨"user_id", "userId", .i64⟩]),
    ("Order", [⟨"token", "token", .str⟩, ⟨"user_id", "userId", .i64⟩, ⟨"item_id", "itemId", .i64⟩]),
    ("Reset", []),
    ("Stats", []) ]

def kindText : FKind → String
  | .str => "string"
  | .i64 => "int64"

/-- the observation of `mode=table` -/
def tableText : String :=
  "table=" ++ String.intercalate ";" (methodTable.map fun (m, fs) =>
    svc ++ "." ++ m ++ "=" ++ String.intercalate "," (fs.map fun f => f.name ++ "/" ++ f.jsonName ++ "/" ++ kindText f.kind))

/-- `g.Services[call]`: the fully qualified method name must be in the table -/
def lookupMethod (call : String) : Option (String × List Field) :=
  methodTable.find? fun (m, _) => svc ++ "." ++ m == call

/-- the HTTP/2 path the call goes to: `pkg.Service.Method` ↦ `/pkg.Service/Method` -/
def methodPath (m : String) : String := "/" ++ svc ++ "/" ++ m

/-! ### payload typing (`dynamic.Message.UnmarshalJSON`, jsonpb rules; library behaviour) -/

inductive PVal where
  | s (t : String)   -- JSON string
  | n (t : String)   -- JSON number, integer literal text
  | f (t : String)   -- JSON number with a fractional part
  | b (t : String)   -- JSON bool
  | z                -- null
  | o                -- {}
  | l                -- []
  | other            -- anything the model does not predict
  deriving Repr

def isDigits (cs : List Char) : Bool := !cs.isEmpty && cs.all Char.isDigit

/-- canonical integer literal: optional '-', digits, no leading zeros, inside the int64 range (what
`dynamic.Message.UnmarshalJSON` accepts for an int64 field among the literals the generators produce; a canonical
literal outside the range is rejected) -/
def intLit? (t : String) : Option Int :=
  let cs := t.toList
  let (neg, ds) := match cs with
    | '-' :: r => (true, r)
    | _ => (false, cs)
  if isDigits ds && (ds.length == 1 || ds.head? != some '0') && ds.length ≤ 19 then
    let v : Nat := ds.foldl (fun a c => a * 10 + (c.toNat - 48)) 0
    let i : Int := if neg then -(v : Int) else v
    if -9223372036854775808 ≤ i ∧ i ≤ 9223372036854775807 then some i else none
  else none

/-- a text made of digits and signs only that is not a canonical literal (`05`, `+5`, `--1`, a 25-digit number is
canonical and simply out of range): the library's decision for these is not recorded in the model -/
def oddNumeric (t : String) : Bool :=
  let cs := t.toList
  let (_, ds) := match cs with
    | '-' :: r => (true, r)
    | _ => (false, cs)
  !cs.isEmpty && cs.all (fun c => c.isDigit || c = '-' || c = '+') && !(isDigits ds && (ds.length == 1 || ds.head? != some '0'))

/-- `some none` = accepted and left at the default (omitted on the wire); `none` = rejected (400) -/
def convert (k : FKind) (v : PVal) : Option (Option String) :=
  match k, v with
  | .str, .s t => some (if t.isEmpty then none else some ("s." ++ encV t))
  | .str, .z => some none
  | .str, .l => some none   -- an empty JSON array leaves a scalar field at its default (library behaviour, as observed)
  | .str, _ => none
  | .i64, .n t => (intLit? t).map fun i => if i == 0 then none else some ("n." ++ toString i)
  | .i64, .s t => (intLit? t).map fun i => if i == 0 then none else some ("n." ++ toString i)
  | .i64, .z => some none
  | .i64, .l => some none
  | .i64, _ => none

def findField (fs : List Field) (name : String) : Option Field :=
  fs.find? fun f => f.name == name || f.jsonName == name

/-- all payload entries must name a field of the input type and fit its kind -/
def decodeFields (fs : List Field) : List (String × PVal) → Option (List (String × Option String))
  | [] => some []
  | (name, v) :: rest =>
    match findField fs name with
    | none => none
    | some f =>
      match convert f.kind v with
      | none => none
      | some cv =>
        match decodeFields fs rest with
        | none => none
        | some more => some ((f.name, cv) :: more)

/-- canonical message: set fields in field-number order, `name:value` -/
def canonMsg (fs : List Field) (vals : List (String × Option String)) : List (String × String) :=
  fs.filterMap fun f =>
    match vals.find? (·.1 == f.name) with
    | some (_, some v) => some (f.name, v)
    | _ => none

def msgText (m : List (String × String)) : String :=
  String.intercalate "," (m.map fun (k, v) => k ++ ":" ++ v)

/-! ### metadata (`metadata.New`: keys lower-cased; printed sorted by key) -/

def insertSorted (x : String × String) : List (String × String) → List (String × String)
  | [] => [x]
  | y :: ys => if x.1 ≤ y.1 then x :: y :: ys else y :: insertSorted x ys

def sortByKey (l : List (String × String)) : List (String × String) := l.foldr insertSorted []

def mdText (md : List (String × String)) : String :=
  String.intercalate "," ((sortByKey (md.map fun (k, v) => (k.toLower, v))).map fun (k, v) => enc k ++ ":" ++ encV v)

def insertStr (x : String) : List String → List String
  | [] => [x]
  | y :: ys => if x ≤ y then x :: y :: ys else y :: insertStr x ys

def sortStrs (l : List String) : List String := l.foldr insertStr []

/-! ### the example server (environment) -/

def userOfText (t : String) : Option Nat :=
  match intLit? t with
  | some i => if 1 ≤ i ∧ i ≤ 10 then some i.toNat else none
  | none => none

def stripPrefix? (p s : String) : Option String :=
  if s.startsWith p then some (String.ofList (s.toList.drop p.length)) else none

def fieldVal (m : List (String × String)) (k : String) : String :=
  ((m.find? (·.1 == k)).map (·.2)).getD ""

/-- user owning the token in a canonical string value `s.TOK<u>` -/
def tokenUser (v : String) : Option Nat := (stripPrefix? "s.TOK" v).bind userOfText

def numVal (v : String) : Option Int := (stripPrefix? "n." v).bind intLit?

/-- gRPC status code number ↦ the protocol code the guns report (`ConvertGrpcStatus`; regenerated from the source and
bridged: `Bridge.C20.statusTable_eq`, `statusDefault_eq`) -/
def statusTable : List (Nat × Nat) :=
  [(0, 200), (1, 499), (3, 400), (4, 504), (5, 404), (6, 409), (7, 403), (8, 429), (9, 400), (10, 409), (11, 400),
   (12, 501), (14, 503), (16, 401)]

def statusDefault : Nat := 500

def convertStatus (code : Nat) : Nat := ((statusTable.find? (·.1 == code)).map (·.2)).getD statusDefault

/-- fault injection by the recording server (`c20lib.FaultKey`): a call whose metadata has the key `x-fault` (any case:
`metadata.New` lower-cases keys) with a canonical decimal status code number 1..255 as its value is recorded and then
refused with that gRPC status, without running the service's handler -/
def natLit? : List Char → Option Nat
  | [] => none
  | cs => if cs.all Char.isDigit && (cs.length == 1 || cs.head? != some '0') then
      some (cs.foldl (fun a c => a * 10 + (c.toNat - 48)) 0) else none

def faultOf (md : List (String × String)) : Option Nat :=
  match md.find? (fun (k, _) => k.toList.map Char.toLower == ['x', '-', 'f', 'a', 'u', 'l', 't']) with
  | some (_, v) =>
    match natLit? v.toList with
    | some n => if 1 ≤ n && n ≤ 255 then some n else none
    | none => none
  | none => none

/-- the protocol code the gun reports for a call that reached the server: the injected fault's status if the call carries
one, else the example service's reply (OK ↦ 200, InvalidArgument ↦ 400), through `ConvertGrpcStatus` -/
def serverCode (method : String) (m : List (String × String)) (md : List (String × String)) : Nat :=
  match faultOf md with
  | some f => convertStatus f
  | none =>
  match method with
  | "Auth" =>
    let l := fieldVal m "login"
    match (stripPrefix? "s." l).bind userOfText with
    | some _ => if fieldVal m "pass" == l then 200 else 400
    | none => 400
  | "List" =>
    match tokenUser (fieldVal m "token") with
    | some u => if numVal (fieldVal m "user_id") == some (u : Int) then 200 else 400
    | none => 400
  | "Order" =>
    match tokenUser (fieldVal m "token") with
    | some u =>
      if numVal (fieldVal m "user_id") == some (u : Int) then
        match numVal (fieldVal m "item_id") with
        | some k => if (u : Int) * 1000 ≤ k ∧ k < (u : Int) * 1000 + 100 then 200 else 400
        | none => 400   -- item_id 0 is outside every user's range
      else 400
    | none => 400
  | _ => 200

/-! ### one shot of the plain gun -/

structure Entry where
  tag : String
  call : String
  md : List (String × String)
  payload : List (String × PVal)
  deriving Repr

/-- what one shot produces: calls as received by the server, samples as reported -/
structure Outcome where
  calls : List String
  samples : List String
  deriving Repr, DecidableEq

/-- `timeout := defaultTimeout; if conf.Timeout != 0 { timeout = conf.Timeout }` in milliseconds (both guns; tied to
the source by `Bridge.C20.gunTimeout_eq` / `scenarioTimeout_eq`) -/
def effTimeoutMs (ms : Nat) : Nat := if ms == 0 then 15000 else ms

/-- the deadline of a call as the recorder prints it (`c20lib.DLBucket`): whole seconds as `dl<s>` -/
def dlText (tmoMs : Nat) : String :=
  let e := effTimeoutMs tmoMs
  if e % 1000 == 0 then "dl" ++ toString (e / 1000) else "dl" ++ toString e ++ "ms"

def callText (method : String) (msg : List (String × String)) (md : String) (tmo : Nat) : String :=
  method ++ "|" ++ msgText msg ++ "|" ++ md ++ "|" ++ dlText tmo

def sampleText (tag : String) (code : Nat) : String := enc tag ++ "/" ++ toString code

/-- `Gun.shoot` + server, for one entry -/
def shootEntry (tmo : Nat) (e : Entry) : Outcome :=
  match lookupMethod e.call with
  | none => { calls := [], samples := [sampleText e.tag 0] }
  | some (m, fs) =>
    match decodeFields fs e.payload with
    | none => { calls := [], samples := [sampleText e.tag 400] }
    | some vals =>
      let msg := canonMsg fs vals
      { calls := [callText m msg (mdText e.md) tmo], samples := [sampleText e.tag (serverCode m msg e.md)] }

/-- state of a plain gun that survives a shot: how many shots it has made and which stub `Bind` gave it -/
structure GunState where
  shots : Nat
  stub : Nat := 0
  deriving Repr

/-- an instance firing a list of entries one after another -/
def shootAll (tmo : Nat) : GunState → List Entry → GunState × List Outcome
  | g, [] => (g, [])
  | g, e :: es =>
    let o := shootEntry tmo e
    let (g', os) := shootAll tmo { g with shots := g.shots + 1 } es
    (g', o :: os)

/-! ### a pool of plain guns (`Bind`, shared_deps.go) -/

/-- `Bind`: with a shared client pool of `sc > 0` stubs the k-th bound instance takes `clientPool.Next()`, which is
stub `(k + 1) mod sc`; without one it dials its own connection (numbered `k`) -/
def stubOf (sc k : Nat) : Nat := if sc == 0 then k else (k + 1) % sc

def initPool (n sc : Nat) : List GunState := (List.range n).map fun k => { shots := 0, stub := stubOf sc k }

/-- the pool fires the provider's entries in order; entry `k` is fired by instance `sched[k]` (entries beyond the
schedule stay unfired, an instance index outside the pool fires nothing). Returns the pool and, per fired entry,
the instance, the stub used and the outcome. -/
def runPool (tmo : Nat) : List GunState → List Nat → List Entry → List GunState × List (Nat × Nat × Outcome)
  | gs, [], _ => (gs, [])
  | gs, _, [] => (gs, [])
  | gs, i :: sched, e :: es =>
    match gs[i]? with
    | none => runPool tmo gs sched (e :: es)
    | some g =>
      let o := shootEntry tmo e
      let (gs', tr) := runPool tmo (gs.set i { g with shots := g.shots + 1 }) sched es
      (gs', (i, g.stub, o) :: tr)

def dedupNat : List Nat → List Nat
  | [] => []
  | x :: xs => x :: (dedupNat xs).filter (· != x)

/-- number of distinct connections that carried at least one call -/
def connsUsed (tr : List (Nat × Nat × Outcome)) : Nat :=
  (dedupNat ((tr.filter fun (_, _, o) => !o.calls.isEmpty).map fun (_, st, _) => st)).length

/-! ### scenarios -/

inductive Variant where
  | inPlace | copy
  deriving DecidableEq, Repr

abbrev T := Tmpl Char

/-- variable numbers -/
def vU : Nat := 0
def vA : Nat := 1
def vI : Nat := 2
def vG : Nat := 3
/-- a NUMBER of the `variables` source (`.source.global.n`, a YAML integer): printed in decimal, as written -/
def vM : Nat := 8

/-- variable numbers of the spellings that hand the variable to a function (`print (x)`, `x | printf "%v"`): they print
the same text as the plain spellings when the variable exists and `<nil>` instead of `<no value>` when it does not -/
def vP (n : Nat) : Nat := n + 4

/-- marker of an action the template engine cannot parse (`{P}`: an undefined function, an unclosed action, a stray
`{{end}}` …) or fails to execute (`{E}`: a template function returning an error): a template containing one makes
`TextTemplater.Apply` return an error -/
def vBad : Nat := 99

/-- what `text/template` prints for a variable that does not exist (a map without that key) -/
def noValue : String := "<no value>"
/-- … and what `print` / `printf "%v"` make of it -/
def nilText : String := "<nil>"

/-- white space as `text/template`'s trim markers understand it -/
def isTmplSpace (c : Char) : Bool := c = ' ' || c = '\t' || c = '\r' || c = '\n'

/-- what a placeholder letter stands for: `U A I G` are variables (`K`: `G` again, written with the `index` builtin);
`R S X` are calls of the template functions pandora registers with constant arguments, each with a single possible
printed result (`randInt 7 8` ↦ `7`, `randString 3 "z"` ↦ `zzz`, `uuid` ↦ a version-4 UUID, which the recorder prints
as `UUID`); `L` is a string constant (`lit`), `N` a builtin on a constant (`len "abcd"` ↦ `4`); `E` / `P` fail -/
def placeholder (c : Char) (d : Char := '0') : Option (Piece Char) :=
  let cls := fun (n : Nat) => if d = '3' || d = '4' || d = '6' then vP n else n
  if c = 'U' then some (Piece.var (cls vU)) else if c = 'A' then some (Piece.var (cls vA)) else if c = 'I' then some (Piece.var (cls vI))
  else if c = 'G' || c = 'K' then some (Piece.var (cls vG))
  else if c = 'M' then some (Piece.var (cls vM))
  else if c = 'L' then some (Piece.lit ['l', 'i', 't']) else if c = 'N' then some (Piece.lit ['4'])
  else if c = 'R' then some (Piece.lit ['7']) else if c = 'S' then some (Piece.lit ['z', 'z', 'z'])
  else if c = 'X' then some (Piece.lit ['U', 'U', 'I', 'D'])
  else if c = 'E' || c = 'P' then some (Piece.var vBad) else none

def flushLit (acc : List Char) : T := if acc.isEmpty then [] else [Piece.lit acc.reverse]

/-- parse the mini template syntax: literal characters and placeholders `{L}` / `{Ld}` (`L` a placeholder letter, `d` a
digit naming the way the action is SPELLED in `text/template` syntax by the harness: plain, spaces inside the braces,
`print`, a pipeline, a nested `define`/`template`, `if`/`else`, a `$variable`, a comment + parentheses …). All spellings
print the same text; spelling `2` (`{{- x}}`) also trims the white space at the end of the literal text before the
action, spelling `9` (`{{x -}}`) the white space at the start of the literal text after it. `trim` = the previous action
asked for the following white space to be dropped; `acc` = literal text read so far, reversed. -/
def parseTmplL : Bool → List Char → List Char → T
  | _, acc, [] => flushLit acc
  | _, acc, '{' :: c :: '}' :: rest =>
    match placeholder c with
    | some p => flushLit acc ++ p :: parseTmplL false [] rest
    | none => parseTmplL false ('{' :: acc) (c :: '}' :: rest)
  | _, acc, '{' :: c :: d :: '}' :: rest =>
    match placeholder c d with
    | some p =>
      if d.isDigit then
        flushLit (if d = '2' then acc.dropWhile isTmplSpace else acc) ++ p :: parseTmplL (d = '9') [] rest
      else parseTmplL false ('{' :: acc) (c :: d :: '}' :: rest)
    | none => parseTmplL false ('{' :: acc) (c :: d :: '}' :: rest)
  | trim, acc, c :: rest =>
    if trim && isTmplSpace c then parseTmplL true acc rest else parseTmplL false (c :: acc) rest

def parseTmpl (s : String) : T := parseTmplL false [] s.toList

def usesVar (t : T) (n : Nat) : Bool := t.any fun p => match p with | Piece.var m => m == n || m == vP n | _ => false

/-- the index of the preprocessor's mapping `u: source.users[<index>]` (`lib/mp` `calcIndex`): `next` draws from the
scenario's shared iterator; `last`; a written number `i ≥ 0` (an index beyond the list wraps around: `i mod length`); a
written negative number `-i` (counted from the end, wrapping: `-i mod length`, made non-negative) -/
inductive Idx where
  | next
  | last
  | fixed (i : Nat)
  | neg (i : Nat)
  deriving Repr, DecidableEq

/-- `calcIndex` for the forms that do not use the iterator, on a list of `len > 0` elements -/
def fixedIndex (len : Nat) : Idx → Nat
  | .next => 0
  | .last => len - 1
  | .fixed i => i % len
  | .neg i => (len - i % len) % len

structure CallDef where
  name : String
  call : String
  md : List (String × T)
  /-- field name, value kind (`s` | `n` | other token kinds verbatim), template of the value text -/
  payload : List (String × String × T)
  pre : Bool
  /-- which element of the user list the preprocessor takes (only read when `pre`) -/
  idx : Idx := .next
  /-- status code demanded by an `assert/response` postprocessor, 0 = none: a call answered otherwise ends the shot -/
  assert : Nat := 0
  /-- the call's `tag` option: any text, possibly empty, possibly shared by several calls; it names the SAMPLE
  (`<scenario>.<tag>`) and nothing else — templates are cached under the call's NAME (round 6, seed C20-r6-1) -/
  tag : String := ""
  deriving Repr

structure ScenDef where
  name : String
  weight : Nat
  reqs : List String
  deriving Repr

structure Cfg where
  /-- configured per-call timeout, ms (0 = not configured) -/
  tmo : Nat
  users : List String
  g : String
  calls : List CallDef
  scns : List ScenDef
  /-- the numeric variable `.source.global.n` as a decimal text, if the source defines it -/
  gn : Option String := none
  deriving Repr

/-- shared mutable state of a scenario pool -/
structure World where
  /-- call name ↦ current content of the definition's metadata map (definition key order) -/
  cells : List (String × List T)
  /-- iterator owner ↦ number of `[next]` draws so far. `convertScenarioToAmmo` makes one `NextIterator` per scenario
  and `InitIterator`s the call's (shared) preprocessor object with it, so a call's draws go to the iterator of the
  LAST scenario that uses the call; all calls draw from the same segment `.source.users[next]`. -/
  iters : List (String × Nat)
  /-- (gun, scenario, call) ↦ template cache of that gun -/
  caches : List ((Nat × String × String) × Cache Char)
  deriving Repr

/-- call names are pairwise distinct (the provider keeps one definition per name) -/
def namesDistinct : List CallDef → Bool
  | [] => true
  | cd :: rest => !(rest.any (·.name == cd.name)) && namesDistinct rest

def assocGet {α β} [BEq α] (l : List (α × β)) (k : α) : Option β := (l.find? (·.1 == k)).map (·.2)

def assocSet {α β} [BEq α] (l : List (α × β)) (k : α) (v : β) : List (α × β) :=
  if l.any (·.1 == k) then l.map fun x => if x.1 == k then (x.1, v) else x else l ++ [(k, v)]

/-- name of the scenario whose iterator the call's preprocessor ends up with -/
def iterOwner (c : Cfg) (cd : CallDef) : String :=
  (((c.scns.filter fun s => s.reqs.contains cd.name).getLast?).map (·.name)).getD ""

def initWorld (c : Cfg) : World :=
  { cells := c.calls.map fun cd => (cd.name, cd.md.map (·.2)), iters := [], caches := [] }

/-- `templ.Apply` on the metadata + `metadata.New(step.Metadata)` for one step, through the small-step machine
(thread 0 running alone until its shot is complete). Returns the new shared cells, the gun's new cache and the
values sent (definition key order). -/
def applyMetadata (v : Variant) (cells : List T) (cache : Cache Char) (vars : Vars Char) :
    List T × Cache Char × List (List Char) :=
  let st : State Char := { shared := cells, threads := [{ shots := [vars], phase := Phase.idle, cache := cache, sent := [] }] }
  let st' := match v with
    | .inPlace => runShot stepInPlace st 0
    | .copy => runShot stepCopy st 0
  match st'.threads with
  | th :: _ => (st'.shared, th.cache, th.sent.headD [])
  | [] => (st'.shared, cache, [])

def pvalOf (kind : String) (text : String) : PVal :=
  match kind with
  | "s" => .s text
  | "n" => .n text
  | "f" => .f text
  | "b" => .b text
  | "z" => .z
  | "o" => .o
  | "l" => .l
  | _ => .other

/-- per-shot variables that survive from step to step -/
structure ShotVars where
  a : Option String   -- token returned by the step named auth
  i : Option String   -- userId returned by it
  deriving Repr

inductive StepResult where
  | ok (w : World) (sv : ShotVars) (o : Outcome)
  | failed (w : World) (o : Outcome)        -- the scenario shot ends here
  | unmodelled (why : String)

/-- the variables a step's templates see: `u` = the user its own preprocessor drew (none without a preprocessor), the
token / user id the shot's `auth` step returned (none before it, after a failed one, and inside the `auth` step itself:
`requestVars[step.Name]` is replaced by an empty map when a step begins), the global constant. A variable that does
not exist prints as `<no value>` (`<nil>` through `print`). -/
def mkVars (u : Option String) (sv : ShotVars) (g : String) (gn : Option String := none) : Vars Char :=
  [(vU, (u.getD noValue).toList), (vA, (sv.a.getD noValue).toList), (vI, (sv.i.getD noValue).toList), (vG, g.toList),
   (vP vU, (u.getD nilText).toList), (vP vA, (sv.a.getD nilText).toList), (vP vI, (sv.i.getD nilText).toList), (vP vG, g.toList),
   (vM, (gn.getD noValue).toList), (vP vM, (gn.getD nilText).toList)]

/-- the preprocessor of a step: which user its mapping `u: source.users[<index>]` yields and what it does to the
iterators. Only `[next]` draws (from the iterator of the last scenario using the call, `iterOwner`); the other forms
(`calcIndex`: last, a written index, wrapping) leave every iterator alone. No preprocessor: no user. -/
def drawUser (c : Cfg) (cd : CallDef) (iters : List (String × Nat)) : Option String × List (String × Nat) :=
  if cd.pre then
    match cd.idx with
    | .next =>
      let owner := iterOwner c cd
      let drawn := (assocGet iters owner).getD 0
      (some (c.users.getD (drawn % c.users.length) ""), assocSet iters owner (drawn + 1))
    | i => (some (c.users.getD (fixedIndex c.users.length i) ""), iters)
  else (none, iters)

/-- some template of the call (payload or metadata) cannot be parsed or executed -/
def callBad (cd : CallDef) : Bool :=
  (cd.md.map (·.2) ++ cd.payload.map (·.2.2)).any fun t => t.any fun p => match p with | Piece.var m => m == vBad | _ => false

/-- the step's `assert/response` postprocessor rejects the reply -/
def assertFails (cd : CallDef) (code : Nat) : Bool := cd.assert != 0 && cd.assert != code

/-- the auth results visible to a step: none inside the step named `auth` itself -/
def svFor (cd : CallDef) (sv : ShotVars) : ShotVars := if cd.name == "auth" then { a := none, i := none } else sv

/-- `shootStep` for gun `gun` on call definition `cd` inside scenario `scn` -/
def shootStep (v : Variant) (c : Cfg) (gun : Nat) (scn : String) (cd : CallDef) (w : World) (sv : ShotVars) : StepResult :=
  if cd.pre && c.users.isEmpty then .unmodelled "no-users" else
  -- preprocessor: u = source.users[<index>]
  let ui := drawUser c cd w.iters
  let iters := ui.2
  let vars : Vars Char := mkVars ui.1 (svFor cd sv) c.g c.gn
  -- a template that cannot be parsed / executed: `templ.Apply` returns an error after the preprocessor ran; the step
  -- reports a sample with code 0, makes no call and ends the shot; nothing was written (the map is a clone)
  if callBad cd then .failed { w with iters := iters } { calls := [], samples := [sampleText (scn ++ "." ++ cd.tag) 0] } else
  -- templater: payload (pure), metadata (shared map + per-gun cache)
  let payload := cd.payload.map fun (fname, kind, t) => (fname, pvalOf kind (String.ofList (render vars t)))
  let cells := (assocGet w.cells cd.name).getD []
  let ckey := (gun, scn, cd.name)
  let (cells', cache', sent) := applyMetadata v cells ((assocGet w.caches ckey).getD []) vars
  let w' : World := { cells := assocSet w.cells cd.name cells', iters := iters, caches := assocSet w.caches ckey cache' }
  let tag := scn ++ "." ++ cd.tag
  match lookupMethod cd.call with
  | none => .failed w' { calls := [], samples := [sampleText tag 0] }
  | some (m, fs) =>
    match decodeFields fs payload with
    | none => .failed w' { calls := [], samples := [sampleText tag 400] }
    | some vals =>
      let msg := canonMsg fs vals
      let md := (cd.md.map (·.1)).zip (sent.map String.ofList)
      let code := serverCode m msg md
      let sv' : ShotVars :=
        if cd.name == "auth" then
          if m == "Auth" && code == 200 then
            let login := ((stripPrefix? "s." (fieldVal msg "login")).getD "")
            { a := some ("TOK" ++ login), i := some login }
          else { a := none, i := none }
        else sv
      -- an `assert/response` postprocessor that does not get its status code returns an error: the shot ends here
      -- (the call was made and its sample is reported)
      if assertFails cd code then .failed w' { calls := [callText m msg (mdText md) c.tmo], samples := [sampleText tag code] }
      else .ok w' sv' { calls := [callText m msg (mdText md) c.tmo], samples := [sampleText tag code] }

inductive ShotResult where
  | done (w : World) (o : Outcome)
  | unmodelled (why : String)

def shootSteps (v : Variant) (c : Cfg) (gun : Nat) (scn : String) : List CallDef → World → ShotVars → Outcome → ShotResult
  | [], w, _, acc => .done w acc
  | cd :: rest, w, sv, acc =>
    match shootStep v c gun scn cd w sv with
    | .unmodelled why => .unmodelled why
    | .failed w' o => .done w' { calls := acc.calls ++ o.calls, samples := acc.samples ++ o.samples }
    | .ok w' sv' o => shootSteps v c gun scn rest w' sv' { calls := acc.calls ++ o.calls, samples := acc.samples ++ o.samples }

/-- the provider's ammo list: every scenario `weight / gcd` times, in definition order (`SpreadNames`) -/
def ammoList (c : Cfg) : List ScenDef :=
  match c.scns with
  | [s] => [s]
  | ss =>
    let ws := ss.map fun s => if s.weight == 0 then 1 else s.weight
    let d := ws.foldl Nat.gcd 0
    ss.flatMap fun s => List.replicate ((if s.weight == 0 then 1 else s.weight) / (if d == 0 then 1 else d)) s

def resolveReqs (c : Cfg) (s : ScenDef) : Option (List CallDef) :=
  s.reqs.mapM fun r => c.calls.find? (·.name == r)

/-- shots fired one at a time: shot `k` takes `ammoList[k mod len]` and is fired by gun `sched[k]` -/
def runSched (v : Variant) (c : Cfg) : List Nat → Nat → World → List (Nat × Outcome) → Option (List (Nat × Outcome)) ⊕ String
  | [], _, _, acc => .inl (some acc.reverse)
  | gun :: rest, k, w, acc =>
    let ammos := ammoList c
    if ammos.isEmpty then .inr "no-scenarios" else
    match ammos[k % ammos.length]? with
    | none => .inr "no-scenarios"
    | some s =>
      match resolveReqs c s with
      | none => .inr "unknown-request"
      | some cds =>
        match shootSteps v c gun s.name cds w { a := none, i := none } { calls := [], samples := [] } with
        | .unmodelled why => .inr why
        | .done w' o => runSched v c rest (k + 1) w' ((gun, o) :: acc)

def dash (s : String) : String := if s.isEmpty then "-" else s

def traceText (tr : List (Nat × Outcome)) : String :=
  "t=" ++ String.intercalate ";" (tr.map fun (g, o) =>
    toString g ++ "#" ++ dash (String.intercalate "+" o.calls) ++ "#" ++ dash (String.intercalate "+" o.samples))

end Pandora.Model.C20
