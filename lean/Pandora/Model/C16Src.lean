/-
Model C16, the two steps in front of the evaluation (`components/providers/scenario/config`):

* `ReadAmmoConfig` (config.go) selects the front-end by the NAME of the file: a tagless `switch` whose cases test
  `strings.HasSuffix` / `strings.HasPrefix` of the lower-cased base name (`strings.ToLower(stat.Name())`) against
  literals; the first case that matches decides, a name that matches no case is refused.  `frontEnd` runs that switch
  on a table of cases — `/verif/gen -area hclyaml` regenerates the table (`extCases`) and the chain of calls the
  tested name goes through (`extSubject`) from the source.
* `ParseHCLFile` (hcl.go) first takes the `locals` blocks out of the body with `Body.PartialContent(localsSchema())`.
  The schema declares `locals` WITHOUT labels: hcl takes a `locals` block that carries a label out of the body too,
  reports an error diagnostic for it ("Extraneous label for locals") and does NOT hand it on.  `splitLocals strict`:
  with `strict` (the diagnostics of `PartialContent` are tested and returned) such a file is refused; without, the
  block silently disappears — its definitions are neither evaluated nor reported.

Core Lean only.
-/
import Pandora.Model.C16Locals

namespace Pandora.Model.C16

/-! ### the syntax of a file as `PartialContent` sees it -/

/-- one `locals` block of the file: the labels written after the keyword (none in a well-formed file), its attributes -/
structure LBlock where
  labels : List String
  attrs : List (String × E)
  deriving Repr, Inhabited

/-- an HCL scenario file before the `locals` blocks are taken out -/
structure HclSrc where
  blocks : List LBlock
  body : E
  deriving Repr, Inhabited

def LBlock.plain (b : LBlock) : Bool := b.labels.isEmpty

/-- `f.Body.PartialContent(localsSchema())` followed by the test of its diagnostics (`strict`) -/
def splitLocals (strict : Bool) (s : HclSrc) : Option HclFile :=
  if strict && !s.blocks.all LBlock.plain then none
  else some ⟨(s.blocks.filter LBlock.plain).map (·.attrs), s.body⟩

/-- every `locals` block of the file, labelled or not, in source order: what the file SAYS -/
def HclSrc.allLocals (s : HclSrc) : HclFile := ⟨s.blocks.map (·.attrs), s.body⟩

/-- `ParseHCLFile` from the source: the description stored into `AmmoHCL` (`none`: refused) -/
def srcDescription (T : Tables) (strict : Bool) (fns : List (String × String)) (s : HclSrc) : Option V :=
  (splitLocals strict s).bind (hclDescription T fns)

/-! ### the front-end is selected by the file name -/

inductive FrontEnd where
  | hcl
  | yaml
  | refuse
  deriving Repr, DecidableEq, Inhabited

/-- one case of the switch: (test, literal, the parser calls of its body) -/
abbrev ExtCase := String × String × String

/-- the front-end a case's body runs -/
def routeOf (parser : String) : FrontEnd :=
  if parser == "ParseHCLFile+ConvertHCLToAmmo" then .hcl
  else if parser == "ParseAmmoConfig" then .yaml
  else .refuse

/-- does the case match the (already mapped) name? -/
def caseMatches (name : List Char) (c : ExtCase) : Bool :=
  if c.1 == "HasSuffix" then c.2.1.toList.isSuffixOf name
  else if c.1 == "HasPrefix" then c.2.1.toList.isPrefixOf name
  else c.1 == "default"

/-- the tagless switch: the first matching case decides; no match (and no default) = no front-end -/
def frontEndOf (cases : List ExtCase) (name : List Char) : FrontEnd :=
  match cases.find? (caseMatches name) with
  | some c => routeOf c.2.2
  | none => .refuse

/-- `ReadAmmoConfig`'s selection: `lc` is what is done to every character of the base name before the tests
(`strings.ToLower` = `unicode.ToLower` on every rune; the identity when the name is tested as it is) -/
def frontEnd (lc : Char → Char) (cases : List ExtCase) (name : List Char) : FrontEnd :=
  frontEndOf cases (name.map lc)

/-- neither literal is a suffix of the other: no name ends with both -/
def suffixIncomparable (a b : List Char) : Bool := !a.isSuffixOf b && !b.isSuffixOf a

/-- decidable on a table of cases: every name that ends with `ext` reaches the case `HasSuffix ext`, whose body runs
`parser` — the cases in front of it are `HasSuffix` tests of literals that no such name can end with -/
def extSelects : List ExtCase → String → String → Bool
  | [], _, _ => false
  | c :: rest, ext, parser =>
    if c.1 == "HasSuffix" && c.2.1 == ext then c.2.2 == parser
    else c.1 == "HasSuffix" && suffixIncomparable c.2.1.toList ext.toList && extSelects rest ext parser

/-- ASCII lower case (what `unicode.ToLower` does to an ASCII letter) -/
def asciiLower (c : Char) : Char := if 'A' ≤ c ∧ c ≤ 'Z' then Char.ofNat (c.toNat + 32) else c

end Pandora.Model.C16
