/-
C08 (round 3) — faults: an I/O error of the ammo file at any point, a Close that fails, a provider without a Close
function; and what `Run`'s deferred cleanup makes of them.

The property's last sentence ("once its bounds are reached or it is cancelled a provider never keeps consumers
blocked, never spins, and returns promptly") is about how `Run` ENDS.  How it ends is decided by code that runs on
every way out of `Run`, also the ones a fault opens:

  components/providers/http/provider/provider.go Run   defer func() { close(p.Sink); if p.Close == nil { return };
                                                         closeErr := p.Close(); if closeErr != nil { if err != nil
                                                         { err = "Multiple errors faced: …" } else { err = closeErr } } }()
  components/providers/scenario/provider.go Run        defer func() { close(p.sink); sentinels ↦ nil }()        (no file: read by the constructor)
  components/providers/grpc/provider.go Run            defer p.Close(); defer close(p.Sink); open; defer file.Close()   (result of Close dropped)
  core/provider/decoder.go DecodeProvider.Run          defer close(p.OutQueue); OpenSource; defer func() { _ = errutil.Join(err, … source.Close() …) }()  (dropped)

`finishOf k r cl` = what the deferred cleanup of kind `k` does when the loop ended with `r` and closing the ammo file
gives `cl`: does it close the sink, does it call Close, what does `Run` return.  The http table is REGENERATED from
the source by executing the deferred function on its six paths (`Gen.ProvLoops.httpRunFinish`) and proved equal to
`finishHttp` (`Bridge.ProvLoops.httpFinish_eq`); the order of closing the sink and closing the file does not matter,
a path that leaves the sink open does.

`FSys` = the transition system of `Model.C08Mach` plus the label `ioerr`: the operation on the ammo file that the
loop is about to make (a read, a seek, the open) fails; the loop of every kind hands such an error to `Run`'s caller
(uri / uripost / raw / jsonline `Scan`: `Rd.bad ↦ SRes.failed`, regenerated round functions; runFullScan: a Scan error
that is no sentinel is returned; LoadAmmo / loadAmmo: returned wrapped; grpcjson start: `scanner.Err()`, a failing
Seek; DecodeProvider.Run: a Decode error that is not io.EOF — regenerated: `grpcReadErr`, `grpcSeekErr`, `decodeOnErr`).
-/
import Pandora.Model.C08Mach
import Pandora.Model.C08Scan

namespace Pandora.Model.C08

/-- what calling the provider's Close function gives -/
inductive CloseOut where
  | absent   -- there is none (the exported field is nil)
  | ok
  | fails
  deriving DecidableEq, Repr, Inhabited

/-- what the deferred cleanup makes of the loop's result -/
inductive FinKind where
  | keep       -- the loop's own result, unchanged
  | closeErr   -- the error of Close
  | both       -- "Multiple errors faced": the loop's error merged with the error of Close
  | wrapped    -- the loop's error inside a NEW error value although Close did not fail (`errors.Join(err, nil)`): errors.Is
               -- still sees it, errutil.IsCtxError (which compares the Cause) does not — never produced by the code as it is
  deriving DecidableEq, Repr, Inhabited

structure Fin where
  closesSink : Bool
  callsClose : Bool
  res : FinKind
  deriving DecidableEq, Repr, Inhabited

/-- `Provider.Run` of components/providers/http/provider: the sink is closed on every path; Close is called when
there is one; its error is reported — alone after a clean loop, merged with the loop's error otherwise -/
def finishHttp (errNil : Bool) (cl : CloseOut) : Fin :=
  match cl with
  | .absent => ⟨true, false, .keep⟩
  | .ok => ⟨true, true, .keep⟩
  | .fails => ⟨true, true, if errNil then .closeErr else .both⟩

/-- the other families: the sink is closed by a deferred statement of its own; the result of closing the file is
dropped (grpc, generic JSON) or there is no file at run time (scenario) -/
def finishPlain (cl : CloseOut) : Fin := ⟨true, cl != .absent, .keep⟩

def finishOf (k : Kind) (r : RunRes) (cl : CloseOut) : Fin :=
  if k.isHttp then finishHttp (decide (r = .nil)) cl else finishPlain cl

/-- what `Run` returns to its caller, as the classes the harness sees: `none` = an injected fault is reported -/
def finalClass (k : Kind) (r : RunRes) (cl : CloseOut) : Option RunRes :=
  match (finishOf k r cl).res with
  | .keep | .wrapped => if r = .errOther then none else some r
  | .closeErr | .both => none

/-- the loop state is one whose next iteration touches the ammo file (everything but the replay of preloaded ammo) -/
def PSt.readsFile : PSt → Bool
  | .replay _ _ => false
  | _ => true

/-- the transition system with I/O faults -/
structure FSys where
  s : Sys
  faulted : Bool := false   -- an I/O error ended the loop
  deriving Repr

inductive FLabel where
  | sys (l : Label)
  | ioerr         -- the file operation the loop is about to make fails
  deriving Repr, DecidableEq

def FSys.next (inp : Input) (n cap cons : Nat) (f : FSys) : FLabel → Option FSys
  | .sys l => (f.s.next inp n cap cons l).map (fun s' => { f with s := s' })
  | .ioerr =>
    if f.s.result.isNone ∧ f.s.offering.isNone ∧ f.s.ps.readsFile then
      -- the error is handed to Run's caller; the deferred cleanup closes the sink (`finishOf … .closesSink`)
      some { s := { f.s with result := some .errOther, closed := (finishOf inp.kind .errOther .ok).closesSink }, faulted := true }
    else none

def FSys.init (inp : Input) (n : Nat) : FSys := { s := Sys.init inp n }

def FSys.run (inp : Input) (n cap cons : Nat) (f : FSys) (ls : List FLabel) : FSys :=
  ls.foldl (fun f l => (f.next inp n cap cons l).getD f) f

def freach (inp : Input) (n cons : Nat) (ls : List FLabel) : FSys :=
  (FSys.init inp n).run inp n inp.kind.chanCap cons ls

/-- what `Run` has returned to its caller when closing the file gives `cl` (`none` = still running) -/
def FSys.final (inp : Input) (f : FSys) (cl : CloseOut) : Option (Option RunRes) :=
  f.s.result.map (fun r => finalClass inp.kind r cl)

end Pandora.Model.C08
