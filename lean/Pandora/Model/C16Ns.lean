/-
Core-only anchor for the regenerated struct/tag tables of property C16 (`Pandora/Gen/HclYaml.lean`, area `hclyaml`
of /verif/gen): the translator opens the namespaces `Pandora` and `Pandora.Go` in every regenerated file.
The row types of the tables live here.
-/
namespace Pandora.Go

/-- how a field of an HCL struct is written in HCL (`hcl:"name,label|block|attr"`) -/
inductive C16HKind where
  | label | attr | block
  deriving DecidableEq, Repr, Inhabited

/-- value types that both front-ends carry unchanged -/
inductive C16Leaf where
  | str | int | bool | strList | strMap | anyMap
  deriving DecidableEq, Repr, Inhabited

/-- type of a field of an HCL struct, after stripping one pointer -/
inductive C16HTy where
  | leaf (l : C16Leaf)
  | struct (n : String)
  | structList (n : String)
  deriving DecidableEq, Repr, Inhabited

/-- one exported field of an HCL struct -/
structure C16HField where
  /-- Go field name -/
  go : String
  /-- name in the `hcl` tag: what the user writes in HCL -/
  hcl : String
  kind : C16HKind
  /-- may be left out in HCL (gohcl: pointer attribute / `,optional` / pointer block / slice of blocks) -/
  optional : Bool
  /-- key yaml.v2 marshals the field under (explicit tag or lower-cased field name; "-" = never marshalled) -/
  yaml : String
  omitempty : Bool
  /-- the Go field is a pointer -/
  ptr : Bool
  ty : C16HTy
  deriving DecidableEq, Repr, Inhabited

/-- type of a field of a config struct -/
inductive C16CTy where
  | leaf (l : C16Leaf)
  /-- pointer to a leaf: absent and zero are different values -/
  | optLeaf (l : C16Leaf)
  | struct (n : String)
  | optStruct (n : String)
  | structList (n : String)
  /-- plugin interface: the map's `type` key selects the registered constructor and its config struct -/
  | plugin (iface : String)
  | pluginList (iface : String)
  deriving DecidableEq, Repr, Inhabited

/-- one exported field of a config struct -/
structure C16CField where
  go : String
  /-- key the mapstructure decoder looks for (`config` tag or the field name; matching is case-insensitive) -/
  key : String
  ty : C16CTy
  deriving DecidableEq, Repr, Inhabited

/-- one registration of `scenario/import.Import` -/
structure C16Plugin where
  iface : String
  name : String
  /-- config struct of the constructor, "" when the constructor takes no config -/
  conf : String
  deriving DecidableEq, Repr, Inhabited

end Pandora.Go
