/-
A FROZEN literal copy of the struct/tag tables of `components/providers/scenario` as they were when the C16 proofs were
written (pandora at "fix: HTTP scenario templaters cache templates under a structured key").  It does NOT follow the
source — the regenerated tables are `Pandora/Gen/HclYaml.lean` — and serves only as a stable, non-trivial instance for
the non-vacuity examples of `Props/C16.lean` (tables for which `compat` holds, a description whose two documents
differ): a harmless change of a yaml tag in the source must not break an illustration.
-/
import Pandora.Model.C16

namespace Pandora.Model.C16.Frozen
open Pandora.Go

/-- every struct reachable from `config.AmmoHCL` (discovery order):
⟨Go field, hcl name, hcl kind, optional in HCL, effective yaml.v2 key, omitempty, pointer, type⟩ -/
def hclStructs : List (String × List C16HField) := [
  ("AmmoHCL", [
    ⟨"VariableSources", "variable_source", .block, true, "variable_sources", false, false, .structList "SourceHCL"⟩,
    ⟨"Requests", "request", .block, true, "requests", false, false, .structList "RequestHCL"⟩,
    ⟨"Calls", "call", .block, true, "calls", false, false, .structList "CallHCL"⟩,
    ⟨"Scenarios", "scenario", .block, true, "scenarios", false, false, .structList "ScenarioHCL"⟩]),
  ("SourceHCL", [
    ⟨"Name", "name", .label, false, "name", false, false, .leaf .str⟩,
    ⟨"Type", "type", .label, false, "type", false, false, .leaf .str⟩,
    ⟨"File", "file", .attr, true, "file", true, true, .leaf .str⟩,
    ⟨"Fields", "fields", .attr, true, "fields", true, true, .leaf .strList⟩,
    ⟨"IgnoreFirstLine", "ignore_first_line", .attr, true, "ignore_first_line", true, true, .leaf .bool⟩,
    ⟨"Delimiter", "delimiter", .attr, true, "delimiter", true, true, .leaf .str⟩,
    ⟨"Variables", "variables", .attr, true, "variables", true, true, .leaf .strMap⟩]),
  ("RequestHCL", [
    ⟨"Name", "name", .label, false, "name", false, false, .leaf .str⟩,
    ⟨"Method", "method", .attr, false, "method", false, false, .leaf .str⟩,
    ⟨"URI", "uri", .attr, false, "uri", false, false, .leaf .str⟩,
    ⟨"Headers", "headers", .attr, false, "headers", true, false, .leaf .strMap⟩,
    ⟨"Tag", "tag", .attr, true, "tag", true, true, .leaf .str⟩,
    ⟨"Body", "body", .attr, true, "body", true, true, .leaf .str⟩,
    ⟨"Preprocessor", "preprocessor", .block, true, "preprocessor", true, true, .struct "RequestPreprocessorHCL"⟩,
    ⟨"Postprocessors", "postprocessor", .block, true, "postprocessors", true, false, .structList "RequestPostprocessorHCL"⟩,
    ⟨"Templater", "templater", .block, true, "templater", true, true, .struct "TemplaterHCL"⟩]),
  ("RequestPreprocessorHCL", [
    ⟨"Mapping", "mapping", .attr, false, "mapping", false, false, .leaf .strMap⟩]),
  ("RequestPostprocessorHCL", [
    ⟨"Type", "type", .label, false, "type", false, false, .leaf .str⟩,
    ⟨"Mapping", "mapping", .attr, true, "mapping", true, true, .leaf .strMap⟩,
    ⟨"Headers", "headers", .attr, true, "headers", true, true, .leaf .strMap⟩,
    ⟨"Body", "body", .attr, true, "body", true, true, .leaf .strList⟩,
    ⟨"StatusCode", "status_code", .attr, true, "status_code", true, true, .leaf .int⟩,
    ⟨"Size", "size", .block, true, "size", true, true, .struct "AssertSizeHCL"⟩]),
  ("AssertSizeHCL", [
    ⟨"Val", "val", .attr, true, "val", false, true, .leaf .int⟩,
    ⟨"Op", "op", .attr, true, "op", false, true, .leaf .str⟩]),
  ("TemplaterHCL", [
    ⟨"Type", "type", .attr, false, "type", false, false, .leaf .str⟩]),
  ("CallHCL", [
    ⟨"Name", "name", .label, false, "name", false, false, .leaf .str⟩,
    ⟨"Tag", "tag", .attr, true, "tag", true, true, .leaf .str⟩,
    ⟨"Call", "call", .attr, false, "call", false, false, .leaf .str⟩,
    ⟨"Metadata", "metadata", .attr, true, "metadata", true, true, .leaf .strMap⟩,
    ⟨"Payload", "payload", .attr, false, "payload", false, false, .leaf .str⟩,
    ⟨"Preprocessor", "preprocessor", .block, true, "preprocessors", true, false, .structList "CallPreprocessorHCL"⟩,
    ⟨"Postprocessors", "postprocessor", .block, true, "postprocessors", true, false, .structList "CallPostprocessorHCL"⟩]),
  ("CallPreprocessorHCL", [
    ⟨"Type", "type", .label, false, "type", false, false, .leaf .str⟩,
    ⟨"Mapping", "mapping", .attr, false, "mapping", false, false, .leaf .strMap⟩]),
  ("CallPostprocessorHCL", [
    ⟨"Type", "type", .label, false, "type", false, false, .leaf .str⟩,
    ⟨"Payload", "payload", .attr, true, "payload", true, true, .leaf .strList⟩,
    ⟨"StatusCode", "status_code", .attr, true, "status_code", true, true, .leaf .int⟩]),
  ("ScenarioHCL", [
    ⟨"Name", "name", .label, false, "name", false, false, .leaf .str⟩,
    ⟨"Weight", "weight", .attr, true, "weight", true, true, .leaf .int⟩,
    ⟨"MinWaitingTime", "min_waiting_time", .attr, true, "min_waiting_time", true, true, .leaf .int⟩,
    ⟨"Requests", "requests", .attr, false, "requests", false, false, .leaf .strList⟩])
]

/-- every struct reachable from `config.AmmoConfig` and the config structs of all registered plugins:
⟨Go field, config key, type⟩ -/
def cfgStructs : List (String × List C16CField) := [
  ("AmmoConfig", [
    ⟨"Locals", "Locals", .leaf .anyMap⟩,
    ⟨"VariableSources", "variable_sources", .pluginList "components/providers/scenario/vs.VariableSource"⟩,
    ⟨"Requests", "Requests", .structList "RequestConfig"⟩,
    ⟨"Calls", "Calls", .structList "CallConfig"⟩,
    ⟨"Scenarios", "Scenarios", .structList "ScenarioConfig"⟩]),
  ("RequestConfig", [
    ⟨"Name", "Name", .leaf .str⟩,
    ⟨"Method", "Method", .leaf .str⟩,
    ⟨"Headers", "Headers", .leaf .strMap⟩,
    ⟨"Tag", "Tag", .leaf .str⟩,
    ⟨"Body", "Body", .optLeaf .str⟩,
    ⟨"URI", "URI", .leaf .str⟩,
    ⟨"Preprocessor", "Preprocessor", .optStruct "http/preprocessor.Preprocessor"⟩,
    ⟨"Postprocessors", "Postprocessors", .pluginList "components/guns/http_scenario.Postprocessor"⟩,
    ⟨"Templater", "Templater", .plugin "components/guns/http_scenario.Templater"⟩]),
  ("http/preprocessor.Preprocessor", [
    ⟨"Mapping", "Mapping", .leaf .strMap⟩]),
  ("CallConfig", [
    ⟨"Name", "Name", .leaf .str⟩,
    ⟨"Tag", "Tag", .leaf .str⟩,
    ⟨"Call", "Call", .leaf .str⟩,
    ⟨"Payload", "Payload", .leaf .str⟩,
    ⟨"Metadata", "Metadata", .leaf .strMap⟩,
    ⟨"Preprocessors", "Preprocessors", .pluginList "components/guns/grpc/scenario.Preprocessor"⟩,
    ⟨"Postprocessors", "Postprocessors", .pluginList "components/guns/grpc/scenario.Postprocessor"⟩]),
  ("ScenarioConfig", [
    ⟨"Name", "Name", .leaf .str⟩,
    ⟨"Weight", "Weight", .leaf .int⟩,
    ⟨"MinWaitingTime", "min_waiting_time", .leaf .int⟩,
    ⟨"Requests", "Requests", .leaf .strList⟩]),
  ("scenario/vs.VariableSourceCsv", [
    ⟨"Name", "Name", .leaf .str⟩,
    ⟨"File", "File", .leaf .str⟩,
    ⟨"Fields", "Fields", .leaf .strList⟩,
    ⟨"IgnoreFirstLine", "ignore_first_line", .leaf .bool⟩,
    ⟨"Delimiter", "Delimiter", .leaf .str⟩]),
  ("scenario/vs.VariableSourceJSON", [
    ⟨"Name", "Name", .leaf .str⟩,
    ⟨"File", "File", .leaf .str⟩]),
  ("scenario/vs.VariableSourceVariables", [
    ⟨"Name", "Name", .leaf .str⟩,
    ⟨"Variables", "Variables", .leaf .anyMap⟩]),
  ("http/postprocessor.Config", [
    ⟨"Mapping", "Mapping", .leaf .strMap⟩]),
  ("http/postprocessor.AssertResponse", [
    ⟨"Headers", "Headers", .leaf .strMap⟩,
    ⟨"Body", "Body", .leaf .strList⟩,
    ⟨"StatusCode", "status_code", .leaf .int⟩,
    ⟨"Size", "Size", .optStruct "http/postprocessor.AssertSize"⟩]),
  ("http/postprocessor.AssertSize", [
    ⟨"Val", "Val", .leaf .int⟩,
    ⟨"Op", "Op", .leaf .str⟩]),
  ("grpc/postprocessor.AssertResponse", [
    ⟨"Payload", "Payload", .leaf .strList⟩,
    ⟨"StatusCode", "status_code", .leaf .int⟩]),
  ("grpc/preprocessor.PreprocessorConfig", [
    ⟨"Mapping", "Mapping", .leaf .strMap⟩])
]

/-- the plugin registry built by `scenario/import.Import`: ⟨interface, plugin name, config struct ("" = constructor without config)⟩ -/
def plugins : List C16Plugin := [
  ⟨"components/providers/scenario/vs.VariableSource", "file/csv", "scenario/vs.VariableSourceCsv"⟩,
  ⟨"components/providers/scenario/vs.VariableSource", "file/json", "scenario/vs.VariableSourceJSON"⟩,
  ⟨"components/providers/scenario/vs.VariableSource", "variables", "scenario/vs.VariableSourceVariables"⟩,
  ⟨"components/guns/http_scenario.Postprocessor", "var/jsonpath", "http/postprocessor.Config"⟩,
  ⟨"components/guns/http_scenario.Postprocessor", "var/xpath", "http/postprocessor.Config"⟩,
  ⟨"components/guns/http_scenario.Postprocessor", "var/header", "http/postprocessor.Config"⟩,
  ⟨"components/guns/http_scenario.Postprocessor", "assert/response", "http/postprocessor.AssertResponse"⟩,
  ⟨"components/guns/http_scenario.Templater", "text", ""⟩,
  ⟨"components/guns/http_scenario.Templater", "html", ""⟩,
  ⟨"components/guns/grpc/scenario.Postprocessor", "assert/response", "grpc/postprocessor.AssertResponse"⟩,
  ⟨"components/guns/grpc/scenario.Preprocessor", "prepare", "grpc/preprocessor.PreprocessorConfig"⟩]

def tables : Tables := ⟨hclStructs, cfgStructs, plugins, "AmmoHCL", "AmmoConfig", "type"⟩

/-- `AmmoConfig.Locals` is read by no decoder -/
def unread : List String := ["Locals"]

end Pandora.Model.C16.Frozen
