/-
C18 — how core/engine uses the factories the registry hands out (engine.go `instancePool`, instance.go `newInstance`),
on top of `Model.C18.run`.

`InstancePoolConfig.NewGun : func() (core.Gun, error)` is a factory made by `plugin.NewFactory` (through
pluginconfig.FactoryHook when the config is decoded).  One pool run calls it
  * once in `warmUpGun`                                  (`warmupGunCalls`)
  * once per started instance in `newInstance`           (`gunCallsPerInstance`)
and stops at the first error: a failing warm-up ends `Run` before anything else, a failing first instance ends
`startInstances`.  `NewRPSSchedule` is called once per instance (before `newGun`) when `RPSPerInstance`, once per pool
otherwise.  The call-site counts are regenerated from the engine's source (Gen/Plugin.lean `engineSites`) and bridged in
Bridge/Plugin.lean.

The engine starts all but the first instance concurrently, so the observation is a summary that does not depend on
the order of the concurrent constructor calls.
-/
import Pandora.Model.C18

namespace Pandora.Model.C18Engine
open Pandora.Model.C18

def warmupGunCalls : Nat := 1
def gunCallsPerInstance : Nat := 1

/-- calls of `NewGun` in a pool run that starts `inst` instances and meets no error -/
def poolGunCalls (inst : Nat) : Nat := warmupGunCalls + inst * gunCallsPerInstance

def isOkStep (s : Step) : Bool :=
  match s.res with
  | .ok _ => true
  | _ => false

/-- how often the pool calls the gun factory: until the first error, at most `poolGunCalls inst` times -/
def gunK (inp : Input) (inst : Nat) : Nat :=
  match run { inp with form := .facErr, k := poolGunCalls inst } with
  | none => poolGunCalls inst
  | some o =>
    match (o.steps.drop 1).findIdx? (fun s => !isOkStep s) with
    | none => poolGunCalls inst
    | some j => min (j + 1) (poolGunCalls inst)

/-- the registry-level input of a pool run: the gun factory has type `func() (core.Gun, error)` -/
def gunInput (inp : Input) (inst : Nat) : Input :=
  { inp with form := .facErr, k := gunK inp inst }

structure EngineObs where
  res : String                  -- "ok" | "err.<e>" (error result of Engine.Run) | "decode.<e>" (NewFactory failed while the config was decoded)
  guns : Nat                    -- guns built
  cells : Nat                   -- distinct configuration objects held by the guns (pointer configs)
  dflts : Nat
  ctors : Nat
  facts : Nat
  seen : List (Int × Int × Int) -- the distinct configurations (fields 1,2,3) the guns were built from
  own : Nat                     -- guns that at the very end read their own serial number through their config pointer
  binds : List Nat              -- per gun, in serial order: how many instances it was bound to
  sched : Nat                   -- invocations of the registered rps-schedule constructor
deriving DecidableEq, Repr

def showErr : Err → String
  | .fill i => s!"fill{i}" | .ctor i => s!"ctor{i}" | .fact i => s!"fact{i}"

def dedup [DecidableEq α] : List α → List α
  | [] => []
  | a :: l => if a ∈ dedup l then dedup l else a :: dedup l

def countEv (p : Ev → Bool) (steps : List Step) : Nat := (steps.map fun s => s.evs.countP p).sum

def products (steps : List Step) : List Product :=
  steps.filterMap fun s => match s.res with | .ok p => some p | _ => none

/-- summary of a pool run with `inst` instances (`per` = RPSPerInstance) -/
def engineRun (inp : Input) (inst : Nat) (per : Bool) : Option EngineObs :=
  let gi := gunInput inp inst
  (run gi).map fun o =>
    let ps := products o.steps
    let res := match o.steps with
      | [] => "ok"
      | c :: calls =>
        match c.res with
        | .err e => "decode." ++ showErr e
        | _ => match calls.getLast? with
          | some ⟨_, .err e⟩ => "err." ++ showErr e
          | some ⟨_, .panic e⟩ => "panic." ++ showErr e
          | _ => "ok"
    let made := o.steps.head?.map (·.res) == some Res.made
    let calls := o.steps.length - 1
    let failed0 := match (o.steps.drop 1).head? with
      | some s => !isOkStep s
      | none => false
    { res := res
      guns := ps.length
      cells := (dedup (ps.filterMap (·.cell))).length
      dflts := countEv (fun | .dflt => true | _ => false) o.steps
      ctors := countEv (fun | .ctor .. => true | _ => false) o.steps
      facts := countEv (fun | .fact .. => true | _ => false) o.steps
      seen := dedup (ps.map fun p => (p.seen.get 1, p.seen.get 2, p.seen.get 3))
      own := (o.views.filter fun v => (v.1 : Int) == v.2).length
      binds := ps.map fun p => if p.serial = 0 then 0 else 1
      sched := if !made || failed0 then 0 else if per then calls - 1 else 1 }

end Pandora.Model.C18Engine
