/-
C05 — two more pieces of the anchored code as executable models (core Lean only).

1. `Cli`: `cli.awaitPandoraTermination` (cli/cli.go): what the process does with the result of `Engine.Run` and with
   SIGINT / SIGTERM: which of its `select` cases fire is the list of events `Ev`; the result is the list of actions
   (`shutdown` = `gracefulShutdown()`, the cancel of the run context; `wait` / `waited` = `Engine.Wait` called /
   returned; `exit c` = return from `main` (0) or `log.Fatal` (1)).
2. `Sys`: the goroutines of `Engine.Run` (core/engine/engine.go) as a transition system: one goroutine per pool that
   runs `pool.Run(ctx)` and then selects between sending the result on the 1-slot channel `runRes` and the engine
   context being done; the main loop that consumes `len(pools)` results or leaves through `ctx.Done()`; the deferred
   `cancel()`. `Pool.Run`'s result is an environment choice here (the pool model is `Pandora.Model.C05`); which ready
   case a `select` takes is a choice.  `EngCfg.sendSelects = false` is the variant in which a pool goroutine sends
   its result unconditionally; `EngCfg.mainSelects = false` the one in which the main loop reads the results with a
   plain receive (it then notices a cancel only through a pool's result).  A pool goroutine that is `running` is
   anywhere inside `pool.Run` - also inside a warm-up, a gun or a schedule factory that never looks at its context:
   `poolRet` is an environment choice nobody is obliged to take.
-/
import Pandora.Model.C05Pool

namespace Pandora.Model.C05.Cli

inductive Sig
  | int | term | other
  deriving DecidableEq, Repr

/-- what the selects (and the blocking `Engine.Wait`) of `awaitPandoraTermination` meet, in the order they fire -/
inductive Ev
  | sig (s : Sig)        -- a signal is read from `sigs`
  | err (isNil : Bool)   -- `Engine.Run` has returned (`isNil`: without error) and its result is read from `errs`
  | timeout              -- the interrupt timeout (30 s / 3 s) or the 3 s await timeout fires
  | waitDone             -- `Engine.Wait` returns
  deriving DecidableEq, Repr

inductive Act
  | rcv                  -- the signal is acknowledged ("SIGINT received. Graceful shutdown.")
  | shutdown             -- `gracefulShutdown()`: the context of `Engine.Run` is cancelled
  | wait                 -- `Engine.Wait` is called
  | waited               -- … and has returned
  | exit (code : Nat)    -- the process ends: 0 = `awaitPandoraTermination` returns, 1 = `log.Fatal`
  deriving DecidableEq, Repr

/-- after `Engine.Wait` has been called on the failure path: `time.AfterFunc(3 s, Fatal)` races with its return -/
def awaitTasks : List Ev → List Act
  | .waitDone :: _ => [.waited, .exit 1]
  | .timeout :: _ => [.exit 1]
  | _ => []

/-- the innermost select of the signal path: `waitDone` / `timeout` / a second signal -/
def awaitTasksSig : List Ev → List Act
  | .waitDone :: _ => [.waited, .exit 1]
  | .timeout :: _ => [.exit 1]
  | .sig _ :: _ => [.exit 1]
  | _ => []

/-- the second select of the signal path: `timeout` / another signal / the result of `Engine.Run` -/
def afterSignal : List Ev → List Act
  | .timeout :: _ => [.exit 1]
  | .sig _ :: _ => [.exit 1]
  | .err _ :: rest => .wait :: awaitTasksSig rest
  | _ => []

/-- `awaitPandoraTermination`: the actions performed when the selects meet `evs` (a prefix when `evs` runs out) -/
def run : List Ev → List Act
  | [] => []
  | .err true :: _ => [.exit 0]
  | .err false :: rest => .shutdown :: .wait :: awaitTasks rest
  | .sig .other :: _ => [.exit 1]
  | .sig _ :: rest => .rcv :: .shutdown :: afterSignal rest
  | _ => []

def isSig : Ev → Bool
  | .sig _ => true
  | _ => false

end Pandora.Model.C05.Cli

namespace Pandora.Model.C05.Sys
open Pandora.Model.C05

structure EngCfg where
  /-- the pool goroutine selects between the send and `ctx.Done()` (the code) instead of sending unconditionally -/
  sendSelects : Bool
  /-- the main loop selects between a pool result and `ctx.Done()` (the code) instead of a plain `<-runRes` -/
  mainSelects : Bool
  deriving DecidableEq, Repr

def EngCfg.code : EngCfg := ⟨true, true⟩

/-- the goroutine `go func() { err := pool.Run(ctx); select { case runRes <- …: case <-ctx.Done(): } }()` -/
inductive PoolG
  | running                -- inside `pool.Run`
  | done (r : PRes)        -- `pool.Run` returned `r`; blocked in the select (or in the send)
  | sent (r : PRes)        -- the result sits in the channel; the goroutine has ended
  | taken (r : PRes)       -- … and the main loop has read it
  | suppressed (r : PRes)  -- left through `ctx.Done()`; the goroutine has ended
  deriving DecidableEq, Repr

inductive EChoice
  | extCancel                    -- the caller cancels
  | poolRet (i : Nat) (r : PRes) -- `pool.Run` of pool `i` returns `r`
  | send (i : Nat)               -- pool goroutine `i`: the send case fires
  | suppress (i : Nat)           -- pool goroutine `i`: the `ctx.Done()` case fires
  | recv                         -- main loop: `res := <-runRes`
  | mainCtx                      -- main loop: `<-ctx.Done()`
  deriving DecidableEq, Repr

structure EState where
  pools : List PoolG
  chan : Option (Nat × PRes) := none   -- `runRes` (capacity 1)
  ctxDone : Bool := false              -- the engine's context
  extC : Bool := false                 -- the CALLER cancelled
  awaited : Nat := 0                   -- the loop counter of the main loop
  result : Option ERes := none         -- what `Engine.Run` returned
  extAtReturn : Bool := false
  deriving DecidableEq, Repr

/-- `Engine.Run` returns: the deferred `cancel()` -/
def ret (s : EState) (r : ERes) : EState :=
  { s with result := some r, ctxDone := true, extAtReturn := s.extC }

def einit (n : Nat) : EState :=
  let s : EState := { pools := List.replicate n .running }
  if n = 0 then ret s .ok else s

def estep (cfg : EngCfg) (s : EState) : EChoice → EState
  | .extCancel => { s with ctxDone := true, extC := true }
  | .poolRet i r =>
    match s.pools[i]? with
    | some .running => { s with pools := s.pools.set i (.done r) }
    | _ => s
  | .send i =>
    match s.pools[i]?, s.chan with
    | some (.done r), none => { s with pools := s.pools.set i (.sent r), chan := some (i, r) }
    | _, _ => s
  | .suppress i =>
    match s.pools[i]? with
    | some (.done r) => if cfg.sendSelects ∧ s.ctxDone then { s with pools := s.pools.set i (.suppressed r) } else s
    | _ => s
  | .recv =>
    match s.result, s.chan with
    | none, some (i, r) =>
      let s1 := { s with chan := none, pools := s.pools.set i (.taken r), awaited := s.awaited + 1 }
      if r = .ok then (if s1.awaited = s1.pools.length then ret s1 .ok else s1)
      else if s.ctxDone then ret s1 .ctx else ret s1 (.fail i r)
    | _, _ => s
  | .mainCtx =>
    match s.result with
    | none => if cfg.mainSelects ∧ s.ctxDone then ret s .ctx else s
    | some _ => s

def erun (cfg : EngCfg) (n : Nat) (cs : List EChoice) : EState := cs.foldl (estep cfg) (einit n)

/-- the steps of the goroutine of `Engine.Run` itself (its main loop), as opposed to what pools, pool goroutines and
the caller do -/
def EChoice.isMain : EChoice → Bool
  | .recv | .mainCtx => true
  | _ => false

def PoolG.ended : PoolG → Bool
  | .sent _ | .taken _ | .suppressed _ => true
  | _ => false

def PoolG.isTaken : PoolG → Bool
  | .taken _ => true
  | _ => false

def PoolG.inChan : PoolG → Bool
  | .sent _ => true
  | _ => false

end Pandora.Model.C05.Sys
