/-
C02 — executable model of pandora's schedules (core/schedule/{do_at,unlilmited,composite,start_sync}.go),
sequential semantics with an explicit clock reading per call.

Nesting is handled compositionally: `Ops σ` is the interface of a schedule object with state `σ`;
`compOps ops` is the composite over children of type `σ`; `Lvl d` / `lvlOps d` iterate the construction,
so a tree of any depth is an object of some level.  Partial operations (`MarkStarted` on a started
schedule, `panic("current schedule is not finished")`, indexing an empty list) are explicit errors.
-/
namespace Pandora.Model.C02

/-- result of `Next()` : (new state, time, ok) -/
abbrev NextR (σ : Type) := Except String (σ × Int × Bool)
abbrev LeftR (σ : Type) := Except String (σ × Int)

structure Ops (σ : Type) where
  start : σ → Int → Except String σ      -- Start(startAt)
  next  : σ → Int → NextR σ              -- Next() with clock reading `now`
  left  : σ → Int → LeftR σ              -- Left() with clock reading `now`
  once0 : σ                              -- NewOnce(0), what NewComposite() of nothing returns

/-! ### leaves -/

inductive Leaf where
  /-- doAtSchedule: token offsets (length = n), duration, next index i, start (none = not started) -/
  | fin (offs : List Int) (dur : Int) (i : Nat) (start : Option Int)
  /-- unlimitedSchedule: duration, finish (none = not started) -/
  | unl (dur : Int) (finish : Option Int)
deriving Repr, DecidableEq

def alreadyStarted : String := "schedule is already started"

def Leaf.start : Leaf → Int → Except String Leaf
  | .fin offs dur i none, t => .ok (.fin offs dur i (some t))
  | .fin _ _ _ (some _), _ => .error alreadyStarted
  | .unl dur none, t => .ok (.unl dur (some (t + dur)))
  | .unl _ (some _), _ => .error alreadyStarted

def Leaf.next : Leaf → Int → NextR Leaf
  | .fin offs dur i st, now =>
      let s := st.getD now
      let st' := Leaf.fin offs dur (i + 1) (some s)
      match offs[i]? with
      | some o => .ok (st', s + o, true)
      | none => .ok (st', s + dur, false)
  | .unl dur fi, now =>
      let f := fi.getD (now + dur)
      -- never before its start `f - dur` (a composite starts a part in advance, at the finish time of the part before)
      if now < f then .ok (.unl dur (some f), max now (f - dur), true) else .ok (.unl dur (some f), f, false)

def Leaf.left : Leaf → Int → LeftR Leaf
  | .fin offs dur i st, _ => .ok (.fin offs dur i st, ((offs.length - i : Nat) : Int))
  | .unl dur none, _ => .ok (.unl dur none, -1)
  | .unl dur (some f), now => .ok (.unl dur (some f), if now < f then -1 else 0)

def leafOps : Ops Leaf := ⟨Leaf.start, Leaf.next, Leaf.left, .fin [] 0 0 none⟩

/-! ### composite -/

structure Comp (σ : Type) where
  cs : List σ          -- scheds: remaining children, head = current
  la : List Int        -- leftAfter
  started : Bool := false   -- set by Start and Next
deriving Repr

def indexPanic : String := "index out of range"

/-- `compositeSchedule.Next` for a single caller. `c` is `scheds[0]`, `rest` the others. -/
def compNextAux (ops : Ops σ) (c : σ) : (rest : List σ) → (la : List Int) → (now : Int) → Except String (Comp σ × Int × Bool)
  | rest, la, now => do
    let (c', tx, ok) ← ops.next c now
    if ok then pure (⟨c' :: rest, la, true⟩, tx, true) else
    match rest with
    | [] => pure (⟨[c'], la, true⟩, tx, false)
    | h :: t => do
      -- Lock; nobody shifted meanwhile (single caller); startNext(tx)
      let h1 ← ops.start h tx
      let (h2, tx2, ok2) ← ops.next h1 now
      if ok2 then pure (⟨h2 :: t, la.tail, true⟩, tx2, true)
      else compNextAux ops h2 t la.tail now     -- "Schedule without any tokens? Okay, just retry."

def compNext (ops : Ops σ) (s : Comp σ) (now : Int) : Except String (Comp σ × Int × Bool) :=
  match s.cs with
  | [] => .error indexPanic
  | c :: rest => compNextAux ops c rest s.la now

/-- how `Left` combines the head's count with `leftAfter[0]` — the line repaired by the C02 fix -/
def combineLeft (left la0 : Int) : Int := if la0 < 0 then -1 else left + la0

def compLeftAux (ops : Ops σ) (started : Bool) (c : σ) : (rest : List σ) → (la : List Int) → (now : Int) → Except String (Comp σ × Int)
  | rest, la, now => do
    let (c', left) ← ops.left c now
    match rest with
    | [] => pure (⟨[c'], la, started⟩, left)
    | h :: t =>
      let la0 := la.headD 0
      if left == 0 then
        if la0 ≥ 0 then pure (⟨c' :: h :: t, la, started⟩, la0)
        else if !started then pure (⟨c' :: h :: t, la, started⟩, -1)   -- not started: nothing finished, still unknown
        else do
          -- leftAfter unknown at creation; the current part is finished: shift and try again
          let (_, tx, ok) ← ops.next c' now
          if ok then throw "current schedule is not finished"
          let h1 ← ops.start h tx
          compLeftAux ops started h1 t la.tail now
      else if left < 0 then pure (⟨c' :: h :: t, la, started⟩, -1)
      else pure (⟨c' :: h :: t, la, started⟩, combineLeft left la0)

def compLeft (ops : Ops σ) (s : Comp σ) (now : Int) : Except String (Comp σ × Int) :=
  match s.cs with
  | [] => .error indexPanic
  | c :: rest => compLeftAux ops s.started c rest s.la now

def compStart (ops : Ops σ) (s : Comp σ) (t : Int) : Except String (Comp σ) :=
  match s.cs with
  | [] => .error indexPanic
  | c :: rest => do
    let c' ← ops.start c t
    pure ⟨c' :: rest, s.la, true⟩

/-- the backwards loop of `NewComposite`: returns children (their `Left` may have changed them), `leftAfter`
and the accumulator state (leftAccumulator, unknown). Processes the LAST child first. -/
def mkLeftAfter (ops : Ops σ) (now : Int) : List σ → Except String (List σ × List Int × Int × Bool)
  | [] => pure ([], [], 0, false)
  | c :: rest => do
    let (rest', laRest, acc, unknown) ← mkLeftAfter ops now rest
    let (c', l) ← ops.left c now
    let here := acc                              -- left[i] = leftAccumulator
    let (acc', unknown') :=
      if l < 0 then ((-1 : Int), true) else (if unknown then acc else acc + l, unknown)
    pure (c' :: rest', here :: laRest, acc', unknown')

/-- `NewComposite(scheds...)` -/
def newComposite (ops : Ops σ) (now : Int) (cs : List σ) : Except String (σ ⊕ Comp σ) :=
  match cs with
  | [] => pure (.inl ops.once0)
  | [c] => pure (.inl c)
  | cs => do
    let (cs', la, _, _) ← mkLeftAfter ops now cs
    pure (.inr ⟨cs', la, false⟩)

def compOps (ops : Ops σ) : Ops (Comp σ) :=
  ⟨compStart ops, compNext ops, compLeft ops, ⟨[ops.once0], [0], false⟩⟩

def sumOps (a : Ops α) (b : Ops β) : Ops (α ⊕ β) where
  start s t := match s with
    | .inl x => (a.start x t).map .inl
    | .inr y => (b.start y t).map .inr
  next s now := match s with
    | .inl x => (a.next x now).map fun (x', tx, ok) => (.inl x', tx, ok)
    | .inr y => (b.next y now).map fun (y', tx, ok) => (.inr y', tx, ok)
  left s now := match s with
    | .inl x => (a.left x now).map fun (x', l) => (.inl x', l)
    | .inr y => (b.left y now).map fun (y', l) => (.inr y', l)
  once0 := .inl a.once0

/-- schedule objects of nesting depth ≤ d -/
def Lvl : Nat → Type
  | 0 => Leaf
  | d + 1 => Lvl d ⊕ Comp (Lvl d)

def lvlOps : (d : Nat) → Ops (Lvl d)
  | 0 => leafOps
  | d + 1 => sumOps (lvlOps d) (compOps (lvlOps d))

/-! ### untyped trees (driver input) -/

inductive Tree where
  | fin (offs : List Int) (dur : Int)
  | unl (dur : Int)
  | comp (cs : List Tree)

mutual
def Tree.depth : Tree → Nat
  | .fin _ _ => 0
  | .unl _ => 0
  | .comp cs => depthList cs + 1
def depthList : List Tree → Nat
  | [] => 0
  | t :: ts => max t.depth (depthList ts)
end

mutual
/-- build the object for a tree at level `d` (leaves are lifted through `inl`) -/
def build (now : Int) : (d : Nat) → Tree → Except String (Lvl d)
  | 0, .fin offs dur => pure (Leaf.fin offs dur 0 none)
  | 0, .unl dur => pure (Leaf.unl dur none)
  | 0, .comp _ => throw "depth"
  | d + 1, .comp cs => do
      let kids ← buildList now d cs
      newComposite (lvlOps d) now kids
  | d + 1, t => do
      let x ← build now d t
      pure (.inl x)
def buildList (now : Int) : (d : Nat) → List Tree → Except String (List (Lvl d))
  | _, [] => pure []
  | d, t :: ts => do
      let x ← build now d t
      let xs ← buildList now d ts
      pure (x :: xs)
end

/-! ### one caller: a sequence of calls, each with its clock reading -/

inductive SOp where
  | start (t : Int)
  | next
  | left
deriving Repr, DecidableEq

inductive Obs where
  | started
  | tok (tx : Int) (ok : Bool)
  | cnt (n : Int)
  | err (msg : String)      -- a panic; the run stops there
deriving Repr, DecidableEq

def seqRun {σ : Type} (ops : Ops σ) : σ → List (SOp × Int) → List Obs
  | _, [] => []
  | s, (.start t, _) :: r =>
    match ops.start s t with
    | .ok s' => .started :: seqRun ops s' r
    | .error e => [.err e]
  | s, (.next, now) :: r =>
    match ops.next s now with
    | .ok (s', tx, ok) => .tok tx ok :: seqRun ops s' r
    | .error e => [.err e]
  | s, (.left, now) :: r =>
    match ops.left s now with
    | .ok (s', n) => .cnt n :: seqRun ops s' r
    | .error e => [.err e]

/-! ### `NewInstanceStep(from, to, step, stepDuration)` (core/schedule/instance_step.go) -/

/-- the loop `for i := from + step; i <= to; i += step { append(NewConst(0, stepDuration), NewOnce(step)) }`;
`fuel` bounds the number of iterations (`to + 1` is enough because `step ≥ 1`) -/
def instanceStepLoop (to step : Nat) (dur : Int) : Nat → Nat → List Tree
  | 0, _ => []
  | fuel + 1, i =>
    if i ≤ to then Tree.fin [] dur :: Tree.fin (List.replicate step 0) 0 :: instanceStepLoop to step dur fuel (i + step)
    else []

/-- `NewConst(0, d)` has no tokens and lasts `d`; `NewOnce(n)` has `n` tokens at offset 0 and lasts 0 -/
def instanceStepTree (frm to step : Nat) (dur : Int) : Tree :=
  Tree.comp (Tree.fin (List.replicate frm 0) 0 :: instanceStepLoop to step dur (to + 1) (frm + step))

/-! ### `callbackOnFinishSchedule` (core/coreutil/schedule.go): `onFinishOnce.Do(onFinish)` after a `Next` that
returned `!ok` and after a `Left` that returned 0 -/

structure Cb where
  fired : Bool := false     -- the sync.Once
  calls : Nat := 0          -- how often `onFinish` ran
deriving Repr, DecidableEq

def finishObs : Obs → Bool
  | .tok _ false => true
  | .cnt n => n == 0
  | _ => false

def Cb.after (c : Cb) (o : Obs) : Cb :=
  if finishObs o && !c.fired then ⟨true, c.calls + 1⟩ else c

end Pandora.Model.C02
