/-
C13 — the jsonline decoder of the http provider (components/providers/http/decoders/jsonline.go).

`encoding/json` is a library: what it makes of the bytes is a parameter of the model. A file is described by what
the decoder's calls into the library give (`JSrc`):

* `refused`  - `isArray`'s first `Token()` is an error (`io.EOF`: nothing but white space; a syntax error) or is not a
               delimiter: `newJsonlineDecoder` returns that error;
* `array es trailing` - the first token is `[`: the whole array is decoded at construction (`readArray`); `none` = the array
               does not decode (truncated, a wrong type, a request `Setup` refuses), `some es` = its elements;
               `trailing` = something other than white space follows the array. The tree as found (`fixed = false`) never
               reads what follows the array - a file `[…]{"broken` is accepted -, the repaired `readArray`
               (fixes/C13-jsonline-array-trailing-data.diff, `fixed = true`) refuses the file;
* `stream is`- the first token is `{`: every `Scan` decodes the next value (`d.decoder.Decode(&da)`); `is` lists what the
               successive calls of a fresh decoder give, up to the clean end of the file (`io.EOF`) or the first error.

The decoder's OWN logic is modelled in full, with its partial operations explicit: `scanAmmos` (`int(d.ammoNum) % length`,
`d.ammos[i]`, the pass counter) under `Provider.runFullScan` (`jlArrayLoop`), the object stream of one pass (`jlItems`)
under the pass-end rule shared with the other http decoders (`multiRunAll`, Model/C13Multi.lean).

Core Lean only.
-/
import Pandora.Model.C13Multi

namespace Pandora.Model.C13

/-- what one `d.decoder.Decode(&da)` followed by `a.Setup(…)` gives -/
inductive JItem where
  | good (tag : Bytes)
  | bad            -- not JSON, a wrong type for a field, a value cut by the end of the file (`io.ErrUnexpectedEOF`), a request `Setup` refuses
  deriving Repr, DecidableEq

inductive JSrc where
  | refused
  | array (elems : Option (List Bytes)) (trailing : Bool)
  | stream (items : List JItem)
  deriving Repr, DecidableEq

/-- one pass over an object stream: entries up to the end of the file or the first error -/
def jlItems : List JItem → Run
  | [] => ⟨[], .ok, []⟩
  | .good t :: rest => (jlItems rest).cons ⟨t, [], []⟩
  | .bad :: _ => ⟨[], .err "other", []⟩

/-- `jsonlineDecoder.Scan` at the end of the file (`passNum` passes done before this one): "no ammo" is tested before the
pass is counted, the pass limit at the top of the loop after the seek -/
def jlPassEnd (passes passNum ammoNum : Nat) : PassEnd :=
  if ammoNum = 0 then .stop (.err "noammo")
  else if passes ≠ 0 ∧ passNum + 1 ≥ passes then .stop .ok
  else .again

/-! ### array mode: `scanAmmos` under `runFullScan` -/

/-- the two counters of `protoDecoder` -/
structure JlArr where
  ammoNum : Nat
  passNum : Nat
  deriving Repr, DecidableEq

inductive ScanRes where
  | ammo (tag : Bytes)
  | passLimit        -- ErrPassLimit
  | noAmmo           -- ErrNoAmmo
  | panic
  deriving Repr, DecidableEq

/-- `jsonlineDecoder.scanAmmos` -/
def scanAmmos (elems : List Bytes) (passes : Nat) (s : JlArr) : ScanRes × JlArr :=
  let length : Int := elems.length
  if length = 0 then (.noAmmo, s)
  else if passes ≠ 0 ∧ s.passNum ≥ passes then (.passLimit, s)
  else match tmodC s.ammoNum length with
    | .ok i =>
      match indexC elems i with
      | .ok a => (.ammo a, ⟨s.ammoNum + 1, if i = length - 1 then s.passNum + 1 else s.passNum⟩)
      | _ => (.panic, s)
    | _ => (.panic, s)

/-- `Provider.runFullScan` over `scanAmmos` (no chosen cases): `n` ammo delivered so far, `acc` reversed -/
def jlArrayLoop (elems : List Bytes) (passes limit : Nat) : Nat → JlArr → Nat → List Entry → Run
  | 0, _, _, acc => ⟨acc.reverse, .fuel, []⟩
  | fuel + 1, s, n, acc =>
    if limit ≠ 0 ∧ n ≥ limit then ⟨acc.reverse, .ok, []⟩
    else if n = 0 ∧ s.passNum > 0 then ⟨acc.reverse, .err "noammo", []⟩
    else match scanAmmos elems passes s with
      | (.ammo t, s') => jlArrayLoop elems passes limit fuel s' (n + 1) (⟨t, [], []⟩ :: acc)
      | (.passLimit, _) => ⟨acc.reverse, if n = 0 then .err "noammo" else .ok, []⟩
      | (.noAmmo, _) => ⟨acc.reverse, .err "noammo", []⟩
      | (.panic, _) => ⟨acc.reverse, .panic, []⟩

/-- the whole run over an array; every `Scan` but the last delivers one ammo: `limit` resp. `passes × length` of them -/
def jlArrayRun (elems : List Bytes) (passes limit : Nat) : Run :=
  jlArrayLoop elems passes limit ((if limit ≠ 0 then limit else passes * elems.length) + 1) ⟨0, 0⟩ 0 []

/-- `NewProvider` refuses the file -/
def ctorErr : Run := ⟨[], .err "ctor", []⟩

/-- the http provider over a jsonline file (`pre` = `preload`: the file is decoded completely before anything is delivered) -/
def jsonlineRun (fixed : Bool) (src : JSrc) (pre : Bool) (passes limit : Nat) : Run :=
  match src with
  | .refused => ctorErr
  | .array none _ => ctorErr
  | .array (some elems) trailing => if fixed ∧ trailing then ctorErr else jlArrayRun elems passes limit
  | .stream items =>
    let one := jlItems items
    let one := if pre ∧ one.end_ ≠ .ok then { one with entries := [] } else one
    multiRunAll one passes limit

end Pandora.Model.C13
