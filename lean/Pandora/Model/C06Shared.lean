/-
C06 (x, round 6) — several phout aggregators that share ONE destination: the standard output.

`NewPhout` with an empty `Destination` writes to `os.Stdout` (core/aggregator/netsample/phout.go). With several pools
configured `result: {type: phout}` the aggregators share that file with each other (and with whatever else the process
prints). Every aggregator has its own buffered writer; what it has encoded reaches the shared output when the writer is
flushed (periodically, and by the deferred function of `Run`). What the code is comes in as a `Cfg` (regenerated, see
Bridge/C06R6.lean):
* `closesShared` — does the deferred `file.Close()` of an aggregator without destination close `os.Stdout`
  (the code as found before 61cfda1 did: the pool that finished first closed the output of the others);
* `finalFlush`   — does the deferred function flush the writer whatever the destination is
  (a "do not close stdout" guard that returns before the `Flush` loses everything since the last periodic flush).
A trace is an arbitrary list of events; an event that is not enabled leaves the state unchanged.
Lines are `(aggregator, payload)`; a write to the closed output is refused (`write /dev/stdout: file already closed`).
-/
namespace Pandora.Model.C06Shared

structure Cfg where
  closesShared : Bool
  finalFlush : Bool
  deriving DecidableEq, Repr

abbrev Line := Nat × Nat

inductive Ev
  | handle (j : Nat) (x : Nat)   -- aggregator j takes a sample from its queue and encodes it into its writer's buffer
  | flush (j : Nat)              -- a periodic flush of aggregator j (ticker / full buffer)
  | finish (j : Nat)             -- aggregator j's `Run` returns: the deferred function runs
  deriving DecidableEq, Repr

structure St where
  /-- encoded, not yet written -/
  buf : Nat → List Line
  /-- `Run` has returned -/
  done : Nat → Bool
  /-- what reached the standard output, in order -/
  out : List Line := []
  /-- lines that were refused by the closed output, or were still buffered when `Run` returned -/
  lost : List Line := []
  /-- the standard output is open -/
  isOpen : Bool := true
  /-- ghost: every line handled so far -/
  handled : List Line := []

def init : St := { buf := fun _ => [], done := fun _ => false }

def setAt {α : Type} (f : Nat → α) (j : Nat) (v : α) : Nat → α := fun k => if k = j then v else f k

/-- `writer.Flush()` of aggregator j -/
def St.write (st : St) (j : Nat) : St :=
  if st.isOpen then { st with out := st.out ++ st.buf j, buf := setAt st.buf j [] }
  else { st with lost := st.lost ++ st.buf j, buf := setAt st.buf j [] }

def step (cfg : Cfg) (st : St) : Ev → St
  | .handle j x =>
      if st.done j then st
      else { st with buf := setAt st.buf j (st.buf j ++ [(j, x)]), handled := st.handled ++ [(j, x)] }
  | .flush j => if st.done j then st else st.write j
  | .finish j =>
      if st.done j then st
      else
        let st' := if cfg.finalFlush then st.write j
                   else { st with lost := st.lost ++ st.buf j, buf := setAt st.buf j [] }
        { st' with done := setAt st'.done j true, isOpen := st'.isOpen && !cfg.closesShared }

def run (cfg : Cfg) (st : St) : List Ev → St
  | [] => st
  | e :: es => run cfg (step cfg st e) es

/-- the lines of aggregator j in a list -/
def ofAgg (j : Nat) (l : List Line) : List Line := l.filter (fun e => e.1 == j)

end Pandora.Model.C06Shared
