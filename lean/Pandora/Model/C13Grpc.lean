import Pandora.Model.C13Ammo

/-
C13, round 3 — the grpc/json provider as the engine uses it: pooled ammo objects, passes, limit, chosen cases.

`components/providers/grpc/ammo.go`            `Ammo`, `Reset`, `Invalidate`, `IsInvalid`, `IsValid`, `SetID`
`components/providers/grpc/provider.go`        `Provider.Acquire` (sets the id), `Release` (puts the object back into the `sync.Pool`)
`components/providers/grpc/grpcjson/provider.go` `decodeAmmo`, `Provider.start`

The `sync.Pool` is adversarial here: the k-th `Pool.Get()` of a run answers `pool k`, ANY object in ANY state (a fresh one,
one released a moment ago that still carries an earlier entry and its invalid flag, …). What the consumers see must not
depend on it (`Proofs/C13Grpc.lean`).

jsoniter is a library: `json l = some f` when it decodes line `l` into the fields `f` (the theorems hold for every oracle).
Core Lean only.
-/
namespace Pandora.Model.C13

/-- the exported fields of `ammo.Ammo`; metadata and payload are opaque values (`[]` = the nil map) -/
structure GFields where
  tag : Bytes
  call : Bytes
  metadata : Bytes
  payload : Bytes
  deriving Repr, DecidableEq

def GFields.zero : GFields := ⟨[], [], [], []⟩

/-- `ammo.Ammo` -/
structure GObj where
  f : GFields
  id : Nat
  isInvalid : Bool
  deriving Repr, DecidableEq

/-- `(*Ammo).Reset`: the whole struct is overwritten - the id and the invalid flag too -/
def gReset (_a : GObj) (f : GFields) : GObj := ⟨f, 0, false⟩

/-- `(*Ammo).Invalidate` -/
def gInvalidate (a : GObj) : GObj := { a with isInvalid := true }

/-- `(*Ammo).SetID` -/
def gSetID (a : GObj) (id : Nat) : GObj := { a with id := id }

/-- `decodeAmmo(jsonDoc, am)`: (the object handed back, an error was returned). `fixed = false`: the tree before 9da7ed8,
where a line that cannot be decoded left the pooled object as it was. -/
def gDecodeAmmo (fixed : Bool) (parsed : Option GFields) (am : GObj) : GObj × Bool :=
  match parsed with
  | some f => (gReset am f, false)
  | none => (if fixed then gReset am GFields.zero else am, true)

/-- how the scan loop of one pass ended -/
inductive GScanEnd where
  | eof                 -- `scanner.Scan()` answered false, no scanner error
  | tooLong             -- `scanner.Scan()` answered false, `scanner.Err()` is `ErrTooLong`
  | limit               -- the `ammoNum < p.Limit` half of the loop condition
  | decodeErr           -- `return errors.Wrapf(err, "failed to decode ammo …")`
  deriving Repr, DecidableEq

structure GScan where
  out : List GObj       -- what was sent to the sink, in order
  end_ : GScanEnd
  gets : Nat            -- `Pool.Get()` calls so far
  ammoNum : Nat
  deriving Repr, DecidableEq

def GScan.cons (o : GObj) (s : GScan) : GScan := { s with out := o :: s.out }

/-- the inner loop of `Provider.start` over the scanner's tokens (before `dropCR`), with a pool:
`for …; scanner.Scan() && (p.Limit == 0 || ammoNum < p.Limit); … { decodeAmmo; Invalidate | return; IsChosenCase; ammoNum++; Sink <- a }` -/
def gScan (fixed coe : Bool) (json : Bytes → Option GFields) (chosen : Bytes → Bool) (limit : Nat) (pool : Nat → GObj) :
    List Bytes → Nat → Nat → GScan
  | [], gets, ammoNum => ⟨[], .eof, gets, ammoNum⟩
  | l :: rest, gets, ammoNum =>
    if l.length ≥ maxToken then ⟨[], .tooLong, gets, ammoNum⟩
    else if limit ≠ 0 ∧ ammoNum ≥ limit then ⟨[], .limit, gets, ammoNum⟩
    else
      let (a, err) := gDecodeAmmo fixed (json (dropCR l)) (pool gets)
      if err && !coe then ⟨[], .decodeErr, gets + 1, ammoNum⟩
      else
        let a := if err then gInvalidate a else a
        if !chosen a.f.tag then gScan fixed coe json chosen limit pool rest (gets + 1) ammoNum
        else (gScan fixed coe json chosen limit pool rest (gets + 1) (ammoNum + 1)).cons a

/-- the body of that loop for one line: `none` = `start` returns the decode error, `some (sent, ammoNum)` = on to the next
line (`sent` = what went to the sink). `gScan_step` (Proofs) shows `gScan` is this body iterated. -/
def gBody (fixed coe : Bool) (chosen : Bytes → Bool) (parsed : Option GFields) (pooled : GObj) (ammoNum : Nat) :
    Option (Option GObj × Nat) :=
  let (a, err) := gDecodeAmmo fixed parsed pooled
  if err && !coe then none
  else
    let a := if err then gInvalidate a else a
    if !chosen a.f.tag then some (none, ammoNum) else some (some a, ammoNum + 1)

/-- the same loop without a pool: what each line is delivered as is a function of the line -/
def gLineObj (coe : Bool) (json : Bytes → Option GFields) (l : Bytes) : Option GObj :=
  match json (dropCR l) with
  | some f => some ⟨f, 0, false⟩
  | none => if coe then some ⟨GFields.zero, 0, true⟩ else none

def gScanPure (coe : Bool) (json : Bytes → Option GFields) (chosen : Bytes → Bool) (limit : Nat) :
    List Bytes → Nat → Nat → GScan
  | [], gets, ammoNum => ⟨[], .eof, gets, ammoNum⟩
  | l :: rest, gets, ammoNum =>
    if l.length ≥ maxToken then ⟨[], .tooLong, gets, ammoNum⟩
    else if limit ≠ 0 ∧ ammoNum ≥ limit then ⟨[], .limit, gets, ammoNum⟩
    else match gLineObj coe json l with
      | none => ⟨[], .decodeErr, gets + 1, ammoNum⟩
      | some a =>
        if !chosen a.f.tag then gScanPure coe json chosen limit rest (gets + 1) ammoNum
        else (gScanPure coe json chosen limit rest (gets + 1) (ammoNum + 1)).cons a

structure GRunP where
  out : List GObj
  end_ : End
  deriving Repr, DecidableEq

def GRunP.prepend (es : List GObj) (r : GRunP) : GRunP := { r with out := es ++ r.out }

/-- `Provider.start`: passes over the file until the limit / the pass limit is reached (`grpcPassEnd`); `fuel` bounds the
number of passes (`End.fuel` = the bound was not enough; `Proofs/C13Grpc.lean` shows which bound is). -/
def gStart (fixed coe : Bool) (json : Bytes → Option GFields) (chosen : Bytes → Bool) (limit passes : Nat)
    (pool : Nat → GObj) (lines : List Bytes) : Nat → Nat → Nat → Nat → GRunP
  | 0, _, _, _ => ⟨[], .fuel⟩
  | fuel + 1, passNum, gets, ammoNum =>
    let passNum := passNum + 1
    let s := gScan fixed coe json chosen limit pool lines gets ammoNum
    match s.end_ with
    | .decodeErr => ⟨s.out, .err "other"⟩
    | e =>
      match grpcPassEnd true limit passes passNum s.ammoNum (e == .tooLong) with
      | .stop en => ⟨s.out, en⟩
      | .again => (gStart fixed coe json chosen limit passes pool lines fuel passNum s.gets s.ammoNum).prepend s.out

def gStartPure (coe : Bool) (json : Bytes → Option GFields) (chosen : Bytes → Bool) (limit passes : Nat)
    (lines : List Bytes) : Nat → Nat → Nat → Nat → GRunP
  | 0, _, _, _ => ⟨[], .fuel⟩
  | fuel + 1, passNum, gets, ammoNum =>
    let passNum := passNum + 1
    let s := gScanPure coe json chosen limit lines gets ammoNum
    match s.end_ with
    | .decodeErr => ⟨s.out, .err "other"⟩
    | e =>
      match grpcPassEnd true limit passes passNum s.ammoNum (e == .tooLong) with
      | .stop en => ⟨s.out, en⟩
      | .again => (gStartPure coe json chosen limit passes lines fuel passNum s.gets s.ammoNum).prepend s.out

/-- `Provider.Acquire`: the consumer's view of the k-th delivered object (its id is `k + 1`) -/
def gAcquire (k : Nat) (a : GObj) : GObj := gSetID a (k + 1)

/-- passes enough for every run that ends: the pass limit, or one pass per entry of the limit and one more -/
def gFuel (limit passes : Nat) : Nat := if passes ≠ 0 then passes else limit + 1

/-- does a pass reach a line it delivers, before anything that ends the pass? (independent of the counters) -/
def gReaches (coe : Bool) (json : Bytes → Option GFields) (chosen : Bytes → Bool) : List Bytes → Bool
  | [] => false
  | l :: rest =>
    if l.length ≥ maxToken then false
    else match gLineObj coe json l with
      | none => false
      | some a => if !chosen a.f.tag then gReaches coe json chosen rest else true

end Pandora.Model.C13
