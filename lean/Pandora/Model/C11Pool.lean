/-
C11 — a whole pool as programs of the ownership model (core Lean only), round 6.

COMPOSITION with C03: the body of one iteration of `(*instance).Run` (core/engine/instance.go) is NOT modelled again
here. `Pandora.Gen.InstLoop.iterBody : List Instr` is what `gen -area instloop` re-extracts from the current source for
C03, and `Pandora.Model.C03Loop.exec` is C03's sequential interpreter of it (one answer of the environment — Acquire
ok?, Wait ok?, fire or discard? — ↦ the operations on provider / schedule / gun / aggregator / metrics in source order,
the deferred `Release` at the return). This file reads each of those operations as accesses of the sharing model:

    acq      provider.Acquire() returned ammo `a`        take (ammo a)          channel receive: the ammo's token
    empty    Acquire reported the end of the ammo        acc  queue (read)      the provider's queue: synchronised
    tokOk / tokEnd   waiter.Wait → schedule.Next()       acc  schedule (write)  a shared schedule: synchronised
    reqAdd / respAdd metrics.Request/Response.Add(1)     acc  metrics (write)   atomic counters
    shoot    gun.Shoot(ammo)                             own (ammo a) · read the shared definition · write the
                                                         instance's OWN gun · per sample s: take s, own s, give s (Report)
    discard  aggregator.Report(DiscardedShootSample())   per sample: take, own, give
    rel      provider.Release(ammo)                      give (ammo a)          Pool.Put: the token goes back
    bad _    (a statement C03's reader does not know)    a WRITE to the shared definition — never accepted

An instance is thread `i` running any number of iterations, each with its own answers of the environment, its own
ammo object and its own list of samples (a scenario gun reports one sample per step); the loop is left after an
iteration that returns an error. Threads after the instances (provider goroutine, aggregator goroutine) run arbitrary
programs that respect the ownership discipline.

`actsOkFrom` is the ABSTRACT discipline of one iteration — an automaton with one bit (holds an ammo): `acq` only when
nothing is held, `shoot` / `rel` only while holding, nothing unknown, nothing held at the end. `Proofs/C11Pool.lean`
proves the refinement (`actsOkFrom` ⇒ the iteration's program satisfies `progOk` and ends with nothing owned);
`Props/C11.lean` checks `bodyOk Gen.InstLoop.iterBody` by `decide` and derives data-race freedom, gun exclusivity and
ammo exclusivity of the whole pool for every number of instances, every number of iterations, every schedule.
-/
import Pandora.Model.C11Own
import Pandora.Model.C03Loop

namespace Pandora.Model.C11Pool
open Pandora.Model.C11
open Pandora.Model.C03Loop (Instr Oracle Mode Outcome)

/-! ### objects of a pool -/

def oSched : Nat := 0
def oMetrics : Nat := 1
def oQueue : Nat := 2
/-- what all instances read and nobody writes: the scenario definition (steps, templates, metadata, variable sources),
the decoded ammo a preloading provider delivers again, the shared dependencies of the guns -/
def oDef : Nat := 3
def oGun (i : Nat) : Nat := 4 + 3 * i
def oAmmo (k : Nat) : Nat := 5 + 3 * k
def oSample (k : Nat) : Nat := 6 + 3 * k

/-- the classification: schedule, metrics and queue are synchronised objects (lock = the object's own number), the
definition is read-only, gun `i` belongs to instance `i`, every ammo and every sample is a hand-over object whose token
is its own number -/
def poolCls (o : Nat) : Class :=
  if o < 3 then .sharedSync o
  else if o = 3 then .sharedRO
  else if (o - 4) % 3 = 0 then .loc ((o - 4) / 3)
  else .sharedSync o

/-- the gun's dealings with one sample: `netsample.Acquire` (or a new sample), fill it in, `Report` -/
def sampleOps (s : Nat) : List OOp := [.take (oSample s), .own ⟨oSample s, true, 0⟩, .give (oSample s)]

/-- one operation of the iteration (C03's vocabulary) as accesses of instance `i` working on ammo `a`, reporting
samples `ss` -/
def actOps (i a : Nat) (ss : List Nat) : Pandora.Model.C03Loop.Act → List OOp
  | .acq => [.take (oAmmo a)]
  | .empty => [.acc ⟨oQueue, false, 0⟩]
  | .tokOk => [.acc ⟨oSched, true, 0⟩]
  | .tokEnd => [.acc ⟨oSched, true, 0⟩]
  | .reqAdd => [.acc ⟨oMetrics, true, 0⟩]
  | .respAdd => [.acc ⟨oMetrics, true, 0⟩]
  | .shoot => [.own ⟨oAmmo a, true, 0⟩, .acc ⟨oDef, false, 0⟩, .acc ⟨oGun i, true, 0⟩] ++ ss.flatMap sampleOps
  | .discard => ss.flatMap sampleOps
  | .rel => [.give (oAmmo a)]
  | .bad _ => [.acc ⟨oDef, true, 0⟩]

/-- the abstract discipline of one iteration; `h` = an ammo is held -/
def actsOkFrom : Bool → List Pandora.Model.C03Loop.Act → Bool
  | h, [] => !h
  | h, .acq :: r => !h && actsOkFrom true r
  | h, .shoot :: r => h && actsOkFrom h r
  | h, .rel :: r => h && actsOkFrom false r
  | _, .bad _ :: _ => false
  | h, .empty :: r => actsOkFrom h r
  | h, .tokOk :: r => actsOkFrom h r
  | h, .tokEnd :: r => actsOkFrom h r
  | h, .reqAdd :: r => actsOkFrom h r
  | h, .respAdd :: r => actsOkFrom h r
  | h, .discard :: r => actsOkFrom h r

/-- the answers of the environment in one iteration, in C03's vocabulary. Only the three answers the loop body of
`instance.Run` branches on are set; a field C03 may add to `Oracle` for dimensions of its own keeps its default -/
def mkOracle (acqOk waitOk fire : Bool) : Oracle := { acqOk := acqOk, waitOk := waitOk, fire := fire }

/-- the operations of one iteration of `body` under these answers (C03's interpreter) -/
def iterActs (body : List Instr) (a w f : Bool) : List Pandora.Model.C03Loop.Act :=
  (Pandora.Model.C03Loop.exec body (mkOracle a w f) .run none []).1

def iterOutcome (body : List Instr) (a w f : Bool) : Outcome :=
  (Pandora.Model.C03Loop.exec body (mkOracle a w f) .run none []).2

/-- every path of the iteration body keeps the discipline -/
def bodyOk (body : List Instr) : Bool :=
  [false, true].all fun a => [false, true].all fun w => [false, true].all fun f => actsOkFrom false (iterActs body a w f)

/-- what the environment answers in one iteration (Acquire ok? Wait ok? fire or discard?), which ammo `Acquire`
delivers, which samples the shot reports -/
structure Iter where
  acqOk : Bool
  waitOk : Bool
  fire : Bool
  ammo : Nat
  samples : List Nat
  deriving Repr

/-- the IsFinished check (`schedule.Left()`), then the iteration -/
def iterOps (body : List Instr) (i : Nat) (c : Iter) : List OOp :=
  .acc ⟨oSched, false, 0⟩ :: (iterActs body c.acqOk c.waitOk c.fire).flatMap (actOps i c.ammo c.samples)

/-- the loop: an iteration that does not return nil (out of ammo) leaves `Run` -/
def loopOps (body : List Instr) (i : Nat) : List Iter → List OOp
  | [] => []
  | c :: cs => iterOps body i c ++ (if iterOutcome body c.acqOk c.waitOk c.fire = .retNil then loopOps body i cs else [])

/-- `(*instance).Run`: InstanceStart, the loop, the last IsFinished check, InstanceFinish (deferred) -/
def instProg (body : List Instr) (i : Nat) (cs : List Iter) : List OOp :=
  .acc ⟨oMetrics, true, 0⟩ :: (loopOps body i cs ++ [.acc ⟨oSched, false, 0⟩, .acc ⟨oMetrics, true, 0⟩])

/-- the threads of a pool: instance `i` is thread `i`; the other goroutines come after the instances -/
def poolProgs (body : List Instr) (iters : List (List Iter)) (others : List (List OOp)) : List (List OOp) :=
  (iters.zipIdx.map fun (cs, i) => instProg body i cs) ++ others

/-- the tokens a program holds after it ran, starting with `O` -/
def ownedAfter : List Nat → List OOp → List Nat
  | O, [] => O
  | O, .take l :: r => ownedAfter (l :: O) r
  | O, .give l :: r => ownedAfter (O.filter (· != l)) r
  | O, _ :: r => ownedAfter O r

end Pandora.Model.C11Pool
