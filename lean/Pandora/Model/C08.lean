/-
C08 / C14 — executable model of the ammo providers' limit / passes / end-of-ammo logic.

One small machine per provider kind over an abstract ammo file `file : List α` (entry = whatever identifies an
ammo; `n = file.length`).  Go sites mirrored (REPAIRED behaviour where /verif/fixes/C08-*.diff, C14-*.diff exist):

  components/providers/http/decoders/{uri,uripost,raw}.go Scan      `scanStream .eofCheck`
  components/providers/http/decoders/jsonline.go Scan (stream)       `scanStream .topCheck`
  components/providers/http/decoders/jsonline.go scanAmmos (array)   `scanArr`            (fix: pass counted on EVERY last element)
  components/providers/http/decoders/decoder.go LoadAmmo             `loadAmmo`
  components/providers/http/provider.go NewProvider                  decoder gets Limit = 0 (fix C14: provider counts delivered ammo)
  components/providers/http/provider/provider.go runFullScan         `fullScan`           (fix C14: own delivered-counter)
  components/providers/http/provider/provider.go runPreloaded        `preloaded`
  components/providers/http/provider/provider.go Run                 `httpRun`            (fix: preloaded sentinels ↦ nil)
  components/providers/scenario/provider.go Run                      `scenarioRun`        (fix: sentinels ↦ nil, sink closed)
  components/providers/grpc/grpcjson/provider.go start               `grpcLoop`           (fix: leave when the limit is reached)
  components/providers/grpc/provider.go Run                          `grpcRun`
  lib/ioutil2/reader.go MultiPassReader + jsoniter read loop         `decodeNext`
  core/provider/decoder.go DecodeProvider.Run                        `decodeLoop`, `genericRun`

Context cancellation is modelled as a function of what consumers have acquired: `cancelAt = some c` means the
context is cancelled as soon as `c` ammo have been delivered (that is how the correspondence harness cancels);
`ctx.Err() != nil` ⇔ `c ≤ delivered`, and a `select { case <-ctx.Done(): … case sink <- a: }` with a cancelled
context takes the Done branch.  Consumers are always ready to receive (they loop on Acquire), so a send completes.

Every Go `for { … }` loop is a function with explicit fuel; `none` = the loop did not finish within the fuel
(the real loop would still be running).  Termination within an explicit bound is a theorem (Props/C08.lean),
not an assumption.  Partial operations (slice index) are explicit: an out-of-range index ends with `.errOther`.
-/
namespace Pandora.Model.C08

/-- what `Provider.Run` returns, as classes of errors -/
inductive RunRes where
  | nil | canceled | errLimit | errPasses | errNoAmmo | errOther
  deriving DecidableEq, Repr, Inhabited

/-- what one `Decoder.Scan` call returns (entry index into the file, or a sentinel) -/
inductive ScanRes where
  | ammo (i : Nat) | errLimit | errPass | errNoAmmo | unexpected
  deriving DecidableEq, Repr, Inhabited

/-- `0` = bound absent, as in the Go configs -/
structure Bounds where
  limit : Nat
  passes : Nat
  deriving DecidableEq, Repr, Inhabited

structure Outcome (α : Type) where
  delivered : List α        -- what consumers acquired, in order
  run : RunRes              -- what Provider.Run returned
  sinkClosed : Bool         -- the sink channel was closed ⇒ the next Acquire returns ok=false
  deriving Repr

def cancelled (cancelAt : Option Nat) (deliveredSoFar : Nat) : Bool :=
  match cancelAt with
  | some c => decide (c ≤ deliveredSoFar)
  | none => false

/-! ## decoders of components/providers/http/decoders -/

inductive Style where
  | eofCheck   -- uri.go, uripost.go, raw.go: passNum++ and pass check when EOF is hit
  | topCheck   -- jsonline.go (stream of objects): pass check at the top of every loop iteration
  deriving DecidableEq, Repr

/-- protoDecoder counters + read position (index of the next entry, `n` = at EOF) -/
structure Dec where
  pos : Nat
  ammoNum : Nat
  passNum : Nat
  deriving DecidableEq, Repr, Inhabited

def Dec.init : Dec := ⟨0, 0, 0⟩

/-- the `for` loop of `Scan`.  uripost.go literally runs its outer loop at most twice and then fails with
"unexpected behavior"; for the other decoders the loop is unbounded in Go, fuel 2 is enough (`Proofs`: the
`.unexpected` result is unreachable from reachable states). -/
def scanLoop (style : Style) (passes n : Nat) : Nat → Dec → ScanRes × Dec
  | 0, d => (.unexpected, d)
  | fuel + 1, d =>
    if style = .topCheck ∧ passes ≠ 0 ∧ passes ≤ d.passNum then (.errPass, d)
    else if d.pos < n then (.ammo d.pos, { d with pos := d.pos + 1, ammoNum := d.ammoNum + 1 })
    else match style with
      | .eofCheck =>
        let d := { d with passNum := d.passNum + 1 }
        if passes ≠ 0 ∧ passes ≤ d.passNum then (.errPass, d)
        else if d.ammoNum = 0 then (.errNoAmmo, d)
        else scanLoop style passes n fuel { d with pos := 0 }
      | .topCheck =>
        if d.ammoNum = 0 then (.errNoAmmo, d)
        else scanLoop style passes n fuel { d with pos := 0, passNum := d.passNum + 1 }

def scanStream (style : Style) (b : Bounds) (n : Nat) (d : Dec) : ScanRes × Dec :=
  if b.limit ≠ 0 ∧ b.limit ≤ d.ammoNum then (.errLimit, d) else scanLoop style b.passes n 2 d

/-- jsonline.go over a JSON array: `Scan` → `scanAmmos` (position = ammoNum % length). -/
structure ArrDec where
  ammoNum : Nat
  passNum : Nat
  deriving DecidableEq, Repr, Inhabited

def ArrDec.init : ArrDec := ⟨0, 0⟩

def scanArr (b : Bounds) (n : Nat) (d : ArrDec) : ScanRes × ArrDec :=
  if b.limit ≠ 0 ∧ b.limit ≤ d.ammoNum then (.errLimit, d)
  else if n = 0 then (.errNoAmmo, d)
  else if b.passes ≠ 0 ∧ b.passes ≤ d.passNum then (.errPass, d)
  else
    let i := d.ammoNum % n
    (.ammo i, { ammoNum := d.ammoNum + 1, passNum := if i = n - 1 then d.passNum + 1 else d.passNum })

/-! ## components/providers/http/provider -/

/-- `protoDecoder.LoadAmmo`: Passes := 1, Limit := 0, scan until an error; ErrPassLimit ↦ success. -/
def loadAmmo {σ α : Type} (scan : Bounds → σ → ScanRes × σ) (file : List α) : Nat → σ → List α → Option (Except RunRes (List α))
  | 0, _, _ => none
  | fuel + 1, s, acc =>
    match scan ⟨0, 1⟩ s with
    | (.ammo i, s') =>
      match file[i]? with
      | some a => loadAmmo scan file fuel s' (acc ++ [a])
      | none => some (.error .errOther)
    | (.errPass, _) => some (.ok acc)
    | (.errLimit, _) => some (.error .errLimit)
    | (.errNoAmmo, _) => some (.error .errNoAmmo)
    | (.unexpected, _) => some (.error .errOther)

/-- `runFullScan` (with the delivered-counter of fix C14-limit-counts-delivered); the decoder it drives was
constructed with Limit = 0.  Returns delivered ammo and the error of runFullScan. -/
def fullScan {σ α : Type} (scan : σ → ScanRes × σ) (file : List α) (chosen : α → Bool) (limit : Nat)
    (cancelAt : Option Nat) : Nat → σ → List α → Option (List α × RunRes)
  | 0, _, _ => none
  | fuel + 1, s, out =>
    if cancelled cancelAt out.length then some (out, .canceled)
    else if limit ≠ 0 ∧ limit ≤ out.length then some (out, .nil)
    else match scan s with
      | (.ammo i, s') =>
        match file[i]? with
        | some a =>
          if chosen a then fullScan scan file chosen limit cancelAt fuel s' (out ++ [a])
          else fullScan scan file chosen limit cancelAt fuel s' out
        | none => some (out, .errOther)
      | (.errLimit, _) => some (out, .nil)
      | (.errPass, _) => some (out, .nil)
      | (.errNoAmmo, _) => some (out, .errNoAmmo)
      | (.unexpected, _) => some (out, .errOther)

/-- the cyclic replay loop shared (textually) by `runPreloaded` and scenario `Provider.Run`;
`k` = ammoNum.  Returns the RAW error (sentinels included). -/
def preloaded {α : Type} (ammos : List α) (b : Bounds) (cancelAt : Option Nat) : Nat → Nat → List α → Option (List α × RunRes)
  | 0, _, _ => none
  | fuel + 1, k, out =>
    if cancelled cancelAt out.length then some (out, .canceled)
    else if b.passes ≠ 0 ∧ b.passes ≤ k / ammos.length then some (out, .errPasses)
    else if b.limit ≠ 0 ∧ b.limit ≤ k then some (out, .errLimit)
    else match ammos[k % ammos.length]? with
      | some a => preloaded ammos b cancelAt fuel (k + 1) (out ++ [a])
      | none => some (out, .errOther)

def runPreloaded {α : Type} (ammos : List α) (b : Bounds) (cancelAt : Option Nat) (fuel : Nat) : Option (List α × RunRes) :=
  if ammos.length = 0 then some ([], .errNoAmmo) else preloaded ammos b cancelAt fuel 0 []

/-- the sentinel mapping that `Provider.Run` applies (http: after the fix also on the preloaded path) -/
def mapSentinel : RunRes → RunRes
  | .errLimit => .nil
  | .errPasses => .nil
  | r => r

/-- `Provider.Run` of components/providers/http/provider: `defer close(p.Sink)` on every path. -/
def httpRun {σ α : Type} (scan : Bounds → σ → ScanRes × σ) (init : σ) (file : List α) (chosen : α → Bool)
    (preload : Bool) (b : Bounds) (cancelAt : Option Nat) (fuel : Nat) : Option (Outcome α) :=
  if preload then
    match loadAmmo scan file fuel init [] with
    | none => none
    | some (.error e) => some ⟨[], e, true⟩
    | some (.ok ammos) =>
      match runPreloaded (ammos.filter chosen) b cancelAt fuel with
      | none => none
      | some (out, e) => some ⟨out, mapSentinel e, true⟩
  else
    match fullScan (scan ⟨0, b.passes⟩) file chosen b.limit cancelAt fuel init [] with
    | none => none
    | some (out, e) => some ⟨out, e, true⟩

/-- scenario `Provider.Run` (http/scenario and grpc/scenario): the ammo list was built by the constructor. -/
def scenarioRun {α : Type} (ammos : List α) (b : Bounds) (cancelAt : Option Nat) (fuel : Nat) : Option (Outcome α) :=
  match runPreloaded ammos b cancelAt fuel with
  | none => none
  | some (out, e) => some ⟨out, mapSentinel e, true⟩

/-! ## grpc/json -/

/-- state at the condition of the inner `for line := 1; scanner.Scan() && (Limit == 0 || ammoNum < Limit)` loop -/
structure GrpcSt where
  passNum : Nat
  pos : Nat
  ammoNum : Nat
  deriving DecidableEq, Repr, Inhabited

def GrpcSt.init : GrpcSt := ⟨1, 0, 0⟩

/-- `grpcjson.Provider.start`, flattened: one step = one evaluation of the inner loop condition. -/
def grpcLoop {α : Type} (file : List α) (chosen : α → Bool) (b : Bounds) (cancelAt : Option Nat) :
    Nat → GrpcSt → List α → Option (List α × RunRes)
  | 0, _, _ => none
  | fuel + 1, s, out =>
    if s.pos < file.length ∧ (b.limit = 0 ∨ s.ammoNum < b.limit) then
      match file[s.pos]? with
      | some a =>
        if chosen a then
          if cancelled cancelAt out.length then some (out, .nil)            -- select: ctx.Done ⇒ return nil
          else grpcLoop file chosen b cancelAt fuel { s with pos := s.pos + 1, ammoNum := s.ammoNum + 1 } (out ++ [a])
        else grpcLoop file chosen b cancelAt fuel { s with pos := s.pos + 1 } out
      | none => some (out, .errOther)
    else if b.limit ≠ 0 ∧ b.limit ≤ s.ammoNum then some (out, .nil)          -- fix C08-grpcjson-limit-exit
    else if b.passes ≠ 0 ∧ b.passes ≤ s.passNum then some (out, .nil)
    else grpcLoop file chosen b cancelAt fuel { s with passNum := s.passNum + 1, pos := 0 } out   -- Seek(0,0); passNum++

def grpcRun {α : Type} (file : List α) (chosen : α → Bool) (b : Bounds) (cancelAt : Option Nat) (fuel : Nat) : Option (Outcome α) :=
  match grpcLoop file chosen b cancelAt fuel GrpcSt.init [] with
  | none => none
  | some (out, e) => some ⟨out, e, true⟩

/-! ## generic JSON provider: DecodeProvider over MultiPassReader -/

structure Mpr where
  pos : Nat
  passesCount : Nat
  deriving DecidableEq, Repr, Inhabited

def Mpr.init : Mpr := ⟨0, 0⟩

inductive DecodeRes where
  | entry (i : Nat) | eof | spin
  deriving DecidableEq, Repr

/-- `decoder.Decode` on top of `MultiPassReader.Read`: at EOF of the source the reader counts a pass and either
seeks to the start (returning `0, nil`: jsoniter's loadMore loops and reads again) or hands EOF on.
`passes = 1` ⇒ `NewMultiPassReader` returns the source itself.  `.spin` = jsoniter keeps calling Read for ever
(empty source with seek-to-start); fuel 2 suffices otherwise. -/
def decodeNext (passes n : Nat) : Nat → Mpr → DecodeRes × Mpr
  | 0, r => (.spin, r)
  | fuel + 1, r =>
    if r.pos < n then (.entry r.pos, { r with pos := r.pos + 1 })
    else if passes = 1 then (.eof, r)
    else
      let c := r.passesCount + 1
      if passes = 0 ∨ c < passes then decodeNext passes n fuel { pos := 0, passesCount := c }
      else (.eof, { r with passesCount := c })

/-- `DecodeProvider.Run`: `for ; Limit <= 0 || ammoNum < Limit; ammoNum++ { Decode; EOF ⇒ nil; send | ctx.Done ⇒ nil }` -/
def decodeLoop {α : Type} (file : List α) (b : Bounds) (cancelAt : Option Nat) : Nat → Nat → Mpr → List α → Option (List α × RunRes)
  | 0, _, _, _ => none
  | fuel + 1, ammoNum, r, out =>
    if ¬ (b.limit = 0 ∨ ammoNum < b.limit) then some (out, .nil)
    else match decodeNext b.passes file.length 2 r with
      | (.eof, _) => some (out, .nil)
      | (.spin, _) => none
      | (.entry i, r') =>
        match file[i]? with
        | some a =>
          if cancelled cancelAt out.length then some (out, .nil)
          else decodeLoop file b cancelAt fuel (ammoNum + 1) r' (out ++ [a])
        | none => some (out, .errOther)

def genericRun {α : Type} (file : List α) (b : Bounds) (cancelAt : Option Nat) (fuel : Nat) : Option (Outcome α) :=
  match decodeLoop file b cancelAt fuel 0 Mpr.init [] with
  | none => none
  | some (out, e) => some ⟨out, e, true⟩

/-! ## all kinds -/

inductive Kind where
  | uri | uripost | raw | jsonLines | jsonArray | grpcJson | httpScenario | grpcScenario | genericJson
  deriving DecidableEq, Repr, Inhabited

def Kind.isHttp : Kind → Bool
  | .uri | .uripost | .raw | .jsonLines | .jsonArray => true
  | _ => false

structure Input where
  kind : Kind
  preload : Bool            -- only meaningful for the http kinds
  b : Bounds
  cancelAt : Option Nat
  deriving Repr

/-- the provider of `inp.kind` on `file`, `chosen` = the chosencases filter (http kinds; `fun _ => true` = no filter). -/
def runFuel {α : Type} (inp : Input) (file : List α) (chosen : α → Bool) (fuel : Nat) : Option (Outcome α) :=
  match inp.kind with
  | .uri | .uripost | .raw =>
    httpRun (fun b => scanStream .eofCheck b file.length) Dec.init file chosen inp.preload inp.b inp.cancelAt fuel
  | .jsonLines =>
    httpRun (fun b => scanStream .topCheck b file.length) Dec.init file chosen inp.preload inp.b inp.cancelAt fuel
  | .jsonArray =>
    httpRun (fun b => scanArr b file.length) ArrDec.init file chosen inp.preload inp.b inp.cancelAt fuel
  | .grpcJson => grpcRun file (fun _ => true) inp.b inp.cancelAt fuel
  | .httpScenario | .grpcScenario => scenarioRun file inp.b inp.cancelAt fuel
  | .genericJson => genericRun file inp.b inp.cancelAt fuel

/-- core/engine/engine.go `awaitRun` with lib/errutil `IsCtxError`: the pool run fails ("provider failed") on a
provider error unless that error is the run context's own error (nil is never a failure). -/
def poolFailsOnProvider (r : RunRes) (runCtxCancelled : Bool) : Bool :=
  match r with
  | .nil => false
  | .canceled => !runCtxCancelled
  | _ => true

/-- least of the bounds that are present (`0` = absent; `none` = no bound at all) -/
def minPlus (a b : Nat) : Nat := if a = 0 then b else if b = 0 then a else min a b

def target (limit passes perPass : Nat) (cancelAt : Option Nat) : Option Nat :=
  match cancelAt with
  | some c => if limit = 0 ∧ passes = 0 then some c else some (min c (minPlus limit (passes * perPass)))
  | none => if limit = 0 ∧ passes = 0 then none else some (minPlus limit (passes * perPass))

/-- enough fuel for a run that ends after `t` deliveries when every pass over the `n` entries delivers `f ≥ 1`. -/
def fuelFor (t n f : Nat) : Nat := (t / f + 1) * (n + 1) + 2

/-- C08: no filter, file = the entries 0..n-1.  `none` for an unbounded, never cancelled run (fuel 0). -/
def run (inp : Input) (n : Nat) : Option (Outcome Nat) :=
  match target inp.b.limit inp.b.passes n inp.cancelAt with
  | none => none
  | some t => runFuel inp (List.range n) (fun _ => true) (fuelFor t n n)

end Pandora.Model.C08
