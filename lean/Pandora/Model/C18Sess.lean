/-
C18 — sessions: ONE registry that holds SEVERAL registrations, driven by an arbitrary interleaving of operations.

What is mirrored of core/plugin/registry.go beyond Model/C18:
  Registry.Register (its own expectations, the name table created BEFORE the constructor is checked,
                     the duplicate check per (plugin type, name))                      → `exec (.register r)`
  Registry.get (two map lookups: by plugin type, then by name; two different errors)    → `findSlot`, `Out.noEntry`
  Registry.Lookup                                                                        → `exec (.lookup t)`
  Registry.New / NewFactory on the registration that was found                           → `regNew` / `regNewFactory` of Model/C18
  the factories handed out earlier stay alive and may be called at ANY later moment      → `exec (.call h)`

Every registration owns its user code (constructor, default-config function, fault plan) and therefore its own `St`
(configuration objects, invocation counters): slot i of the session.  A factory handle remembers the slot it was made
from, what `NewFactory` handed out and the user settings of ITS creation.
-/
import Pandora.Model.C18

namespace Pandora.Model.C18Sess
open Pandora.Model.C18

/-- one registration: plugin interface (identity of the reflect.Type), name, constructor shape, what the default-config
function returns, the fault plan of this registration's user code -/
structure Reg where
  ptype : Nat
  name : String
  sh : Shape
  dflt : Cfg
  fillFault : Nat → Bool
  ctorFault : Nat → Bool
  factFault : Nat → Bool

/-- the world of one creation on a registration: the registration's defaults and fault plan, the creation's settings -/
def Reg.world (r : Reg) (user : Cfg) (hasFill : Bool) : World :=
  { dflt := r.dflt, user := user, hasFill := hasFill,
    fillFault := r.fillFault, ctorFault := r.ctorFault, factFault := r.factFault }

def formOf (withErr : Bool) : Form := if withErr then .facErr else .facNoErr

/-- the single-creation input a creation on registration `r` corresponds to (`k` is not used by per-step clauses) -/
def Reg.input (r : Reg) (form : Form) (user : Cfg) (hasFill : Bool) : Input :=
  { sh := r.sh, form := form, w := r.world user hasFill, k := 0 }

inductive Op
  | register (r : Reg)
  | new (t : Nat) (n : String) (user : Cfg) (hasFill : Bool)
  | newFactory (t : Nat) (n : String) (withErr : Bool) (user : Cfg) (hasFill : Bool)
  | call (h : Nat)                 -- call the h-th factory handed out so far (in order of successful NewFactory)
  | lookup (t : Nat)

structure Slot where
  reg : Reg
  st : St

structure Handle where
  slot : Nat
  reg : Reg                        -- the registration it was made from (the closure captured its constructor)
  fac : Fac
  withErr : Bool
  user : Cfg
  hasFill : Bool

structure SSt where
  /-- plugin types that own a name table: `Register` creates the table before it checks the constructor, so a refused
  registration leaves an empty table behind (`Lookup` answers true, `get` reports the missing NAME) -/
  types : List Nat
  slots : List Slot
  handles : List Handle

def SSt.empty : SSt := ⟨[], [], []⟩

inductive Out
  | accepted
  | refused                        -- `Register` panicked
  | noEntry (typeKnown : Bool)     -- the error result of `get`: no table for the type / no such name in the table
  | step (slot : Nat) (s : Step)   -- an operation on registration `slot`
  | noHandle                       -- (driver level) a call of a factory that was never handed out
  | found (b : Bool)
deriving DecidableEq, Repr

/-- `Registry.get`: the registration for exactly this plugin type and name -/
def findSlot : List Slot → Nat → String → Option Nat
  | [], _, _ => none
  | s :: ss, t, n => if s.reg.ptype = t ∧ s.reg.name = n then some 0 else (findSlot ss t n).map (· + 1)

def addType (types : List Nat) (t : Nat) : List Nat := if types.contains t then types else types ++ [t]

def setSt (sst : SSt) (i : Nat) (sl : Slot) (st : St) : SSt :=
  { sst with slots := sst.slots.set i { sl with st := st } }

def Handle.world (h : Handle) : World := h.reg.world h.user h.hasFill

/-- one operation -/
def exec (sst : SSt) : Op → SSt × Out
  | .register r =>
    if r.name = "" then (sst, .refused)                         -- expect(name != "") comes first
    else
      let types := addType sst.types r.ptype                    -- the name table is created now
      if (findSlot sst.slots r.ptype r.name).isSome then ({ sst with types := types }, .refused)
      else if !registerOk r.sh then ({ sst with types := types }, .refused)
      else
        ({ sst with types := types, slots := sst.slots ++ [⟨r, initSt r.sh (r.world [] false)⟩] }, .accepted)
  | .new t n user hasFill =>
    match findSlot sst.slots t n with
    | none => (sst, .noEntry (sst.types.contains t))
    | some i =>
      match sst.slots[i]? with
      | none => (sst, .noEntry false)
      | some sl =>
        let r := step (regNew sl.reg.sh (sl.reg.world user hasFill)) sl.st
        (setSt sst i sl r.1, .step i r.2)
  | .newFactory t n withErr user hasFill =>
    match findSlot sst.slots t n with
    | none => (sst, .noEntry (sst.types.contains t))
    | some i =>
      match sst.slots[i]? with
      | none => (sst, .noEntry false)
      | some sl =>
        let c := regNewFactory sl.reg.sh (sl.reg.world user hasFill) (formOf withErr).numOut { sl.st with log := [] }
        match c.2 with
        | .error e => (setSt sst i sl c.1, .step i ⟨c.1.log.reverse, .err e⟩)
        | .ok fac =>
          ({ setSt sst i sl c.1 with handles := sst.handles ++ [⟨i, sl.reg, fac, withErr, user, hasFill⟩] },
           .step i ⟨c.1.log.reverse, .made⟩)
  | .call h =>
    match sst.handles[h]? with
    | none => (sst, .noHandle)
    | some hd =>
      match sst.slots[hd.slot]? with
      | none => (sst, .noHandle)
      | some sl =>
        let r := step (callFac hd.reg.sh hd.world hd.fac) sl.st
        (setSt sst hd.slot sl r.1, .step hd.slot r.2)
  | .lookup t => (sst, .found (sst.types.contains t))

/-- the operations one after the other -/
def runFrom : SSt → List Op → SSt × List Out
  | sst, [] => (sst, [])
  | sst, op :: ops => ((runFrom (exec sst op).1 ops).1, (exec sst op).2 :: (runFrom (exec sst op).1 ops).2)

/-- at the very end: what a pointer-holding product reads in `Conf.Mark` through its config pointer -/
def viewOf (fin : SSt) : Out → Option Int
  | .step i ⟨_, .ok ⟨_, some c, _⟩⟩ =>
    match fin.slots[i]? with
    | some sl => some ((sl.st.heap c).get markField)
    | none => none
  | _ => none

structure SObs where
  outs : List Out
  views : List (Option Int)      -- aligned with `outs`
deriving DecidableEq, Repr

def run (ops : List Op) : SObs :=
  let r := runFrom SSt.empty ops
  ⟨r.2, r.2.map (viewOf r.1)⟩

end Pandora.Model.C18Sess
