/-
C15 — vocabulary for the code that /verif/gen (area `c15flow`) re-extracts from the CURRENT source, core Lean, executable.

1. helpers the regenerated `ParseShootName` / `convertScenarioToAmmo` bodies are written with (`strIdx?`, `condAnd`,
   `argStep`, `addSleepAt`, `appendLoop`, `errClass`): partial Go operations stay explicit (`none` / `.panic`).

2. `ScenarioGun.shootStep` and the loop of `ScenarioGun.shoot` AS CODE: an instruction per statement that matters
   (`SOp`, `POp`, `LOp`) and an interpreter over the model's `World`.  The interpreter follows Go's `err` variable
   literally: a fallible statement ASSIGNS `err`, only `chk` (`if err != nil { return … }`) looks at it — so code
   that forgets a check, checks after the loop instead of inside it, or goes on after a failed step runs in the same
   semantics and exhibits its behaviour (examples in `Props/C15.lean`).  `none` = the code reaches a state the model
   gives no meaning to (a nil response is dereferenced, the body reader is used again without rewinding, …).

   lib: `guns/http_scenario/gun.go`

       stepVars := map[string]any{}; requestVars[step.Name] = stepVars         -- initVars
       if step.Preprocessor != nil {
           preProcVars, err := step.Preprocessor.Process(templateVars)          -- pre
           if err != nil { return … }                                           -- chk
           stepVars["preprocessor"] = preProcVars                               -- storePre
       }
       err := step.Templater.Apply(&reqParts, templateVars, …); if err …        -- template, chk
       req, err := g.prepareRequest(reqParts); if err …                         -- prepare, chk
       resp, err := g.base.Client.Do(req); … if err …                           -- send, chk
       io.ReadAll(resp.Body) / io.Copy(io.Discard, resp.Body); if err …         -- readBody, chk
       for _, postprocessor := range processors {                               -- posts [
           vars, err = postprocessor.Process(resp, respBody); if err …          --   call, chk
           for k, v := range vars { postprocessorVars[k] = v }                  --   merge
           _, err = respBody.Seek(0, io.SeekStart); if err …                    --   rewind, chk ]
       }
       stepVars["postprocessor"] = postprocessorVars                            -- storePost
       sample.SetProtoCode(resp.StatusCode)                                     -- setCode
       g.base.Aggregator.Report(sample)                                         -- report
       if step.Sleep > 0 { time.Sleep(step.Sleep) }                             -- pause

   In the `World` of the model templating and `prepareRequest` are one function (`render`: `template` consumes it,
   `prepare` succeeds on its result), and sending and reading the body are one function (`target`: `send` consumes it,
   `readBody` succeeds on its result).
-/
import Pandora.Model.C15
import Pandora.Model.C15Post

namespace Pandora.Model.C15

/-! ## 1. helpers of the regenerated decoder bodies -/

/-- `xs[i]` on a slice of strings; `none` = index out of range (the Go code panics) -/
def strIdx? (xs : List (List Char)) (i : Int) : Option (List Char) := if 0 ≤ i then xs[i.toNat]? else none

/-- `a && b` where evaluating a side may panic (`none`); `b` is evaluated only when `a` holds -/
def condAnd (a : Option Bool) (b : Unit → Option Bool) : Option Bool :=
  match a with
  | some true => b ()
  | some false => some false
  | none => none

/-- the harness's classification of decoder errors by the constant part of their message -/
def errClass (msg : String) : String :=
  let m := msg.toList
  if isSub "invalid close bracket position".toList m || isSub "failed to parse".toList m then "parse"
  else if isSub "weight should not be negative".toList m then "negweight"
  else if isSub "must follow a request".toList m then "sleepfirst"
  else if isSub "not found".toList m then "notfound"
  else if isSub "a scenario may hold at most".toList m then "toomany"
  else "other:" ++ msg

/-- `if cond { x, err = strconv.Atoi(arg); if err != nil { return …, fmt.Errorf(msg) } }` then continue with `x` -/
def argStep {α} (cond : Option Bool) (arg : Option (List Char)) (conv : List Char → Option Int) (msg : String)
    (cur : Int) (k : Int → Outcome α) : Outcome α :=
  match cond with
  | none => .panic "index"
  | some false => k cur
  | some true =>
    match arg with
    | none => .panic "index"
    | some a =>
      match conv a with
      | some v => k v
      | none => .err (errClass msg)

/-- `xs[i].Sleep += ms` -/
def addSleepAt {ρ} (acc : List (Step ρ)) (i : Int) (ms : Int) : Outcome (List (Step ρ)) :=
  if 0 ≤ i then
    match acc[i.toNat]? with
    | some s => .ok (acc.set i.toNat { s with sleep := s.sleep + ms })
    | none => .panic "index"
  else .panic "index"

/-- `for i := lo; i < hi; i++ { xs = append(xs, st) }` (`incl`: the condition is `i <= hi`) -/
def appendLoop {ρ} (acc : List (Step ρ)) (st : Step ρ) (lo hi : Int) (incl : Bool) : List (Step ρ) :=
  acc ++ List.replicate (if incl then hi - lo + 1 else hi - lo).toNat st

/-! ## 2. `shootStep` / `shoot` as code -/

inductive POp where
  | call      -- `vars, err = postprocessor.Process(resp, respBody)`
  | chk       -- `if err != nil { return … }`
  | merge     -- `for k, v := range vars { postprocessorVars[k] = v }`
  | rewind    -- `_, err = respBody.Seek(0, io.SeekStart)`
deriving Repr, DecidableEq

inductive SOp where
  | initVars | pre | storePre | template | prepare | send | readBody
  | chk
  | posts (body : List POp)
  | storePost | setCode | report | pause
deriving Repr, DecidableEq

/-- what `shoot` does when `shootStep` returned an error -/
inductive LOp where
  | reportErr   -- `g.reportErr(sample, err)`
  | returnErr   -- `return err`
deriving Repr, DecidableEq

structure SState (Req Resp : Type) where
  rv : List (String × Val)
  g : GState Req
  err : Bool := false                              -- the Go variable `err` is non-nil
  pv : Option (List (String × Val)) := none        -- `preProcVars`
  sv : List (String × Val) := []                   -- `stepVars`
  req : Option Req := none                         -- rendered request (`reqParts` after templating)
  prepared : Bool := false
  resp : Option Resp := none
  bodyRead : Bool := false
  postv : List (String × Val) := []                -- `postprocessorVars`
  vars : Option (List (String × Val)) := none      -- `vars` of the postprocessor called last
  fresh : Bool := true                             -- the body reader stands at the start
  code : Int := 0                                  -- proto code of the sample
  tree0 : List (String × Val) := []                -- the tree the templater was given (ghost)

/-- outcome of running a piece of code: it goes on with a new state, it returned (`ret`: the value of `err != nil`),
or it left the model -/
inductive Flow (σ : Type) where
  | go (s : σ)
  | ret (failed : Bool) (s : σ)
  | undef

def runPOps {Req Resp} (w : World Req Resp) (p : Nat) : List POp → SState Req Resp → Flow (SState Req Resp)
  | [], s => .go s
  | .call :: r, s =>
    match s.resp with
    | none => .undef
    | some resp =>
      if !s.fresh || !s.bodyRead then .undef else
      match w.post p resp with
      | none => runPOps w p r { s with err := true, vars := none, fresh := false }
      | some vs => runPOps w p r { s with err := false, vars := some vs, fresh := false }
  | .chk :: r, s => if s.err then .ret true s else runPOps w p r s
  | .merge :: r, s =>
    runPOps w p r { s with postv := (s.vars.getD []).foldl (fun a kv => setKey kv.1 kv.2 a) s.postv }
  | .rewind :: r, s => runPOps w p r { s with err := false, fresh := true }

def runPostLoop {Req Resp} (w : World Req Resp) (body : List POp) : List Nat → SState Req Resp → Flow (SState Req Resp)
  | [], s => .go s
  | p :: ps, s =>
    match runPOps w p body s with
    | .go s' => runPostLoop w body ps s'
    | .ret f s' => .ret f s'
    | .undef => .undef

def runSOps {Req Resp} (w : World Req Resp) (source : Val) (tag : String) (st : Step ReqDef) :
    List SOp → SState Req Resp → Flow (SState Req Resp)
  | [], s => .ret false s                  -- falling off the end is `return nil`
  | .initVars :: r, s => runSOps w source tag st r { s with sv := [], rv := setKey st.req.name (.map []) s.rv }
  | .pre :: r, s =>
    let res : Outcome (List (String × Val) × Iter) :=
      match st.req.pre with
      | none => .ok ([], s.g.iter)
      | some m => runPre w.fn (tree source s.rv) st.req.iter m [] s.g.iter
    (match res with
     | .panic _ => .undef
     | .err _ => runSOps w source tag st r { s with err := true, pv := none }
     | .ok (pv, it') => runSOps w source tag st r { s with err := false, pv := some pv, g := { s.g with iter := it' } })
  | .storePre :: r, s =>
    let sv := setKey "preprocessor" (.map (s.pv.getD [])) s.sv
    runSOps w source tag st r { s with sv := sv, rv := setKey st.req.name (.map sv) s.rv }
  | .template :: r, s =>
    let t := tree source s.rv
    let g := { s.g with seen := s.g.seen ++ [t],
                        recs := s.g.recs ++ [{ name := st.req.name, pre := s.pv.getD [], post := none }] }
    (match w.render st.req t with
     | none => runSOps w source tag st r { s with err := true, req := none, g := g, tree0 := t }
     | some q => runSOps w source tag st r { s with err := false, req := some q, g := g, tree0 := t })
  | .prepare :: r, s =>
    (match s.req with
     | none => .undef
     | some _ => runSOps w source tag st r { s with err := false, prepared := true })
  | .send :: r, s =>
    (match s.req with
     | none => .undef
     | some q =>
       if !s.prepared then .undef else
       let g := { s.g with hist := s.g.hist ++ [q], log := s.g.log ++ [.request q] }
       match w.target g.hist with
       | none => runSOps w source tag st r { s with err := true, resp := none, g := g }
       | some resp => runSOps w source tag st r { s with err := false, resp := some resp, g := g })
  | .readBody :: r, s =>
    (match s.resp with
     | none => .undef
     | some _ => runSOps w source tag st r { s with err := false, bodyRead := true })
  | .chk :: r, s => if s.err then .ret true s else runSOps w source tag st r s
  | .posts body :: r, s =>
    (match runPostLoop w body st.req.posts { s with postv := [] } with
     | .go s' => runSOps w source tag st r s'
     | .ret f s' => .ret f s'
     | .undef => .undef)
  | .storePost :: r, s =>
    let sv := setKey "postprocessor" (.map s.postv) s.sv
    let rec' : StepRec := { name := st.req.name, pre := s.pv.getD [], post := some s.postv }
    let g' : GState Req := { s.g with recs := s.g.recs.dropLast ++ [rec'] }
    runSOps w source tag st r { s with sv := sv, rv := setKey st.req.name (.map sv) s.rv, g := g' }
  | .setCode :: r, s =>
    (match s.resp with
     | none => .undef
     | some resp => runSOps w source tag st r { s with code := w.code resp })
  | .report :: r, s => runSOps w source tag st r { s with g := { s.g with log := s.g.log ++ [.sample tag s.code false] } }
  | .pause :: r, s =>
    runSOps w source tag st r (if st.sleep > 0 then { s with g := { s.g with log := s.g.log ++ [.pause st.sleep] } } else s)

/-- one iteration of the loop of `shoot`: run the step's code; when it returned an error, what `onErr` says -/
def runStepCode {Req Resp} (w : World Req Resp) (source : Val) (scName : String) (code : List SOp) (onErr : List LOp)
    (st : Step ReqDef) (rv : List (String × Val)) (g : GState Req) : Option (Bool × Bool × List (String × Val) × GState Req) :=
  let tag := scName ++ "." ++ st.req.name
  match runSOps w source tag st code { rv, g } with
  | .undef => none
  | .go _ => none
  | .ret false s => some (true, false, s.rv, s.g)
  | .ret true s =>
    let g := if onErr.contains .reportErr then { s.g with log := s.g.log ++ [.sample (failTag tag) 0 true] } else s.g
    some (false, onErr.contains .returnErr, s.rv, g)

/-- the loop of `shoot` over the steps, with the code of the step and of the error branch as parameters:
`(every step so far succeeded, state)` -/
def runShootCode {Req Resp} (w : World Req Resp) (source : Val) (scName : String) (code : List SOp) (onErr : List LOp) :
    List (Step ReqDef) → List (String × Val) → GState Req → Bool → Option (Bool × GState Req)
  | [], _, g, okSoFar => some (okSoFar, g)
  | st :: rest, rv, g, okSoFar =>
    match runStepCode w source scName code onErr st rv g with
    | none => none
    | some (true, _, rv', g') => runShootCode w source scName code onErr rest rv' g' okSoFar
    | some (false, true, _, g') => some (false, g')
    | some (false, false, rv', g') => runShootCode w source scName code onErr rest rv' g' false

/-- the code of `shootStep` as it is in the repository (what `Gen.C15Flow.stepCode` must be: `Bridge.C15Flow.stepCode_eq`) -/
def stepCode : List SOp :=
  [.initVars, .pre, .chk, .storePre, .template, .chk, .prepare, .chk, .send, .chk, .readBody, .chk,
   .posts [.call, .chk, .merge, .rewind, .chk], .storePost, .setCode, .report, .pause]

/-- the error branch of the loop of `shoot` -/
def onStepErr : List LOp := [.reportErr, .returnErr]

end Pandora.Model.C15
