/-
C13, round 4 (second part) — the rows a csv variable source makes of its file
(components/providers/scenario/vs/vs_csv.go `readCsv`, reached from the scenario providers' `NewProvider` through
`config.ExtractVariableStorage` → `VariableSourceCsv.Init`).

`encoding/csv` is a library: what `csv.Reader.Read` gives for the file with the separator chosen is a parameter of the
model (`parse : UInt8 → Option (List (List Bytes))`, `none` = the reader reports an error). The logic of `readCsv`
itself is modelled in full, with its partial operations explicit:

* `delimiter[0]` (`csvOpen`, Model/C13Cfg.lean),
* the names of the columns: the configured `fields` (spaces replaced), or - when there are none - the first record,
* `ignore_first_line`,
* one row per record: `row[field] = record[i]` for the i-th column, where `record[i]` is a partial operation - the file
  may have fewer columns than the configuration names (`guarded = true`: `if i >= len(record) { row[field] = "" }` of
  /repo; `guarded = false`: the assignment without that test), a column without a name is called by its index.

Core Lean only.
-/
import Pandora.Model.C13Cfg

namespace Pandora.Model.C13

/-- `strings.Replace(f, " ", "_", -1)` -/
def underscored (f : Bytes) : Bytes := f.map fun b => if b == 32 then 95 else b

def itoaAux : Nat → Nat → Bytes → Bytes
  | 0, _, acc => acc
  | fuel + 1, n, acc =>
    let acc := UInt8.ofNat (48 + n % 10) :: acc
    if n / 10 = 0 then acc else itoaAux fuel (n / 10) acc

/-- `strconv.Itoa` of an index -/
def itoaBytes (n : Nat) : Bytes := itoaAux (n + 1) n []

/-- the assignments `row[field] = …` of one record, in order (`i` = index of the first of `fields`) -/
def csvRowFrom (guarded : Bool) (record : List Bytes) : List Bytes → Nat → Res (List (Bytes × Bytes))
  | [], _ => .ok []
  | f :: fs, i =>
    let key := if f = [] then itoaBytes i else f
    let cell : Res Bytes := if guarded ∧ i ≥ record.length then .ok [] else indexC record (i : Int)
    cell.bind fun v => (csvRowFrom guarded record fs (i + 1)).bind fun rest => .ok ((key, v) :: rest)

/-- the names of the columns: the configured ones, or - when there are none - the record at hand -/
def csvCols (fields record : List Bytes) : List Bytes :=
  if fields.length = 0 then record.map underscored else fields

/-- the loop of `readCsv` over the records the reader hands out -/
def csvRows (guarded : Bool) : List (List Bytes) → List Bytes → Bool → Res (List (List (Bytes × Bytes)))
  | [], _, _ => .ok []
  | record :: more, fields, ign =>
    let fields := csvCols fields record
    if ign then csvRows guarded more fields false
    else (csvRowFrom guarded record fields 0).bind fun row =>
      (csvRows guarded more fields false).bind fun rest => .ok (row :: rest)

/-- `readCsv`: `guardedD` / `guardedR` = the test in front of `delimiter[0]` / of `record[i]` is there -/
def readCsvModel (guardedD guardedR : Bool) (parse : UInt8 → Option (List (List Bytes)))
    (ign : Bool) (delimiter : Bytes) (fields : List Bytes) : Res (List (List (Bytes × Bytes))) :=
  (csvOpen guardedD delimiter).bind fun c =>
    match parse c with
    | none => .err "csv"
    | some records => csvRows guardedR records (fields.map underscored) ign

/-- a row as the map it is: a later assignment to the same name wins -/
def rowLookup (row : List (Bytes × Bytes)) (k : Bytes) : Option Bytes :=
  (row.reverse.find? fun kv => kv.1 == k).map (·.2)

end Pandora.Model.C13
