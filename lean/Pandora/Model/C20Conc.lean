/-
C20 — small-step model of gRPC scenario metadata rendering by N concurrent instances (core Lean only).

What the code does (components/guns/grpc/scenario):

  shootStep:  payload, err := templ.Apply(step.Payload, step.Metadata, vars, scenario, step.Name)
              …
              ctx = metadata.NewOutgoingContext(ctx, metadata.New(step.Metadata))

  TextTemplater.Apply (templater_text.go):
              for k, v := range metadata {
                  tmpl := cache[scenario_step_k]  or  parse(v) (and cache it)      -- cache is per gun
                  metadata[k] = execute(tmpl, vars)                                 -- IN PLACE
              }

`step.Metadata` is the map of the scenario *definition*: `Scenario.Clone()` copies the header only, so all
instances (and all scenarios using the same call) share it.

The model has one shared metadata map (values in a fixed key order; a value is a template, a rendered text is the
template `[lit text]`, so "parse" is the identity) and any number of instance threads, each with its own template
cache and its own list of shots (variable assignments). A schedule is an arbitrary list of thread indices; each
element runs ONE atomic action of that thread (one map cell read/written), so every interleaving at map-cell
granularity is covered.

Two variants:
* `stepInPlace` — the code as written above (render into the shared map, then read it back for sending);
* `stepCopy`   — the repaired code (fixes/C20-metadata-copy.diff): copy the map, render into the copy, send the copy.

Text is `List κ` for an arbitrary character type κ (the driver uses `Char`, the counterexample `Nat`).
-/
namespace Pandora.Model.C20Conc

/-- a template piece: literal text or a variable reference (variables are numbered) -/
inductive Piece (κ : Type) where
  | lit (s : List κ)
  | var (n : Nat)
  deriving Repr, DecidableEq

abbrev Tmpl (κ : Type) := List (Piece κ)

/-- variable assignment of one shot: variable number ↦ text (missing ↦ empty) -/
abbrev Vars (κ : Type) := List (Nat × List κ)

def lookupVar {κ} (vs : Vars κ) (n : Nat) : List κ :=
  match vs with
  | [] => []
  | (m, t) :: rest => if m = n then t else lookupVar rest n

/-- execute a template -/
def render {κ} (vs : Vars κ) : Tmpl κ → List κ
  | [] => []
  | Piece.lit s :: rest => s ++ render vs rest
  | Piece.var n :: rest => lookupVar vs n ++ render vs rest

/-- the text of a cell that holds a rendered value (`[lit s]`); for an unrendered template the literal parts -/
def cellText {κ} : Tmpl κ → List κ
  | [] => []
  | Piece.lit s :: rest => s ++ cellText rest
  | Piece.var _ :: rest => cellText rest

/-- a rendered value stored back into a map cell -/
def rendered {κ} (vs : Vars κ) (t : Tmpl κ) : Tmpl κ := [Piece.lit (render vs t)]

theorem cellText_rendered {κ} (vs : Vars κ) (t : Tmpl κ) : cellText (rendered vs t) = render vs t := by
  simp [rendered, cellText]

/-- per-gun template cache: key index ↦ template parsed at first sight -/
abbrev Cache (κ : Type) := List (Nat × Tmpl κ)

def cacheGet {κ} (c : Cache κ) (j : Nat) : Option (Tmpl κ) :=
  match c with
  | [] => none
  | (i, t) :: rest => if i = j then some t else cacheGet rest j

/-- `getTemplate`: cached template, or parse what is in the cell now and cache it -/
def getTemplate {κ} (c : Cache κ) (j : Nat) (cell : Tmpl κ) : Tmpl κ × Cache κ :=
  match cacheGet c j with
  | some t => (t, c)
  | none => (cell, (j, cell) :: c)

/-- where a thread is inside one shot -/
inductive Phase (κ : Type) where
  | idle
  /-- (copy variant) copying the shared map: cells copied so far -/
  | copying (acc : List (Tmpl κ))
  /-- (copy variant) rendering the private copy: cells done, cells to do -/
  | applyLoc (done rest : List (Tmpl κ))
  /-- (copy variant) metadata.New over the private copy: texts read, cells to read -/
  | readLoc (out : List (List κ)) (rest : List (Tmpl κ))
  /-- (in-place variant) rendering the shared map, next key index -/
  | applySh (j : Nat)
  /-- (in-place variant) metadata.New over the shared map: texts read, next key index -/
  | readSh (out : List (List κ)) (j : Nat)
  deriving Repr

structure Thread (κ : Type) where
  /-- variables of the shots still to do (head = current shot) -/
  shots : List (Vars κ)
  phase : Phase κ
  cache : Cache κ
  /-- metadata values (key order) sent by the completed shots -/
  sent : List (List (List κ))
  deriving Repr

structure State (κ : Type) where
  shared : List (Tmpl κ)
  threads : List (Thread κ)
  deriving Repr

def init {κ} (tmpls : List (Tmpl κ)) (shots : List (List (Vars κ))) : State κ :=
  { shared := tmpls, threads := shots.map fun s => { shots := s, phase := Phase.idle, cache := [], sent := [] } }

/-- one atomic action of a thread of the REPAIRED code; returns the thread (the shared map is only read) -/
def threadStepCopy {κ} (shared : List (Tmpl κ)) (th : Thread κ) : Thread κ :=
  match th.shots with
  | [] => th
  | vs :: more =>
    match th.phase with
    | Phase.idle => { th with phase := Phase.copying [] }
    | Phase.copying acc =>
      match shared[acc.length]? with
      | some c => { th with phase := Phase.copying (acc ++ [c]) }
      | none => { th with phase := Phase.applyLoc [] acc }
    | Phase.applyLoc done rest =>
      match rest with
      | c :: rest' =>
        let (t, cache') := getTemplate th.cache done.length c
        { th with phase := Phase.applyLoc (done ++ [rendered vs t]) rest', cache := cache' }
      | [] => { th with phase := Phase.readLoc [] done }
    | Phase.readLoc out rest =>
      match rest with
      | c :: rest' => { th with phase := Phase.readLoc (out ++ [cellText c]) rest' }
      | [] => { th with shots := more, phase := Phase.idle, sent := th.sent ++ [out] }
    -- phases of the other variant are not reachable; treat as idle
    | Phase.applySh _ => { th with phase := Phase.idle }
    | Phase.readSh _ _ => { th with phase := Phase.idle }

/-- one atomic action of a thread of the code AS WRITTEN; returns the new shared map and thread -/
def threadStepInPlace {κ} (shared : List (Tmpl κ)) (th : Thread κ) : List (Tmpl κ) × Thread κ :=
  match th.shots with
  | [] => (shared, th)
  | vs :: more =>
    match th.phase with
    | Phase.idle => (shared, { th with phase := Phase.applySh 0 })
    | Phase.applySh j =>
      match shared[j]? with
      | some c =>
        let (t, cache') := getTemplate th.cache j c
        (shared.set j (rendered vs t), { th with phase := Phase.applySh (j + 1), cache := cache' })
      | none => (shared, { th with phase := Phase.readSh [] 0 })
    | Phase.readSh out j =>
      match shared[j]? with
      | some c => (shared, { th with phase := Phase.readSh (out ++ [cellText c]) (j + 1) })
      | none => (shared, { th with shots := more, phase := Phase.idle, sent := th.sent ++ [out] })
    | Phase.copying _ => (shared, { th with phase := Phase.idle })
    | Phase.applyLoc _ _ => (shared, { th with phase := Phase.idle })
    | Phase.readLoc _ _ => (shared, { th with phase := Phase.idle })

def stepCopy {κ} (st : State κ) (i : Nat) : State κ :=
  match st.threads[i]? with
  | none => st
  | some th => { st with threads := st.threads.set i (threadStepCopy st.shared th) }

def stepInPlace {κ} (st : State κ) (i : Nat) : State κ :=
  match st.threads[i]? with
  | none => st
  | some th =>
    let (sh, th') := threadStepInPlace st.shared th
    { shared := sh, threads := st.threads.set i th' }

/-- run a schedule (any list of thread indices; out-of-range indices and finished threads stutter) -/
def runCopy {κ} (st : State κ) (sched : List Nat) : State κ := sched.foldl stepCopy st
def runInPlace {κ} (st : State κ) (sched : List Nat) : State κ := sched.foldl stepInPlace st

/-- what the property demands a shot with variables `vs` sends: every template rendered with ITS variables -/
def expected {κ} (tmpls : List (Tmpl κ)) (vs : Vars κ) : List (List κ) := tmpls.map (render vs)

/-- let thread `i` run alone until it has completed one more shot (fuel = 3·cells + 4 suffices) -/
def runShot {κ} (step : State κ → Nat → State κ) (st : State κ) (i : Nat) : State κ :=
  let target := (st.threads[i]?.map (·.sent.length)).getD 0 + 1
  let rec go (fuel : Nat) (st : State κ) : State κ :=
    match fuel with
    | 0 => st
    | fuel + 1 =>
      if (st.threads[i]?.map (·.sent.length)).getD 0 ≥ target then st else go fuel (step st i)
  go (3 * st.shared.length + 4) st

end Pandora.Model.C20Conc
